/-
Helper lemmas for C09 at the level of whole conversions (`Props/C09Doc.lean`): the lift of the normaliser theorems
to `Pipeline.convert`, and blank-line padding through the raw-HTML preprocessor, the block parser, the inline
processor and `prettify`.  Core Lean only.

Imports `Lemmas/BlockFuel.lean` (totality of the block parser); that file and `Lemmas/BlockLocal.lean` define the same
names, so the few facts of the latter that are needed here (`dispatch` hands the pending blocks back untouched, the
loop on `bs ++ extra`) are re-proved in this namespace.
-/
import MdVerif.Model.Pipeline
import MdVerif.Spec.Normalize
import MdVerif.Lemmas.Normalize
import MdVerif.Lemmas.PyBasic
import MdVerif.Lemmas.BlockFuel
import MdVerif.Lemmas.InlineFuel

namespace MdVerif.NormDoc
open Py Normalize

/-! ### 1. the lift -/

/-- `convert` reads the source through three observations only -/
theorem convert_factors (cfg : Pipeline.Cfg) {s s' : Str} (h1 : s.contains '<' = s'.contains '<')
    (h2 : isBlankDoc s = isBlankDoc s') (h3 : normalize cfg.tab s = normalize cfg.tab s') :
    Pipeline.convert cfg s = Pipeline.convert cfg s' := by
  simp only [Pipeline.convert, Pipeline.tree, Pipeline.prepare, h1, h2, h3]

/-! ### 2. the three observations under the variations -/

theorem contains_eq_of_mem_iff {s s' : Str} {c : Char} (h : c ∈ s ↔ c ∈ s') : s.contains c = s'.contains c := by
  cases h1 : s.contains c <;> cases h2 : s'.contains c <;> simp_all

theorem isBlankDoc_eq_of_all {s s' : Str} (h : s.all isSpace = s'.all isSpace) : isBlankDoc s = isBlankDoc s' := by
  rw [isBlankDoc_eq_all, isBlankDoc_eq_all, h]

/-- a respelling with line terminators: every character class that contains `\n` and `\r` holds of the respelling iff
    it holds of the lines -/
theorem respell_all (p : Char → Bool) (hn : p '\n' = true) (hr : p '\r' = true) (ls es : List Str)
    (he : ∀ e ∈ es, isTerminator e = true) :
    (respell es ls).all p = ls.all (fun l => l.all p) := by
  induction ls generalizing es with
  | nil => rfl
  | cons l ls ih =>
    cases ls with
    | nil => simp [respell]
    | cons l' rest =>
      have he' : ∀ e ∈ es.tail, isTerminator e = true := fun e h => he e (List.mem_of_mem_tail h)
      have ht : (es.headD LF).all p = true := by
        rcases isTerminator_cases (headD_terminator es he) with h | h | h <;> rw [h] <;> simp [LF, CR, CRLF, hn, hr]
      rw [respell_cons_cons, List.all_append, List.all_append, ih es.tail he', ht]
      simp

theorem respell_contains_lt (ls es₁ es₂ : List Str) (h₁ : ∀ e ∈ es₁, isTerminator e = true)
    (h₂ : ∀ e ∈ es₂, isTerminator e = true) :
    (respell es₁ ls).contains '<' = (respell es₂ ls).contains '<' := by
  have key : ∀ es, (∀ e ∈ es, isTerminator e = true) →
      (respell es ls).contains '<' = !(ls.all (fun l => l.all (· != '<'))) := by
    intro es he
    rw [← respell_all (· != '<') (by decide) (by decide) ls es he]
    cases hc : (respell es ls).contains '<'
    · symm; simp only [Bool.not_eq_false']
      rw [List.all_eq_true]; intro c hm
      simp only [bne_iff_ne, ne_eq]; rintro rfl
      have : (respell es ls).contains '<' = true := by simpa using hm
      rw [hc] at this; cases this
    · symm; simp only [Bool.not_eq_true']
      rw [Bool.eq_false_iff]; intro hall
      have hm : '<' ∈ respell es ls := by simpa using hc
      have := List.all_eq_true.1 hall _ hm
      simp at this
  rw [key es₁ h₁, key es₂ h₂]

theorem respell_isBlankDoc (ls es₁ es₂ : List Str) (h₁ : ∀ e ∈ es₁, isTerminator e = true)
    (h₂ : ∀ e ∈ es₂, isTerminator e = true) :
    isBlankDoc (respell es₁ ls) = isBlankDoc (respell es₂ ls) := by
  apply isBlankDoc_eq_of_all
  rw [respell_all isSpace (by decide) (by decide) ls es₁ h₁, respell_all isSpace (by decide) (by decide) ls es₂ h₂]

theorem join_eq_respell' (e : Str) (ls : List Str) : join e ls = respell (List.replicate ls.length e) ls :=
  join_eq_respell e ls ls.length (by omega)

theorem stripCtl_contains_lt (s : Str) : (stripCtl s).contains '<' = s.contains '<' := by
  apply contains_eq_of_mem_iff
  rw [mem_stripCtl]
  constructor
  · exact fun h => h.1
  · exact fun h => ⟨h, by decide, by decide⟩

/-! ### 3. the raw-HTML preprocessor in front of and behind a line feed

`extract` copies everything but `&`; at an `&` it looks ahead for a character or entity reference, which ends before
the next line feed, and for a `;` anywhere behind.  So what it makes of the text in front of a line feed does not
depend on a `&`- and `;`-free text behind that line feed. -/

open Extract in
theorem goahead_no_amp (e : Bool) (s : Str) (h : '&' ∉ s) : ∀ f, s.length ≤ f → goahead e f s = (s, []) := by
  induction s with
  | nil => intro f _; cases f <;> rfl
  | cons c r ih =>
    intro f hf
    obtain ⟨f', rfl⟩ : ∃ f', f = f' + 1 := ⟨f - 1, by simp at hf; omega⟩
    have hc : c ≠ '&' := fun e => h (e ▸ List.mem_cons_self)
    have := ih (fun hh => h (List.mem_cons_of_mem _ hh)) f' (by simp at hf; omega)
    simp [goahead, hc, this]

/-- a leading line feed is copied -/
theorem extract_cons_nl (X : Str) : Extract.extract ('\n' :: X) = '\n' :: Extract.extract X := by
  simp only [Extract.extract, List.length_cons, Extract.goahead, show (('\n' : Char) != '&') = true by decide,
    if_true]
  rfl

theorem extract_replicate_nl_append (k : Nat) (X : Str) :
    Extract.extract (List.replicate k '\n' ++ X) = List.replicate k '\n' ++ Extract.extract X := by
  induction k with
  | zero => rfl
  | succ k ih => rw [List.replicate_succ, List.cons_append, extract_cons_nl, ih]; rfl

theorem getElem?_append_nl (A Y : Str) (q : Nat) (hq : q ≤ A.length) : (A ++ '\n' :: Y)[q]? = (A ++ ['\n'])[q]? := by
  by_cases h : q < A.length
  · rw [List.getElem?_append_left h, List.getElem?_append_left h]
  · have : q = A.length := by omega
    subst this
    simp

theorem spanLen_append_nl (p : Char → Bool) (hp : p '\n' = false) (A Y : Str) :
    spanLen p (A ++ '\n' :: Y) = spanLen p A := by
  induction A with
  | nil => simp [spanLen_cons, hp]
  | cons c A ih => simp only [List.cons_append, spanLen_cons, ih]

open Extract in
theorem nonHexAt_append_nl (A Y : Str) (q : Nat) (hq : q ≤ A.length) :
    nonHexAt (A ++ '\n' :: Y) q = nonHexAt (A ++ ['\n']) q := by
  simp only [nonHexAt, getElem?_append_nl A Y q hq]

open Extract in
theorem charrefAt_amp_hash (r : Str) : charrefAt ('&' :: '#' :: r) =
    if spanLen isAsciiDigit r > 0 && nonHexAt r (spanLen isAsciiDigit r) then some (spanLen isAsciiDigit r + 3)
    else match r with
         | x :: r2 =>
           if x = 'x' || x = 'X' then
             if spanLen isHexDigit r2 > 0 && nonHexAt r2 (spanLen isHexDigit r2) then some (spanLen isHexDigit r2 + 4)
             else none
           else none
         | [] => none := rfl

theorem isAsciiAlpha_nl : isAsciiAlpha '\n' = false := by decide

open Extract in
theorem charrefAt_indep (A Y : Str) :
    charrefAt ('&' :: '#' :: (A ++ '\n' :: Y)) = charrefAt ('&' :: '#' :: (A ++ ['\n'])) := by
  have h1 := spanLen_append_nl isAsciiDigit (by decide) A Y
  have h1' := spanLen_append_nl isAsciiDigit (by decide) A []
  have hle := spanLen_le isAsciiDigit A
  simp only [charrefAt_amp_hash, h1, h1', nonHexAt_append_nl A Y _ hle]
  cases A with
  | nil => simp
  | cons x A2 =>
    have h2 := spanLen_append_nl isHexDigit (by decide) A2 Y
    have h2' := spanLen_append_nl isHexDigit (by decide) A2 []
    have hle2 := spanLen_le isHexDigit A2
    simp only [List.cons_append, h2, h2', nonHexAt_append_nl A2 Y _ hle2]

open Extract in
theorem charrefAt_bound (A : Str) {e : Nat} (h : charrefAt ('&' :: '#' :: (A ++ ['\n'])) = some e) :
    3 ≤ e ∧ e ≤ A.length + 3 := by
  have h1' := spanLen_append_nl isAsciiDigit (by decide) A []
  have hle := spanLen_le isAsciiDigit A
  simp only [charrefAt_amp_hash, h1'] at h
  split at h
  · injection h with h; omega
  · cases A with
    | nil => simp at h
    | cons x A2 =>
      have h2' := spanLen_append_nl isHexDigit (by decide) A2 []
      have hle2 := spanLen_le isHexDigit A2
      simp only [List.cons_append, h2'] at h
      split at h
      · split at h
        · injection h with h; simp; omega
        · cases h
      · cases h

open Extract in
theorem entityrefAt_indep (X' Y : Str) :
    entityrefAt ('&' :: (X' ++ '\n' :: Y)) = entityrefAt ('&' :: (X' ++ ['\n'])) := by
  cases X' with
  | nil => simp [entityrefAt, isAsciiAlpha_nl]
  | cons c B =>
    have h1 := spanLen_append_nl (fun d => isAsciiAlnum d || d = '-' || d = '.') (by decide) B Y
    have h1' := spanLen_append_nl (fun d => isAsciiAlnum d || d = '-' || d = '.') (by decide) B []
    have hle := spanLen_le (fun d => isAsciiAlnum d || d = '-' || d = '.') B
    simp only [entityrefAt, List.cons_append, h1, h1', getElem?_append_nl B Y _ hle]

open Extract in
theorem entityrefAt_bound (X' : Str) {e : Nat} (h : entityrefAt ('&' :: (X' ++ ['\n'])) = some e) :
    3 ≤ e ∧ e ≤ X'.length + 1 := by
  cases X' with
  | nil => simp [entityrefAt, isAsciiAlpha_nl] at h
  | cons c B =>
    have h1' := spanLen_append_nl (fun d => isAsciiAlnum d || d = '-' || d = '.') (by decide) B []
    have hle := spanLen_le (fun d => isAsciiAlnum d || d = '-' || d = '.') B
    simp only [entityrefAt, List.cons_append, h1'] at h
    split at h
    · split at h
      · rename_i hsemi
        injection h with h
        have hq : spanLen (fun d => isAsciiAlnum d || d = '-' || d = '.') B < B.length := by
          by_cases hlt : spanLen (fun d => isAsciiAlnum d || d = '-' || d = '.') B < B.length
          · exact hlt
          · have : spanLen (fun d => isAsciiAlnum d || d = '-' || d = '.') B = B.length := by omega
            rw [this] at hsemi
            simp at hsemi
        simp; omega
      · cases h
    · cases h

section GoAhead
open Extract

theorem goahead_cons_ne (e : Bool) (f : Nat) {c : Char} (hc : c ≠ '&') (r : Str) :
    goahead e (f + 1) (c :: r) = (c :: (goahead e f r).1, (goahead e f r).2) := by
  simp [goahead, hc]

theorem goahead_amp_hash (e : Bool) (f : Nat) (A : Str) :
    goahead e (f + 1) ('&' :: '#' :: A) =
      match charrefAt ('&' :: '#' :: A) with
      | some e0 =>
        ('&' :: '#' :: slice ('&' :: '#' :: A) 2 (e0 - 1) ++ ';' ::
            (goahead e f (('&' :: '#' :: A).drop (if ('&' :: '#' :: A)[e0 - 1]? == some ';' then e0 else e0 - 1))).1,
          (goahead e f (('&' :: '#' :: A).drop (if ('&' :: '#' :: A)[e0 - 1]? == some ';' then e0 else e0 - 1))).2)
      | none =>
        if ('&' :: '#' :: A).contains ';' then leave e ['&', '#'] A else leave e [] ('&' :: '#' :: A) := by
  have hsw : startsWith ('#' :: A) ['#'] = true := by
    rw [startsWith_cons_cons, Py.startsWith_nil]; rfl
  simp only [goahead, show (('&' : Char) != '&') = false by decide, Bool.false_eq_true, if_false, hsw, if_true]
  cases charrefAt ('&' :: '#' :: A) <;> rfl

theorem goahead_amp_other (e : Bool) (f : Nat) (r : Str) (h : startsWith r ['#'] = false) :
    goahead e (f + 1) ('&' :: r) =
      match entityrefAt ('&' :: r) with
      | some e0 => (('&' :: r).take e0 ++ (goahead e f (('&' :: r).drop e0)).1, (goahead e f (('&' :: r).drop e0)).2)
      | none =>
        if r.isEmpty then leave e [] ('&' :: r) else ('&' :: (goahead e f r).1, (goahead e f r).2) := by
  simp only [goahead, show (('&' : Char) != '&') = false by decide, Bool.false_eq_true, if_false, h]
  cases entityrefAt ('&' :: r) <;> rfl

/-- the shape of a result of `goahead` in front of a line feed: everything emitted, or stopped with `r` unread -/
def res (o : Str) (r : Option Str) (Y : Str) : Str × Str :=
  match r with
  | none => (o ++ '\n' :: Y, [])
  | some r => (o, r ++ '\n' :: Y)

theorem res_fst_snd (pre o : Str) (r : Option Str) (Y : Str) :
    (pre ++ (res o r Y).1, (res o r Y).2) = res (pre ++ o) r Y := by
  cases r <;> simp [res]

/-- a text behind the line feed that cannot influence the look-ahead -/
def GoodTail (Y : Str) : Prop := '&' ∉ Y ∧ ';' ∉ Y

theorem contains_semi_indep (X Y : Str) (hY : GoodTail Y) : (X ++ '\n' :: Y).contains ';' = X.contains ';' := by
  apply contains_eq_of_mem_iff
  simp only [List.mem_append, List.mem_cons]
  constructor
  · rintro (h | h | h)
    · exact h
    · cases h
    · exact absurd h hY.2
  · exact fun h => Or.inl h

theorem goahead_nl (e : Bool) : ∀ (n : Nat) (X : Str), X.length ≤ n →
    ∃ (o : Str) (r : Option Str), (e = true → r = none) ∧
      ∀ Y, GoodTail Y → ∀ f, X.length + Y.length + 1 ≤ f → goahead e f (X ++ '\n' :: Y) = res o r Y := by
  have base : ∃ (o : Str) (r : Option Str), (e = true → r = none) ∧
      ∀ Y, GoodTail Y → ∀ f, ([] : Str).length + Y.length + 1 ≤ f → goahead e f ([] ++ '\n' :: Y) = res o r Y := by
    refine ⟨[], none, fun _ => rfl, fun Y hY f hf => ?_⟩
    obtain ⟨f', rfl⟩ : ∃ f', f = f' + 1 := ⟨f - 1, by simp at hf; omega⟩
    rw [List.nil_append, goahead_cons_ne e f' (by decide), goahead_no_amp e Y hY.1 f' (by simp at hf; omega)]
    rfl
  intro n
  induction n with
  | zero =>
    intro X hX
    have : X = [] := List.length_eq_zero_iff.1 (by omega)
    subst this; exact base
  | succ n ih =>
    intro X hX
    cases X with
    | nil => exact base
    | cons c X' =>
      have hX' : X'.length ≤ n := by simpa using hX
      by_cases hc : c = '&'
      · subst hc
        cases X' with
        | nil =>
          -- `&` directly in front of the line feed: no reference
          obtain ⟨o, r, hr, H⟩ := ih [] (by simp)
          refine ⟨'&' :: o, r, hr, fun Y hY f hf => ?_⟩
          obtain ⟨f', rfl⟩ : ∃ f', f = f' + 1 := ⟨f - 1, by simp at hf; omega⟩
          have hent : entityrefAt ('&' :: ([] ++ '\n' :: Y)) = none := by
            rw [entityrefAt_indep]; simp [entityrefAt, isAsciiAlpha_nl]
          rw [List.cons_append, goahead_amp_other e f' _ (by simp), hent]
          simp only [List.nil_append, List.isEmpty_cons, Bool.false_eq_true, if_false]
          have := H Y hY f' (by simp at hf ⊢; omega)
          rw [List.nil_append] at this
          rw [this]
          exact res_fst_snd ['&'] o r Y
        | cons d A =>
          have hA : A.length + 1 ≤ n := by simpa using hX'
          by_cases hd : d = '#'
          · subst hd
            cases hcr : charrefAt ('&' :: '#' :: (A ++ ['\n'])) with
            | some e0 =>
              obtain ⟨hb1, hb2⟩ := charrefAt_bound A hcr
              -- the terminating character
              have hidx : ∀ Y, ('&' :: '#' :: (A ++ '\n' :: Y))[e0 - 1]? = (A ++ ['\n'])[e0 - 3]? := by
                intro Y
                have : e0 - 1 = (e0 - 3) + 2 := by omega
                rw [this, List.getElem?_cons_succ, List.getElem?_cons_succ, getElem?_append_nl A Y _ (by omega)]
              have hk : ∀ Y, (if ('&' :: '#' :: (A ++ '\n' :: Y))[e0 - 1]? == some ';' then e0 else e0 - 1) =
                  (if (A ++ ['\n'])[e0 - 3]? == some ';' then e0 else e0 - 1) := by
                intro Y; rw [hidx]
              have hkb : 2 ≤ (if (A ++ ['\n'])[e0 - 3]? == some ';' then e0 else e0 - 1) ∧
                  (if (A ++ ['\n'])[e0 - 3]? == some ';' then e0 else e0 - 1) ≤ A.length + 2 := by
                split
                · rename_i hs
                  refine ⟨by omega, ?_⟩
                  by_cases hlt : e0 - 3 < A.length
                  · omega
                  · have : e0 - 3 = A.length := by omega
                    rw [this] at hs; simp at hs
                · omega
              generalize hkdef : (if (A ++ ['\n'])[e0 - 3]? == some ';' then e0 else e0 - 1) = k at hk hkb
              obtain ⟨o, r, hr, H⟩ := ih (A.drop (k - 2)) (by rw [List.length_drop]; omega)
              refine ⟨'&' :: '#' :: A.take (e0 - 3) ++ ';' :: o, r, hr, fun Y hY f hf => ?_⟩
              obtain ⟨f', rfl⟩ : ∃ f', f = f' + 1 := ⟨f - 1, by simp at hf; omega⟩
              have hdrop : ('&' :: '#' :: (A ++ '\n' :: Y)).drop k = A.drop (k - 2) ++ '\n' :: Y := by
                obtain ⟨j, rfl⟩ : ∃ j, k = j + 2 := ⟨k - 2, by omega⟩
                simp only [List.drop_succ_cons, Nat.add_sub_cancel]
                rw [List.drop_append_of_le_length (by omega)]
              have hslice : slice ('&' :: '#' :: (A ++ '\n' :: Y)) 2 (e0 - 1) = A.take (e0 - 3) := by
                simp only [slice, List.drop_succ_cons, List.drop_zero]
                rw [show e0 - 1 - 2 = e0 - 3 by omega, List.take_append_of_le_length (by omega)]
              rw [List.cons_append, List.cons_append, goahead_amp_hash, charrefAt_indep, hcr]
              simp only [hk Y, hdrop, hslice]
              rw [H Y hY f' (by simp at hf ⊢; omega)]
              have := res_fst_snd ('&' :: '#' :: A.take (e0 - 3) ++ [';']) o r Y
              simpa using this
            | none =>
              by_cases hs : ('&' :: '#' :: A).contains ';' = true
              · refine ⟨if e then '&' :: '#' :: A else ['&', '#'], if e then none else some A, by
                  intro he; simp [he], fun Y hY f hf => ?_⟩
                obtain ⟨f', rfl⟩ : ∃ f', f = f' + 1 := ⟨f - 1, by simp at hf; omega⟩
                have hs' : ('&' :: '#' :: (A ++ '\n' :: Y)).contains ';' = true := by
                  have := contains_semi_indep ('&' :: '#' :: A) Y hY
                  rw [List.cons_append, List.cons_append] at this
                  rw [this]; exact hs
                rw [List.cons_append, List.cons_append, goahead_amp_hash, charrefAt_indep, hcr]
                simp only [hs', if_true, leave]
                cases e <;> simp [res]
              · refine ⟨if e then '&' :: '#' :: A else [], if e then none else some ('&' :: '#' :: A), by
                  intro he; simp [he], fun Y hY f hf => ?_⟩
                obtain ⟨f', rfl⟩ : ∃ f', f = f' + 1 := ⟨f - 1, by simp at hf; omega⟩
                have hs' : ('&' :: '#' :: (A ++ '\n' :: Y)).contains ';' = false := by
                  have := contains_semi_indep ('&' :: '#' :: A) Y hY
                  rw [List.cons_append, List.cons_append] at this
                  rw [this]; exact Bool.eq_false_iff.2 hs
                rw [List.cons_append, List.cons_append, goahead_amp_hash, charrefAt_indep, hcr]
                simp only [hs', Bool.false_eq_true, if_false, leave]
                cases e <;> simp [res]
          · -- not `&#`: an entity reference, or a lone `&`
            have hsw : ∀ Y, startsWith ((d :: A) ++ '\n' :: Y) ['#'] = false := by
              intro Y; simp [hd]
            cases her : entityrefAt ('&' :: ((d :: A) ++ ['\n'])) with
            | some e0 =>
              obtain ⟨hb1, hb2⟩ := entityrefAt_bound (d :: A) her
              have hb2' : e0 ≤ A.length + 2 := by simpa using hb2
              obtain ⟨o, r, hr, H⟩ := ih ((d :: A).drop (e0 - 1)) (by rw [List.length_drop, List.length_cons]; omega)
              refine ⟨('&' :: d :: A).take e0 ++ o, r, hr, fun Y hY f hf => ?_⟩
              obtain ⟨f', rfl⟩ : ∃ f', f = f' + 1 := ⟨f - 1, by simp at hf; omega⟩
              have hdrop : ('&' :: ((d :: A) ++ '\n' :: Y)).drop e0 = (d :: A).drop (e0 - 1) ++ '\n' :: Y := by
                obtain ⟨j, rfl⟩ : ∃ j, e0 = j + 1 := ⟨e0 - 1, by omega⟩
                simp only [List.drop_succ_cons, Nat.add_sub_cancel]
                rw [List.drop_append_of_le_length (by simp at hb2 ⊢; omega)]
              have htake : ('&' :: ((d :: A) ++ '\n' :: Y)).take e0 = ('&' :: d :: A).take e0 := by
                rw [← List.cons_append, List.take_append_of_le_length (by simp at hb2 ⊢; omega)]
              rw [List.cons_append, goahead_amp_other e f' _ (hsw Y), entityrefAt_indep, her]
              simp only [hdrop, htake]
              rw [H Y hY f' (by simp at hf hb2 ⊢; omega)]
              exact res_fst_snd _ o r Y
            | none =>
              obtain ⟨o, r, hr, H⟩ := ih (d :: A) hX'
              refine ⟨'&' :: o, r, hr, fun Y hY f hf => ?_⟩
              obtain ⟨f', rfl⟩ : ∃ f', f = f' + 1 := ⟨f - 1, by simp at hf; omega⟩
              rw [List.cons_append, goahead_amp_other e f' _ (hsw Y), entityrefAt_indep, her]
              simp only [List.cons_append, List.isEmpty_cons, Bool.false_eq_true, if_false]
              have := H Y hY f' (by simp at hf ⊢; omega)
              rw [List.cons_append] at this
              rw [this]
              exact res_fst_snd ['&'] o r Y
      · obtain ⟨o, r, hr, H⟩ := ih X' hX'
        refine ⟨c :: o, r, hr, fun Y hY f hf => ?_⟩
        obtain ⟨f', rfl⟩ : ∃ f', f = f' + 1 := ⟨f - 1, by simp at hf; omega⟩
        rw [List.cons_append, goahead_cons_ne e f' hc, H Y hY f' (by simp at hf ⊢; omega)]
        exact res_fst_snd [c] o r Y

/-- **the raw-HTML preprocessor in front of a line feed**: what it makes of `X` and the line feed does not depend
    on a `&`- and `;`-free text behind the line feed, which it copies -/
theorem extract_nl (X : Str) : ∃ O : Str, ∀ Y, GoodTail Y → extract (X ++ '\n' :: Y) = O ++ '\n' :: Y := by
  obtain ⟨o1, r1, _, H1⟩ := goahead_nl false X.length X (Nat.le_refl _)
  cases r1 with
  | none =>
    refine ⟨o1, fun Y hY => ?_⟩
    simp only [extract]
    rw [H1 Y hY _ (by simp <;> omega)]
    simp [res, goahead]
  | some r1 =>
    obtain ⟨o2, r2, h2, H2⟩ := goahead_nl true r1.length r1 (Nat.le_refl _)
    have : r2 = none := h2 rfl
    subst this
    refine ⟨o1 ++ o2, fun Y hY => ?_⟩
    simp only [extract]
    rw [H1 Y hY _ (by simp <;> omega)]
    simp only [res]
    rw [H2 Y hY _ (by simp <;> omega)]
    simp [res]

end GoAhead

/-! ### 4. the block loop: pending blocks are handed back untouched (as in `Lemmas/BlockLocal.lean`) -/

section Loop
open Block

/-- put `extra` behind the pending blocks of a `dispatch` result -/
def addRest (extra : List Str) (r : Node × Refs × List Str) : Node × Refs × List Str := (r.1, r.2.1, r.2.2 ++ extra)

theorem emptyP_rest (refs p b rest extra) :
    emptyP refs p b (rest ++ extra) = addRest extra (emptyP refs p b rest) := by
  simp only [emptyP]
  (repeat' split) <;> simp [addRest]

theorem codeP_rest (tab refs p b rest extra) :
    codeP tab refs p b (rest ++ extra) = addRest extra (codeP tab refs p b rest) := by
  simp only [codeP]
  (repeat' split) <;> simp [addRest]

theorem setextP_rest (refs p b rest extra) :
    setextP refs p b (rest ++ extra) = addRest extra (setextP refs p b rest) := by
  simp only [setextP]
  (repeat' split) <;> simp [addRest]

theorem referenceP_rest (refs p b rest extra m) :
    referenceP refs p b (rest ++ extra) m = addRest extra (referenceP refs p b rest m) := by
  obtain ⟨s, e, i, l, t5, t6⟩ := m
  simp only [referenceP]
  (repeat' split) <;> simp [addRest]

theorem paraP_rest (st refs p b rest extra) :
    paraP st refs p b (rest ++ extra) = addRest extra (paraP st refs p b rest) := by
  simp only [paraP]
  (repeat' split) <;> simp [addRest]

theorem hashP_rest (tab pb st refs p b rest extra m) :
    hashP tab pb st refs p b (rest ++ extra) m = (hashP tab pb st refs p b rest m).map (addRest extra) := by
  obtain ⟨s, e, lv, hd⟩ := m
  simp only [hashP]
  (repeat' split) <;> simp [addRest]

theorem hrP_rest (pb st refs p b rest extra m) :
    hrP pb st refs p b (rest ++ extra) m = (hrP pb st refs p b rest m).map (addRest extra) := by
  obtain ⟨s, e⟩ := m
  simp only [hrP]
  (repeat' split) <;> simp [addRest]

theorem listP_rest (tab pb st refs p b rest extra tag) :
    listP tab pb st refs p b (rest ++ extra) tag = (listP tab pb st refs p b rest tag).map (addRest extra) := by
  simp only [listP]
  (repeat' split) <;> simp [addRest]

theorem quoteP_rest (pb st refs p b rest extra q) :
    quoteP pb st refs p b (rest ++ extra) q = (quoteP pb st refs p b rest q).map (addRest extra) := by
  simp only [quoteP]
  (repeat' split) <;> simp [addRest]

theorem indentP_rest (tab pb st refs p b rest extra) :
    indentP tab pb st refs p b (rest ++ extra) = (indentP tab pb st refs p b rest).map (addRest extra) := by
  simp only [indentP]
  (repeat' split) <;> simp [addRest]

/-- no processor looks past `blocks[0]` -/
theorem dispatch_rest (tab pb st refs p b rest extra) :
    dispatch tab pb st refs p b (rest ++ extra) = (dispatch tab pb st refs p b rest).map (addRest extra) := by
  rw [dispatch_eq, dispatch_eq]
  by_cases h1 : (b.isEmpty || startsWith b ['\n']) = true
  · rw [if_pos h1, if_pos h1, emptyP_rest]; rfl
  · rw [if_neg h1, if_neg h1]
    by_cases h2 : indentTest tab st p b = true
    · rw [if_pos h2, if_pos h2, indentP_rest]
    · rw [if_neg h2, if_neg h2]
      by_cases h3 : startsWith b (spaces tab) = true
      · rw [if_pos h3, if_pos h3, codeP_rest]; rfl
      · rw [if_neg h3, if_neg h3]
        cases hashSearch b with
        | some m => exact hashP_rest ..
        | none =>
          dsimp only
          by_cases h4 : setextMatch b = true
          · rw [if_pos h4, if_pos h4, setextP_rest]; rfl
          · rw [if_neg h4, if_neg h4]
            cases hrSearch b with
            | some m => exact hrP_rest ..
            | none =>
              dsimp only
              by_cases h5 : (listItemMatch tab true false b).isSome = true
              · rw [if_pos h5, if_pos h5, listP_rest]
              · rw [if_neg h5, if_neg h5]
                by_cases h6 : (listItemMatch tab false true b).isSome = true
                · rw [if_pos h6, if_pos h6, listP_rest]
                · rw [if_neg h6, if_neg h6]
                  cases quoteSearch b with
                  | some q => exact quoteP_rest ..
                  | none =>
                    dsimp only
                    cases refSearch b with
                    | some m => dsimp only; rw [referenceP_rest]; rfl
                    | none => dsimp only; rw [paraP_rest]; rfl

/-- `parseBlocks` with some fuel -/
def RunB (tab : Nat) (st : List BState) (refs : Refs) (p : Node) (bs : List Str) (res : Node × Refs) : Prop :=
  ∃ f, parseBlocks tab f st refs p bs = some res

theorem RunB.det {tab st refs p bs r r'} (h : RunB tab st refs p bs r) (h' : RunB tab st refs p bs r') : r = r' := by
  obtain ⟨f, hf⟩ := h
  obtain ⟨g, hg⟩ := h'
  have a := parseBlocks_fuel_mono g hf
  have b := parseBlocks_fuel_mono f hg
  rw [Nat.add_comm] at b
  rw [a] at b; exact Option.some.inj b

theorem RunB.nil_iff {tab st refs p res} : RunB tab st refs p [] res ↔ res = (p, refs) := by
  constructor
  · rintro ⟨f, hf⟩; cases f <;> simp [parseBlocks] at hf <;> exact hf.symm
  · rintro rfl; exact ⟨0, rfl⟩

/-- one turn of the loop -/
theorem RunB.cons_iff {tab st refs p b rest res} :
    RunB tab st refs p (b :: rest) res ↔
      ∃ f p' r' bl, dispatch tab (parseBlocks tab f) st refs p b rest = some (p', r', bl) ∧
        RunB tab st r' p' bl res := by
  constructor
  · rintro ⟨f, hf⟩
    cases f with
    | zero => simp [parseBlocks] at hf
    | succ f =>
      rw [parseBlocks] at hf
      split at hf
      · rename_i p' r' bl hd; exact ⟨f, p', r', bl, hd, f, hf⟩
      · cases hf
  · rintro ⟨f, p', r', bl, hd, g, hg⟩
    refine ⟨(f + g) + 1, ?_⟩
    rw [parseBlocks]
    have hd' := dispatch_mono (pb' := parseBlocks tab (f + g))
      (fun _ _ _ _ _ _ hc => parseBlocks_fuel_mono g hc) hd
    rw [hd']
    have := parseBlocks_fuel_mono f hg
    rw [Nat.add_comm] at this
    exact this

/-- the turn of the empty-block processor -/
theorem RunB.empty_iff {tab st refs p b rest res} (hb : (b.isEmpty || startsWith b ['\n']) = true) :
    RunB tab st refs p (b :: rest) res ↔
      RunB tab st (emptyP refs p b rest).2.1 (emptyP refs p b rest).1 (emptyP refs p b rest).2.2 res := by
  rw [RunB.cons_iff]
  constructor
  · rintro ⟨f, p', r', bl, hd, h⟩
    rw [dispatch_eq, if_pos hb] at hd
    injection hd with hd
    rw [hd]; exact h
  · intro h
    exact ⟨0, _, _, _, by rw [dispatch_eq, if_pos hb], h⟩

/-- the loop on `bs ++ extra` is the loop on `bs` followed by the loop on `extra` -/
theorem RunB.append_iff {tab st} : ∀ {bs : List Str} {refs p extra res},
    RunB tab st refs p (bs ++ extra) res ↔
      ∃ p1 r1, RunB tab st refs p bs (p1, r1) ∧ RunB tab st r1 p1 extra res := by
  -- induction on the fuel of the run on `bs` / `bs ++ extra`
  have fwd : ∀ f bs refs p extra res, parseBlocks tab f st refs p (bs ++ extra) = some res →
      ∃ p1 r1, RunB tab st refs p bs (p1, r1) ∧ RunB tab st r1 p1 extra res := by
    intro f
    induction f with
    | zero =>
      intro bs refs p extra res h
      cases bs with
      | nil => exact ⟨p, refs, RunB.nil_iff.2 rfl, 0, by simpa using h⟩
      | cons b rest => simp [parseBlocks] at h
    | succ f ih =>
      intro bs refs p extra res h
      cases bs with
      | nil => exact ⟨p, refs, RunB.nil_iff.2 rfl, f + 1, by simpa using h⟩
      | cons b rest =>
        rw [List.cons_append, parseBlocks, dispatch_rest] at h
        cases hd : dispatch tab (parseBlocks tab f) st refs p b rest with
        | none => simp [hd] at h
        | some v =>
          obtain ⟨p', r', bl⟩ := v
          rw [hd] at h
          simp only [Option.map_some, addRest] at h
          obtain ⟨p1, r1, ha, hb⟩ := ih _ _ _ _ _ h
          exact ⟨p1, r1, RunB.cons_iff.2 ⟨f, p', r', bl, hd, ha⟩, hb⟩
  have bwd : ∀ f bs refs p extra p1 r1 res, parseBlocks tab f st refs p bs = some (p1, r1) →
      RunB tab st r1 p1 extra res → RunB tab st refs p (bs ++ extra) res := by
    intro f
    induction f with
    | zero =>
      intro bs refs p extra p1 r1 res h1 h2
      cases bs with
      | nil => simp [parseBlocks] at h1; obtain ⟨rfl, rfl⟩ := h1; simpa using h2
      | cons b rest => simp [parseBlocks] at h1
    | succ f ih =>
      intro bs refs p extra p1 r1 res h1 h2
      cases bs with
      | nil => simp [parseBlocks] at h1; obtain ⟨rfl, rfl⟩ := h1; simpa using h2
      | cons b rest =>
        rw [parseBlocks] at h1
        split at h1
        · rename_i p' r' bl hd
          rw [List.cons_append, RunB.cons_iff]
          refine ⟨f, p', r', bl ++ extra, ?_, ih _ _ _ _ _ _ _ h1 h2⟩
          rw [dispatch_rest, hd]; rfl
        · cases h1
  intro bs refs p extra res
  constructor
  · rintro ⟨f, hf⟩; exact fwd f _ _ _ _ _ hf
  · rintro ⟨p1, r1, ⟨f, hf⟩, h2⟩; exact bwd f _ _ _ _ _ _ _ hf h2

/-- `parseDocument` is the loop on the blocks of the text (with any fuel: the parser is total) -/
theorem parseDocument_eq_iff (tab : Nat) (T : Str) (r : Node × Refs) :
    parseDocument tab T = some r ↔ RunB tab [] [] (Node.el "div") (splitS ['\n', '\n'] T) r := by
  constructor
  · intro h; exact ⟨_, h⟩
  · intro h
    have ht := parseDocument_total tab T
    cases hp : parseDocument tab T with
    | none => rw [hp] at ht; cases ht
    | some r' => rw [RunB.det h ⟨_, hp⟩]

theorem parseDocument_congr (tab : Nat) {T T' : Str}
    (h : ∀ r, RunB tab [] [] (Node.el "div") (splitS ['\n', '\n'] T) r →
      RunB tab [] [] (Node.el "div") (splitS ['\n', '\n'] T') r) :
    parseDocument tab T' = parseDocument tab T := by
  have ht := parseDocument_total tab T
  cases hp : parseDocument tab T with
  | none => rw [hp] at ht; cases ht
  | some r => exact (parseDocument_eq_iff tab T' r).2 (h r ((parseDocument_eq_iff tab T r).1 hp))

end Loop

/-! ### 5. the blocks of a text with leading / trailing line feeds -/

section Blocks
open Block

/-- the separator of `parseChunk` -/
def nn : Str := ['\n', '\n']

/-- `text.split('\n\n')` -/
def blocks (T : Str) : List Str := splitS nn T

theorem blocks_nil : blocks [] = [[]] := rfl

theorem blocks_ne_nil (T : Str) : blocks T ≠ [] := splitS_ne_nil _ _

theorem blocks_nn (r : Str) : blocks ('\n' :: '\n' :: r) = [] :: blocks r := by
  simp [blocks, nn, splitS, splitAux]

theorem blocks_cons_of_not {c : Char} {r : Str} (h : startsWith (c :: r) nn = false) :
    blocks (c :: r) = (c :: (blocks r).headD []) :: (blocks r).tail := by
  obtain ⟨q, qs, hq⟩ : ∃ q qs, splitAux nn 0 r = q :: qs := by
    cases hs : splitAux nn 0 r with
    | nil => exact absurd hs (splitAux_ne_nil _ _ _)
    | cons q qs => exact ⟨q, qs, rfl⟩
  simp only [blocks, splitS]
  rw [splitAux, if_neg (by simpa using h), hq]
  rfl

theorem blocks_cons_ne {c : Char} (hc : c ≠ '\n') (r : Str) :
    blocks (c :: r) = (c :: (blocks r).headD []) :: (blocks r).tail :=
  blocks_cons_of_not (by cases r <;> simp [nn, hc])

theorem blocks_nl_ne {d : Char} (hd : d ≠ '\n') (r : Str) :
    blocks ('\n' :: d :: r) = ('\n' :: (blocks (d :: r)).headD []) :: (blocks (d :: r)).tail :=
  blocks_cons_of_not (by simp [nn, hd])

theorem blocks_single_nl : blocks ['\n'] = [['\n']] := by
  rw [blocks_cons_of_not (by simp [nn])]; rfl

/-- splitting at a separator that follows a text not ending in a line feed concatenates the block lists -/
theorem blocks_append_nn : ∀ (V : Str), V.getLast? ≠ some '\n' → ∀ Z, blocks (V ++ nn ++ Z) = blocks V ++ blocks Z
  | [], _, Z => by
    show blocks ('\n' :: '\n' :: Z) = _
    rw [blocks_nn]; rfl
  | [c], h, Z => by
    have hc : c ≠ '\n' := by simpa using h
    show blocks (c :: '\n' :: '\n' :: Z) = _
    rw [blocks_cons_ne hc, blocks_nn, blocks_cons_ne hc]
    rfl
  | c :: d :: V, h, Z => by
    have h' : (d :: V).getLast? ≠ some '\n' := by rwa [List.getLast?_cons_cons] at h
    by_cases hcd : c = '\n' ∧ d = '\n'
    · obtain ⟨rfl, rfl⟩ := hcd
      have hV : V.getLast? ≠ some '\n' := by
        cases V with
        | nil => simp at h'
        | cons x V => rwa [List.getLast?_cons_cons] at h'
      show blocks ('\n' :: '\n' :: (V ++ nn ++ Z)) = _
      rw [blocks_nn, blocks_nn, blocks_append_nn V hV Z]; rfl
    · have hs : ∀ W, startsWith (c :: d :: W) nn = false := by
        intro W
        simp only [nn, startsWith_cons_cons, Py.startsWith_nil, Bool.and_true]
        by_cases h1 : c = '\n'
        · have : d ≠ '\n' := fun h2 => hcd ⟨h1, h2⟩
          simp [this]
        · simp [h1]
      show blocks (c :: (d :: V ++ nn ++ Z)) = _
      have e1 : c :: (d :: V ++ nn ++ Z) = c :: d :: (V ++ nn ++ Z) := by simp
      rw [e1, blocks_cons_of_not (hs _), blocks_cons_of_not (hs V)]
      have ih := blocks_append_nn (d :: V) h' Z
      have e2 : d :: (V ++ nn ++ Z) = (d :: V) ++ nn ++ Z := by simp
      rw [e2, ih]
      obtain ⟨q, qs, hq⟩ : ∃ q qs, blocks (d :: V) = q :: qs := by
        cases hb : blocks (d :: V) with
        | nil => exact absurd hb (blocks_ne_nil _)
        | cons q qs => exact ⟨q, qs, rfl⟩
      rw [hq]; rfl

/-- the blocks of a run of line feeds are `""` or `"\n"` -/
theorem blocks_replicate_nl : ∀ (n : Nat), ∀ b ∈ blocks (List.replicate n '\n'), b = [] ∨ b = ['\n']
  | 0 => by intro b hb; simp [blocks_nil] at hb; exact Or.inl hb
  | 1 => by
    intro b hb
    rw [show List.replicate 1 '\n' = ['\n'] from rfl, blocks_single_nl] at hb
    exact Or.inr (by simpa using hb)
  | n + 2 => by
    intro b hb
    rw [show List.replicate (n + 2) '\n' = '\n' :: '\n' :: List.replicate n '\n' from rfl, blocks_nn] at hb
    rcases List.mem_cons.1 hb with h | h
    · exact Or.inl h
    · exact blocks_replicate_nl n b h

end Blocks

/-! ### 6. leading line feeds: empty blocks consumed at the childless root -/

section Leading
open Block

/-- at the childless root the empty-block processor only consumes -/
theorem emptyP_div (refs : Refs) (b : Str) (rest : List Str) :
    emptyP refs (Node.el "div") b rest =
      (Node.el "div", refs, if (b.drop 1).isEmpty then rest else b.drop 1 :: rest) := by
  simp [emptyP, Node.last?, Node.el]

theorem RunB.div_empty_iff {tab refs b rest res} (hb : (b.isEmpty || startsWith b ['\n']) = true) :
    RunB tab [] refs (Node.el "div") (b :: rest) res ↔
      RunB tab [] refs (Node.el "div") (if (b.drop 1).isEmpty then rest else b.drop 1 :: rest) res := by
  rw [RunB.empty_iff hb, emptyP_div]

theorem leading_nl (tab : Nat) : ∀ (n : Nat) (T : Str), T.length ≤ n → ∀ res,
    RunB tab [] [] (Node.el "div") (blocks ('\n' :: T)) res ↔ RunB tab [] [] (Node.el "div") (blocks T) res := by
  intro n
  induction n with
  | zero =>
    intro T hT res
    have : T = [] := List.length_eq_zero_iff.1 (by omega)
    subst this
    rw [blocks_single_nl, blocks_nil, RunB.div_empty_iff (by rfl), RunB.div_empty_iff (by rfl)]
    rfl
  | succ n ih =>
    intro T hT res
    cases T with
    | nil =>
      rw [blocks_single_nl, blocks_nil, RunB.div_empty_iff (by rfl), RunB.div_empty_iff (by rfl)]
      rfl
    | cons c T' =>
      by_cases hc : c = '\n'
      · subst hc
        rw [blocks_nn, RunB.div_empty_iff (by rfl)]
        simp only [List.drop_nil, List.isEmpty_nil, if_true]
        exact (ih T' (by simpa using hT) res).symm
      · rw [blocks_nl_ne hc, blocks_cons_ne hc]
        simp only [List.headD_cons, List.tail_cons]
        rw [RunB.div_empty_iff (by simp)]
        simp

theorem parseDocument_cons_nl (tab : Nat) (T : Str) : parseDocument tab ('\n' :: T) = parseDocument tab T :=
  parseDocument_congr tab (fun r h => (leading_nl tab T.length T (Nat.le_refl _) r).2 h)

theorem prepare_cons_nl (cfg : Pipeline.Cfg) (s : Str) :
    Pipeline.prepare cfg ('\n' :: s) = '\n' :: Pipeline.prepare cfg s := by
  simp only [Pipeline.prepare, normalize_cons_nl, extract_cons_nl]

/-- **one more blank line in front**: the same conversion -/
theorem convert_cons_nl (cfg : Pipeline.Cfg) (s : Str) : Pipeline.convert cfg ('\n' :: s) = Pipeline.convert cfg s := by
  have h1 : ('\n' :: s).contains '<' = s.contains '<' := by
    apply contains_eq_of_mem_iff; simp
  have h2 : isBlankDoc ('\n' :: s) = isBlankDoc s := by
    apply isBlankDoc_eq_of_all; simp
  simp only [Pipeline.convert, Pipeline.tree, h1, h2, prepare_cons_nl, parseDocument_cons_nl]

theorem convert_leading (cfg : Pipeline.Cfg) (k : Nat) (s : Str) :
    Pipeline.convert cfg (List.replicate k '\n' ++ s) = Pipeline.convert cfg s := by
  induction k with
  | zero => rfl
  | succ k ih => rw [List.replicate_succ, List.cons_append, convert_cons_nl, ih]

end Leading

/-! ### 7. trailing line feeds -/

section Trailing
open Block

theorem replicate_nl_append_comm (i j : Nat) :
    List.replicate i '\n' ++ nn ++ List.replicate j '\n' = nn ++ List.replicate (i + j) '\n' := by
  have h : nn = List.replicate 2 '\n' := rfl
  rw [h, List.replicate_append_replicate, List.replicate_append_replicate, List.replicate_append_replicate]
  congr 1; omega

/-- a line feed behind a text that ends in `\r` (up to STX/ETX) completes a CRLF: nothing changes -/
theorem normalize_snoc_nl_of_cr (tab : Nat) (s : Str) (h : (stripCtl s).getLast? = some '\r') :
    normalize tab (s ++ ['\n']) = normalize tab s := by
  have he : endCR false (stripCtl s) = true := by rw [endCR_eq_getLast, h]; rfl
  have hnl : stripCtl ['\n'] = ['\n'] := by decide
  rw [normalize_eq, normalize_eq, stripCtl_append, hnl, nlAux_append, he]
  simp [nlAux]

/-- trailing line feeds of the source are trailing line feeds of the normalised text (one may be absorbed by a
    final `\r`) -/
theorem normalize_trailing_any (tab : Nat) (s : Str) (m : Nat) :
    ∃ j, normalize tab (s ++ List.replicate m '\n') = normalize tab s ++ List.replicate j '\n' := by
  by_cases h : (stripCtl s).getLast? = some '\r'
  · cases m with
    | zero => exact ⟨0, by simp⟩
    | succ m =>
      refine ⟨m, ?_⟩
      have e : s ++ List.replicate (m + 1) '\n' = (s ++ ['\n']) ++ List.replicate m '\n' := by
        simp [List.replicate_succ]
      have hl : (stripCtl (s ++ ['\n'])).getLast? ≠ some '\r' := by
        have hnl : stripCtl ['\n'] = ['\n'] := by decide
        rw [stripCtl_append, hnl, List.getLast?_append]; simp
      rw [e, normalize_trailing tab _ m hl, normalize_snoc_nl_of_cr tab s h]
  · exact ⟨m, normalize_trailing tab s m h⟩

theorem wsLinesAux_snoc_nl (st : Option Nat) (w : Str) : ∃ W, wsLinesAux st (w ++ ['\n']) = W ++ ['\n'] := by
  induction w generalizing st with
  | nil => exact ⟨[], by cases st <;> simp [wsLinesAux]⟩
  | cons c w ih =>
    cases st with
    | none =>
      by_cases h : c = '\n'
      · obtain ⟨W, hW⟩ := ih (some 0); exact ⟨'\n' :: W, by simp [wsLinesAux, h, hW]⟩
      · obtain ⟨W, hW⟩ := ih none; exact ⟨c :: W, by simp [wsLinesAux, h, hW]⟩
    | some n =>
      by_cases h1 : c = ' '
      · obtain ⟨W, hW⟩ := ih (some (n + 1)); exact ⟨W, by simp [wsLinesAux, h1, hW]⟩
      · by_cases h2 : c = '\n'
        · obtain ⟨W, hW⟩ := ih (some 0); exact ⟨'\n' :: W, by simp [wsLinesAux, h2, hW]⟩
        · obtain ⟨W, hW⟩ := ih none
          exact ⟨List.replicate n ' ' ++ c :: W, by simp [wsLinesAux, h1, h2, hW]⟩

/-- the normalised text ends with a blank line -/
theorem normalize_ends_nn (tab : Nat) (s : Str) : ∃ X, normalize tab s = X ++ nn := by
  rw [normalize_eq]
  have : nlAux false (stripCtl s) ++ ['\n', '\n'] = nlAux false (stripCtl s) ++ '\n' :: ['\n'] := rfl
  rw [this, pipeline_split]
  obtain ⟨W, hW⟩ := wsLinesAux_snoc_nl (some 0) (expandtabsAux tab 0 (nlAux false (stripCtl s)))
  exact ⟨W, by rw [hW]; simp [expandtabsAux, wsLinesAux, nn]⟩

theorem goodTail_replicate_nl (j : Nat) : GoodTail (List.replicate j '\n') := by
  constructor <;> intro h <;> have := List.eq_of_mem_replicate h <;> cases this

/-- **the text handed to the block parser**, without and with `m` more line feeds behind the source: a common part
    `O` followed by the blank line, resp. by the blank line and `j` more line feeds -/
theorem prepare_trailing (cfg : Pipeline.Cfg) (s : Str) (m : Nat) :
    ∃ O j, Pipeline.prepare cfg s = O ++ nn ∧
      Pipeline.prepare cfg (s ++ List.replicate m '\n') = O ++ nn ++ List.replicate j '\n' := by
  obtain ⟨j, hj⟩ := normalize_trailing_any cfg.tab s m
  obtain ⟨X, hX⟩ := normalize_ends_nn cfg.tab s
  obtain ⟨O, hO⟩ := extract_nl X
  refine ⟨O, j, ?_, ?_⟩
  · have := hO ['\n'] (goodTail_replicate_nl 1)
    simp only [Pipeline.prepare, hX]
    exact this
  · have := hO (List.replicate (j + 1) '\n') (goodTail_replicate_nl _)
    simp only [Pipeline.prepare, hj, hX]
    have e : X ++ nn ++ List.replicate j '\n' = X ++ '\n' :: List.replicate (j + 1) '\n' := by
      simp [nn, List.replicate_succ]
    rw [e, this]
    simp [nn, List.replicate_succ]

/-- what one empty block (`""` or `"\n"`) does: a trailing code block gets the filler -/
def fill1 (p : Node) (x : Str) : Node :=
  match p.last? with
  | some sib =>
    match preCode sib with
    | some code => setCodeText p sib code (fmtOpt code.text ++ x)
    | none => p
  | none => p

def filler (b : Str) : Str := if b.isEmpty then nn else ['\n']

def fills (p : Node) (E : List Str) : Node := E.foldl (fun q b => fill1 q (filler b)) p

theorem emptyP_emptyish (refs : Refs) (p : Node) {b : Str} (hb : b = [] ∨ b = ['\n']) (rest : List Str) :
    emptyP refs p b rest = (fill1 p (filler b), refs, rest) := by
  rcases hb with rfl | rfl <;> simp only [emptyP, fill1, filler, nn] <;> (repeat' split) <;> simp_all

theorem RunB.emptyish_iff {tab st} : ∀ {E : List Str} {refs p res}, (∀ b ∈ E, b = [] ∨ b = ['\n']) →
    (RunB tab st refs p E res ↔ res = (fills p E, refs))
  | [], refs, p, res, _ => by rw [RunB.nil_iff]; rfl
  | b :: E, refs, p, res, h => by
    have hb := h b List.mem_cons_self
    have hbe : (b.isEmpty || startsWith b ['\n']) = true := by rcases hb with rfl | rfl <;> rfl
    rw [RunB.empty_iff hbe, emptyP_emptyish refs p hb]
    exact RunB.emptyish_iff (fun x hx => h x (List.mem_cons_of_mem _ hx))

/-- the last child is not a code block (`pre` with a first child `code`) -/
def noCodeLast (p : Node) : Prop := ∀ sib, p.last? = some sib → preCode sib = none

theorem fill1_of_noCode {p : Node} (h : noCodeLast p) (x : Str) : fill1 p x = p := by
  unfold fill1
  cases hl : p.last? with
  | none => rfl
  | some sib => simp [h sib hl]

theorem fills_of_noCode {p : Node} (h : noCodeLast p) (E : List Str) : fills p E = p := by
  induction E with
  | nil => rfl
  | cons b E ih => simp only [fills, List.foldl_cons, fill1_of_noCode h] at ih ⊢; exact ih

theorem setLast_last? (p c : Node) : (p.setLast c).last? = some c := by
  simp [Node.setLast, Node.last?]

theorem preCode_setCodeText {sib code : Node} (h : preCode sib = some code) (t : Str) :
    preCode { sib with children := { code with text := some t, textAtomic := true } :: sib.children.drop 1 } =
      some { code with text := some t, textAtomic := true } := by
  unfold preCode at h ⊢
  split at h
  · rename_i hpre
    split at h
    · rename_i c r hc
      split at h
      · rename_i hcode
        injection h with h; subst h
        have h1 : Node.isTag { sib with children := { c with text := some t, textAtomic := true } :: sib.children.drop 1 } "pre" = true := hpre
        have h2 : Node.isTag { c with text := some t, textAtomic := true } "code" = true := hcode
        simp only [h1, if_true, h2]
      · cases h
    · cases h
  · cases h

/-- a filler keeps a trailing code block a trailing code block, and the absence of one -/
theorem noCodeLast_fill1 (p : Node) (x : Str) : noCodeLast (fill1 p x) ↔ noCodeLast p := by
  cases hl : p.last? with
  | none => simp only [fill1, hl]
  | some sib =>
    cases hc : preCode sib with
    | none => simp only [fill1, hl, hc]
    | some code =>
      have e : fill1 p x = setCodeText p sib code (fmtOpt code.text ++ x) := by simp only [fill1, hl, hc]
      rw [e]
      constructor
      · intro h
        have := h _ (by unfold setCodeText; exact setLast_last? _ _)
        rw [preCode_setCodeText hc] at this
        cases this
      · intro h
        have := h sib hl
        rw [hc] at this; cases this

theorem noCodeLast_fills (p : Node) (E : List Str) : noCodeLast (fills p E) ↔ noCodeLast p := by
  induction E generalizing p with
  | nil => rfl
  | cons b E ih =>
    simp only [fills, List.foldl_cons] at ih ⊢
    rw [ih, noCodeLast_fill1]

/-- **the trees of a text ending in a blank line, without and with more line feeds behind it**: the same run `p1`
    on the blocks in front, then empty blocks only, which append fillers to a trailing code block -/
theorem parseDocument_trailing (tab : Nat) (O : Str) (j : Nat) :
    ∃ p1 r1 E0 E1, (∀ b ∈ E0, b = [] ∨ b = ['\n']) ∧ (∀ b ∈ E1, b = [] ∨ b = ['\n']) ∧ E0 ≠ [] ∧ E1 ≠ [] ∧
      (∃ bs, RunB tab [] [] (Node.el "div") bs (p1, r1)) ∧
      parseDocument tab (O ++ nn) = some (fills p1 E0, r1) ∧
      parseDocument tab (O ++ nn ++ List.replicate j '\n') = some (fills p1 E1, r1) := by
  -- `O = V ++ "\n"^i` with `V` not ending in a line feed
  obtain ⟨w, hw, hwa⟩ := rstripP_decomp (· = '\n') O
  have hV : (rstripC '\n' O).getLast? ≠ some '\n' := by
    intro h
    have := rstripP_getLast (p := (· = '\n')) (s := O) h
    simp at this
  have hw' : w = List.replicate w.length '\n' := by
    apply List.eq_replicate_iff.2
    refine ⟨rfl, fun c hc => ?_⟩
    have := List.all_eq_true.1 hwa c hc
    simpa using this
  generalize hVdef : rstripP (· = '\n') O = V at hw hV
  have hV' : V.getLast? ≠ some '\n' := by rw [← hVdef]; exact hV
  have e0 : O ++ nn = V ++ nn ++ List.replicate w.length '\n' := by
    rw [hw, hw', List.length_replicate]
    have := replicate_nl_append_comm w.length 0
    simp only [List.replicate_zero, List.append_nil, Nat.add_zero] at this
    rw [List.append_assoc, this, List.append_assoc]
  have e1 : O ++ nn ++ List.replicate j '\n' = V ++ nn ++ List.replicate (w.length + j) '\n' := by
    rw [hw, hw', List.length_replicate]
    have := replicate_nl_append_comm w.length j
    rw [List.append_assoc, List.append_assoc, ← List.append_assoc (List.replicate _ _), this, List.append_assoc]
  have ht := parseDocument_total tab (O ++ nn)
  cases hp : parseDocument tab (O ++ nn) with
  | none => rw [hp] at ht; cases ht
  | some res =>
    have hr := (parseDocument_eq_iff tab _ res).1 hp
    rw [e0] at hr
    change RunB tab [] [] (Node.el "div") (blocks _) res at hr
    rw [blocks_append_nn V hV', RunB.append_iff] at hr
    obtain ⟨p1, r1, h1, h2⟩ := hr
    have hE0 := blocks_replicate_nl w.length
    have hE1 := blocks_replicate_nl (w.length + j)
    rw [RunB.emptyish_iff hE0] at h2
    refine ⟨p1, r1, _, _, hE0, hE1, blocks_ne_nil _, blocks_ne_nil _, ⟨_, h1⟩, by rw [h2], ?_⟩
    rw [parseDocument_eq_iff, e1]
    change RunB tab [] [] (Node.el "div") (blocks _) _
    rw [blocks_append_nn V hV', RunB.append_iff]
    exact ⟨p1, r1, h1, (RunB.emptyish_iff hE1).2 rfl⟩

/-- … hence the same tree, unless the document ends in a code block -/
theorem parseDocument_trailing_noCode (tab : Nat) (O : Str) (j : Nat)
    (h : ∀ root refs, parseDocument tab (O ++ nn) = some (root, refs) → noCodeLast root) :
    parseDocument tab (O ++ nn ++ List.replicate j '\n') = parseDocument tab (O ++ nn) := by
  obtain ⟨p1, r1, E0, E1, _, _, _, _, _, h0, h1⟩ := parseDocument_trailing tab O j
  have hn : noCodeLast p1 := (noCodeLast_fills p1 E0).1 (h _ _ h0)
  rw [h0, h1, fills_of_noCode hn, fills_of_noCode hn]

theorem trailing_contains (s : Str) (m : Nat) : (s ++ List.replicate m '\n').contains '<' = s.contains '<' := by
  apply contains_eq_of_mem_iff
  simp only [List.mem_append]
  constructor
  · rintro (h | h)
    · exact h
    · have := List.eq_of_mem_replicate h; cases this
  · exact Or.inl

theorem trailing_isBlankDoc (s : Str) (m : Nat) : isBlankDoc (s ++ List.replicate m '\n') = isBlankDoc s := by
  apply isBlankDoc_eq_of_all
  rw [List.all_append]
  have : (List.replicate m '\n').all isSpace = true := by
    rw [List.all_eq_true]; intro c hc; rw [List.eq_of_mem_replicate hc]; decide
  rw [this, Bool.and_true]

/-- **blank lines behind a document that does not end in a code block**: the same conversion -/
theorem convert_trailing_noCode (cfg : Pipeline.Cfg) (s : Str) (m : Nat)
    (h : ∀ root refs, parseDocument cfg.tab (Pipeline.prepare cfg s) = some (root, refs) → noCodeLast root) :
    Pipeline.convert cfg (s ++ List.replicate m '\n') = Pipeline.convert cfg s := by
  obtain ⟨O, j, hO, hOj⟩ := prepare_trailing cfg s m
  have ht : parseDocument cfg.tab (Pipeline.prepare cfg (s ++ List.replicate m '\n')) =
      parseDocument cfg.tab (Pipeline.prepare cfg s) := by
    rw [hOj, hO]
    exact parseDocument_trailing_noCode cfg.tab O j (by rw [← hO]; exact h)
  simp only [Pipeline.convert, Pipeline.tree, trailing_contains, trailing_isBlankDoc, ht]

end Trailing

end MdVerif.NormDoc
