/-
Helper lemmas for C10 on the extension model, part 5: the composition of the stage lemmas along `PipelineX.convertX`
when the block-level extensions (tables, admonition, def_list, abbr, sane_lists), the inline-stage extensions (nl2br,
wikilinks) and the tree-level extensions attr_list, toc may be enabled; fenced_code and footnotes off.

* the instance of `BlkX.StrDomX` for the string class of `C10_partial_links` (`strDomX_adj3q`: characters of the domain,
  none of the three adjacencies, with wikilinks no `[` before a blank) — `lower` and the literal strings stay inside;
* block stage: `BlkX.parseDocumentXT_strs` (`Lemmas/PlaceholdersXBlock*.lean`) gives `WNodeB 0` / `QN wl` at every
  element of the block tree and `RefsOK` / abbreviation keys and titles without STX/ETX from the log;
* inline stage `runX_specB` over `InlineX.table false wl nl` with the escaped characters `escX x cfg` (`|` with
  tables): `front_block`;
* the stages after it (prettify, attr_list, abbr — no abbreviation that is a number: F-C10-6 —, toc, unescape,
  serializer, postprocessors) are the generic tail `convertX_noctl_generic` of `Lemmas/PlaceholdersXLate.lean`.

Core Lean only.
-/
import MdVerif.Lemmas.PlaceholdersXBlock4
import MdVerif.Lemmas.PlaceholdersX
import MdVerif.Lemmas.PlaceholdersXPost
import MdVerif.Lemmas.PlaceholdersXLate

namespace MdVerif.NoCtlX
open MdVerif.NoCtl Py Inline InlineX

/-! ### the instance of `StrDomX` -/

/-- the character class of the domain: no STX/ETX, no `<`, `&` -/
abbrev pDom : Char → Bool := fun c => Blk.okc c && domCharB c

theorem litChar_p_ascii : ∀ n, n < 128 → BlkX.litChar (Char.ofNat n) = true → pDom (Char.ofNat n) = true := by
  decide +kernel

theorem pDom_of_ge {c : Char} (h : ¬ c.toNat < 128) : pDom c = true := by
  have h1 : c ≠ NoCtl.STX := by rintro rfl; exact h (by decide)
  have h2 : c ≠ NoCtl.ETX := by rintro rfl; exact h (by decide)
  have h3 : c ≠ '<' := by rintro rfl; exact h (by decide)
  have h4 : c ≠ '&' := by rintro rfl; exact h (by decide)
  simp [pDom, Blk.okc, domCharB, h1, h2, h3, h4]

theorem litChar_p {c : Char} (h : BlkX.litChar c = true) : pDom c = true := by
  by_cases hc : c.toNat < 128
  · exact BlkX.char_ascii (fun c => BlkX.litChar c = true → pDom c = true) litChar_p_ascii c hc h
  · exact pDom_of_ge hc

theorem lowerChar_p_ascii : ∀ n, n < 128 → pDom (Char.ofNat n) = true →
    (lowerChar (Char.ofNat n)).all pDom = true := by
  decide +kernel

/-- `str.lower()` stays inside the character class of the domain -/
theorem lowerChar_p (c : Char) (h : pDom c = true) : ∀ d ∈ lowerChar c, pDom d = true := by
  by_cases hc : c.toNat < 128
  · have := BlkX.char_ascii (fun c => pDom c = true → (lowerChar c).all pDom = true) lowerChar_p_ascii c hc h
    exact List.all_eq_true.1 this
  · simp only [lowerChar, hc, if_false]
    cases hf : Generated.Chars.lowerNonAscii.find? (fun e => e.1 = c.toNat) with
    | none =>
      intro d hd
      simp only [List.mem_singleton] at hd
      subst hd; exact h
    | some e =>
      have he := List.mem_of_find?_eq_some hf
      have := List.all_eq_true.mp BlkX.lowerTable_lit e he
      intro d hd
      simp only [List.mem_map] at hd
      obtain ⟨n, hn, rfl⟩ := hd
      exact litChar_p (List.all_eq_true.mp this n hn)

theorem contains_pair_of_not_mem {a b : Char} {s : Str} (h : a ∉ s) : contains s [a, b] = false := by
  rw [contains_eq_false_iff]
  intro pre post e
  apply h
  rw [e]; simp

theorem lit_not_mem {s : Str} (hs : ∀ c ∈ s, BlkX.litChar c = true) {a : Char} (ha : BlkX.litChar a = false) :
    a ∉ s := by
  intro hm
  rw [hs a hm] at ha; cases ha

/-- the string class that the block stage keeps (characters of the domain, none of the three adjacencies, with
    wikilinks no `[` immediately before a blank) is closed under what the extension processors do -/
theorem strDomX_adj3q (wl : Bool) : BlkX.StrDomX pDom Blk.okc
    (fun s => (Blk.AllC pDom s ∧ Adj3 s) ∧ Qw wl s) where
  toStrDom := strDom_adj3q wl
  lower := lowerChar_p
  lit := fun s hs =>
    ⟨⟨fun c hc => litChar_p (hs c hc),
      contains_pair_of_not_mem (lit_not_mem hs (by decide)),
      contains_pair_of_not_mem (lit_not_mem hs (by decide)),
      contains_pair_of_not_mem (lit_not_mem hs (by decide))⟩,
     fun _ => contains_pair_of_not_mem (lit_not_mem hs (by decide))⟩

/-- the instance without the wikilinks clause (`P s = AllC p s ∧ Adj3 s`, as `strDom_adj3`) -/
theorem strDomX_adj3 : BlkX.StrDomX pDom Blk.okc (fun s => Blk.AllC pDom s ∧ Adj3 s) where
  toStrDom := strDom_adj3
  lower := lowerChar_p
  lit := fun s hs => ((strDomX_adj3q false).lit s hs).1

/-! ### from the extended block tree to the invariants of the inline engine -/

theorem attrsNoCtl_of_attrsC {attrs : List (Str × Str)} (h : BlkX.AttrsC pDom attrs) : attrsNoCtl attrs :=
  fun kv hkv => ⟨(allC_domB (h kv hkv).1).1, (allC_domB (h kv hkv).2).1⟩

theorem wnodeB_of_bnodeXP {wl : Bool} {n : Node}
    (h : BlkX.BNodeXP pDom Blk.okc (fun s => (Blk.AllC pDom s ∧ Adj3 s) ∧ Qw wl s) n) : WNodeB 0 n ∧ QN wl n := by
  obtain ⟨⟨b1, b2, b3, b4, b5, b6, b7⟩, p1, p2⟩ := h
  have htail := allC_domB p1.1.1
  refine ⟨⟨b1, attrsNoCtl_of_attrsC b2, b3, strT_of_noCtl htail.1 htail.2 p1.1.2, ?_,
    fun hc => b7 (by simpa [isCode] using hc)⟩, fun ha => (p2 ha).2, p1.2⟩
  split
  · rename_i hat
    rw [if_pos hat] at b5
    exact allC_okc b5
  · rename_i hat
    have hat' : n.textAtomic = false := by simpa using hat
    have ht := p2 hat'
    have htx := allC_domB ht.1.1
    exact strT_of_noCtl htx.1 htx.2 ht.1.2

theorem refsOK_of_logC {P : Str → Prop} {log : Block.Refs} (x : PipelineX.Exts) (esc : List Char)
    (h : BlkX.LogC pDom P log) : RefsOK { esc := esc, refs := (PipelineX.refsX x log).reverse } := by
  apply refsOK_of_refsC
  unfold PipelineX.refsX
  split
  · exact BlkX.refsOf_c h
  · exact h.refsC

theorem abbrs_noctl {P : Str → Prop} {log : Block.Refs} (h : BlkX.LogC pDom P log) :
    ∀ kv ∈ BlockExt.abbrsOf log, NoCtl kv.1 ∧ NoCtl kv.2 :=
  fun kv hkv => ⟨(allC_domB (BlkX.abbrsOf_c h kv hkv).1).1, (allC_domB (BlkX.abbrsOf_c h kv hkv).2).1⟩

/-- `md.ESCAPED_CHARS` with `|` appended by the tables extension -/
theorem escOK_escX (x : PipelineX.Exts) {cfg : Pipeline.Cfg} (h : EscOK cfg.esc) : EscOK (PipelineX.escX x cfg) := by
  unfold PipelineX.escX
  split
  · intro c hc
    rcases List.mem_append.1 hc with hc | hc
    · exact h c hc
    · simp only [List.mem_singleton] at hc
      subst hc
      exact ⟨by decide, by decide, by decide⟩
  · exact h

/-! ### end to end -/

/-- no abbreviation of the document is a number (F-C10-6), stated through the model of the block stage -/
def AbbrKeysOK (x : PipelineX.Exts) (cfg : Pipeline.Cfg) (src : Str) : Prop :=
  x.abbr = true →
    match BlockExt.parseDocumentXT x.tables x.blockCfg cfg.tab (Pipeline.prepare cfg src) with
    | some (_, log) => noDigitsAbbr (BlockExt.abbrsOf log) = true
    | none => True

instance (x : PipelineX.Exts) (cfg : Pipeline.Cfg) (src : Str) : Decidable (AbbrKeysOK x cfg src) := by
  unfold AbbrKeysOK
  cases BlockExt.parseDocumentXT x.tables x.blockCfg cfg.tab (Pipeline.prepare cfg src) with
  | none => exact inferInstanceAs (Decidable (x.abbr = true → True))
  | some r => exact inferInstanceAs (Decidable (x.abbr = true → noDigitsAbbr (BlockExt.abbrsOf r.2) = true))

/-- without fenced code the preprocessors hand `Pipeline.prepare cfg src` to the block parser, with an empty stash -/
theorem prepareX_nofence {x : PipelineX.Exts} (hfc : x.fencedCode = false) {cfg : Pipeline.Cfg} {src text : Str}
    {stash : List Str} (hp : PipelineX.prepareX x cfg src = .ok (text, stash)) :
    text = Pipeline.prepare cfg src ∧ stash = [] := by
  unfold PipelineX.prepareX at hp
  simp only [hfc, Bool.false_eq_true, if_false] at hp
  split at hp
  · cases hp
  · injection hp with hp
    simp only [Prod.mk.injEq] at hp
    exact ⟨hp.1.symm, hp.2.symm⟩

/-- **the front part of `convertX` with the block-level extensions** (fenced code off): on the domain of
    `C10_partial_links` the tree after the inline stage consists of `WNodeB 0` elements, the raw-HTML stash is empty,
    and the abbreviation table holds no STX/ETX -/
theorem front_block {x : PipelineX.Exts} (hfc : x.fencedCode = false)
    {cfg : Pipeline.Cfg} (hcfg : EscOK cfg.esc) {src : Str} (hd : C10DomainL cfg.tab src)
    (hq : Qw x.wikilinks (Normalize.normalize cfg.tab src))
    {text : Str} {stash : List Str} {root : Node} {log : Block.Refs} {t : Node} {xs : XSt}
    (hp : PipelineX.prepareX x cfg src = .ok (text, stash))
    (hb : BlockExt.parseDocumentXT x.tables x.blockCfg cfg.tab text = some (root, log))
    (hr : runX (xcX x cfg log) root stash = some (t, xs)) :
    t.Forall (WNodeB 0) ∧ xs.st.html = [] ∧ (∀ kv ∈ BlockExt.abbrsOf log, NoCtl kv.1 ∧ NoCtl kv.2) := by
  obtain ⟨rfl, rfl⟩ := prepareX_nofence hfc hp
  have hP : (Blk.AllC pDom (Pipeline.prepare cfg src) ∧ Adj3 (Pipeline.prepare cfg src)) ∧
      Qw x.wikilinks (Pipeline.prepare cfg src) :=
    ⟨prepare_domB cfg hd, by rw [prepare_eq_normalize cfg hd]; exact hq⟩
  obtain ⟨hroot, hlog⟩ := BlkX.parseDocumentXT_strs (strDomX_adj3q x.wikilinks) x.tables x.blockCfg cfg.tab _ hP hb
  have htree : root.Forall (WNodeB 0) := Node.Forall.mono (fun _ hn => (wnodeB_of_bnodeXP hn).1) root hroot
  have htreeq : root.Forall (QN x.wikilinks) := Node.Forall.mono (fun _ hn => (wnodeB_of_bnodeXP hn).2) root hroot
  have hkeys : ∀ k ∈ (xcX x cfg log).fnKeys, NoCtl k := by
    intro k hk
    simp only [List.mem_map] at hk
    obtain ⟨kv, hkv, rfl⟩ := hk
    exact (allC_domB (BlkX.footnotesOf_c hlog kv hkv).1).1
  have hhi := hiSpecXB_tables (xc := xcX x cfg log) (escOK_escX x hcfg) (refsOK_of_logC x _ hlog) hkeys
    (fn := x.footnotes) (wl := x.wikilinks) (nl := x.nl2br) rfl
  obtain ⟨ht', hhtml⟩ := runX_specB hhi htree htreeq hr
  exact ⟨ht', hhtml, abbrs_noctl hlog⟩

/-- end to end with every extension but fenced_code and footnotes, on the domain of `C10_partial_links` (with
    wikilinks: no `[` immediately before a blank) -/
theorem convertX_noctl_all {x : PipelineX.Exts} (hfc : x.fencedCode = false) (hfn : x.footnotes = false)
    {cfg : Pipeline.Cfg} (hcfg : EscOK cfg.esc) {src out : Str} (hd : C10DomainL cfg.tab src)
    (hq : Qw x.wikilinks (Normalize.normalize cfg.tab src)) (habbr : AbbrKeysOK x cfg src)
    (h : PipelineX.convertX x cfg src = .ok out) : NoCtl out := by
  refine convertX_noctl_generic hfn ?_ h
  intro text stash root log t xs hp hb hr
  obtain ⟨ht, hhtml, hab⟩ := front_block hfc hcfg hd hq hp hb hr
  refine ⟨Node.Forall.mono (fun _ hn => fnode_of_wnodeB hn) t ht, hhtml, fun hxa => ⟨hab, ?_⟩⟩
  have hk := habbr hxa
  rw [← (prepareX_nofence hfc hp).1, hb] at hk
  exact hk

end MdVerif.NoCtlX
