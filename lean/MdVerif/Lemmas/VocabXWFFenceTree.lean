/-
Lemmas for C05 on the extension model, output level with fenced_code, part 3: what a pass over a mixed stash does
to the serialisation of a well-formed tree of named elements (`VocabXOut.GN`), and that the result is readable.

* `MPass fmt n h f'`: the interface of a pass `h` (the raw-HTML restore on `fenced ++ ents`, possibly followed by the
  two replacements of `FootnotePostprocessor`): it copies every character other than STX and `<`; copies `<` unless
  `<p>` placeholder `</p>` starts there, where it writes `<p>` + `h placeholder` + `</p>` or one fenced entry;
  distributes over `A ++ Y` for a `<`-free `A` and a delimiter at the head of `Y` (and writes a delimiter first for
  such a `Y`: `d4`); turns a strictly readable text into a `TFrag`; and coincides with an ordinary `VocabXOut.Pass` `f'` on `<`-free strings without placeholder of a fenced
  entry (`NoF n`);
* `NoFencedInAttrs n u`: no attribute value below the root holds the placeholder of an entry `i < n` (decidable);
* `mp_serialize` / `mp_serializeList`: `h (serialize fmt n ++ Y) = G ++ h Y` with `G` readable inside the vocabulary;
* `mp_inner`: the same for the content of the wrapper.

Core Lean only.
-/
import MdVerif.Lemmas.VocabXWFFenceRead

namespace MdVerif.VocabXFence
open Py Ser Vocab2 VocabXOut
open MdVerif.NoCtl
open BlockExt (allNodes allKids)

/-! ### the interface -/

structure MPass (n : Nat) (h f' : Str → Str) : Prop where
  nil : h [] = []
  copy : ∀ c s, c ≠ STX → c ≠ '<' → h (c :: s) = c :: h s
  lt : ∀ s, (∀ ds rest, PhDigits ds → s ≠ 'p' :: '>' :: (phStr ds ++ ('<' :: '/' :: 'p' :: '>' :: rest))) →
    h ('<' :: s) = '<' :: h s
  app : ∀ A Y, NoLt A → D4 Y → h (A ++ Y) = h A ++ h Y
  para : ∀ ds, PhDigits ds →
    (∀ rest, h ('<' :: 'p' :: '>' :: (phStr ds ++ ('<' :: '/' :: 'p' :: '>' :: rest))) =
        '<' :: 'p' :: '>' :: (h (phStr ds) ++ ('<' :: '/' :: 'p' :: '>' :: h rest))) ∨
    ∃ e, FEntry e ∧ ∀ rest, h ('<' :: 'p' :: '>' :: (phStr ds ++ ('<' :: '/' :: 'p' :: '>' :: rest))) = e ++ h rest
  text : ∀ S, SOK S → TFrag (h S)
  d4 : ∀ Y, D4 Y → D4 (h Y)
  pass : Pass f'
  agree : ∀ X, NoLt X → NoF n X → h X = f' X

variable {n : Nat} {h f' : Str → Str}

theorem MPass.plain (hp : MPass n h f') (M Y : Str) (h1 : STX ∉ M) (h2 : '<' ∉ M) : h (M ++ Y) = M ++ h Y := by
  induction M with
  | nil => rfl
  | cons c r ih =>
    have hc1 : c ≠ STX := fun e => h1 (by rw [e]; exact List.mem_cons_self)
    have hc2 : c ≠ '<' := fun e => h2 (by rw [e]; exact List.mem_cons_self)
    rw [List.cons_append, hp.copy c _ hc1 hc2,
      ih (fun h => h1 (List.mem_cons_of_mem _ h)) (fun h => h2 (List.mem_cons_of_mem _ h))]
    rfl

theorem name_noLt {t : Str} (h : isName t = true) : '<' ∉ t := by
  intro hm
  have := isName_chars h _ hm
  revert this; decide

theorem noLt_escAttr (v : Str) : NoLt (escAttrHtml v) := by
  intro c hc
  rw [onepass_attr'] at hc
  exact (esc1_no_markup' true false v c hc).1

theorem noLt_escCdata (s : Str) : NoLt (escCdata s) := by
  intro c hc
  rw [onepass_cdata'] at hc
  exact (esc1_no_markup' false false s c hc).1

/-- the attributes -/
theorem MPass.attrs (hp : MPass n h f') (fmt : Fmt) :
    ∀ (as : List (Str × Str)), (∀ kv ∈ as, isName kv.1 = true) → (∀ kv ∈ as, NoF n (escAttrHtml kv.2)) →
      ∀ (Z : Str), D4 Z →
      h (writeAttrs fmt as ++ Z) = writeAttrs fmt (as.map (fun x => (x.1, pA f' x.2))) ++ h Z := by
  intro as
  induction as with
  | nil => intro _ _ Z _; rfl
  | cons kv r ih =>
    intro hk hF Z hZ
    obtain ⟨k, v⟩ := kv
    have hkn := hk (k, v) List.mem_cons_self
    have hkc := name_clean hkn
    have hkl := name_noLt hkn
    have ihr := ih (fun x hx => hk x (List.mem_cons_of_mem _ hx)) (fun x hx => hF x (List.mem_cons_of_mem _ hx)) Z hZ
    have hag : h (escAttrHtml v) = f' (escAttrHtml v) :=
      hp.agree _ (noLt_escAttr v) (hF (k, v) List.mem_cons_self)
    simp only [writeAttrs, List.map_cons, pA, hp.pass.fixA]
    by_cases hb : (decide (k = escAttrHtml v) && decide (fmt = .html)) = true
    · have hkv : k = escAttrHtml v := by simp only [Bool.and_eq_true, decide_eq_true_eq] at hb; exact hb.1
      have hsub : f' (escAttrHtml v) = k := by rw [← hkv]; exact hp.pass.plain' k hkc.1
      rw [if_pos hb, hsub, ← hkv]
      have hb' : (decide (k = k) && decide (fmt = .html)) = true := by
        simp only [Bool.and_eq_true, decide_eq_true_eq] at hb ⊢; exact ⟨trivial, hb.2⟩
      rw [if_pos hb', List.append_assoc, List.cons_append, hp.copy ' ' _ (by decide) (by decide),
        hp.plain k _ hkc.1 hkl, ihr]
      simp [pA]
    · rw [if_neg hb]
      have hb' : ¬ (decide (k = f' (escAttrHtml v)) && decide (fmt = .html)) = true := by
        intro h'
        simp only [Bool.and_eq_true, decide_eq_true_eq] at h' hb
        apply hb
        refine ⟨?_, h'.2⟩
        have := hp.pass.eqPlain (escAttrHtml v) k h'.1.symm hkc.1 hkc.2
        exact this.symm
      rw [if_neg hb']
      have e1 : (' ' :: k ++ "=\"".toList ++ escAttrHtml v ++ ['"']) ++ writeAttrs fmt r ++ Z =
          (' ' :: k ++ "=\"".toList) ++ (escAttrHtml v ++ ('"' :: (writeAttrs fmt r ++ Z))) := by
        simp [List.append_assoc]
      have hpre1 : STX ∉ ' ' :: k ++ "=\"".toList := by
        intro hm
        rcases List.mem_append.1 hm with hm | hm
        · rcases List.mem_cons.1 hm with hm | hm
          · revert hm; decide
          · exact hkc.1 hm
        · revert hm; decide
      have hpre2 : '<' ∉ ' ' :: k ++ "=\"".toList := by
        intro hm
        rcases List.mem_append.1 hm with hm | hm
        · rcases List.mem_cons.1 hm with hm | hm
          · revert hm; decide
          · exact hkl hm
        · revert hm; decide
      rw [e1, hp.plain _ _ hpre1 hpre2,
        hp.app _ _ (noLt_escAttr v) (d4_cons (Or.inr (Or.inr (Or.inl rfl))) _), hag,
        hp.copy '"' _ (by decide) (by decide), ihr]
      simp [List.append_assoc, pA]

/-! ### no placeholder of a fenced entry in an attribute value -/

/-- no placeholder of an index `< k` occurs in the attribute value `v` -/
def noFV (k : Nat) (v : Str) : Bool := (List.range k).all (fun i => !contains v (Fenced.placeholder i))

/-- **no attribute value below the root holds the placeholder of one of the first `k` stash entries** -/
def NoFencedInAttrs (k : Nat) (u : Node) : Prop :=
  allKids (fun _ attrs => attrs.all (fun kv => noFV k kv.2)) u.children = true

instance (k : Nat) (u : Node) : Decidable (NoFencedInAttrs k u) := by unfold NoFencedInAttrs; infer_instance

theorem contains_skip {E Y : Str} {a : Char} {p' : Str} (h : ∀ x ∈ E, x ≠ a) :
    contains (E ++ Y) (a :: p') = contains Y (a :: p') := by
  induction E with
  | nil => rfl
  | cons e r ih =>
    have he : e ≠ a := h e List.mem_cons_self
    rw [List.cons_append, contains_cons, ih (fun x hx => h x (List.mem_cons_of_mem _ hx))]
    simp [startsWith_cons_cons, he]

theorem head_of_sw {E X p' : Str} {a : Char} (hE : ∃ e, E = '&' :: e)
    (h : startsWith (E ++ X) (a :: p') = true) : a = '&' := by
  obtain ⟨e, rfl⟩ := hE
  simp only [List.cons_append, startsWith_cons_cons, Bool.and_eq_true, decide_eq_true_eq] at h
  exact h.1.symm

/-- a prefix without `&` of an escaped string was copied -/
theorem sw_esc1 (q n : Bool) : ∀ (p v : Str), '&' ∉ p → startsWith (esc1 q n v) p = true → startsWith v p = true
  | [], v, _, _ => startsWith_nil v
  | a :: p', [], _, h => by simp [esc1] at h
  | a :: p', c :: r, hp, h => by
    have ha : a ≠ '&' := fun e => hp (by rw [e]; exact List.mem_cons_self)
    have hp' : '&' ∉ p' := fun hm => hp (List.mem_cons_of_mem _ hm)
    unfold esc1 at h
    split at h
    · exfalso
      split at h
      · exact ha (head_of_sw (E := ['&']) ⟨_, rfl⟩ h)
      · exact ha (head_of_sw ⟨_, rfl⟩ h)
    · split at h
      · exact absurd (head_of_sw ⟨_, rfl⟩ h) ha
      · split at h
        · exact absurd (head_of_sw ⟨_, rfl⟩ h) ha
        · split at h
          · exact absurd (head_of_sw ⟨_, rfl⟩ h) ha
          · split at h
            · exact absurd (head_of_sw ⟨_, rfl⟩ h) ha
            · simp only [startsWith_cons_cons, Bool.and_eq_true, decide_eq_true_eq] at h ⊢
              exact ⟨h.1, sw_esc1 q n p' r hp' h.2⟩

/-- an occurrence of an `STX…` token without `&` in an escaped string is an occurrence in the string -/
theorem contains_esc1 (q n : Bool) (p' : Str) (hp : '&' ∉ STX :: p') :
    ∀ (v : Str), contains (esc1 q n v) (STX :: p') = true → contains v (STX :: p') = true
  | [], h => by simp [esc1] at h; exact absurd h (by simp [contains, find])
  | c :: r, h => by
    have ih := contains_esc1 q n p' hp r
    rw [contains_cons, Bool.or_eq_true]
    have key : ∀ E : Str, (∀ x ∈ E, x ≠ STX) → contains (E ++ esc1 q n r) (STX :: p') = true →
        contains r (STX :: p') = true := by
      intro E hE hc
      rw [contains_skip hE] at hc
      exact ih hc
    unfold esc1 at h
    split at h
    · right
      split at h
      · exact key ['&'] (by decide) h
      · exact key "&amp;".toList (by decide) h
    · split at h
      · right; exact key "&lt;".toList (by decide) h
      · split at h
        · right; exact key "&gt;".toList (by decide) h
        · split at h
          · right; exact key "&quot;".toList (by decide) h
          · split at h
            · right; exact key "&#10;".toList (by decide) h
            · rename_i h1 h2 h3 h4 h5
              rw [contains_cons, Bool.or_eq_true] at h
              rcases h with h | h
              · left
                apply sw_esc1 q n _ _ hp
                unfold esc1
                rw [if_neg h1, if_neg h2, if_neg h3, if_neg h4, if_neg h5]
                exact h
              · right; exact ih h

theorem amp_not_mem_placeholder (i : Nat) : '&' ∉ Fenced.placeholder i := by
  intro hm
  simp only [Fenced.placeholder, List.mem_cons, List.mem_append, List.not_mem_nil, or_false] at hm
  rcases hm with hm | (hm | hm) | hm
  · revert hm; decide
  · revert hm; decide
  · have := natToDec_digits i _ hm
    revert this; decide
  · revert hm; decide

/-- the hypothesis on the raw value gives what the pass needs on the escaped value -/
theorem noF_of_noFV {k : Nat} {v : Str} (h : noFV k v = true) : NoF k (escAttrHtml v) := by
  intro i hi
  simp only [noFV, List.all_eq_true, List.mem_range, Bool.not_eq_true'] at h
  have hv := h i hi
  cases hc : contains (escAttrHtml v) (Fenced.placeholder i) with
  | false => rfl
  | true =>
    exfalso
    rw [onepass_attr'] at hc
    have hamp := amp_not_mem_placeholder i
    have := contains_esc1 true false ("wzxhzdk:".toList ++ natToDec i ++ [Char.ofNat 3]) hamp v hc
    rw [show (STX :: ("wzxhzdk:".toList ++ natToDec i ++ [Char.ofNat 3])) = Fenced.placeholder i from rfl, hv] at this
    cases this

/-! ### where `<p>` placeholder `</p>` can stand in a serialisation -/

theorem split_lt : ∀ (A A' B B' : Str), NoLt A → NoLt A' → A ++ '<' :: B = A' ++ '<' :: B' → A = A' ∧ B = B'
  | [], [], B, B', _, _, e => by simp at e; exact ⟨rfl, e⟩
  | [], c :: A', B, B', _, h', e => by
    simp only [List.nil_append, List.cons_append, List.cons.injEq] at e
    exact absurd e.1.symm (noLt_cons h').1
  | c :: A, [], B, B', h, _, e => by
    simp only [List.nil_append, List.cons_append, List.cons.injEq] at e
    exact absurd e.1 (noLt_cons h).1
  | c :: A, c' :: A', B, B', h, h', e => by
    simp only [List.cons_append, List.cons.injEq] at e
    obtain ⟨rfl, e2⟩ := e
    obtain ⟨rfl, rfl⟩ := split_lt A A' B B' (noLt_cons h).2 (noLt_cons h').2 e2
    exact ⟨rfl, rfl⟩

/-- a start tag `<t W >` that reads `<p>`: the name is `p` and there are no attributes -/
theorem tag_p_shape {t W X Q : Str} (ht : isName t = true) (hW : W = [] ∨ ∃ w, W = ' ' :: w)
    (e : t ++ (W ++ '>' :: X) = 'p' :: '>' :: Q) : t = ['p'] ∧ W = [] ∧ X = Q := by
  obtain ⟨c, t', rfl, _⟩ := isName_cons ht
  simp only [List.cons_append, List.cons.injEq] at e
  obtain ⟨rfl, e⟩ := e
  cases t' with
  | cons d t'' =>
    exfalso
    simp only [List.cons_append, List.cons.injEq] at e
    have := isName_chars ht d (by simp)
    rw [e.1] at this
    revert this; decide
  | nil =>
    rcases hW with rfl | ⟨w, rfl⟩
    · simp only [List.nil_append, List.cons.injEq, true_and] at e
      exact ⟨rfl, rfl, e⟩
    · simp only [List.nil_append, List.cons_append, List.cons.injEq] at e
      exact absurd e.1 (by decide)

/-- an element that reads `<p>` placeholder `</p>`: the name is `p`, no attributes, no children, the text is the
    placeholder -/
theorem para_shape {t W TX K R ds rest : Str} (ht : isName t = true) (hW : W = [] ∨ ∃ w, W = ' ' :: w)
    (hTX : NoLt TX) (hK : K = [] ∨ ∃ c k, K = '<' :: c :: k ∧ c ≠ '/') (hds : PhDigits ds)
    (e : t ++ (W ++ '>' :: (TX ++ (K ++ '<' :: '/' :: R))) = 'p' :: '>' :: (phStr ds ++ ('<' :: '/' :: 'p' :: '>' :: rest))) :
    t = ['p'] ∧ W = [] ∧ TX = phStr ds ∧ K = [] := by
  obtain ⟨h1, h2, h3⟩ := tag_p_shape ht hW e
  refine ⟨h1, h2, ?_⟩
  rcases hK with rfl | ⟨c, k, rfl, hc⟩
  · simp only [List.nil_append] at h3
    exact ⟨(split_lt _ _ _ _ hTX (noLt_phStr hds) h3).1, rfl⟩
  · exfalso
    simp only [List.cons_append] at h3
    have := (split_lt _ _ _ _ hTX (noLt_phStr hds) h3).2
    simp only [List.cons.injEq] at this
    exact hc this.1

theorem writeAttrs_shape (fmt : Fmt) (as : List (Str × Str)) :
    writeAttrs fmt as = [] ∨ ∃ w, writeAttrs fmt as = ' ' :: w := by
  cases as with
  | nil => exact Or.inl rfl
  | cons kv r =>
    obtain ⟨k, v⟩ := kv
    right
    simp only [writeAttrs]
    split <;> exact ⟨_, by simp; rfl⟩

theorem serialize_shape (fmt : Fmt) (n : Node) (hn : GN n = true) :
    ∃ c k, serialize fmt n = '<' :: c :: k ∧ c ≠ '/' := by
  obtain ⟨tag, attrs, text, ta, children, tail, tla⟩ := n
  cases tag with
  | name t =>
    simp only [GN, Bool.and_eq_true] at hn
    obtain ⟨⟨⟨⟨⟨ht, _⟩, _⟩, _⟩, _⟩, _⟩ := hn
    obtain ⟨c, t', rfl, hc⟩ := isName_cons ht
    have hne : c ≠ '/' := by intro e; subst e; revert hc; decide
    simp only [serialize, element_none]
    split
    · exact ⟨c, _, by simp only [List.cons_append]; rfl, hne⟩
    · exact ⟨c, _, by simp only [List.cons_append]; rfl, hne⟩
  | comment => simp [GN] at hn
  | pi => simp [GN] at hn
  | none => simp [GN] at hn
  | qname q => simp [GN] at hn

theorem serializeList_shape (fmt : Fmt) (l : List Node) (hl : GNL l = true) :
    serializeList fmt l = [] ∨ ∃ c k, serializeList fmt l = '<' :: c :: k ∧ c ≠ '/' := by
  cases l with
  | nil => exact Or.inl rfl
  | cons a r =>
    right
    rw [gnl_cons, Bool.and_eq_true] at hl
    obtain ⟨c, k, e, hc⟩ := serialize_shape fmt a hl.1
    exact ⟨c, k ++ serializeList fmt r, by simp only [serializeList, e, List.cons_append], hc⟩

theorem sok_textStr (t : Option Str) : SOK (textStr t) := by
  unfold textStr
  split
  · unfold SOK
    rw [onepass_cdata']
    have := strict_esc1' cdata (t.getD [])
    rw [show esc1 cdata.quot cdata.nl (t.getD []) = esc1 false false (t.getD []) from rfl] at this
    rw [this]; rfl
  · exact sok_nil

/-! ### one element -/

theorem name_noSTX {t : Str} (h : isName t = true) : STX ∉ t := (name_clean h).1

/-- a name followed by a blank is not `p>` -/
theorem name_sp_ne {t X Q : Str} (ht : isName t = true) (hX : ∃ x, X = ' ' :: x) : t ++ X ≠ 'p' :: '>' :: Q := by
  obtain ⟨x, rfl⟩ := hX
  intro e
  obtain ⟨c, t', rfl, _⟩ := isName_cons ht
  simp only [List.cons_append, List.cons.injEq] at e
  cases t' with
  | nil =>
    simp only [List.nil_append, List.cons.injEq] at e
    exact absurd e.2.1 (by decide)
  | cons d t'' =>
    simp only [List.cons_append, List.cons.injEq] at e
    have := isName_chars ht d (by simp)
    rw [e.2.1] at this
    revert this; decide

/-- one element without content (`<t attrs />`, `<t attrs>`), its tail, and what follows -/
theorem MPass.void_shape (hp : MPass n h f') (t W W' M TL Y : Str) (d : Char) (ht : isName t = true)
    (hW : ∀ Z, D4 Z → h (W ++ Z) = W' ++ h Z)
    (hM1 : STX ∉ d :: M) (hM2 : '<' ∉ d :: M) (hd : d = '<' ∨ d = '>' ∨ d = '"' ∨ d = ' ')
    (hne : ∀ R Q, t ++ (W ++ (d :: M ++ R)) ≠ 'p' :: '>' :: Q) (hTL : NoLt TL) (hY : D4 Y) :
    h ('<' :: (t ++ (W ++ d :: M)) ++ TL ++ Y) = '<' :: (t ++ (W' ++ d :: M)) ++ h TL ++ h Y := by
  have e1 : '<' :: (t ++ (W ++ d :: M)) ++ TL ++ Y = '<' :: (t ++ (W ++ (d :: M ++ (TL ++ Y)))) := by
    simp [List.append_assoc]
  rw [e1, hp.lt _ (fun ds rest _ e => hne _ _ e), hp.plain t _ (name_noSTX ht) (name_noLt ht),
    hW ((d :: M) ++ (TL ++ Y)) (by rw [List.cons_append]; exact d4_cons hd _),
    hp.plain _ _ hM1 hM2, hp.app TL Y hTL hY]
  simp [List.append_assoc]

/-- one element with content, its tail, and what follows — when it does not read `<p>` placeholder `</p>` -/
theorem MPass.elem_shape (hp : MPass n h f') (t W W' TX K K' TL Y : Str) (ht : isName t = true)
    (hW : ∀ Z, D4 Z → h (W ++ Z) = W' ++ h Z) (hTX : NoLt TX)
    (hK : ∀ Z, D4 Z → h (K ++ Z) = K' ++ h Z) (hKd : ∀ R, D4 (K ++ '<' :: R))
    (hne : ∀ R ds rest, PhDigits ds → t ++ (W ++ '>' :: (TX ++ (K ++ '<' :: '/' :: R))) ≠
      'p' :: '>' :: (phStr ds ++ ('<' :: '/' :: 'p' :: '>' :: rest)))
    (hTL : NoLt TL) (hY : D4 Y) :
    h ('<' :: (t ++ (W ++ '>' :: (TX ++ (K ++ ("</".toList ++ t ++ ['>']))))) ++ TL ++ Y) =
      '<' :: (t ++ (W' ++ '>' :: (h TX ++ (K' ++ ("</".toList ++ t ++ ['>']))))) ++ h TL ++ h Y := by
  have e1 : '<' :: (t ++ (W ++ '>' :: (TX ++ (K ++ ("</".toList ++ t ++ ['>']))))) ++ TL ++ Y =
      '<' :: (t ++ (W ++ '>' :: (TX ++ (K ++ '<' :: '/' :: (t ++ '>' :: (TL ++ Y)))))) := by
    simp [List.append_assoc]
  have e2 : ∀ Z : Str, '/' :: (t ++ '>' :: Z) = ('/' :: t ++ ['>']) ++ Z := by intro Z; simp
  have h2a : STX ∉ '/' :: t ++ ['>'] := by
    intro hm
    rcases List.mem_append.1 hm with hm | hm
    · rcases List.mem_cons.1 hm with hm | hm
      · revert hm; decide
      · exact name_noSTX ht hm
    · revert hm; decide
  have h2b : '<' ∉ '/' :: t ++ ['>'] := by
    intro hm
    rcases List.mem_append.1 hm with hm | hm
    · rcases List.mem_cons.1 hm with hm | hm
      · revert hm; decide
      · exact name_noLt ht hm
    · revert hm; decide
  rw [e1, hp.lt _ (fun ds rest hds e => hne _ ds rest hds e), hp.plain t _ (name_noSTX ht) (name_noLt ht),
    hW _ (d4_cons (Or.inr (Or.inl rfl)) _), hp.copy '>' _ (by decide) (by decide),
    hp.app TX _ hTX (hKd _), hK _ (d4_cons (Or.inl rfl) _),
    hp.lt _ (fun ds rest _ e => by simp only [List.cons.injEq] at e; exact absurd e.1 (by decide)),
    e2, hp.plain _ _ h2a h2b, hp.app TL Y hTL hY]
  simp [List.append_assoc]

/-- an element that reads `<p>` placeholder `</p>` -/
theorem MPass.para_shape (hp : MPass n h f') (ds TL : Str) (hds : PhDigits ds) (hTL : NoLt TL) :
    (∀ Y, D4 Y → h ('<' :: 'p' :: '>' :: (phStr ds ++ ('<' :: '/' :: 'p' :: '>' :: (TL ++ Y)))) =
        '<' :: 'p' :: '>' :: (h (phStr ds) ++ ['<', '/', 'p', '>']) ++ h TL ++ h Y) ∨
    ∃ e, FEntry e ∧ ∀ Y, D4 Y →
      h ('<' :: 'p' :: '>' :: (phStr ds ++ ('<' :: '/' :: 'p' :: '>' :: (TL ++ Y)))) = e ++ h TL ++ h Y := by
  rcases hp.para ds hds with e | ⟨x, hx, e⟩
  · left; intro Y hY; rw [e, hp.app TL Y hTL hY]; simp [List.append_assoc]
  · right; exact ⟨x, hx, fun Y hY => by rw [e, hp.app TL Y hTL hY, List.append_assoc]⟩

/-! ### the tree -/

/-- the attribute condition as a node predicate -/
def noFq (k : Nat) : Tag → List (Str × Str) → Bool := fun _ attrs => attrs.all (fun kv => noFV k kv.2)

theorem writeAttrs_eq_nil {fmt : Fmt} {as : List (Str × Str)} (h : writeAttrs fmt as = []) : as = [] := by
  have := length_le_writeAttrs fmt as
  rw [h] at this
  exact List.length_eq_zero_iff.1 (by simpa using this)

theorem sortAttrs_eq_nil {as : List (Str × Str)} (h : sortAttrs as = []) : as = [] := by
  cases as with
  | nil => rfl
  | cons a r =>
    exfalso
    simp only [sortAttrs, List.foldr_cons] at h
    generalize List.foldr insAttr [] r = l at h
    cases l with
    | nil => simp [insAttr] at h
    | cons x xs => simp only [insAttr] at h; split at h <;> cases h

section Main
variable {tagOk keyOk : Str → Bool} {k : Nat}

mutual
/-- **what the pass does to the serialisation of a node, and that the result is readable** -/
theorem mp_serialize (hp : MPass k h f') (fmt : Fmt)
    (hvoc : tagOk "pre".toList = true ∧ tagOk "code".toList = true ∧ keyOk "class".toList = true ∧
      keyOk "id".toList = true) :
    (n : Node) → GN n = true → allNodes (qtOf tagOk keyOk) n = true → allNodes (noFq k) n = true →
      ∃ G, (∀ Y, D4 Y → h (serialize fmt n ++ Y) = G ++ h Y) ∧ Readable fmt tagOk keyOk G
  | ⟨tag, attrs, text, ta, children, tail, tla⟩, hg, hq, hn => by
    cases tag with
    | name t =>
      simp only [GN, Bool.and_eq_true, Bool.not_eq_true', Bool.or_eq_true, List.isEmpty_iff, List.all_eq_true] at hg
      obtain ⟨⟨⟨⟨⟨ht, f2⟩, ha⟩, hnd⟩, hv⟩, hk⟩ := hg
      simp only [allNodes, qtOf, Bool.and_eq_true, List.all_eq_true] at hq
      obtain ⟨⟨htag, hkeys⟩, hqk⟩ := hq
      simp only [allNodes, noFq, Bool.and_eq_true, List.all_eq_true] at hn
      obtain ⟨hnf, hnk⟩ := hn
      obtain ⟨GK, hGK, rGK⟩ := mp_serializeList hp fmt hvoc children hk hqk hnk
      -- the attributes
      have has1 : ∀ kv ∈ sortAttrs attrs, isName kv.1 = true := fun kv hkv => ha kv (mem_sortAttrs attrs kv hkv)
      have hW : ∀ Z, D4 Z → h (writeAttrs fmt (sortAttrs attrs) ++ Z) =
          writeAttrs fmt ((sortAttrs attrs).map (fun x => (x.1, pA f' x.2))) ++ h Z :=
        fun Z hZ => hp.attrs fmt _ has1 (fun kv hkv => noF_of_noFV (hnf kv (mem_sortAttrs attrs kv hkv))) Z hZ
      have hn' : ∀ kv ∈ (sortAttrs attrs).map (fun x => (x.1, pA f' x.2)), isName kv.1 = true := by
        intro kv hkv
        simp only [List.mem_map] at hkv
        obtain ⟨x, hx, rfl⟩ := hkv
        exact has1 x hx
      have hk' : ∀ kv ∈ (sortAttrs attrs).map (fun x => (x.1, pA f' x.2)), keyOk kv.1 = true := by
        intro kv hkv
        simp only [List.mem_map] at hkv
        obtain ⟨x, hx, rfl⟩ := hkv
        exact hkeys x (mem_sortAttrs attrs x hx)
      have hnd' : keysNodup ((sortAttrs attrs).map (fun x => (x.1, pA f' x.2))) = true :=
        VocabXWF.keysNodup_mapVal (fun kv => pA f' kv.2) _ (keysNodup_sortAttrs attrs hnd)
      have hWs := writeAttrs_shape fmt (sortAttrs attrs)
      -- text and tail
      have hTLs := sok_textStr tail
      have hTLn := sok_noLt hTLs
      have rTL : Readable fmt tagOk keyOk (h (textStr tail)) := readable_tfrag fmt hvoc (hp.text _ hTLs)
      have hTXs := sok_textStr text
      have hTXn := sok_noLt hTXs
      have rTX : Readable fmt tagOk keyOk (h (textStr text)) := readable_tfrag fmt hvoc (hp.text _ hTXs)
      by_cases hx : (fmt = .xhtml && isEmptyTag t) = true
      · -- xhtml, void
        have hx' : fmt = .xhtml ∧ isEmptyTag t = true := by simpa using hx
        refine ⟨'<' :: (t ++ (writeAttrs fmt ((sortAttrs attrs).map (fun x => (x.1, pA f' x.2))) ++ " />".toList)) ++
          h (textStr tail), ?_, ?_⟩
        · intro Y hY
          simp only [serialize, element_none, hx, if_true]
          refine hp.void_shape t _ _ "/>".toList (textStr tail) Y ' ' ht hW (by decide) (by decide)
            (Or.inr (Or.inr (Or.inr rfl))) ?_ hTLn hY
          intro R Q
          apply name_sp_ne ht
          rcases hWs with e | ⟨w, e⟩ <;> rw [e]
          · exact ⟨_, rfl⟩
          · exact ⟨_, rfl⟩
        · obtain ⟨hfmt, hvoid⟩ := hx'
          subst hfmt
          exact readable_append (readable_void_xhtml t _ ht hn' hnd' hvoid htag hk') rTL
      · by_cases hvoid : isEmptyTag t = true
        · -- html, void: no text, no children
          have hfmt : fmt = .html := by
            cases fmt with
            | html => rfl
            | xhtml => simp [hvoid] at hx
          subst hfmt
          rcases hv with hv | ⟨hnt, hch⟩
          · rw [hv] at hvoid; cases hvoid
          · subst hch
            refine ⟨'<' :: (t ++ (writeAttrs .html ((sortAttrs attrs).map (fun x => (x.1, pA f' x.2))) ++ ['>'])) ++
              h (textStr tail), ?_, ?_⟩
            · intro Y hY
              simp only [serialize, element_none, hvoid, hnt, serializeList, List.append_nil, Bool.false_eq_true,
                if_false, if_true]
              refine hp.void_shape t _ _ [] (textStr tail) Y '>' ht hW (by decide) (by decide)
                (Or.inr (Or.inl rfl)) ?_ hTLn hY
              intro R Q e
              have e' : t ++ (writeAttrs .html (sortAttrs attrs) ++ '>' :: R) = 'p' :: '>' :: Q := by simpa using e
              obtain ⟨h1, _, _⟩ := tag_p_shape ht hWs e'
              rw [h1] at hvoid
              revert hvoid; decide
            · exact readable_append (readable_void_html t _ ht hn' hnd' hvoid htag hk') rTL
        · have hnv : isEmptyTag t = false := by simpa using hvoid
          have hKs := serializeList_shape fmt children hk
          by_cases hP : t = ['p'] ∧ writeAttrs fmt (sortAttrs attrs) = [] ∧ serializeList fmt children = [] ∧
              ∃ ds, PhDigits ds ∧ textStr text = phStr ds
          · -- the element reads `<p>` placeholder `</p>`
            obtain ⟨rfl, hW0, hK0, ds, hds, hTX0⟩ := hP
            have e3 : ∀ Y : Str, serialize fmt ⟨.name ['p'], attrs, text, ta, children, tail, tla⟩ ++ Y =
                '<' :: 'p' :: '>' :: (phStr ds ++ ('<' :: '/' :: 'p' :: '>' :: (textStr tail ++ Y))) := by
              intro Y
              have e4 : serialize fmt ⟨.name ['p'], attrs, text, ta, children, tail, tla⟩ =
                  '<' :: (['p'] ++ (writeAttrs fmt (sortAttrs attrs) ++ '>' ::
                    (textStr text ++ (serializeList fmt children ++ ("</".toList ++ ['p'] ++ ['>']))))) ++ textStr tail := by
                simp only [serialize, element_none, hnv, f2, Bool.and_false, Bool.false_eq_true, if_false]
                rfl
              rw [e4, hW0, hK0, hTX0]
              simp [List.append_assoc]
            rcases hp.para_shape ds (textStr tail) hds hTLn with e | ⟨x, hxe, e⟩
            · refine ⟨'<' :: 'p' :: '>' :: (h (phStr ds) ++ ['<', '/', 'p', '>']) ++ h (textStr tail), ?_, ?_⟩
              · intro Y hY
                rw [e3]; exact e Y hY
              · have rC : Readable fmt tagOk keyOk (h (phStr ds)) :=
                  readable_tfrag fmt hvoc (hp.text _ (sok_inert (phStr_inert ds hds)))
                have := readable_elem (tagOk := tagOk) (keyOk := keyOk) fmt ['p'] [] (h (phStr ds)) ht
                  (by intro kv hkv; cases hkv) rfl hnv f2 htag (by intro kv hkv; cases hkv) rC
                exact readable_append this rTL
            · refine ⟨x ++ h (textStr tail), ?_, readable_append (readable_entry fmt hxe hvoc) rTL⟩
              intro Y hY
              rw [e3]; exact e Y hY
          · refine ⟨'<' :: (t ++ (writeAttrs fmt ((sortAttrs attrs).map (fun x => (x.1, pA f' x.2))) ++ '>' ::
                (h (textStr text) ++ (GK ++ ("</".toList ++ t ++ ['>']))))) ++ h (textStr tail), ?_, ?_⟩
            · intro Y hY
              simp only [serialize, element_none, hnv, f2, Bool.and_false, Bool.false_eq_true, if_false]
              refine hp.elem_shape t _ _ (textStr text) _ GK (textStr tail) Y ht hW hTXn hGK
                (serializeList_d4 fmt children hk) ?_ hTLn hY
              intro R ds rest hds e
              obtain ⟨h1, h2, h3, h4⟩ := para_shape ht hWs hTXn hKs hds e
              exact hP ⟨h1, h2, h4, ds, hds, h3⟩
            · have := readable_elem (tagOk := tagOk) (keyOk := keyOk) fmt t _ (h (textStr text) ++ GK) ht hn' hnd' hnv f2
                htag hk' (readable_append rTX rGK)
              have e5 : '<' :: (t ++ (writeAttrs fmt ((sortAttrs attrs).map (fun x => (x.1, pA f' x.2))) ++ '>' ::
                  (h (textStr text) ++ (GK ++ ("</".toList ++ t ++ ['>']))))) =
                  '<' :: (t ++ (writeAttrs fmt ((sortAttrs attrs).map (fun x => (x.1, pA f' x.2))) ++ '>' ::
                  ((h (textStr text) ++ GK) ++ ("</".toList ++ t ++ ['>'])))) := by simp [List.append_assoc]
              rw [e5]
              exact readable_append this rTL
    | comment => simp [GN] at hg
    | pi => simp [GN] at hg
    | none => simp [GN] at hg
    | qname q => simp [GN] at hg
theorem mp_serializeList (hp : MPass k h f') (fmt : Fmt)
    (hvoc : tagOk "pre".toList = true ∧ tagOk "code".toList = true ∧ keyOk "class".toList = true ∧
      keyOk "id".toList = true) :
    (l : List Node) → GNL l = true → allKids (qtOf tagOk keyOk) l = true → allKids (noFq k) l = true →
      ∃ G, (∀ Y, D4 Y → h (serializeList fmt l ++ Y) = G ++ h Y) ∧ Readable fmt tagOk keyOk G
  | [], _, _, _ => ⟨[], fun Y _ => by simp [serializeList], readable_nil fmt⟩
  | c :: r, hg, hq, hn => by
    rw [gnl_cons, Bool.and_eq_true] at hg
    simp only [allKids, Bool.and_eq_true] at hq hn
    obtain ⟨Gr, hGr, rGr⟩ := mp_serializeList hp fmt hvoc r hg.2 hq.2 hn.2
    obtain ⟨Gc, hGc, rGc⟩ := mp_serialize hp fmt hvoc c hg.1 hq.1 hn.1
    refine ⟨Gc ++ Gr, ?_, readable_append rGc rGr⟩
    intro Y hY
    have hd : D4 (serializeList fmt r ++ Y) := by
      cases r with
      | nil => simpa [serializeList] using hY
      | cons c2 r2 =>
        have := hg.2
        rw [gnl_cons, Bool.and_eq_true] at this
        simp only [serializeList, List.append_assoc]
        exact serialize_head_d4 fmt c2 this.1 _
    simp only [serializeList, List.append_assoc]
    rw [hGc _ hd, hGr Y hY]
end

/-- **the pass on the content of the wrapper** -/
theorem mp_inner (hp : MPass k h f') (fmt : Fmt)
    (hvoc : tagOk "pre".toList = true ∧ tagOk "code".toList = true ∧ keyOk "class".toList = true ∧
      keyOk "id".toList = true)
    (root : Node) (hk : GNL root.children = true) (hq : allKids (qtOf tagOk keyOk) root.children = true)
    (hn : allKids (noFq k) root.children = true) : Readable fmt tagOk keyOk (h (inner fmt root)) := by
  obtain ⟨G, hG, rG⟩ := mp_serializeList hp fmt hvoc root.children hk hq hn
  have e := hG [] d4_nil
  simp only [List.append_nil, hp.nil] at e
  rw [inner_eq, hp.app _ _ (sok_noLt (sok_textStr root.text)) (serializeList_d4' fmt _ hk), e]
  exact readable_append (readable_tfrag fmt hvoc (hp.text _ (sok_textStr root.text))) rG

end Main

end MdVerif.VocabXFence
