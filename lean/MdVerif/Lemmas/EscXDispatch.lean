/-
Helper lemmas for `Props/C07X.lean`: the extended block parser (`parseDocumentXT`: core processors plus admonition,
defindent, table, sane lists, deflist, footnote, abbr) makes a single paragraph of a fully escaped text.
Core Lean only.
-/
import MdVerif.Lemmas.EscXBlock
import MdVerif.Lemmas.EscXTables

namespace MdVerif.EscX
open Py Block BlockExt Escape

theorem admTest_empty_div {esc : List Char} (hm : '!' ∈ esc) (tab : Nat) (b : Str) (h : LineStartsOk esc b = true) :
    admTest tab (Node.el "div") b = none := by
  simp [admTest, admSearch_safe hm b h, admContent, Node.last?, Node.el]

/-- a block on which every recogniser before `paragraph` fails — those of the extensions included — goes to
    `ParagraphProcessor` (first block of the document: the parent is the empty root) -/
theorem dispatchXT_paragraph {esc : List Char}
    (m1 : '#' ∈ esc) (m2 : '-' ∈ esc) (m3 : '_' ∈ esc) (m4 : '*' ∈ esc) (m5 : '+' ∈ esc) (m6 : '.' ∈ esc)
    (m7 : '>' ∈ esc) (m8 : '[' ∈ esc) (m9 : '!' ∈ esc)
    (tables : Bool) (cfg : XCfg) (tab : Nat) (htab : tab > 0) (pb : PB) (b : Str) (rest : List Str)
    (hg : Guarded esc b = true) (hl : LineStartsOk esc b = true) (hv : startsVisible b = true)
    (h2 : (match secondLine b with | some l => isEqUnderline l | none => false) = false)
    (hdef : cfg.defList = true → defFreeNl b = true)
    (htbl : tables = true → shape (stripC ' ' (firstLine b)) = true) :
    dispatchXT tables cfg tab pb [] [] (Node.el "div") b rest = some (paraP [] [] (Node.el "div") b rest) := by
  have hs : startOk esc b = true := by
    simp only [LineStartsOk, Bool.and_eq_true] at hl; exact hl.1
  have hadm : (if cfg.admonition = true then admTest tab (Node.el "div") b else none) = none := by
    split
    · exact admTest_empty_div m9 tab b hl
    · rfl
  have htab' : (if tables = true then Tables.tableTest b else none) = none := by
    split
    · rename_i ht; exact tableTest_shape b (htbl ht)
    · rfl
  have hfn : footnoteP [] b rest = none := by simp [footnoteP, fnSearch_safe m8 b hl]
  have hab : abbrP [] b rest = .declined := by simp [abbrP, abbrSearch_safe m4 b hl]
  have htailRef : tailRef [] [] (Node.el "div") b rest = some (paraP [] [] (Node.el "div") b rest) := by
    simp [tailRef, refSearch_eq_none m8 _ hl]
  have htailAbbr : tailAbbr cfg [] [] (Node.el "div") b rest = some (paraP [] [] (Node.el "div") b rest) := by
    unfold tailAbbr
    split
    · rw [hab]; exact htailRef
    · exact htailRef
  have htailFn : tailFootnote cfg [] [] (Node.el "div") b rest = some (paraP [] [] (Node.el "div") b rest) := by
    unfold tailFootnote
    split
    · rw [hfn]; exact htailAbbr
    · exact htailAbbr
  have htailQ : tailQuote cfg pb [] [] (Node.el "div") b rest = some (paraP [] [] (Node.el "div") b rest) := by
    simp only [tailQuote, quoteSearch_eq_none m7 _ hl, htailFn]
  have htailDef : tailDef cfg tab pb [] [] (Node.el "div") b rest = some (paraP [] [] (Node.el "div") b rest) := by
    unfold tailDef
    split
    · rename_i hd
      rcases defSearch_defFree b (hdef hd) with h0 | ⟨en, g, h0⟩
      · rw [h0]; exact htailQ
      · rw [h0]; simp only [defListP_at_zero]; exact htailQ
    · exact htailQ
  cases b with
  | nil => simp [startsVisible] at hv
  | cons c r =>
    have hc : isSpace c = false := by simpa [startsVisible] using hv
    have hc1 : c ≠ '\n' := by intro e; subst e; exact absurd hc (by decide)
    have hc2 : c ≠ ' ' := by intro e; subst e; exact absurd hc (by decide)
    obtain ⟨n, rfl⟩ : ∃ n, tab = n + 1 := ⟨tab - 1, by omega⟩
    have e1 : ((c :: r).isEmpty || startsWith (c :: r) ['\n']) = false := by simp [startsWith, hc1]
    have e2 : startsWith (c :: r) (spaces (n + 1)) = false := by
      simp [spaces, List.replicate_succ, hc2]
    unfold dispatchXT
    rw [hadm]
    simp only [tailEmptyT, e1, e2, indentTestX, htab', Bool.false_eq_true, if_false, Bool.false_and, Bool.and_false,
      hashSearch_eq_none m1 _ hl, setextMatch_eq_false m2 _ hg h2, hrSearch_eq_none m2 m3 m4 _ hl,
      tailList, listItemMatch_eq_none m4 m5 m2 m6 (n + 1) _ _ _ hg hs, Option.isSome_none, htailDef]

/-- the trailing empty block after a paragraph has no effect -/
theorem dispatchXT_empty_after_p (tables : Bool) (cfg : XCfg) (tab : Nat) (pb : PB) (state : List BState)
    (refs : Refs) (parent : Node) (t : Str) :
    dispatchXT tables cfg tab pb state refs (parent.append (mkText "p" t)) [] [] =
      some (parent.append (mkText "p" t), refs, []) := by
  have hp : preCode (mkText "p" t) = none := by
    have : (mkText "p" t).isTag "pre" = false := by
      simp only [mkText, Node.isTag, Node.el]; decide
    simp [preCode, this]
  have hdiv : isAdmDiv (mkText "p" t) = false := by
    have : (mkText "p" t).isTag "div" = false := by
      simp only [mkText, Node.isTag, Node.el]; decide
    simp [isAdmDiv, this]
  have hadm : admTest tab (parent.append (mkText "p" t)) [] = none := by
    have h0 : admSearch [] = none := by decide
    simp [admTest, h0, admContent, Node.last?, Node.append, hdiv]
  have hadm' : (if cfg.admonition = true then admTest tab (parent.append (mkText "p" t)) [] else none) = none := by
    split
    · exact hadm
    · rfl
  unfold dispatchXT
  rw [hadm']
  simp [tailEmptyT, emptyP, Node.last?, Node.append, hp]

theorem parseBlocksXT_paragraph (tables : Bool) (cfg : XCfg) (tab f : Nat) (e : Str) (hv : startsVisible e = true)
    (hd : ∀ pb rest, dispatchXT tables cfg tab pb [] [] (Node.el "div") e rest =
      some (paraP [] [] (Node.el "div") e rest)) :
    parseBlocksXT tables cfg tab (f + 2) [] [] (Node.el "div") [e, []] =
      some ((Node.el "div").append (mkText "p" e), []) := by
  simp only [parseBlocksXT, hd, paraP_visible _ _ _ _ hv, dispatchXT_empty_after_p]

theorem parseDocumentXT_paragraph (tables : Bool) (cfg : XCfg) (tab : Nat) (e : Str) (hv : startsVisible e = true)
    (hne : noEmptyLineFrom true e = true)
    (hd : ∀ pb rest, dispatchXT tables cfg tab pb [] [] (Node.el "div") e rest =
      some (paraP [] [] (Node.el "div") e rest)) :
    parseDocumentXT tables cfg tab (e ++ ['\n', '\n']) = some ((Node.el "div").append (mkText "p" e), []) := by
  simp only [parseDocumentXT, parseChunk, splitS, splitAux_blocks true e hne, fuelForX]
  have : 2 * (e ++ ['\n', '\n']).length + 10 = (2 * (e ++ ['\n', '\n']).length + 8) + 2 := by omega
  rw [this]
  exact parseBlocksXT_paragraph tables cfg tab _ e hv hd

/-! ### the facts about `escAll esc t` -/

theorem firstLine_shape {esc : List Char} (hnl : '\n' ∉ esc) (hb : '\\' ∈ esc) (ht : '`' ∈ esc) (hp : '|' ∈ esc)
    (hsp : ' ' ∉ esc) (t : Str) : shape (stripC ' ' (firstLine (escAll esc t))) = true := by
  rw [firstLine_escAll hnl]
  exact shape_strip _ (shape_escAll hb ht hp hsp _)

/-- **the block stage with extensions**: the escaped text followed by `"\n\n"` becomes one paragraph, nothing is
    written to the reference / footnote / abbreviation log -/
theorem blockXT_single_paragraph {esc : List Char} (hnl : '\n' ∉ esc) (hsp : ' ' ∉ esc)
    (m0 : '\\' ∈ esc) (mt : '`' ∈ esc)
    (m1 : '#' ∈ esc) (m2 : '-' ∈ esc) (m3 : '_' ∈ esc) (m4 : '*' ∈ esc) (m5 : '+' ∈ esc) (m6 : '.' ∈ esc)
    (m7 : '>' ∈ esc) (m8 : '[' ∈ esc) (m9 : '!' ∈ esc)
    (tables : Bool) (hpipe : tables = true → '|' ∈ esc) (cfg : XCfg) (tab : Nat) (htab : tab > 0) (t : Str)
    (h : EscBlockDomain t = true) (hdef : cfg.defList = true → defFreeNl t = true) :
    parseDocumentXT tables cfg tab (escAll esc t ++ ['\n', '\n']) =
      some ((Node.el "div").append (mkText "p" (escAll esc t)), []) := by
  obtain ⟨hg, hl, hv, hne, h2⟩ := facts_of_blockDomain hnl t h
  exact parseDocumentXT_paragraph tables cfg tab _ hv hne
    (fun pb rest => dispatchXT_paragraph m1 m2 m3 m4 m5 m6 m7 m8 m9 tables cfg tab htab pb _ rest hg hl hv h2
      (fun hd => defFreeNl_escAll hsp hnl t (hdef hd))
      (fun ht => firstLine_shape hnl m0 mt (hpipe ht) hsp t))

end MdVerif.EscX
