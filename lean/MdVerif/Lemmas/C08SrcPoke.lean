/-
Helper lemmas for `Props/C08Src.lean`: `InlineProcessor.run` does not read the text of an atomic leaf.

Setting: the last top-level child `P` of the root has no (truthy) text and tail, and its first child `c` is a leaf with
an atomic text (a `pre` with its `code`, as `CodeBlockProcessor` builds them).  `Poke b root root'`: `root'` is `root`
with the text of `c` replaced by `b`.  `Runs_poke`: a run on `root` is a run on `root'` with the same stack, the same
states and a `Poke`-related result (fuel-free formulation `Runs` of `Lemmas/InlineLocal/Run.lean`).
`prettify_poke`: `PrettifyTreeprocessor` maps the two results to the same tree when the two texts agree up to trailing
white space (it rewrites the text of a `code` in a `pre` to `rstrip(text) + "\n"`).
Core Lean only.
-/
import MdVerif.Lemmas.InlineLocal
import MdVerif.Lemmas.InlineFuel

namespace MdVerif.C08Src
open Py Inline InlineLocal

/-! ### inert elements -/

/-- a leaf with an atomic text: `run` visits it without reading anything -/
structure Leaf (c : Node) : Prop where
  atomic : c.textAtomic = true
  tail : Node.truthy c.tail = false
  kids : c.children = []

/-- an element without (truthy) text and tail -/
structure Inert (p : Node) : Prop where
  text : Node.truthy p.text = false
  tail : Node.truthy p.tail = false

theorem visitChild_leaf (cfg : Cfg) {c : Node} (h : Leaf c) (v : Visit) : visitChild cfg c v = some (c, [], v) := by
  obtain ⟨tag, attrs, text, ta, ch, tail, tla⟩ := c
  obtain ⟨h1, h2, h3⟩ := h
  simp only at h1 h2 h3
  subst h1; subst h3
  simp [visitChild, h2]

theorem visitChild_inert (cfg : Cfg) {p : Node} (h : Inert p) (v : Visit) :
    visitChild cfg p v =
      some (p, [], { v with pushes := if p.children.isEmpty then v.pushes else [v.done.length] :: v.pushes }) := by
  obtain ⟨tag, attrs, text, ta, ch, tail, tla⟩ := p
  obtain ⟨h1, h2⟩ := h
  simp only at h1 h2
  simp [visitChild, h1, h2]

/-! ### `visitLoop` -/

theorem visitLoop_append {cfg : Cfg} : ∀ (g1 : Nat) {g2 : Nat} {todo1 todo2 : List (Node × Option Nat)} {v0 v1 v : Visit},
    visitLoop cfg g1 todo1 v0 = some v1 → visitLoop cfg g2 todo2 v1 = some v →
    visitLoop cfg (g1 + g2) (todo1 ++ todo2) v0 = some v := by
  intro g1
  induction g1 with
  | zero => intro g2 todo1 todo2 v0 v1 v h1; simp [visitLoop] at h1
  | succ g ih =>
    intro g2 todo1 todo2 v0 v1 v h1 h2
    cases todo1 with
    | nil =>
      simp only [visitLoop, Option.some.injEq] at h1
      subst h1
      simp only [List.nil_append]
      exact visitLoop_mono cfg g2 (g + 1 + g2) todo2 _ _ (by omega) h2
    | cons x todo1 =>
      obtain ⟨child, orig⟩ := x
      simp only [visitLoop] at h1
      split at h1
      · cases h1
      · next c tr v1' hc =>
        have := ih h1 h2
        rw [show g + 1 + g2 = (g + g2) + 1 by omega]
        simp only [List.cons_append, visitLoop, hc]
        rw [← List.append_assoc]
        exact this

theorem visits_append {cfg : Cfg} {todo1 todo2 : List (Node × Option Nat)} {v0 v1 v : Visit}
    (h1 : Visits cfg todo1 v0 v1) (h2 : Visits cfg todo2 v1 v) : Visits cfg (todo1 ++ todo2) v0 v := by
  obtain ⟨g1, h1⟩ := h1
  obtain ⟨g2, h2⟩ := h2
  exact ⟨g1 + g2, visitLoop_append g1 h1 h2⟩

/-- the visit of one inert element -/
def afterInert (p : Node) (orig : Nat) (v : Visit) : Visit :=
  { v with done := p :: v.done, posmap := (orig, v.done.length) :: v.posmap,
           pushes := if p.children.isEmpty then v.pushes else [v.done.length] :: v.pushes }

theorem visits_single_inert {cfg : Cfg} {p : Node} (h : Inert p) (orig : Nat) (v0 v : Visit) :
    Visits cfg [(p, some orig)] v0 v ↔ v = afterInert p orig v0 := by
  constructor
  · rintro ⟨g, hg⟩
    cases g with
    | zero => simp [visitLoop] at hg
    | succ g =>
      simp only [visitLoop, visitChild_inert cfg h, List.map_nil, List.nil_append] at hg
      cases g with
      | zero => simp [visitLoop] at hg
      | succ g =>
        simp only [visitLoop, Option.some.injEq] at hg
        rw [← hg]; rfl
  · rintro rfl
    exact ⟨2, by simp only [visitLoop, visitChild_inert cfg h, List.map_nil, List.nil_append]; rfl⟩

/-- a visit does not look at the elements already done: only at their number -/
theorem visitLoop_done_irrel {cfg : Cfg} : ∀ (g : Nat) (todo : List (Node × Option Nat)) (v0 v0' v : Visit),
    visitLoop cfg g todo v0 = some v → v0'.st = v0.st → v0'.pushes = v0.pushes → v0'.posmap = v0.posmap →
    v0'.done.length = v0.done.length →
    ∃ D, v.done = D ++ v0.done ∧ visitLoop cfg g todo v0' = some { v with done := D ++ v0'.done } := by
  intro g
  induction g with
  | zero => intro todo v0 v0' v h; simp [visitLoop] at h
  | succ g ih =>
    intro todo v0 v0' v h hst hps hpm hlen
    cases todo with
    | nil =>
      simp only [visitLoop, Option.some.injEq] at h
      subst h
      refine ⟨[], rfl, ?_⟩
      simp only [visitLoop, List.nil_append, Option.some.injEq]
      obtain ⟨d, pm, ps, st⟩ := v0
      obtain ⟨d', pm', ps', st'⟩ := v0'
      simp only at hst hps hpm
      subst hst; subst hps; subst hpm; rfl
    | cons x todo =>
      obtain ⟨child, orig⟩ := x
      simp only [visitLoop] at h
      split at h
      · cases h
      · next c tr v1 hc =>
        obtain ⟨n, st', rfl, hv'⟩ := visitChild_spec hc
        cases orig with
        | none =>
          obtain ⟨D, hD, hres⟩ := ih _ _
            { v0' with
              done := c :: v0'.done
              pushes := newPushes v0'.done.length n child.children.isEmpty ++ v0'.pushes
              st := st' } v h rfl (by simp [hlen, hps]) (by simp [hpm]) (by simp [hlen])
          refine ⟨D ++ [c], by simp [hD], ?_⟩
          simp only [visitLoop, hv' v0' hst]
          rw [hres]
          simp
        | some o =>
          obtain ⟨D, hD, hres⟩ := ih _ _
            { v0' with
              done := c :: v0'.done
              posmap := (o, v0'.done.length) :: v0'.posmap
              pushes := newPushes v0'.done.length n child.children.isEmpty ++ v0'.pushes
              st := st' } v h rfl (by simp [hlen, hps]) (by simp [hlen, hpm]) (by simp [hlen])
          refine ⟨D ++ [c], by simp [hD], ?_⟩
          simp only [visitLoop, hv' v0' hst]
          rw [hres]
          simp

/-! ### paths into `M ++ [P]` -/

theorem getF_left (M : List Node) (P : Node) {j : Nat} (hj : j < M.length) (q : Path) :
    getF (M ++ [P]) j q = getF M j q := by
  have := getF_mid [] M [P] hj q
  simpa using this

theorem getF_last (M : List Node) (P : Node) (q : Path) : getF (M ++ [P]) M.length q = getAt P q := by
  simp [getF]

theorem getF_beyond (M : List Node) (P : Node) {j : Nat} (hj : M.length < j) (q : Path) :
    getF (M ++ [P]) j q = none := by
  have : (M ++ [P])[j]? = none := by
    rw [List.getElem?_eq_none_iff]; simp; omega
  simp [getF, this]

theorem setF_left (M : List Node) (P : Node) {j : Nat} (hj : j < M.length) (q : Path) (new : Node) :
    setF (M ++ [P]) j q new = setF M j q new ++ [P] := by
  have := setF_mid [] M [P] hj q new
  simpa using this

theorem setF_last (M : List Node) (P : Node) (q : Path) (new : Node) :
    setF (M ++ [P]) M.length q new = M ++ [setAt P q new] := by
  simp [setF]

theorem setF_beyond (M : List Node) (P : Node) {j : Nat} (hj : M.length < j) (q : Path) (new : Node) :
    setF (M ++ [P]) j q new = M ++ [P] := by
  have : (M ++ [P])[j]? = none := by
    rw [List.getElem?_eq_none_iff]; simp; omega
  simp [setF, this]

theorem list_set_self {α : Type} : ∀ (l : List α) (i : Nat) (c : α), l[i]? = some c → l.set i c = l
  | [], _, _, h => by simp at h
  | a :: l, 0, c, h => by simp at h; simp [h]
  | a :: l, i + 1, c, h => by simp at h; simp [list_set_self l i c h]

/-- `setAt` with the element that is already there -/
theorem setAt_self : ∀ (p : Path) {n cur : Node}, getAt n p = some cur → setAt n p cur = n
  | [], n, cur, h => by simp only [getAt, Option.some.injEq] at h; subst h; rfl
  | i :: p, n, cur, h => by
    cases hc : n.children[i]? with
    | none => simp [getAt, hc] at h
    | some c =>
      simp only [getAt, hc] at h
      simp only [setAt, hc]
      rw [setAt_self p h, list_set_self _ _ _ hc]
      cases n; rfl

/-! ### the relation -/

def setText (c : Node) (b : Option Str) : Node := { c with text := b }

/-- the root whose last top-level child is `P0` with the children `c :: rest` -/
def pk (hdr : Node) (M : List Node) (P0 c : Node) (rest : List Node) : Node := mk hdr (M ++ [mk P0 (c :: rest)])

/-- `root'` is `root` with the text of the leaf `c` replaced by `b` -/
def Poke (b : Option Str) (hdr P0 c : Node) (root root' : Node) : Prop :=
  ∃ M rest, root = pk hdr M P0 c rest ∧ root' = pk hdr M P0 (setText c b) rest

theorem leaf_setText {c : Node} (h : Leaf c) (b : Option Str) : Leaf (setText c b) := ⟨h.atomic, h.tail, h.kids⟩

theorem inert_mk {p : Node} (h : Inert p) (ks : List Node) : Inert (mk p ks) := ⟨h.text, h.tail⟩

/-- one step of the stack loop on the two roots -/
theorem poke_step {cfg : Cfg} {b : Option Str} {hdr P0 c : Node} (hc : Leaf c) (hP : Inert P0) {root root' : Node}
    (hp : Poke b hdr P0 c root root') (p : Path) (st : St) :
    (getAt root p = none → getAt root' p = none) ∧
    ∀ cur v, getAt root p = some cur → Visits cfg (withIdx cur.children 0) { st := st } v →
      ∃ cur' v', getAt root' p = some cur' ∧ Visits cfg (withIdx cur'.children 0) { st := st } v' ∧
        v'.pushes = v.pushes ∧ v'.posmap = v.posmap ∧ v'.st = v.st ∧
        Poke b hdr P0 c (setAt root p { cur with children := v.done.reverse })
          (setAt root' p { cur' with children := v'.done.reverse }) := by
  obtain ⟨M, rest, rfl, rfl⟩ := hp
  have hc' := leaf_setText hc b
  cases p with
  | nil =>
    -- the root itself: the children `M`, then the inert `P`
    refine ⟨fun h => by simp [getAt] at h, ?_⟩
    intro cur v hget hv
    simp only [getAt, Option.some.injEq] at hget
    subst hget
    simp only [pk, mk_children, withIdx_append, withIdx, Nat.zero_add] at hv
    obtain ⟨v1, hv1, hv2⟩ := hv.append_inv
    rw [visits_single_inert (inert_mk hP _)] at hv2
    subst hv2
    refine ⟨_, afterInert (mk P0 (setText c b :: rest)) M.length v1, rfl, ?_, rfl, rfl, rfl, ?_⟩
    · simp only [pk, mk_children, withIdx_append, withIdx, Nat.zero_add]
      exact visits_append hv1 ((visits_single_inert (inert_mk hP _) _ _ _).2 rfl)
    · refine ⟨v1.done.reverse, rest, ?_, ?_⟩
      · simp [setAt, afterInert, pk, mk]
      · simp [setAt, afterInert, pk, mk]
  | cons j q =>
    simp only [pk, getAt_cons, setAt_cons, mk_children, mk_mk]
    rcases Nat.lt_trichotomy j M.length with hj | hj | hj
    · -- inside `M`: the same on both sides
      rw [getF_left M _ hj, getF_left M _ hj]
      refine ⟨id, ?_⟩
      intro cur v hget hv
      refine ⟨cur, v, hget, hv, rfl, rfl, rfl, ?_⟩
      rw [setF_left M _ hj, setF_left M _ hj]
      exact ⟨setF M j q _, rest, rfl, rfl⟩
    · -- inside `P`
      subst hj
      simp only [getF_last, setF_last]
      cases q with
      | nil =>
        -- `P` itself: the leaf, then `rest`
        refine ⟨fun h => by simp [getAt] at h, ?_⟩
        intro cur v hget hv
        simp only [getAt, Option.some.injEq] at hget
        subst hget
        obtain ⟨g, hg⟩ := hv
        cases g with
        | zero => simp [visitLoop] at hg
        | succ g =>
          simp only [mk_children, withIdx, visitLoop, visitChild_leaf cfg hc, List.map_nil, List.nil_append] at hg
          obtain ⟨D, hD, hres⟩ := visitLoop_done_irrel g _ _
            { done := [setText c b], posmap := [(0, 0)], pushes := [], st := st } v hg rfl rfl rfl rfl
          refine ⟨mk P0 (setText c b :: rest), { v with done := D ++ [setText c b] }, rfl, ⟨g + 1, ?_⟩, rfl, rfl,
            rfl, ?_⟩
          · simp only [mk_children, withIdx, visitLoop, visitChild_leaf cfg hc', List.map_nil, List.nil_append]
            simpa using hres
          · simp only at hD
            simp only [setAt, hD, List.reverse_append, List.reverse_cons, List.reverse_nil, List.nil_append,
              List.singleton_append]
            exact ⟨M, D.reverse, by simp [pk, mk], by simp [pk, mk]⟩
      | cons k q' =>
        cases k with
        | zero =>
          -- the leaf (or below it: nothing there)
          simp only [getAt_cons, mk_children, getF, List.getElem?_cons_zero]
          cases q' with
          | nil =>
            refine ⟨fun h => by simp [getAt] at h, ?_⟩
            intro cur v hget hv
            simp only [getAt, Option.some.injEq] at hget
            subst hget
            obtain ⟨g, hg⟩ := hv
            cases g with
            | zero => simp [visitLoop] at hg
            | succ g =>
              simp only [hc.kids, withIdx, visitLoop, Option.some.injEq] at hg
              subst hg
              refine ⟨setText c b, { st := st }, rfl, ⟨1, by simp [hc'.kids, withIdx, visitLoop]⟩, rfl, rfl, rfl, ?_⟩
              have e1 : ({ c with children := ([] : List Node).reverse } : Node) = c := by
                have := hc.kids; cases c; simp_all
              have e2 : ({ setText c b with children := ([] : List Node).reverse } : Node) = setText c b := by
                have := hc'.kids; cases c; simp_all [setText]
              simp only [e1, e2]
              rw [setAt_self [0] (n := mk P0 (c :: rest)) (by simp [getAt]),
                setAt_self [0] (n := mk P0 (setText c b :: rest)) (by simp [getAt])]
              exact ⟨M, rest, rfl, rfl⟩
          | cons k' q'' =>
            refine ⟨fun _ => by simp [getAt, hc'.kids], ?_⟩
            intro cur v hget
            simp [getAt, hc.kids] at hget
        | succ k =>
          -- inside `rest`: the same on both sides
          have e1 : ∀ x : Node, getAt (mk P0 (x :: rest)) ((k + 1) :: q') = getF rest k q' := by
            intro x; simp [getAt_cons, getF]
          have e2 : ∀ x new : Node, setAt (mk P0 (x :: rest)) ((k + 1) :: q') new = mk P0 (x :: setF rest k q' new) := by
            intro x new
            rw [setAt_cons]
            simp only [mk_children, mk_mk, setF, List.getElem?_cons_succ]
            cases rest[k]? <;> simp
          rw [e1, e1]
          refine ⟨id, ?_⟩
          intro cur v hget hv
          refine ⟨cur, v, hget, hv, rfl, rfl, rfl, ?_⟩
          rw [e2, e2]
          exact ⟨M, _, rfl, rfl⟩
    · -- beyond the last child
      rw [getF_beyond M _ hj, getF_beyond M _ hj]
      exact ⟨fun _ => rfl, fun cur v h => by cases h⟩

/-- **`run` does not read the text of an atomic leaf**: a run on `root` is a run on the poked root, with the same
    stack, the same states, and a poked result -/
theorem Runs_poke {cfg : Cfg} {b : Option Str} {hdr P0 c : Node} (hc : Leaf c) (hP : Inert P0) {root : Node}
    {stack : List Path} {s : St} {r : Node} {t : St}
    (D : Runs cfg root stack s r t) : ∀ {root' : Node}, Poke b hdr P0 c root root' →
    ∃ r', Runs cfg root' stack s r' t ∧ Poke b hdr P0 c r r' := by
  induction D with
  | nil => intro root' h; exact ⟨root', .nil, h⟩
  | skip hget _ ih =>
    intro root' h
    obtain ⟨r', D', hr⟩ := ih h
    exact ⟨r', .skip ((poke_step (cfg := cfg) hc hP h _ ‹St›).1 hget) D', hr⟩
  | @step root p stack st r t cur v hget hv _ ih =>
    intro root' h
    obtain ⟨cur', v', hget', hv', e1, e2, e3, hnew⟩ := (poke_step hc hP h p st).2 cur v hget hv
    obtain ⟨r', D', hr⟩ := ih hnew
    refine ⟨r', .step hget' hv' ?_, hr⟩
    rw [e1, e2, e3]
    exact D'

/-! ### `PrettifyTreeprocessor` strips the difference -/

open TreeProc in
/-- a `pre` whose first child is a childless `code`: the prettified element depends on the text of the `code` only up
    to trailing white space -/
theorem topKid_pre_code (bl : List Str) (pa : List (Str × Str)) (pt : Option Str) (pta : Bool) (ptl : Option Str)
    (ptla : Bool) (ca : List (Str × Str)) (cta : Bool) (ctl : Option Str) (ctla : Bool) (a a' : Str)
    (rest : List Node) (h : rstrip a = rstrip a') :
    topKid bl ⟨.name "pre".toList, pa, pt, pta, ⟨.name "code".toList, ca, some a, cta, [], ctl, ctla⟩ :: rest, ptl, ptla⟩ =
    topKid bl ⟨.name "pre".toList, pa, pt, pta, ⟨.name "code".toList, ca, some a', cta, [], ctl, ctla⟩ :: rest, ptl, ptla⟩ := by
  have e1 : (Tag.name "pre".toList == Tag.name "code".toList) = false := by decide
  have e2 : (Tag.name "pre".toList == Tag.name "pre".toList) = true := by decide
  have e3 : (Tag.name "pre".toList == Tag.name "br".toList) = false := by decide
  have e4 : (Tag.name "code".toList == Tag.name "br".toList) = false := by decide
  have e5 : (Tag.name "code".toList == Tag.name "pre".toList) = false := by decide
  have e6 : (Tag.name "code".toList == Tag.name "code".toList) = true := by decide
  unfold topKid
  cases hb : (divBlock bl && isBlockLevel bl (Tag.name "pre".toList)) <;>
    simp [prettifyETree, mapTree, mapKids, brRule, preRule, tagIs, e1, e2, e3, e4, e5, e6, h]

open TreeProc in
theorem rootText_snoc (bl : List Str) (M : List Node) (P P' : Node) (h : P.tag = P'.tag) :
    rootText bl (M ++ [P]) = rootText bl (M ++ [P']) := by
  cases M with
  | nil => simp [rootText, h]
  | cons x M => rfl

open TreeProc in
/-- **the prettified trees are equal** when the poked leaf is the childless `code` at the head of a `pre` and the two
    texts agree up to trailing white space -/
theorem prettify_poke (bl : List Str) {b : Option Str} {P0 c r r' : Node} (h : Poke b (Node.el "div") P0 c r r')
    (hP : P0.tag = .name "pre".toList) (hc : c.tag = .name "code".toList) (hk : c.children = [])
    {a a' : Str} (ha : c.text = some a) (hb : b = some a') (hs : rstrip a = rstrip a') :
    prettify r bl = prettify r' bl := by
  obtain ⟨M, rest, rfl, rfl⟩ := h
  have e : ∀ ks, pk (Node.el "div") M P0 c ks = root (M ++ [mk P0 (c :: ks)]) := fun _ => rfl
  have e' : ∀ ks, pk (Node.el "div") M P0 (setText c b) ks = root (M ++ [mk P0 (setText c b :: ks)]) := fun _ => rfl
  rw [e, e', prettify_root, prettify_root, topKids_eq_map, topKids_eq_map, List.map_append, List.map_append]
  have ht : topKid bl (mk P0 (c :: rest)) = topKid bl (mk P0 (setText c b :: rest)) := by
    obtain ⟨ptag, pa, pt, pta, pch, ptl, ptla⟩ := P0
    obtain ⟨ctag, ca, ctext, cta, cch, ctl, ctla⟩ := c
    simp only at hP hc hk ha
    subst hP; subst hc; subst hk; subst ha; subst hb
    exact topKid_pre_code bl pa pt pta ptl ptla ca cta ctl ctla a a' rest hs
  rw [rootText_snoc bl M (mk P0 (c :: rest)) (mk P0 (setText c b :: rest)) rfl]
  simp only [List.map_cons, List.map_nil, ht]

end MdVerif.C08Src
