/-
The preprocessors of `PipelineX.prepareX` and a predicate "does not contain `pat`" (`PrepClosed`):

* `HtmlBlockPreprocessor` on `<`-free text (`Extract.extract`) only inserts `;` after character references
  (`Ins`, `extract_ins`), so it creates no occurrence of a pattern without `;`;
* `FencedBlockPreprocessor` (`Fenced.fencedRunA`) replaces blocks by `\n` placeholder `\n`; the placeholder
  (`STX wzxhzdk:N ETX`) contains none of the trigger characters.
Core Lean only.
-/
import MdVerif.Lemmas.BlockExtFlags
import MdVerif.Model.PipelineX
import MdVerif.Lemmas.PyBasic

namespace MdVerif.PipelineX
open Py BlockExt

/-! ### insertion of `;` -/

/-- `o` is `s` with some `;` inserted -/
inductive Ins : Str → Str → Prop
  | nil : Ins [] []
  | cons (c : Char) {s o : Str} : Ins s o → Ins (c :: s) (c :: o)
  | ins {s o : Str} : Ins s o → Ins s (';' :: o)

theorem Ins.refl : ∀ (s : Str), Ins s s
  | [] => .nil
  | c :: s => .cons c (Ins.refl s)

theorem Ins.append {a a' b b' : Str} (h1 : Ins a a') (h2 : Ins b b') : Ins (a ++ b) (a' ++ b') := by
  induction h1 with
  | nil => exact h2
  | cons c _ ih => exact .cons c ih
  | ins _ ih => exact .ins ih

theorem Ins.snoc_semi {a a' : Str} (h : Ins a a') : Ins a (a' ++ [';']) := by
  have := Ins.append h (Ins.ins Ins.nil)
  simpa using this

/-- a suffix of the output is the output of a suffix of the input -/
theorem Ins.suffix {s o t : Str} (h : Ins s o) (ht : t <:+ o) : ∃ s', s' <:+ s ∧ Ins s' t := by
  induction h generalizing t with
  | nil =>
    have : t = [] := List.eq_nil_of_suffix_nil ht
    exact ⟨[], List.suffix_refl _, this ▸ Ins.nil⟩
  | cons c h ih =>
    rename_i s0 o0
    rcases List.suffix_cons_iff.mp ht with rfl | ht'
    · exact ⟨c :: s0, List.suffix_refl _, .cons c h⟩
    · obtain ⟨s', hs', hi⟩ := ih ht'
      exact ⟨s', List.IsSuffix.trans hs' (List.suffix_cons c s0), hi⟩
  | ins h ih =>
    rename_i s0 o0
    rcases List.suffix_cons_iff.mp ht with rfl | ht'
    · exact ⟨s0, List.suffix_refl _, .ins h⟩
    · exact ih ht'

theorem Ins.prefix {s o p : Str} (h : Ins s o) (hp : ';' ∉ p) (hpo : p <+: o) : p <+: s := by
  induction h generalizing p with
  | nil => exact hpo
  | cons c h ih =>
    cases p with
    | nil => exact List.nil_prefix
    | cons d p =>
      obtain ⟨t, ht⟩ := hpo
      simp only [List.cons_append, List.cons.injEq] at ht
      have hp' : ';' ∉ p := fun hm => hp (List.mem_cons_of_mem _ hm)
      have := ih hp' ⟨t, ht.2⟩
      rw [ht.1]
      exact (List.prefix_cons_inj c).mpr this
  | ins h ih =>
    cases p with
    | nil => exact List.nil_prefix
    | cons d p =>
      obtain ⟨t, ht⟩ := hpo
      simp only [List.cons_append, List.cons.injEq] at ht
      exact absurd (ht.1 ▸ List.mem_cons_self) hp

/-- an occurrence of a pattern without `;` in the output is an occurrence in the input -/
theorem Ins.infix {s o p : Str} (h : Ins s o) (hp : ';' ∉ p) (hpo : p <:+: o) : p <:+: s := by
  obtain ⟨t, hpt, hto⟩ := List.infix_iff_prefix_suffix.mp hpo
  obtain ⟨s', hs', hi⟩ := h.suffix hto
  exact List.IsInfix.trans (hi.prefix hp hpt).isInfix hs'.isInfix

/-! ### `Extract.goahead` -/

open Extract in
theorem goahead_ins (e : Bool) : ∀ (f : Nat) (s : Str), ∃ consumed, s = consumed ++ (goahead e f s).2 ∧
    Ins consumed (goahead e f s).1 := by
  intro f
  induction f with
  | zero => intro s; exact ⟨[], by simp [goahead], by simp [goahead]; exact Ins.nil⟩
  | succ f ih =>
    intro s
    cases s with
    | nil => exact ⟨[], by simp [goahead], by simp [goahead]; exact Ins.nil⟩
    | cons c r =>
      simp only [goahead]
      by_cases hc : (c != '&') = true
      · simp only [hc, if_true]
        obtain ⟨cons', h1, h2⟩ := ih r
        exact ⟨c :: cons', by simp [← h1], .cons c h2⟩
      · simp only [hc, Bool.false_eq_true, if_false]
        have hleave : ∀ (out rem pre : Str), c :: r = pre ++ rem → Ins pre out →
            ∃ consumed, c :: r = consumed ++ (leave e out rem).2 ∧ Ins consumed (leave e out rem).1 := by
          intro out rem pre hs hi
          simp only [leave]
          cases e with
          | true => exact ⟨pre ++ rem, by simp [hs], by simpa using Ins.append hi (Ins.refl rem)⟩
          | false => exact ⟨pre, by simpa using hs, by simpa using hi⟩
        by_cases hsw : startsWith r ['#'] = true
        · -- `&#`
          simp only [hsw, if_true]
          split
          · rename_i en hen
            -- a character reference of length `en` (terminator included)
            generalize hk : (if (c :: r)[en - 1]? == some ';' then en else en - 1) = k
            obtain ⟨cons', h1, h2⟩ := ih ((c :: r).drop k)
            refine ⟨(c :: r).take k ++ cons', ?_, ?_⟩
            · rw [List.append_assoc, ← h1, List.take_append_drop]
            · -- emitted: `&#` digits `;`
              have hen3 : 3 ≤ en := by
                simp only [charrefAt] at hen
                split at hen
                · split at hen
                  · split at hen
                    · injection hen with hen; omega
                    · split at hen
                      · split at hen
                        · split at hen
                          · injection hen with hen; omega
                          · cases hen
                        · cases hen
                      · cases hen
                  · cases hen
                · cases hen
              have hhead : (c :: r).take 2 = ['&', '#'] := by
                simp only [charrefAt] at hen
                cases r with
                | nil => simp at hen
                | cons h r' =>
                  simp only [Bool.and_eq_true, decide_eq_true_eq] at hen
                  split at hen
                  · rename_i hh
                    simp [hh.1, hh.2]
                  · cases hen
              have hemit : ('&' :: '#' :: Extract.slice (c :: r) 2 (en - 1) ++ ';' :: (goahead e f ((c :: r).drop k)).1) =
                  ((c :: r).take (en - 1) ++ [';']) ++ (goahead e f ((c :: r).drop k)).1 := by
                have : (c :: r).take (en - 1) = ['&', '#'] ++ Extract.slice (c :: r) 2 (en - 1) := by
                  rw [← hhead, Extract.slice]
                  have : en - 1 = 2 + (en - 1 - 2) := by omega
                  conv => lhs; rw [this, List.take_add]
                rw [this]; simp
              rw [hemit]
              apply Ins.append _ h2
              split at hk
              · rename_i hsemi
                -- the terminator is `;`: nothing is inserted
                subst hk
                have hlt : en - 1 < (c :: r).length := by
                  rcases List.getElem?_eq_some_iff.mp (by simpa using hsemi) with ⟨hl, _⟩
                  exact hl
                have : (c :: r).take en = (c :: r).take (en - 1) ++ [';'] := by
                  have h1' : en = (en - 1) + 1 := by omega
                  conv => lhs; rw [h1']
                  rw [List.take_succ_eq_append_getElem hlt]
                  rcases List.getElem?_eq_some_iff.mp (by simpa using hsemi) with ⟨_, he⟩
                  rw [he]
                rw [this]
                exact Ins.refl _
              · subst hk
                exact (Ins.refl _).snoc_semi
          · split
            · exact hleave ['&', '#'] ((c :: r).drop 2) ((c :: r).take 2) (List.take_append_drop 2 _).symm
                (by
                  have : (c :: r).take 2 = ['&', '#'] := by
                    have hc' : c = '&' := by simpa using hc
                    cases r with
                    | nil => simp [startsWith] at hsw
                    | cons h r' =>
                      simp only [startsWith, Bool.and_eq_true, decide_eq_true_eq] at hsw
                      simp [hc', hsw.1]
                  rw [this]; exact Ins.refl _)
            · exact hleave [] (c :: r) [] (by simp) Ins.nil
        · simp only [hsw, Bool.false_eq_true, if_false]
          split
          · rename_i en hen
            obtain ⟨cons', h1, h2⟩ := ih ((c :: r).drop en)
            refine ⟨(c :: r).take en ++ cons', ?_, Ins.append (Ins.refl _) h2⟩
            rw [List.append_assoc, ← h1, List.take_append_drop]
          · split
            · exact hleave [] (c :: r) [] (by simp) Ins.nil
            · obtain ⟨cons', h1, h2⟩ := ih r
              have hc' : c = '&' := by simpa using hc
              exact ⟨c :: cons', by simp [← h1], hc' ▸ .cons '&' h2⟩

theorem extract_ins (s : Str) : Ins s (Extract.extract s) := by
  simp only [Extract.extract]
  obtain ⟨c1, h1, i1⟩ := goahead_ins false (s.length + 1) s
  obtain ⟨c2, h2, i2⟩ := goahead_ins true ((Extract.goahead false (s.length + 1) s).2.length + 1)
    (Extract.goahead false (s.length + 1) s).2
  have : s = c1 ++ (c2 ++ (Extract.goahead true ((Extract.goahead false (s.length + 1) s).2.length + 1)
      (Extract.goahead false (s.length + 1) s).2).2) := by rw [← h2, ← h1]
  conv => lhs; rw [this]
  rw [List.append_assoc]
  exact Ins.append i1 (Ins.append i2 (Ins.refl _))

/-- the raw-HTML preprocessor creates no occurrence of a pattern without `;` -/
theorem extract_lacks {pat s : Str} (hp : ';' ∉ pat) (h : contains s pat = false) :
    contains (Extract.extract s) pat = false := by
  cases hc : contains (Extract.extract s) pat with
  | false => rfl
  | true =>
    have := (contains_iff_infix s pat).mpr ((extract_ins s).infix hp ((contains_iff_infix _ pat).mp hc))
    simp [this] at h

/-! ### `PrepClosed` -/

/-- a predicate that survives the preprocessors: the raw-HTML re-spelling and the placeholders of fenced blocks -/
structure PrepClosed (Ok : Str → Prop) : Prop where
  extract : ∀ s, Ok s → Ok (Extract.extract s)
  ph : ∀ k, Ok (Fenced.placeholder k)

/-- the characters of `STX wzxhzdk:N ETX` -/
def phChar (c : Char) : Bool :=
  c = Char.ofNat 2 || c = Char.ofNat 3 || c = 'w' || c = 'z' || c = 'x' || c = 'h' || c = 'd' || c = 'k' || c = ':' ||
    isAsciiDigit c

theorem placeholder_chars (k : Nat) : ∀ c ∈ Fenced.placeholder k, phChar c = true := by
  intro c hc
  simp only [Fenced.placeholder, List.mem_cons, List.mem_append, List.not_mem_nil, or_false] at hc
  rcases hc with hc | (hc | hc) | hc
  · simp [phChar, hc]
  · have : c ∈ ['w', 'z', 'x', 'h', 'z', 'd', 'k', ':'] := hc
    simp only [List.mem_cons, List.not_mem_nil, or_false] at this
    rcases this with h | h | h | h | h | h | h | h <;> simp [phChar, h]
  · simp [phChar, natToDec_digits k c hc]
  · simp [phChar, hc]

/-- a pattern with a character outside the placeholder alphabet and without `;` -/
theorem prepClosed_noSub (pat : Str) (hsemi : ';' ∉ pat) (c : Char) (hc : c ∈ pat) (hph : phChar c = false) :
    PrepClosed (fun s => contains s pat = false) where
  extract := fun s h => extract_lacks hsemi h
  ph := by
    intro k
    cases h : contains (Fenced.placeholder k) pat with
    | false => rfl
    | true =>
      have hin := (contains_iff_infix _ pat).mp h
      have := placeholder_chars k c (hin.subset hc)
      rw [hph] at this; cases this

theorem prepClosed_and {Ok1 Ok2 : Str → Prop} (h1 : PrepClosed Ok1) (h2 : PrepClosed Ok2) :
    PrepClosed (fun s => Ok1 s ∧ Ok2 s) where
  extract := fun s h => ⟨h1.extract s h.1, h2.extract s h.2⟩
  ph := fun k => ⟨h1.ph k, h2.ph k⟩

/-- `FencedBlockPreprocessor.run` keeps a closed predicate that holds of the placeholders -/
theorem fencedLoopA_ok {Ok : Str → Prop} (hc : Closed Ok) (hp : PrepClosed Ok) : ∀ (fuel : Nat) (text : Str)
    (index : Nat) (stash : List Str) {t : Str} {st : List Str},
    Ok text → Fenced.fencedLoopA fuel text index stash = .ok t st → Ok t := by
  intro fuel
  induction fuel with
  | zero => intro text index stash t st _ h; simp [Fenced.fencedLoopA] at h
  | succ f ih =>
    intro text index stash t st hok h
    simp only [Fenced.fencedLoopA] at h
    split at h
    · injection h with h1 _
      exact h1 ▸ hok
    · rename_i m hm
      have hnew : Ok (text.take m.start ++ '\n' :: (Fenced.placeholder stash.length ++ '\n' :: text.drop m.stop)) :=
        hc.joinNl (ok_take hc _ hok) (hc.joinNl (hp.ph _) (ok_drop hc _ hok))
      split at h
      · exact ih _ _ _ hnew h
      · split at h
        · exact ih _ _ _ hok h
        · exact ih _ _ _ hnew h

end MdVerif.PipelineX
