/-
C05 on the extension pipeline, removal of the residual hypothesis `hamp` of `C05X_partial`: the parts of
`TocTreeprocessor.run` that do not depend on the shape of the input tree.

The tree processor
* computes the name of every heading: serialisation, `unescape` of the string (`unescapeText_SK`), cut / strip
  (infixes), postprocessors (`PostK`, `postX_K`: raw_html on a stash without STX, footnote, amp_substitute), `strip_tags`
  (`SK_stripTags`) — the serialisation of the heading is in `Lemmas/VocabXWFAmpDS.lean` (`skd_serialize`), the walk in
  `Lemmas/VocabXWFAmpTocDS.lean`;
* gives every heading without `id` the id `unique(slugify(name))` — no STX at all (`idStep_K`); handles
  `data-toc-label` (`nameStep_K`);
* builds the `div.toc` from the names and the (unescaped) ids (`buildDiv_K`, prettified: `prettify_K`) and puts it in
  place of the marker (`replNode_K`).

`NodeK`: every text, tail and attribute value is in the string class `SK`; `unescapeTree_QK`: such a tree has no STX
followed by `a` after the final `UnescapeTreeprocessor`.  `NodeSN`: the invariant of the inline stage with attribute
values in `SB` and names (`NmOK`) without STX.  Core Lean only.
-/
import MdVerif.Lemmas.VocabXWFAmpKOps
import MdVerif.Lemmas.VocabXWFAmpTree
import MdVerif.Lemmas.PlaceholdersXToc2
import MdVerif.Lemmas.SerializerTree

set_option autoImplicit false

namespace MdVerif.VocabXAmp
open Py G Ser

/-- tag and attribute names as the serializer needs them: a named element that is no raw-text element, no STX in a
    name -/
def NmOK (n : Node) : Prop :=
  (∃ t, n.tag = .name t ∧ G.STX ∉ t ∧ isRawTextTag t = false) ∧ ∀ kv ∈ n.attrs, G.STX ∉ kv.1

/-- the invariant of the inline stage — attribute values up to the class joins of attr_list (`SB`) — and good
    names -/
def NodeSN (n : Node) : Prop :=
  (SOk (n.text.getD []) = true ∧ SOk (n.tail.getD []) = true ∧ ∀ kv ∈ n.attrs, SB kv.2 = true) ∧ NmOK n

theorem nodeSN_of_S {n : Node} (h : NodeS n) (hn : NmOK n) : NodeSN n :=
  ⟨⟨h.1, h.2.1, fun kv hkv => SB_of_SOkA (h.2.2 kv hkv)⟩, hn⟩

/-- text, tail and attribute values in the class `SK` -/
def NodeK (n : Node) : Prop :=
  SK (n.text.getD []) = true ∧ SK (n.tail.getD []) = true ∧ ∀ kv ∈ n.attrs, SK kv.2 = true

theorem nodeK_of_SA {n : Node} (h : NodeSA n) : NodeK n :=
  ⟨SK_of_SOkA h.1, SK_of_SOkA h.2.1, fun kv hkv => SK_of_SOkA (h.2.2 kv hkv)⟩

theorem forallK_of_SA {t : Node} (h : t.Forall NodeSA) : t.Forall NodeK :=
  Node.Forall.mono (fun _ hn => nodeK_of_SA hn) t h

theorem forallK_of_SN {t : Node} (h : t.Forall NodeSN) : t.Forall NodeK :=
  Node.Forall.mono (fun _ hn => ⟨SK_of_SOk hn.1.1, SK_of_SOk hn.1.2.1, fun kv hkv => SK_of_SB (hn.1.2.2 kv hkv)⟩) t h

/-! ### the serialisation of a heading -/

theorem sk_textStr {t : Option Str} (hs : SOk (t.getD []) = true) {Z : Str} (hZ : SK Z = true) :
    SK ((if Node.truthy t = true then escCdata (t.getD []) else []) ++ Z) = true := by
  split
  · exact SK_escCdata (SOkA_of_SOk hs) (SK_append_sok hs hZ)
  · exact hZ

theorem sk_writeAttrs (fmt : Fmt) : ∀ (as : List (Str × Str)), (∀ kv ∈ as, G.STX ∉ kv.1) →
    (∀ kv ∈ as, SB kv.2 = true) → ∀ (Z : Str), SK Z = true → SK (writeAttrs fmt as ++ Z) = true := by
  intro as
  induction as with
  | nil => intro _ _ Z hZ; exact hZ
  | cons kv r ih =>
    intro hk hv Z hZ
    obtain ⟨k, v⟩ := kv
    have hkc : G.STX ∉ k := hk (k, v) List.mem_cons_self
    have ihr := ih (fun x hx => hk x (List.mem_cons_of_mem _ hx)) (fun x hx => hv x (List.mem_cons_of_mem _ hx)) Z hZ
    simp only [writeAttrs]
    split
    · rename_i hb
      have hkv : k = escAttrHtml v := by simp only [Bool.and_eq_true, decide_eq_true_eq] at hb; exact hb.1
      rw [← hkv, List.append_assoc, List.cons_append, SK_cons_ne (by decide), SK_noSTX_append hkc]
      exact ihr
    · have e1 : (' ' :: k ++ "=\"".toList ++ escAttrHtml v ++ ['"']) ++ writeAttrs fmt r ++ Z =
          (' ' :: k ++ "=\"".toList) ++ (escAttrHtml v ++ ('"' :: (writeAttrs fmt r ++ Z))) := by
        simp [List.append_assoc]
      rw [e1, SK_noSTX_append]
      · exact SK_escAttrB ihr (hv (k, v) List.mem_cons_self)
      · intro hm
        rcases List.mem_append.1 hm with hm | hm
        · rcases List.mem_cons.1 hm with hm | hm
          · revert hm; decide
          · exact hkc hm
        · revert hm; decide

/-! ### the name of a heading -/

/-- contract of the postprocessors run on the name of a heading -/
def PostK (post : Str → Option Str) : Prop := ∀ s, SK s = true → ∀ o, post s = some o → SK o = true

/-! ### the id pass -/

def AttrsK (attrs : List (Str × Str)) : Prop := ∀ kv ∈ attrs, SK kv.2 = true

def TokK (t : Toc.Tok) : Prop := SK t.id = true ∧ SK t.name = true

def ToksK (st : TocTree.St) : Prop := ∀ t ∈ st.toks, TokK t

theorem idStep_K {el : Node} {st : TocTree.St} {name0 : Str} (ha : AttrsK el.attrs)
    {attrs : List (Str × Str)} {used : List Str} (h : NoCtlX.idStep el st name0 = .ok (attrs, used)) :
    AttrsK attrs := by
  unfold NoCtlX.idStep at h
  split at h
  · simp only [TocTree.R.ok.injEq, Prod.mk.injEq] at h
    rw [← h.1]; exact ha
  · split at h
    · cases h
    · split at h
      · cases h
      · rename_i slug hs
        simp only [TocTree.R.ok.injEq, Prod.mk.injEq] at h
        rw [← h.1]
        intro kv hkv
        rcases List.mem_append.1 hkv with hkv | hkv
        · exact ha kv hkv
        · rw [List.mem_singleton.1 hkv]
          exact SK_of_noSTX (NoCtlX.unique_noctl _ (NoCtlX.slugify_noctl hs)).1

theorem attrDel_K {attrs : List (Str × Str)} (h : AttrsK attrs) (k : Str) : AttrsK (TocTree.attrDel attrs k) :=
  fun kv hkv => h kv (List.mem_filter.1 hkv).1

theorem nameStep_K {env : TocTree.Env} (hp : PostK env.post) {name0 : Str} (hn : SK name0 = true)
    {attrs : List (Str × Str)} (ha : AttrsK attrs) {name : Str} {attrs' : List (Str × Str)}
    (h : NoCtlX.nameStep env name0 attrs = .ok (name, attrs')) : SK name = true ∧ AttrsK attrs' := by
  unfold NoCtlX.nameStep at h
  split at h
  · simp only [TocTree.R.ok.injEq, Prod.mk.injEq] at h
    rw [← h.1, ← h.2]; exact ⟨hn, ha⟩
  · rename_i lbl hl
    split at h
    · cases h
    · rename_i u hu
      split at h
      · cases h
      · rename_i l hpl
        simp only [TocTree.R.ok.injEq, Prod.mk.injEq] at h
        rw [← h.1, ← h.2]
        simp only [Option.map_eq_some_iff] at hl
        obtain ⟨kv, hkv, rfl⟩ := hl
        have hw : SK kv.2 = true := ha kv (List.mem_of_find?_eq_some hkv)
        have h1 := unescapeText_SK _ 0 _ (by simpa using hw) hu
        have h2 := SK_stripTags (SK_strip (hp _ h1 _ hpl))
        refine ⟨?_, attrDel_K ha _⟩
        exact SK_escCdata_gen h2

/-! ### `PrettifyTreeprocessor` on trees of the class (the `div.toc` is prettified) -/

private theorem ite_pred {α : Type} (P : α → Prop) {c : Prop} [Decidable c] {a b : α} (ha : P a) (hb : P b) :
    P (if c then a else b) := by
  split
  · exact ha
  · exact hb

mutual
theorem prettifyETree_K (bl : List Str) : ∀ t : Node, t.Forall NodeK → (TreeProc.prettifyETree bl t).Forall NodeK
  | ⟨tag, attrs, text, ta, children, tail, tla⟩, h => by
    simp only [Node.Forall] at h
    obtain ⟨⟨h1, h2, h3⟩, hk⟩ := h
    simp only at h1 h2 h3
    unfold TreeProc.prettifyETree
    simp only [Node.Forall]
    refine ⟨⟨?_, ?_, h3⟩, ?_⟩
    · exact ite_pred (fun t : Option Str => SK (t.getD []) = true) (by decide) h1
    · exact ite_pred (fun t : Option Str => SK (t.getD []) = true) (by decide) h2
    · split
      · exact prettifyKids_K bl children hk
      · exact hk
theorem prettifyKids_K (bl : List Str) : ∀ l : List Node, Node.ForallL NodeK l →
    Node.ForallL NodeK (TreeProc.prettifyKids bl l)
  | [], _ => by simp [TreeProc.prettifyKids, Node.ForallL]
  | c :: r, h => by
    simp only [Node.ForallL] at h
    unfold TreeProc.prettifyKids
    simp only [Node.ForallL]
    refine ⟨?_, prettifyKids_K bl r h.2⟩
    split
    · exact prettifyETree_K bl c h.1
    · exact h.1
end

theorem brRule_K {n : Node} (h : n.Forall NodeK) : (TreeProc.brRule n).Forall NodeK := by
  unfold TreeProc.brRule
  rw [Node.forall_iff] at h
  split
  · split
    · rw [Node.forall_iff]; exact ⟨⟨h.1.1, (by decide : SK ['\n'] = true), h.1.2.2⟩, h.2⟩
    · rw [Node.forall_iff]
      refine ⟨⟨h.1.1, ?_, h.1.2.2⟩, h.2⟩
      show SK ('\n' :: n.tail.getD []) = true
      rw [SK_cons_ne (by decide)]; exact h.1.2.1
  · rw [Node.forall_iff]; exact h

theorem preRule_K {n : Node} (h : n.Forall NodeK) : (TreeProc.preRule n).Forall NodeK := by
  unfold TreeProc.preRule
  split
  · split
    · rename_i code rest hch
      split
      · split
        · rename_i t ht
          rw [Node.forall_iff] at h ⊢
          refine ⟨h.1, ?_⟩
          have hk := h.2
          rw [hch] at hk
          intro c hc
          rcases List.mem_cons.1 hc with rfl | hc
          · have hcd := hk code List.mem_cons_self
            rw [Node.forall_iff] at hcd ⊢
            refine ⟨⟨?_, hcd.1.2.1, hcd.1.2.2⟩, hcd.2⟩
            have := hcd.1.1
            rw [ht] at this
            show SK (rstrip t ++ ['\n']) = true
            exact SK_snoc_tm (SK_infix this (rstripP_prefix _ _).isInfix) (by decide)
          · exact hk c (List.mem_cons_of_mem _ hc)
        · exact h
      · exact h
    · exact h
  · exact h

theorem nodeK_children_irrel (n : Node) (l : List Node) (h : NodeK n) : NodeK { n with children := l } := h

theorem prettify_K {t : Node} (h : t.Forall NodeK) (bl : List Str) : (TreeProc.prettify t bl).Forall NodeK := by
  unfold TreeProc.prettify
  exact mapTree_P nodeK_children_irrel (fun _ => preRule_K) _
    (mapTree_P nodeK_children_irrel (fun _ => brRule_K) _ (prettifyETree_K bl t h))

/-! ### the `div.toc` -/

private theorem nodeK_lit (tag : String) (ks : List Node) (hk : Node.ForallL NodeK ks) :
    ({ TocTree.el tag with children := ks } : Node).Forall NodeK := by
  rw [Node.forall_def]
  refine ⟨⟨rfl, rfl, ?_⟩, hk⟩
  intro kv hkv; cases hkv

mutual
theorem buildLi_K : ∀ tt : Toc.TokTree, (∀ t ∈ tt.flatten, TokK t) → (TocTree.buildLi tt).Forall NodeK
  | .mk t cs, h => by
    have ht : TokK t := h t (by simp [Toc.TokTree.flatten])
    have hcs := buildLis_K cs (fun x hx => h x (by simp [Toc.TokTree.flatten, hx]))
    unfold TocTree.buildLi
    simp only
    have ha : ({ TocTree.el "a" with text := some t.name, attrs := [("href".toList, '#' :: t.id)] } : Node).Forall
        NodeK := by
      rw [Node.forall_def]
      refine ⟨⟨ht.2, rfl, ?_⟩, by simp [TocTree.el, Node.ForallL]⟩
      intro kv hkv
      rw [List.mem_singleton.1 hkv]
      show SK ('#' :: t.id) = true
      rw [SK_cons_ne (by decide)]; exact ht.1
    apply nodeK_lit "li"
    simp only [Node.ForallL]
    refine ⟨ha, ?_⟩
    cases cs with
    | nil => simp [Node.ForallL]
    | cons c r =>
      simp only [Node.ForallL, and_true]
      exact nodeK_lit "ul" _ hcs
theorem buildLis_K : ∀ l : List Toc.TokTree, (∀ t ∈ Toc.flattenList l, TokK t) →
    Node.ForallL NodeK (TocTree.buildLis l)
  | [], _ => by simp [TocTree.buildLis, Node.ForallL]
  | c :: r, h => by
    unfold TocTree.buildLis
    simp only [Node.ForallL]
    exact ⟨buildLi_K c (fun x hx => h x (by simp [Toc.flattenList, hx])),
      buildLis_K r (fun x hx => h x (by simp [Toc.flattenList, hx]))⟩
end

theorem buildDiv_K (bl : List Str) {toks : List Toc.Tok} (h : ∀ t ∈ toks, TokK t) :
    (TocTree.buildDiv bl toks).Forall NodeK := by
  unfold TocTree.buildDiv
  refine prettify_K ?_ bl
  rw [Node.forall_def]
  refine ⟨⟨rfl, rfl, ?_⟩, ?_⟩
  · intro kv hkv
    rw [List.mem_singleton.1 hkv]
    decide
  · simp only [Node.ForallL, and_true]
    unfold TocTree.buildUl
    exact nodeK_lit "ul" _ (buildLis_K _ (by rw [Toc.nestToc_flatten]; exact h))

/-! ### the marker replacement, `run` -/

mutual
theorem replNode_K {div : Node} (hd : div.Forall NodeK) : ∀ t : Node, t.Forall NodeK →
    (TocTree.replNode div t).Forall NodeK
  | ⟨tag, attrs, text, ta, children, tail, tla⟩, h => by
    simp only [Node.Forall] at h
    unfold TocTree.replNode
    simp only [Node.Forall]
    exact ⟨h.1, replKids_K hd children h.2⟩
theorem replKids_K {div : Node} (hd : div.Forall NodeK) : ∀ l : List Node, Node.ForallL NodeK l →
    Node.ForallL NodeK (TocTree.replKids div l)
  | [], _ => by simp [TocTree.replKids, Node.ForallL]
  | c :: r, h => by
    simp only [Node.ForallL] at h
    have ihr := replKids_K hd r h.2
    unfold TocTree.replKids
    split
    · simp only [Node.ForallL]; exact ⟨h.1, ihr⟩
    · split
      · simp only [Node.ForallL]; exact ⟨hd, ihr⟩
      · simp only [Node.ForallL]; exact ⟨replNode_K hd c h.1, ihr⟩
end

/-! ### the postprocessors -/

theorem postX_K (x : PipelineX.Exts) (cfg : Pipeline.Cfg) {stash : List Str} (hst : ∀ h ∈ stash, G.STX ∉ h) :
    PostK (PipelineX.postX x cfg stash) := by
  intro s hs o ho
  unfold PipelineX.postX at ho
  simp only [Option.map_eq_some_iff] at ho
  obtain ⟨r, hr, rfl⟩ := ho
  have h1 := SK_rawHtml cfg.blockLevel hst _ _ _ hs hr
  apply SK_ampSub
  split
  · exact SK_fnPostprocess h1
  · exact h1

/-! ### the final `UnescapeTreeprocessor` -/

mutual
theorem unescapeTree_QK : (n u : Node) → TreeProc.unescapeTree n = some u → n.Forall NodeK → u.Forall NodeQ
  | ⟨tag, attrs, text, ta, children, tail, tla⟩, u, hu, h => by
    simp only [Node.Forall] at h
    obtain ⟨⟨h1, h2, h3⟩, hk⟩ := h
    simp only at h1 h2 h3
    simp only [TreeProc.unescapeTree] at hu
    split at hu
    · rename_i t tl a ks e1 e2 e3 e4
      simp only [Option.some.injEq] at hu; subst hu
      simp only [Node.Forall]
      refine ⟨⟨?_, ?_, unescAttrs_K _ _ h3 e3⟩, unescapeKids_QK children ks e4 hk⟩
      · simp only
        split at e1
        · simp only [Option.map_eq_some_iff] at e1
          obtain ⟨r, hr, rfl⟩ := e1
          exact unescapeText_SQ_of_SK h1 hr
        · simp only [Option.some.injEq] at e1; subst e1
          exact SQ_of_SK h1
      · simp only
        split at e2
        · simp only [Option.map_eq_some_iff] at e2
          obtain ⟨r, hr, rfl⟩ := e2
          exact unescapeText_SQ_of_SK h2 hr
        · simp only [Option.some.injEq] at e2; subst e2
          exact SQ_of_SK h2
    · cases hu
theorem unescapeKids_QK : (l l' : List Node) → TreeProc.unescapeKids l = some l' → Node.ForallL NodeK l →
    Node.ForallL NodeQ l'
  | [], l', hu, _ => by
    simp only [TreeProc.unescapeKids, Option.some.injEq] at hu; subst hu; simp [Node.ForallL]
  | c :: r, l', hu, h => by
    simp only [Node.ForallL] at h
    simp only [TreeProc.unescapeKids] at hu
    split at hu
    · rename_i c' r' e1 e2
      simp only [Option.some.injEq] at hu; subst hu
      simp only [Node.ForallL]
      exact ⟨unescapeTree_QK c c' e1 h.1, unescapeKids_QK r r' e2 h.2⟩
    · cases hu
theorem unescAttrs_K : ∀ (a a' : List (Str × Str)), (∀ kv ∈ a, SK kv.2 = true) →
    TreeProc.unescAttrs a = some a' → ∀ kv ∈ a', SQ kv.2 = true
  | [], a', _, h => by simp only [TreeProc.unescAttrs, Option.some.injEq] at h; subst h; simp
  | (k, v) :: r, a', ha, h => by
    simp only [TreeProc.unescAttrs] at h
    split at h
    · rename_i v' r' hv hr
      simp only [Option.some.injEq] at h; subst h
      intro kv hkv
      rcases List.mem_cons.1 hkv with rfl | hkv
      · exact unescapeText_SQ_of_SK (ha (k, v) List.mem_cons_self) hv
      · exact unescAttrs_K r r' (fun x hx => ha x (List.mem_cons_of_mem _ hx)) hr kv hkv
    · cases h
end

end MdVerif.VocabXAmp
