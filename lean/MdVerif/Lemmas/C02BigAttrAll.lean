/-
Helper lemmas for `Props/C02Big.lean`, section 13: the results of sections 7, 10, 11, 12 with attr_list on or off (footnotes
and toc off).

* `lateStageX_notoc`       — the tree processors behind the inline stage: prettify, attr_list?, abbr?, unescape;
* `lateStageX_ne_err2`     — no `err`: `AttrListTreeprocessor` and `AbbrTreeprocessor` write no bad token;
* `treeXBig_rootDiv2`      — the root stays the bare `div`: `AttrListTreeprocessor` visits the root too but finds no
                             attribute list there (c05x's `attrRun_root_attrs`: after prettify the root's text, tail and
                             the tails of its children are `"\n"` or empty — the block parser leaves the top-level children
                             without tails, the inline stage keeps that);
* `convertXBig_ne_err2`, `convertXBig_ok2`.
Core Lean only.
-/
import MdVerif.Lemmas.C02BigAttr
import MdVerif.Lemmas.VocabXWFTree3
import MdVerif.Lemmas.VocabXWFInline3
import MdVerif.Lemmas.VocabXWFBlock3

namespace MdVerif.C02BigX
open Py Pipeline PipelineX NoCtl C02BigSh C02BigNB

/-- prettify 10, attr_list 8, abbr 7 -/
def late3 (x : Exts) (cfg : Cfg) (log : Block.Refs) (t : Node) : Node :=
  let t1 := TreeProc.prettify t cfg.blockLevel
  let t2 := if x.attrList then AttrListTree.run cfg.blockLevel t1 else t1
  if x.abbr then AbbrTree.run (BlockExt.abbrsOf log) t2 else t2

/-- the tree processors behind the inline stage when footnotes and toc are off -/
theorem lateStageX_notoc {x : Exts} (hfn : x.footnotes = false) (htoc : x.toc = false)
    (cfg : Cfg) (log : Block.Refs) (t : Node) (xs : InlineX.XSt) :
    lateStageX x cfg log t xs =
      match TreeProc.unescapeTree (late3 x cfg log t) with
      | none => .err
      | some u => .ok u xs.st.html := by
  simp only [lateStageX, midStageX, tocStageX, hfn, htoc, Bool.false_eq_true, if_false, late3]
  cases TreeProc.unescapeTree (if x.abbr = true then AbbrTree.run (BlockExt.abbrsOf log)
      (if x.attrList = true then AttrListTree.run cfg.blockLevel (TreeProc.prettify t cfg.blockLevel)
        else TreeProc.prettify t cfg.blockLevel)
    else (if x.attrList = true then AttrListTree.run cfg.blockLevel (TreeProc.prettify t cfg.blockLevel)
        else TreeProc.prettify t cfg.blockLevel)) <;> rfl

theorem late3_NB {x : Exts} (cfg : Cfg) {log : Block.Refs} (hlog : BlkX.LogC Blk.okc (Blk.AllC Blk.okc) log) {t : Node}
    (hS : t.Forall TokFull.NodeS) : (late3 x cfg log t).Forall NodeNB := by
  have hp : (TreeProc.prettify t cfg.blockLevel).Forall NodeNB := forallNB_of_S (TokFull.prettify_S hS cfg.blockLevel)
  have h2 : (if x.attrList then AttrListTree.run cfg.blockLevel (TreeProc.prettify t cfg.blockLevel)
      else TreeProc.prettify t cfg.blockLevel).Forall NodeNB := by
    split
    · exact attrRun_NB _ hp
    · exact hp
  unfold late3
  simp only
  split
  · exact abbrRun_NB (abbrsOf_NB hlog) h2
  · exact h2

/-- behind the inline stage: no `err` from a tree with the STX-token invariant and a log without STX -/
theorem lateStageX_ne_err2 {x : Exts} (hfn : x.footnotes = false) (htoc : x.toc = false)
    (cfg : Cfg) {log : Block.Refs} (hlog : BlkX.LogC Blk.okc (Blk.AllC Blk.okc) log) {t : Node}
    (hS : t.Forall TokFull.NodeS) (xs : InlineX.XSt) : lateStageX x cfg log t xs ≠ .err := by
  rw [lateStageX_notoc hfn htoc]
  have hu := unescapeTree_NB (late3_NB (x := x) cfg hlog hS)
  cases hun : TreeProc.unescapeTree (late3 x cfg log t) with
  | none => exact absurd hun hu
  | some u => intro h; cases h

/-- the root in front of the late tree processors: the bare `div`, no truthy text or tail, no top-level child with a
    truthy tail -/
def Root0 (t : Node) : Prop :=
  Shell t ∧ VocabXWF.NT t ∧ Node.truthy t.text = false ∧ Node.truthy t.tail = false

theorem late3_shell {x : Exts} (cfg : Cfg) (log : Block.Refs) {t : Node} (ht : Root0 t) : Shell (late3 x cfg log t) := by
  obtain ⟨hs, hnt, htx, htl⟩ := ht
  have hp : Shell (TreeProc.prettify t cfg.blockLevel) := shell_of_same (prettify_shell t cfg.blockLevel) hs
  have hro := VocabXWF.prettify_rootOK hnt htx htl cfg.blockLevel
  have h2 : Shell (if x.attrList then AttrListTree.run cfg.blockLevel (TreeProc.prettify t cfg.blockLevel)
      else TreeProc.prettify t cfg.blockLevel) := by
    split
    · exact ⟨(attrRun_tag _ _).trans hp.1, VocabXWF.attrRun_root_attrs cfg.blockLevel hp.1 hp.2 hro⟩
    · exact hp
  unfold late3
  simp only
  split
  · exact shell_of_same (abbrRun_shell _ _) h2
  · exact h2

theorem lateStageX_shell2 {x : Exts} (hfn : x.footnotes = false) (htoc : x.toc = false)
    (cfg : Cfg) (log : Block.Refs) {t : Node} (ht : Root0 t) (xs : InlineX.XSt) {u : Node} {html : List Str}
    (h : lateStageX x cfg log t xs = .ok u html) : Shell u := by
  rw [lateStageX_notoc hfn htoc] at h
  have hq := late3_shell (x := x) cfg log ht
  cases hun : TreeProc.unescapeTree (late3 x cfg log t) with
  | none => rw [hun] at h; cases h
  | some u' =>
    rw [hun] at h
    simp only [TreeResult.ok.injEq] at h
    obtain ⟨rfl, _⟩ := h
    exact unescapeTree_shell hun hq

/-- the root of the block stage without the footnote tree processor -/
theorem blockStageX_root0 {x : Exts} {cfg : Cfg} {src : Str} (hfn : x.footnotes = false) {root : Node}
    {log : Block.Refs} {stash : List Str} (h : blockStageX x cfg src = .ok (root, log, stash)) : Root0 root := by
  simp only [blockStageX] at h
  split at h
  · cases h
  · cases h
  · split at h
    · cases h
    · next root' log' hpd =>
      simp only [fnStageX, hfn, Bool.false_eq_true, if_false] at h
      simp only [FootnotesTree.R.ok.injEq, Prod.mk.injEq] at h
      obtain ⟨rfl, _, _⟩ := h
      obtain ⟨e1, e2⟩ := VocabXWF.parseDocumentXT_text hpd
      exact ⟨parseDocumentXT_shell hpd, VocabXWF.parseDocumentXT_tails hpd, by rw [e1]; rfl, by rw [e2]; rfl⟩

/-- the inline stage keeps it (any table, any fuel) -/
theorem runXBig_root0 {xc : InlineX.XCfg} {root t : Node} {html : List Str} {xs : InlineX.XSt}
    (h : runXBig xc root html = some (t, xs)) (h0 : Root0 root) : Root0 t := by
  unfold runXBig at h
  obtain ⟨hs, hnt, htx, htl⟩ := h0
  obtain ⟨r1, r2, r3, _⟩ := VocabXWF.runLoopX_root xc _ _ _ _ _ _ _ h hnt
  exact ⟨shell_of_same (runLoopX_shell _ _ _ _ _ _ _ _ h) hs, r1, by rw [r2]; exact htx, by rw [r3]; exact htl⟩

/-- **the tree handed to the serializer has the bare `div` as its root** (footnotes, toc off; ATTR_LIST, abbr on or off) -/
theorem treeXBig_rootDiv2 {x : Exts} (hfn : x.footnotes = false) (htoc : x.toc = false) {cfg : Cfg} {src : Str}
    {u : Node} {html : List Str} (h : treeXBig x cfg src = .ok u html) : C14X.rootDiv u = true := by
  unfold treeXBig at h
  cases hb : blockStageX x cfg src with
  | oof => rw [hb] at h; cases h
  | ood => rw [hb] at h; cases h
  | ok r =>
    obtain ⟨root, log, stash⟩ := r
    rw [hb] at h
    simp only at h
    have h0 := blockStageX_root0 hfn hb
    cases hr : runXBig (inlineCfgX x cfg log) root stash with
    | none => rw [hr] at h; cases h
    | some ts =>
      obtain ⟨t, xs⟩ := ts
      rw [hr] at h
      simp only at h
      obtain ⟨e1, e2⟩ := lateStageX_shell2 hfn htoc cfg log (runXBig_root0 hr h0) xs h
      simp [C14X.rootDiv, e1, e2]

/-- **`UnescapeTreeprocessor` does not raise** (footnotes, toc off; everything else on or off; `tab_length ≥ 1` with
    fenced_code) -/
theorem treeXBig_ne_err2 {x : Exts} (hfn : x.footnotes = false) (htoc : x.toc = false)
    (cfg : Cfg) (src : Str) (htab : x.fencedCode = true → 0 < cfg.tab) : treeXBig x cfg src ≠ .err := by
  unfold treeXBig
  cases hb : blockStageX x cfg src with
  | oof => intro h; cases h
  | ood => intro h; cases h
  | ok r =>
    obtain ⟨root, log, stash⟩ := r
    have hblock : root.Forall TokFull.NodeS ∧ BlkX.LogC Blk.okc (Blk.AllC Blk.okc) log := by
      cases hf : x.fencedCode with
      | true => exact blockStageX_tokF hf hfn (htab hf) hb
      | false =>
        obtain ⟨hno, hlog, _⟩ := blockStageX_noctl_log hf hfn hb
        exact ⟨TokFull.forallS_of_noCtl hno, hlog⟩
    obtain ⟨hS0, hlog⟩ := hblock
    simp only
    cases hr : runXBig (inlineCfgX x cfg log) root stash with
    | none => intro h; cases h
    | some ts =>
      obtain ⟨t, xs⟩ := ts
      simp only
      have hS : t.Forall TokFull.NodeS :=
        TokFull.runLoopX_S (xok_inlineCfgX x cfg hlog) _ _ _ _ _ _ _ hr hS0 TokFull.stashS_nil
      exact lateStageX_ne_err2 hfn htoc cfg hlog hS xs

/-- **`Markdown.convert` does not raise** (footnotes, toc off; everything else on or off) -/
theorem convertXBig_ne_err2 {x : Exts} (hfn : x.footnotes = false) (htoc : x.toc = false)
    (cfg : Cfg) (src : Str) (htab : x.fencedCode = true → 0 < cfg.tab) : convertXBig x cfg src ≠ .err := by
  intro h
  rcases convertXBig_err_cases h with ht | ⟨u, html, ht, hs⟩
  · exact treeXBig_ne_err2 hfn htoc cfg src htab ht
  · rw [C14X.topLevelStrip_div _ u (treeXBig_rootDiv2 hfn htoc ht)] at hs
    cases hs

/-- the domain of the model for these flag sets: with admonition no `!!!` followed by a non-ASCII character; with
    fenced_code and attr_list together no fenced block with options -/
def InDomain (x : Exts) (cfg : Cfg) (src : Str) : Prop :=
  (x.admonition = true → admNonAscii (Normalize.normalize cfg.tab src) = false) ∧
  (x.fencedCode = true → x.attrList = true →
    fencedHasConfig ((Normalize.normalize cfg.tab src).length + 1) (Normalize.normalize cfg.tab src) 0 0 = false)

instance (x : Exts) (cfg : Cfg) (src : Str) : Decidable (InDomain x cfg src) := by unfold InDomain; infer_instance

theorem prepareX_ne_ood2 {x : Exts} {cfg : Cfg} {src : Str} (hd : InDomain x cfg src) : prepareX x cfg src ≠ .ood := by
  obtain ⟨hadm, hcfg⟩ := hd
  unfold prepareX
  simp only
  split
  · next hc =>
    simp only [Bool.and_eq_true] at hc
    rw [hadm hc.1] at hc
    cases hc.2
  · split
    · next hf =>
      split
      · next hc =>
        simp only [Bool.and_eq_true] at hc
        rw [hcfg hf hc.1] at hc
        cases hc.2
      · split <;> (intro h; cases h)
    · intro h; cases h

theorem treeXBig_ne_ood2 {x : Exts} (hfn : x.footnotes = false) (htoc : x.toc = false)
    {cfg : Cfg} {src : Str} (hd : InDomain x cfg src) : treeXBig x cfg src ≠ .ood := by
  unfold treeXBig
  cases hb : blockStageX x cfg src with
  | oof => intro h; cases h
  | ood =>
    exfalso
    simp only [blockStageX] at hb
    split at hb
    · cases hb
    · next hp => exact prepareX_ne_ood2 hd hp
    · split at hb
      · cases hb
      · simp only [fnStageX, hfn, Bool.false_eq_true, if_false] at hb
        cases hb
  | ok r =>
    obtain ⟨root, log, stash⟩ := r
    simp only
    cases hr : runXBig (inlineCfgX x cfg log) root stash with
    | none => intro h; cases h
    | some ts =>
      obtain ⟨t, xs⟩ := ts
      simp only
      rw [lateStageX_notoc hfn htoc]
      cases TreeProc.unescapeTree (late3 x cfg log t) <;> (intro h; cases h)

theorem convertXBig_ne_ood2 {x : Exts} (hfn : x.footnotes = false) (htoc : x.toc = false)
    {cfg : Cfg} {src : Str} (hlt : '<' ∉ src) (hd : InDomain x cfg src) : convertXBig x cfg src ≠ .ood := by
  unfold convertXBig
  split
  · next hc => exact absurd (by simpa using hc) hlt
  · split
    · next hc => cases hc
    · split
      · intro h; cases h
      · cases ht : treeXBig x cfg src with
        | oof => intro h; cases h
        | err => intro h; cases h
        | ood => exact absurd ht (treeXBig_ne_ood2 hfn htoc hd)
        | ok u html =>
          simp only [finishX]
          split
          · intro h; cases h
          · split <;> (intro h; cases h)

/-- **C02: `convertXBig` returns a string** — footnotes and toc off; tables, admonition, def_list, abbr, sane_lists,
    ATTR_LIST, nl2br, wikilinks, fenced_code on or off; `tab_length ≥ 1` when admonition or fenced_code is on; every
    `<`-free source of the model's domain in whose normalised text, when wikilinks is on, no `[` is immediately followed
    by a blank -/
theorem convertXBig_ok2 {x : Exts} (hfn : x.footnotes = false) (htoc : x.toc = false)
    (cfg : Cfg) (src : Str) (hlt : '<' ∉ src)
    (htab : x.admonition = true ∨ x.fencedCode = true → 0 < cfg.tab) (hd : InDomain x cfg src)
    (hw : x.wikilinks = true → WikiSrc cfg src) : ∃ out, convertXBig x cfg src = .ok out := by
  have h1 : convertXBig x cfg src ≠ .oof := by
    cases hf : x.fencedCode with
    | true =>
      cases hwl : x.wikilinks with
      | true => exact convertXBig_ne_oof_fenced_wiki src (hw hwl) hf (htab (.inr hf))
      | false => exact convertXBig_ne_oof_fenced src hwl hf (htab (.inr hf))
    | false =>
      cases hwl : x.wikilinks with
      | true => exact convertXBig_ne_oof_wiki src (hw hwl) hf (fun h => htab (.inl h))
      | false => exact convertXBig_ne_oof_nowiki src hwl hf (fun h => htab (.inl h))
  have h2 := convertXBig_ne_err2 hfn htoc cfg src (fun h => htab (.inr h))
  have h3 := convertXBig_ne_ood2 hfn htoc hlt hd
  cases hc : convertXBig x cfg src with
  | ok out => exact ⟨out, rfl⟩
  | oof => exact absurd hc h1
  | err => exact absurd hc h2
  | ood => exact absurd hc h3

end MdVerif.C02BigX
