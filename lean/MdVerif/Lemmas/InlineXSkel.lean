/-
The inline tree processor `InlineX.runX` keeps the "skeleton" of the tree: for a per-node test `keep` on (tag,
attributes), the list of the kept (tag, attributes) pairs in document order is unchanged, provided no element that a
pattern creates is kept (`PatOk (fun t a => !keep t a)`): the inline stage only rewrites texts and tails and inserts
elements taken from the stash.  Core Lean only.
-/
import MdVerif.Lemmas.FnDocNI

namespace MdVerif.InlineXSkel
open MdVerif.Py MdVerif.Inline MdVerif.InlineX MdVerif.InlineXNodes MdVerif.TocTreeDoc
open MdVerif.BlockExt (NI NI_iff allNodes allKids)

variable {keep : Tag → List (Str × Str) → Bool}

/-- the kept (tag, attributes) pairs of a tree, document order -/
def skel (keep : Tag → List (Str × Str) → Bool) (n : Node) : List (Tag × List (Str × Str)) :=
  (shape n).filter (fun p => keep p.1 p.2)
def skelKids (keep : Tag → List (Str × Str) → Bool) (l : List Node) : List (Tag × List (Str × Str)) :=
  (shapeKids l).filter (fun p => keep p.1 p.2)

/-- the complementary node test -/
abbrev nk (keep : Tag → List (Str × Str) → Bool) : Tag → List (Str × Str) → Bool := fun t a => !keep t a

theorem skel_of_NI {n : Node} (h : NI (nk keep) n) : skel keep n = [] := by
  rw [FnDocNI.NI_iff_shape] at h
  rw [skel, List.filter_eq_nil_iff]
  intro p hp
  have := h p hp
  simpa [nk] using this

theorem skelKids_cons (c : Node) (r : List Node) : skelKids keep (c :: r) = skel keep c ++ skelKids keep r := by
  simp [skelKids, skel, shapeKids]

theorem skelKids_nil : skelKids keep [] = [] := rfl

theorem skelKids_append (a b : List Node) : skelKids keep (a ++ b) = skelKids keep a ++ skelKids keep b := by
  induction a with
  | nil => simp [skelKids_nil]
  | cons c r ih => simp [skelKids_cons, ih]

theorem skelKids_of_NI {l : List Node} (h : ∀ n ∈ l, NI (nk keep) n) : skelKids keep l = [] := by
  induction l with
  | nil => rfl
  | cons c r ih =>
    rw [skelKids_cons, skel_of_NI (h c List.mem_cons_self), ih (fun n hn => h n (List.mem_cons_of_mem _ hn))]
    rfl

theorem skel_eq (n : Node) : skel keep n = (if keep n.tag n.attrs then [(n.tag, n.attrs)] else []) ++ skelKids keep n.children := by
  rw [skel, shape_eq, skelKids]
  simp only [List.filter_cons]
  split <;> rfl

/-- same tag, attributes and children ⇒ same shape -/
theorem shape_same {a b : Node} (htag : b.tag = a.tag) (hattrs : b.attrs = a.attrs) (hk : b.children = a.children) :
    shape b = shape a := by
  rw [shape_eq, shape_eq a, htag, hattrs, hk]

/-! ### the parent of `__processPlaceholders` keeps its shape -/

theorem linkText_shape (text : Str) (atomic isText : Bool) (result : List Node) (parent : Node) :
    shape (linkText text atomic isText result parent).2 = shape parent := by
  unfold linkText
  split
  · rfl
  · split
    · split <;> rfl
    · split
      · split <;> exact shape_same rfl rfl rfl
      · split <;> exact shape_same rfl rfl rfl

theorem ppLoop_shape (stash : List StashItem) (nested : Node → Option Node) (data : Str) (atomic isText : Bool) :
    ∀ (g start : Nat) (result : List Node) (parent : Node) (res : List Node) (parent' : Node),
      ppLoop stash nested data atomic isText g start result parent = some (res, parent') →
      shape parent' = shape parent := by
  intro g
  induction g with
  | zero => intro start result parent res parent' h; simp [ppLoop] at h
  | succ g ih =>
    intro start result parent res parent' h
    simp only [ppLoop] at h
    have hpre : ∀ (c : Prop) [Decidable c] (t : Str),
        shape (if c then linkText t false isText result parent else (result, parent)).2 = shape parent := by
      intro c _ t
      split
      · exact linkText_shape _ _ _ _ _
      · rfl
    split at h
    · rename_i off _
      split at h
      · have p1 := hpre (start + off > 0) (slice data start (start + off))
        split at h
        · split at h
          · cases h
          · exact (ih _ _ _ _ _ h).trans p1
        · rename_i s
          have q := ih _ _ _ _ _ h
          rw [q, linkText_shape, p1]
      · have q := ih _ _ _ _ _ h
        rw [q, linkText_shape]
    · simp only [Option.some.injEq, Prod.mk.injEq] at h
      obtain ⟨e1, e2⟩ := h; subst e1; subst e2
      exact linkText_shape _ _ _ _ _

theorem ppTop_shape (st : St) (data : Str) (atomic : Bool) (parent : Node) (isText : Bool) (res : List Node)
    (parent' : Node) (h : ppTop st data atomic parent isText = some (res, parent')) : shape parent' = shape parent := by
  unfold ppTop at h
  cases hf : st.stash.length + 2 with
  | zero => omega
  | succ f =>
    rw [hf] at h
    simp only [processPlaceholders] at h
    split at h
    · simp only [Option.some.injEq, Prod.mk.injEq] at h
      rw [← h.2]
    · exact ppLoop_shape _ _ _ _ _ _ _ _ _ _ _ h

/-! ### `run` -/

theorem visitChildX_skel {xc : XCfg} (hpat : PatOk (nk keep) xc) (child : Node) (v : VisitX) (c : Node)
    (tr : List Node) (v' : VisitX) (h : visitChildX xc child v = some (c, tr, v'))
    (hs : StashNI (nk keep) v.x.st.stash) :
    skel keep c = skel keep child ∧ (∀ n ∈ tr, NI (nk keep) n) ∧ StashNI (nk keep) v'.x.st.stash ∧
      v'.done = v.done := by
  unfold visitChildX at h
  simp only [] at h
  split at h
  · cases h
  · rename_i c1 lst x1 hr1
    have k1 : shape c1 = shape child ∧ (∀ n ∈ lst, NI (nk keep) n) ∧ StashNI (nk keep) x1.st.stash := by
      split at hr1
      · split at hr1
        · cases hr1
        · rename_i data x1' hh
          split at hr1
          · cases hr1
          · rename_i lst' c1' hpp
            simp only [Option.some.injEq, Prod.mk.injEq] at hr1
            obtain ⟨e1, e2, e3⟩ := hr1; subst e1; subst e2; subst e3
            have hs1 := handleInlineTopX_NI hpat _ _ _ _ hh hs
            have q := ppTop_NI _ hs1 _ _ _ _ _ _ hpp
            exact ⟨(ppTop_shape _ _ _ _ _ _ _ hpp).trans (shape_same rfl rfl rfl), q.1, hs1⟩
      · simp only [Option.some.injEq, Prod.mk.injEq] at hr1
        obtain ⟨e1, e2, e3⟩ := hr1; subst e1; subst e2; subst e3
        exact ⟨rfl, by simp, hs⟩
    split at h
    · cases h
    · rename_i c2 tr' x2 hr2
      have k2 : shape c2 = shape c1 ∧ (∀ n ∈ tr', NI (nk keep) n) ∧ StashNI (nk keep) x2.st.stash := by
        split at hr2
        · split at hr2
          · cases hr2
          · rename_i data x2' hh
            split at hr2
            · cases hr2
            · rename_i tr'' dumby hpp
              simp only [Option.some.injEq, Prod.mk.injEq] at hr2
              obtain ⟨e1, e2, e3⟩ := hr2; subst e1; subst e2; subst e3
              have hs2 : StashNI (nk keep) x2'.st.stash := by
                split at hh
                · simp only [Option.some.injEq, Prod.mk.injEq] at hh
                  rw [← hh.2]; exact k1.2.2
                · exact handleInlineTopX_NI hpat _ _ _ _ hh k1.2.2
              have q := ppTop_NI _ hs2 _ _ _ _ _ _ hpp
              refine ⟨?_, q.1, hs2⟩
              split <;> exact shape_same rfl rfl rfl
        · simp only [Option.some.injEq, Prod.mk.injEq] at hr2
          obtain ⟨e1, e2, e3⟩ := hr2; subst e1; subst e2; subst e3
          exact ⟨rfl, by simp, k1.2.2⟩
      simp only [Option.some.injEq, Prod.mk.injEq] at h
      obtain ⟨e1, e2, e3⟩ := h; subst e1; subst e2; subst e3
      refine ⟨?_, k2.2.1, k2.2.2, rfl⟩
      have hsh : shape c2 = shape child := k2.1.trans k1.1
      have h3 : skel keep { c2 with children := lst ++ c2.children } = skel keep c2 := by
        rw [skel_eq, skel_eq c2]
        simp only [skelKids_append, skelKids_of_NI k1.2.1, List.nil_append]
      rw [h3, skel, skel, hsh]

theorem skelKids_reverse_cons (c : Node) (l : List Node) :
    skelKids keep (c :: l).reverse = skelKids keep l.reverse ++ skel keep c := by
  rw [List.reverse_cons, skelKids_append, skelKids_cons, skelKids_nil, List.append_nil]

theorem visitLoopX_skel {xc : XCfg} (hpat : PatOk (nk keep) xc) :
    ∀ (g : Nat) (todo : List (Node × Option Nat)) (v v' : VisitX), visitLoopX xc g todo v = some v' →
      StashNI (nk keep) v.x.st.stash →
      skelKids keep v'.done.reverse = skelKids keep v.done.reverse ++ skelKids keep (todo.map (·.1)) ∧
        StashNI (nk keep) v'.x.st.stash := by
  intro g
  induction g with
  | zero => intro todo v v' h _; simp [visitLoopX] at h
  | succ g ih =>
    intro todo v v' h hs
    cases todo with
    | nil =>
      simp only [visitLoopX, Option.some.injEq] at h
      subst h; exact ⟨by simp [skelKids_nil], hs⟩
    | cons p todo =>
      obtain ⟨child, orig⟩ := p
      simp only [visitLoopX] at h
      split at h
      · cases h
      · rename_i c tr v1 hv
        have q := visitChildX_skel hpat _ _ _ _ _ hv hs
        have r := ih _ _ _ h q.2.2.1
        refine ⟨?_, r.2⟩
        rw [r.1]
        simp only [List.map_append, List.map_map, List.map_cons, skelKids_append, skelKids_cons]
        rw [q.2.2.2, skelKids_reverse_cons, q.1]
        have : skelKids keep (List.map ((fun x => x.1) ∘ fun n => ((n, none) : Node × Option Nat)) tr) = [] := by
          apply skelKids_of_NI
          intro n hn
          obtain ⟨m, hm, rfl⟩ := List.mem_map.1 hn
          exact q.2.1 m hm
        rw [this]
        simp

theorem withIdx_map_fst (l : List Node) : ∀ i, (withIdx l i).map (·.1) = l := by
  induction l with
  | nil => intro i; rfl
  | cons n r ih => intro i; simp [withIdx, ih]

theorem skelKids_set (l : List Node) (i : Nat) (c x : Node) (hc : l[i]? = some c) (hx : skel keep x = skel keep c) :
    skelKids keep (l.set i x) = skelKids keep l := by
  induction l generalizing i with
  | nil => simp at hc
  | cons a r ih =>
    cases i with
    | zero =>
      simp only [List.getElem?_cons_zero, Option.some.injEq] at hc
      subst hc
      simp [List.set, skelKids_cons, hx]
    | succ i =>
      simp only [List.getElem?_cons_succ] at hc
      simp [List.set, skelKids_cons, ih i hc]

theorem setAt_skel : ∀ (p : Path) (n cur new : Node), getAt n p = some cur → skel keep new = skel keep cur →
    skel keep (setAt n p new) = skel keep n := by
  intro p
  induction p with
  | nil =>
    intro n cur new h hn
    simp only [getAt, Option.some.injEq] at h; subst h
    exact hn
  | cons i p ih =>
    intro n cur new h hn
    simp only [getAt] at h
    simp only [setAt]
    split at h
    · rename_i c hc
      rw [skel_eq, skel_eq n]
      simp only []
      rw [skelKids_set _ _ c _ hc (ih c cur new h hn)]
    · cases h

theorem runLoopX_skel {xc : XCfg} (hpat : PatOk (nk keep) xc) (g2 : Nat) :
    ∀ (g : Nat) (root : Node) (stack : List Path) (x : XSt) (root' : Node) (x' : XSt),
      runLoopX xc g2 g root stack x = some (root', x') → StashNI (nk keep) x.st.stash →
      skel keep root' = skel keep root := by
  intro g
  induction g with
  | zero => intro root stack x root' x' h _; simp [runLoopX] at h
  | succ g ih =>
    intro root stack x root' x' h hs
    cases stack with
    | nil =>
      simp only [runLoopX, Option.some.injEq, Prod.mk.injEq] at h
      rw [← h.1]
    | cons p stack =>
      simp only [runLoopX] at h
      split at h
      · exact ih _ _ _ _ _ h hs
      · rename_i cur hcur
        split at h
        · cases h
        · rename_i v hv
          have q := visitLoopX_skel hpat _ _ _ _ hv hs
          rw [ih _ _ _ _ _ h q.2]
          apply setAt_skel p root cur _ hcur
          rw [skel_eq, skel_eq cur]
          simp only []
          rw [q.1, withIdx_map_fst]
          simp [skelKids_nil]

/-- **The inline stage keeps the skeleton**: when no element that a pattern creates is kept, the kept (tag,
    attributes) pairs of the tree, in document order, are the same before and after `runX`. -/
theorem runX_skel {xc : XCfg} (hpat : PatOk (nk keep) xc) (tree : Node) (html : List Str) (t : Node) (xs : XSt)
    (h : runX xc tree html = some (t, xs)) : skel keep t = skel keep tree := by
  unfold runX at h
  exact runLoopX_skel hpat _ _ _ _ _ _ _ h (by intro n hn; cases hn)

end MdVerif.InlineXSkel
