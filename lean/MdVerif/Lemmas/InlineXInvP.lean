/-
The inline stage and a predicate `Ok` of strings that is not closed under concatenation (e.g. "does not contain
`[[`"), part 1: what the patterns find.

`Sep Ok N`: `Ok` is closed under taking infixes, and two `Ok` strings may be glued with a non-empty string of
NEUTRAL characters (`N`) in between; the characters the engine writes itself (placeholders, escapes, entity
spellings) are neutral.  `Lemmas/InlineXInv.lean` is the special case `Ok s := c ∉ s`, `N d := d ≠ c`, where gluing
needs no separator.

`DeepP Ok n`: every text and tail of the tree `n` is `Ok`.  Stash entries: strings are non-empty and neutral,
elements are `DeepP` and have no tail (`ItemP`).  Every pattern but the wikilink pattern (a blank label gives the
empty string) finds such an entry on an `Ok` text (`findX_invP`).
Core Lean only.
-/
import MdVerif.Lemmas.InlineXRel

namespace MdVerif.InlineX
open Py Inline

structure Sep (Ok : Str → Prop) (N : Char → Prop) : Prop where
  nil : Ok []
  sub : ∀ {s t : Str}, t <:+: s → Ok s → Ok t
  glue : ∀ {a m b : Str}, Ok a → Ok b → m ≠ [] → (∀ c ∈ m, N c) → Ok (a ++ m ++ b)
  repl1 : ∀ {s : Str} (a : Char) {b : Str}, Ok s → b ≠ [] → (∀ c ∈ b, N c) → Ok (replace s [a] b)
  stx : N STX
  etx : N ETX
  digit : ∀ c, isAsciiDigit c = true → N c
  ph : ∀ c ∈ ['k', 'l', 'z', 'w', 'x', 'h', ':', 'd'], N c
  ent : ∀ c ∈ ['&', 'a', 'm', 'p', ';', 'l', 't', 'g'], N c
  bs : N '\\'
  star : N '*'
  under : N '_'

/-- a non-empty string of neutral characters -/
def Neut (N : Char → Prop) (m : Str) : Prop := m ≠ [] ∧ ∀ c ∈ m, N c

variable {Ok : Str → Prop} {N : Char → Prop}

theorem Sep.neut (hs : Sep Ok N) {m : Str} (hm : Neut N m) : Ok m := by
  have := hs.glue (a := []) (b := []) hs.nil hs.nil hm.1 hm.2
  simpa using this

/-- a neutral string in the place of a part of an `Ok` string -/
theorem Sep.splice (hs : Sep Ok N) {data : Str} (hd : Ok data) {m : Str} (hm : Neut N m) (start : Nat) (stop : Int) :
    Ok (data.take start ++ m ++ pyDrop data stop) :=
  hs.glue (hs.sub (List.take_prefix _ _).isInfix hd) (hs.sub (List.drop_suffix _ _).isInfix hd) hm.1 hm.2

/-- one neutral string for another -/
theorem Sep.swap (hs : Sep Ok N) {a m b : Str} (h : Ok (a ++ m ++ b)) {m' : Str} (hm : Neut N m') : Ok (a ++ m' ++ b) :=
  hs.glue (hs.sub ⟨[], m ++ b, by simp⟩ h) (hs.sub ⟨a ++ m, [], by simp⟩ h) hm.1 hm.2

theorem Neut.append {a b : Str} (ha : Neut N a) (hb : ∀ c ∈ b, N c) : Neut N (a ++ b) :=
  ⟨by intro e; exact ha.1 (List.append_eq_nil_iff.mp e).1,
   by intro c hc; rcases List.mem_append.mp hc with hc | hc; exact ha.2 c hc; exact hb c hc⟩

theorem Neut.cons {a : Char} {b : Str} (ha : N a) (hb : ∀ c ∈ b, N c) : Neut N (a :: b) :=
  ⟨by simp, by intro c hc; rcases List.mem_cons.mp hc with hc | hc; exact hc ▸ ha; exact hb c hc⟩

theorem natToDec_neutral (hs : Sep Ok N) (n : Nat) : ∀ c ∈ natToDec n, N c :=
  fun c hc => hs.digit c (natToDec_digits n c hc)

theorem pad4_neutral (hs : Sep Ok N) (n : Nat) : ∀ c ∈ pad4 n, N c := by
  intro c hm
  simp only [pad4, List.mem_append, List.mem_replicate] at hm
  rcases hm with ⟨_, hm⟩ | hm
  · exact hs.digit c (by rw [hm]; rfl)
  · exact natToDec_neutral hs n c hm

theorem placeholder_neut (hs : Sep Ok N) (n : Nat) : Neut N (placeholder n) := by
  refine ⟨by simp [placeholder, phPrefix], ?_⟩
  intro c hm
  simp only [placeholder, phPrefix, List.mem_append, List.mem_cons, List.mem_singleton, List.not_mem_nil, or_false] at hm
  rcases hm with (hm | hm) | hm
  · rcases hm with hm | hm
    · exact hm ▸ hs.stx
    · have key : ∀ c ∈ "klzzwxh:".toList, c ∈ ['k', 'l', 'z', 'w', 'x', 'h', ':', 'd'] := by decide
      exact hs.ph c (key c hm)
  · exact pad4_neutral hs n c hm
  · exact hm ▸ hs.etx

theorem codeEscape_ok (hs : Sep Ok N) {t : Str} (h : Ok t) : Ok (Inline.codeEscape t) := by
  simp only [Inline.codeEscape]
  have k1 : ∀ c ∈ "&amp;".toList, c ∈ ['&', 'a', 'm', 'p', ';', 'l', 't', 'g'] := by decide
  have k2 : ∀ c ∈ "&lt;".toList, c ∈ ['&', 'a', 'm', 'p', ';', 'l', 't', 'g'] := by decide
  have k3 : ∀ c ∈ "&gt;".toList, c ∈ ['&', 'a', 'm', 'p', ';', 'l', 't', 'g'] := by decide
  exact hs.repl1 _ (hs.repl1 _ (hs.repl1 _ h (by decide) (fun c hc => hs.ent c (k1 c hc))) (by decide)
    (fun c hc => hs.ent c (k2 c hc))) (by decide) (fun c hc => hs.ent c (k3 c hc))

/-! ### trees -/

mutual
/-- every text and tail of the tree is `Ok` -/
def DeepP (Ok : Str → Prop) : Node → Prop
  | ⟨_, _, text, _, children, tail, _⟩ =>
    (∀ s, text = some s → Ok s) ∧ (∀ s, tail = some s → Ok s) ∧ DeepPs Ok children
def DeepPs (Ok : Str → Prop) : List Node → Prop
  | [] => True
  | n :: r => DeepP Ok n ∧ DeepPs Ok r
end

theorem DeepPs_iff (l : List Node) : DeepPs Ok l ↔ ∀ n ∈ l, DeepP Ok n := by
  induction l with
  | nil => simp [DeepPs]
  | cons a r ih => simp [DeepPs, ih]

theorem DeepP_iff (n : Node) :
    DeepP Ok n ↔ (∀ s, n.text = some s → Ok s) ∧ (∀ s, n.tail = some s → Ok s) ∧ ∀ k ∈ n.children, DeepP Ok k := by
  cases n
  simp only [DeepP, DeepPs_iff]

theorem DeepP_mkEl (tag : String) : DeepP Ok (mkEl tag) := by
  rw [DeepP_iff]; refine ⟨?_, ?_, ?_⟩ <;> intro s h <;> cases h

theorem DeepP_kids {n : Node} (h : DeepP Ok n) : ∀ k ∈ n.children, DeepP Ok k := ((DeepP_iff n).mp h).2.2

theorem DeepP_append {p el : Node} (hp : DeepP Ok p) (he : DeepP Ok el) : DeepP Ok (p.append el) := by
  rw [DeepP_iff] at hp ⊢
  refine ⟨hp.1, hp.2.1, ?_⟩
  intro k hk
  simp only [Node.append, List.mem_append, List.mem_singleton] at hk
  rcases hk with hk | hk
  · exact hp.2.2 k hk
  · exact hk ▸ he

theorem DeepP_setLast {p el : Node} (hp : DeepP Ok p) (he : DeepP Ok el) : DeepP Ok (p.setLast el) := by
  rw [DeepP_iff] at hp ⊢
  refine ⟨hp.1, hp.2.1, ?_⟩
  intro k hk
  simp only [Node.setLast, List.mem_append, List.mem_singleton] at hk
  rcases hk with hk | hk
  · exact hp.2.2 k ((List.dropLast_prefix _).subset hk)
  · exact hk ▸ he

theorem DeepP_setAttr {n : Node} (a b : Str) (h : DeepP Ok n) : DeepP Ok (n.setAttr a b) := by
  unfold Node.setAttr
  split <;> (rw [DeepP_iff] at h ⊢; exact h)

theorem setAttr_tail (n : Node) (a b : Str) : (n.setAttr a b).tail = n.tail := by
  unfold Node.setAttr
  split <;> rfl

theorem DeepP_children {n : Node} (kids : List Node) (h : DeepP Ok n) (hk : ∀ k ∈ kids, DeepP Ok k) :
    DeepP Ok { n with children := kids } := by
  rw [DeepP_iff] at h ⊢
  exact ⟨h.1, h.2.1, hk⟩

theorem DeepP_noTail {n : Node} (h : DeepP Ok n) : DeepP Ok { n with tail := none, tailAtomic := false } := by
  rw [DeepP_iff] at h ⊢
  exact ⟨h.1, (by intro s hs; simp at hs), h.2.2⟩

theorem DeepP_noText {n : Node} (h : DeepP Ok n) : DeepP Ok { n with text := none, textAtomic := false } := by
  rw [DeepP_iff] at h ⊢
  exact ⟨(by intro s hs; simp at hs), h.2.1, h.2.2⟩

theorem DeepP_withText {n : Node} {text : Str} (ta : Bool) (hn : DeepP Ok n) (h : Ok text) :
    DeepP Ok { n with text := some text, textAtomic := ta } := by
  rw [DeepP_iff] at hn ⊢
  exact ⟨by intro s hs; cases hs; exact h, hn.2.1, hn.2.2⟩

theorem DeepP_withText1 {n : Node} {text : Str} (hn : DeepP Ok n) (h : Ok text) : DeepP Ok { n with text := some text } := by
  rw [DeepP_iff] at hn ⊢
  exact ⟨by intro s hs; cases hs; exact h, hn.2.1, hn.2.2⟩

theorem DeepP_withTail {n : Node} {tail : Str} (ta : Bool) (hn : DeepP Ok n) (h : Ok tail) :
    DeepP Ok { n with tail := some tail, tailAtomic := ta } := by
  rw [DeepP_iff] at hn ⊢
  exact ⟨hn.1, by intro s hs; cases hs; exact h, hn.2.2⟩

theorem okP_text (hs : Sep Ok N) {n : Node} (h : DeepP Ok n) : Ok (n.text.getD []) := by
  have := ((DeepP_iff n).mp h).1
  cases ht : n.text with
  | none => exact hs.nil
  | some t => exact this t ht

theorem okP_tail (hs : Sep Ok N) {n : Node} (h : DeepP Ok n) : Ok (n.tail.getD []) := by
  have := ((DeepP_iff n).mp h).2.1
  cases ht : n.tail with
  | none => exact hs.nil
  | some t => exact this t ht

theorem DeepP_setTextOrTail {p : Node} {text : Str} (hasLast : Bool) (hp : DeepP Ok p) (ht : Ok text) :
    DeepP Ok (setTextOrTail p hasLast text) := by
  unfold setTextOrTail
  split
  · exact hp
  · split
    · split
      · rename_i l hl
        apply DeepP_setLast hp
        exact DeepP_withTail _ (DeepP_kids hp l (List.mem_of_getLast? hl)) ht
      · exact hp
    · exact DeepP_withText _ hp ht

theorem setTextOrTail_tail (p : Node) (hasLast : Bool) (text : Str) : (setTextOrTail p hasLast text).tail = p.tail := by
  unfold setTextOrTail
  split
  · rfl
  · split
    · split <;> rfl
    · rfl

/-! ### emphasis -/

theorem subTry_deepP (hs : Sep Ok N) {b : List Str → EmItem → Nat → Option Node} {data : Str} {ch : Char} {idx : Nat}
    (hb : ∀ groups item i n, (∀ g ∈ groups, Ok g) → b groups item i = some n → DeepP Ok n) (hd : Ok data) :
    ∀ (items : List EmItem) (index : Nat) (s s' : SubSt), DeepP Ok s.parent →
      subTry b data ch idx items index s = some s' → DeepP Ok s'.parent ∧ s'.parent.tail = s.parent.tail := by
  intro items
  induction items with
  | nil => intro index s s' hp h; simp only [subTry] at h; cases h; exact ⟨hp, rfl⟩
  | cons item rest ih =>
    intro index s s' hp h
    unfold subTry at h
    split at h
    · exact ih _ _ _ hp h
    · split at h
      · exact ih _ _ _ hp h
      · rename_i e groups hm
        have hinf := seqMatch_infix hm
        split at h
        · cases h
        · rename_i el hel
          have hel' := hb groups item index el (fun g hg => hs.sub (hinf g hg) hd) hel
          have := ih _ _ _ (DeepP_append (DeepP_setTextOrTail _ hp (hs.sub (Inline.slice_infix _ _ _) hd)) hel') h
          refine ⟨this.1, ?_⟩
          rw [this.2]
          simp only [Node.append]
          exact setTextOrTail_tail _ _ _

theorem subLoop_deepP (hs : Sep Ok N) {b : List Str → EmItem → Nat → Option Node} {data : Str} {ch : Char} {idx : Nat}
    (hb : ∀ groups item i n, (∀ g ∈ groups, Ok g) → b groups item i = some n → DeepP Ok n) (hd : Ok data) :
    ∀ (g : Nat) (s s' : SubSt), DeepP Ok s.parent → subLoop b data ch idx g s = some s' →
      DeepP Ok s'.parent ∧ s'.parent.tail = s.parent.tail := by
  intro g
  induction g with
  | zero => intro s s' _ h; simp [subLoop] at h
  | succ g ih =>
    intro s s' hp h
    unfold subLoop at h
    split at h
    · split at h
      · split at h
        · cases h
        · rename_i s1 hs1
          have h1 := subTry_deepP hs hb hd _ _ _ _ (by exact hp) hs1
          have h2 := ih (if s1.matched = true then s1 else { s1 with pos := s1.pos + 1 }) s'
            (by split <;> exact h1.1) h
          refine ⟨h2.1, ?_⟩
          rw [h2.2]
          split <;> exact h1.2
      · exact ih { s with pos := s.pos + 1 } s' hp h
    · cases h; exact ⟨hp, rfl⟩

theorem parseSub_deepP (hs : Sep Ok N) {b : List Str → EmItem → Nat → Option Node} {data : Str} {ch : Char}
    (hb : ∀ groups item i n, (∀ g ∈ groups, Ok g) → b groups item i = some n → DeepP Ok n) (hd : Ok data)
    (parent : Node) (hasLast : Bool) (idx : Nat) (hp : DeepP Ok parent) {n : Node}
    (h : parseSub b data parent hasLast idx ch = some n) : DeepP Ok n ∧ n.tail = parent.tail := by
  unfold parseSub at h
  split at h
  · cases h
  · rename_i s hs'
    injection h with h
    rw [← h]
    have := subLoop_deepP hs hb hd _ _ _ hp hs'
    exact ⟨DeepP_setTextOrTail _ this.1 (hs.sub (List.drop_suffix _ _).isInfix hd),
      by rw [setTextOrTail_tail]; exact this.2⟩

theorem build_deepP (hs : Sep Ok N) (ch : Char) : ∀ (f : Nat) (groups : List Str) (item : EmItem) (idx : Nat)
    (n : Node), (∀ g ∈ groups, Ok g) → build ch f groups item idx = some n → DeepP Ok n ∧ n.tail = none := by
  intro f
  induction f with
  | zero => intro groups item idx n _ h; simp [build] at h
  | succ f ih =>
    intro groups item idx n hg h
    have hget : ∀ j, Ok (groups.getD j []) := by
      intro j
      rcases Nat.lt_or_ge j groups.length with hj | hj
      · have hm : groups.getD j [] ∈ groups := by
          rw [List.getD_eq_getElem?_getD, List.getElem?_eq_getElem hj]; exact List.getElem_mem hj
        exact hg _ hm
      · rw [List.getD_eq_getElem?_getD, List.getElem?_eq_none hj]; exact hs.nil
    have hhead : groups.headD [] = groups.getD 0 [] := by cases groups <;> rfl
    have h0 : Ok (groups.headD []) := hhead ▸ hget 0
    have hsub : ∀ (d : Str) (p : Node) (hl : Bool) (m : Node), Ok d → DeepP Ok p →
        parseSub (fun g i j => build ch f g i j) d p hl idx ch = some m → DeepP Ok m ∧ m.tail = p.tail :=
      fun d p hl m hd hp hm =>
        parseSub_deepP hs (fun groups item i n hg' hb' => (ih groups item i n hg' hb').1) hd p hl idx hp hm
    unfold build at h
    simp only at h
    split at h
    · exact hsub _ _ _ _ h0 (DeepP_mkEl _) h
    · split at h
      · cases h
      · rename_i el2 hel2
        have hD2 := hsub _ _ _ _ h0 (DeepP_mkEl _) hel2
        have hD1 : DeepP Ok ((mkEl item.tag1).append el2) := DeepP_append (DeepP_mkEl _) hD2.1
        split at h
        · rename_i a g1
          have h1 := hget 1
          simp only [List.getD_cons_succ, List.getD_cons_zero] at h1
          exact hsub _ _ _ _ h1 hD1 h
        · cases h; exact ⟨hD1, rfl⟩
    · split at h
      · rename_i el1 el2 hel1 hel2
        cases h
        have h1 := hsub _ _ _ _ h0 (DeepP_mkEl _) hel1
        refine ⟨DeepP_append h1.1 (hsub _ _ _ _ (hget 1) (DeepP_mkEl _) hel2).1, ?_⟩
        simp only [Node.append]
        exact h1.2
      · cases h

theorem emHandle_deepP (hs : Sep Ok N) {data : Str} {i : Nat} {ch : Char} (hd : Ok data) :
    ∀ (items : List EmItem) (idx : Nat) el e, emHandle data i ch items idx = some (some (el, e)) →
      DeepP Ok el ∧ el.tail = none := by
  intro items
  induction items with
  | nil => intro idx el e h; simp [emHandle] at h
  | cons item rest ih =>
    intro idx el e h
    unfold emHandle at h
    split at h
    · rename_i e' groups hm
      have hinf := seqMatch_infix hm
      split at h
      · rename_i el' hel
        simp only [Option.some.injEq, Prod.mk.injEq] at h
        rw [← h.1]
        exact build_deepP hs ch _ groups item idx el' (fun g hg => hs.sub (hinf g hg) hd) hel
      · cases h
    · exact ih _ _ _ h

theorem emScan_deepP (hs : Sep Ok N) {data : Str} {ch : Char} (hd : Ok data) :
    ∀ (suf : Str) (i : Nat) el s e, emScan data ch suf i = some (some (el, s, e)) → DeepP Ok el ∧ el.tail = none := by
  intro suf
  induction suf with
  | nil => intro i el s e h; simp [emScan] at h
  | cons x r ih =>
    intro i el s e h
    unfold emScan at h
    split at h
    · split at h
      · cases h
      · rename_i el' e' hx
        simp only [Option.some.injEq, Prod.mk.injEq] at h
        rw [← h.1]
        exact emHandle_deepP hs hd _ _ _ _ hx
      · exact ih _ _ _ _ h
    · exact ih _ _ _ _ h

end MdVerif.InlineX
