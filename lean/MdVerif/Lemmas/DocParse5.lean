/-
Helper lemmas for C01 with inline links (`Props/C01h.lean`): paragraphs that are a line of words, escapes, code
spans, emphasised words and inline links `[text](dest "title")` around such content.  The inline stages are those of
`Lemmas/RefTextInl*.lean` (C06 with inline links), here packaged as an `Elem` of `Lemmas/DocParse2.lean` so that the
paragraph composes with the other blocks of a document; new are the printed form under `printInlines` (the link style
is drawn from the spelling), the block stage on a line that starts with `[`, and the document.  Core Lean only.
-/
import MdVerif.Lemmas.DocParse4
import MdVerif.Lemmas.RefTextInlDoc

namespace MdVerif.DocLink
open Py Inline Escape DocSpec CodeLaw DocParse Block DocParse2 RefText

/-! ### 1. content with links: the content before the first link, and per link what follows it -/

structure LinkIt where
  text : List DocSpec.Inline
  dest : Str
  title : Option Str
  after : List DocSpec.Inline

def isLinkI : DocSpec.Inline → Bool
  | .link _ _ _ => true
  | _ => false

def linkSplit : List DocSpec.Inline → List DocSpec.Inline × List LinkIt
  | [] => ([], [])
  | x :: r =>
    match x with
    | .link c d t => ([], ⟨c, d, t, (linkSplit r).1⟩ :: (linkSplit r).2)
    | _ => (x :: (linkSplit r).1, (linkSplit r).2)

def joinLinks (A : List DocSpec.Inline) : List LinkIt → List DocSpec.Inline
  | [] => A
  | l :: r => A ++ .link l.text l.dest l.title :: joinLinks l.after r

theorem linkSplit_link (c : List DocSpec.Inline) (d : Str) (t : Option Str) (r : List DocSpec.Inline) :
    linkSplit (.link c d t :: r) = ([], ⟨c, d, t, (linkSplit r).1⟩ :: (linkSplit r).2) := by rw [linkSplit]

theorem linkSplit_other (x : DocSpec.Inline) (r : List DocSpec.Inline) (hx : isLinkI x = false) :
    linkSplit (x :: r) = (x :: (linkSplit r).1, (linkSplit r).2) := by
  cases x <;> simp_all [isLinkI, linkSplit]

theorem joinLinks_split (c : List DocSpec.Inline) : joinLinks (linkSplit c).1 (linkSplit c).2 = c := by
  induction c with
  | nil => rfl
  | cons x r ih =>
    by_cases hx : isLinkI x = true
    · obtain ⟨c', d, t, rfl⟩ : ∃ c' d t, x = .link c' d t := by cases x <;> simp_all [isLinkI]
      rw [linkSplit_link]; simp [joinLinks, ih]
    · have hx' : isLinkI x = false := by simpa using hx
      rw [linkSplit_other x r hx']
      cases h2 : (linkSplit r).2 with
      | nil => rw [h2] at ih; simpa [joinLinks] using ih
      | cons l ls => rw [h2] at ih; simp only [joinLinks] at ih ⊢; rw [List.cons_append, ih]

theorem linkSplit_prefix (c : List DocSpec.Inline) : ∃ T, c = (linkSplit c).1 ++ T := by
  induction c with
  | nil => exact ⟨[], rfl⟩
  | cons x r ih =>
    by_cases hx : isLinkI x = true
    · obtain ⟨c', d, t, rfl⟩ : ∃ c' d t, x = .link c' d t := by cases x <;> simp_all [isLinkI]
      rw [linkSplit_link]; exact ⟨_, rfl⟩
    · have hx' : isLinkI x = false := by simpa using hx
      obtain ⟨T, hT⟩ := ih
      rw [linkSplit_other x r hx']
      exact ⟨T, by simp only [List.cons_append]; rw [← hT]⟩

/-! ### 2. `printInlines` on content followed by a link -/

theorem printInlines_cons' (pd : Option Char) (a b : Bool) (x : DocSpec.Inline) (r : List DocSpec.Inline) (st : PSt) :
    printInlines pd a b (x :: r) st =
      ((printInline pd a (nextBoundary b r) (safeAfterRef r) x st).1 ++
        (printInlines pd (afterBoundary a (printInline pd a (nextBoundary b r) (safeAfterRef r) x st).1) b r
          (printInline pd a (nextBoundary b r) (safeAfterRef r) x st).2).1,
       (printInlines pd (afterBoundary a (printInline pd a (nextBoundary b r) (safeAfterRef r) x st).1) b r
          (printInline pd a (nextBoundary b r) (safeAfterRef r) x st).2).2) := by
  rw [printInlines]

theorem printInlines_nil' (pd : Option Char) (a b : Bool) (st : PSt) : printInlines pd a b [] st = ([], st) := by
  rw [printInlines]

/-- the style of a link does not matter to the other items -/
theorem printInline_safe (pd : Option Char) (a b s s' : Bool) (x : DocSpec.Inline) (st : PSt)
    (hx : isLinkI x = false) (hi : ∀ al d t, x ≠ .image al d t) :
    printInline pd a b s x st = printInline pd a b s' x st := by
  cases x with
  | link _ _ _ => simp [isLinkI] at hx
  | image al d t => exact absurd rfl (hi al d t)
  | _ => simp only [printInline]

theorem afterBoundary_append (p : Bool) (x y : Str) :
    afterBoundary (afterBoundary p x) y = afterBoundary p (x ++ y) := by
  unfold afterBoundary
  by_cases hy : y = []
  · subst hy; simp
  · rw [List.getLast?_append]
    cases hl : y.getLast? with
    | none => rw [List.getLast?_eq_none_iff] at hl; exact absurd hl hy
    | some c => simp

theorem nextBoundary_append (e : Bool) (A B : List DocSpec.Inline) :
    nextBoundary e (A ++ B) = nextBoundary (nextBoundary e B) A := by
  cases A <;> simp [nextBoundary]

def plainItem (x : DocSpec.Inline) : Prop := isLinkI x = false ∧ ∀ al d t, x ≠ .image al d t

theorem printInlines_append_plain (pd : Option Char) (B : List DocSpec.Inline) :
    ∀ (A : List DocSpec.Inline), (∀ x ∈ A, plainItem x) → ∀ (pB eB : Bool) (st : PSt),
      printInlines pd pB eB (A ++ B) st =
        ((printInlines pd pB (nextBoundary eB B) A st).1 ++
          (printInlines pd (afterBoundary pB (printInlines pd pB (nextBoundary eB B) A st).1) eB B
            (printInlines pd pB (nextBoundary eB B) A st).2).1,
         (printInlines pd (afterBoundary pB (printInlines pd pB (nextBoundary eB B) A st).1) eB B
            (printInlines pd pB (nextBoundary eB B) A st).2).2) := by
  intro A
  induction A with
  | nil => intro _ pB eB st; simp [printInlines_nil', afterBoundary]
  | cons x A ih =>
    intro hA pB eB st
    obtain ⟨hx1, hx2⟩ := hA x List.mem_cons_self
    have ihA := ih (fun y hy => hA y (List.mem_cons_of_mem _ hy))
    rw [List.cons_append, printInlines_cons', printInlines_cons' pd pB (nextBoundary eB B) x A,
      nextBoundary_append, printInline_safe pd pB _ (safeAfterRef (A ++ B)) (safeAfterRef A) x st hx1 hx2, ihA]
    simp only [afterBoundary_append, List.append_assoc]

theorem plain_of_mix (c : List DocSpec.Inline) (h : mixItemsOK c = true) : ∀ x ∈ c, plainItem x := by
  revert h
  refine mixItems_ind (motive := fun c => ∀ x ∈ c, plainItem x) ?_ ?_ ?_ ?_ ?_ ?_ c
  · intro x hx; cases hx
  · intro w r _ _ ih x hx
    rcases List.mem_cons.1 hx with rfl | hx
    · exact ⟨rfl, fun _ _ _ e => by cases e⟩
    · exact ih x hx
  · intro w r _ _ ih x hx
    rcases List.mem_cons.1 hx with rfl | hx
    · exact ⟨rfl, fun _ _ _ e => by cases e⟩
    · exact ih x hx
  · intro w r _ _ _ ih x hx
    rcases List.mem_cons.1 hx with rfl | hx
    · exact ⟨rfl, fun _ _ _ e => by cases e⟩
    · exact ih x hx
  · intro w r _ _ ih x hx
    rcases List.mem_cons.1 hx with rfl | hx
    · exact ⟨rfl, fun _ _ _ e => by cases e⟩
    · exact ih x hx
  · intro w r _ _ ih x hx
    rcases List.mem_cons.1 hx with rfl | hx
    · exact ⟨rfl, fun _ _ _ e => by cases e⟩
    · exact ih x hx

/-! ### 3. the tail of a link: the style is drawn from the spelling -/

/-- the quote character of a title -/
def qChar (q : Nat) : Char := if q % 2 = 1 then '\'' else '"'

def dtitleOf (q : Nat) : Option Str → Option (Char × Str)
  | none => none
  | some t => some (qChar q, t)

theorem inlineTail_eq (d : Str) (t : Option Str) (q : Nat) :
    inlineTail false d t q = '(' :: (destSrc d (dtitleOf q t) ++ [')']) := by
  cases t with
  | none => simp [inlineTail, destSrc, dtitleOf, S]
  | some t =>
    by_cases hq : q % 2 = 1
    · simp [inlineTail, destSrc, dtitleOf, S, quoteTitle, qChar, hq]
    · have h2 : ¬ (q % 2 = 2) := by omega
      simp [inlineTail, destSrc, dtitleOf, S, quoteTitle, qChar, hq, h2]

theorem linkTail_eq (label : Option Str) (safe : Bool) (d : Str) (t : Option Str) (st : PSt) :
    linkTail label safe d t st =
      linkTailOf (linkStyle (draw st).1 label safe) (draw (draw st).2).1 label d t (draw (draw st).2).2 := rfl

/-- either the inline style without angle brackets — and then no definition is added —, or an angle bracket, or a new
    definition -/
theorem linkTail_cases (label : Option Str) (safe : Bool) (d : Str) (t : Option Str) (st : PSt) :
    ((linkTail label safe d t st).1 = inlineTail false d t (draw (draw st).2).1 ∧
        (linkTail label safe d t st).2.defs = st.defs) ∨
      ('<' ∈ (linkTail label safe d t st).1 ∧ (linkTail label safe d t st).2.defs = st.defs) ∨
      ∃ x, (linkTail label safe d t st).2.defs = st.defs ++ [x] := by
  rw [linkTail_eq]
  unfold linkTailOf
  split
  · exact Or.inl ⟨rfl, by simp [draw_defs]⟩
  · split
    · exact Or.inr (Or.inl ⟨by simp [inlineTail, S], by simp [draw_defs]⟩)
    · split
      · exact Or.inr (Or.inr ⟨defLine (S "r-" ++ natToDec (draw (draw st).2).2.next)
          ((draw (draw st).2).1 / 3 % 2 = 1) d t (draw (draw st).2).1, by simp [draw_defs]⟩)
      · exact Or.inr (Or.inr ⟨defLine (label.getD []) ((draw (draw st).2).1 / 3 % 2 = 1) d t (draw (draw st).2).1,
          by simp [draw_defs]⟩)

theorem printInline_link (pd : Option Char) (a b sf : Bool) (c : List DocSpec.Inline) (d : Str) (t : Option Str)
    (st : PSt) :
    printInline pd a b sf (.link c d t) st =
      ('[' :: (printInlines none true true c st).1 ++ [']'] ++
          (linkTail (plainLabel c) sf d t (printInlines none true true c st).2).1,
        (linkTail (plainLabel c) sf d t (printInlines none true true c st).2).2) := by
  rw [printInline]

/-! ### 4. a chunk of mixed content as printed -/

structure ChunkW (c : List DocSpec.Inline) (C : Chunk) : Prop where
  items : mixItemsOK c = true
  t0eq : C.t0 = (splitMix c).1
  smap : C.segs.map (fun s => (s.k.q, s.t)) = (splitMix c).2
  printed : ∀ s ∈ C.segs, KPrinted s.k
  ok : ChunkOK ESC C
  out : C.out = specInlines c

theorem ChunkW.plain {c : List DocSpec.Inline} {C : Chunk} (h : ChunkW c C) :
    ∀ ch, (ch ∈ C.t0 ∨ ∃ s ∈ C.segs, ch ∈ s.t) → DocParse2.plainCh ch := by
  obtain ⟨hc0, hcs⟩ := splitMix_chars c h.items
  intro ch hch
  rcases hch with hch | ⟨s, hs, hch⟩
  · rw [h.t0eq] at hch; exact hc0 ch hch
  · exact (hcs (s.k.q, s.t) (by rw [← h.smap]; exact List.mem_map.2 ⟨s, hs, rfl⟩)).1 ch hch

theorem ChunkW.q {c : List DocSpec.Inline} {C : Chunk} (h : ChunkW c C) : ∀ s ∈ C.segs, s.k.q.ok := by
  obtain ⟨_, hcs⟩ := splitMix_chars c h.items
  intro s hs
  exact (hcs (s.k.q, s.t) (by rw [← h.smap]; exact List.mem_map.2 ⟨s, hs, rfl⟩)).2

/-- **printed mixed content is a chunk** (as `chunk_of_content`, and: the definitions stay, the fences and delimiters
    are those the printer may choose) -/
theorem chunkW_of (c : List DocSpec.Inline) (h : mixOK c = true) (st : PSt) :
    ∃ (C : Chunk) (st' : PSt), printInlines none true true c st = (C.raw ESC, st') ∧ st'.defs = st.defs ∧
      ChunkW c C := by
  simp only [mixOK, Bool.and_eq_true] at h
  obtain ⟨⟨hitems, hadj⟩, hnobs⟩ := h
  obtain ⟨segs, st', hpr, hdf, hm, hds, hu⟩ := printInlines_mix c hitems true true st
  rw [pwOf_true] at hu
  obtain ⟨hc0, hcs⟩ := splitMix_chars c hitems
  have hmem : ∀ s ∈ segs, (s.k.q, s.t) ∈ (splitMix c).2 := fun s hs => by
    rw [← hm]; exact List.mem_map.2 ⟨s, hs, rfl⟩
  have hplain : ∀ ch, (ch ∈ (splitMix c).1 ∨ ∃ s ∈ segs, ch ∈ s.t) → DocParse2.plainCh ch := by
    intro ch hch
    rcases hch with hch | ⟨s, hs, hch⟩
    · exact hc0 ch hch
    · exact (hcs _ (hmem s hs)).1 ch hch
  have hq : ∀ s ∈ segs, s.k.q.ok := fun s hs => (hcs _ (hmem s hs)).2
  have hk := fun s hs => kindOK_of s.k (hq s hs) (hds s hs)
  have hj : junctionsOK (splitMix c).1 false segs := by
    apply junctions_of_q
    rw [hm]
    exact (splitMix_junctions c hitems hadj hnobs).1
  refine ⟨⟨(splitMix c).1, segs⟩, st', by simpa [Chunk.raw] using hpr, hdf,
    ⟨hitems, rfl, hm, hds, ⟨fun s hs => (hk s hs).1, hj, hu, ?_, fun s hs => (hk s hs).2.1⟩, ?_⟩⟩
  · intro ch hch
    obtain ⟨_, a2, a3, _, a5⟩ := plainCh_facts (hplain ch hch)
    exact ⟨a3, a2, a5⟩
  · have ha0 : '&' ∉ (splitMix c).1 := fun hmm => (plainCh_facts (hplain _ (Or.inl hmm))).2.2.1 rfl
    have has : ∀ s ∈ segs, '&' ∉ s.t ∧ s.k.noAmp := fun s hs =>
      ⟨fun hmm => (plainCh_facts (hplain _ (Or.inr ⟨s, hs, hmm⟩))).2.2.1 rfl, by
        have := hq s hs
        cases hk' : s.k with
        | code n b => trivial
        | em st d w =>
          rw [hk'] at this
          exact fun hmm => (wordCh_facts ((wordOK_of_label this).1.2 _ hmm)).2.2.2.2.2.2.1 rfl⟩
    show Chunk.out ⟨(splitMix c).1, segs⟩ = specInlines c
    rw [specInlines_splitMix c hitems, ← hm, ← outM_eq segs has, htmlEsc_eq_escCdata _ ha0]
    rfl

theorem okCh_bs : DocParse2.okCh '\\' := ⟨by decide, by decide, by decide, by decide, by decide, by decide⟩

theorem ChunkW.chars {c : List DocSpec.Inline} {C : Chunk} (h : ChunkW c C) :
    ∀ ch ∈ C.raw ESC, DocParse2.okCh ch := by
  have hpl : ∀ x, DocParse2.plainCh x → DocParse2.okCh x :=
    fun x hx => okCh_plain (plainCh_facts hx).1 (plainCh_facts hx).2.1
  have hesc : ∀ (t : Str), (∀ x ∈ t, DocParse2.plainCh x) → ∀ x ∈ escAll ESC t, DocParse2.okCh x := by
    intro t ht x hx
    rcases mem_escAll hx with rfl | hx
    · exact okCh_bs
    · exact hpl x (ht x hx)
  intro ch hch
  rcases List.mem_append.1 hch with hch | hch
  · exact hesc C.t0 (fun x hx => h.plain x (Or.inl hx)) ch hch
  · obtain ⟨s, hs, hc | hc⟩ := mem_rawM hch
    · exact src_chars s.k (h.q s hs) (h.printed s hs) ch hc
    · exact hesc s.t (fun x hx => h.plain x (Or.inr ⟨s, hs, hx⟩)) ch hc

theorem ChunkW.refs {c : List DocSpec.Inline} {C : Chunk} (h : ChunkW c C) (Z : Str) (hZ : refsClosed Z = true) :
    refsClosed (C.raw ESC ++ Z) = true := by
  have := refsClosed_rawM C.segs (fun s hs => ⟨h.q s hs, h.printed s hs, fun x hx => h.plain x (Or.inr ⟨s, hs, hx⟩)⟩)
    Z hZ
  have h0 := refsClosed_noamp_append _ _ (no_amp_escAll C.t0 (fun x hx => h.plain x (Or.inl hx))) this
  simpa [Chunk.raw, List.append_assoc] using h0

/-- the first printed character of the items -/
theorem ChunkW.head {c : List DocSpec.Inline} {C : Chunk} (h : ChunkW c C) (Z : Str)
    (hZ : ∀ ch, Z.head? = some ch → isDecimal ch = false ∧ ch ≠ '.') :
    ∀ ch, (rawM ESC C.segs ++ Z).head? = some ch → isDecimal ch = false ∧ ch ≠ '.' := by
  intro ch hch
  cases hsegs : C.segs with
  | nil => rw [hsegs] at hch; exact hZ ch (by simpa [rawM] using hch)
  | cons s r =>
    have hs : s ∈ C.segs := by rw [hsegs]; simp
    have hp := h.printed s hs
    rw [hsegs] at hch
    cases hk : s.k with
    | code n b =>
      rw [hk] at hp
      obtain ⟨j, hj⟩ : ∃ j, n = j + 1 := ⟨n - 1, by have := hp.1; omega⟩
      simp [rawM, hk, MKind.src, spanSrc, hj, ticks, List.replicate_succ] at hch
      subst hch; exact ⟨by decide, by decide⟩
    | em st d w =>
      rw [hk] at hp
      have hd : ch = d := by
        cases st <;> simpa [rawM, hk, MKind.src, emSrc, EmSeg.delim, List.replicate_succ] using hch.symm
      subst hd
      rcases hp with e | e <;> rw [e] <;> exact ⟨by decide, by decide⟩

theorem ChunkW.ol {c : List DocSpec.Inline} {C : Chunk} (h : ChunkW c C) (Z : Str)
    (hZ : ∀ ch, Z.head? = some ch → isDecimal ch = false ∧ ch ≠ '.') : olMarker (C.raw ESC ++ Z) = none := by
  have := no_dot_after_digits escOK_generated.dot C.t0 (rawM ESC C.segs ++ Z) (h.head Z hZ)
  have e : C.raw ESC ++ Z = escAll ESC C.t0 ++ (rawM ESC C.segs ++ Z) := by simp [Chunk.raw, List.append_assoc]
  rw [e]
  exact olMarker_none_of _ this

/-- content that starts like a paragraph gives a line that starts like paragraph text, whatever follows -/
theorem ChunkW.start {c : List DocSpec.Inline} {C : Chunk} (h : ChunkW c C) (hst : startsOk c = true) (Z : Str) :
    LineStart (C.raw ESC ++ Z) := by
  have hne : c ≠ [] := by intro e; subst e; simp [startsOk] at hst
  cases ht : C.t0 with
  | cons c0 r =>
    by_cases hc : c0 ∈ ESC
    · refine ⟨'\\', c0 :: (escAll ESC r ++ rawM ESC C.segs ++ Z), ?_, by decide, by decide, Or.inl (by decide)⟩
      simp [Chunk.raw, ht, escAll_cons_mem hc, List.append_assoc]
    · have hv : startsVisible C.t0 = true := by
        rw [h.t0eq]; exact splitMix_first c h.items hst (by rw [← h.t0eq, ht]; simp)
      rw [ht] at hv
      have hcs : isSpace c0 = false := by simpa [startsVisible] using hv
      have ha : isAlnumSp c0 = true := by
        rcases h.plain c0 (Or.inl (by rw [ht]; simp)) with h' | h'
        · exact h'
        · exact absurd h' hc
      refine ⟨c0, escAll ESC r ++ rawM ESC C.segs ++ Z, ?_, hcs, ?_, Or.inl (lineEsc_sub escOK_generated hc)⟩
      · simp [Chunk.raw, ht, escAll_cons_not_mem hc, List.append_assoc]
      · intro e; subst e; exact absurd ha (by decide)
  | nil =>
    have hsne : C.segs ≠ [] := by
      intro e
      exact hne ((splitMix_nil_iff c h.items).1 ⟨by rw [← h.t0eq]; exact ht, by rw [← h.smap, e]; rfl⟩)
    cases hsegs : C.segs with
    | nil => exact absurd hsegs hsne
    | cons s r =>
      have hs : s ∈ C.segs := by rw [hsegs]; simp
      have hp := h.printed s hs
      have hq := h.q s hs
      cases hk : s.k with
      | code n b =>
        rw [hk] at hp
        obtain ⟨j, hj⟩ : ∃ j, n = j + 1 := ⟨n - 1, by have := hp.1; omega⟩
        refine ⟨'`', ticks j ++ (padded b ++ ticks n) ++ (escAll ESC s.t ++ rawM ESC r) ++ Z, ?_, by decide, by decide,
          Or.inl (by decide)⟩
        simp [Chunk.raw, ht, hsegs, escAll, rawM, hk, MKind.src, spanSrc, hj, ticks, List.replicate_succ,
          List.append_assoc]
      | em st d w =>
        rw [hk] at hp hq
        obtain ⟨⟨hwne, hwall⟩, hhug⟩ := wordOK_of_label hq
        obtain ⟨x, w', rfl⟩ : ∃ x w', w = x :: w' := by
          cases w with
          | nil => exact absurd rfl hwne
          | cons x w' => exact ⟨x, w', rfl⟩
        have hxa := hwall x List.mem_cons_self
        have hxs : x ≠ ' ' := by
          have := hhug.1; intro e; subst e; simp at this
        have hxd : x ≠ d := by
          have := wordCh_facts hxa
          rcases hp with e | e <;> rw [e]
          · exact this.1
          · exact this.2.1
        have hdsp : isSpace d = false := by rcases hp with e | e <;> rw [e] <;> decide
        have hdeq : d ≠ '=' := by rcases hp with e | e <;> rw [e] <;> decide
        have hraw : C.raw ESC ++ Z = List.replicate (if st then 2 else 1) d ++
            x :: (w' ++ List.replicate (if st then 2 else 1) d ++ (escAll ESC s.t ++ rawM ESC r) ++ Z) := by
          simp [Chunk.raw, ht, hsegs, escAll, rawM, hk, MKind.src, emSrc, EmSeg.delim, List.append_assoc]
        have hem : EmStart (C.raw ESC ++ Z) :=
          ⟨d, if st then 2 else 1, x, _, hraw, hp, by cases st <;> simp, by cases st <;> simp, hxd, hxs⟩
        obtain ⟨tl, htl⟩ : ∃ tl, C.raw ESC ++ Z = d :: tl := by
          rw [hraw]; cases st <;> simp [List.replicate_succ]
        exact ⟨d, tl, htl, hdsp, hdeq, Or.inr hem⟩

/-! ### 5. no bracket in the printed text of a link that starts the paragraph -/

theorem alnumSp_nobr {x : Char} (h : isAlnumSp x = true) : x ≠ '[' ∧ x ≠ ']' := by
  constructor <;> (intro e; subst e; exact absurd h (by decide))

theorem splitMix_nobr (c : List DocSpec.Inline) (h : mixItemsOK c = true) :
    c.all noBracketItem = true →
      (∀ ch ∈ (splitMix c).1, ch ≠ '[' ∧ ch ≠ ']') ∧
      ∀ q ∈ (splitMix c).2, (∀ ch ∈ q.2, ch ≠ '[' ∧ ch ≠ ']') ∧ ∀ b, q.1 = .code b → ∀ ch ∈ b, ch ≠ '[' ∧ ch ≠ ']' := by
  revert h
  refine mixItems_ind (motive := fun c => c.all noBracketItem = true →
      (∀ ch ∈ (splitMix c).1, ch ≠ '[' ∧ ch ≠ ']') ∧
      ∀ q ∈ (splitMix c).2, (∀ ch ∈ q.2, ch ≠ '[' ∧ ch ≠ ']') ∧ ∀ b, q.1 = .code b → ∀ ch ∈ b, ch ≠ '[' ∧ ch ≠ ']')
    ?_ ?_ ?_ ?_ ?_ ?_ c
  · intro _; simp [splitMix]
  · intro w r hw _ ih hnb
    simp only [List.all_cons, Bool.and_eq_true] at hnb
    obtain ⟨i1, i2⟩ := ih hnb.2
    simp only [wfWords, Bool.and_eq_true, List.all_eq_true] at hw
    rw [splitMix_text]
    refine ⟨fun ch hch => ?_, i2⟩
    rcases List.mem_append.1 hch with hch | hch
    · exact alnumSp_nobr (hw.1.2 ch hch)
    · exact i1 ch hch
  · intro e r _ _ ih hnb
    simp only [List.all_cons, Bool.and_eq_true] at hnb
    obtain ⟨i1, i2⟩ := ih hnb.2
    have he : e ≠ '[' ∧ e ≠ ']' := by
      have := hnb.1
      simp only [noBracketItem, Bool.and_eq_true, bne_iff_ne, ne_eq] at this
      exact this
    rw [splitMix_esc]
    refine ⟨fun ch hch => ?_, i2⟩
    rcases List.mem_cons.1 hch with rfl | hch
    · exact he
    · exact i1 ch hch
  · intro b r _ _ _ ih hnb
    simp only [List.all_cons, Bool.and_eq_true] at hnb
    obtain ⟨i1, i2⟩ := ih hnb.2
    have hb : ∀ ch ∈ b, ch ≠ '[' ∧ ch ≠ ']' := by
      have := hnb.1
      simp only [noBracketItem, List.all_eq_true, Bool.and_eq_true, bne_iff_ne, ne_eq] at this
      exact this
    rw [splitMix_code]
    refine ⟨fun ch hch => (by cases hch), fun q hq => ?_⟩
    rcases List.mem_cons.1 hq with rfl | hq
    · exact ⟨i1, fun b' e ch hch => by cases e; exact hb ch hch⟩
    · exact i2 q hq
  · intro w r _ _ ih hnb
    simp only [List.all_cons, Bool.and_eq_true] at hnb
    obtain ⟨i1, i2⟩ := ih hnb.2
    rw [splitMix_em]
    refine ⟨fun ch hch => (by cases hch), fun q hq => ?_⟩
    rcases List.mem_cons.1 hq with rfl | hq
    · exact ⟨i1, fun b' e => by cases e⟩
    · exact i2 q hq
  · intro w r _ _ ih hnb
    simp only [List.all_cons, Bool.and_eq_true] at hnb
    obtain ⟨i1, i2⟩ := ih hnb.2
    rw [splitMix_strong]
    refine ⟨fun ch hch => (by cases hch), fun q hq => ?_⟩
    rcases List.mem_cons.1 hq with rfl | hq
    · exact ⟨i1, fun b' e => by cases e⟩
    · exact i2 q hq

theorem ChunkW.nobr {c : List DocSpec.Inline} {C : Chunk} (h : ChunkW c C) (hnb : c.all noBracketItem = true) :
    ∀ ch ∈ C.raw ESC, ch ≠ '[' ∧ ch ≠ ']' := by
  obtain ⟨h1, h2⟩ := splitMix_nobr c h.items hnb
  have hesc : ∀ (t : Str), (∀ x ∈ t, x ≠ '[' ∧ x ≠ ']') → ∀ x ∈ escAll ESC t, x ≠ '[' ∧ x ≠ ']' := by
    intro t ht x hx
    rcases mem_escAll hx with rfl | hx
    · exact ⟨by decide, by decide⟩
    · exact ht x hx
  intro ch hch
  rcases List.mem_append.1 hch with hch | hch
  · exact hesc C.t0 (fun x hx => h1 x (by rw [← h.t0eq]; exact hx)) ch hch
  · obtain ⟨s, hs, hc | hc⟩ := mem_rawM hch
    · have hq := h2 (s.k.q, s.t) (by rw [← h.smap]; exact List.mem_map.2 ⟨s, hs, rfl⟩)
      have hqok := h.q s hs
      have hp := h.printed s hs
      cases hk : s.k with
      | code n b =>
        rw [hk] at hc
        have hb := hq.2 b (by rw [hk]; rfl)
        simp only [MKind.src, spanSrc, ticks, padded, List.mem_append] at hc
        have hpad : ∀ x ∈ codePad b, x = ' ' := by
          intro x hx; unfold codePad at hx; split at hx <;> simp at hx; exact hx
        rcases hc with hc | ((hc | hc) | hc) | hc
        · rw [List.eq_of_mem_replicate hc]; exact ⟨by decide, by decide⟩
        · rw [hpad _ hc]; exact ⟨by decide, by decide⟩
        · exact hb ch hc
        · rw [hpad _ hc]; exact ⟨by decide, by decide⟩
        · rw [List.eq_of_mem_replicate hc]; exact ⟨by decide, by decide⟩
      | em st d w =>
        rw [hk] at hc hqok hp
        rcases mem_emSrc' hc with e | e
        · rcases hp with e' | e' <;> rw [e, e'] <;> exact ⟨by decide, by decide⟩
        · exact alnumSp_nobr ((wordOK_of_label hqok).1.2 _ e)
    · exact hesc s.t (fun x hx => (h2 (s.k.q, s.t) (by rw [← h.smap]; exact List.mem_map.2 ⟨s, hs, rfl⟩)).1 x hx) ch hc

theorem getElem?_mid (A : Str) (c : Char) (B : Str) (n : Nat) (h : n = A.length) : (A ++ c :: B)[n]? = some c := by
  subst h; simp

/-- a line that starts with `[`, text without brackets, `](`: not a reference definition -/
theorem refMatchAt_link (i : Nat) (hi : i ≤ 3) (T R : Str) (hT : ∀ ch ∈ T, ch ≠ '[' ∧ ch ≠ ']') :
    refMatchAt (spaces i ++ '[' :: (T ++ ']' :: '(' :: R)) 0 = none := by
  have h0 : countPrefix ' ' (some 3) (spaces i ++ '[' :: (T ++ ']' :: '(' :: R)) = i :=
    countPrefix_spaces i 3 '[' _ hi (by decide)
  have hlen : (spaces i).length = i := by simp [spaces]
  have hi0 : (spaces i ++ '[' :: (T ++ ']' :: '(' :: R))[i]? = some '[' := by
    rw [List.getElem?_append_right (by omega), hlen]; simp
  have hdrop : (spaces i ++ '[' :: (T ++ ']' :: '(' :: R)).drop (i + 1) = T ++ ']' :: '(' :: R := by
    have : spaces i ++ '[' :: (T ++ ']' :: '(' :: R) = (spaces i ++ ['[']) ++ (T ++ ']' :: '(' :: R) := by simp
    rw [this, List.drop_left' (by simp [hlen])]
  have hall : T.all (fun c => c != '[' && c != ']') = true := by
    rw [List.all_eq_true]; intro x hx
    have := hT x hx; simp [this.1, this.2]
  have hspan : spanLen (fun c => c != '[' && c != ']') (T ++ ']' :: '(' :: R) = T.length := by
    rw [spanLen_append_of_all hall]; simp [spanLen_cons]
  have hj : (spaces i ++ '[' :: (T ++ ']' :: '(' :: R))[i + 1 + T.length]? = some ']' := by
    have : spaces i ++ '[' :: (T ++ ']' :: '(' :: R) = (spaces i ++ '[' :: T) ++ ']' :: '(' :: R := by simp
    rw [this]
    exact getElem?_mid _ _ _ _ (by simp [spaces]; omega)
  have hj1 : (spaces i ++ '[' :: (T ++ ']' :: '(' :: R))[i + 1 + T.length + 1]? = some '(' := by
    have : spaces i ++ '[' :: (T ++ ']' :: '(' :: R) = (spaces i ++ '[' :: T ++ [']']) ++ '(' :: R := by simp
    rw [this]
    exact getElem?_mid _ _ _ _ (by simp [spaces]; omega)
  simp only [refMatchAt, List.drop_zero, Nat.zero_add, h0, hi0, hdrop, hspan, hj, hj1]
  simp

/-! ### 6. the printed form of content with links -/

/-- a character that attribute values keep as it is -/
def AttrPlain (c : Char) : Prop := c ≠ '&' ∧ c ≠ '<' ∧ c ≠ '>' ∧ c ≠ '"'

/-- what the domain says of a link and the content after it -/
structure LinkOK (l : LinkIt) : Prop where
  text : mixOK l.text = true
  starts : startsOk l.text = true
  after : mixOK l.after = true
  dest : ∀ q, DestOK l.dest (dtitleOf q l.title)
  plainD : ∀ c ∈ l.dest, AttrPlain c
  plainT : ∀ t, l.title = some t → ∀ c ∈ t, AttrPlain c

/-- a link as printed in the inline style, with the content after it -/
structure LinkW (l : LinkIt) (u : IUse) : Prop where
  T : ChunkW l.text u.T
  C : ChunkW l.after u.C
  starts : startsOk l.text = true
  url : u.url = l.dest
  dtitle : ∃ q, u.dtitle = dtitleOf q l.title
  dest : DestOK u.url u.dtitle
  plainD : ∀ c ∈ l.dest, AttrPlain c
  plainT : ∀ t, l.title = some t → ∀ c ∈ t, AttrPlain c

def LinksW : List LinkIt → List IUse → Prop
  | [], [] => True
  | l :: ls, u :: us => LinkW l u ∧ LinksW ls us
  | _, _ => False

theorem linkTail_defs (label : Option Str) (safe : Bool) (d : Str) (t : Option Str) (st : PSt) :
    ∃ e, (linkTail label safe d t st).2.defs = st.defs ++ e := by
  rcases linkTail_cases label safe d t st with h | h | ⟨x, h⟩
  · exact ⟨[], by rw [h.2]; simp⟩
  · exact ⟨[], by rw [h.2]; simp⟩
  · exact ⟨[x], h⟩

/-- the parts of the printed form: the content, `[`, the link text, `]`, the tail, the rest -/
theorem printInlines_joinLinks_cons (A : List DocSpec.Inline) (hA : mixItemsOK A = true) (l : LinkIt)
    (r : List LinkIt) (pB : Bool) (st : PSt) (sa : Str) (st1 : PSt)
    (ha : printInlines none pB true A st = (sa, st1)) (sT : Str) (st2 : PSt)
    (hT : printInlines none true true l.text st1 = (sT, st2)) (tl : Str) (st3 : PSt)
    (htl : linkTail (plainLabel l.text) (safeAfterRef (joinLinks l.after r)) l.dest l.title st2 = (tl, st3))
    (sr : Str) (st4 : PSt)
    (hr : printInlines none (afterBoundary (afterBoundary pB sa) ('[' :: sT ++ [']'] ++ tl)) true
      (joinLinks l.after r) st3 = (sr, st4)) :
    printInlines none pB true (joinLinks A (l :: r)) st = (sa ++ (('[' :: sT ++ [']'] ++ tl) ++ sr), st4) := by
  have hnb : nextBoundary true (DocSpec.Inline.link l.text l.dest l.title :: joinLinks l.after r) = true := rfl
  rw [joinLinks, printInlines_append_plain none _ A (plain_of_mix A hA), hnb, ha]
  simp only [printInlines_cons', printInline_link, hT, htl, hr]

/-- the definitions only grow, whatever the styles -/
theorem printLinks_defs : ∀ (ls : List LinkIt) (A : List DocSpec.Inline) (pB : Bool) (st : PSt),
    mixItemsOK A = true → (∀ l ∈ ls, LinkOK l) →
    ∃ e, (printInlines none pB true (joinLinks A ls) st).2.defs = st.defs ++ e := by
  intro ls
  induction ls with
  | nil =>
    intro A pB st hA _
    obtain ⟨segs, st', hp, hd, _⟩ := printInlines_mix A hA pB true st
    exact ⟨[], by simp [joinLinks, hp, hd]⟩
  | cons l r ih =>
    intro A pB st hA hls
    have hl := hls l List.mem_cons_self
    have hTi : mixItemsOK l.text = true := by
      have := hl.text; simp only [mixOK, Bool.and_eq_true] at this; exact this.1.1
    have hCi : mixItemsOK l.after = true := by
      have := hl.after; simp only [mixOK, Bool.and_eq_true] at this; exact this.1.1
    obtain ⟨segs, st1, hp, hd, _⟩ := printInlines_mix A hA pB true st
    obtain ⟨segsT, st2, hpT, hdT, _⟩ := printInlines_mix l.text hTi true true st1
    obtain ⟨e1, he1⟩ := linkTail_defs (plainLabel l.text) (safeAfterRef (joinLinks l.after r)) l.dest l.title st2
    generalize htl : linkTail (plainLabel l.text) (safeAfterRef (joinLinks l.after r)) l.dest l.title st2 = tlp at he1
    obtain ⟨tl, st3⟩ := tlp
    obtain ⟨e2, he2⟩ := ih l.after
      (afterBoundary (afterBoundary pB (escAll ESC (splitMix A).1 ++ rawM ESC segs))
        ('[' :: (escAll ESC (splitMix l.text).1 ++ rawM ESC segsT) ++ [']'] ++ tl)) st3 hCi
      (fun x hx => hls x (List.mem_cons_of_mem _ hx))
    generalize hr : printInlines none (afterBoundary (afterBoundary pB (escAll ESC (splitMix A).1 ++ rawM ESC segs))
        ('[' :: (escAll ESC (splitMix l.text).1 ++ rawM ESC segsT) ++ [']'] ++ tl)) true (joinLinks l.after r) st3 =
      rp at he2
    obtain ⟨sr, st4⟩ := rp
    rw [printInlines_joinLinks_cons A hA l r pB st _ _ hp _ _ hpT _ _ htl _ _ hr]
    simp only at he1 he2 ⊢
    exact ⟨e1 ++ e2, by rw [he2, he1, hdT, hd, List.append_assoc]⟩

theorem afterBoundary_paren (b : Bool) (X : Str) : afterBoundary b (X ++ [')']) = true := by
  simp [afterBoundary, isWordCh, isAsciiAlnum, isAsciiAlpha, isAsciiLower, isAsciiUpper, isAsciiDigit]

/-- **the printed form of content with links.**  The definitions grow by `extra`; when they do not grow and no `<`
    is printed, every link is printed in the inline style: the line is a chunk followed by the uses
    `[text](dest "title")content`. -/
theorem printLinks_rel : ∀ (ls : List LinkIt) (A : List DocSpec.Inline) (st : PSt), mixOK A = true →
    (∀ l ∈ ls, LinkOK l) →
    ∃ (s : Str) (st' : PSt) (extra : List Str), printInlines none true true (joinLinks A ls) st = (s, st') ∧
      st'.defs = st.defs ++ extra ∧
      (extra = [] → '<' ∉ s → ∃ (C0 : Chunk) (is : List IUse),
        (∀ m n0, s = C0.raw ESC ++ usStageI ESC 0 false m n0 is) ∧ ChunkW A C0 ∧ LinksW ls is) := by
  intro ls
  induction ls with
  | nil =>
    intro A st hA _
    obtain ⟨C0, st', hp, hd, hW⟩ := chunkW_of A hA st
    exact ⟨C0.raw ESC, st', [], by simpa [joinLinks] using hp, by simp [hd],
      fun _ _ => ⟨C0, [], fun _ _ => by simp [usStageI], hW, trivial⟩⟩
  | cons l r ih =>
    intro A st hA hls
    have hl := hls l List.mem_cons_self
    have hAi : mixItemsOK A = true := by
      have := hA; simp only [mixOK, Bool.and_eq_true] at this; exact this.1.1
    have hCi : mixItemsOK l.after = true := by
      have := hl.after; simp only [mixOK, Bool.and_eq_true] at this; exact this.1.1
    obtain ⟨C0, st1, hp, hd, hW⟩ := chunkW_of A hA st
    obtain ⟨T, st2, hpT, hdT, hWT⟩ := chunkW_of l.text hl.text st1
    generalize htl : linkTail (plainLabel l.text) (safeAfterRef (joinLinks l.after r)) l.dest l.title st2 = tlp
    obtain ⟨tl, st3⟩ := tlp
    have hcases := linkTail_cases (plainLabel l.text) (safeAfterRef (joinLinks l.after r)) l.dest l.title st2
    rw [htl] at hcases
    simp only at hcases
    rcases hcases with ⟨htail, hd3⟩ | ⟨hlt, _⟩ | ⟨x, hx⟩
    · -- the inline style
      have hab : afterBoundary (afterBoundary true (C0.raw ESC)) ('[' :: T.raw ESC ++ [']'] ++ tl) = true := by
        rw [htail, inlineTail_eq]
        have : '[' :: T.raw ESC ++ [']'] ++ '(' :: (destSrc l.dest (dtitleOf (draw (draw st2).2).1 l.title) ++ [')']) =
            ('[' :: T.raw ESC ++ [']'] ++ '(' :: destSrc l.dest (dtitleOf (draw (draw st2).2).1 l.title)) ++ [')'] := by
          simp [List.append_assoc]
        rw [this, afterBoundary_paren]
      obtain ⟨sr, st4, extra, hpr, hdr, hrest⟩ := ih l.after st3 hl.after (fun x hx => hls x (List.mem_cons_of_mem _ hx))
      refine ⟨C0.raw ESC ++ (('[' :: T.raw ESC ++ [']'] ++ tl) ++ sr), st4, extra,
        printInlines_joinLinks_cons A hAi l r true st _ _ hp _ _ hpT _ _ htl _ _ (by rw [hab]; exact hpr),
        by rw [hdr, hd3, hdT, hd], ?_⟩
      intro hex hlts
      have hltr : '<' ∉ sr := fun hm => hlts (by simp [hm])
      obtain ⟨Cr, isr, hsr, hWr, hLr⟩ := hrest hex hltr
      refine ⟨C0, ⟨T, l.dest, dtitleOf (draw (draw st2).2).1 l.title, Cr⟩ :: isr, ?_, hW,
        ⟨⟨hWT, hWr, hl.starts, rfl, ⟨_, rfl⟩, hl.dest _, hl.plainD, hl.plainT⟩, hLr⟩⟩
      intro m n0
      rw [htail, inlineTail_eq, hsr (m + T.escs ESC + Cr.escs ESC) (n0 + T.cnt 0 + Cr.cnt 0)]
      simp [usStageI, Chunk.stage_raw, List.append_assoc]
    · -- angle brackets
      obtain ⟨e1, he1⟩ := linkTail_defs (plainLabel l.text) (safeAfterRef (joinLinks l.after r)) l.dest l.title st2
      rw [htl] at he1
      obtain ⟨e2, he2⟩ := printLinks_defs r l.after
        (afterBoundary (afterBoundary true (C0.raw ESC)) ('[' :: T.raw ESC ++ [']'] ++ tl)) st3 hCi
        (fun x hx => hls x (List.mem_cons_of_mem _ hx))
      refine ⟨_, _, e1 ++ e2,
        printInlines_joinLinks_cons A hAi l r true st _ _ hp _ _ hpT _ _ htl _ _ rfl,
        by rw [he2, he1, hdT, hd, List.append_assoc], ?_⟩
      intro _ hlts
      exact absurd (by simp [hlt]) hlts
    · -- a reference style
      obtain ⟨e2, he2⟩ := printLinks_defs r l.after
        (afterBoundary (afterBoundary true (C0.raw ESC)) ('[' :: T.raw ESC ++ [']'] ++ tl)) st3 hCi
        (fun x hx => hls x (List.mem_cons_of_mem _ hx))
      refine ⟨_, _, [x] ++ e2,
        printInlines_joinLinks_cons A hAi l r true st _ _ hp _ _ hpT _ _ htl _ _ rfl,
        by rw [he2, hx, hdT, hd, List.append_assoc], ?_⟩
      intro hex _
      simp at hex

/-! ### 7. the paragraph as an element: inline processor, prettify, unescape, serializer -/

def lKids (esc : List Char) (C0 : Chunk) (is : List IUse) : List Node :=
  C0.segs.map (tailedM esc) ++ usKids esc (is.map IUse.toR)

def lOut (C0 : Chunk) (is : List IUse) : Str :=
  "<p>".toList ++ (C0.out ++ usOut (is.map IUse.toR)) ++ "</p>".toList

def lElem (esc : List Char) (C0 : Chunk) (is : List IUse) : Elem :=
  ⟨Block.mkText "p" (lineRawI esc C0 is), RefText.pMid esc C0 (is.map IUse.toR),
   fun n => lineStash esc n C0 (is.map IUse.toR),
   fun i => ((List.range (lKids esc C0 is).length).map (fun k => [i, k])).reverse,
   RefText.pPretty esc C0 (is.map IUse.toR), RefText.pFin C0 (is.map IUse.toR), lOut C0 is⟩

theorem belowKids_childless (L : List Node) (h : ∀ c ∈ L, c.children = []) : belowKids L = L.length := by
  induction L with
  | nil => rfl
  | cons c r ih =>
    have hc : below c = 0 := by rw [below_eq, h c List.mem_cons_self]; rfl
    rw [belowKids, hc, ih (fun x hx => h x (List.mem_cons_of_mem _ hx)), List.length_cons]; omega

theorem below_tailedM (esc : List Char) (s : MSeg) : below (tailedM esc s) = 0 := by
  rw [below_eq, tailedM_childless]; rfl

theorem weight_tailedM (esc : List Char) (segs : List MSeg) :
    ((segs.map (tailedM esc)).map (fun c => 1 + below c)).sum = segs.length := by
  rw [sum_childless _ (fun c hc => by
    obtain ⟨s, _, rfl⟩ := List.mem_map.1 hc; exact tailedM_childless esc s)]
  simp

theorem weight_usKids (esc : List Char) (us : List RUse) (h : ∀ u ∈ us, MSegsOK u.T.segs ∧ MSegsOK u.C.segs) :
    ((usKids esc us).map (fun c => 1 + below c)).sum =
      usCnt0 us + usLinkLen us + usOutCnt 1 us + usOutCnt 2 us := by
  induction us with
  | nil => rfl
  | cons u r ih =>
    have ihr := ih (fun x hx => h x (List.mem_cons_of_mem _ hx))
    obtain ⟨hT, hC⟩ := h u List.mem_cons_self
    have h1 := nodes_length u.T.segs hT
    have h2 := nodes_length u.C.segs hC
    have ha : below (aKid esc u) = u.T.segs.length := by
      rw [below_eq]
      show belowKids (u.T.segs.map (tailedM esc)) = _
      rw [belowKids_childless _ (fun c hc => by
        obtain ⟨s, _, rfl⟩ := List.mem_map.1 hc; exact tailedM_childless esc s)]
      simp
    rw [usKids_cons]
    simp only [List.map_cons, List.map_append, List.sum_cons, List.sum_append, ha, weight_tailedM, ihr, usCnt0,
      usLinkLen, usOutCnt, Chunk.cnt]
    omega

theorem lElem_ok (cfg : Inline.Cfg) (hE : EscOK cfg.esc) (hrb : ']' ∈ cfg.esc) (C0 : Chunk) (is : List IUse)
    (h0 : ChunkOK cfg.esc C0) (hus : ∀ u ∈ is, IUseOK cfg.esc u) (hvis : ∀ u ∈ is, u.T.Vis) (hne : is ≠ []) :
    ElemOK cfg (lElem cfg.esc C0 is) := by
  have hch := useCh_map hus
  have hattr := useAttrOK_map hus
  have hlenraw : C0.escs cfg.esc + C0.cnt 0 + C0.cnt 1 + C0.cnt 2 + (usEscs cfg.esc (is.map IUse.toR) +
      usCnt0 (is.map IUse.toR) + usLinkLen (is.map IUse.toR) + usOutCnt 1 (is.map IUse.toR) +
      usOutCnt 2 (is.map IUse.toR)) ≤ (lineRawI cfg.esc C0 is).length := by
    have h1 := chunk_raw_length cfg.esc C0 h0.ok
    have h2 := usRawI_length is hus 0 0
    rw [lineRawI, List.length_append]; omega
  have hsize : Inline.size (lElem cfg.esc C0 is).src = 1 + (lineRawI cfg.esc C0 is).length := by
    simp [lElem, Block.mkText, Node.el, Inline.size, Inline.sizeList]
  have hw : ((lKids cfg.esc C0 is).map (fun c => 1 + below c)).sum ≤ (lineRawI cfg.esc C0 is).length := by
    have h1 := weight_usKids cfg.esc (is.map IUse.toR) (fun u hu => ⟨(hch u hu).text.ok, (hch u hu).after.ok⟩)
    have h2 := nodes_length C0.segs h0.ok
    simp only [lKids, List.map_append, List.sum_append, weight_tailedM, h1]
    simp only [Chunk.cnt] at hlenraw
    omega
  have hklen : (lKids cfg.esc C0 is).length ≤ (lineRawI cfg.esc C0 is).length := by
    have h1 := usKids_length cfg.esc (is.map IUse.toR) (fun u hu => (hch u hu).after.ok)
    have h2 := nodes_length C0.segs h0.ok
    simp only [lKids, List.length_append, List.length_map]
    simp only [Chunk.cnt] at hlenraw
    omega
  refine ⟨fun v => visitChild_lineI cfg hE hrb C0 is h0 hus hvis hne v, fun i => ?_, fun i => ?_, fun i q hq => ?_,
    by show TreeProc.isBlockLevel TreeProc.defaultBlockLevel (.name "p".toList) = true; decide,
    pretty_pMid cfg.esc C0 (is.map IUse.toR), unesc_pPrettyG C0 (is.map IUse.toR) h0 hch hattr,
    ser_pFinG C0 (is.map IUse.toR) h0 hch, ?_⟩
  · rw [hsize]
    simp only [lElem, List.length_reverse, List.length_map, List.length_range]
    omega
  · rw [hsize]
    have := mStack_range_all (RefText.pMid cfg.esc C0 (is.map IUse.toR)) i
    have e1 : (RefText.pMid cfg.esc C0 (is.map IUse.toR)).children = lKids cfg.esc C0 is := rfl
    rw [e1] at this
    show mStack (RefText.pMid cfg.esc C0 (is.map IUse.toR)) _ ≤ _
    simp only [lElem]
    rw [this]
    omega
  · simp only [lElem, List.mem_reverse, List.mem_map, List.mem_range] at hq
    obtain ⟨k, hk, rfl⟩ := hq
    obtain ⟨kid, hkid⟩ : ∃ kid, (lKids cfg.esc C0 is)[k]? = some kid := by
      cases hx : (lKids cfg.esc C0 is)[k]? with
      | none => rw [List.getElem?_eq_none_iff] at hx; omega
      | some kid => exact ⟨kid, rfl⟩
    have hmem : kid ∈ C0.segs.map (tailedM cfg.esc) ++ usKids cfg.esc (is.map IUse.toR) := List.mem_of_getElem? hkid
    obtain ⟨hs1, hs2⟩ := kids_softG hE C0 (is.map IUse.toR) hch kid hmem
    refine ⟨[k], kid, rfl, ?_, ?_⟩
    · simp only [lElem, RefText.pMid, getAt]
      have : (C0.segs.map (tailedM cfg.esc) ++ usKids cfg.esc (is.map IUse.toR))[k]? = some kid := hkid
      rw [this]
    · apply stillBelow_of_childless cfg _ kid
      · rw [hsize]; omega
      · intro c hc
        exact ⟨fun v => visitChild_soft cfg c v (hs1 c hc).1, (hs1 c hc).2⟩
  · refine ⟨?_, rfl, ?_⟩
    · intro hm
      simp only [lElem, lOut, List.mem_append] at hm
      rcases hm with (hm | hm | hm) | hm
      · revert hm; decide
      · exact stx_not_mem_chunkOut C0 h0 hm
      · exact stx_not_mem_usOutG (cfg := cfg) (is.map IUse.toR) hch hattr hm
      · revert hm; decide
    · have e : (lElem cfg.esc C0 is).out =
          ("<p>".toList ++ (C0.out ++ usOut (is.map IUse.toR)) ++ ['<', '/', 'p']) ++ ['>'] := by
        simp [lElem, lOut]
      rw [e, List.getLast?_append]; rfl

/-! ### 8. the block stage on a line that starts with a link -/

theorem lineStartsFrom_noNl (s : Str) (h : '\n' ∉ s) (i : Nat) : lineStartsFrom i s = [] := by
  induction s generalizing i with
  | nil => rfl
  | cons c r ih =>
    have hc : c ≠ '\n' := fun e => h (e ▸ List.mem_cons_self)
    simp only [lineStartsFrom, hc, if_false]
    exact ih (fun hm => h (List.mem_cons_of_mem _ hm)) _

/-- **A paragraph that starts with a link**: `[`, a text without brackets, `](`, and so on to the end of the line — no
    processor before the paragraph processor takes it, in particular it is not a reference definition -/
theorem produces_para_bracket (i : Nat) (hi3 : i ≤ 3) (T R : Str) (hT : ∀ ch ∈ T, ch ≠ '[' ∧ ch ≠ ']')
    (hnl : '\n' ∉ '[' :: (T ++ ']' :: '(' :: R)) (hol : olMarker ('[' :: (T ++ ']' :: '(' :: R)) = none) :
    Produces 4 (spaces i ++ '[' :: (T ++ ']' :: '(' :: R))
      { tag := .name "p".toList, text := some ('[' :: (T ++ ']' :: '(' :: R)) } := by
  intro pb refs parent rest
  generalize htail : T ++ ']' :: '(' :: R = tail at *
  have hnlb : '\n' ∉ spaces i ++ '[' :: tail := by
    intro hm; rcases List.mem_append.1 hm with hm | hm
    · exact absurd (List.eq_of_mem_replicate hm) (by decide)
    · exact hnl hm
  have hl : LineStartsOk ['#', '-', '_', '*', '+', '>'] (spaces i ++ '[' :: tail) = true := by
    have h0 : startOk ['#', '-', '_', '*', '+', '>'] (spaces i ++ '[' :: tail) = true := by
      rw [startOk_spaces]; simp [startOk]
    simp only [LineStartsOk, h0, startsOkNl_of_no_nl _ _ hnlb, Bool.and_self]
  have e1 := hashSearch_eq_none (esc := ['#', '-', '_', '*', '+', '>']) (by decide) _ hl
  have e2 := hrSearch_eq_none (esc := ['#', '-', '_', '*', '+', '>']) (by decide) (by decide) (by decide) _ hl
  have e3 := quoteSearch_eq_none (esc := ['#', '-', '_', '*', '+', '>']) (by decide) _ hl
  have e5 : refSearch (spaces i ++ '[' :: tail) = none := by
    unfold refSearch
    rw [lineStartsFrom_noNl _ hnlb]
    have := refMatchAt_link i hi3 T R hT
    rw [htail] at this
    simp [this]
  have e4 : ∀ ol ul, listItemMatch 4 ol ul (spaces i ++ '[' :: tail) = none := by
    intro ol ul
    have h0 : countPrefix ' ' (some (4 - 1)) (spaces i ++ '[' :: tail) = i :=
      countPrefix_spaces i _ '[' tail (by omega) (by decide)
    have hd : (spaces i ++ '[' :: tail).drop i = '[' :: tail := by
      rw [List.drop_left' (by simp [spaces])]
    have hu : ulMarker ('[' :: tail) = none := by simp [ulMarker]
    simp only [listItemMatch, h0, hd, hol, hu]
    cases ol <;> cases ul <;> rfl
  have hlstrip := lstrip_indent i _ '[' tail rfl (by decide)
  have hblank : isBlank (spaces i ++ '[' :: tail) = false := by
    cases hb : isBlank (spaces i ++ '[' :: tail) with
    | false => rfl
    | true =>
      rw [isBlank_iff] at hb
      have := hb '[' (by simp)
      revert this; decide
  generalize hb : spaces i ++ '[' :: tail = b at *
  have h1 : b.isEmpty = false := by rw [← hb]; cases i <;> simp [spaces, List.replicate_succ]
  have h2 : startsWith b ['\n'] = false := by
    rw [← hb]; cases i <;> simp [spaces, List.replicate_succ]
  have h3 : startsWith b (spaces 4) = false := by
    rw [← hb]; exact startsWith_spaces_false _ 4 '[' _ (by omega) (by decide)
  unfold dispatch
  simp only [h1, h2, h3, Bool.or_self, Bool.false_eq_true, if_false, Bool.false_and, e4, Option.isSome_none,
    e1, setextMatch_line b hnlb, e2, e3, e5]
  simp [paraP, hblank, hlstrip, isstate, mkText, Node.el]

/-! ### 9. the printed line: characters, references, start -/

theorem linksW_cons {l : LinkIt} {ls : List LinkIt} {u : IUse} {us : List IUse} :
    LinksW (l :: ls) (u :: us) = (LinkW l u ∧ LinksW ls us) := rfl

theorem linksW_length : ∀ (ls : List LinkIt) (is : List IUse), LinksW ls is → is.length = ls.length := by
  intro ls
  induction ls with
  | nil => intro is h; cases is with
    | nil => rfl
    | cons _ _ => exact absurd h (by simp [LinksW])
  | cons l r ih => intro is h; cases is with
    | nil => exact absurd h (by simp [LinksW])
    | cons u us => rw [linksW_cons] at h; simp [ih us h.2]

theorem linksW_mem : ∀ (ls : List LinkIt) (is : List IUse), LinksW ls is → ∀ u ∈ is, ∃ l ∈ ls, LinkW l u := by
  intro ls
  induction ls with
  | nil => intro is h u hu; cases is with
    | nil => cases hu
    | cons _ _ => exact absurd h (by simp [LinksW])
  | cons l r ih => intro is h u hu; cases is with
    | nil => cases hu
    | cons a us =>
      rw [linksW_cons] at h
      rcases List.mem_cons.1 hu with rfl | hu
      · exact ⟨l, List.mem_cons_self, h.1⟩
      · obtain ⟨l', hl', hw⟩ := ih us h.2 u hu
        exact ⟨l', List.mem_cons_of_mem _ hl', hw⟩

theorem okCh_of_ne {c : Char} (h1 : c ≠ '\n') (h2 : c ≠ Inline.STX) (h3 : c ≠ Inline.ETX) (h4 : isSpace c = false ∨ c = ' ')
    (h5 : c ≠ '<') : DocParse2.okCh c := by
  refine ⟨h1, h2, h3, ?_, ?_, h5⟩
  · intro e; subst e; rcases h4 with h | h
    · exact absurd h (by decide)
    · exact absurd h (by decide)
  · intro e; subst e; rcases h4 with h | h
    · exact absurd h (by decide)
    · exact absurd h (by decide)

theorem destSrc_chars {url : Str} {title : Option (Char × Str)} (h : DestOK url title) :
    ∀ c ∈ destSrc url title, c ≠ '<' → DocParse2.okCh c := by
  obtain ⟨hu, _, _, htl⟩ := h
  have hd : ∀ c, NoCtl.destChar c = true → c ≠ '\n' ∧ c ≠ Inline.STX ∧ c ≠ Inline.ETX := by
    intro c hc
    have hp := NoCtl.destChar_props hc
    exact ⟨hp.2.2.2.2.2.2.1, hp.2.2.2.2.1, hp.2.2.2.2.2.1⟩
  have hsp : DocParse2.okCh ' ' := ⟨by decide, by decide, by decide, by decide, by decide, by decide⟩
  intro c hc hlt
  simp only [destSrc, List.mem_append] at hc
  rcases hc with hc | hc
  · obtain ⟨a1, a2, _⟩ := urlCh_facts (hu c hc)
    obtain ⟨b1, b2, b3⟩ := hd c a1
    exact okCh_of_ne b1 b2 b3 (Or.inl a2) hlt
  · cases title with
    | none => simp at hc
    | some qt =>
      obtain ⟨q, t⟩ := qt
      obtain ⟨hq, ht, _⟩ := htl
      simp only [List.mem_cons, List.mem_append, List.not_mem_nil, or_false] at hc
      have hqok : DocParse2.okCh q := by
        rcases hq with e | e <;> rw [e] <;> exact ⟨by decide, by decide, by decide, by decide, by decide, by decide⟩
      rcases hc with rfl | rfl | hc | rfl
      · exact hsp
      · exact hqok
      · have hf := titleCh_facts (ht c hc)
        obtain ⟨b1, b2, b3⟩ := hd c hf.1
        have hsp' : isSpace c = false ∨ c = ' ' := by
          cases hs : isSpace c with
          | false => exact Or.inl rfl
          | true => exact Or.inr (hf.2.1 hs)
        exact okCh_of_ne b1 b2 b3 hsp' hlt
      · exact hqok

theorem LinkW.amp {l : LinkIt} {u : IUse} (h : LinkW l u) : '&' ∉ destSrc u.url u.dtitle := by
  obtain ⟨q, hq⟩ := h.dtitle
  rw [hq, h.url]
  intro hm
  simp only [destSrc, List.mem_append] at hm
  rcases hm with hm | hm
  · exact (h.plainD _ hm).1 rfl
  · cases ht : l.title with
    | none => simp [ht, dtitleOf] at hm
    | some t =>
      simp only [ht, dtitleOf, List.mem_cons, List.mem_append, List.not_mem_nil, or_false] at hm
      have hqc : ('&' : Char) ≠ qChar q := by unfold qChar; split <;> decide
      rcases hm with hm | hm | hm | hm
      · exact absurd hm (by decide)
      · exact hqc hm
      · exact (h.plainT t ht _ hm).1 rfl
      · exact hqc hm

theorem okCh_lit (c : Char) (h : c = '[' ∨ c = ']' ∨ c = '(' ∨ c = ')') : DocParse2.okCh c := by
  rcases h with e | e | e | e <;> rw [e] <;> exact ⟨by decide, by decide, by decide, by decide, by decide, by decide⟩

/-- the characters of the uses, and their numeric references -/
theorem uses_chars : ∀ (ls : List LinkIt) (is : List IUse), LinksW ls is → ∀ (m n0 : Nat),
    ('<' ∉ usStageI ESC 0 false m n0 is → ∀ ch ∈ usStageI ESC 0 false m n0 is, DocParse2.okCh ch) ∧
      refsClosed (usStageI ESC 0 false m n0 is) = true := by
  intro ls
  induction ls with
  | nil =>
    intro is h m n0
    cases is with
    | nil => exact ⟨fun _ ch hch => by simp [usStageI] at hch, rfl⟩
    | cons _ _ => exact absurd h (by simp [LinksW])
  | cons l r ih =>
    intro is h m n0
    cases is with
    | nil => exact absurd h (by simp [LinksW])
    | cons u us =>
      rw [linksW_cons] at h
      obtain ⟨hu, hr⟩ := h
      obtain ⟨i1, i2⟩ := ih us hr (m + u.T.escs ESC + u.C.escs ESC) (n0 + u.T.cnt 0 + u.C.cnt 0)
      have e : usStageI ESC 0 false m n0 (u :: us) =
          ['['] ++ (u.T.raw ESC ++ ([']', '('] ++ (destSrc u.url u.dtitle ++ ([')'] ++ (u.C.raw ESC ++
            usStageI ESC 0 false (m + u.T.escs ESC + u.C.escs ESC) (n0 + u.T.cnt 0 + u.C.cnt 0) us))))) := by
        simp [usStageI, Chunk.stage_raw]
      rw [e]
      constructor
      · intro hlt ch hch
        simp only [List.mem_append, List.mem_cons, List.not_mem_nil, or_false] at hch hlt
        rcases hch with rfl | hch | (rfl | rfl) | hch | rfl | hch | hch
        · exact okCh_lit _ (Or.inl rfl)
        · exact hu.T.chars ch hch
        · exact okCh_lit _ (Or.inr (Or.inl rfl))
        · exact okCh_lit _ (Or.inr (Or.inr (Or.inl rfl)))
        · exact destSrc_chars hu.dest ch hch (fun e => hlt (by subst e; simp [hch]))
        · exact okCh_lit _ (Or.inr (Or.inr (Or.inr rfl)))
        · exact hu.C.chars ch hch
        · exact i1 (fun hm => hlt (by simp [hm])) ch hch
      · apply refsClosed_noamp_append _ _ (by decide)
        apply hu.T.refs
        apply refsClosed_noamp_append _ _ (by decide)
        apply refsClosed_noamp_append _ _ hu.amp
        apply refsClosed_noamp_append _ _ (by decide)
        exact hu.C.refs _ i2

theorem chunkW_nil {C : Chunk} (h : ChunkW [] C) : C.raw ESC = [] := by
  have h1 := h.t0eq
  have h2 := h.smap
  simp only [splitMix, List.map_eq_nil_iff] at h1 h2
  simp [Chunk.raw, h1, h2, escAll, rawM]

/-- the start of the line -/
def LinkLineStart (X : Str) : Prop :=
  LineStart X ∨ ∃ T R, X = '[' :: (T ++ ']' :: '(' :: R) ∧ ∀ ch ∈ T, ch ≠ '[' ∧ ch ≠ ']'

/-- everything the block stage and the preprocessors need of the printed line -/
theorem line_facts (A : List DocSpec.Inline) (ls : List LinkIt) (C0 : Chunk) (is : List IUse) (hW : ChunkW A C0)
    (hL : LinksW ls is) (hne : ls ≠ []) (hst : startsOk (joinLinks A ls) = true)
    (hfirst : firstLinkOK (joinLinks A ls) = true) (hlt : '<' ∉ lineRawI ESC C0 is) :
    (∀ ch ∈ lineRawI ESC C0 is, DocParse2.okCh ch) ∧ refsClosed (lineRawI ESC C0 is) = true ∧
      LinkLineStart (lineRawI ESC C0 is) ∧ olMarker (lineRawI ESC C0 is) = none := by
  obtain ⟨u1, u2⟩ := uses_chars ls is hL 0 0
  have hltu : '<' ∉ usStageI ESC 0 false 0 0 is := fun hm => hlt (by simp [lineRawI, hm])
  obtain ⟨l, r, rfl⟩ : ∃ l r, ls = l :: r := by
    cases ls with
    | nil => exact absurd rfl hne
    | cons l r => exact ⟨l, r, rfl⟩
  obtain ⟨u, us, rfl⟩ : ∃ u us, is = u :: us := by
    cases is with
    | nil => exact absurd hL (by simp [LinksW])
    | cons u us => exact ⟨u, us, rfl⟩
  rw [linksW_cons] at hL
  have hhead : ∀ ch, (usStageI ESC 0 false 0 0 (u :: us)).head? = some ch → isDecimal ch = false ∧ ch ≠ '.' := by
    intro ch hch
    simp [usStageI] at hch
    subst hch; exact ⟨by decide, by decide⟩
  refine ⟨?_, ?_, ?_, ?_⟩
  · intro ch hch
    rcases List.mem_append.1 hch with hch | hch
    · exact hW.chars ch hch
    · exact u1 hltu ch hch
  · exact hW.refs _ u2
  · cases A with
    | nil =>
      right
      have hr := chunkW_nil hW
      have hnb : l.text.all noBracketItem = true := by simpa [joinLinks, firstLinkOK] using hfirst
      refine ⟨u.T.raw ESC, destSrc u.url u.dtitle ++ (')' :: (u.C.raw ESC ++
        usStageI ESC 0 false (0 + u.T.escs ESC + u.C.escs ESC) (0 + u.T.cnt 0 + u.C.cnt 0) us)), ?_,
        hL.1.T.nobr hnb⟩
      simp [lineRawI, hr, usStageI, Chunk.stage_raw]
    | cons a A' =>
      left
      have hst' : startsOk (a :: A') = true := by
        cases r <;> cases a <;> simp_all [joinLinks, startsOk]
      exact hW.start hst' _
  · exact hW.ol _ hhead

/-! ### 10. the paragraph as a piece -/

def lPiece (g : List Str) (C0 : Chunk) (is : List IUse) : Piece2 :=
  ⟨chunkB g (Block.mkText "p" (lineRawI ESC C0 is)), lElem ESC C0 is, lElem ESC C0 is⟩

theorem mkText_p (X : Str) : Block.mkText "p" X = { tag := .name "p".toList, text := some X } := rfl

theorem iuseOK_of {l : LinkIt} {u : IUse} (h : LinkW l u) : IUseOK ESC u ∧ u.T.Vis := by
  have hvis : u.T.Vis := by
    have := vis_of_startsOk l.text h.T.items h.starts u.T.segs h.T.smap
    rw [← h.T.t0eq] at this; exact this
  exact ⟨⟨h.T.ok, vis_ne hvis, h.C.ok, h.dest⟩, hvis⟩

theorem lPara_ok (A : List DocSpec.Inline) (ls : List LinkIt) (C0 : Chunk) (is : List IUse) (hW : ChunkW A C0)
    (hL : LinksW ls is) (hne : ls ≠ []) (hst : startsOk (joinLinks A ls) = true)
    (hfirst : firstLinkOK (joinLinks A ls) = true) (hlt : '<' ∉ lineRawI ESC C0 is) (i : Nat) (hi : i < 4) :
    Piece2OK {} (lPiece [spaces i ++ lineRawI ESC C0 is] C0 is) := by
  obtain ⟨hch, hrefs, hstart, hol⟩ := line_facts A ls C0 is hW hL hne hst hfirst hlt
  have hnl : '\n' ∉ lineRawI ESC C0 is := fun hm => (hch _ hm).1 rfl
  have hine : is ≠ [] := by
    intro e
    have := linksW_length ls is hL
    rw [e] at this
    cases ls with
    | nil => exact hne rfl
    | cons _ _ => simp at this
  obtain ⟨c0, tl, hX, hcs⟩ : ∃ c0 tl, lineRawI ESC C0 is = c0 :: tl ∧ isSpace c0 = false := by
    rcases hstart with ⟨c0, tl, e, hcs, _⟩ | ⟨T, R, e, _⟩
    · exact ⟨c0, tl, e, hcs⟩
    · exact ⟨'[', _, e, by decide⟩
  have hprod : Produces 4 (spaces i ++ lineRawI ESC C0 is) (Block.mkText "p" (lineRawI ESC C0 is)) := by
    rw [mkText_p]
    rcases hstart with hs | ⟨T, R, e, hT⟩
    · have := produces_para_multi i (by omega) [lineRawI ESC C0 is] (by simp)
        (fun l hl => by
          have : l = lineRawI ESC C0 is := by simpa using hl
          subst this; exact ⟨hs, hnl⟩) (by rw [joinLines_single]; exact hol)
      rwa [joinLines_single] at this
    · rw [e] at hnl hol ⊢
      exact produces_para_bracket i (by omega) T R hT hnl hol
  have hline : ∀ x ∈ spaces i ++ lineRawI ESC C0 is, DocParse2.okCh x := by
    intro x hx
    rcases List.mem_append.1 hx with hx | hx
    · exact (okCh_spaces i x hx).1
    · exact hch x hx
  have hc0 : c0 ∈ spaces i ++ lineRawI ESC C0 is := by rw [hX]; simp
  have hsafe := safe_of_okCh _ hline ⟨c0, hc0, by intro e; subst e; exact absurd hcs (by decide)⟩
  have hrefsL : refsClosed (spaces i ++ lineRawI ESC C0 is) = true :=
    refsClosed_noamp_append _ _ (fun hm => (okCh_spaces i _ hm).2 rfl) hrefs
  have hok : ∀ refs, ElemOK { esc := ESC, refs := refs } (lElem ESC C0 is) := fun refs =>
    lElem_ok { esc := ESC, refs := refs } escOK_generated rbr_ESC C0 is hW.ok
      (fun u hu => by obtain ⟨l, _, hw⟩ := linksW_mem ls is hL u hu; exact (iuseOK_of hw).1)
      (fun u hu => by obtain ⟨l, _, hw⟩ := linksW_mem ls is hL u hu; exact (iuseOK_of hw).2) hine
  refine ⟨chunkB_ok 4 _ _ (by simp) ?_ ?_ ?_ ?_, ?_, ?_, rfl, rfl, hok, hok, rfl⟩
  · simp only [joinLines, join_singleton]
    apply nel_line _ _ (fun hm => by
      rcases List.mem_append.1 hm with hm | hm
      · exact absurd (List.eq_of_mem_replicate hm) (by decide)
      · exact hnl hm)
    rw [hX]; simp
  · simpa [joinLines] using hprod
  · simp [Block.mkText, Node.el, isListTag, Node.isTag]
  · simp [Block.mkText, Node.el, preCode, Node.isTag]
  · intro l hl
    have : l = spaces i ++ lineRawI ESC C0 is := by simpa [lPiece, chunkB] using hl
    subst this; exact ⟨hsafe.1, hsafe.2, hrefsL⟩
  · exact ⟨c0, by simpa [lPiece, chunkB, joinLines] using hc0, hcs⟩

/-! ### 11. the specification side -/

theorem specInlines_append (A B : List DocSpec.Inline) : specInlines (A ++ B) = specInlines A ++ specInlines B := by
  induction A with
  | nil => simp [specInlines_nil]
  | cons x r ih => rw [List.cons_append, specInlines_cons, specInlines_cons, ih, List.append_assoc]

theorem attrEsc_plain (s : Str) (h : ∀ c ∈ s, AttrPlain c) : attrEsc s = s := by
  induction s with
  | nil => rfl
  | cons c r ih =>
    obtain ⟨a1, a2, a3, a4⟩ := h c List.mem_cons_self
    rw [attrEsc]
    simp [a1, a2, a3, a4, ih (fun x hx => h x (List.mem_cons_of_mem _ hx))]

theorem escAttrHtml_plain (s : Str) (h : ∀ c ∈ s, AttrPlain c) : Ser.escAttrHtml s = s := by
  unfold Ser.escAttrHtml
  rw [escCdata_plain s (fun c hc => ⟨(h c hc).1, (h c hc).2.1, (h c hc).2.2.1⟩)]
  apply replace_id_of_not_contains
  rw [contains_eq_false_iff]
  rintro a b rfl
  exact (h '"' (by simp)).2.2.2 rfl

theorem titleAttr_none : DocSpec.titleAttr none = [] := rfl
theorem titleAttr_some (t : Str) : DocSpec.titleAttr (some t) = S " title=\"" ++ attrEsc t ++ S "\"" := rfl
theorem specInline_link (c : List DocSpec.Inline) (d : Str) (t : Option Str) :
    specInline (.link c d t) =
      S "<a href=\"" ++ attrEsc d ++ S "\"" ++ DocSpec.titleAttr t ++ S ">" ++ specInlines c ++ S "</a>" := rfl

theorem link_spec {l : LinkIt} {u : IUse} (h : LinkW l u) :
    aOpen u.url (titleOf u.dtitle) ++ (u.T.out ++ aClose) = specInline (.link l.text l.dest l.title) := by
  obtain ⟨q, hq⟩ := h.dtitle
  have hurl : Ser.escAttrHtml u.url = attrEsc l.dest := by
    rw [h.url, escAttrHtml_plain _ h.plainD, attrEsc_plain _ h.plainD]
  have hq' : titleOf u.dtitle = l.title := by
    rw [hq]; cases l.title <;> rfl
  have hne : ∀ t, l.title = some t → t ≠ [] := by
    intro t ht
    have hd := h.dest
    rw [hq, ht] at hd
    exact hd.2.2.2.2.2.1
  have hpt := h.plainT
  have htitle : InlineRef.titleAttr (titleOf u.dtitle) = DocSpec.titleAttr l.title := by
    rw [hq']
    generalize l.title = ti at hne hpt
    cases ti with
    | none =>
      have htr : Node.truthy (none : Option Str) = false := rfl
      rw [titleAttr_none]
      simp only [InlineRef.titleAttr, htr, Bool.false_eq_true, if_false]
    | some t =>
      have htr : Node.truthy (some t) = true := (truthy_some_iff t).2 (hne t rfl)
      rw [titleAttr_some]
      simp only [InlineRef.titleAttr, htr, if_true, Option.getD_some,
        escAttrHtml_plain _ (hpt t rfl), attrEsc_plain _ (hpt t rfl), S]
      rw [show "\"".toList = ['"'] from by decide]
  rw [specInline_link, ← hurl, ← htitle, ← h.T.out]
  have l1 : S "\"" = ['"'] := by decide
  have l2 : S ">" = ['>'] := by decide
  rw [l1, l2]
  unfold aOpen aClose
  simp only [S, List.append_assoc]

theorem usOut_spec : ∀ (ls : List LinkIt) (is : List IUse), LinksW ls is → ∀ (A : List DocSpec.Inline) (C0 : Chunk),
    ChunkW A C0 → C0.out ++ usOut (is.map IUse.toR) = specInlines (joinLinks A ls) := by
  intro ls
  induction ls with
  | nil =>
    intro is h A C0 hW
    cases is with
    | nil => simp [usOut_nil, joinLinks, hW.out]
    | cons _ _ => exact absurd h (by simp [LinksW])
  | cons l r ih =>
    intro is h A C0 hW
    cases is with
    | nil => exact absurd h (by simp [LinksW])
    | cons u us =>
      rw [linksW_cons] at h
      have ihr := ih us h.2 l.after u.C h.1.C
      have hl := link_spec h.1
      rw [joinLinks, specInlines_append, specInlines_cons, ← ihr, ← hl, hW.out, List.map_cons, usOut_cons]
      simp [useOut, IUse.toR, List.append_assoc]

/-! ### 12. from the grammar and well-formedness to the conditions on the parts -/

theorem mixItemsOK_cons (x : DocSpec.Inline) (r : List DocSpec.Inline) :
    mixItemsOK (x :: r) = (mixItemsOK [x] && mixItemsOK r) := by
  cases x with
  | em l => rcases l with _ | ⟨y, _ | ⟨z, l'⟩⟩ <;> first | (cases y <;> simp [mixItemsOK]) | simp [mixItemsOK]
  | strong l => rcases l with _ | ⟨y, _ | ⟨z, l'⟩⟩ <;> first | (cases y <;> simp [mixItemsOK]) | simp [mixItemsOK]
  | _ => simp [mixItemsOK]

/-- `mixItemsOK_of_wf` inside a link -/
theorem mixItemsOK_of_wfL (c : List DocSpec.Inline) (il brOk : Bool) (hp : c.all isMixItem = true)
    (hw : wfInlineList il .none brOk c = true) : mixItemsOK c = true := by
  induction c with
  | nil => rfl
  | cons x r ih =>
    simp only [List.all_cons, Bool.and_eq_true] at hp
    simp only [wfInlineList, Bool.and_eq_true] at hw
    have ihr := ih hp.2 hw.2
    cases x with
    | text w => simp only [wfInline] at hw; simp [mixItemsOK, hw.1, ihr]
    | esc ch => simp only [wfInline] at hw; simp [mixItemsOK, List.contains_iff_mem.1 hw.1, ihr]
    | code b => simp only [wfInline] at hw; simp only [isMixItem] at hp; simp [mixItemsOK, hw.1, hp.1, ihr]
    | em l =>
      obtain ⟨hp1, _⟩ := hp
      cases l with
      | nil => simp [isMixItem] at hp1
      | cons y l' =>
        cases l' with
        | cons _ _ => cases y <;> simp [isMixItem] at hp1
        | nil =>
          cases y with
          | text w =>
            have h1 := hw.1
            simp only [wfInline, wfRun, wfInlineList, startsOk, endsOk, Bool.and_eq_true] at h1
            simp [mixItemsOK, wfLabel, h1.2.1, h1.1.2.1.1.1, h1.1.2.1.1.2, ihr]
          | _ => simp [isMixItem] at hp1
    | strong l =>
      obtain ⟨hp1, _⟩ := hp
      cases l with
      | nil => simp [isMixItem] at hp1
      | cons y l' =>
        cases l' with
        | cons _ _ => cases y <;> simp [isMixItem] at hp1
        | nil =>
          cases y with
          | text w =>
            have h1 := hw.1
            simp only [wfInline, wfRun, wfInlineList, startsOk, endsOk, Bool.and_eq_true] at h1
            simp [mixItemsOK, wfLabel, h1.2.1, h1.1.2.1.1.1, h1.1.2.1.1.2, ihr]
          | _ => simp [isMixItem] at hp1
    | link _ _ _ => simp [isMixItem] at hp
    | image _ _ _ => simp [isMixItem] at hp
    | autolink _ => simp [isMixItem] at hp
    | br => simp [isMixItem] at hp

theorem alnum_ne {c : Char} (h : isAsciiAlnum c = true) (k : Char) (hk : isAsciiAlnum k = false) : c ≠ k := by
  intro e; subst e; rw [h] at hk; cases hk

theorem destChar_alnum {c : Char} (h : isAsciiAlnum c = true) : NoCtl.destChar c = true := by
  have := alnum_ne h
  simp [NoCtl.destChar, this '`' (by decide), this '\\' (by decide), this '*' (by decide), this '_' (by decide),
    this '[' (by decide), this ']' (by decide), this '(' (by decide), this ')' (by decide), this '"' (by decide),
    this '\'' (by decide), this '\n' (by decide), this Inline.STX (by decide), this Inline.ETX (by decide)]

theorem urlCh_alnum {c : Char} (h : isAsciiAlnum c = true) : urlCh c = true := by
  simp [urlCh, destChar_alnum h, (alnum_facts h).2.2.2.2.1, alnum_ne h '!' (by decide)]

theorem urlCh_of_dest {c : Char} (h : DocSpec.destChar c = true) (hu : c ≠ '_') : urlCh c = true := by
  simp only [DocSpec.destChar, Bool.or_eq_true, decide_eq_true_eq] at h
  rcases h with (((((((((((h | rfl) | rfl) | rfl) | rfl) | rfl) | rfl) | rfl) | rfl) | rfl) | rfl) | rfl) | rfl
  · exact urlCh_alnum h
  all_goals first | decide | exact absurd rfl hu

theorem titleCh_alnumSp {c : Char} (h : isAlnumSp c = true) : titleCh c = true := by
  simp only [isAlnumSp, Bool.or_eq_true, decide_eq_true_eq] at h
  rcases h with h | rfl
  · simp [titleCh, destChar_alnum h, (alnum_facts h).2.2.2.2.1, alnum_ne h '!' (by decide)]
  · decide

theorem attrPlain_alnumSp {c : Char} (h : isAlnumSp c = true) : AttrPlain c := by
  refine ⟨?_, ?_, ?_, ?_⟩ <;> (intro e; subst e; exact absurd h (by decide))

theorem attrPlain_dest {c : Char} (h : DocSpec.destChar c = true) (hu : c ≠ '&') : AttrPlain c := by
  refine ⟨hu, ?_, ?_, ?_⟩ <;> (intro e; subst e; exact absurd h (by decide))

/-- the destination and title of a well-formed link of the sub-grammar -/
theorem dest_of_wf (d : Str) (t : Option Str) (hd : wfDest d = true) (ht : wfTitle t = true)
    (hs : simpleDest d = true) :
    (∀ q, DestOK d (dtitleOf q t)) ∧ (∀ c ∈ d, AttrPlain c) ∧ ∀ t', t = some t' → ∀ c ∈ t', AttrPlain c := by
  simp only [wfDest, Bool.and_eq_true, Bool.not_eq_true', List.isEmpty_eq_false_iff, List.all_eq_true] at hd
  simp only [simpleDest, List.all_eq_true, Bool.and_eq_true, bne_iff_ne, ne_eq] at hs
  obtain ⟨⟨⟨hne, hall⟩, _⟩, _⟩ := hd
  have hurl : ∀ c ∈ d, urlCh c = true := fun c hc => urlCh_of_dest (hall c hc) (hs c hc).1
  have hhead : d.head? ≠ some '<' := by
    intro e
    have := hall '<' (List.mem_of_mem_head? e)
    revert this; decide
  refine ⟨fun q => ⟨hurl, hne, hhead, ?_⟩, fun c hc => attrPlain_dest (hall c hc) (hs c hc).2, ?_⟩
  · cases t with
    | none => trivial
    | some t' =>
      have hw : wfLabel t' = true := ht
      simp only [wfLabel, wfWords, Bool.and_eq_true, Bool.not_eq_true', List.isEmpty_eq_false_iff, List.all_eq_true,
        bne_iff_ne, ne_eq] at hw
      refine ⟨?_, fun c hc => titleCh_alnumSp (hw.1.1.1.2 c hc), hw.1.1.1.1, hw.1.2, hw.2⟩
      unfold qChar; split
      · exact Or.inr rfl
      · exact Or.inl rfl
  · intro t' e c hc
    subst e
    have hw : wfLabel t' = true := ht
    simp only [wfLabel, wfWords, Bool.and_eq_true, List.all_eq_true] at hw
    exact attrPlain_alnumSp (hw.1.1.1.2 c hc)

/-- the conditions on an item -/
def ItemOK : DocSpec.Inline → Prop
  | .link t d ti => mixOK t = true ∧ startsOk t = true ∧ (∀ q, DestOK d (dtitleOf q ti)) ∧ (∀ c ∈ d, AttrPlain c) ∧
      ∀ t', ti = some t' → ∀ c ∈ t', AttrPlain c
  | x => mixItemsOK [x] = true

theorem itemOK_of_wf (x : DocSpec.Inline) (hp : isLinkItem x = true) (hw : wfInline false .none true x = true) :
    ItemOK x := by
  cases x with
  | link t d ti =>
    simp only [isLinkItem, Bool.and_eq_true] at hp
    simp only [wfInline, wfRun, Bool.and_eq_true] at hw
    obtain ⟨⟨⟨⟨_, hd⟩, hti⟩, ⟨⟨⟨hst, _⟩, hadj⟩, _⟩⟩, hlist⟩ := hw
    have hitems := mixItemsOK_of_wfL t true true hp.1.1 hlist
    obtain ⟨d1, d2, d3⟩ := dest_of_wf d ti hd hti hp.2
    exact ⟨by simp [mixOK, hitems, hadj, hp.1.2], hst, d1, d2, d3⟩
  | text w => exact mixItemsOK_of_wfL [.text w] false true (by simp [isMixItem]) (by simp [wfInlineList, hw])
  | esc c => exact mixItemsOK_of_wfL [.esc c] false true (by simp [isMixItem]) (by simp [wfInlineList, hw])
  | code b =>
    exact mixItemsOK_of_wfL [.code b] false true (by simpa [isLinkItem] using hp) (by simp [wfInlineList, hw])
  | em l =>
    exact mixItemsOK_of_wfL [.em l] false true (by simpa [isLinkItem] using hp) (by simp [wfInlineList, hw])
  | strong l =>
    exact mixItemsOK_of_wfL [.strong l] false true (by simpa [isLinkItem] using hp) (by simp [wfInlineList, hw])
  | image _ _ _ => simp [isLinkItem, isMixItem] at hp
  | autolink _ => simp [isLinkItem, isMixItem] at hp
  | br => simp [isLinkItem, isMixItem] at hp

theorem okAdjacents_suffix (A B : List DocSpec.Inline) (h : okAdjacents (A ++ B) = true) : okAdjacents B = true := by
  induction A with
  | nil => exact h
  | cons x r ih => exact ih (okAdjacents_tail h)

/-- the parts of content whose items are fine -/
theorem split_facts (c : List DocSpec.Inline) :
    (∀ x ∈ c, ItemOK x) → okAdjacents c = true → noBsBeforeCode c = true →
      mixOK (linkSplit c).1 = true ∧ ∀ l ∈ (linkSplit c).2, LinkOK l := by
  induction c with
  | nil => intro _ _ _; exact ⟨rfl, fun l hl => by cases hl⟩
  | cons x r ih =>
    intro hit hadj hnb
    obtain ⟨i1, i2⟩ := ih (fun y hy => hit y (List.mem_cons_of_mem _ hy)) (okAdjacents_tail hadj) (noBs_tail hnb)
    have hx := hit x List.mem_cons_self
    by_cases hl : isLinkI x = true
    · obtain ⟨t, d, ti, rfl⟩ : ∃ t d ti, x = .link t d ti := by cases x <;> simp_all [isLinkI]
      rw [linkSplit_link]
      obtain ⟨h1, h2, h3, h4, h5⟩ := hx
      refine ⟨rfl, fun l hl' => ?_⟩
      rcases List.mem_cons.1 hl' with rfl | hl'
      · exact ⟨h1, h2, i1, h3, h4, h5⟩
      · exact i2 l hl'
    · have hl' : isLinkI x = false := by simpa using hl
      rw [linkSplit_other x r hl']
      refine ⟨?_, i2⟩
      obtain ⟨T, hT⟩ := linkSplit_prefix r
      have hxi : mixItemsOK [x] = true := by
        cases x <;> first | exact hx | simp [isLinkI] at hl'
      have e : x :: r = (x :: (linkSplit r).1) ++ T := by rw [List.cons_append, ← hT]
      have ha := okAdjacents_prefix _ _ (e ▸ hadj)
      have hn := noBs_prefix _ _ (e ▸ hnb)
      simp only [mixOK, Bool.and_eq_true] at i1 ⊢
      exact ⟨⟨by rw [mixItemsOK_cons, hxi, i1.1.1]; rfl, ha⟩, hn⟩

/-! ### 13. the paragraph, the document -/

theorem wfInlineList_mem {il : Bool} {par : Par} {br : Bool} {c : List DocSpec.Inline}
    (h : wfInlineList il par br c = true) : ∀ x ∈ c, wfInline il par br x = true := by
  induction c with
  | nil => intro x hx; cases hx
  | cons a r ih =>
    simp only [wfInlineList, Bool.and_eq_true] at h
    intro x hx
    rcases List.mem_cons.1 hx with rfl | hx
    · exact h.1
    · exact ih h.2 x hx

theorem noLinks_of_split (c : List DocSpec.Inline) (h : (linkSplit c).2 = []) : ∀ x ∈ c, isLinkI x = false := by
  induction c with
  | nil => intro x hx; cases hx
  | cons a r ih =>
    by_cases ha : isLinkI a = true
    · obtain ⟨t, d, ti, rfl⟩ : ∃ t d ti, a = .link t d ti := by cases a <;> simp_all [isLinkI]
      rw [linkSplit_link] at h; simp at h
    · have ha' : isLinkI a = false := by simpa using ha
      rw [linkSplit_other a r ha'] at h
      intro x hx
      rcases List.mem_cons.1 hx with rfl | hx
      · exact ha'
      · exact ih h x hx

theorem brItem_of_linkItem (x : DocSpec.Inline) (h : isLinkItem x = true) (hl : isLinkI x = false) :
    isBrItem x = true := by
  cases x with
  | link _ _ _ => simp [isLinkI] at hl
  | em l =>
    rcases l with _ | ⟨y, _ | ⟨z, l'⟩⟩
    · simp [isLinkItem, isMixItem] at h
    · cases y <;> simp_all [isLinkItem, isMixItem, isBrItem, isDeep2Item, isDeepItem, noBsBeforeCode]
    · cases y <;> simp [isLinkItem, isMixItem] at h
  | strong l =>
    rcases l with _ | ⟨y, _ | ⟨z, l'⟩⟩
    · simp [isLinkItem, isMixItem] at h
    · cases y <;> simp_all [isLinkItem, isMixItem, isBrItem, isDeep2Item, isDeepItem, noBsBeforeCode]
    · cases y <;> simp [isLinkItem, isMixItem] at h
  | _ => simp_all [isLinkItem, isMixItem, isBrItem, isDeep2Item]

theorem mem_joinLines_of_mem' {c : Char} {l : Str} {ls : List Str} (hc : c ∈ l) (hl : l ∈ ls) :
    c ∈ joinLines ls := by
  induction ls with
  | nil => cases hl
  | cons a r ih =>
    cases r with
    | nil =>
      have : l = a := by simpa using hl
      subst this; simpa [joinLines_single] using hc
    | cons b r' =>
      rw [joinLines_cons_cons]
      rcases List.mem_cons.1 hl with rfl | hl
      · exact List.mem_append_left _ hc
      · exact List.mem_append_right _ (List.mem_cons_of_mem _ (ih hl))

/-- what every block of the sub-grammar does under a spelling: it prints lines and may add definitions; when it adds
    none and prints no `<`, the lines are a piece with the output the specification prescribes -/
def BlockPrints (b : DocSpec.Block) : Prop :=
  ∀ st : PSt, ∃ (lines : List Str) (st' : PSt) (extra : List Str),
    printBlock true b st = (lines, st') ∧ st'.defs = st.defs ++ extra ∧
    (extra = [] → (∀ l ∈ lines, '<' ∉ l) → ∃ p : Piece2, p.b.g = lines ∧ Piece2OK {} p ∧
      p.elem.out = specBlock b ∧ p.b.isCode = isCode b)

theorem blockPrints_of (b : DocSpec.Block)
    (h : ∀ st : PSt, ∃ (p : Piece2) (st' : PSt), printBlock true b st = (p.b.g, st') ∧ st'.defs = st.defs ∧
      Piece2OK {} p ∧ p.elem.out = specBlock b ∧ p.b.isCode = isCode b) : BlockPrints b := by
  intro st
  obtain ⟨p, st', hp, hd, hok, hout, hc⟩ := h st
  exact ⟨p.b.g, st', [], hp, by simp [hd], fun _ _ => ⟨p, rfl, hok, hout, hc⟩⟩

/-- **a paragraph with inline links** -/
theorem blockPrints_link (c : List DocSpec.Inline) (hp : linkRun c = true)
    (hw : wfInlines false .none true c = true) (hl : (linkSplit c).2 ≠ []) : BlockPrints (.para c) := by
  simp only [linkRun, Bool.and_eq_true, List.all_eq_true] at hp
  simp only [wfInlines, wfRun, Bool.and_eq_true] at hw
  obtain ⟨⟨⟨⟨hst, _⟩, hadj⟩, _⟩, hlist⟩ := hw
  obtain ⟨⟨hitems, hnb⟩, hfirst⟩ := hp
  have hit : ∀ x ∈ c, ItemOK x := fun x hx => itemOK_of_wf x (hitems x hx) (wfInlineList_mem hlist x hx)
  obtain ⟨hA, hls⟩ := split_facts c hit hadj hnb
  intro st
  obtain ⟨s, st', extra, hpr, hd, hgood⟩ := printLinks_rel (linkSplit c).2 (linkSplit c).1 (draw st).2 hA hls
  rw [joinLinks_split] at hpr
  refine ⟨indentTop true (draw st).1 (splitC '\n' s), st', extra, ?_, by rw [hd, draw_defs], ?_⟩
  · rw [printBlock_para]; simp only [printContent, hpr]
  · intro hex hlt
    have hlts : '<' ∉ s := by
      intro hm
      have hj : '<' ∈ joinLines (splitC '\n' s) := by
        have := splitC_join '\n' s
        rw [joinLines, this]; exact hm
      rcases DocParse.mem_joinLines hj with e | ⟨l, hl', hc⟩
      · exact absurd e (by decide)
      · cases hsp : splitC '\n' s with
        | nil => rw [hsp] at hl'; cases hl'
        | cons a r =>
          rw [hsp] at hl'
          rcases List.mem_cons.1 hl' with rfl | hl'
          · exact hlt (rep ((draw st).1 % 4) ' ' ++ l) (by simp [indentTop, indentFirst, hsp]) (by simp [hc])
          · exact hlt l (by simp [indentTop, indentFirst, hsp, hl']) hc
    obtain ⟨C0, is, hs, hW, hL⟩ := hgood hex hlts
    have hs0 : s = lineRawI ESC C0 is := hs 0 0
    have hst' : startsOk (joinLinks (linkSplit c).1 (linkSplit c).2) = true := by rw [joinLinks_split]; exact hst
    have hfirst' : firstLinkOK (joinLinks (linkSplit c).1 (linkSplit c).2) = true := by
      rw [joinLinks_split]; exact hfirst
    have hltr : '<' ∉ lineRawI ESC C0 is := by rw [← hs0]; exact hlts
    obtain ⟨hch, _, _, _⟩ := line_facts _ _ C0 is hW hL hl hst' hfirst' hltr
    have hnl : '\n' ∉ s := by rw [hs0]; exact fun hm => (hch _ hm).1 rfl
    refine ⟨lPiece [spaces ((draw st).1 % 4) ++ lineRawI ESC C0 is] C0 is, ?_,
      lPara_ok _ _ C0 is hW hL hl hst' hfirst' hltr _ (Nat.mod_lt _ (by omega)), ?_, rfl⟩
    · rw [splitC_noNl _ (notNl_of_not_mem hnl), hs0]
      simp [lPiece, chunkB, indentTop, indentFirst, rep, spaces]
    · have := usOut_spec _ _ hL _ _ hW
      rw [joinLinks_split] at this
      show lOut C0 is = specBlock (.para c)
      rw [specBlock_para, ← this]
      simp only [lOut, S]

theorem blockPrints_linkBlock (b : DocSpec.Block) (hf : isLinkBlock b = true) (hw : wfBlock none b = true) :
    BlockPrints b := by
  cases b with
  | para c =>
    simp only [isLinkBlock, Bool.or_eq_true] at hf
    by_cases hbr : brRun c = true
    · exact blockPrints_of _ (fun st => printBlock_br (.para c) hbr hw st)
    · have hlr : linkRun c = true := by
        rcases hf with h | h
        · exact absurd h hbr
        · exact h
      by_cases hl : (linkSplit c).2 = []
      · -- no link at all: a paragraph of the smaller sub-grammar
        exfalso
        apply hbr
        have hno := noLinks_of_split c hl
        simp only [linkRun, Bool.and_eq_true, List.all_eq_true] at hlr
        simp only [brRun, Bool.and_eq_true, List.all_eq_true]
        exact ⟨fun x hx => brItem_of_linkItem x (hlr.1.1 x hx) (hno x hx), hlr.1.2⟩
      · simp only [wfBlock] at hw
        exact blockPrints_link c hlr hw hl
  | rule => exact blockPrints_of _ (fun st => printBlock_br .rule rfl hw st)
  | code ls => exact blockPrints_of _ (fun st => printBlock_br (.code ls) hf hw st)
  | atx l c => exact blockPrints_of _ (fun st => printBlock_br (.atx l c) hf hw st)
  | setext l c => exact blockPrints_of _ (fun st => printBlock_br (.setext l c) hf hw st)
  | quote _ => simp [isLinkBlock, isDeep2Block] at hf
  | ulist _ _ => simp [isLinkBlock, isDeep2Block] at hf
  | olist _ _ => simp [isLinkBlock, isDeep2Block] at hf

/-- the printed blocks of a document whose blocks print as `BlockPrints` says -/
theorem printBlocks_gen2 (d : Doc) (hne : d ≠ []) (hB : ∀ b ∈ d, BlockPrints b) (hnext : okNexts d = true) :
    ∀ st : PSt, ∃ (L : List Str) (st' : PSt) (extra : List Str), printBlocks true d st = (L, st') ∧
      st'.defs = st.defs ++ extra ∧
      (extra = [] → (∀ l ∈ L, '<' ∉ l) → ∃ ps : List Piece2, L = flatLines (ps.map (·.b.g)) ∧ ps ≠ [] ∧
        (∀ p ∈ ps, Piece2OK {} p) ∧ joinOutS (ps.map (·.elem.out)) = specBlocks d ∧
        noCodeAfterCode (ps.map (·.b)) ∧ (ps.head?.map (·.b.isCode) = d.head?.map isCode)) := by
  induction d with
  | nil => exact absurd rfl hne
  | cons b r ih =>
    intro st
    obtain ⟨lines, st1, e1, hp, hd1, hgood⟩ := hB b List.mem_cons_self st
    cases r with
    | nil =>
      refine ⟨lines, st1, e1, by rw [printBlocks_one, hp], hd1, ?_⟩
      intro hex hlt
      obtain ⟨p, hg, hok, hout, hcode⟩ := hgood hex hlt
      refine ⟨[p], by simp [flatLines, hg], by simp, ?_, ?_, trivial, by simp [hcode]⟩
      · intro q hq; have : q = p := by simpa using hq
        subst this; exact hok
      · rw [specBlocks_one, ← hout]; rfl
    | cons b' r' =>
      rw [okNexts_cons2, Bool.and_eq_true] at hnext
      obtain ⟨L2, st2, e2, hps, hd2, hgood2⟩ := ih (by simp)
        (fun x hx => hB x (List.mem_cons_of_mem _ hx)) hnext.2 st1
      refine ⟨lines ++ [[]] ++ L2, st2, e1 ++ e2, ?_, by rw [hd2, hd1, List.append_assoc], ?_⟩
      · rw [printBlocks_cons2, hp]; simp only [hps]
      · intro hex hlt
        have hex1 : e1 = [] := (List.append_eq_nil_iff.1 hex).1
        have hex2 : e2 = [] := (List.append_eq_nil_iff.1 hex).2
        obtain ⟨p, hg, hok, hout, hcode⟩ := hgood hex1 (fun l hl => hlt l (by simp [hl]))
        obtain ⟨ps, hL2, hpsne, hoks, houts, hadj, hhead⟩ := hgood2 hex2 (fun l hl => hlt l (by simp [hl]))
        obtain ⟨q, qs, rfl⟩ : ∃ q qs, ps = q :: qs := by
          cases ps with
          | nil => exact absurd rfl hpsne
          | cons q qs => exact ⟨q, qs, rfl⟩
        have hq : q.b.isCode = isCode b' := by simpa using hhead
        refine ⟨p :: q :: qs, ?_, by simp, ?_, ?_, ?_, by simp [hcode]⟩
        · rw [hL2, ← hg]; rfl
        · intro x hx
          rcases List.mem_cons.1 hx with rfl | hx
          · exact hok
          · exact hoks x hx
        · rw [specBlocks_cons2, ← houts, ← hout]; rfl
        · refine ⟨?_, hadj⟩
          intro hqc
          rw [hq] at hqc
          rw [hcode]
          have h1 := hnext.1
          simp only [okNext, hqc, Bool.and_true, Bool.and_eq_true, Bool.not_eq_true', Bool.or_eq_false_iff] at h1
          exact h1.1.2.1

/-- **C01 on documents with inline links**: a well-formed document of the sub-grammar, under every spelling that
    draws the inline style for every link, converts to what `spec` prescribes -/
theorem convert_linkDoc (d : Doc) (sp : Spelling) (hwf : WF d = true) (hs : DocSpec.LinkDoc d = true)
    (hsp : DocSpec.inlineStyle d sp = true) : Pipeline.convert {} (print d sp) = .ok (spec d) := by
  simp only [WF, Bool.and_eq_true, Bool.not_eq_true', List.isEmpty_eq_false_iff] at hwf
  obtain ⟨⟨⟨hne, hnx⟩, hbl⟩, _⟩ := hwf
  have hf : ∀ b ∈ d, isLinkBlock b = true := by
    simpa [DocSpec.LinkDoc, List.all_eq_true] using hs
  obtain ⟨L, st', extra, hps, hdefs, hgood⟩ :=
    printBlocks_gen2 d hne (fun b hb => blockPrints_linkBlock b (hf b hb) (wfBlockList_mem hbl b hb)) hnx
      ⟨sp.choices, 1, []⟩
  simp only [DocSpec.inlineStyle, Bool.and_eq_true, List.all_eq_true, bne_iff_ne, ne_eq, hps,
    List.isEmpty_iff] at hsp
  obtain ⟨hlt, hde⟩ := hsp
  have hprint : print d sp = joinLines L := by
    simp only [print, hps]
    simp [hde, joinLines]
  have hex : extra = [] := by
    rw [hde] at hdefs
    simpa using hdefs.symm
  obtain ⟨ps, hL, hpsne, hoks, houts, hadj, _⟩ := hgood hex (fun l hl hm =>
    hlt '<' (by rw [hprint]; exact mem_joinLines_of_mem' hm hl) rfl)
  rw [hprint, hL, spec, ← houts]
  exact convert_pieces2 {} rfl rfl ps hpsne hoks hadj

end MdVerif.DocLink
