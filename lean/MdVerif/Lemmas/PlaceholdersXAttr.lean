/-
Helper lemmas for C10 on the extension model (`Props/C10XTree.lean`), part 2: `AttrListTreeprocessor`
(`Model/Ext/AttrList.lean`, `Model/Ext/AttrListTree.lean`) keeps `FNodeX`.

The processor cuts the text `{: #id .cls k="v" }` out of texts and tails and moves the pieces into attributes, escape
tokens `STX <digits> ETX` included.  Every cut is made at an ordinary character that is not an ASCII digit (blank,
`=`, `}`, `{`, `:`, quotes, line feed, `.`, `#`), hence never inside a token (`wf0_cut`); attribute names go through
`sanitize_name`, which replaces STX and ETX by `_`.

The string lemmas are stated for `WF esc 0` with `esc` arbitrary: `esc = true` is "ordinary characters and escape
tokens", `esc = false` is `NoCtl` (needed for the text of a `code` element that `md.block_level_elements` may list).

Core Lean only.
-/
import MdVerif.Lemmas.PlaceholdersXTree

namespace MdVerif.NoCtlX
open MdVerif.NoCtl Py AttrList AttrListTree

/-! ### cutting a string without inline placeholders -/

/-- a character at which a string may be cut: it does not occur in an escape token -/
def Cut (c : Char) : Prop := c ≠ STX ∧ c ≠ ETX ∧ isAsciiDigit c = false

instance (c : Char) : Decidable (Cut c) := by unfold Cut; infer_instance

theorem not_cut_of_mem_escToken {v : Nat} {c : Char} (h : c ∈ escToken v) : ¬ Cut c := by
  rintro ⟨h1, h2, h3⟩
  simp only [escToken, List.mem_cons, List.mem_append, List.not_mem_nil, or_false] at h
  rcases h with (h | h) | h
  · exact h1 h
  · rw [natToDec_digits v c h] at h3; cases h3
  · exact h2 h

theorem Cut.noCtl {c : Char} (h : Cut c) : c ≠ STX ∧ c ≠ ETX := ⟨h.1, h.2.1⟩

theorem wf0_cut_aux {esc : Bool} {s : Str} (h : WF esc 0 s) :
    ∀ (a : Str) (c : Char) (b : Str), s = a ++ c :: b → Cut c → WF esc 0 a ∧ WF esc 0 b := by
  induction h with
  | nil => intro a c b h _; simp at h
  | plain d s h1 h2 hs ih =>
    intro a c b h hc
    cases a with
    | nil =>
      simp only [List.nil_append, List.cons.injEq] at h
      obtain ⟨rfl, rfl⟩ := h
      exact ⟨.nil, hs⟩
    | cons x a' =>
      simp only [List.cons_append, List.cons.injEq] at h
      obtain ⟨rfl, rfl⟩ := h
      obtain ⟨w1, w2⟩ := ih a' c b rfl hc
      exact ⟨.plain d a' h1 h2 w1, w2⟩
  | ph i s hi _ _ => omega
  | tok v s hE hv hs ih =>
    intro a c b h hc
    rcases List.append_eq_append_iff.1 h with ⟨a', rfl, h2⟩ | ⟨c', h1, h2⟩
    · obtain ⟨w1, w2⟩ := ih a' c b h2 hc
      exact ⟨.tok v a' hE hv w1, w2⟩
    · cases c' with
      | nil =>
        simp only [List.append_nil] at h1
        simp only [List.nil_append] at h2
        subst h1
        obtain ⟨w1, w2⟩ := ih [] c b h2.symm hc
        exact ⟨by simpa using WF.tok (k := 0) v [] hE hv .nil, w2⟩
      | cons x c'' =>
        exfalso
        simp only [List.cons_append, List.cons.injEq] at h2
        obtain ⟨rfl, -⟩ := h2
        exact not_cut_of_mem_escToken (v := v) (by rw [h1]; simp) hc

/-- **a string of ordinary characters and escape tokens may be cut at any ordinary non-digit character** -/
theorem wf0_cut {esc : Bool} {a b : Str} {c : Char} (h : WF esc 0 (a ++ c :: b)) (hc : Cut c) :
    WF esc 0 a ∧ WF esc 0 b := wf0_cut_aux h a c b rfl hc

theorem wf0_cons {esc : Bool} {c : Char} {b : Str} (hc : Cut c) (h : WF esc 0 b) : WF esc 0 (c :: b) :=
  .plain c b hc.1 hc.2.1 h

theorem wf0_tail {esc : Bool} {c : Char} {b : Str} (h : WF esc 0 (c :: b)) (hc : Cut c) : WF esc 0 b :=
  (wf0_cut (a := []) h hc).2

/-- with the cut character kept on the right -/
theorem wf0_cut' {esc : Bool} {a b : Str} {c : Char} (h : WF esc 0 (a ++ c :: b)) (hc : Cut c) :
    WF esc 0 a ∧ WF esc 0 (c :: b) := ⟨(wf0_cut h hc).1, wf0_cons hc (wf0_cut h hc).2⟩

/-- dropping a suffix without STX/ETX -/
theorem wf0_drop_suffix {esc : Bool} {s : Str} (h : WF esc 0 s) :
    ∀ (a b : Str), s = a ++ b → NoCtl b → WF esc 0 a := by
  induction h with
  | nil =>
    intro a b h _
    rw [(List.append_eq_nil_iff.1 h.symm).1]; exact .nil
  | plain d s h1 h2 hs ih =>
    intro a b h hb
    cases a with
    | nil => exact .nil
    | cons x a' =>
      simp only [List.cons_append, List.cons.injEq] at h
      obtain ⟨rfl, rfl⟩ := h
      exact .plain d a' h1 h2 (ih a' b rfl hb)
  | ph i s hi _ _ => omega
  | tok v s hE hv hs ih =>
    intro a b h hb
    rcases List.append_eq_append_iff.1 h with ⟨a', rfl, h2⟩ | ⟨c', h1, h2⟩
    · exact .tok v a' hE hv (ih a' b h2 hb)
    · cases c' with
      | nil =>
        simp only [List.append_nil] at h1
        subst h1
        simpa using WF.tok (k := 0) v [] hE hv .nil
      | cons x c'' =>
        exfalso
        -- the ETX of the token lies in `b`
        have hm : ETX ∈ x :: c'' := by
          have h3 : (escToken v).getLast? = some ETX := by
            show ((STX :: natToDec v) ++ [ETX]).getLast? = _
            rw [List.getLast?_append]; rfl
          rw [h1, List.getLast?_append] at h3
          have h4 : (x :: c'').getLast? = some ETX := by
            cases hq : (x :: c'').getLast? with
            | none => simp at hq
            | some y => rw [hq] at h3; simpa using h3
          exact List.mem_of_getLast? h4
        exact hb.2 (by rw [h2]; exact List.mem_append_left _ hm)

theorem wf0_of_append_right {esc : Bool} {a b : Str} (h : WF esc 0 (a ++ b)) (hb : NoCtl b) : WF esc 0 a :=
  wf0_drop_suffix h a b rfl hb

/-- an infix between two stretches without STX/ETX -/
theorem wf0_infix {esc : Bool} {a r b : Str} (h : WF esc 0 (a ++ r ++ b)) (ha : NoCtl a) (hb : NoCtl b) : WF esc 0 r :=
  wf_of_append_noctl ha (by rw [List.append_assoc] at h; exact wf0_of_append_right (by rw [List.append_assoc]; exact h) hb)

theorem noCtl_of_all {p : Char → Bool} (hp : ∀ c, p c = true → c ≠ STX ∧ c ≠ ETX) {w : Str} (h : w.all p = true) :
    NoCtl w :=
  noCtl_iff.2 fun c hc => hp c (List.all_eq_true.1 h c hc)

theorem wf0_stripP {esc : Bool} {p : Char → Bool} (hp : ∀ c, p c = true → c ≠ STX ∧ c ≠ ETX) {s : Str}
    (h : WF esc 0 s) : WF esc 0 (stripP p s) := by
  obtain ⟨a, b, e, ha, hb⟩ := stripP_decomp p s
  rw [e] at h
  exact wf0_infix h (noCtl_of_all hp ha) (noCtl_of_all hp hb)

theorem wf0_rstripP {esc : Bool} {p : Char → Bool} (hp : ∀ c, p c = true → c ≠ STX ∧ c ≠ ETX) {s : Str}
    (h : WF esc 0 s) : WF esc 0 (rstripP p s) := by
  obtain ⟨w, e, hw⟩ := rstripP_decomp p s
  rw [e] at h
  exact wf0_of_append_right h (noCtl_of_all hp hw)

theorem isSpace_ne_ctl (c : Char) (h : isSpace c = true) : c ≠ STX ∧ c ≠ ETX := by
  constructor <;> rintro rfl <;> revert h <;> decide

theorem eq_ne_ctl {q : Char} (hq : q ≠ STX ∧ q ≠ ETX) (c : Char) (h : decide (c = q) = true) : c ≠ STX ∧ c ≠ ETX := by
  have : c = q := by simpa using h
  rw [this]; exact hq

/-- the string split at the first character outside the class `p`, when those characters are cut points -/
theorem wf0_span {esc : Bool} {p : Char → Bool} (hp : ∀ c, p c = false → Cut c) {s : Str} (h : WF esc 0 s) :
    WF esc 0 (s.takeWhile p) ∧ WF esc 0 (s.dropWhile p) := by
  have e := (List.takeWhile_append_dropWhile (p := p) (l := s)).symm
  cases hd : s.dropWhile p with
  | nil =>
    rw [hd, List.append_nil] at e
    rw [← e]; exact ⟨h, .nil⟩
  | cons c r =>
    have hc : p c = false := by
      have := List.head?_dropWhile_not p s
      rw [hd] at this
      simpa using this
    rw [hd] at e
    rw [e] at h
    exact wf0_cut' h (hp c hc)

/-- dropping leading cut characters -/
theorem wf0_dropWhile_cut {esc : Bool} {p : Char → Bool} (hp : ∀ c, p c = true → Cut c) :
    ∀ {s : Str}, WF esc 0 s → WF esc 0 (s.dropWhile p)
  | [], h => h
  | c :: s, h => by
    rw [List.dropWhile_cons]
    split
    · next hc => exact wf0_dropWhile_cut hp (wf0_tail h (hp c hc))
    · exact h

theorem cut_blank : Cut ' ' := by decide
theorem cut_eq : Cut '=' := by decide
theorem cut_rbrace : Cut '}' := by decide
theorem cut_lbrace : Cut '{' := by decide
theorem cut_colon : Cut ':' := by decide
theorem cut_nl : Cut '\n' := by decide
theorem cut_dot : Cut '.' := by decide
theorem cut_hash : Cut '#' := by decide
theorem cut_dq : Cut '"' := by decide
theorem cut_sq : Cut '\'' := by decide

theorem cut_of_not_wordChar (c : Char) (h : wordChar c = false) : Cut c := by
  simp only [wordChar, Bool.and_eq_false_iff, bne_eq_false_iff_eq] at h
  rcases h with (rfl | rfl) | rfl <;> decide

theorem cut_of_isBlankChar (c : Char) (h : decide (c = ' ') = true) : Cut c := by
  have : c = ' ' := by simpa using h
  rw [this]; exact cut_blank

/-! ### the scanner -/

theorem lazyUntil_decomp {q : Char} : ∀ {s p r : Str}, lazyUntil q s = some (p, r) → s = p ++ q :: r
  | [], p, r, h => by simp [lazyUntil] at h
  | c :: s, p, r, h => by
    simp only [lazyUntil] at h
    split at h
    · next hc =>
      simp only [Option.some.injEq, Prod.mk.injEq] at h
      obtain ⟨rfl, rfl⟩ := h
      rw [hc]; rfl
    · split at h
      · cases h
      · simp only [Option.map_eq_some_iff] at h
        obtain ⟨⟨p', r'⟩, hl, he⟩ := h
        simp only [Prod.mk.injEq] at he
        obtain ⟨rfl, rfl⟩ := he
        rw [lazyUntil_decomp hl]; rfl

theorem lazyUntil_wf {esc : Bool} {q : Char} (hq : Cut q) {s p r : Str} (h : lazyUntil q s = some (p, r))
    (hs : WF esc 0 s) : WF esc 0 p ∧ WF esc 0 r := by
  rw [lazyUntil_decomp h] at hs
  exact wf0_cut hs hq

theorem splitEq_decomp : ∀ (t : Str), (t = (splitEq t).1 ∧ (splitEq t).2 = []) ∨ t = (splitEq t).1 ++ '=' :: (splitEq t).2
  | [] => .inl ⟨rfl, rfl⟩
  | c :: s => by
    simp only [splitEq]
    split
    · next hc => right; rw [hc]; rfl
    · rcases splitEq_decomp s with ⟨h1, h2⟩ | h
      · left
        exact ⟨by simp only [List.cons.injEq, true_and]; exact h1, h2⟩
      · right
        simp only [List.cons_append, List.cons.injEq, true_and]; exact h

theorem splitEq_wf {esc : Bool} {t : Str} (h : WF esc 0 t) : WF esc 0 (splitEq t).1 ∧ WF esc 0 (splitEq t).2 := by
  rcases splitEq_decomp t with ⟨h1, h2⟩ | h1
  · rw [h2, ← h1]; exact ⟨h, .nil⟩
  · rw [h1] at h; exact wf0_cut h cut_eq

theorem handleQuoted_wf {esc : Bool} {q : Char} (hq : Cut q) {t : Str} (h : WF esc 0 t) :
    WF esc 0 (handleQuoted q t).1 ∧ WF esc 0 (handleQuoted q t).2 :=
  ⟨(splitEq_wf h).1, wf0_stripP (eq_ne_ctl hq.noCtl) (splitEq_wf h).2⟩

theorem handleWord_wf {esc : Bool} {t : Str} (h : WF esc 0 t) :
    WF esc 0 (handleWord t).1 ∧ WF esc 0 (handleWord t).2 := by
  unfold handleWord
  split
  · exact ⟨WF.of_noCtl (show NoCtl ['.'] by decide), wf0_tail h cut_dot⟩
  · exact ⟨WF.of_noCtl (show NoCtl ['i', 'd'] by decide), wf0_tail h cut_hash⟩
  · exact ⟨h, h⟩

theorem patQuoted_wf {esc : Bool} {q : Char} (hq : Cut q) {s t r : Str} (h : patQuoted q s = some (t, r))
    (hs : WF esc 0 s) : WF esc 0 t ∧ WF esc 0 r := by
  obtain ⟨w1, w2⟩ := wf0_span (p := wordChar) cut_of_not_wordChar hs
  unfold patQuoted at h
  split at h
  · next k ks q' r' hk hd =>
    split at h
    · next hqq =>
      subst hqq
      simp only [Option.map_eq_some_iff] at h
      obtain ⟨⟨p, r''⟩, hl, he⟩ := h
      simp only [Prod.mk.injEq] at he
      obtain ⟨rfl, rfl⟩ := he
      rw [hd] at w2
      obtain ⟨v1, v2⟩ := lazyUntil_wf hq hl (wf0_tail (wf0_tail w2 cut_eq) hq)
      rw [hk] at w1
      refine ⟨?_, v2⟩
      exact WF.append (WF.append w1 (wf0_cons cut_eq (wf0_cons hq v1))) (wf0_cons hq .nil)
    · cases h
  · cases h

theorem patKeyValue_wf {esc : Bool} {s t r : Str} (h : patKeyValue s = some (t, r))
    (hs : WF esc 0 s) : WF esc 0 t ∧ WF esc 0 r := by
  obtain ⟨w1, w2⟩ := wf0_span (p := wordChar) cut_of_not_wordChar hs
  unfold patKeyValue at h
  split at h
  · next k ks r' hk hd =>
    rw [hd] at w2
    obtain ⟨v1, v2⟩ := wf0_span (p := wordChar) cut_of_not_wordChar (wf0_tail w2 cut_eq)
    split at h
    · next v vs hv =>
      simp only [Option.some.injEq, Prod.mk.injEq] at h
      obtain ⟨rfl, rfl⟩ := h
      rw [hk] at w1
      rw [hv] at v1
      exact ⟨WF.append w1 (wf0_cons cut_eq v1), v2⟩
    · cases h
  · cases h

theorem patWord_wf {esc : Bool} {s t r : Str} (h : patWord s = some (t, r))
    (hs : WF esc 0 s) : WF esc 0 t ∧ WF esc 0 r := by
  obtain ⟨w1, w2⟩ := wf0_span (p := wordChar) cut_of_not_wordChar hs
  unfold patWord at h
  split at h
  · next k ks hk =>
    simp only [Option.some.injEq, Prod.mk.injEq] at h
    obtain ⟨rfl, rfl⟩ := h
    rw [hk] at w1
    exact ⟨w1, w2⟩
  · cases h

/-- one match of the scanner: key, value and the rest are cut at non-token characters -/
theorem scanStep_wf {esc : Bool} {s r : Str} {tok : Option (Str × Str)} (h : scanStep s = some (tok, r))
    (hs : WF esc 0 s) : (∀ kv, tok = some kv → WF esc 0 kv.1 ∧ WF esc 0 kv.2) ∧ WF esc 0 r := by
  unfold scanStep at h
  split at h
  · next t r' hp =>
    simp only [Option.some.injEq, Prod.mk.injEq] at h
    obtain ⟨rfl, rfl⟩ := h
    obtain ⟨w1, w2⟩ := patQuoted_wf cut_dq hp hs
    refine ⟨?_, w2⟩
    intro kv hkv
    simp only [Option.some.injEq] at hkv
    subst hkv
    exact handleQuoted_wf cut_dq w1
  · split at h
    · next t r' hp =>
      simp only [Option.some.injEq, Prod.mk.injEq] at h
      obtain ⟨rfl, rfl⟩ := h
      obtain ⟨w1, w2⟩ := patQuoted_wf cut_sq hp hs
      refine ⟨?_, w2⟩
      intro kv hkv
      simp only [Option.some.injEq] at hkv
      subst hkv
      exact handleQuoted_wf cut_sq w1
    · split at h
      · next t r' hp =>
        simp only [Option.some.injEq, Prod.mk.injEq] at h
        obtain ⟨rfl, rfl⟩ := h
        obtain ⟨w1, w2⟩ := patKeyValue_wf hp hs
        refine ⟨?_, w2⟩
        intro kv hkv
        simp only [Option.some.injEq] at hkv
        subst hkv
        exact splitEq_wf w1
      · split at h
        · next t r' hp =>
          simp only [Option.some.injEq, Prod.mk.injEq] at h
          obtain ⟨rfl, rfl⟩ := h
          obtain ⟨w1, w2⟩ := patWord_wf hp hs
          refine ⟨?_, w2⟩
          intro kv hkv
          simp only [Option.some.injEq] at hkv
          subst hkv
          exact handleWord_wf w1
        · split at h
          · simp only [Option.some.injEq, Prod.mk.injEq] at h
            obtain ⟨rfl, rfl⟩ := h
            exact ⟨fun kv hkv => (by cases hkv), wf0_tail hs cut_blank⟩
          · cases h

theorem scan_wf {esc : Bool} : ∀ (fuel : Nat) {s : Str}, WF esc 0 s →
    (∀ kv ∈ (scan fuel s).1, WF esc 0 kv.1 ∧ WF esc 0 kv.2) ∧ WF esc 0 (scan fuel s).2
  | 0, s, hs => by simp only [scan]; exact ⟨by simp, hs⟩
  | fuel + 1, s, hs => by
    simp only [scan]
    split
    · exact ⟨by simp, hs⟩
    · next tok r hst =>
      obtain ⟨w1, w2⟩ := scanStep_wf hst hs
      obtain ⟨i1, i2⟩ := scan_wf fuel w2
      refine ⟨?_, i2⟩
      intro kv hkv
      rcases List.mem_append.1 hkv with hkv | hkv
      · exact w1 kv (by simpa using hkv)
      · exact i1 kv hkv

/-- **`get_attrs_and_remainder`**: every key, every value and the remainder are well formed when the scanned string
    is -/
theorem getAttrsAndRemainder_wf {esc : Bool} {s : Str} (hs : WF esc 0 s) :
    (∀ kv ∈ (getAttrsAndRemainder s).1, WF esc 0 kv.1 ∧ WF esc 0 kv.2) ∧ WF esc 0 (getAttrsAndRemainder s).2 := by
  obtain ⟨w1, w2⟩ := scan_wf (esc := esc) s.length hs
  refine ⟨w1, ?_⟩
  refine (wf0_span (p := (· != '}')) ?_ w2).2
  intro c hc
  have : c = '}' := by simpa using hc
  rw [this]; exact cut_rbrace

/-! ### `sanitize_name` -/

theorem nameChar_ne_ctl {c : Char} (h : nameChar c = true) : c ≠ STX ∧ c ≠ ETX := by
  constructor <;> rintro rfl <;> revert h <;> decide

theorem sanitizeAux_noctl : ∀ (b : Bool) (s : Str), NoCtl (sanitizeAux b s)
  | _, [] => noCtl_nil
  | b, c :: s => by
    simp only [sanitizeAux]
    split
    · next hc => exact noCtl_cons.2 ⟨nameChar_ne_ctl hc, sanitizeAux_noctl false s⟩
    · split
      · exact sanitizeAux_noctl true s
      · exact noCtl_cons.2 ⟨by decide, sanitizeAux_noctl true s⟩

/-- **`sanitize_name`** writes no STX and no ETX: both are outside `NAME_RE`'s class and become `_` -/
theorem sanitizeName_noctl (name : Str) : NoCtl (sanitizeName name) := sanitizeAux_noctl false name

/-! ### `assign_attrs` -/

theorem getA_tok {a : Attrs} (ha : attrsTok a) {k v : Str} (h : getA a k = some v) : WF true 0 v := by
  simp only [getA, Option.map_eq_some_iff] at h
  obtain ⟨kv, hf, rfl⟩ := h
  exact (ha kv (List.mem_of_find?_eq_some hf)).2

theorem setA_tok {a : Attrs} (ha : attrsTok a) {k v : Str} (hk : NoCtl k) (hv : WF true 0 v) : attrsTok (setA a k v) := by
  unfold setA
  split
  · intro kv hkv
    obtain ⟨kv', hm, rfl⟩ := List.mem_map.1 hkv
    split
    · exact ⟨hk, hv⟩
    · exact ha kv' hm
  · intro kv hkv
    rcases List.mem_append.1 hkv with hkv | hkv
    · exact ha kv hkv
    · simp only [List.mem_singleton] at hkv
      subst hkv; exact ⟨hk, hv⟩

theorem classKey_noctl : NoCtl classKey := by decide

theorem assignStep_tok {a : Attrs} (ha : attrsTok a) {kv : Str × Str} (hv : WF true 0 kv.2) :
    attrsTok (assignStep a kv) := by
  unfold assignStep
  split
  · split
    · next c cs hg =>
      exact setA_tok ha classKey_noctl (WF.append (getA_tok ha hg) (wf0_cons cut_blank hv))
    · exact setA_tok ha classKey_noctl hv
  · exact setA_tok ha (sanitizeName_noctl _) hv

theorem assignPairs_tok : ∀ (pairs : List (Str × Str)) {a : Attrs}, attrsTok a → (∀ kv ∈ pairs, WF true 0 kv.2) →
    attrsTok (assignPairs a pairs)
  | [], a, ha, _ => ha
  | kv :: r, a, ha, hp => by
    simp only [assignPairs, List.foldl_cons]
    exact assignPairs_tok r (assignStep_tok ha (hp kv List.mem_cons_self)) (fun kv' h => hp kv' (List.mem_cons_of_mem _ h))

/-- **`assign_attrs`**: the new attributes have names without STX/ETX and well-formed values; the remainder is well
    formed -/
theorem assignAttrs_tok {a : Attrs} (ha : attrsTok a) {g : Str} (hg : WF true 0 g) (strict : Bool) :
    attrsTok (assignAttrs a g strict).1 ∧ WF true 0 (assignAttrs a g strict).2 := by
  obtain ⟨w1, w2⟩ := getAttrsAndRemainder_wf hg
  unfold assignAttrs
  simp only
  split
  · exact ⟨ha, w2⟩
  · exact ⟨assignPairs_tok _ ha (fun kv hkv => (w1 kv hkv).2), w2⟩

/-! ### placement -/

theorem lastBrace_decomp {ok : Str → Bool} : ∀ {s g r : Str}, lastBrace ok s = some (g, r) → s = g ++ '}' :: r
  | [], g, r, h => by simp [lastBrace] at h
  | c :: s, g, r, h => by
    simp only [lastBrace] at h
    split at h
    · cases h
    · split at h
      · next g' r' hl =>
        simp only [Option.some.injEq, Prod.mk.injEq] at h
        obtain ⟨rfl, rfl⟩ := h
        rw [lastBrace_decomp hl]; rfl
      · split at h
        · next hc =>
          simp only [Option.some.injEq, Prod.mk.injEq] at h
          obtain ⟨rfl, rfl⟩ := h
          simp only [Bool.and_eq_true, decide_eq_true_eq] at hc
          rw [hc.1]; rfl
        · cases h

theorem baseFrom_wf {esc : Bool} {ok : Str → Bool} {s g r : Str} (h : baseFrom ok s = some (g, r))
    (hs : WF esc 0 s) : WF esc 0 g ∧ WF esc 0 r := by
  have hd := wf0_dropWhile_cut (p := (· = ' ')) cut_of_isBlankChar hs
  unfold baseFrom at h
  split at h
  · cases h
  · next c r0 hdw =>
    split at h
    · cases h
    · simp only [Option.map_eq_some_iff] at h
      obtain ⟨⟨g', r'⟩, hl, he⟩ := h
      simp only [Prod.mk.injEq] at he
      obtain ⟨rfl, rfl⟩ := he
      rw [hdw, lastBrace_decomp hl, ← List.cons_append] at hd
      exact wf0_cut hd cut_rbrace

/-- `BASE_RE`: the group and the text behind the closing brace -/
theorem baseAt_wf {esc : Bool} {ok : Str → Bool} {s g r : Str} (h : baseAt ok s = some (g, r))
    (hs : WF esc 0 s) : WF esc 0 g ∧ WF esc 0 r := by
  unfold baseAt at h
  split at h
  · next r0 =>
    have h1 := wf0_tail hs cut_lbrace
    split at h
    · next p hp =>
      simp only [Option.some.injEq] at h
      subst h
      exact baseFrom_wf hp (wf0_tail h1 cut_colon)
    · exact baseFrom_wf h h1
  · exact baseFrom_wf h (wf0_tail hs cut_lbrace)
  · cases h

theorem headerSearch_decomp : ∀ {s pre g : Str}, headerSearch s = some (pre, g) →
    ∃ x r, s = pre ++ ' ' :: x ∧ baseAt endOk (x.dropWhile (· = ' ')) = some (g, r)
  | [], pre, g, h => by simp [headerSearch] at h
  | c :: s, pre, g, h => by
    simp only [headerSearch] at h
    split at h
    · next p hp =>
      simp only [Option.some.injEq, Prod.mk.injEq] at h
      obtain ⟨rfl, rfl⟩ := h
      split at hp
      · next hc =>
        exact ⟨s, p.2, by rw [hc]; rfl, hp⟩
      · cases hp
    · simp only [Option.map_eq_some_iff] at h
      obtain ⟨⟨pre', g'⟩, hl, he⟩ := h
      simp only [Prod.mk.injEq] at he
      obtain ⟨rfl, rfl⟩ := he
      obtain ⟨x, r, e, hb⟩ := headerSearch_decomp hl
      exact ⟨x, r, by rw [e]; rfl, hb⟩

theorem blockSearch_decomp : ∀ {s pre g : Str}, blockSearch s = some (pre, g) →
    ∃ x r, s = pre ++ '\n' :: x ∧ baseAt endOk (x.dropWhile (· = ' ')) = some (g, r)
  | [], pre, g, h => by simp [blockSearch] at h
  | c :: s, pre, g, h => by
    simp only [blockSearch] at h
    split at h
    · next p hp =>
      simp only [Option.some.injEq, Prod.mk.injEq] at h
      obtain ⟨rfl, rfl⟩ := h
      split at hp
      · next hc =>
        exact ⟨s, p.2, by rw [hc]; rfl, hp⟩
      · cases hp
    · simp only [Option.map_eq_some_iff] at h
      obtain ⟨⟨pre', g'⟩, hl, he⟩ := h
      simp only [Prod.mk.injEq] at he
      obtain ⟨rfl, rfl⟩ := he
      obtain ⟨x, r, e, hb⟩ := blockSearch_decomp hl
      exact ⟨x, r, by rw [e]; rfl, hb⟩

/-- `HEADER_RE.search`: the text before the match and the group -/
theorem headerSearch_wf {esc : Bool} {s pre g : Str} (h : headerSearch s = some (pre, g)) (hs : WF esc 0 s) :
    WF esc 0 pre ∧ WF esc 0 g := by
  obtain ⟨x, r, e, hb⟩ := headerSearch_decomp h
  rw [e] at hs
  obtain ⟨w1, w2⟩ := wf0_cut hs cut_blank
  exact ⟨w1, (baseAt_wf hb (wf0_dropWhile_cut (p := (· = ' ')) cut_of_isBlankChar w2)).1⟩

/-- `BLOCK_RE.search`: the text before the match and the group -/
theorem blockSearch_wf {esc : Bool} {s pre g : Str} (h : blockSearch s = some (pre, g)) (hs : WF esc 0 s) :
    WF esc 0 pre ∧ WF esc 0 g := by
  obtain ⟨x, r, e, hb⟩ := blockSearch_decomp h
  rw [e] at hs
  obtain ⟨w1, w2⟩ := wf0_cut hs cut_nl
  exact ⟨w1, (baseAt_wf hb (wf0_dropWhile_cut (p := (· = ' ')) cut_of_isBlankChar w2)).1⟩

/-- `INLINE_RE.match` -/
theorem inlineMatch_wf {esc : Bool} {s g r : Str} (h : inlineMatch s = some (g, r)) (hs : WF esc 0 s) :
    WF esc 0 g ∧ WF esc 0 r := baseAt_wf h hs

theorem search_wf {esc : Bool} {header : Bool} {s pre g : Str}
    (h : (if header then headerSearch s else blockSearch s) = some (pre, g)) (hs : WF esc 0 s) :
    WF esc 0 pre ∧ WF esc 0 g := by
  cases header
  · exact blockSearch_wf h hs
  · exact headerSearch_wf h hs

/-! ### what `run` does to one element -/

/-- the block branch, the string: the new text / tail is well formed (in both modes: `esc = false` is `NoCtl`) -/
theorem blockApply_str {esc : Bool} (header hashes : Bool) (a : Attrs) {text : Str} (ht : WF esc 0 text) :
    WF esc 0 (blockApply header hashes a text).2 := by
  unfold blockApply
  split
  · exact ht
  · next pre g hsrch =>
    obtain ⟨w1, -⟩ := search_wf hsrch ht
    simp only
    split
    · simp only
      split
      · exact wf0_rstripP isSpace_ne_ctl (wf0_rstripP (eq_ne_ctl (by decide)) w1)
      · exact w1
    · exact ht

/-- the block branch, the attributes -/
theorem blockApply_tok (header hashes : Bool) {a : Attrs} (ha : attrsTok a) {text : Str} (ht : WF true 0 text) :
    attrsTok (blockApply header hashes a text).1 := by
  unfold blockApply
  split
  · exact ha
  · next pre g hsrch =>
    obtain ⟨-, w2⟩ := search_wf hsrch ht
    simp only
    split
    · exact (assignAttrs_tok ha w2 true).1
    · exact ha

/-- the inline branch -/
theorem inlineApply_tok {a : Attrs} (ha : attrsTok a) {tail : Str} (ht : WF true 0 tail) :
    attrsTok (inlineApply a tail).1 ∧ WF true 0 (inlineApply a tail).2 := by
  unfold inlineApply
  split
  · exact ⟨ha, ht⟩
  · next g rest hm =>
    obtain ⟨w1, w2⟩ := inlineMatch_wf hm ht
    obtain ⟨v1, v2⟩ := assignAttrs_tok ha w1 false
    exact ⟨v1, WF.append w2 v2⟩

/-! ### the placement rule of a block-level element -/

/-- what the block branch may return: attributes, a new text, a new tail for one child -/
def BlockGood (text : Option Str) (r : Attrs × Option Str × Option (Nat × Str)) : Prop :=
  attrsTok r.1 ∧ (∀ t, r.2.1 = some t → WF true 0 t ∧ (NoCtlO text → NoCtl t)) ∧
  (∀ i t, r.2.2 = some (i, t) → WF true 0 t)

/-- `onTail` of `blockRule` -/
def tailRes (header hashes : Bool) (attrs : Attrs) (i : Nat) (tl : Str) : Attrs × Option Str × Option (Nat × Str) :=
  if (blockApply header hashes attrs tl).2 = tl then ((blockApply header hashes attrs tl).1, none, none)
  else ((blockApply header hashes attrs tl).1, none, some (i, (blockApply header hashes attrs tl).2))

/-- `onText` of `blockRule` -/
def textRes (header hashes : Bool) (attrs : Attrs) (text : Option Str) : Attrs × Option Str × Option (Nat × Str) :=
  if Node.truthy text then
    if (blockApply header hashes attrs (text.getD [])).2 = text.getD [] then
      ((blockApply header hashes attrs (text.getD [])).1, none, none)
    else ((blockApply header hashes attrs (text.getD [])).1, some (blockApply header hashes attrs (text.getD [])).2, none)
  else (attrs, none, none)

theorem blockRule_eq (tag : Tag) (attrs : Attrs) (text : Option Str) (children : List Node) :
    blockRule tag attrs text children =
      (if (!children.isEmpty && tag == .name "li".toList) = true then
        match firstListPos children 0 with
        | none =>
          if Node.truthy (children.getLast?.bind (·.tail)) = true then
            tailRes (isHeaderTag tag || isCellTag tag) (isHeaderTag tag) attrs (children.length - 1)
              ((children.getLast?.bind (·.tail)).getD [])
          else textRes (isHeaderTag tag || isCellTag tag) (isHeaderTag tag) attrs text
        | some pos =>
          if (decide (pos > 0) && Node.truthy ((children[pos - 1]?).bind (·.tail))) = true then
            tailRes (isHeaderTag tag || isCellTag tag) (isHeaderTag tag) attrs (pos - 1)
              (((children[pos - 1]?).bind (·.tail)).getD [])
          else textRes (isHeaderTag tag || isCellTag tag) (isHeaderTag tag) attrs text
      else if (!children.isEmpty && Node.truthy (children.getLast?.bind (·.tail))) = true then
        tailRes (isHeaderTag tag || isCellTag tag) (isHeaderTag tag) attrs (children.length - 1)
          ((children.getLast?.bind (·.tail)).getD [])
      else textRes (isHeaderTag tag || isCellTag tag) (isHeaderTag tag) attrs text) := rfl

theorem tailRes_good (header hashes : Bool) {attrs : Attrs} (ha : attrsTok attrs) (text : Option Str) (i : Nat)
    {tl : Str} (ht : WF true 0 tl) : BlockGood text (tailRes header hashes attrs i tl) := by
  unfold tailRes
  split
  · exact ⟨blockApply_tok header hashes ha ht, fun t e => (by cases e), fun i t e => (by cases e)⟩
  · refine ⟨blockApply_tok header hashes ha ht, fun t e => (by cases e), ?_⟩
    intro j t e
    simp only [Option.some.injEq, Prod.mk.injEq] at e
    rw [← e.2]; exact blockApply_str header hashes attrs ht

theorem textRes_good (header hashes : Bool) {attrs : Attrs} (ha : attrsTok attrs) {text : Option Str}
    (ht : WFO true 0 text) : BlockGood text (textRes header hashes attrs text) := by
  unfold textRes
  split
  · split
    · exact ⟨blockApply_tok header hashes ha ht, fun t e => (by cases e), fun i t e => (by cases e)⟩
    · refine ⟨blockApply_tok header hashes ha ht, ?_, fun i t e => (by cases e)⟩
      intro t e
      simp only [Option.some.injEq] at e
      rw [← e]
      exact ⟨blockApply_str header hashes attrs ht,
        fun hn => noCtl_of_wf (blockApply_str header hashes attrs (WF.of_noCtl (esc := false) hn))⟩
  · exact ⟨ha, fun t e => (by cases e), fun i t e => (by cases e)⟩

theorem wf_bind_tail {children : List Node} (hk : ∀ c ∈ children, WFO true 0 c.tail) {o : Option Node}
    (ho : ∀ c, o = some c → c ∈ children) : WF true 0 ((o.bind (·.tail)).getD []) := by
  cases o with
  | none => exact .nil
  | some c => exact hk c (ho c rfl)

/-- **the placement rule**: whatever string it searches (the text, or the tail of a child), the new attributes, the
    new text and the new tail of the child are well formed; a text without STX/ETX stays so -/
theorem blockRule_good (tag : Tag) {attrs : Attrs} (ha : attrsTok attrs) {text : Option Str} (ht : WFO true 0 text)
    {children : List Node} (hk : ∀ c ∈ children, WFO true 0 c.tail) :
    BlockGood text (blockRule tag attrs text children) := by
  have hlast : WF true 0 ((children.getLast?.bind (·.tail)).getD []) :=
    wf_bind_tail hk (fun c hc => List.mem_of_getLast? hc)
  have hprev : ∀ pos : Nat, WF true 0 (((children[pos - 1]?).bind (·.tail)).getD []) :=
    fun pos => wf_bind_tail hk (fun c hc => List.mem_of_getElem? hc)
  rw [blockRule_eq]
  split
  · split
    · split
      · exact tailRes_good _ _ ha text _ hlast
      · exact textRes_good _ _ ha ht
    · split
      · exact tailRes_good _ _ ha text _ (hprev _)
      · exact textRes_good _ _ ha ht
  · split
    · exact tailRes_good _ _ ha text _ hlast
    · exact textRes_good _ _ ha ht

/-! ### the walk -/

theorem kids_tails {l : List Node} (h : Node.ForallL FNodeX l) : ∀ c ∈ l, WFO true 0 c.tail := by
  intro c hc
  exact (((Node.forall_iff _ _).1 ((Node.forallL_iff _ _).1 h c hc)).1).2.2.1

/-- the tail an element is visited with: the one its parent gave it, else its own -/
def selTail (tailOv tail0 : Option Str) : Option Str := match tailOv with | some t => some t | none => tail0

theorem tailOv_wf {tailOv tail0 : Option Str} (h3 : WFO true 0 tail0) (hov : ∀ t, tailOv = some t → WF true 0 t) :
    WFO true 0 (selTail tailOv tail0) := by
  cases tailOv with
  | none => exact h3
  | some t => exact hov t rfl

/-- the visit of one element once its tail is known -/
def attrBody (bl : List Str) (tag : Tag) (attrs : Attrs) (text : Option Str) (ta : Bool) (children : List Node)
    (tail : Option Str) (tla : Bool) : Node :=
  if TreeProc.isBlockLevel bl tag then
    ⟨tag, (blockRule tag attrs text children).1,
      (match (blockRule tag attrs text children).2.1 with | some t => some t | none => text),
      (match (blockRule tag attrs text children).2.1 with | some _ => false | none => ta),
      attrKids bl (blockRule tag attrs text children).2.2 0 children, tail, tla⟩
  else if Node.truthy tail then
    match inlineMatch (tail.getD []) with
    | some _ =>
      ⟨tag, (inlineApply attrs (tail.getD [])).1, text, ta, attrKids bl none 0 children,
        some (inlineApply attrs (tail.getD [])).2, false⟩
    | none => ⟨tag, attrs, text, ta, attrKids bl none 0 children, tail, tla⟩
  else ⟨tag, attrs, text, ta, attrKids bl none 0 children, tail, tla⟩

theorem attrNode_eq (bl : List Str) (tailOv : Option Str) (tag : Tag) (attrs : Attrs) (text : Option Str) (ta : Bool)
    (children : List Node) (tail0 : Option Str) (tla0 : Bool) :
    attrNode bl tailOv ⟨tag, attrs, text, ta, children, tail0, tla0⟩ =
      attrBody bl tag attrs text ta children (selTail tailOv tail0)
        (match tailOv with | some _ => false | none => tla0) := by
  unfold attrNode
  rfl

mutual
theorem attrNode_fnodeX (bl : List Str) : ∀ (n : Node) (tailOv : Option Str), n.Forall FNodeX →
    (∀ t, tailOv = some t → WF true 0 t) → (attrNode bl tailOv n).Forall FNodeX
  | ⟨tag, attrs, text, ta, children, tail0, tla0⟩, tailOv, h, hov => by
    simp only [Node.Forall] at h
    obtain ⟨⟨h1, h2, h3, h4, h5⟩, hk⟩ := h
    simp only at h1 h2 h3 h4 h5
    have htail := tailOv_wf h3 hov
    rw [attrNode_eq]
    generalize selTail tailOv tail0 = tail at htail
    generalize (match tailOv with | some _ => false | none => tla0) = tla
    unfold attrBody
    split
    · obtain ⟨g1, g2, g3⟩ := blockRule_good tag h2 h4 (kids_tails hk)
      simp only [Node.Forall]
      refine ⟨⟨h1, g1, htail, ?_, ?_⟩, attrKids_fnodeX bl _ 0 children hk (fun j t e => g3 j t e)⟩
      · show WFO true 0 (match (blockRule tag attrs text children).2.1 with | some t => some t | none => text)
        cases hr : (blockRule tag attrs text children).2.1 with
        | none => exact h4
        | some t => exact (g2 t hr).1
      · intro hc
        show NoCtlO (match (blockRule tag attrs text children).2.1 with | some t => some t | none => text)
        cases hr : (blockRule tag attrs text children).2.1 with
        | none => exact h5 hc
        | some t => exact (g2 t hr).2 (h5 hc)
    · split
      · split
        · obtain ⟨v1, v2⟩ := inlineApply_tok h2 htail
          simp only [Node.Forall]
          exact ⟨⟨h1, v1, v2, h4, h5⟩, attrKids_fnodeX bl none 0 children hk (fun j t e => by cases e)⟩
        · simp only [Node.Forall]
          exact ⟨⟨h1, h2, htail, h4, h5⟩, attrKids_fnodeX bl none 0 children hk (fun j t e => by cases e)⟩
      · simp only [Node.Forall]
        exact ⟨⟨h1, h2, htail, h4, h5⟩, attrKids_fnodeX bl none 0 children hk (fun j t e => by cases e)⟩
theorem attrKids_fnodeX (bl : List Str) (ov : Option (Nat × Str)) : ∀ (i : Nat) (l : List Node),
    Node.ForallL FNodeX l → (∀ j t, ov = some (j, t) → WF true 0 t) → Node.ForallL FNodeX (attrKids bl ov i l)
  | _, [], _, _ => by simp [attrKids, Node.ForallL]
  | i, c :: r, h, hov => by
    simp only [Node.ForallL] at h
    unfold attrKids
    simp only [Node.ForallL]
    refine ⟨attrNode_fnodeX bl c _ h.1 ?_, attrKids_fnodeX bl ov (i + 1) r h.2 hov⟩
    intro t e
    cases ov with
    | none => cases e
    | some jt =>
      obtain ⟨j, t'⟩ := jt
      simp only at e
      split at e
      · simp only [Option.some.injEq] at e
        subst e; exact hov j t' rfl
      · cases e
end

/-- **`AttrListTreeprocessor.run` keeps `FNodeX`**: names without STX/ETX, values, texts and tails made of ordinary
    characters and whole escape tokens -/
theorem attrList_run_fnodeX (bl : List Str) {t : Node} (h : t.Forall FNodeX) : (AttrListTree.run bl t).Forall FNodeX :=
  attrNode_fnodeX bl t none h (fun _ e => by cases e)

end MdVerif.NoCtlX
