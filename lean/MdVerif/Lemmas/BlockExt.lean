/-
Helper lemmas for `Props/C16BlockExt.lean`: the extended block parser of `Model/BlockExt.lean` against the core
parser of `Model/Block.lean`.  Core Lean only.
-/
import MdVerif.Model.BlockExt

namespace MdVerif.BlockExt
open Py Block

/-! ### (a) no extension = the core parser -/

theorem dispatchX_core (tab : Nat) (pb : PB) (state : List BState) (refs : Refs) (parent : Node) (b : Str)
    (rest : List Str) :
    dispatchX XCfg.core tab pb state refs parent b rest = dispatch tab pb state refs parent b rest := by
  simp only [dispatchX, tailEmpty, tailList, tailDef, tailQuote, tailFootnote, tailAbbr, tailRef, dispatch, XCfg.core]
  simp
  rfl

theorem parseBlocksX_core (tab fuel : Nat) : parseBlocksX XCfg.core tab fuel = parseBlocks tab fuel := by
  induction fuel with
  | zero =>
    funext state refs parent blocks
    cases blocks <;> simp [parseBlocksX, parseBlocks]
  | succ f ih =>
    funext state refs parent blocks
    cases blocks with
    | nil => simp [parseBlocksX, parseBlocks]
    | cons b rest =>
      simp only [parseBlocksX, parseBlocks, dispatchX_core, ih]
      rfl

/-! ### the parameterised `ListIndentProcessor` / `OListProcessor` at the core parameters -/

mutual
theorem getLevelNodeX_core (il : Nat) : ∀ (n : Node) (level : Nat),
    getLevelNodeX isListTag isItemTag il level n = getLevelNode il level n
  | ⟨_, _, _, _, children, _, _⟩, level => by
    simp only [getLevelNodeX, getLevelNode]
    exact getLevelKidsX_core il children level
theorem getLevelKidsX_core (il : Nat) : ∀ (l : List Node) (level : Nat),
    getLevelKidsX isListTag isItemTag il level l = getLevelKids il level l
  | [], level => by simp [getLevelKidsX, getLevelKids]
  | [c], level => by
    simp only [getLevelKidsX, getLevelKids]
    rw [getLevelNodeX_core il c]
  | c :: d :: r, level => by
    simp only [getLevelKidsX, getLevelKids]
    exact getLevelKidsX_core il (d :: r) level
end

theorem getLevelX_core (tab : Nat) (state : List BState) (parent : Node) (b : Str) :
    getLevelX isListTag isItemTag tab state parent b = getLevel tab state parent b := by
  simp only [getLevelX, getLevel, getLevelNodeX_core]

/-- the generalised `ListIndentProcessor.run` with `ITEM_TYPES = ['li']`, `LIST_TYPES = ['ul', 'ol']` is the core one -/
theorem indentPX_core (tab : Nat) (pb : PB) (state : List BState) (refs : Refs) (parent : Node) (b : Str)
    (rest : List Str) :
    indentPX isListTag isItemTag "li" tab pb state refs parent b rest = indentP tab pb state refs parent b rest := by
  simp only [indentPX, indentP, getLevelX_core]
  rfl

theorem indentTestX_core (tab : Nat) (state : List BState) (parent : Node) (b : Str) :
    indentTestX isListTag isItemTag tab state parent b =
      (startsWith b (spaces tab) && !isstate state .detabbed &&
        (isItemTag parent || (match parent.last? with | some c => isListTag c | none => false))) := rfl

theorem isSib_default (n : Node) : ListParams.default.isSib n = isListTag n := by
  simp [ListParams.isSib, ListParams.default, isListTag, Bool.or_comm]

theorem getItemsX_default (tab : Nat) (b : Str) : getItemsX .default tab b = getItems tab b := by
  have h : getItemsStepX .default tab = getItemsStep tab := by
    funext items line
    simp only [getItemsStepX, getItemsStep, ListParams.default]
    rfl
  simp only [getItemsX, getItems, h]

/-- the parameterised `OListProcessor.run` at the class attributes of `OListProcessor` / `UListProcessor` is the
    core one -/
theorem listPX_default (tab : Nat) (pb : PB) (state : List BState) (refs : Refs) (parent : Node) (b : Str)
    (rest : List Str) (tag : String) :
    listPX .default tab pb state refs parent b rest tag = listP tab pb state refs parent b rest tag := by
  simp only [listPX, listP, getItemsX_default, isSib_default]
  simp [ListParams.default]
  rfl

end MdVerif.BlockExt
