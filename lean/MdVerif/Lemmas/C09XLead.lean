/-
Helper lemmas for C09 on the extension pipeline (`Props/C09X.lean`), part 2: blank lines in front of the document.
A line feed in front of the source is a line feed in front of the normalised text; the fenced-code preprocessor
shifts (`Fenced.fencedRunA_prefix`), the raw-HTML preprocessor copies it, and the extended block parser — at the
childless root — lets the empty-block processor consume it, also when the admonition processor (priority 105, before
`empty`) sees the block first: its pattern `(?:^|\n)!!! …` matches behind the line feed what it matches at the start.
Core Lean only.
-/
import MdVerif.Lemmas.C09X
import MdVerif.Lemmas.BlockExtFuelMono
import MdVerif.Lemmas.FencedCodeAttrs
import MdVerif.Lemmas.NormalizeDoc

namespace MdVerif.C09X
open Py Block BlockExt BlockExt.Fuel

/-! ### the extended block loop, fuel-free -/

/-- the loop of the extended block parser answers `res` with some fuel -/
def RunX (tables : Bool) (cfg : XCfg) (tab : Nat) (st : List BState) (refs : Refs) (p : Node) (bs : List Str)
    (res : Node × Refs) : Prop :=
  ∃ f, parseBlocksXT tables cfg tab f st refs p bs = some res

theorem le_fuel (tables : Bool) (cfg : XCfg) (tab : Nat) {f g : Nat} (h : f ≤ g) :
    Le (parseBlocksXT tables cfg tab f) (parseBlocksXT tables cfg tab g) := by
  intro st refs parent bl r hr
  have := parseBlocksXT_fuel_mono (g - f) hr
  rwa [show f + (g - f) = g by omega] at this

theorem RunX.det {tables cfg tab st refs p bs r r'} (h : RunX tables cfg tab st refs p bs r)
    (h' : RunX tables cfg tab st refs p bs r') : r = r' := by
  obtain ⟨f, hf⟩ := h
  obtain ⟨g, hg⟩ := h'
  have a := le_fuel tables cfg tab (Nat.le_max_left f g) _ _ _ _ _ hf
  have b := le_fuel tables cfg tab (Nat.le_max_right f g) _ _ _ _ _ hg
  rw [a] at b
  exact Option.some.inj b

theorem parseDocumentXT_eq_iff (tables : Bool) (cfg : XCfg) (tab : Nat) (htab : cfg.admonition = true → 0 < tab)
    (T : Str) (r : Node × Refs) :
    parseDocumentXT tables cfg tab T = some r ↔ RunX tables cfg tab [] [] (Node.el "div") (splitS ['\n', '\n'] T) r := by
  constructor
  · intro h; exact ⟨_, h⟩
  · intro h
    have ht := parseDocumentXT_total tables cfg tab htab T
    cases hp : parseDocumentXT tables cfg tab T with
    | none => rw [hp] at ht; cases ht
    | some r' => rw [RunX.det h ⟨_, hp⟩]

theorem parseDocumentXT_congr (tables : Bool) (cfg : XCfg) (tab : Nat) (htab : cfg.admonition = true → 0 < tab)
    {T T' : Str}
    (h : ∀ r, RunX tables cfg tab [] [] (Node.el "div") (splitS ['\n', '\n'] T) r →
      RunX tables cfg tab [] [] (Node.el "div") (splitS ['\n', '\n'] T') r) :
    parseDocumentXT tables cfg tab T' = parseDocumentXT tables cfg tab T := by
  have ht := parseDocumentXT_total tables cfg tab htab T
  cases hp : parseDocumentXT tables cfg tab T with
  | none => rw [hp] at ht; cases ht
  | some r =>
    exact (parseDocumentXT_eq_iff tables cfg tab htab T' r).2 (h r ((parseDocumentXT_eq_iff tables cfg tab htab T r).1 hp))


/-! ### the admonition pattern behind a line feed -/

theorem nlSearchAux_shift {α : Type} (f : Str → Option α) (i : Nat) (s : Str) :
    nlSearchAux f (i + 1) s = (nlSearchAux f i s).map (fun r => (r.1 + 1, r.2)) := by
  induction s generalizing i with
  | nil => rfl
  | cons c r ih =>
    simp only [nlSearchAux]
    split
    · cases f r with
      | some a => rfl
      | none => exact ih (i + 1)
    · exact ih (i + 1)

theorem admAt_nl (y : Str) : admAt ('\n' :: y) = none := by
  simp [admAt, startsWith]

/-- `RE.search` on a block with a line feed in front: the same match, one character further — except that a match
    at the very start is now a match of the `\n` alternative, still at position 0 -/
theorem admSearch_nl_cases (y : Str) :
    (admSearch ('\n' :: y) = none ∧ admSearch y = none) ∨
    (∃ en g1 g2, admSearch ('\n' :: y) = some (0, en + 1, g1, g2) ∧ admSearch y = some (0, en, g1, g2)) ∨
    (∃ st en g1 g2, admSearch ('\n' :: y) = some (st + 1, en + 1, g1, g2) ∧ admSearch y = some (st, en, g1, g2)) := by
  simp only [admSearch, nlSearch, admAt_nl, nlSearchAux, if_true]
  cases ha : admAt y with
  | some a =>
    obtain ⟨g1, g2, n⟩ := a
    right; left
    exact ⟨0 + 0 + n, g1, g2, by simp; omega, rfl⟩
  | none =>
    simp only [nlSearchAux_shift]
    cases hs : nlSearchAux admAt 0 y with
    | none => left; simp
    | some r =>
      obtain ⟨st, o, g1, g2, n⟩ := r
      right; right
      exact ⟨st, st + o + n, g1, g2, by simp; omega, rfl⟩

theorem admSearch_nil : admSearch [] = none := by
  simp [admSearch, nlSearch, admAt, startsWith, nlSearchAux]

theorem admContent_childless (tab : Nat) {p : Node} (hp : p.last? = none) (b : Str) : admContent tab p b = none := by
  simp [admContent, hp]

theorem emptyP_childless (refs : Refs) {p : Node} (hp : p.last? = none) (b : Str) (rest : List Str) :
    emptyP refs p b rest = (p, refs, if (b.drop 1).isEmpty then rest else b.drop 1 :: rest) := by
  simp [emptyP, hp]

theorem admonitionP_re_split (tab : Nat) (pb : PB) (state : List BState) (refs : Refs) (p : Node) (b : Str)
    (rest : List Str) (s e : Nat) (g1 : Str) (g2 : Option Str) :
    admonitionP tab pb state refs p b rest (.re s e g1 g2) =
      match (if s > 0 then pb state refs p [b.take s] else some (p, refs)) with
      | none => none
      | some (p1, r1) => admonitionP tab pb state r1 p1 b rest (.re 0 e g1 g2) := by
  simp only [admonitionP]
  cases (if s > 0 then pb state refs p [b.take s] else some (p, refs)) with
  | none => rfl
  | some x => obtain ⟨p1, r1⟩ := x; rfl

theorem admonitionP_re0_nl (tab : Nat) (pb : PB) (state : List BState) (refs : Refs) (p : Node) (y : Str)
    (rest : List Str) (e : Nat) (g1 : Str) (g2 : Option Str) :
    admonitionP tab pb state refs p ('\n' :: y) rest (.re 0 (e + 1) g1 g2) =
      admonitionP tab pb state refs p y rest (.re 0 e g1 g2) := by
  simp only [admonitionP, List.drop_succ_cons, gt_iff_lt, Nat.lt_irrefl, if_false]

/-- dispatch of an empty block at a childless parent: consumed -/
theorem parseBlocksXT_nil_block (tables : Bool) (cfg : XCfg) (tab f : Nat) (state : List BState) (refs : Refs) {p : Node}
    (hp : p.last? = none) (rest : List Str) :
    parseBlocksXT tables cfg tab (f + 1) state refs p ([] :: rest) = parseBlocksXT tables cfg tab f state refs p rest := by
  have ht : admTest tab p [] = none := by simp [admTest, admSearch_nil, admContent_childless tab hp]
  simp only [parseBlocksXT, dispatchXT, ht]
  have : (if cfg.admonition then (none : Option AdmHit) else none) = none := by split <;> rfl
  simp only [this, tailEmptyT, List.isEmpty_nil, Bool.true_or, if_true, emptyP_childless refs hp]
  simp

/-- **a line feed in front of the first block, at a childless parent**: what the loop answers, it answers for the
    block without the line feed (which disappears when nothing else is in it) -/
theorem leadX (tables : Bool) (cfg : XCfg) (tab : Nat) : ∀ (f : Nat) (state : List BState) (refs : Refs) (p : Node)
    (y : Str) (rest : List Str) (r : Node × Refs), p.last? = none →
    parseBlocksXT tables cfg tab f state refs p (('\n' :: y) :: rest) = some r →
    RunX tables cfg tab state refs p (if y.isEmpty then rest else y :: rest) r := by
  intro f
  induction f with
  | zero => intro state refs p y rest r _ h; simp [parseBlocksXT] at h
  | succ f ih =>
    intro state refs p y rest r hp h
    simp only [parseBlocksXT] at h
    -- the empty-block processor
    have hempty : tailEmptyT tables cfg tab (parseBlocksXT tables cfg tab f) state refs p ('\n' :: y) rest =
        some (p, refs, if y.isEmpty then rest else y :: rest) := by
      simp [tailEmptyT, startsWith, emptyP_childless refs hp]
    by_cases hadm : cfg.admonition = true
    · rcases admSearch_nl_cases y with ⟨h1, _⟩ | ⟨en, g1, g2, h1, h2⟩ | ⟨st, en, g1, g2, h1, h2⟩
      · have ht : admTest tab p ('\n' :: y) = none := by simp [admTest, h1, admContent_childless tab hp]
        simp only [dispatchXT, hadm, if_true, ht, hempty] at h
        exact ⟨f, h⟩
      · have ht : admTest tab p ('\n' :: y) = some (.re 0 (en + 1) g1 g2) := by simp [admTest, h1]
        have ht2 : admTest tab p y = some (.re 0 en g1 g2) := by simp [admTest, h2]
        have hy : y.isEmpty = false := by
          cases y with
          | nil => rw [admSearch_nil] at h2; cases h2
          | cons c y' => rfl
        simp only [dispatchXT, hadm, if_true, ht, admonitionP_re0_nl] at h
        refine ⟨f + 1, ?_⟩
        simp only [hy, Bool.false_eq_true, if_false, parseBlocksXT, dispatchXT, hadm, if_true, ht2]
        exact h
      · have ht : admTest tab p ('\n' :: y) = some (.re (st + 1) (en + 1) g1 g2) := by simp [admTest, h1]
        have ht2 : admTest tab p y = some (.re st en g1 g2) := by simp [admTest, h2]
        have hy : y.isEmpty = false := by
          cases y with
          | nil => rw [admSearch_nil] at h2; cases h2
          | cons c y' => rfl
        simp only [dispatchXT, hadm, if_true, ht] at h
        rw [admonitionP_re_split] at h
        simp only [Nat.succ_pos, if_true, List.take_succ_cons, gt_iff_lt] at h
        cases hpre : parseBlocksXT tables cfg tab f state refs p ['\n' :: y.take st] with
        | none => rw [hpre] at h; simp at h
        | some pr =>
          obtain ⟨p1, r1⟩ := pr
          rw [hpre] at h
          simp only [admonitionP_re0_nl] at h
          obtain ⟨f1, hf1⟩ := ih state refs p (y.take st) [] (p1, r1) hp hpre
          -- the turn without the line feed, with the larger fuel
          cases hd : admonitionP tab (parseBlocksXT tables cfg tab f) state r1 p1 y rest (.re 0 en g1 g2) with
          | none => rw [hd] at h; simp at h
          | some tr =>
            obtain ⟨p2, r2, bl2⟩ := tr
            rw [hd] at h
            simp only at h
            let F := max f f1
            have hleF : Le (parseBlocksXT tables cfg tab f) (parseBlocksXT tables cfg tab F) :=
              le_fuel tables cfg tab (Nat.le_max_left f f1)
            have hleF1 : Le (parseBlocksXT tables cfg tab f1) (parseBlocksXT tables cfg tab F) :=
              le_fuel tables cfg tab (Nat.le_max_right f f1)
            have hd' := admonitionP_le hleF hd
            have hcont := hleF _ _ _ _ _ h
            refine ⟨F + 1, ?_⟩
            simp only [hy, Bool.false_eq_true, if_false, parseBlocksXT, dispatchXT, hadm, if_true, ht2]
            rw [admonitionP_re_split]
            by_cases hst : st > 0
            · have hne : (y.take st).isEmpty = false := by
                cases y with
                | nil => cases hy
                | cons c y' =>
                  cases st with
                  | zero => omega
                  | succ k => rfl
              simp only [hne, Bool.false_eq_true, if_false] at hf1
              simp only [hst, if_true, hleF1 _ _ _ _ _ hf1, hd']
              exact hcont
            · have hst0 : st = 0 := by omega
              subst hst0
              simp only [List.take_zero, List.isEmpty_nil, if_true, parseBlocksXT] at hf1
              have e : (p, refs) = (p1, r1) := by
                cases f1 <;> simpa [parseBlocksXT] using hf1
              obtain ⟨rfl, rfl⟩ := Prod.mk.inj e
              simp only [Nat.lt_irrefl, if_false, gt_iff_lt, hd']
              exact hcont
    · have hadm' : cfg.admonition = false := by simpa using hadm
      simp only [dispatchXT, hadm', Bool.false_eq_true, if_false, hempty] at h
      exact ⟨f, h⟩


/-- the loop answers something (the extended parser is total) -/
theorem RunX.total (tables : Bool) (cfg : XCfg) (tab : Nat) (htab : cfg.admonition = true → 0 < tab)
    (st : List BState) (refs : Refs) (p : Node) (bs : List Str) : ∃ r, RunX tables cfg tab st refs p bs r := by
  have := parseBlocksXT_total tables cfg tab htab (need st bs) st refs p bs (Nat.le_refl _)
  cases h : parseBlocksXT tables cfg tab (need st bs) st refs p bs with
  | none => rw [h] at this; cases this
  | some r => exact ⟨r, _, h⟩

theorem leadX_iff (tables : Bool) (cfg : XCfg) (tab : Nat) (htab : cfg.admonition = true → 0 < tab)
    (state : List BState) (refs : Refs) {p : Node} (hp : p.last? = none) (y : Str) (rest : List Str) (r : Node × Refs) :
    RunX tables cfg tab state refs p (('\n' :: y) :: rest) r ↔
      RunX tables cfg tab state refs p (if y.isEmpty then rest else y :: rest) r := by
  constructor
  · rintro ⟨f, h⟩; exact leadX tables cfg tab f state refs p y rest r hp h
  · intro h
    obtain ⟨r', f, hf⟩ := RunX.total tables cfg tab htab state refs p (('\n' :: y) :: rest)
    have := leadX tables cfg tab f state refs p y rest r' hp hf
    rw [RunX.det h this]
    exact ⟨f, hf⟩

theorem nilX_iff (tables : Bool) (cfg : XCfg) (tab : Nat) (state : List BState) (refs : Refs) {p : Node}
    (hp : p.last? = none) (rest : List Str) (r : Node × Refs) :
    RunX tables cfg tab state refs p ([] :: rest) r ↔ RunX tables cfg tab state refs p rest r := by
  constructor
  · rintro ⟨f, h⟩
    cases f with
    | zero => simp [parseBlocksXT] at h
    | succ f => rw [parseBlocksXT_nil_block _ _ _ _ _ _ hp] at h; exact ⟨f, h⟩
  · rintro ⟨f, h⟩
    exact ⟨f + 1, by rw [parseBlocksXT_nil_block _ _ _ _ _ _ hp]; exact h⟩

open NormDoc in
theorem leading_nlX (tables : Bool) (cfg : XCfg) (tab : Nat) (htab : cfg.admonition = true → 0 < tab) :
    ∀ (n : Nat) (T : Str), T.length ≤ n → ∀ res,
    RunX tables cfg tab [] [] (Node.el "div") (blocks ('\n' :: T)) res ↔
      RunX tables cfg tab [] [] (Node.el "div") (blocks T) res := by
  have hdiv : (Node.el "div").last? = none := rfl
  intro n
  induction n with
  | zero =>
    intro T hT res
    have : T = [] := List.length_eq_zero_iff.1 (by omega)
    subst this
    rw [blocks_single_nl, blocks_nil, leadX_iff tables cfg tab htab [] [] hdiv, nilX_iff tables cfg tab [] [] hdiv]
    rfl
  | succ n ih =>
    intro T hT res
    cases T with
    | nil =>
      rw [blocks_single_nl, blocks_nil, leadX_iff tables cfg tab htab [] [] hdiv, nilX_iff tables cfg tab [] [] hdiv]
      rfl
    | cons c T' =>
      by_cases hc : c = '\n'
      · subst hc
        rw [blocks_nn, nilX_iff tables cfg tab [] [] hdiv]
        exact (ih T' (by simpa using hT) res).symm
      · rw [blocks_nl_ne hc, blocks_cons_ne hc, leadX_iff tables cfg tab htab [] [] hdiv]
        simp

theorem parseDocumentXT_cons_nl (tables : Bool) (cfg : XCfg) (tab : Nat) (htab : cfg.admonition = true → 0 < tab)
    (T : Str) : parseDocumentXT tables cfg tab ('\n' :: T) = parseDocumentXT tables cfg tab T :=
  (parseDocumentXT_congr tables cfg tab htab
    (fun r h => (leading_nlX tables cfg tab htab T.length T (Nat.le_refl _) r).1 h)).symm


/-! ### the preprocessors -/

open PipelineX Fenced

theorem admNonAscii_cons_nl (t : Str) : admNonAscii ('\n' :: t) = admNonAscii t := by
  simp [admNonAscii]

theorem fencedHasConfig_prefix (pre : Str) (hp : plainPrefix pre) (fuel : Nat) (t : Str) (j i k : Nat)
    (hji : (j = pre.length + i ∧ 1 ≤ i) ∨ (j = 0 ∧ i = 0)) :
    fencedHasConfig fuel (pre ++ t) j k = fencedHasConfig fuel t i k := by
  induction fuel generalizing t j i k with
  | zero => rfl
  | succ f ih =>
    have hfind : fenceFindFrom (pre ++ t) j = (fenceFindFrom t i).map (shift pre.length) := by
      rcases hji with ⟨rfl, hi⟩ | ⟨rfl, rfl⟩
      · exact fenceFindFrom_prefix pre t i hi
      · exact fenceFindFrom_prefix0 pre t hp
    simp only [fencedHasConfig, hfind]
    cases fenceFindFrom t i with
    | none => rfl
    | some m =>
      have htext : ∀ ph : Str, (pre ++ t).take (pre.length + m.start) ++ '\n' :: (ph ++ '\n' ::
          (pre ++ t).drop (pre.length + m.stop)) = pre ++ (t.take m.start ++ '\n' :: (ph ++ '\n' :: t.drop m.stop)) := by
        intro ph
        rw [take_prefix, drop_prefix, List.append_assoc]
      have hidx : ∀ n : Nat, (pre.length + m.start + 1 + n = pre.length + (m.start + 1 + n) ∧ 1 ≤ m.start + 1 + n) ∨
          (pre.length + m.start + 1 + n = 0 ∧ m.start + 1 + n = 0) := fun n => Or.inl ⟨by omega, by omega⟩
      have hnext := ih (t.take m.start ++ '\n' :: (placeholder k ++ '\n' :: t.drop m.stop))
        (pre.length + m.start + 1 + (placeholder k).length) (m.start + 1 + (placeholder k).length) (k + 1) (hidx _)
      have hskip := ih t (pre.length + attrsEnd t m (m.attrs.getD [])) (attrsEnd t m (m.attrs.getD [])) k
        (Or.inl ⟨rfl, attrsEnd_ge _ _ _⟩)
      have hae := attrsEnd_shift pre t m (m.attrs.getD [])
      simp only [shift] at hae
      simp only [Option.map_some, shift, htext, hae, hnext, hskip]

theorem fencedHasConfig_stable (f1 f2 : Nat) (text : Str) (index k : Nat)
    (h1 : text.length - index < f1) (h2 : text.length - index < f2) :
    fencedHasConfig f1 text index k = fencedHasConfig f2 text index k := by
  induction f1 generalizing f2 text index k with
  | zero => omega
  | succ a ih =>
    cases f2 with
    | zero => omega
    | succ b =>
      simp only [fencedHasConfig]
      cases hm : fenceFindFrom text index with
      | none => rfl
      | some m =>
        have hb := fenceFindFrom_bounds _ _ _ hm
        have hlen : ∀ ph : Str, (text.take m.start ++ '\n' :: (ph ++ '\n' :: text.drop m.stop)).length -
            (m.start + 1 + ph.length) < a ∧
            (text.take m.start ++ '\n' :: (ph ++ '\n' :: text.drop m.stop)).length -
            (m.start + 1 + ph.length) < b := by
          intro ph
          simp only [List.length_append, List.length_cons, List.length_take, List.length_drop]
          omega
        have hnext := ih b (text.take m.start ++ '\n' :: (placeholder k ++ '\n' :: text.drop m.stop))
          (m.start + 1 + (placeholder k).length) (k + 1) (hlen _).1 (hlen _).2
        have hskip := ih b text (attrsEnd text m (m.attrs.getD [])) k (by unfold attrsEnd; omega)
          (by unfold attrsEnd; omega)
        simp only [hnext, hskip]

theorem plainPrefix_nl : plainPrefix ['\n'] := Or.inr ⟨[], rfl, rfl⟩

/-- the result of the preprocessors with a line feed put in front of the text -/
def nlFront : FootnotesTree.R (Str × List Str) → FootnotesTree.R (Str × List Str)
  | .ok (t, s) => .ok ('\n' :: t, s)
  | r => r

theorem prepareX_cons_nl (x : Exts) (cfg : Pipeline.Cfg) (s : Str) :
    prepareX x cfg ('\n' :: s) = nlFront (prepareX x cfg s) := by
  simp only [prepareX, Normalize.normalize_cons_nl, admNonAscii_cons_nl]
  split
  · rfl
  · split
    · have hc : fencedHasConfig (('\n' :: Normalize.normalize cfg.tab s).length + 1)
          ('\n' :: Normalize.normalize cfg.tab s) 0 0 =
          fencedHasConfig ((Normalize.normalize cfg.tab s).length + 1) (Normalize.normalize cfg.tab s) 0 0 := by
        have := fencedHasConfig_prefix ['\n'] plainPrefix_nl (('\n' :: Normalize.normalize cfg.tab s).length + 1)
          (Normalize.normalize cfg.tab s) 0 0 0 (Or.inr ⟨rfl, rfl⟩)
        simp only [List.singleton_append] at this
        rw [this]
        exact fencedHasConfig_stable _ _ _ _ _ (by simp; omega) (by omega)
      rw [hc]
      split
      · rfl
      · have hr := fencedRunA_prefix ['\n'] (Normalize.normalize cfg.tab s) plainPrefix_nl
        simp only [List.singleton_append] at hr
        rw [hr]
        cases fencedRunA (Normalize.normalize cfg.tab s) with
        | ok t' stash => simp [prepend, nlFront, NormDoc.extract_cons_nl]
        | ood => rfl
        | fuel => rfl
    · simp [nlFront, NormDoc.extract_cons_nl]


/-! ### the conversion -/

theorem treeX_cons_nl (x : Exts) (cfg : Pipeline.Cfg) (htab : x.admonition = true → 0 < cfg.tab) (s : Str) :
    treeX x cfg ('\n' :: s) = treeX x cfg s := by
  unfold treeX
  rw [prepareX_cons_nl]
  cases prepareX x cfg s with
  | oof => rfl
  | ood => rfl
  | ok ts =>
    obtain ⟨text, stash⟩ := ts
    simp only [nlFront, parseDocumentXT_cons_nl x.tables x.blockCfg cfg.tab htab text]

/-- **one more blank line in front**: the same conversion -/
theorem convertX_cons_nl (x : Exts) (cfg : Pipeline.Cfg) (htab : x.admonition = true → 0 < cfg.tab) (s : Str) :
    convertX x cfg ('\n' :: s) = convertX x cfg s := by
  have h1 : ('\n' :: s).contains '<' = s.contains '<' := by
    apply NormDoc.contains_eq_of_mem_iff; simp
  have h2 : Normalize.isBlankDoc ('\n' :: s) = Normalize.isBlankDoc s := by
    apply NormDoc.isBlankDoc_eq_of_all; simp
  simp only [convertX, h1, h2, treeX_cons_nl x cfg htab]

theorem convertX_leading (x : Exts) (cfg : Pipeline.Cfg) (htab : x.admonition = true → 0 < cfg.tab) (k : Nat)
    (s : Str) : convertX x cfg (List.replicate k '\n' ++ s) = convertX x cfg s := by
  induction k with
  | zero => rfl
  | succ k ih => rw [List.replicate_succ, List.cons_append, convertX_cons_nl x cfg htab, ih]

end MdVerif.C09X
