/-
Helper lemmas for `Props/C16RenderG.lean`, part 24: an admonition inside a block quote — the tree stages, the
serializer, `convertX` end to end.

Core Lean only.
-/
import MdVerif.Lemmas.RenderGQuote3

namespace MdVerif.RenderG
open Py Block BlockExt MdVerif.RenderX

theorem prettify_admDivOnly (kl : Str) (ttl : Option Str) (t : Str) (r : List Str) :
    TreeProc.prettifyETree TreeProc.defaultBlockLevel (admDivG kl ttl (t :: r)) = admFinG kl ttl (t :: r) := by
  have hD := prettify_set (.name "div".toList) [(strClass, strAdmonition ++ ' ' :: kl)] false
    (titleKids ttl ++ (t :: r).map (mkText "p")) false bl_divS tn_div.1 tn_div.2 (firstBlock_adm ttl t r)
  rw [prettifyKids_append, prettifyKids_title, prettifyKids_ps] at hD
  rw [admDivG_eq, hD]
  rfl

def bqAdmFin (kl : Str) (ttl : Option Str) (texts : List Str) : Node :=
  ⟨.name "div".toList, [], some ['\n'], false,
    [⟨.name "blockquote".toList, [], some ['\n'], false, [admFinG kl ttl texts], some ['\n'], false⟩], some ['\n'], false⟩

theorem noBP_admFin (kl : Str) (ttl : Option Str) (texts : List Str) : noBP (admFinG kl ttl texts) = true := by
  simp only [admFinG, noBP, noBPKids_append _ _ (noBP_title ttl) (noBP_ps texts), Bool.and_true]; decide

theorem prettify_bqAdm (kl : Str) (ttl : Option Str) (t : Str) (r : List Str) :
    TreeProc.prettify (rootOf [bqOf [admDivG kl ttl (t :: r)]]) = bqAdmFin kl ttl (t :: r) := by
  have hD := prettify_admDivOnly kl ttl t r
  have hk1 : TreeProc.prettifyKids TreeProc.defaultBlockLevel [admDivG kl ttl (t :: r)] = [admFinG kl ttl (t :: r)] := by
    have hb : TreeProc.isBlockLevel TreeProc.defaultBlockLevel (admDivG kl ttl (t :: r)).tag = true := bl_divS
    simp only [TreeProc.prettifyKids, hb, if_true, hD]
  have hB := prettify_set (.name "blockquote".toList) [] false [admDivG kl ttl (t :: r)] false bl_bq tn_bq.1
    tn_bq.2 (by simp only [firstBlock, List.head?_cons, Option.map_some, Option.getD_some]; exact bl_divS)
  rw [hk1] at hB
  have hk2 := prettifyKids_one (.name "blockquote".toList) [] none false [admDivG kl ttl (t :: r)] none false _ bl_bq hB
  have hR := prettify_set (.name "div".toList) [] false
    [⟨.name "blockquote".toList, [], none, false, [admDivG kl ttl (t :: r)], none, false⟩] false bl_divS tn_div.1
    tn_div.2 (by simp only [firstBlock, List.head?_cons, Option.map_some, Option.getD_some]; exact bl_bq)
  rw [hk2] at hR
  have hE : TreeProc.prettifyETree TreeProc.defaultBlockLevel (rootOf [bqOf [admDivG kl ttl (t :: r)]]) =
      bqAdmFin kl ttl (t :: r) := hR
  have hnb : noBP (bqAdmFin kl ttl (t :: r)) = true := by
    simp only [bqAdmFin, noBP, noBPKids, noBP_admFin, Bool.and_true]; decide
  have h1 := mapTree_noBP TreeProc.brRule brRule_fix _ hnb
  have h2 := mapTree_noBP TreeProc.preRule preRule_fix _ hnb
  unfold TreeProc.prettify
  rw [hE, h1, h2]

theorem unescape_admFin (kl : Str) (ttl : Option Str) (texts : List Str) (hk : TreeProc.STX ∉ kl)
    (ht : TreeProc.STX ∉ ttl.getD []) (hb : ∀ t ∈ texts, TreeProc.STX ∉ t) :
    TreeProc.unescapeTree (admFinG kl ttl texts) = some (admFinG kl ttl texts) := by
  have t3 : TreeProc.unescapeText 0 ['\n'] = some ['\n'] := by decide
  have hcls : TreeProc.STX ∉ strAdmonition ++ ' ' :: kl := by
    intro hm
    rcases List.mem_append.1 hm with h | h
    · exact stx_strAdm h
    · rcases List.mem_cons.1 h with h | h
      · exact absurd h (by decide)
      · exact hk h
  exact unescape_el _ _ _ _ _ (unescAttrs_id _ (by intro kv hkv; simp at hkv; subst hkv; exact hcls))
    (unescapeKids_append _ _ (unescapeKids_title ttl ht) (unescapeKids_ps texts hb))
    (fun s hs => by cases hs; exact t3) (fun s hs => by cases hs; exact t3)

theorem unescapeTree_bqAdm (kl : Str) (ttl : Option Str) (texts : List Str) (hk : TreeProc.STX ∉ kl)
    (ht : TreeProc.STX ∉ ttl.getD []) (hb : ∀ t ∈ texts, TreeProc.STX ∉ t) :
    TreeProc.unescapeTree (bqAdmFin kl ttl texts) = some (bqAdmFin kl ttl texts) := by
  have t3 : TreeProc.unescapeText 0 ['\n'] = some ['\n'] := by decide
  have hD := unescape_admFin kl ttl texts hk ht hb
  have hB : TreeProc.unescapeTree (⟨.name "blockquote".toList, [], some ['\n'], false, [admFinG kl ttl texts], some ['\n'],
      false⟩ : Node) = some ⟨.name "blockquote".toList, [], some ['\n'], false, [admFinG kl ttl texts], some ['\n'], false⟩ :=
    unescape_el _ _ _ _ _ rfl (by simp only [TreeProc.unescapeKids, hD]) (fun s hs => by cases hs; exact t3)
      (fun s hs => by cases hs; exact t3)
  exact unescape_el _ _ _ _ _ rfl (by simp only [TreeProc.unescapeKids, hB]) (fun s hs => by cases hs; exact t3)
    (fun s hs => by cases hs; exact t3)

theorem serialize_admFin (fmt : Ser.Fmt) (kl : Str) (ttl : Option Str) (texts : List Str)
    (hk : ∀ c ∈ kl, c ≠ '&' ∧ c ≠ '<' ∧ c ≠ '>' ∧ c ≠ '"') (ht : Ser.escCdata (ttl.getD []) = ttl.getD [])
    (hb : ∀ t ∈ texts, Ser.escCdata t = t) :
    Ser.serialize fmt (admFinG kl ttl texts) = admHtml kl ttl texts ++ ['\n'] := by
  have hesc : Ser.escAttrHtml (strAdmonition ++ ' ' :: kl) = strAdmonition ++ ' ' :: kl := by
    apply escAttrHtml_plain
    intro c hc
    rcases List.mem_append.1 hc with h | h
    · have : ∀ x ∈ strAdmonition, x ≠ '&' ∧ x ≠ '<' ∧ x ≠ '>' ∧ x ≠ '"' := by decide +kernel
      exact this c h
    · rcases List.mem_cons.1 h with rfl | h
      · decide
      · exact hk c h
  have hne : strClass ≠ Ser.escAttrHtml (strAdmonition ++ ' ' :: kl) := by
    rw [hesc]
    have h1 : strClass = 'c' :: "lass".toList := by decide +kernel
    have h2 : strAdmonition = 'a' :: "dmonition".toList := by decide +kernel
    rw [h1, h2]
    intro e
    simp only [List.cons_append, List.cons.injEq] at e
    exact absurd e.1 (by decide)
  unfold admFinG
  rw [serialize_attr1 fmt "div".toList strClass _ _ _ _ _ _ et_div.1 et_div.2 hne, hesc, ifText_some _ ec_nl,
    serializeList_append, serializeList_title fmt ttl ht, serializeList_ps fmt texts hb]
  unfold admHtml lV1 lV2 lV3 strClass strAdmonition
  generalize titleHtml ttl = TT
  generalize psHtml texts = PP
  simp only [String.reduceToList]
  simp only [List.cons_append, List.append_assoc, List.nil_append, List.append_nil]

/-- the rendering: the admonition inside `blockquote` -/
def bqAdmOut (kl : Str) (ttl : Option Str) (texts : List Str) : Str := lBQ1 ++ admHtml kl ttl texts ++ lBQ2

theorem serialize_bqAdm (fmt : Ser.Fmt) (kl : Str) (ttl : Option Str) (texts : List Str)
    (hk : ∀ c ∈ kl, c ≠ '&' ∧ c ≠ '<' ∧ c ≠ '>' ∧ c ≠ '"') (ht : Ser.escCdata (ttl.getD []) = ttl.getD [])
    (hb : ∀ t ∈ texts, Ser.escCdata t = t) :
    Ser.serialize fmt (bqAdmFin kl ttl texts) =
      "<div>".toList ++ ('\n' :: bqAdmOut kl ttl texts ++ ['\n']) ++ "</div>\n".toList := by
  unfold bqAdmFin
  rw [CodeLaw.serialize_plain fmt _ _ _ _ _ _ et_div.1 et_div.2, ifText_some _ ec_nl]
  simp only [Ser.serializeList]
  rw [CodeLaw.serialize_plain fmt _ _ _ _ _ _ et_bq.1 et_bq.2, ifText_some _ ec_nl]
  simp only [Ser.serializeList, serialize_admFin fmt kl ttl texts hk ht hb]
  unfold bqAdmOut lBQ1 lBQ2
  generalize admHtml kl ttl texts = A
  simp only [String.reduceToList]
  simp only [List.cons_append, List.append_assoc, List.nil_append, List.append_nil]

theorem bqAdmOut_ends (kl : Str) (ttl : Option Str) (texts : List Str) :
    (bqAdmOut kl ttl texts).head? = some '<' ∧ (bqAdmOut kl ttl texts).getLast? = some '>' := by
  have h1 : ∃ r, lBQ1 = '<' :: r := ⟨"blockquote>\n".toList, by decide +kernel⟩
  have h2 : ∃ r, lBQ2 = r ++ ['>'] := ⟨"\n</blockquote".toList, by decide +kernel⟩
  obtain ⟨r1, e1⟩ := h1
  obtain ⟨r2, e2⟩ := h2
  unfold bqAdmOut
  rw [e1, e2]
  constructor
  · simp
  · rw [← List.append_assoc, List.getLast?_append]; simp

theorem convertX_admQuote (x : PipelineX.Exts) (hadm : x.admonition = true) (hnl : x.nl2br = false)
    (hf : x.fencedCode = false) (htb : x.tables = false) (hal : x.attrList = false) (htoc : x.toc = false)
    (cfg : Pipeline.Cfg) (hbl : cfg.blockLevel = TreeProc.defaultBlockLevel) (htab : 0 < cfg.tab)
    (kl : Str) (title ttl : Option Str) (b : Para) (hk : PlainFacts kl)
    (ht : ∀ t, title = some t → ∀ c ∈ t, DocSpec.isAlnumSp c = true)
    (httl : ∀ c ∈ ttl.getD [], DocSpec.isAlnumSp c = true) (hb : ParaOK b)
    (hcl : admClassTitle kl title = (kl, ttl)) :
    PipelineX.convertX x cfg (qaSrc cfg.tab kl title b) = .ok (bqAdmOut kl ttl [pText b]) := by
  -- the front
  obtain ⟨s1, s2, s3, s4, s5⟩ := front_lines cfg.tab ((qaLines cfg.tab kl title b).map qline0) (by simp [qaLines])
    (by
      intro l hl
      obtain ⟨y, hy, rfl⟩ := List.mem_map.1 hl
      apply safeLine_qline0
      rcases List.mem_cons.1 hy with rfl | h
      · exact safeLine_header kl title hk ht
      · obtain ⟨z, hz, rfl⟩ := List.mem_map.1 h
        exact safeLine_indent cfg.tab z (hb z hz))
    ⟨'>', by
      obtain ⟨Y, hY⟩ := joinLines_head (qline0 (admHeader kl title)) ((CodeLaw.indentLines cfg.tab (pLines b)).map qline0)
      rw [show (qaLines cfg.tab kl title b).map qline0 = qline0 (admHeader kl title) ::
        (CodeLaw.indentLines cfg.tab (pLines b)).map qline0 from rfl, hY]
      simp [qline0], by decide⟩
  rw [show joinLines ((qaLines cfg.tab kl title b).map qline0) = qaSrc cfg.tab kl title b from rfl] at s1 s2 s3 s4 s5
  -- the block stage
  have hblk := parseDocumentXT_admQuote x.blockCfg (by simpa [PipelineX.Exts.blockCfg] using hadm) cfg.tab htab kl title
    ttl b hk ht hb hcl
  -- the inline stage
  have hq0 := quietKids_admDoc kl ttl [b] [] httl (by intro p hp; simp at hp; subst hp; exact hb) (by intro p hp; cases hp)
  have hquiet : quietKids false (rootOf [bqOf [admDivG kl ttl [pText b]]]).children = true := by
    simp only [List.map_cons, List.map_nil, pNodes, rootOf, quietKids, Bool.and_true] at hq0
    have hb' : quietTree false (bqOf [admDivG kl ttl [pText b]]) = true := by
      simp [bqOf, Node.el, quietTree, quietKids, Node.truthy, hq0]
    simp only [rootOf, quietKids, hb', Bool.and_self]
  have hrun := fun (ic : Inline.Cfg) (keys : List Str) =>
    runX_quiet { cfg := ic, table := InlineX.table x.footnotes x.wikilinks false, fnKeys := keys } false
      (fun hm => nl_mem_table _ _ false hm) (Nat.le_trans (by decide) (table_length _ _ false)) _ [] hquiet
  -- the tree stages
  have hpre := prettify_bqAdm kl ttl (pText b) []
  have hkstx : TreeProc.STX ∉ kl := fun hm => (alnumSp_quiet (hk.chars _ hm)).2.2.1 rfl
  have htstx : TreeProc.STX ∉ ttl.getD [] := fun hm => (alnumSp_quiet (httl _ hm)).2.2.1 rfl
  have hbt := pText_facts b hb
  have hun := unescapeTree_bqAdm kl ttl [pText b] hkstx htstx (by intro t h; simp at h; subst h; exact hbt.1)
  have hser := serialize_bqAdm cfg.fmt kl ttl [pText b]
    (fun c hc => let f := alnumSp_quiet (hk.chars c hc); ⟨f.2.2.2.1, f.2.2.2.2.1, f.2.2.2.2.2.1, f.2.2.2.2.2.2.1⟩)
    (CodeLaw.escCdata_plain _ (fun c hc => let f := alnumSp_quiet (httl c hc); ⟨f.2.2.2.1, f.2.2.2.2.1, f.2.2.2.2.2.1⟩))
    (by intro t h; simp at h; subst h; exact hbt.2.1)
  have hJ : Post.STX ∉ bqAdmOut kl ttl [pText b] := by
    have h0 := stx_admOutG kl ttl [pText b] [] hkstx htstx (by intro t h; simp at h; subst h; exact hbt.2.2)
      (by intro t h; cases h)
    have e : admOutG kl ttl [pText b] [] = admHtml kl ttl [pText b] := by simp [admOutG, psHtmlAfter]
    rw [e] at h0
    unfold bqAdmOut
    exact stx_app (stx_app (by decide +kernel) h0) (by decide +kernel)
  obtain ⟨e1, e2⟩ := bqAdmOut_ends kl ttl [pText b]
  have hfin := finishX_wrapped' x cfg (bqAdmOut kl ttl [pText b]) hJ
    (fun c hc => by rw [e1] at hc; cases hc; decide)
    (fun c hc => by rw [e2] at hc; cases hc; decide)
  have hfo : BlockExt.footnotesOf [] = [] := rfl
  have hab : BlockExt.abbrsOf [] = [] := rfl
  have hmk : ∀ p fc, FootnotesTree.makeDiv p fc [] [] = .ok (none, []) := fun _ _ => rfl
  have habbr : ∀ t, AbbrTree.run [] t = t := fun _ => rfl
  have hnofn : noFnDiv (rootOf [bqOf [admDivG kl ttl [pText b]]]) = true := by
    have h0 := noFnDiv_admDoc kl ttl [pText b] []
    simp only [pNodes, List.map_nil, rootOf, Node.el, noFnDiv, noFnDivKids, Bool.and_true, Bool.and_eq_true] at h0
    simp [rootOf, bqOf, Node.el, noFnDiv, noFnDivKids, h0.2]
  have hdup := fun fn => duplicates_noFn fn _ hnofn
  simp only [PipelineX.convertX, s1, s2, PipelineX.Exts.unsupported, Bool.false_eq_true, if_false,
    PipelineX.treeX, PipelineX.prepareX, s3, s4, s5, Bool.and_false, hf, htb, hblk, hfo, hmk, hnl, hal, htoc]
  cases hfn : x.footnotes <;> cases hab' : x.abbr <;>
    simp only [hfn, hab', Bool.false_eq_true, if_false, if_true, List.map_nil, PipelineX.refsX, Bool.or_self,
      Bool.or_true, Bool.or_false, Bool.true_or, BlockExt.refsOf, List.filter_nil, PipelineX.escX, htb, Bool.false_and] <;>
    (rw [hfn] at hrun; rw [hrun]; simp only [hdup, hbl, hpre, hab, habbr, hun, hser]; exact hfin)

end MdVerif.RenderG
