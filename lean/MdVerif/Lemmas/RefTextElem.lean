/-
Helper lemmas for `Props/C15Text.lean`, part 5: the paragraph `C₀ [T₁][l₁] C₁ …` of `Lemmas/RefTextLoop.lean` as a
top-level element in the sense of `Lemmas/DocParse2.lean` (`Elem`, `ElemOK`) and as a piece of a document (`Piece2`),
so that it can stand among other blocks and reference definitions (`Lemmas/RefTextItems.lean`).  Core Lean only.
-/
import MdVerif.Lemmas.RefTextItems
import MdVerif.Lemmas.RefTextFmtSpec

namespace MdVerif.RefText
open Py Inline Escape CodeLaw DocParse DocParse2

/-- the paragraph with its uses at every stage -/
def lineElem (esc : List Char) (C0 : Chunk) (us : List RUse) : Elem :=
  ⟨Block.mkText "p" (lineRaw esc C0 us), pMid esc C0 us, fun n => lineStash esc n C0 us,
    fun i => ((List.range (C0.segs.map (tailedM esc) ++ usKids esc us).length).map (fun k => [i, k])).reverse,
    pPretty esc C0 us, pFin C0 us, "<p>".toList ++ (C0.out ++ usOut us) ++ "</p>".toList⟩

theorem below_childless (c : Node) (h : ∀ x ∈ c.children, x.children = []) : below c = c.children.length := by
  rw [below_eq]
  generalize c.children = kids at h
  induction kids with
  | nil => rfl
  | cons a r ih =>
    have ha : below a = 0 := by rw [below_eq, h a List.mem_cons_self]; rfl
    simp only [belowKids, ha, List.length_cons, ih (fun x hx => h x (List.mem_cons_of_mem _ hx))]
    omega

/-- the weight of the children of the paragraph that come from the uses -/
theorem weight_usKids (esc : List Char) (us : List RUse) (h : ∀ u ∈ us, MSegsOK u.T.segs ∧ MSegsOK u.C.segs) :
    ((usKids esc us).map (fun c => 1 + below c)).sum ≤ usCnt0 us + usLinkLen us + usOutCnt 1 us + usOutCnt 2 us := by
  induction us with
  | nil => simp [usKids]
  | cons u r ih =>
    have h1 := ih (fun x hx => h x (List.mem_cons_of_mem _ hx))
    have h2 := nodes_length u.C.segs (h u List.mem_cons_self).2
    have h3 := nodes_length u.T.segs (h u List.mem_cons_self).1
    have hb : below ({ aNode esc u.url u.title u.T with tail := optStr (coded esc u.C.t0) } : Node) = u.T.segs.length := by
      rw [below_childless]
      · simp [aNode]
      · intro x hx
        simp only [aNode, List.mem_map] at hx
        obtain ⟨s, _, rfl⟩ := hx
        exact tailedM_childless esc s
    have hc := sum_childless (u.C.segs.map (tailedM esc)) (fun c hc => by
      obtain ⟨s, _, rfl⟩ := List.mem_map.1 hc; exact tailedM_childless esc s)
    simp only [usKids, List.map_cons, List.map_append, List.sum_cons, List.sum_append, hb, hc, List.length_map,
      usCnt0, usLinkLen, usOutCnt, Chunk.cnt]
    omega

theorem lineElem_ok (cfg : Inline.Cfg) (hE : EscOK cfg.esc) (hrb : ']' ∈ cfg.esc) (C0 : Chunk) (us : List RUse)
    (h0 : ChunkOK cfg.esc C0) (hus : ∀ u ∈ us, UseOK cfg u) (hvis : ∀ u ∈ us, u.T.Vis) (hne : us ≠ [])
    (hattr : ∀ u ∈ us, UseAttrOK u) : ElemOK cfg (lineElem cfg.esc C0 us) := by
  have hlenraw : C0.escs cfg.esc + C0.cnt 0 + C0.cnt 1 + C0.cnt 2 + (usEscs cfg.esc us + usCnt0 us + usLinkLen us +
      usOutCnt 1 us + usOutCnt 2 us) ≤ (lineRaw cfg.esc C0 us).length := by
    have h1 := chunk_raw_length cfg.esc C0 h0.ok
    have h2 := usRaw_length us hus 0 0
    rw [lineRaw, List.length_append]; omega
  have hsize : Inline.size (Block.mkText "p" (lineRaw cfg.esc C0 us)) = 1 + (lineRaw cfg.esc C0 us).length := by
    simp [Block.mkText, Node.el, Inline.size, Inline.sizeList]
  have hklen : (C0.segs.map (tailedM cfg.esc) ++ usKids cfg.esc us).length ≤ (lineRaw cfg.esc C0 us).length := by
    have h1 := usKids_length cfg.esc us (fun u hu => (hus u hu).after.ok)
    have h2 := nodes_length C0.segs h0.ok
    simp only [List.length_append, List.length_map, Chunk.cnt] at hlenraw ⊢
    omega
  have hch : ∀ u ∈ us, UseCh cfg.esc u := fun u hu => ⟨(hus u hu).text, (hus u hu).after⟩
  refine
    { visit := fun v => visitChild_line cfg hE hrb C0 us h0 hus hvis hne v
      pushBound := fun i => ?_
      weight := fun i => ?_
      pushOk := fun i q hq => ?_
      block := by show TreeProc.isBlockLevel TreeProc.defaultBlockLevel (.name "p".toList) = true; decide
      pretty := pretty_pMid cfg.esc C0 us
      unesc := unesc_pPrettyG C0 us h0 hch hattr
      ser := ser_pFinG C0 us h0 hch
      outOk := ⟨?_, rfl, ?_⟩ }
  · simp only [lineElem, List.length_reverse, List.length_map, List.length_range]
    rw [hsize]; omega
  · show mStack (pMid cfg.esc C0 us) _ ≤ Inline.size (Block.mkText "p" (lineRaw cfg.esc C0 us))
    have hm := mStack_range_all (pMid cfg.esc C0 us) i
    simp only [pMid] at hm ⊢
    simp only [lineElem]
    rw [hm, hsize, List.map_append, List.sum_append,
      sum_childless (C0.segs.map (tailedM cfg.esc)) (fun c hc => by
        obtain ⟨s, _, rfl⟩ := List.mem_map.1 hc; exact tailedM_childless cfg.esc s)]
    have h1 := weight_usKids cfg.esc us (fun u hu => ⟨(hus u hu).text.ok, (hus u hu).after.ok⟩)
    have h2 := nodes_length C0.segs h0.ok
    simp only [List.length_map, Chunk.cnt] at hlenraw ⊢
    omega
  · simp only [lineElem, List.mem_reverse, List.mem_map, List.mem_range] at hq
    obtain ⟨k, hk, rfl⟩ := hq
    obtain ⟨kid, hkid⟩ : ∃ kid, (C0.segs.map (tailedM cfg.esc) ++ usKids cfg.esc us)[k]? = some kid := by
      cases hx : (C0.segs.map (tailedM cfg.esc) ++ usKids cfg.esc us)[k]? with
      | none => rw [List.getElem?_eq_none_iff] at hx; omega
      | some kid => exact ⟨kid, rfl⟩
    obtain ⟨hs1, hs2⟩ := kids_soft hE C0 us hus kid (List.mem_of_getElem? hkid)
    refine ⟨[k], kid, rfl, ?_, stillBelow_of_childless cfg _ _ ?_ ?_⟩
    · simp [lineElem, pMid, getAt, hkid]
    · show kid.children.length ≤ Inline.size (Block.mkText "p" (lineRaw cfg.esc C0 us))
      rw [hsize]; omega
    · intro c hc
      exact ⟨fun v => visitChild_soft cfg c v (hs1 c hc).1, (hs1 c hc).2⟩
  · intro hm
    simp only [lineElem, List.mem_append] at hm
    rcases hm with (hm | hm | hm) | hm
    · revert hm; decide
    · exact stx_not_mem_chunkOut C0 h0 hm
    · exact stx_not_mem_usOutG (cfg := cfg) us hch hattr hm
    · revert hm; decide
  · have e : (lineElem cfg.esc C0 us).out = ("<p>".toList ++ (C0.out ++ usOut us) ++ "</p".toList) ++ ['>'] := by
      simp [lineElem]
    rw [e, List.getLast?_append]; rfl

/-! ### the paragraph as a piece of a document -/

/-- a paragraph that is one line, as a piece -/
def linePiece (esc : List Char) (C0 : Chunk) (us : List RUse) : Piece2 :=
  ⟨⟨[lineRaw esc C0 us], [lineRaw esc C0 us], false, Block.mkText "p" (lineRaw esc C0 us),
      Block.mkText "p" (lineRaw esc C0 us)⟩, lineElem esc C0 us, lineElem esc C0 us⟩

theorem nel_line (s : Str) (b : Bool) (hne : s ≠ []) (hnl : '\n' ∉ s) : Escape.noEmptyLineFrom b s = true := by
  induction s generalizing b with
  | nil => exact absurd rfl hne
  | cons c r ih =>
    have hc : c ≠ '\n' := fun e => hnl (e ▸ List.mem_cons_self)
    simp only [Escape.noEmptyLineFrom, hc, if_false]
    cases r with
    | nil => rfl
    | cons a r' => exact ih false (by simp) (fun h => hnl (List.mem_cons_of_mem _ h))

theorem preCode_mkText_p (s : Str) : Block.preCode (Block.mkText "p" s) = none := by
  have : (Block.mkText "p" s).isTag "pre" = false := by
    simp only [Block.mkText, Node.el, Node.isTag]; decide
  simp [Block.preCode, this]

theorem isListTag_mkText_p (s : Str) : Block.isListTag (Block.mkText "p" s) = false := by
  simp only [Block.isListTag, Block.mkText, Node.el, Node.isTag]; decide

/-- the block parser on a one-line paragraph of the kind of `ParaOK` -/
theorem paraPiece_ok (tab : Nat) (htab : 0 < tab) (para : Str) (hp : InlineRef.ParaOK para) :
    BPieceOK tab ⟨[para], [para], false, Block.mkText "p" para, Block.mkText "p" para⟩ where
  ne := by simp
  split := fun Y => by
    obtain ⟨c, r, e, _, _⟩ := hp.shape
    simpa [Block.joinLines_single] using splitAux_chunk true para Y (nel_line para true (by simp [e]) hp.nonl)
  prod := fun refs parent rest f _ _ => ⟨1, by
    simp only [List.singleton_append, parseBlocks_step, InlineRef.dispatch_paraOK tab htab _ refs parent rest hp]⟩
  clean := fun _ => ⟨isListTag_mkText_p para, preCode_mkText_p para⟩
  last := fun pb refs parent => by
    apply dispatch_empty_block
    intro sib hs
    rw [CodeLaw.last_append] at hs
    cases hs
    exact preCode_mkText_p para

theorem lineSafe_para (para : Str) (hs : startPlain para = true) (hc : para.all lineCh = true) :
    lineSafe para = true ∧ '<' ∉ para ∧ CodeLaw.refsClosed para = true := by
  have hch : ∀ x ∈ para, lineCh x = true := fun x hx => List.all_eq_true.1 hc x hx
  refine ⟨?_, fun hm => absurd (hch _ hm) (by decide),
    CodeLaw.refsClosed_of_no_amp para (fun hm => absurd (hch _ hm) (by decide))⟩
  cases para with
  | nil => simp [startPlain] at hs
  | cons c r =>
    simp only [startPlain, Bool.and_eq_true, Bool.not_eq_true'] at hs
    simp only [lineSafe, Bool.and_eq_true, List.all_eq_true, Bool.or_eq_true, bne_iff_ne, ne_eq, List.any_eq_true]
    refine ⟨fun x hx => ?_, Or.inr ⟨c, by simp, ?_⟩⟩
    · have h1 := hch x hx
      simp only [lineCh, InlineRef.docCh, Bool.and_eq_true, bne_iff_ne, ne_eq] at h1
      exact ⟨⟨⟨⟨h1.2, h1.1.1.1.1.2⟩, h1.1.1.1.2⟩, h1.1.2⟩, h1.1.1.2⟩
    · intro e; subst e; simp [isSpace] at hs

/-- **the paragraph with its uses is a piece** that can stand anywhere in a document whose definitions are `defs` -/
theorem linePiece_at (cfg : Pipeline.Cfg) (htab : 0 < cfg.tab) (hE : EscOK cfg.esc) (hrb : ']' ∈ cfg.esc)
    (defs : List InlineRef.DefSpec) (hd : ∀ d ∈ defs, d.ok cfg.tab = true) (C0 : Chunk) (us : List RUse) (hne : us ≠ [])
    (h0 : ChunkOK cfg.esc C0) (hus : ∀ u ∈ us, UseSpec cfg.esc defs u)
    (hstart : startPlain (lineRaw cfg.esc C0 us) = true) (hchars : (lineRaw cfg.esc C0 us).all lineCh = true)
    (hnoref : Block.refMatchAt (lineRaw cfg.esc C0 us) 0 = none) :
    Piece2At cfg ((defs.map InlineRef.DefSpec.entry).reverse) (linePiece cfg.esc C0 us) := by
  have hp := paraOK_line _ hstart hchars hnoref
  have hel := lineElem_ok { esc := cfg.esc, refs := (defs.map InlineRef.DefSpec.entry).reverse } hE hrb C0 us h0
    (fun u hu => useOK_of_spec (hus u hu)) (fun u hu => (hus u hu).vis) hne
    (fun u hu => useAttrOK_of_spec hd (hus u hu))
  refine ⟨paraPiece_ok cfg.tab htab _ hp, ?_, ?_, rfl, rfl, hel, hel, rfl⟩
  · intro l hl
    have : l = lineRaw cfg.esc C0 us := by simpa [linePiece] using hl
    subst this
    exact lineSafe_para _ hstart hchars
  · obtain ⟨c, r, e, _, hs⟩ := hp.shape
    exact ⟨c, by simp [linePiece, Block.joinLines_single, e], hs⟩

end MdVerif.RefText
