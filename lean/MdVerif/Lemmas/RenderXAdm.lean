/-
Helper lemmas for `Props/C16RenderX.lean`, part 5: admonition — the header recogniser on a printed header, the block
stage of `!!! class "Title"` + indented body, and the later stages on the resulting `div`.

Core Lean only.
-/
import MdVerif.Lemmas.RenderXBlock

namespace MdVerif.RenderX
open Py Block BlockExt

/-! ### the printed header -/

/-- ` "Title"` or nothing -/
def admTitleSrc : Option Str → Str
  | none => []
  | some t => ' ' :: '"' :: t ++ ['"']

/-- `!!! class "Title"` -/
def admHeader (kl : Str) (title : Option Str) : Str := '!' :: '!' :: '!' :: ' ' :: kl ++ admTitleSrc title

/-- the position after the last word character seen so far -/
def classGood : Nat → Nat → Str → Nat
  | good, _, [] => good
  | good, pos, c :: r => if isWordDash c then classGood (pos + 1) (pos + 1) r else classGood good (pos + 1) r

theorem alnumSp_wordDash {c : Char} (h : DocSpec.isAlnumSp c = true) : isWordDash c = true ∨ c = ' ' := by
  by_cases hs : c = ' '
  · exact Or.inr hs
  · left
    have hlt := DocParse.alnumSp_lt c h
    simp only [DocSpec.isAlnumSp, Bool.or_eq_true, decide_eq_true_eq] at h
    rcases h with h | h
    · simp [isWordDash, isWord, hlt, h]
    · exact absurd h hs

theorem admClassAux_words (kl : Str) (hk : ∀ c ∈ kl, DocSpec.isAlnumSp c = true) :
    ∀ (good pos : Nat) (Y : Str), admClassAux good pos (kl ++ Y) = admClassAux (classGood good pos kl) (pos + kl.length) Y := by
  induction kl with
  | nil => intro good pos Y; rfl
  | cons c kl ih =>
    intro good pos Y
    have ih' := ih (fun d hd => hk d (List.mem_cons_of_mem _ hd))
    rcases alnumSp_wordDash (hk c List.mem_cons_self) with hw | rfl
    · simp only [List.cons_append, admClassAux, hw, if_true, classGood, ih', List.length_cons]
      congr 1; omega
    · have : isWordDash ' ' = false := by decide
      simp only [List.cons_append, admClassAux, this, Bool.false_eq_true, if_false, if_true, classGood, ih',
        List.length_cons]
      congr 1; omega

theorem classGood_last (kl : Str) (hk : ∀ c ∈ kl, DocSpec.isAlnumSp c = true) (hne : kl ≠ [])
    (hlast : ∀ c, kl.getLast? = some c → c ≠ ' ') : ∀ (good pos : Nat), classGood good pos kl = pos + kl.length := by
  induction kl with
  | nil => exact absurd rfl hne
  | cons c kl ih =>
    intro good pos
    cases kl with
    | nil =>
      have hc : c ≠ ' ' := hlast c rfl
      rcases alnumSp_wordDash (hk c List.mem_cons_self) with hw | h
      · simp [classGood, hw]
      · exact absurd h hc
    | cons d t =>
      have ih' := ih (fun x hx => hk x (List.mem_cons_of_mem _ hx)) (by simp)
        (fun x hx => hlast x (by simpa [List.getLast?_cons_cons] using hx))
      have e : classGood good pos (c :: d :: t) =
          if isWordDash c then classGood (pos + 1) (pos + 1) (d :: t) else classGood good (pos + 1) (d :: t) := rfl
      rw [e]
      split
      · rw [ih']; simp only [List.length_cons]; omega
      · rw [ih']; simp only [List.length_cons]; omega

theorem admClassLen_words (kl Y : Str) (h : PlainFacts kl) (hY : ∀ c, Y.head? = some c → c = '\n' ∨ c = ' ')
    (hY2 : ∀ Z, Y = ' ' :: Z → Z.head? = some '"') : admClassLen (kl ++ Y) = kl.length := by
  obtain ⟨a, b, rfl⟩ : ∃ a b, kl = a :: b := by
    cases kl with
    | nil => exact absurd rfl h.ne
    | cons a b => exact ⟨a, b, rfl⟩
  have ha : isWordDash a = true := by
    rcases alnumSp_wordDash (h.chars a List.mem_cons_self) with hw | hs
    · exact hw
    · exact absurd hs (h.head a rfl)
  simp only [admClassLen, List.cons_append, ha, if_true]
  rw [show a :: (b ++ Y) = (a :: b) ++ Y from rfl, admClassAux_words _ h.chars, classGood_last _ h.chars h.ne h.last]
  simp only [Nat.zero_add]
  cases Y with
  | nil => rfl
  | cons y Z =>
    rcases hY y rfl with rfl | rfl
    · simp [admClassAux, show isWordDash '\n' = false by decide]
    · have hz := hY2 Z rfl
      cases Z with
      | nil => simp at hz
      | cons z Z' =>
        simp only [List.head?_cons, Option.some.injEq] at hz
        subst hz
        simp [admClassAux, show isWordDash ' ' = false by decide, show isWordDash '"' = false by decide]

theorem admTitleClose_title (t X : Str) (ht : ∀ c ∈ t, c ≠ '\n' ∧ c ≠ '"') :
    ∀ i, admTitleClose i (t ++ '"' :: '\n' :: X) = some (i + t.length, 1) := by
  induction t with
  | nil =>
    intro i
    simp [admTitleClose, eolAfterSpaces, countSp, countPrefix]
  | cons c t ih =>
    intro i
    have hc := ht c List.mem_cons_self
    simp only [List.cons_append, admTitleClose, hc.1, hc.2, if_false]
    rw [ih (fun d hd => ht d (List.mem_cons_of_mem _ hd))]
    simp only [List.length_cons]
    congr 2; omega

/-- the header pattern on a printed header followed by a line feed -/
theorem admAt_header (kl : Str) (title : Option Str) (X : Str) (hk : PlainFacts kl)
    (ht : ∀ t, title = some t → ∀ c ∈ t, c ≠ '\n' ∧ c ≠ '"') :
    admAt (admHeader kl title ++ '\n' :: X) = some (kl, title, (admHeader kl title).length + 1) := by
  cases title with
  | none =>
    have hw := admClassLen_words kl ('\n' :: X) hk (fun c hc => Or.inl (by simpa using hc.symm)) (by intro Z hZ; cases hZ)
    have hkl : kl.length ≠ 0 := by have := hk.ne; cases kl <;> simp_all
    simp only [admHeader, admTitleSrc, List.append_nil, List.cons_append, admAt, startsWith, decide_true, Bool.true_and,
      if_true, List.drop_succ_cons, List.drop_zero, hw, hkl, if_false]
    simp [countSp, countPrefix, eolAfterSpaces]
    omega
  | some t =>
    have hw := admClassLen_words kl (' ' :: '"' :: (t ++ '"' :: '\n' :: X)) hk
      (fun c hc => Or.inr (by simpa using hc.symm)) (by intro Z hZ; cases hZ; rfl)
    have hkl : kl.length ≠ 0 := by have := hk.ne; cases kl <;> simp_all
    have hsrc : admHeader kl (some t) ++ '\n' :: X = '!' :: '!' :: '!' :: ' ' :: (kl ++ ' ' :: '"' :: (t ++ '"' :: '\n' :: X)) := by
      simp [admHeader, admTitleSrc, List.append_assoc]
    rw [hsrc]
    simp only [admAt, startsWith, decide_true, Bool.true_and, if_true, List.drop_succ_cons, List.drop_zero, hw, hkl,
      if_false]
    have hclose := admTitleClose_title t X (ht t rfl) 0
    simp [countSp, countPrefix, hclose, admHeader, admTitleSrc]
    omega

/-! ### the block stage -/

/-- the source: the header line, then the body lines indented by `tab` -/
def admSrc (tab : Nat) (kl : Str) (title : Option Str) (body : List Str) : Str :=
  joinLines (admHeader kl title :: CodeLaw.indentLines tab body)

/-- the admonition `div` the block stage builds -/
def admDiv (kl : Str) (ttl : Option Str) (body : Str) : Node :=
  let div0 : Node := { Node.el "div" with attrs := [(strClass, strAdmonition ++ ' ' :: kl)] }
  let div1 : Node :=
    if Node.truthy ttl then
      div0.append { mkText "p" (ttl.getD []) with attrs := [(strClass, "admonition-title".toList)] }
    else div0
  div1.append (mkText "p" body)

theorem admSrc_eq (tab : Nat) (kl : Str) (title : Option Str) (b0 : Str) (br : List Str) :
    admSrc tab kl title (b0 :: br) =
      admHeader kl title ++ '\n' :: joinLines (CodeLaw.indentLines tab (b0 :: br)) := by
  simp only [admSrc, CodeLaw.indentLines, List.map_cons]
  rw [Block.joinLines_cons_cons]

theorem nl_not_mem_header (kl : Str) (title : Option Str) (hk : PlainFacts kl)
    (ht : ∀ t, title = some t → ∀ c ∈ t, c ≠ '\n' ∧ c ≠ '"') : '\n' ∉ admHeader kl title := by
  intro hm
  have hm' : '\n' ∈ ['!', '!', '!', ' '] ++ kl ++ admTitleSrc title := by simpa [admHeader] using hm
  rcases List.mem_append.1 hm' with h | h
  · rcases List.mem_append.1 h with h | h
    · exact absurd h (by decide)
    · exact hk.noNl h
  · cases title with
    | none => simp [admTitleSrc] at h
    | some t =>
      have h' : '\n' ∈ [' ', '"'] ++ t ++ ['"'] := by simpa [admTitleSrc] using h
      rcases List.mem_append.1 h' with h | h
      · rcases List.mem_append.1 h with h | h
        · exact absurd h (by decide)
        · exact (ht t rfl _ h).1 rfl
      · exact absurd h (by decide)

theorem lines_admSrc (tab : Nat) (kl : Str) (title : Option Str) (body : List Str) (hk : PlainFacts kl)
    (ht : ∀ t, title = some t → ∀ c ∈ t, c ≠ '\n' ∧ c ≠ '"') (hb : ∀ l ∈ body, PlainFacts l) :
    lines (admSrc tab kl title body) = admHeader kl title :: CodeLaw.indentLines tab body := by
  apply joinLines_lines (by simp)
  intro p hp
  rcases List.mem_cons.1 hp with rfl | hp
  · exact nl_not_mem_header kl title hk ht
  · obtain ⟨l, hl, rfl⟩ := List.mem_map.1 hp
    exact CodeLaw.not_nl_mem_indentLine (hb l hl).noNl

/-- the block stage: one admonition `div` with the title paragraph (if any) and the body paragraph -/
theorem parseDocumentXT_adm (cfg : XCfg) (hadm : cfg.admonition = true) (tab : Nat) (htab : tab > 0) (kl : Str)
    (title ttl : Option Str) (b0 : Str) (br : List Str) (hk : PlainFacts kl)
    (ht : ∀ t, title = some t → ∀ c ∈ t, c ≠ '\n' ∧ c ≠ '"') (hb : ∀ l ∈ b0 :: br, PlainFacts l)
    (hcl : admClassTitle kl title = (kl, ttl)) :
    parseDocumentXT false cfg tab (admSrc tab kl title (b0 :: br) ++ ['\n', '\n']) =
      some ((Node.el "div").append (admDiv kl ttl (joinLines (b0 :: br))), []) := by
  have hlines := lines_admSrc tab kl title (b0 :: br) hk ht hb
  have hnel : Escape.noEmptyLineFrom true (admSrc tab kl title (b0 :: br)) = true := by
    rw [← Escape.lines_all_nonempty, hlines, List.all_eq_true]
    intro l hl
    rcases List.mem_cons.1 hl with rfl | hl
    · simp [admHeader]
    · obtain ⟨x, hx, rfl⟩ := List.mem_map.1 hl
      have := (hb x hx).ne
      cases x with
      | nil => exact absurd rfl this
      | cons a t => simp [CodeLaw.indentLine]
  have hsplit : splitS ['\n', '\n'] (admSrc tab kl title (b0 :: br) ++ ['\n', '\n']) = [admSrc tab kl title (b0 :: br), []] := by
    simp only [splitS]; exact Escape.splitAux_blocks true _ hnel
  -- the header is recognised at position 0
  have hat := admAt_header kl title (joinLines (CodeLaw.indentLines tab (b0 :: br))) hk ht
  have htest : ∀ parent, admTest tab parent (admSrc tab kl title (b0 :: br)) =
      some (.re 0 ((admHeader kl title).length + 1) kl title) := by
    intro parent
    simp only [admTest, admSearch, nlSearch, admSrc_eq, hat]
    simp
  have hdrop : (admSrc tab kl title (b0 :: br)).drop ((admHeader kl title).length + 1) =
      joinLines (CodeLaw.indentLines tab (b0 :: br)) := by
    rw [admSrc_eq, show admHeader kl title ++ '\n' :: joinLines (CodeLaw.indentLines tab (b0 :: br)) =
      (admHeader kl title ++ ['\n']) ++ joinLines (CodeLaw.indentLines tab (b0 :: br)) by simp]
    exact List.drop_left' (by simp)
  have hdetab := CodeLaw.detab_indent tab (b0 :: br) (by simp) (fun l hl => (hb l hl).noNl)
  have hfuel : fuelForX (admSrc tab kl title (b0 :: br) ++ ['\n', '\n']).length =
      (2 * (admSrc tab kl title (b0 :: br) ++ ['\n', '\n']).length + 7) + 1 + 1 + 1 := by
    simp only [fuelForX]
  simp only [parseDocumentXT, parseChunk, hsplit]
  rw [hfuel]
  -- first turn: the admonition processor
  have hstep1 : ∀ pbf, dispatchXT false cfg tab
      (parseBlocksXT false cfg tab (pbf + 1)) [] [] (Node.el "div") (admSrc tab kl title (b0 :: br)) [[]] =
      some ((Node.el "div").append (admDiv kl ttl (joinLines (b0 :: br))), [], [[]]) := by
    intro pbf
    simp only [dispatchXT, hadm, if_true, htest, admonitionP, Nat.lt_irrefl, if_false, hdrop, hdetab, hcl]
    have hp := fun (d : Node) => parseChunkXT_plain cfg tab htab pbf [] (by decide) [] d b0 br hb
    by_cases htt : Node.truthy ttl = true
    · simp only [htt, if_true, hp]
      simp [admDiv, htt]
    · simp only [htt, Bool.false_eq_true, if_false, hp]
      simp [admDiv, htt]
  -- second turn: the empty block
  have hstep2 : ∀ pb, dispatchXT false cfg tab pb [] []
      ((Node.el "div").append (admDiv kl ttl (joinLines (b0 :: br)))) [] [] =
      some ((Node.el "div").append (admDiv kl ttl (joinLines (b0 :: br))), [], []) := by
    intro pb
    have hpre : preCode (admDiv kl ttl (joinLines (b0 :: br))) = none := by
      have : (admDiv kl ttl (joinLines (b0 :: br))).isTag "pre" = false := by
        unfold admDiv
        split <;> (simp only [Node.isTag, Node.append, Node.el]; decide)
      simp [preCode, this]
    simp only [dispatchXT, admTest_plain tab htab _ [] (by simp) (by simp), ite_self, tailEmptyT, List.isEmpty_nil,
      Bool.true_or, if_true, emptyP, CodeLaw.last_append, hpre, List.drop_nil]
  simp only [parseBlocksXT, hstep1, hstep2]

/-! ### the inline stage: nothing to do -/

theorem quietStr_lines (l0 : Str) (r : List Str) (h : ∀ l ∈ l0 :: r, PlainFacts l) :
    quietStr false (joinLines (l0 :: r)) = true := by
  have hq := quietX_lines l0 r h
  have hch : ∀ c ∈ joinLines (l0 :: r), quietCh c = true := by
    intro c hc
    rcases mem_joinLines_plain h hc with rfl | hc
    · decide
    · exact (alnumSp_quiet hc).1
  have hstx : Inline.STX ∉ joinLines (l0 :: r) := by
    intro hm
    rcases mem_joinLines_plain h hm with h' | h'
    · exact absurd h' (by decide)
    · exact (alnumSp_quiet h').2.2.1 rfl
  simp only [quietStr, Bool.and_eq_true, List.all_eq_true, Option.isNone_iff_eq_none, Bool.not_false, Bool.true_or,
    and_true]
  exact ⟨⟨hch, hq.2.2.2⟩, CodeLaw.find_phPrefix_none _ hstx⟩

theorem quietStr_chars (nl : Bool) (t : Str) (h : ∀ c ∈ t, DocSpec.isAlnumSp c = true) : quietStr nl t = true := by
  have hch : ∀ c ∈ t, quietCh c = true := fun c hc => (alnumSp_quiet (h c hc)).1
  have hnl : '\n' ∉ t := fun hm => (alnumSp_quiet (h _ hm)).2.1 rfl
  have hstx : Inline.STX ∉ t := fun hm => (alnumSp_quiet (h _ hm)).2.2.1 rfl
  have hbr : find [' ', ' ', '\n'] t = none := by
    rw [find_none_iff]
    intro pre post e
    apply hnl
    rw [e]; simp
  have hc : t.contains '\n' = false := by
    cases hh : t.contains '\n' with
    | false => rfl
    | true => exact absurd (List.contains_iff_mem.1 hh) hnl
  simp only [quietStr, Bool.and_eq_true, List.all_eq_true, Option.isNone_iff_eq_none, hc, Bool.not_false,
    Bool.or_true, and_true]
  exact ⟨⟨hch, hbr⟩, CodeLaw.find_phPrefix_none _ hstx⟩

/-! ### prettify, unescape, serializer -/

/-- the admonition `div` after prettify (and unescape) -/
def admFin (kl : Str) (ttl : Option Str) (body : Str) : Node :=
  { tag := .name "div".toList, attrs := [(strClass, strAdmonition ++ ' ' :: kl)], text := some ['\n'], tail := some ['\n'],
    children :=
      (if Node.truthy ttl then
        [{ tag := .name "p".toList, attrs := [(strClass, "admonition-title".toList)], text := some (ttl.getD []),
           tail := some ['\n'] }]
       else []) ++ [{ tag := .name "p".toList, text := some body, tail := some ['\n'] }] }

def admRootFin (kl : Str) (ttl : Option Str) (body : Str) : Node :=
  { tag := .name "div".toList, text := some ['\n'], tail := some ['\n'], children := [admFin kl ttl body] }

theorem ttl_cases (ttl : Option Str) : (∃ a as, ttl = some (a :: as)) ∨ ttl = none ∨ ttl = some [] := by
  cases ttl with
  | none => exact Or.inr (Or.inl rfl)
  | some t =>
    cases t with
    | nil => exact Or.inr (Or.inr rfl)
    | cons a as => exact Or.inl ⟨a, as, rfl⟩

theorem prettify_adm (kl : Str) (ttl : Option Str) (body : Str) :
    TreeProc.prettify ((Node.el "div").append (admDiv kl ttl body)) = admRootFin kl ttl body := by
  rcases ttl_cases ttl with ⟨a, as, rfl⟩ | rfl | rfl <;>
    simp [TreeProc.prettify, admDiv, admRootFin, admFin, Node.append, Node.el, mkText, TreeProc.prettifyETree,
      TreeProc.prettifyKids, CodeLaw.bl_div, CodeLaw.bl_p, TreeProc.blankOrNone, Node.truthy, TreeProc.mapTree,
      TreeProc.mapKids, TreeProc.brRule, TreeProc.preRule, TreeProc.tagIs]

theorem unescapeTree_adm (kl : Str) (ttl : Option Str) (body : Str) (hk : TreeProc.STX ∉ kl)
    (ht : TreeProc.STX ∉ ttl.getD []) (hb : TreeProc.STX ∉ body) (hbne : body ≠ []) :
    TreeProc.unescapeTree (admRootFin kl ttl body) = some (admRootFin kl ttl body) := by
  have t3 : TreeProc.unescapeText 0 ['\n'] = some ['\n'] := by decide
  have t4 : TreeProc.unescapeText 0 "admonition-title".toList = some "admonition-title".toList := by decide
  have hcls : TreeProc.STX ∉ strAdmonition ++ ' ' :: kl := by
    intro hm
    rcases List.mem_append.1 hm with h | h
    · exact absurd h (by decide)
    · rcases List.mem_cons.1 h with h | h
      · exact absurd h (by decide)
      · exact hk h
  obtain ⟨b, bs, rfl⟩ : ∃ b bs, body = b :: bs := by
    cases body with
    | nil => exact absurd rfl hbne
    | cons b bs => exact ⟨b, bs, rfl⟩
  have t5 : TreeProc.unescapeText 0 ['a', 'd', 'm', 'o', 'n', 'i', 't', 'i', 'o', 'n', '-', 't', 'i', 't', 'l', 'e'] =
      some ['a', 'd', 'm', 'o', 'n', 'i', 't', 'i', 'o', 'n', '-', 't', 'i', 't', 'l', 'e'] := by decide
  rcases ttl_cases ttl with ⟨a, as, rfl⟩ | rfl | rfl
  · have ht' : TreeProc.STX ∉ a :: as := by simpa using ht
    simp [admRootFin, admFin, Node.truthy, TreeProc.unescapeTree, TreeProc.unescapeKids, TreeProc.unescAttrs, t3, t5,
      CodeLaw.unescapeText_id _ hcls, CodeLaw.unescapeText_id _ hb, CodeLaw.unescapeText_id _ ht', strClass]
  · simp [admRootFin, admFin, Node.truthy, TreeProc.unescapeTree, TreeProc.unescapeKids, TreeProc.unescAttrs, t3,
      CodeLaw.unescapeText_id _ hcls, CodeLaw.unescapeText_id _ hb, strClass]
  · simp [admRootFin, admFin, Node.truthy, TreeProc.unescapeTree, TreeProc.unescapeKids, TreeProc.unescAttrs, t3,
      CodeLaw.unescapeText_id _ hcls, CodeLaw.unescapeText_id _ hb, strClass]

theorem escAttrHtml_plain (s : Str) (h : ∀ c ∈ s, c ≠ '&' ∧ c ≠ '<' ∧ c ≠ '>' ∧ c ≠ '"') : Ser.escAttrHtml s = s := by
  unfold Ser.escAttrHtml
  rw [CodeLaw.escCdata_plain s (fun c hc => ⟨(h c hc).1, (h c hc).2.1, (h c hc).2.2.1⟩), Code.replace_single,
    Code.flatMap_sub1_id _ _ _ (fun c hc => (h c hc).2.2.2)]

/-- the serialisation of an element with one attribute whose tag is neither void nor raw-text -/
theorem serialize_attr1 (fmt : Ser.Fmt) (tag k v : Str) (text : Option Str) (ta : Bool) (kids : List Node)
    (tail : Option Str) (tla : Bool) (h1 : Ser.isEmptyTag tag = false) (h2 : Ser.isRawTextTag tag = false)
    (hkv : k ≠ Ser.escAttrHtml v) :
    Ser.serialize fmt ⟨.name tag, [(k, v)], text, ta, kids, tail, tla⟩ =
      '<' :: tag ++ ' ' :: k ++ '=' :: '"' :: Ser.escAttrHtml v ++ '"' :: '>' ::
        (if Node.truthy text then Ser.escCdata (text.getD []) else []) ++
        Ser.serializeList fmt kids ++ "</".toList ++ tag ++ ['>'] ++
        (if Node.truthy tail then Ser.escCdata (tail.getD []) else []) := by
  simp [Ser.serialize, Ser.element, h1, h2, Ser.writeAttrs, Ser.sortAttrs, Ser.insAttr, hkv]

/-- the rendering of an admonition -/
def admOut (kl : Str) (ttl : Option Str) (body : Str) : Str :=
  "<div class=\"admonition ".toList ++ kl ++ "\">\n".toList ++
    (if Node.truthy ttl then "<p class=\"admonition-title\">".toList ++ ttl.getD [] ++ "</p>\n".toList else []) ++
    "<p>".toList ++ body ++ "</p>\n</div>".toList

theorem admOut_shape (kl : Str) (ttl : Option Str) (body : Str) : ∃ M, admOut kl ttl body = '<' :: M ++ ['>'] := by
  rcases ttl_cases ttl with ⟨a, as, rfl⟩ | rfl | rfl
  · refine ⟨"div class=\"admonition ".toList ++ kl ++ "\">\n".toList ++
      ("<p class=\"admonition-title\">".toList ++ (a :: as) ++ "</p>\n".toList) ++
      "<p>".toList ++ body ++ "</p>\n</div".toList, ?_⟩
    unfold admOut
    simp only [Node.truthy, if_true, Option.getD_some]
    simp only [String.reduceToList, List.cons_append, List.append_assoc, List.nil_append]
  · refine ⟨"div class=\"admonition ".toList ++ kl ++ "\">\n".toList ++ "<p>".toList ++ body ++ "</p>\n</div".toList, ?_⟩
    unfold admOut
    simp only [Node.truthy, Bool.false_eq_true, if_false, List.append_nil]
    simp only [String.reduceToList, List.cons_append, List.append_assoc, List.nil_append]
  · refine ⟨"div class=\"admonition ".toList ++ kl ++ "\">\n".toList ++ "<p>".toList ++ body ++ "</p>\n</div".toList, ?_⟩
    unfold admOut
    simp only [Node.truthy, Bool.false_eq_true, if_false, List.append_nil]
    simp only [String.reduceToList, List.cons_append, List.append_assoc, List.nil_append]

theorem serialize_adm (fmt : Ser.Fmt) (kl : Str) (ttl : Option Str) (body : Str)
    (hk : ∀ c ∈ kl, c ≠ '&' ∧ c ≠ '<' ∧ c ≠ '>' ∧ c ≠ '"')
    (ht : ∀ c ∈ ttl.getD [], c ≠ '&' ∧ c ≠ '<' ∧ c ≠ '>') (hb : ∀ c ∈ body, c ≠ '&' ∧ c ≠ '<' ∧ c ≠ '>')
    (hbne : body ≠ []) :
    Ser.serialize fmt (admRootFin kl ttl body) =
      "<div>".toList ++ ('\n' :: admOut kl ttl body ++ ['\n']) ++ "</div>\n".toList := by
  have e7 : Ser.escCdata ['\n'] = ['\n'] := by decide
  have ecls : Ser.escAttrHtml (strAdmonition ++ ' ' :: kl) = strAdmonition ++ ' ' :: kl := by
    apply escAttrHtml_plain
    intro c hc
    rcases List.mem_append.1 hc with h | h
    · have : ∀ x ∈ strAdmonition, x ≠ '&' ∧ x ≠ '<' ∧ x ≠ '>' ∧ x ≠ '"' := by decide
      exact this c h
    · rcases List.mem_cons.1 h with rfl | h
      · decide
      · exact hk c h
  have etitle : Ser.escAttrHtml "admonition-title".toList = "admonition-title".toList := by decide
  have ne1 : strClass ≠ Ser.escAttrHtml (strAdmonition ++ ' ' :: kl) := by
    rw [ecls]
    have hsa : strAdmonition = 'a' :: "dmonition".toList := by decide
    have hcl : strClass = 'c' :: "lass".toList := by decide
    rw [hsa, hcl]
    intro h
    simp only [List.cons_append, List.cons.injEq] at h
    exact absurd h.1 (by decide)
  have ne2 : strClass ≠ Ser.escAttrHtml "admonition-title".toList := by decide
  obtain ⟨b, bs, rfl⟩ : ∃ b bs, body = b :: bs := by
    cases body with
    | nil => exact absurd rfl hbne
    | cons b bs => exact ⟨b, bs, rfl⟩
  have eb := CodeLaw.escCdata_plain _ hb
  simp only [admRootFin]
  rw [CodeLaw.serialize_plain fmt _ _ _ _ _ _ (by decide) (by decide)]
  simp only [Ser.serializeList, admFin]
  rw [serialize_attr1 fmt _ _ _ _ _ _ _ _ (by decide) (by decide) ne1, ecls]
  rcases ttl_cases ttl with ⟨a, as, rfl⟩ | rfl | rfl
  · have et := CodeLaw.escCdata_plain _ ht
    simp only [Option.getD_some] at et
    simp only [Node.truthy, if_true, List.cons_append, List.nil_append, Ser.serializeList]
    rw [serialize_attr1 fmt _ _ _ _ _ _ _ _ (by decide) (by decide) ne2, etitle,
      CodeLaw.serialize_plain fmt _ _ _ _ _ _ (by decide) (by decide)]
    simp only [Node.truthy, if_true, Option.getD_some, e7, eb, et, Ser.serializeList, List.append_nil]
    unfold admOut strClass strAdmonition
    simp only [Node.truthy, if_true, Option.getD_some]
    simp only [String.reduceToList, List.cons_append, List.append_assoc, List.nil_append]
  · simp only [Node.truthy, Bool.false_eq_true, if_false, List.nil_append, Ser.serializeList]
    rw [CodeLaw.serialize_plain fmt _ _ _ _ _ _ (by decide) (by decide)]
    simp only [Node.truthy, if_true, Option.getD_some, e7, eb, Ser.serializeList, List.append_nil]
    unfold admOut strClass strAdmonition
    simp only [Node.truthy, Bool.false_eq_true, if_false, List.append_nil]
    simp only [String.reduceToList, List.cons_append, List.append_assoc, List.nil_append]
  · simp only [Node.truthy, Bool.false_eq_true, if_false, List.nil_append, Ser.serializeList]
    rw [CodeLaw.serialize_plain fmt _ _ _ _ _ _ (by decide) (by decide)]
    simp only [Node.truthy, if_true, Option.getD_some, e7, eb, Ser.serializeList, List.append_nil]
    unfold admOut strClass strAdmonition
    simp only [Node.truthy, Bool.false_eq_true, if_false, List.append_nil]
    simp only [String.reduceToList, List.cons_append, List.append_assoc, List.nil_append]

/-! ### end to end -/

theorem safeLine_header (kl : Str) (title : Option Str) (hk : PlainFacts kl)
    (ht : ∀ t, title = some t → ∀ c ∈ t, DocSpec.isAlnumSp c = true) : SafeLine (admHeader kl title) := by
  have hch : ∀ c ∈ admHeader kl title, c = '!' ∨ c = '"' ∨ DocSpec.isAlnumSp c = true := by
    intro c hc
    have hc' : c ∈ ['!', '!', '!', ' '] ++ kl ++ admTitleSrc title := by simpa [admHeader] using hc
    rcases List.mem_append.1 hc' with h | h
    · rcases List.mem_append.1 h with h | h
      · have : ∀ x ∈ ['!', '!', '!', ' '], x = '!' ∨ x = '"' ∨ DocSpec.isAlnumSp x = true := by decide
        exact this c h
      · exact Or.inr (Or.inr (hk.chars c h))
    · cases title with
      | none => simp [admTitleSrc] at h
      | some t =>
        have h' : c ∈ [' ', '"'] ++ t ++ ['"'] := by simpa [admTitleSrc] using h
        rcases List.mem_append.1 h' with h | h
        · rcases List.mem_append.1 h with h | h
          · have : ∀ x ∈ [' ', '"'], x = '!' ∨ x = '"' ∨ DocSpec.isAlnumSp x = true := by decide
            exact this c h
          · exact Or.inr (Or.inr (ht t rfl c h))
        · have : c = '"' := by simpa using h
          exact Or.inr (Or.inl this)
  have hfacts : ∀ c ∈ admHeader kl title, c.toNat < 128 ∧ c ≠ '<' ∧ c ≠ '&' ∧ c ≠ '\n' ∧ c ≠ Normalize.STX ∧
      c ≠ Normalize.ETX ∧ c ≠ '\r' ∧ c ≠ '\t' := by
    intro c hc
    rcases hch c hc with rfl | rfl | h
    · decide
    · decide
    · have f := alnumSp_quiet h
      refine ⟨f.2.2.2.2.2.2.2.2, f.2.2.2.2.1, f.2.2.2.1, f.2.1, ?_, ?_, ?_, ?_⟩ <;>
        (intro e; subst e; exact absurd h (by decide))
  refine ⟨?_, fun c hc => ⟨(hfacts c hc).1, (hfacts c hc).2.1, (hfacts c hc).2.2.1⟩⟩
  simp only [DocParse.lineSafe, Bool.and_eq_true, List.all_eq_true, Bool.or_eq_true, bne_iff_ne, ne_eq]
  refine ⟨fun c hc => ?_, Or.inr ?_⟩
  · have f := hfacts c hc
    exact ⟨⟨⟨⟨f.2.2.2.1, f.2.2.2.2.1⟩, f.2.2.2.2.2.1⟩, f.2.2.2.2.2.2.1⟩, f.2.2.2.2.2.2.2⟩
  · simp [admHeader]

theorem safeLine_indent (tab : Nat) (l : Str) (h : PlainFacts l) : SafeLine (CodeLaw.indentLine tab l) := by
  obtain ⟨a, b, rfl⟩ : ∃ a b, l = a :: b := by
    cases l with
    | nil => exact absurd rfl h.ne
    | cons a b => exact ⟨a, b, rfl⟩
  have hmem : ∀ c ∈ CodeLaw.indentLine tab (a :: b), c = ' ' ∨ c ∈ a :: b := by
    intro c hc
    simp only [CodeLaw.indentLine, List.isEmpty_cons, Bool.false_eq_true, if_false, List.mem_append] at hc
    rcases hc with hc | hc
    · exact Or.inl (List.eq_of_mem_replicate hc)
    · exact Or.inr hc
  have hs := h.safeLine
  have hsafe := h.safe.1
  simp only [DocParse.lineSafe, Bool.and_eq_true, List.all_eq_true, Bool.or_eq_true, bne_iff_ne, ne_eq] at hsafe
  refine ⟨?_, fun c hc => ?_⟩
  · simp only [DocParse.lineSafe, Bool.and_eq_true, List.all_eq_true, Bool.or_eq_true, bne_iff_ne, ne_eq]
    refine ⟨fun c hc => ?_, Or.inr ?_⟩
    · rcases hmem c hc with rfl | hc
      · decide
      · exact hsafe.1 c hc
    · simp only [List.any_eq_true, bne_iff_ne, ne_eq]
      exact ⟨a, by simp [CodeLaw.indentLine], h.head a rfl⟩
  · rcases hmem c hc with rfl | hc
    · decide
    · exact hs.ascii c hc

theorem convertX_adm (cfg : Pipeline.Cfg) (hbl : cfg.blockLevel = TreeProc.defaultBlockLevel) (htab : 0 < cfg.tab)
    (kl : Str) (title ttl : Option Str) (b0 : Str) (br : List Str) (hk : PlainFacts kl)
    (ht : ∀ t, title = some t → ∀ c ∈ t, DocSpec.isAlnumSp c = true)
    (httl : ∀ c ∈ ttl.getD [], DocSpec.isAlnumSp c = true)
    (hb : ∀ l ∈ b0 :: br, PlainFacts l) (hcl : admClassTitle kl title = (kl, ttl)) :
    PipelineX.convertX { admonition := true } cfg (admSrc cfg.tab kl title (b0 :: br)) =
      .ok (admOut kl ttl (joinLines (b0 :: br))) := by
  have ht' : ∀ t, title = some t → ∀ c ∈ t, c ≠ '\n' ∧ c ≠ '"' := by
    intro t h c hc
    have f := alnumSp_quiet (ht t h c hc)
    exact ⟨f.2.1, f.2.2.2.2.2.2.1⟩
  -- the front
  obtain ⟨s1, s2, s3, s4, s5⟩ := front_lines cfg.tab (admHeader kl title :: CodeLaw.indentLines cfg.tab (b0 :: br))
    (by simp)
    (by
      intro l hl
      rcases List.mem_cons.1 hl with rfl | hl
      · exact safeLine_header kl title hk ht
      · obtain ⟨x, hx, rfl⟩ := List.mem_map.1 hl
        exact safeLine_indent cfg.tab x (hb x hx))
    ⟨'!', by
      rw [show joinLines (admHeader kl title :: CodeLaw.indentLines cfg.tab (b0 :: br)) =
        admSrc cfg.tab kl title (b0 :: br) from rfl, admSrc_eq]
      simp [admHeader], by decide⟩
  rw [show joinLines (admHeader kl title :: CodeLaw.indentLines cfg.tab (b0 :: br)) =
    admSrc cfg.tab kl title (b0 :: br) from rfl] at s1 s2 s3 s4 s5
  -- the block stage
  have hblk := parseDocumentXT_adm { admonition := true } rfl cfg.tab htab kl title ttl b0 br hk ht' hb hcl
  -- the inline stage
  have hquiet : quietKids false ((Node.el "div").append (admDiv kl ttl (joinLines (b0 :: br)))).children = true := by
    have hbq := quietStr_lines b0 br hb
    rcases ttl_cases ttl with ⟨a, as, rfl⟩ | rfl | rfl
    · have htq := quietStr_chars false (a :: as) (by simpa using httl)
      simp [Node.append, Node.el, admDiv, mkText, quietKids, quietTree, Node.truthy, hbq, htq]
    · simp [Node.append, Node.el, admDiv, mkText, quietKids, quietTree, Node.truthy, hbq]
    · simp [Node.append, Node.el, admDiv, mkText, quietKids, quietTree, Node.truthy, hbq]
  have hrun := fun (ic : Inline.Cfg) (keys : List Str) =>
    runX_quiet { cfg := ic, table := InlineX.table false false false, fnKeys := keys } false
      (fun hm => nl_mem_table false false false hm) (Nat.le_trans (by decide) (table_length false false false)) _ []
      hquiet
  -- the tree stages
  have hpre := prettify_adm kl ttl (joinLines (b0 :: br))
  have hbne : joinLines (b0 :: br) ≠ [] := by
    have := (block_facts b0 br hb).2.2.1
    intro e; rw [e] at this; simp [Escape.startsVisible] at this
  have hbch : ∀ c ∈ joinLines (b0 :: br), c ≠ Inline.STX ∧ c ≠ '&' ∧ c ≠ '<' ∧ c ≠ '>' := by
    intro c hc
    rcases mem_joinLines_plain hb hc with rfl | h
    · decide
    · have f := alnumSp_quiet h
      exact ⟨f.2.2.1, f.2.2.2.1, f.2.2.2.2.1, f.2.2.2.2.2.1⟩
  have hun := unescapeTree_adm kl ttl (joinLines (b0 :: br)) (fun hm => (alnumSp_quiet (hk.chars _ hm)).2.2.1 rfl)
    (fun hm => (alnumSp_quiet (httl _ hm)).2.2.1 rfl) (fun hm => (hbch _ hm).1 rfl) hbne
  have hser := serialize_adm cfg.fmt kl ttl (joinLines (b0 :: br))
    (fun c hc => let f := alnumSp_quiet (hk.chars c hc); ⟨f.2.2.2.1, f.2.2.2.2.1, f.2.2.2.2.2.1, f.2.2.2.2.2.2.1⟩)
    (fun c hc => let f := alnumSp_quiet (httl c hc); ⟨f.2.2.2.1, f.2.2.2.2.1, f.2.2.2.2.2.1⟩)
    (fun c hc => (hbch c hc).2) hbne
  -- the end
  have hJ : Post.STX ∉ admOut kl ttl (joinLines (b0 :: br)) := by
    intro hm
    unfold admOut at hm
    rcases List.mem_append.1 hm with hm | hm
    · rcases List.mem_append.1 hm with hm | hm
      · rcases List.mem_append.1 hm with hm | hm
        · rcases List.mem_append.1 hm with hm | hm
          · rcases List.mem_append.1 hm with hm | hm
            · rcases List.mem_append.1 hm with hm | hm
              · simp only [String.reduceToList] at hm; exact absurd hm (by decide)
              · exact (alnumSp_quiet (hk.chars _ hm)).2.2.1 rfl
            · simp only [String.reduceToList] at hm; exact absurd hm (by decide)
          · split at hm
            · rcases List.mem_append.1 hm with hm | hm
              · rcases List.mem_append.1 hm with hm | hm
                · simp only [String.reduceToList] at hm; exact absurd hm (by decide)
                · exact (alnumSp_quiet (httl _ hm)).2.2.1 rfl
              · simp only [String.reduceToList] at hm; exact absurd hm (by decide)
            · simp at hm
        · simp only [String.reduceToList] at hm; exact absurd hm (by decide)
      · exact (hbch _ hm).1 rfl
    · simp only [String.reduceToList] at hm; exact absurd hm (by decide)
  obtain ⟨M, hM⟩ := admOut_shape kl ttl (joinLines (b0 :: br))
  have hfin := finishX_wrapped { admonition := true } cfg rfl (admOut kl ttl (joinLines (b0 :: br))) hJ
    (fun c hc => by
      rw [hM] at hc
      have : c = '<' := by simpa using hc.symm
      subst this; decide)
    (fun c hc => by
      rw [hM, show '<' :: M ++ ['>'] = ('<' :: M) ++ ['>'] from rfl, List.getLast?_append] at hc
      have : c = '>' := by simpa using hc.symm
      subst this; decide)
  simp only [PipelineX.convertX, s1, s2, PipelineX.Exts.unsupported, Bool.false_eq_true, if_false,
    PipelineX.treeX, PipelineX.prepareX, s3, s4, s5, Bool.and_false, Bool.false_and, Bool.true_and,
    PipelineX.Exts.blockCfg, hblk, PipelineX.refsX, Bool.or_self, PipelineX.escX, hrun]
  simp only [hbl, hpre, hun, hser]
  exact hfin

/-! ### class and title of a lower-case header -/

/-- plain and without upper-case letters -/
structure LowerFacts (l : Str) : Prop extends PlainFacts l where
  lower : ∀ c ∈ l, isAsciiUpper c = false

theorem lowerChar_id_ascii : ∀ n, n < 128 → isAsciiUpper (Char.ofNat n) = false → lowerChar (Char.ofNat n) = [Char.ofNat n] := by
  decide +kernel

theorem lower_id (l : Str) (h : ∀ c ∈ l, c.toNat < 128 ∧ isAsciiUpper c = false) : lower l = l := by
  induction l with
  | nil => rfl
  | cons c l ih =>
    have hc := h c List.mem_cons_self
    have e : lowerChar c = [c] :=
      RefDef.char_of_ascii (fun c => isAsciiUpper c = false → lowerChar c = [c]) lowerChar_id_ascii c hc.1 hc.2
    have ih' := ih (fun d hd => h d (List.mem_cons_of_mem _ hd))
    simp only [lower, List.flatMap_cons, e] at ih' ⊢
    rw [ih']; rfl

theorem nds_cons2 (c d : Char) (t : Str) :
    DocSpec.noDoubleSpace (c :: d :: t) = (!(decide (c = ' ') && decide (d = ' ')) && DocSpec.noDoubleSpace (d :: t)) := by
  conv => lhs; unfold DocSpec.noDoubleSpace
  split
  · rename_i heq
    simp only [List.cons.injEq] at heq
    simp [heq.1, heq.2.1]
  · rename_i hd r hne heq
    simp only [List.cons.injEq] at heq
    obtain ⟨rfl, rfl⟩ := heq
    have : (decide (c = ' ') && decide (d = ' ')) = false := by
      cases h : (decide (c = ' ') && decide (d = ' ')) with
      | false => rfl
      | true =>
        simp only [Bool.and_eq_true, decide_eq_true_eq] at h
        exact absurd (by rw [h.2]) (hne t h.1)
    rw [this]
    simp only [Bool.not_false, Bool.true_and]
  · rename_i heq; cases heq

theorem collapseSp_id (l : Str) (h : DocSpec.noDoubleSpace l = true) : collapseSp l = l := by
  induction l with
  | nil => rfl
  | cons c l ih =>
    cases l with
    | nil => rfl
    | cons d t =>
      rw [nds_cons2] at h
      simp only [Bool.and_eq_true, Bool.not_eq_true'] at h
      have e : collapseSp (c :: d :: t) =
          (if (decide (c = ' ') && decide (d = ' ')) = true then collapseSp (d :: t) else c :: collapseSp (d :: t)) := rfl
      rw [e, h.1, ih h.2]
      simp

/-- the first character in upper case (of a lower-case ASCII word) -/
def upperFirst : Str → Str
  | [] => []
  | c :: r => (if isAsciiLower c then Char.ofNat (c.toNat - 32) else c) :: r

theorem upper_alnum_ascii : ∀ n, n < 128 → DocSpec.isAlnumSp (Char.ofNat n) = true →
    DocSpec.isAlnumSp (if isAsciiLower (Char.ofNat n) then Char.ofNat ((Char.ofNat n).toNat - 32) else Char.ofNat n) = true := by
  decide +kernel

theorem capitalize_lower (w : Str) (h : ∀ c ∈ w, c.toNat < 128 ∧ isAsciiUpper c = false) :
    capitalize w = upperFirst w := by
  cases w with
  | nil => rfl
  | cons c r => simp only [capitalize, upperFirst, lower_id r (fun d hd => h d (List.mem_cons_of_mem _ hd))]

theorem upperFirst_chars (w : Str) (h : ∀ c ∈ w, DocSpec.isAlnumSp c = true) :
    ∀ c ∈ upperFirst w, DocSpec.isAlnumSp c = true := by
  cases w with
  | nil => intro c hc; simp [upperFirst] at hc
  | cons a r =>
    intro c hc
    simp only [upperFirst, List.mem_cons] at hc
    rcases hc with rfl | hc
    · exact RefDef.char_of_ascii
        (fun a => DocSpec.isAlnumSp a = true →
          DocSpec.isAlnumSp (if isAsciiLower a then Char.ofNat (a.toNat - 32) else a) = true)
        upper_alnum_ascii a (DocParse.alnumSp_lt a (h a List.mem_cons_self)) (h a List.mem_cons_self)
    · exact h c (List.mem_cons_of_mem _ hc)

/-- class and title of a lower-case class line: the three forms of the header -/
theorem admClassTitle_lower (kl : Str) (hk : LowerFacts kl) (title : Option Str) :
    admClassTitle kl title =
      (kl, match title with
           | none => some (upperFirst (kl.takeWhile (· != ' ')))
           | some [] => none
           | some (a :: t) => some (a :: t)) := by
  have hasc : ∀ c ∈ kl, c.toNat < 128 ∧ isAsciiUpper c = false :=
    fun c hc => ⟨DocParse.alnumSp_lt c (hk.chars c hc), hk.lower c hc⟩
  have hlow : lower kl = kl := lower_id kl hasc
  have hcol : collapseSp kl = kl := collapseSp_id kl hk.nds
  have hcap : capitalize (kl.takeWhile (· != ' ')) = upperFirst (kl.takeWhile (· != ' ')) :=
    capitalize_lower _ (fun c hc => hasc c ((List.takeWhile_sublist _).subset hc))
  cases title with
  | none => simp only [admClassTitle, hlow, hcol, hcap]
  | some t =>
    cases t with
    | nil => simp only [admClassTitle, hlow, hcol]
    | cons a t => simp only [admClassTitle, hlow, hcol]

theorem admOut_some (kl : Str) (a : Char) (t body : Str) :
    admOut kl (some (a :: t)) body =
      "<div class=\"admonition ".toList ++ kl ++ "\">\n".toList ++
        ("<p class=\"admonition-title\">".toList ++ (a :: t) ++ "</p>\n".toList) ++
        "<p>".toList ++ body ++ "</p>\n</div>".toList := by
  unfold admOut
  simp only [Node.truthy, if_true, Option.getD_some]

theorem admOut_none (kl : Str) (ttl : Option Str) (body : Str) (h : ttl = none ∨ ttl = some []) :
    admOut kl ttl body =
      "<div class=\"admonition ".toList ++ kl ++ "\">\n".toList ++ "<p>".toList ++ body ++ "</p>\n</div>".toList := by
  unfold admOut
  rcases h with rfl | rfl <;> simp only [Node.truthy, Bool.false_eq_true, if_false, List.append_nil]

end MdVerif.RenderX
