/-
Helper lemmas for `Props/C06Links.lean` (inline links), part 1: `LinkInlineProcessor.getLink` on a simple
destination `(url)` / `(url "title")`, `handleMatch` of the link pattern, the reference pattern rejecting `[text](`,
and one turn of the pattern loop at an inline link whose text goes through the nested `__handleInline`.
Core Lean only.
-/
import MdVerif.Lemmas.RefTextSpec
import MdVerif.Lemmas.PlaceholdersCLink

namespace MdVerif.RefText
open Py Inline Escape CodeLaw DocParse DocParse2

/-! ### `getLink` on `(url)` -/

/-- a character of a destination: `destChar` of `Spec/NoCtlC.lean` (no backtick, backslash, `*`, `_`, bracket,
    parenthesis, quote, line break, STX, ETX) and not white space -/
def urlCh (c : Char) : Bool := NoCtl.destChar c && !isSpace c && c != '!'

theorem urlCh_facts {c : Char} (h : urlCh c = true) : NoCtl.destChar c = true ∧ isSpace c = false ∧ c ≠ '!' := by
  simp only [urlCh, Bool.and_eq_true, Bool.not_eq_true', bne_iff_ne, ne_eq] at h
  exact ⟨h.1.1, h.1.2, h.2⟩

theorem urlCh_dest {c : Char} (h : urlCh c = true) : NoCtl.destChar c = true := (urlCh_facts h).1

/-- the loop of `getLink` walks over destination characters -/
theorem linkLoop_dest (data : Str) (p : Nat) (R : Str) : ∀ (url : Str) (i : Nat) (l : Option Char),
    (∀ c ∈ url, NoCtl.destChar c = true) →
    ∃ l', linkLoop data p (url ++ R) (NoCtl.st0 i l) = linkLoop data p R (NoCtl.st0 (i + url.length) l') := by
  intro url
  induction url with
  | nil => intro i l _; exact ⟨l, by simp⟩
  | cons c r ih =>
    intro i l h
    have hc := h c List.mem_cons_self
    obtain ⟨l', hl'⟩ := ih (i + 1) (if c != ' ' then some c else l) (fun x hx => h x (List.mem_cons_of_mem _ hx))
    refine ⟨l', ?_⟩
    rw [List.cons_append, NoCtl.linkLoop_cons, NoCtl.linkStep_dest _ hc]
    simp only [NoCtl.st0, show ¬ ((1 : Nat) = 0) by omega, if_false]
    have : (if (c != ' ') = true then ({ bc := 1, bt := 1, index := i + 1, last := some c } : LinkSt)
        else { bc := 1, bt := 1, index := i + 1, last := l }) = NoCtl.st0 (i + 1) (if c != ' ' then some c else l) := by
      by_cases hsp : (c != ' ') = true <;> simp [hsp, NoCtl.st0]
    simp only [NoCtl.st0] at this hl' ⊢
    rw [this, hl']
    simp only [List.length_cons]
    congr 2; omega

theorem spanLen_head_false (q : Char → Bool) (s : Str) (h : ∀ c, s.head? = some c → q c = false) : spanLen q s = 0 := by
  cases s with
  | nil => rfl
  | cons c r => simp [spanLen, h c rfl]

theorem slice_mid (A B C : Str) : Inline.slice (A ++ B ++ C) A.length (A.length + B.length) = B := by
  unfold Inline.slice
  rw [← List.length_append, List.take_left' rfl, List.drop_left' rfl]

/-- **`getLink` (before `unescape`) on `(url)`**: destination `url`, no title, the link ends behind `)` -/
theorem getLinkRaw_url (X url rest : Str) (hu : ∀ c ∈ url, urlCh c = true) (hlt : url.head? ≠ some '<') :
    getLinkRaw (X ++ '(' :: (url ++ ')' :: rest)) X.length =
      (url, none, ((X.length + 1 + url.length + 1 : Nat) : Int), true) := by
  generalize hD : X ++ '(' :: (url ++ ')' :: rest) = data
  have hat : data[X.length]? = some '(' := by rw [← hD]; simp
  have hd1 : data.drop (X.length + 1) = url ++ ')' :: rest := by
    rw [← hD, show X ++ '(' :: (url ++ ')' :: rest) = (X ++ ['(']) ++ (url ++ ')' :: rest) by simp]
    exact List.drop_left' (by simp)
  have hsp : spanLen isSpace (url ++ ')' :: rest) = 0 := by
    apply spanLen_head_false
    intro c hc
    cases url with
    | nil => simp at hc; subst hc; decide
    | cons a r =>
      have hac : a = c := by simpa using hc
      rw [← hac]; exact (urlCh_facts (hu a List.mem_cons_self)).2.1
  have hang : linkAngle data (X.length + 1) = none := by
    apply NoCtl.linkAngle_none
    rw [hd1]
    cases url with
    | nil => simp
    | cons a r => simpa using hlt
  obtain ⟨l', hl'⟩ := linkLoop_dest data (X.length + 1) (')' :: rest) url (X.length + 1) none
    (fun c hc => urlCh_dest (hu c hc))
  have hloop : linkLoop data (X.length + 1) (url ++ ')' :: rest) { index := X.length + 1 } =
      ({ NoCtl.st0 (X.length + 1 + url.length + 1) l' with bc := 0 },
        some (Inline.slice data (X.length + 1) (X.length + 1 + url.length), none)) := by
    have e0 : ({ index := X.length + 1 } : LinkSt) = NoCtl.st0 (X.length + 1) none := rfl
    rw [e0, hl', NoCtl.linkLoop_cons]
    simp [linkStep, NoCtl.st0, qEq]
  have hslice : Inline.slice data (X.length + 1) (X.length + 1 + url.length) = url := by
    rw [← hD, show X ++ '(' :: (url ++ ')' :: rest) = (X ++ ['(']) ++ url ++ (')' :: rest) by simp]
    have := slice_mid (X ++ ['(']) url (')' :: rest)
    simpa using this
  unfold getLinkRaw
  simp only [hat, bne_self_eq_false, Bool.false_eq_true, if_false, hd1, hsp, Nat.add_zero, hang, hloop, hslice]
  simp [NoCtl.st0]

/-! ### `getLink` on `(url "title")` -/

/-- the loop inside a title walks over destination characters -/
theorem linkLoop_dest1 (data : Str) (p : Nat) (q : Char) (sq : Nat) (R : Str) : ∀ (t : Str) (i : Nat) (l : Option Char),
    (∀ c ∈ t, NoCtl.destChar c = true) →
    ∃ l', linkLoop data p (t ++ R) (NoCtl.st1 i q sq l) = linkLoop data p R (NoCtl.st1 (i + t.length) q sq l') := by
  intro t
  induction t with
  | nil => intro i l _; exact ⟨l, by simp⟩
  | cons c r ih =>
    intro i l h
    have hc := h c List.mem_cons_self
    obtain ⟨l', hl'⟩ := ih (i + 1) (if c != ' ' then some c else l) (fun x hx => h x (List.mem_cons_of_mem _ hx))
    refine ⟨l', ?_⟩
    rw [List.cons_append, NoCtl.linkLoop_cons, NoCtl.linkStep_dest _ hc]
    simp only [NoCtl.st1, show ¬ ((1 : Nat) = 0) by omega, if_false]
    have : (if (c != ' ') = true then
          ({ bc := 1, bt := 1, index := i + 1, quote := some q, startQ := some sq, ignore := true, last := some c } : LinkSt)
        else { bc := 1, bt := 1, index := i + 1, quote := some q, startQ := some sq, ignore := true, last := l }) =
        NoCtl.st1 (i + 1) q sq (if c != ' ' then some c else l) := by
      by_cases hsp : (c != ' ') = true <;> simp [hsp, NoCtl.st1]
    simp only [NoCtl.st1] at this hl' ⊢
    rw [this, hl']
    simp only [List.length_cons]
    congr 2; omega

/-- **`getLink` (before `unescape`) on `(url "title")`** (either quote): destination `url` + the space, title `t` -/
theorem getLinkRaw_title (X url t rest : Str) (q : Char) (hq : q = '"' ∨ q = '\'')
    (hu : ∀ c ∈ url, urlCh c = true) (hne : url ≠ []) (hlt : url.head? ≠ some '<')
    (ht : ∀ c ∈ t, NoCtl.destChar c = true) :
    getLinkRaw (X ++ '(' :: (url ++ ' ' :: q :: (t ++ q :: ')' :: rest))) X.length =
      (url ++ [' '], some t, ((X.length + 1 + url.length + 2 + t.length + 2 : Nat) : Int), true) := by
  generalize hD : X ++ '(' :: (url ++ ' ' :: q :: (t ++ q :: ')' :: rest)) = data
  have hat : data[X.length]? = some '(' := by rw [← hD]; simp
  have hd1 : data.drop (X.length + 1) = url ++ ' ' :: q :: (t ++ q :: ')' :: rest) := by
    rw [← hD, show X ++ '(' :: (url ++ ' ' :: q :: (t ++ q :: ')' :: rest)) =
      (X ++ ['(']) ++ (url ++ ' ' :: q :: (t ++ q :: ')' :: rest)) by simp]
    exact List.drop_left' (by simp)
  obtain ⟨a, r, hur⟩ : ∃ a r, url = a :: r := by
    cases url with
    | nil => exact absurd rfl hne
    | cons a r => exact ⟨a, r, rfl⟩
  have hsp : spanLen isSpace (url ++ ' ' :: q :: (t ++ q :: ')' :: rest)) = 0 := by
    apply spanLen_head_false
    intro c hc
    rw [hur] at hc
    have hac : a = c := by simpa using hc
    rw [← hac]; exact (urlCh_facts (hu a (by rw [hur]; exact List.mem_cons_self))).2.1
  have hang : linkAngle data (X.length + 1) = none := by
    apply NoCtl.linkAngle_none
    rw [hd1, hur]
    rw [hur] at hlt
    simpa using hlt
  have hqsp : (q != ' ') = true := by rcases hq with e | e <;> rw [e] <;> decide
  have hqd : q ≠ '(' ∧ q ≠ ')' := by rcases hq with e | e <;> rw [e] <;> decide
  -- the destination and the space
  have hus : ∀ c ∈ url ++ [' '], NoCtl.destChar c = true := by
    intro c hc
    rcases List.mem_append.1 hc with h | h
    · exact urlCh_dest (hu c h)
    · simp at h; subst h; decide
  obtain ⟨l1, h1⟩ := linkLoop_dest data (X.length + 1) (q :: (t ++ q :: ')' :: rest)) (url ++ [' ']) (X.length + 1) none hus
  -- the opening quote
  have h2 : linkLoop data (X.length + 1) (q :: (t ++ q :: ')' :: rest))
      (NoCtl.st0 (X.length + 1 + (url ++ [' ']).length) l1) =
      linkLoop data (X.length + 1) (t ++ q :: ')' :: rest)
        (NoCtl.st1 (X.length + 1 + (url ++ [' ']).length + 1) q (X.length + 1 + (url ++ [' ']).length + 1) (some q)) := by
    rw [NoCtl.linkLoop_cons]
    have hq' : (q = '\'' ∨ q = '"') := by rcases hq with e | e; exact Or.inr e; exact Or.inl e
    simp [linkStep, NoCtl.st0, NoCtl.st1, hqd.1, hqd.2, hq', hqsp]
  -- the title
  obtain ⟨l3, h3⟩ := linkLoop_dest1 data (X.length + 1) q (X.length + 1 + (url ++ [' ']).length + 1) (q :: ')' :: rest) t
    (X.length + 1 + (url ++ [' ']).length + 1) (some q) ht
  -- the closing quote
  have h4 : linkLoop data (X.length + 1) (q :: ')' :: rest)
      (NoCtl.st1 (X.length + 1 + (url ++ [' ']).length + 1 + t.length) q (X.length + 1 + (url ++ [' ']).length + 1) l3) =
      linkLoop data (X.length + 1) (')' :: rest)
        (NoCtl.st2 (X.length + 1 + (url ++ [' ']).length + 1 + t.length + 1) q (X.length + 1 + (url ++ [' ']).length + 1)
          (X.length + 1 + (url ++ [' ']).length + 1 + t.length + 1)) := by
    rw [NoCtl.linkLoop_cons]
    have hq' : (q = '\'' ∨ q = '"') := by rcases hq with e | e; exact Or.inr e; exact Or.inl e
    simp [linkStep, NoCtl.st1, NoCtl.st2, hqd.1, hqd.2, hq', hqsp]
  -- the closing parenthesis
  have h5 : linkLoop data (X.length + 1) (')' :: rest)
      (NoCtl.st2 (X.length + 1 + (url ++ [' ']).length + 1 + t.length + 1) q (X.length + 1 + (url ++ [' ']).length + 1)
        (X.length + 1 + (url ++ [' ']).length + 1 + t.length + 1)) =
      ({ NoCtl.st2 (X.length + 1 + (url ++ [' ']).length + 1 + t.length + 1 + 1) q
            (X.length + 1 + (url ++ [' ']).length + 1) (X.length + 1 + (url ++ [' ']).length + 1 + t.length + 1) with bc := 0 },
        some (Inline.slice data (X.length + 1) (X.length + 1 + (url ++ [' ']).length + 1 - 1),
          some (Inline.slice data (X.length + 1 + (url ++ [' ']).length + 1)
            (X.length + 1 + (url ++ [' ']).length + 1 + t.length + 1 - 1)))) := by
    rw [NoCtl.linkLoop_cons]
    simp [linkStep, NoCtl.st2, qEq]
  have hloop : linkLoop data (X.length + 1) (url ++ ' ' :: q :: (t ++ q :: ')' :: rest)) { index := X.length + 1 } =
      ({ NoCtl.st2 (X.length + 1 + (url ++ [' ']).length + 1 + t.length + 1 + 1) q
            (X.length + 1 + (url ++ [' ']).length + 1) (X.length + 1 + (url ++ [' ']).length + 1 + t.length + 1) with bc := 0 },
        some (Inline.slice data (X.length + 1) (X.length + 1 + (url ++ [' ']).length + 1 - 1),
          some (Inline.slice data (X.length + 1 + (url ++ [' ']).length + 1)
            (X.length + 1 + (url ++ [' ']).length + 1 + t.length + 1 - 1)))) := by
    have e0 : ({ index := X.length + 1 } : LinkSt) = NoCtl.st0 (X.length + 1) none := rfl
    have e1 : url ++ ' ' :: q :: (t ++ q :: ')' :: rest) = (url ++ [' ']) ++ q :: (t ++ q :: ')' :: rest) := by simp
    rw [e0, e1, h1, h2, h3, h4, h5]
  have hs1 : Inline.slice data (X.length + 1) (X.length + 1 + (url ++ [' ']).length + 1 - 1) = url ++ [' '] := by
    rw [← hD, show X ++ '(' :: (url ++ ' ' :: q :: (t ++ q :: ')' :: rest)) =
      (X ++ ['(']) ++ (url ++ [' ']) ++ (q :: (t ++ q :: ')' :: rest)) by simp]
    have := slice_mid (X ++ ['(']) (url ++ [' ']) (q :: (t ++ q :: ')' :: rest))
    simpa using this
  have hs2 : Inline.slice data (X.length + 1 + (url ++ [' ']).length + 1)
      (X.length + 1 + (url ++ [' ']).length + 1 + t.length + 1 - 1) = t := by
    rw [← hD, show X ++ '(' :: (url ++ ' ' :: q :: (t ++ q :: ')' :: rest)) =
      (X ++ '(' :: (url ++ [' ', q])) ++ t ++ (q :: ')' :: rest) by simp]
    have := slice_mid (X ++ '(' :: (url ++ [' ', q])) t (q :: ')' :: rest)
    simp only [List.length_append, List.length_cons, List.length_nil] at this ⊢
    rw [show X.length + 1 + (url.length + (0 + 1)) + 1 = X.length + (url.length + (0 + 1 + 1) + 1) by omega,
      show X.length + (url.length + (0 + 1 + 1) + 1) + t.length + 1 - 1 =
        X.length + (url.length + (0 + 1 + 1) + 1) + t.length by omega]
    exact this
  unfold getLinkRaw
  simp only [hat, bne_self_eq_false, Bool.false_eq_true, if_false, hd1, hsp, Nat.add_zero, hang, hloop, hs1, hs2]
  simp [NoCtl.st2]
  omega

/-! ### destinations as data -/

/-- a character of a title: a destination character whose only white space is the blank -/
def titleCh (c : Char) : Bool := NoCtl.destChar c && (!isSpace c || c == ' ') && c != '!'

theorem titleCh_facts {c : Char} (h : titleCh c = true) :
    NoCtl.destChar c = true ∧ (isSpace c = true → c = ' ') ∧ c ≠ '!' := by
  simp only [titleCh, Bool.and_eq_true, Bool.or_eq_true, Bool.not_eq_true', beq_iff_eq, bne_iff_ne, ne_eq] at h
  refine ⟨h.1.1, fun hs => ?_, h.2⟩
  rcases h.1.2 with h' | h'
  · rw [hs] at h'; cases h'
  · exact h'

/-- what stands between the parentheses: `url` or `url "title"` / `url 'title'` -/
def destSrc (url : Str) (title : Option (Char × Str)) : Str :=
  url ++ (match title with | none => [] | some (q, t) => ' ' :: q :: (t ++ [q]))

/-- a destination of non-space destination characters that does not start with `<`; the title, if any, between
    double or single quotes, of title characters, not empty, no blank at either end -/
def DestOK (url : Str) (title : Option (Char × Str)) : Prop :=
  (∀ c ∈ url, urlCh c = true) ∧ url ≠ [] ∧ url.head? ≠ some '<' ∧
    match title with
    | none => True
    | some (q, t) => (q = '"' ∨ q = '\'') ∧ (∀ c ∈ t, titleCh c = true) ∧ t ≠ [] ∧ t.head? ≠ some ' ' ∧
        t.getLast? ≠ some ' '

theorem strip_url {url : Str} (hu : ∀ c ∈ url, urlCh c = true) : strip url = url := by
  apply strip_eq_self
  · intro c hc
    exact (urlCh_facts (hu c (List.mem_of_mem_head? hc))).2.1
  · intro c hc
    exact (urlCh_facts (hu c (List.mem_of_getLast? hc))).2.1

theorem stx_not_mem_dest {s : Str} (h : ∀ c ∈ s, NoCtl.destChar c = true) : Inline.STX ∉ s := by
  intro hm
  exact (NoCtl.destChar_props (h _ hm)).2.2.2.2.1 rfl

/-- **`getLink` on a simple destination**: the destination, the title text, the position behind `)` -/
theorem getLink_dest (stash : List StashItem) (X url rest : Str) (title : Option (Char × Str))
    (h : DestOK url title) :
    getLink (unescape stash) (X ++ '(' :: (destSrc url title ++ ')' :: rest)) X.length =
      (url, title.map (·.2), ((X.length + 1 + (destSrc url title).length + 1 : Nat) : Int), true) := by
  obtain ⟨hu, hne, hlt, htl⟩ := h
  have hsu : Inline.STX ∉ url := stx_not_mem_dest (fun c hc => urlCh_dest (hu c hc))
  rw [NoCtl.getLink_eq]
  cases title with
  | none =>
    simp only [destSrc, List.append_nil]
    rw [getLinkRaw_url X url rest hu hlt]
    simp [InlineRef.unescape_id stash url hsu, strip_url hu]
  | some qt =>
    obtain ⟨q, t⟩ := qt
    obtain ⟨hq, ht, htne, hth, htlast⟩ := htl
    have htd : ∀ c ∈ t, NoCtl.destChar c = true := fun c hc => (titleCh_facts (ht c hc)).1
    have hst : Inline.STX ∉ t := stx_not_mem_dest htd
    have hdata : X ++ '(' :: (destSrc url (some (q, t)) ++ ')' :: rest) =
        X ++ '(' :: (url ++ ' ' :: q :: (t ++ q :: ')' :: rest)) := by simp [destSrc, List.append_assoc]
    rw [hdata, getLinkRaw_title X url t rest q hq hu hne hlt htd]
    have hsp : ∀ c, isSpace c = true → c ∈ t → c = ' ' := fun c hs hc => (titleCh_facts (ht c hc)).2.1 hs
    have hstrip_t : strip t = t := by
      apply strip_eq_self
      · intro c hc
        cases hs : isSpace c with
        | false => rfl
        | true =>
          have := hsp c hs (List.mem_of_mem_head? hc)
          subst this; exact absurd hc hth
      · intro c hc
        cases hs : isSpace c with
        | false => rfl
        | true =>
          have := hsp c hs (List.mem_of_getLast? hc)
          subst this; exact absurd hc htlast
    have hdq : dequote t = t := by
      unfold dequote
      have h1 : (t.head? == some '"') = false := by
        cases hh : t.head? with
        | none => rfl
        | some c =>
          have := NoCtl.destChar_props (htd c (List.mem_of_mem_head? hh))
          simpa using this.2.2.1
      have h2 : (t.head? == some '\'') = false := by
        cases hh : t.head? with
        | none => rfl
        | some c =>
          have := NoCtl.destChar_props (htd c (List.mem_of_mem_head? hh))
          simpa using this.2.2.2.1
      simp [h1, h2]
    have hmap : t.map (fun ch => if isSpace ch then ' ' else ch) = t := by
      conv => rhs; rw [← List.map_id t]
      apply List.map_congr_left
      intro c hc
      cases hs : isSpace c with
      | false => simp
      | true => simp [hsp c hs hc]
    have hsurl : strip (unescape stash (url ++ [' '])) = url := by
      rw [InlineRef.unescape_id stash _ (by
        intro hm; rcases List.mem_append.1 hm with h | h
        · exact hsu h
        · simp at h; revert h; decide)]
      have := strip_append_of_blank (a := []) (b := [' ']) (by rfl) (by decide) url
      simp only [List.nil_append] at this
      rw [this, strip_url hu]
    simp only [hsurl, Option.map_some, hstrip_t, InlineRef.unescape_id stash t hst, hdq, hmap]
    simp [destSrc]
    omega

/-! ### `handleMatch` of the link pattern and of the reference pattern at `[text](dest)` -/

/-- the title as the `<a>` element carries it -/
def titleOf (title : Option (Char × Str)) : Option Str := title.map (·.2)

theorem linkEl_inline (url : Str) (title : Option (Char × Str)) (text : Str) (h : DestOK url title) :
    (match titleOf title with
      | some t => (({ mkEl "a" with text := some text } : Node).setAttr "href".toList url).setAttr "title".toList t
      | none => ({ mkEl "a" with text := some text } : Node).setAttr "href".toList url) =
      InlineRef.linkEl url (titleOf title) text := by
  rw [InlineRef.linkEl_eq]
  cases title with
  | none => simp [titleOf, Node.setAttr, mkEl, Node.truthy]
  | some qt =>
    obtain ⟨q, t⟩ := qt
    obtain ⟨_, _, _, _, _, htne, _, _⟩ := h
    cases t with
    | nil => exact absurd rfl htne
    | cons a b => simp [titleOf, Node.setAttr, mkEl, Node.truthy]

/-- `handleMatch` of `LinkInlineProcessor` at `[text](dest)`; `text` without brackets -/
theorem linkHandle_inl' (cfg : Inline.Cfg) (stash : List StashItem) (pi : Nat) (hpi : pi = 3)
    (A text url post : Str) (title : Option (Char × Str)) (mstart : Nat) (h1 : '[' ∉ text) (h2 : ']' ∉ text)
    (hd : DestOK url title) :
    linkHandle cfg stash pi (A ++ text ++ ']' :: '(' :: (destSrc url title ++ ')' :: post)) mstart A.length =
      some ⟨.el (InlineRef.linkEl url (titleOf title) text), mstart,
        (((A ++ text ++ [']']).length + 1 + (destSrc url title).length + 1 : Nat) : Int)⟩ := by
  have hg := InlineRef.getText_plain A text ('(' :: (destSrc url title ++ ')' :: post)) h1 h2
  have hgl := getLink_dest stash (A ++ text ++ [']']) url post title hd
  have hdata : A ++ text ++ [']'] ++ '(' :: (destSrc url title ++ ')' :: post) =
      A ++ text ++ ']' :: '(' :: (destSrc url title ++ ')' :: post) := by simp [List.append_assoc]
  have hlen : (A ++ text ++ [']']).length = A.length + text.length + 1 := by simp; omega
  rw [hdata, hlen] at hgl
  have hp34 : (decide (pi = 3) || decide (pi = 4)) = true := by subst hpi; rfl
  have himg : (decide (pi = 4) || decide (pi = 5) || decide (pi = 7)) = false := by subst hpi; rfl
  unfold linkHandle
  rw [hg]
  simp only [Bool.not_true, Bool.false_eq_true, if_false, hp34, if_true, hgl, himg, hlen]
  have := linkEl_inline url title text hd
  simp only [titleOf] at this ⊢
  rw [← this]
  cases title <;> rfl

theorem linkHandle_inl (cfg : Inline.Cfg) (stash : List StashItem) (A text url post : Str)
    (title : Option (Char × Str)) (mstart : Nat) (h1 : '[' ∉ text) (h2 : ']' ∉ text) (hd : DestOK url title) :
    linkHandle cfg stash 3 (A ++ text ++ ']' :: '(' :: (destSrc url title ++ ')' :: post)) mstart A.length =
      some ⟨.el (InlineRef.linkEl url (titleOf title) text), mstart,
        (((A ++ text ++ [']']).length + 1 + (destSrc url title).length + 1 : Nat) : Int)⟩ :=
  linkHandle_inl' cfg stash 3 rfl A text url post title mstart h1 h2 hd

/-- `handleMatch` of `ReferenceInlineProcessor` rejects `[text](`: no `[label]` follows -/
theorem linkHandle_ref_rejectParen' (cfg : Inline.Cfg) (stash : List StashItem) (pi : Nat) (hpi : pi = 2)
    (A text rest : Str) (m : Nat) (h1 : '[' ∉ text) (h2 : ']' ∉ text) :
    linkHandle cfg stash pi (A ++ text ++ ']' :: '(' :: rest) m A.length = none := by
  have hg := InlineRef.getText_plain A text ('(' :: rest) h1 h2
  have he : evalId (A ++ text ++ ']' :: '(' :: rest) (A.length + text.length + 1) text = none := by
    have hdrop : (A ++ text ++ ']' :: '(' :: rest).drop (A.length + text.length + 1) = '(' :: rest := by
      have : A ++ text ++ ']' :: '(' :: rest = (A ++ text ++ [']']) ++ '(' :: rest := by simp
      rw [this]; apply List.drop_left'; simp; omega
    have hns : isSpace '(' = false := by decide
    unfold evalId
    rw [hdrop]
    simp [hns]
  have hp34 : (decide (pi = 3) || decide (pi = 4)) = false := by subst hpi; rfl
  have hp67 : (decide (pi = 6) || decide (pi = 7)) = false := by subst hpi; rfl
  unfold linkHandle
  rw [hg]
  simp only [Bool.not_true, Bool.false_eq_true, if_false, hp34, hp67, he]

theorem linkHandle_ref_rejectParen (cfg : Inline.Cfg) (stash : List StashItem) (A text rest : Str) (m : Nat)
    (h1 : '[' ∉ text) (h2 : ']' ∉ text) :
    linkHandle cfg stash 2 (A ++ text ++ ']' :: '(' :: rest) m A.length = none :=
  linkHandle_ref_rejectParen' cfg stash 2 rfl A text rest m h1 h2

/-! ### one turn of the pattern loop at an inline link -/

theorem findMatch3_eq (cfg : Inline.Cfg) (st : St) (data : Str) :
    findMatch cfg 3 data 0 st = some (linkScan cfg st.stash 3 data none data 0, st) := by
  simp [findMatch]

/-- pattern 3 finds the inline link when what stands before has no `[` and no `!` -/
theorem findMatch3_at (cfg : Inline.Cfg) (st : St) (pre text url post : Str) (title : Option (Char × Str))
    (hp1 : '[' ∉ pre) (hp2 : '!' ∉ pre) (h1 : '[' ∉ text) (h2 : ']' ∉ text) (hd : DestOK url title) :
    findMatch cfg 3 (pre ++ '[' :: (text ++ ']' :: '(' :: (destSrc url title ++ ')' :: post))) 0 st =
      some (some ⟨.el (InlineRef.linkEl url (titleOf title) text), pre.length,
            ((((pre ++ ['[']) ++ text ++ [']']).length + 1 + (destSrc url title).length + 1 : Nat) : Int)⟩, st) := by
  have hD : pre ++ '[' :: (text ++ ']' :: '(' :: (destSrc url title ++ ')' :: post)) =
      (pre ++ ['[']) ++ text ++ ']' :: '(' :: (destSrc url title ++ ')' :: post) := by simp [List.append_assoc]
  have hlh := linkHandle_inl cfg st.stash (pre ++ ['[']) text url post title pre.length h1 h2 hd
  have hscan := InlineRef.linkScan_link_at cfg st.stash 3 (by decide)
    (pre ++ '[' :: (text ++ ']' :: '(' :: (destSrc url title ++ ')' :: post))) pre
    (text ++ ']' :: '(' :: (destSrc url title ++ ')' :: post)) none 0 hp1 hp2 (by simp)
  have hlen : (pre ++ ['[']).length = 0 + pre.length + 1 := by simp
  rw [hlen, ← hD] at hlh
  simp only [Nat.zero_add] at hscan hlh
  rw [hlh] at hscan
  rw [findMatch3_eq, hscan]

/-- **one turn of the pattern loop at an inline link**: the link text goes through the nested `__handleInline` from
    the next pattern on, the `<a>` element with the resulting text is stashed, a placeholder takes the place of
    `[text](dest)` -/
theorem applyPattern_inlAt (cfg : Inline.Cfg) (hi : HI) (st st1 : St) (pre text text' url post : Str)
    (title : Option (Char × Str)) (hp1 : '[' ∉ pre) (hp2 : '!' ∉ pre) (h1 : '[' ∉ text) (h2 : ']' ∉ text)
    (hd : DestOK url title) (hne : text ≠ []) (hnest : hi text 4 st = some (text', st1)) :
    applyPattern cfg hi 3 (pre ++ '[' :: (text ++ ']' :: '(' :: (destSrc url title ++ ')' :: post))) 0 st =
      some (pre ++ (placeholder st1.stash.length ++ post), true, 0,
        { st1 with stash := st1.stash ++ [.node (InlineRef.linkEl url (titleOf title) text')] }) := by
  have hf := findMatch3_at cfg st pre text url post title hp1 hp2 h1 h2 hd
  obtain ⟨e1, e2, e3, e4, e5, e6⟩ := InlineRef.linkEl_fields url (titleOf title) text
  have htr : Node.truthy (some text) = true := by
    cases text with
    | nil => exact absurd rfl hne
    | cons a b => rfl
  have htake : (pre ++ '[' :: (text ++ ']' :: '(' :: (destSrc url title ++ ')' :: post))).take pre.length = pre := by simp
  have hdrop : (pre ++ '[' :: (text ++ ']' :: '(' :: (destSrc url title ++ ')' :: post))).drop
      (((pre ++ ['[']) ++ text ++ [']']).length + 1 + (destSrc url title).length + 1) = post := by
    have : pre ++ '[' :: (text ++ ']' :: '(' :: (destSrc url title ++ ')' :: post)) =
        ((pre ++ ['[']) ++ text ++ [']'] ++ ['('] ++ destSrc url title ++ [')']) ++ post := by simp [List.append_assoc]
    rw [this, List.drop_left' (by simp; omega)]
  have hr : hiOpt hi (InlineRef.linkEl url (titleOf title) text).text
      (InlineRef.linkEl url (titleOf title) text).textAtomic (3 + 1) st = some (some text', st1) := by
    rw [e4, e3]
    simp [hiOpt, htr, hnest]
  have hr2 : ∀ b st', hiOpt hi none b 3 st' = some (none, st') := by intro b st'; simp [hiOpt, Node.truthy]
  simp only [applyPattern, hf]
  have hno : ((InlineRef.linkEl url (titleOf title) text).text.isSome &&
      (InlineRef.linkEl url (titleOf title) text).textAtomic) = false := by
    rw [e3]; simp
  simp only [hno, Bool.false_eq_true, if_false, hiNode, hr, e2, hr2, e1, hiNodes, stashNode, InlineRef.pyDrop_nat,
    htake, hdrop]
  rw [← linkEl_text url (titleOf title) text text']
  generalize InlineRef.linkEl url (titleOf title) text = L at e1 e2
  obtain ⟨tag, attrs, tx, ta, ch, tl, tla⟩ := L
  simp only at e1 e2
  subst e1 e2
  simp [List.append_assoc]

end MdVerif.RefText
