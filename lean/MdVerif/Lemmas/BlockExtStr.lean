/-
String layer of the non-interference proofs of `Props/C16BlockExt.lean`.

A predicate `Ok` on strings is `Closed` when it holds of `''`, passes to substrings and to `a + '\n' + b`.
Every string that a block processor re-queues or hands to a recursive call is built from its block by
slicing, stripping, dropping indentation line by line and joining with newlines (`detab`, `looseDetab`,
`quoteClean`, `get_items`, `split('\n\n')`, …): `Ok` of the block gives `Ok` of all of them.
"Contains no occurrence of `pat`" is `Closed` for every pattern without a newline (`closed_noSub`).
Core Lean only.
-/
import MdVerif.Model.BlockExt

namespace MdVerif.BlockExt
open Py Block

structure Closed (Ok : Str → Prop) : Prop where
  nil : Ok []
  sub : ∀ {s t : Str}, t <:+: s → Ok s → Ok t
  joinNl : ∀ {a b : Str}, Ok a → Ok b → Ok (a ++ '\n' :: b)

def AllOk (Ok : Str → Prop) (bl : List Str) : Prop := ∀ b ∈ bl, Ok b

theorem AllOk.nil {Ok : Str → Prop} : AllOk Ok [] := by intro b hb; cases hb

theorem AllOk.cons {Ok : Str → Prop} {b : Str} {bl : List Str} (h1 : Ok b) (h2 : AllOk Ok bl) : AllOk Ok (b :: bl) := by
  intro x hx
  cases hx with
  | head => exact h1
  | tail _ h => exact h2 x h

theorem AllOk.single {Ok : Str → Prop} {b : Str} (h1 : Ok b) : AllOk Ok [b] := AllOk.cons h1 AllOk.nil

theorem AllOk.head {Ok : Str → Prop} {b : Str} {bl : List Str} (h : AllOk Ok (b :: bl)) : Ok b :=
  h b (List.mem_cons_self)

theorem AllOk.tail {Ok : Str → Prop} {b : Str} {bl : List Str} (h : AllOk Ok (b :: bl)) : AllOk Ok bl :=
  fun x hx => h x (List.mem_cons_of_mem _ hx)

theorem AllOk.append {Ok : Str → Prop} {l1 l2 : List Str} (h1 : AllOk Ok l1) (h2 : AllOk Ok l2) :
    AllOk Ok (l1 ++ l2) := by
  intro x hx
  rcases List.mem_append.mp hx with h | h
  · exact h1 x h
  · exact h2 x h

/-- `if s.isEmpty then rest else s :: rest` -/
theorem AllOk.consIf {Ok : Str → Prop} {b : Str} {bl : List Str} (c : Bool) (h1 : Ok b) (h2 : AllOk Ok bl) :
    AllOk Ok (if c = true then bl else b :: bl) := by
  split
  · exact h2
  · exact AllOk.cons h1 h2

/-! ### `split`, `lines`, `join` -/

theorem splitC_spec (ch : Char) (s : Str) :
    ∃ p ps, splitC ch s = p :: ps ∧ p <+: s ∧ ∀ l ∈ ps, l <:+: s := by
  induction s with
  | nil => exact ⟨[], [], rfl, List.prefix_refl _, by intro l hl; cases hl⟩
  | cons c s ih =>
    obtain ⟨p, ps, h1, h2, h3⟩ := ih
    simp only [splitC, h1]
    by_cases hc : c = ch
    · refine ⟨[], p :: ps, by simp [hc], List.nil_prefix, ?_⟩
      intro l hl
      cases hl with
      | head => exact List.infix_cons h2.isInfix
      | tail _ h => exact List.infix_cons (h3 l h)
    · refine ⟨c :: p, ps, by simp [hc], (List.prefix_cons_inj c).mpr h2, ?_⟩
      intro l hl
      exact List.infix_cons (h3 l hl)

theorem mem_lines_infix {l s : Str} (h : l ∈ lines s) : l <:+: s := by
  obtain ⟨p, ps, h1, h2, h3⟩ := splitC_spec '\n' s
  simp only [lines, h1] at h
  cases h with
  | head => exact h2.isInfix
  | tail _ h => exact h3 l h

theorem splitAux_spec (sep : Str) : ∀ (s : Str) (k : Nat),
    ∃ p ps, splitAux sep k s = p :: ps ∧ (k = 0 → p <+: s) ∧ p <:+: s ∧ ∀ l ∈ ps, l <:+: s := by
  intro s
  induction s with
  | nil => intro k; exact ⟨[], [], by simp [splitAux], fun _ => List.prefix_refl _, List.infix_refl _, by intro l hl; cases hl⟩
  | cons c s ih =>
    intro k
    cases k with
    | succ k =>
      obtain ⟨p, ps, h1, _, h3, h4⟩ := ih k
      exact ⟨p, ps, by simp [splitAux, h1], by omega, List.infix_cons h3, fun l hl => List.infix_cons (h4 l hl)⟩
    | zero =>
      by_cases hs : startsWith (c :: s) sep = true
      · obtain ⟨p, ps, h1, _, h3, h4⟩ := ih (sep.length - 1)
        refine ⟨[], p :: ps, by simp [splitAux, hs, h1], fun _ => List.nil_prefix, List.nil_infix, ?_⟩
        intro l hl
        cases hl with
        | head => exact List.infix_cons h3
        | tail _ h => exact List.infix_cons (h4 l h)
      · obtain ⟨p, ps, h1, h2, h3, h4⟩ := ih 0
        refine ⟨c :: p, ps, by simp [splitAux, hs, h1], fun _ => (List.prefix_cons_inj c).mpr (h2 rfl),
          ((List.prefix_cons_inj c).mpr (h2 rfl)).isInfix, fun l hl => List.infix_cons (h4 l hl)⟩

theorem mem_splitS_infix {sep l s : Str} (h : l ∈ splitS sep s) : l <:+: s := by
  obtain ⟨p, ps, h1, _, h3, h4⟩ := splitAux_spec sep s 0
  simp only [splitS, h1] at h
  cases h with
  | head => exact h3
  | tail _ h => exact h4 l h

theorem join_cons_cons (sep a b : Str) (r : List Str) : join sep (a :: b :: r) = a ++ sep ++ join sep (b :: r) := rfl

section closed
variable {Ok : Str → Prop} (hc : Closed Ok)
include hc

theorem ok_take {s : Str} (n : Nat) (h : Ok s) : Ok (s.take n) := hc.sub (List.take_prefix n s).isInfix h
theorem ok_drop {s : Str} (n : Nat) (h : Ok s) : Ok (s.drop n) := hc.sub (List.drop_suffix n s).isInfix h

theorem ok_joinLines {ls : List Str} (h : ∀ l ∈ ls, Ok l) : Ok (joinLines ls) := by
  induction ls with
  | nil => exact hc.nil
  | cons a r ih =>
    cases r with
    | nil => exact h a (List.mem_cons_self)
    | cons b r =>
      have : joinLines (a :: b :: r) = a ++ '\n' :: joinLines (b :: r) := by
        simp [Py.joinLines, join_cons_cons]
      rw [this]
      exact hc.joinNl (h a (List.mem_cons_self)) (ih (fun l hl => h l (List.mem_cons_of_mem _ hl)))

theorem ok_lines {s : Str} (h : Ok s) : ∀ l ∈ lines s, Ok l := fun _ hl => hc.sub (mem_lines_infix hl) h

/-- the lines of `s`, each replaced by a substring of itself, joined again -/
theorem ok_mapLines {s : Str} (f : Str → Str) (hf : ∀ l, f l <:+: l) (h : Ok s) :
    Ok (Py.joinLines ((Py.lines s).map f)) := by
  apply ok_joinLines hc
  intro l hl
  obtain ⟨l0, hl0, rfl⟩ := List.mem_map.mp hl
  exact hc.sub (hf l0) (ok_lines hc h l0 hl0)

theorem ok_splitS {sep s : Str} (h : Ok s) : AllOk Ok (splitS sep s) :=
  fun _ hl => hc.sub (mem_splitS_infix hl) h

end closed

/-! ### strip family -/

theorem lstripP_suffix (p : Char → Bool) (s : Str) : lstripP p s <:+ s := by
  induction s with
  | nil => exact List.suffix_refl _
  | cons c s ih =>
    simp only [lstripP]
    split
    · exact List.IsSuffix.trans ih (List.suffix_cons c s)
    · exact List.suffix_refl _

theorem rstripP_prefix (p : Char → Bool) (s : Str) : rstripP p s <+: s := by
  have h := lstripP_suffix p s.reverse
  obtain ⟨t, ht⟩ := h
  refine ⟨t.reverse, ?_⟩
  have := congrArg List.reverse ht
  simp only [List.reverse_append, List.reverse_reverse] at this
  simpa [rstripP] using this

theorem lstripP_infix (p : Char → Bool) (s : Str) : lstripP p s <:+: s := (lstripP_suffix p s).isInfix
theorem rstripP_infix (p : Char → Bool) (s : Str) : rstripP p s <:+: s := (rstripP_prefix p s).isInfix
theorem stripP_infix (p : Char → Bool) (s : Str) : stripP p s <:+: s :=
  List.IsInfix.trans (rstripP_infix p _) (lstripP_infix p s)

section closed2
variable {Ok : Str → Prop} (hc : Closed Ok)
include hc

theorem ok_lstripC {s : Str} (c : Char) (h : Ok s) : Ok (lstripC c s) := hc.sub (lstripP_infix _ s) h
theorem ok_rstripC {s : Str} (c : Char) (h : Ok s) : Ok (rstripC c s) := hc.sub (rstripP_infix _ s) h

end closed2

/-! ### `detab`, `looseDetab` -/

theorem detabLines_fst (n : Nat) (ls : List Str) :
    ∀ l' ∈ (detabLines n ls).1, l' = [] ∨ ∃ l ∈ ls, l' <:+: l := by
  induction ls with
  | nil => intro l' h; simp [detabLines] at h
  | cons line r ih =>
    intro l' h
    simp only [detabLines] at h
    split at h
    · simp only [List.mem_cons] at h
      rcases h with h | h
      · exact Or.inr ⟨line, List.mem_cons_self, h ▸ (List.drop_suffix n line).isInfix⟩
      · rcases ih l' h with h' | ⟨l, hl, hi⟩
        · exact Or.inl h'
        · exact Or.inr ⟨l, List.mem_cons_of_mem _ hl, hi⟩
    · split at h
      · simp only [List.mem_cons] at h
        rcases h with h | h
        · exact Or.inl h
        · rcases ih l' h with h' | ⟨l, hl, hi⟩
          · exact Or.inl h'
          · exact Or.inr ⟨l, List.mem_cons_of_mem _ hl, hi⟩
      · simp at h

theorem detabLines_snd (n : Nat) (ls : List Str) : ∀ l' ∈ (detabLines n ls).2, l' ∈ ls := by
  induction ls with
  | nil => intro l' h; simp [detabLines] at h
  | cons line r ih =>
    intro l' h
    simp only [detabLines] at h
    split at h
    · exact List.mem_cons_of_mem _ (ih l' h)
    · split at h
      · exact List.mem_cons_of_mem _ (ih l' h)
      · exact h

section closed3
variable {Ok : Str → Prop} (hc : Closed Ok)
include hc

theorem ok_detab_fst {s : Str} (n : Nat) (h : Ok s) : Ok (detab n s).1 := by
  simp only [detab]
  apply ok_joinLines hc
  intro l hl
  rcases detabLines_fst n _ l hl with h' | ⟨l0, hl0, hi⟩
  · rw [h']; exact hc.nil
  · exact hc.sub hi (ok_lines hc h l0 hl0)

theorem ok_detab_snd {s : Str} (n : Nat) (h : Ok s) : Ok (detab n s).2 := by
  simp only [detab]
  apply ok_joinLines hc
  intro l hl
  exact ok_lines hc h l (detabLines_snd n _ l hl)

theorem ok_looseDetab {s : Str} (tab level : Nat) (h : Ok s) : Ok (looseDetab tab s level) := by
  simp only [Block.looseDetab]
  apply ok_mapLines hc _ _ h
  intro l
  split
  · exact (List.drop_suffix _ l).isInfix
  · exact List.infix_refl l

end closed3

/-! ### `BlockQuoteProcessor.clean` -/

theorem quoteLine_infix {s g : Str} (h : quoteLine s = some g) : g <:+: s := by
  simp only [quoteLine] at h
  split at h
  · rename_i c r hd
    split at h
    · have hr : r <:+: s := by
        have : (c :: r) <:+ s := hd ▸ List.drop_suffix _ s
        exact List.IsInfix.trans (List.suffix_cons c r).isInfix this.isInfix
      injection h with h
      rw [← h]
      refine List.IsInfix.trans (List.takeWhile_prefix _).isInfix ?_
      split
      · rename_i d r'
        split
        · exact List.IsInfix.trans (List.suffix_cons d r').isInfix hr
        · exact hr
      · exact hr
    · cases h
  · cases h

theorem quoteClean_infix (line : Str) : quoteClean line <:+: line := by
  simp only [quoteClean]
  split
  · exact List.nil_infix
  · split
    · rename_i g hg
      simp only [quoteMatch] at hg
      split at hg
      · rename_i g' hq
        injection hg with hg
        exact hg ▸ quoteLine_infix hq
      · split at hg
        · rename_i c r
          split at hg
          · exact List.infix_cons (quoteLine_infix hg)
          · cases hg
        · cases hg
    · exact List.infix_refl _

/-! ### `get_items` -/

theorem listItemMatch_infix {tab : Nat} {ol ul : Bool} {s marker content : Str}
    (h : listItemMatch tab ol ul s = some (marker, content)) : content <:+: s := by
  simp only [listItemMatch] at h
  split at h
  · cases h
  · rename_i mk marker' r hmk
    split at h
    · cases h
    · injection h with h
      injection h with _ h
      rw [← h]
      have hr : r <:+: s.drop (countPrefix ' ' (some (tab - 1)) s) := by
        -- `r` is what follows the marker
        split at hmk
        · rename_i m hm
          injection hmk with hmk
          subst hmk
          split at hm
          · simp only [olMarker] at hm
            split at hm
            · injection hm with hm
              injection hm with _ hm
              exact hm ▸ (List.drop_suffix _ _).isInfix
            · cases hm
          · cases hm
        · split at hmk
          · generalize s.drop (countPrefix ' ' (some (tab - 1)) s) = s1 at hmk ⊢
            cases s1 with
            | nil => simp [ulMarker] at hmk
            | cons c r' =>
              simp only [ulMarker] at hmk
              split at hmk
              · injection hmk with hmk
                injection hmk with _ hmk
                exact hmk ▸ (List.suffix_cons c r').isInfix
              · cases hmk
          · cases hmk
      exact List.IsInfix.trans (List.takeWhile_prefix _).isInfix
        (List.IsInfix.trans (List.drop_suffix _ r).isInfix
          (List.IsInfix.trans hr (List.drop_suffix _ s).isInfix))

theorem mem_modifyLast {f : Str → Str} {items : List Str} {x : Str} (h : x ∈ modifyLast f items) :
    x ∈ items ∨ ∃ l ∈ items, x = f l := by
  simp only [modifyLast] at h
  split at h
  · rename_i l hl
    rcases List.mem_append.mp h with h | h
    · exact Or.inl ((List.dropLast_prefix items).subset h)
    · simp only [List.mem_singleton] at h
      exact Or.inr ⟨l, List.mem_of_getLast? hl, h⟩
  · exact Or.inl h

section closed4
variable {Ok : Str → Prop} (hc : Closed Ok)
include hc

theorem ok_getItemsStepX (p : ListParams) (tab : Nat) {items : List Str} {line : Str}
    (hi : AllOk Ok items) (hl : Ok line) : AllOk Ok (getItemsStepX p tab items line) := by
  simp only [BlockExt.getItemsStepX]
  have hmod : AllOk Ok (modifyLast (fun l => l ++ '\n' :: line) items) := by
    intro x hx
    rcases mem_modifyLast hx with h | ⟨l, hl', rfl⟩
    · exact hi x h
    · exact hc.joinNl (hi l hl') hl
  split
  · rename_i m content hm
    exact AllOk.append hi (AllOk.single (hc.sub (listItemMatch_infix hm) hl))
  · split
    · split
      · split
        · exact hmod
        · exact AllOk.append hi (AllOk.single hl)
      · exact AllOk.append hi (AllOk.single hl)
    · exact hmod

theorem ok_foldl_getItemsStepX (p : ListParams) (tab : Nat) (ls : List Str) :
    ∀ items, AllOk Ok items → AllOk Ok ls → AllOk Ok (ls.foldl (BlockExt.getItemsStepX p tab) items) := by
  induction ls with
  | nil => intro items hi _; exact hi
  | cons l r ih =>
    intro items hi hl
    exact ih _ (ok_getItemsStepX hc p tab hi (AllOk.head hl)) (AllOk.tail hl)

theorem ok_getItemsX (p : ListParams) (tab : Nat) {b : Str} (h : Ok b) : AllOk Ok (getItemsX p tab b) :=
  ok_foldl_getItemsStepX hc p tab _ [] AllOk.nil (ok_lines hc h)

end closed4

/-! ### "contains no occurrence of `pat`" is closed -/

theorem startsWith_iff_prefix (s pat : Str) : startsWith s pat = true ↔ pat <+: s := by
  induction pat generalizing s with
  | nil => simp [startsWith]
  | cons p ps ih =>
    cases s with
    | nil => simp [startsWith]
    | cons c s =>
      simp only [startsWith, Bool.and_eq_true, decide_eq_true_eq, ih]
      constructor
      · rintro ⟨rfl, h⟩; exact (List.prefix_cons_inj c).mpr h
      · intro h
        obtain ⟨t, ht⟩ := h
        simp only [List.cons_append, List.cons.injEq] at ht
        exact ⟨ht.1.symm, ⟨t, ht.2⟩⟩

theorem contains_iff_infix (s pat : Str) : contains s pat = true ↔ pat <:+: s := by
  simp only [contains]
  induction s with
  | nil =>
    cases pat with
    | nil => simp [find]
    | cons p ps => simp [find]
  | cons c s ih =>
    simp only [find]
    rw [List.infix_cons_iff, ← ih, ← startsWith_iff_prefix]
    split <;> simp_all

theorem infix_joinNl {pat a b : Str} (hnl : '\n' ∉ pat) (h : pat <:+: a ++ '\n' :: b) : pat <:+: a ∨ pat <:+: b := by
  obtain ⟨x, y, hxy⟩ := h
  rcases List.append_eq_append_iff.mp hxy with ⟨as, h1, _⟩ | ⟨bs, h1, h2⟩
  · exact Or.inl ⟨x, as, h1.symm⟩
  · rcases List.append_eq_append_iff.mp h1 with ⟨cs, h3, h4⟩ | ⟨ds, h3, h4⟩
    · -- a = x ++ cs, pat = cs ++ bs
      cases bs with
      | nil =>
        simp only [List.append_nil] at h4
        exact Or.inl ⟨x, [], by simp [h3, h4]⟩
      | cons d bs =>
        simp only [List.cons_append, List.cons.injEq] at h2
        exfalso; apply hnl; rw [h4, ← h2.1]; simp
    · -- x = a ++ ds, bs = ds ++ pat
      cases ds with
      | nil =>
        simp only [List.nil_append] at h4
        subst h4
        cases bs with
        | nil => exact Or.inr List.nil_infix
        | cons d bs =>
          simp only [List.cons_append, List.cons.injEq] at h2
          exfalso; apply hnl; rw [← h2.1]; simp
      | cons d ds =>
        subst h4
        simp only [List.cons_append, List.cons.injEq, List.append_assoc] at h2
        exact Or.inr ⟨ds, y, by rw [h2.2]; simp⟩

/-- for a non-empty pattern without a newline, "`pat` does not occur" is closed -/
theorem closed_noSub (pat : Str) (hne : pat ≠ []) (hnl : '\n' ∉ pat) : Closed (fun s => contains s pat = false) where
  nil := by
    cases pat with
    | nil => exact absurd rfl hne
    | cons p ps => simp [contains, find]
  sub := by
    intro s t hts hs
    cases h : contains t pat with
    | false => rfl
    | true =>
      have := (contains_iff_infix s pat).mpr (List.IsInfix.trans ((contains_iff_infix t pat).mp h) hts)
      simp [this] at hs
  joinNl := by
    intro a b ha hb
    cases h : contains (a ++ '\n' :: b) pat with
    | false => rfl
    | true =>
      rcases infix_joinNl hnl ((contains_iff_infix _ pat).mp h) with h' | h'
      · simp [(contains_iff_infix a pat).mpr h'] at ha
      · simp [(contains_iff_infix b pat).mpr h'] at hb

end MdVerif.BlockExt
