/-
Lemmas for C05 on the extension model, output level, part 3: the HTML stash after `InlineX.runX` holds the entries
it was given and, besides, only ENTITY REFERENCES that the serializer's `RE_AMP` accepts (`Vocab2.entRef`) — the walk
of `Lemmas/BlockExtFuelHtml.lean` (which proves the weaker `NoCtl.entityLike`) with `Vocab2.findMatch_html` for the
core patterns.  Core Lean only.
-/
import MdVerif.Model.InlineX
import MdVerif.Lemmas.InlineFuelVisit
import MdVerif.Lemmas.StashEntities

namespace MdVerif.VocabXOut.Stash
open Py Inline InlineX Vocab2

/-- every entry of the HTML stash satisfies `P` -/
def HtmlP (P : Str → Prop) (st : St) : Prop := ∀ e ∈ st.html, P e

variable {P : Str → Prop} (hP : ∀ e, entRef e = true → P e)

include hP in
theorem findMatch_htmlP {cfg : Cfg} {pi : Nat} {data : Str} {si : Nat} {st : St} {r : Option Found} {st' : St}
    (h : findMatch cfg pi data si st = some (r, st')) (hs : HtmlP P st) : HtmlP P st' := by
  rcases findMatch_html cfg pi data si st st' r h with e | ⟨raw, e1, e2⟩
  · intro x hx; rw [e] at hx; exact hs x hx
  · intro x hx
    rw [e1] at hx
    rcases List.mem_append.1 hx with hx | hx
    · exact hs x hx
    · simp only [List.mem_singleton] at hx; rw [hx]; exact hP _ e2

include hP in
theorem findX_htmlP {xc : XCfg} {k : PatK} {data : Str} {si : Nat} {x : XSt} {r : Option Found} {x' : XSt}
    (h : findX xc k data si x = some (r, x')) (hs : HtmlP P x.st) : HtmlP P x'.st := by
  cases k with
  | core i =>
    simp only [findX] at h
    split at h
    · cases h
    · next f st hf =>
      simp only [Option.some.injEq, Prod.mk.injEq] at h
      obtain ⟨-, rfl⟩ := h
      exact findMatch_htmlP hP hf hs
  | footnote =>
    simp only [findX] at h
    split at h
    · cases h; exact hs
    · split at h <;> (cases h; exact hs)
  | wikilink =>
    simp only [findX] at h
    split at h
    · cases h; exact hs
    · split at h <;> (cases h; exact hs)
  | nl =>
    simp only [findX] at h
    split at h
    · cases h; exact hs
    · split at h <;> (cases h; exact hs)

/-- the nested `__handleInline` keeps the property of the HTML stash -/
def HiP (P : Str → Prop) (hi : HIX) : Prop := ∀ t pi x d x', hi t pi x = some (d, x') → HtmlP P x.st → HtmlP P x'.st

theorem hiOptX_htmlP {hi : HIX} (hhi : HiP P hi) {t : Option Str} {atomic : Bool} {pi : Nat} {x : XSt}
    {r : Option Str} {x' : XSt} (h : hiOptX hi t atomic pi x = some (r, x')) (hs : HtmlP P x.st) : HtmlP P x'.st := by
  simp only [hiOptX] at h
  split at h
  · split at h
    · next d x1 hh => cases h; exact hhi _ _ _ _ _ hh hs
    · cases h
  · cases h; exact hs

theorem hiNodeX_htmlP {hi : HIX} (hhi : HiP P hi) {pi : Nat} {n : Node} {x : XSt} {n' : Node} {x' : XSt}
    (h : hiNodeX hi pi n x = some (n', x')) (hs : HtmlP P x.st) : HtmlP P x'.st := by
  simp only [hiNodeX] at h
  split at h
  · cases h
  · next t x1 h1 =>
    split at h
    · cases h
    · next tl x2 h2 => cases h; exact hiOptX_htmlP hhi h2 (hiOptX_htmlP hhi h1 hs)

theorem hiNodesX_htmlP {hi : HIX} (hhi : HiP P hi) {pi : Nat} : ∀ (l : List Node) {x : XSt} {l' : List Node}
    {x' : XSt}, hiNodesX hi pi l x = some (l', x') → HtmlP P x.st → HtmlP P x'.st := by
  intro l
  induction l with
  | nil => intro x l' x' h hs; simp only [hiNodesX, Option.some.injEq, Prod.mk.injEq] at h; rw [← h.2]; exact hs
  | cons n r ih =>
    intro x l' x' h hs
    simp only [hiNodesX] at h
    split at h
    · cases h
    · next n1 x1 h1 =>
      split at h
      · cases h
      · next r' x2 h2 => cases h; exact ih h2 (hiNodeX_htmlP hhi h1 hs)

theorem stashX_htmlP {x : XSt} {it : StashItem} (hs : HtmlP P x.st) : HtmlP P (stashX x it).2.st := hs

include hP in
theorem applyPatternX_htmlP (xc : XCfg) {hi : HIX} (hhi : HiP P hi) {pi : Nat} {data : Str} {si : Nat} {x : XSt}
    {d : Str} {m : Bool} {si' : Nat} {x' : XSt}
    (h : applyPatternX xc hi pi data si x = some (d, m, si', x')) (hs : HtmlP P x.st) : HtmlP P x'.st := by
  unfold applyPatternX at h
  split at h
  · cases h; exact hs
  · next k _ =>
    split at h
    · cases h
    · next x0 hf => cases h; exact findX_htmlP hP hf hs
    · next f x0 hf =>
      have hs0 := findX_htmlP hP hf hs
      split at h
      · cases h; exact hs0
      · simp only [Option.some.injEq, Prod.mk.injEq] at h
        obtain ⟨_, _, _, rfl⟩ := h
        exact stashX_htmlP hs0
      · next n hnode =>
        split at h
        · simp only [Option.some.injEq, Prod.mk.injEq] at h
          obtain ⟨_, _, _, rfl⟩ := h
          exact stashX_htmlP hs0
        · split at h
          · simp at h
          · next n1 xa h1 =>
            split at h
            · simp at h
            · next kids xb h2 =>
              simp only [Option.some.injEq, Prod.mk.injEq] at h
              obtain ⟨_, _, _, rfl⟩ := h
              exact stashX_htmlP (hiNodesX_htmlP hhi n.children h2 (hiNodeX_htmlP hhi h1 hs0))

theorem hiLoopX_htmlP {count : Nat} {ap : Nat → Str → Nat → XSt → Option (Str × Bool × Nat × XSt)}
    (hap : ∀ pi data si x d m si' x', ap pi data si x = some (d, m, si', x') → HtmlP P x.st → HtmlP P x'.st) :
    ∀ (g : Nat) (data : Str) (pi si : Nat) (x : XSt) (d : Str) (x' : XSt),
      hiLoopX count ap g data pi si x = some (d, x') → HtmlP P x.st → HtmlP P x'.st := by
  intro g
  induction g with
  | zero => intro data pi si x d x' h; simp [hiLoopX] at h
  | succ g ih =>
    intro data pi si x d x' h hs
    unfold hiLoopX at h
    split at h
    · split at h
      · cases h
      · next d1 m si1 x1 hx => exact ih _ _ _ _ _ _ h (hap _ _ _ _ _ _ _ _ hx hs)
    · cases h; exact hs

include hP in
theorem handleInlineX_htmlP (xc : XCfg) : ∀ f, HiP P (handleInlineX xc f) := by
  intro f
  induction f with
  | zero => intro t pi x d x' h; simp [handleInlineX] at h
  | succ f ih =>
    intro t pi x d x' h hs
    unfold handleInlineX at h
    exact hiLoopX_htmlP (fun pi data si x d m si' x' hx hs' => applyPatternX_htmlP hP xc ih hx hs') _ _ _ _ _ _ _ h hs

include hP in
theorem visitChildX_htmlP (xc : XCfg) {child : Node} {v : VisitX} {c : Node} {tr : List Node} {v' : VisitX}
    (h : visitChildX xc child v = some (c, tr, v')) (hs : HtmlP P v.x.st) : HtmlP P v'.x.st := by
  unfold visitChildX at h
  simp only at h
  split at h
  · cases h
  · next c1 lst x1 h1 =>
    have hs1 : HtmlP P x1.st := by
      split at h1
      · split at h1
        · cases h1
        · next data xa hh =>
          split at h1
          · cases h1
          · cases h1; exact handleInlineX_htmlP hP xc _ _ _ _ _ _ hh hs
      · cases h1; exact hs
    split at h
    · cases h
    · next c2 tr' x2 h2 =>
      simp only [Option.some.injEq, Prod.mk.injEq] at h
      obtain ⟨_, _, rfl⟩ := h
      show HtmlP P x2.st
      split at h2
      · split at h2
        · cases h2
        · next data xb hh =>
          split at h2
          · cases h2
          · simp only [Option.some.injEq, Prod.mk.injEq] at h2
            obtain ⟨_, _, rfl⟩ := h2
            split at hh
            · cases hh; exact hs1
            · exact handleInlineX_htmlP hP xc _ _ _ _ _ _ hh hs1
      · cases h2; exact hs1

include hP in
theorem visitLoopX_htmlP (xc : XCfg) : ∀ (g : Nat) (todo : List (Node × Option Nat)) (v r : VisitX),
    visitLoopX xc g todo v = some r → HtmlP P v.x.st → HtmlP P r.x.st := by
  intro g
  induction g with
  | zero => intro todo v r h; simp [visitLoopX] at h
  | succ g ih =>
    intro todo v r h hs
    cases todo with
    | nil => simp only [visitLoopX, Option.some.injEq] at h; rw [← h]; exact hs
    | cons a rest =>
      obtain ⟨child, orig⟩ := a
      simp only [visitLoopX] at h
      split at h
      · cases h
      · next c tr v1 hx => exact ih _ _ _ h (show HtmlP P v1.x.st from visitChildX_htmlP hP xc hx hs)

include hP in
theorem runLoopX_htmlP (xc : XCfg) (g2 : Nat) : ∀ (g : Nat) (root : Node) (stack : List Path) (x : XSt)
    (r : Node × XSt), runLoopX xc g2 g root stack x = some r → HtmlP P x.st → HtmlP P r.2.st := by
  intro g
  induction g with
  | zero => intro root stack x r h; simp [runLoopX] at h
  | succ g ih =>
    intro root stack x r h hs
    cases stack with
    | nil => simp only [runLoopX, Option.some.injEq] at h; rw [← h]; exact hs
    | cons p stack =>
      simp only [runLoopX] at h
      split at h
      · exact ih _ _ _ _ h hs
      · split at h
        · cases h
        · next v hv => exact ih _ _ _ _ h (visitLoopX_htmlP hP xc _ _ _ _ hv hs)


/-- **the HTML stash after `runX`**: the entries it was given, and entity references -/
theorem runX_entRef (xc : XCfg) {tree t : Node} {html : List Str} {xs : XSt}
    (h : runX xc tree html = some (t, xs)) : ∀ e ∈ xs.st.html, e ∈ html ∨ entRef e = true := by
  unfold runX at h
  exact runLoopX_htmlP (P := fun e => e ∈ html ∨ entRef e = true) (fun e he => Or.inr he) xc _ _ _ _ _ _ h
    (fun e he => Or.inl he)

end MdVerif.VocabXOut.Stash
