/-
Helper lemmas for C01 with inline links, inline images AND hard breaks in one paragraph (`Props/C01i.lean`, last part):
the stages after the pattern loop on a text `C₀ U₁ C₁ … Uₘ Cₘ` whose uses are links, images and hard breaks in any order
(definitions in `Lemmas/DocParse6NDef.lean`) — where the pieces are in the stash, `__processPlaceholders`, the element
through the inline processor, prettify, unescape, the serializer; the element as an `Elem` (`bElem`, `bElem_ok`).  The
pattern loop itself is a hypothesis (`LoopOKB`).  `Lemmas/DocParse6MBack.lean` with a third kind of use.  Core Lean only.
-/
import MdVerif.Lemmas.DocParse6NDef
import MdVerif.Lemmas.DocParse6MBack

set_option linter.unusedSimpArgs false

namespace MdVerif.DocMixB
open Py Inline Escape DocSpec CodeLaw DocParse Block DocParse2 RefText DocLink DocImg DocMix

/-! ### 1. where the pieces are in the stash -/

theorem bNodes0_length (gs : List BUse) : (bNodes0 gs).length = bCnt0 gs := by
  induction gs with
  | nil => rfl
  | cons g r ih =>
    cases g with
    | lk u => simp [bNodes0, bCnt0, BUse.tCnt, BUse.C, ih, Chunk.cnt]; omega
    | im u => simp [bNodes0, bCnt0, BUse.tCnt, BUse.C, ih, Chunk.cnt]
    | br C => simp [bNodes0, bCnt0, BUse.tCnt, BUse.C, ih, Chunk.cnt]

theorem bEscStash_length (esc : List Char) (gs : List BUse) : (bEscStash esc gs).length = bEscs esc gs := by
  induction gs with
  | nil => rfl
  | cons g r ih =>
    cases g with
    | lk u => simp [bEscStash, bEscs, BUse.tEscs, BUse.C, ih, Chunk.escStash_length]; omega
    | im u => simp [bEscStash, bEscs, BUse.tEscs, BUse.C, ih, Chunk.escStash_length]
    | br C => simp [bEscStash, bEscs, BUse.tEscs, BUse.C, ih, Chunk.escStash_length]

theorem bLinkStash_length (esc : List Char) (gs : List BUse) :
    ∀ (m n0 s : Nat), (bLinkStash esc m n0 s gs).length = bLinkLen gs := by
  induction gs with
  | nil => intro _ _ _; rfl
  | cons g r ih =>
    intro m n0 s
    cases g with
    | lk u => simp [bLinkStash, bLinkLen, ih, Chunk.cnt]; omega
    | im u => simp [bLinkStash, bLinkLen, ih]
    | br C => simp [bLinkStash, bLinkLen, ih]

theorem bImgs_length (gs : List BUse) : (bImgs gs).length = bImgLen gs := by
  induction gs with
  | nil => rfl
  | cons g r ih =>
    cases g with
    | lk u => simp [bImgs, bImgLen, ih]
    | im u => simp [bImgs, bImgLen, ih]
    | br C => simp [bImgs, bImgLen, ih]

theorem brItems_length (n : Nat) : (brItems n).length = n := by simp [brItems]

theorem outCnt_bOuter (esc : List Char) (k : Nat) (gs : List BUse) :
    ∀ (m n0 s t b : Nat), outCnt k (bOuter esc m n0 s t b gs) = bOutCnt k gs := by
  induction gs with
  | nil => intro _ _ _ _ _; rfl
  | cons g r ih =>
    intro m n0 s t b
    cases g with
    | lk u => simp [bOuter, outCnt, bOutCnt, BUse.C, ih]
    | im u => simp [bOuter, outCnt, bOutCnt, BUse.C, ih]
    | br C => simp [bOuter, outCnt, bOutCnt, BUse.C, ih]

theorem outNodes_bOuter_length (esc : List Char) (k : Nat) (gs : List BUse) (m n0 s t b : Nat) :
    (outNodes k (bOuter esc m n0 s t b gs)).length = bOutCnt k gs := by
  rw [outNodes_length, outCnt_bOuter]

theorem outNodes_bOuter_lk (esc : List Char) (k : Nat) (u : IUse) (r : List BUse) (m n0 s t b : Nat) :
    outNodes k (bOuter esc m n0 s t b (.lk u :: r)) = nodesOf k u.C.segs ++
      outNodes k (bOuter esc (m + u.T.escs esc + u.C.escs esc) (n0 + u.T.cnt 0 + u.C.cnt 0)
        (s + u.T.cnt 1 + u.T.cnt 2 + 1) t b r) := rfl

theorem outNodes_bOuter_im (esc : List Char) (k : Nat) (u : DocImg.MUse) (r : List BUse) (m n0 s t b : Nat) :
    outNodes k (bOuter esc m n0 s t b (.im u :: r)) = nodesOf k u.C.segs ++
      outNodes k (bOuter esc (m + u.C.escs esc) (n0 + u.C.cnt 0) s (t + 1) b r) := rfl

theorem outNodes_bOuter_br (esc : List Char) (k : Nat) (C : Chunk) (r : List BUse) (m n0 s t b : Nat) :
    outNodes k (bOuter esc m n0 s t b (.br C :: r)) = nodesOf k C.segs ++
      outNodes k (bOuter esc (m + C.escs esc) (n0 + C.cnt 0) s t (b + 1) r) := rfl

theorem bBrLen_lk (u : IUse) (r : List BUse) : bBrLen (.lk u :: r) = bBrLen r := rfl
theorem bBrLen_im (u : DocImg.MUse) (r : List BUse) : bBrLen (.im u :: r) = bBrLen r := rfl
theorem bBrLen_br (C : Chunk) (r : List BUse) : bBrLen (.br C :: r) = bBrLen r + 1 := rfl
theorem bImgs_lk (u : IUse) (r : List BUse) : bImgs (.lk u :: r) = bImgs r := rfl
theorem bImgs_im (u : DocImg.MUse) (r : List BUse) : bImgs (.im u :: r) = .node (imgNode u) :: bImgs r := rfl
theorem bImgs_br (C : Chunk) (r : List BUse) : bImgs (.br C :: r) = bImgs r := rfl
theorem bImgLen_lk (u : IUse) (r : List BUse) : bImgLen (.lk u :: r) = bImgLen r := rfl
theorem bImgLen_im (u : DocImg.MUse) (r : List BUse) : bImgLen (.im u :: r) = bImgLen r + 1 := rfl
theorem bImgLen_br (C : Chunk) (r : List BUse) : bImgLen (.br C :: r) = bImgLen r := rfl
theorem bLinkLen_lk (u : IUse) (r : List BUse) :
    bLinkLen (.lk u :: r) = u.T.cnt 1 + u.T.cnt 2 + 1 + bLinkLen r := rfl
theorem bLinkLen_im (u : DocImg.MUse) (r : List BUse) : bLinkLen (.im u :: r) = bLinkLen r := rfl
theorem bLinkLen_br (C : Chunk) (r : List BUse) : bLinkLen (.br C :: r) = bLinkLen r := rfl
theorem tEscs_lk (esc : List Char) (u : IUse) : (BUse.lk u).tEscs esc = u.T.escs esc := rfl
theorem tEscs_im (esc : List Char) (u : DocImg.MUse) : (BUse.im u).tEscs esc = 0 := rfl
theorem tEscs_br (esc : List Char) (C : Chunk) : (BUse.br C).tEscs esc = 0 := rfl
theorem tCnt_lk (k : Nat) (u : IUse) : (BUse.lk u).tCnt k = u.T.cnt k := rfl
theorem tCnt_im (k : Nat) (u : DocImg.MUse) : (BUse.im u).tCnt k = 0 := rfl
theorem tCnt_br (k : Nat) (C : Chunk) : (BUse.br C).tCnt k = 0 := rfl

/-- the lengths of the regions of the stash -/
local macro "blen" : tactic =>
  `(tactic| first
    | (simp only [List.length_append, List.length_cons, List.length_nil, bNodes0_length, bEscStash_length,
        bLinkStash_length, bImgs_length, brItems_length, outNodes_bOuter_length, Chunk.escStash_length, cnt_len, bCnt0,
        bEscs, bLinkLen_lk, bLinkLen_im, bLinkLen_br, bImgLen_lk, bImgLen_im, bImgLen_br, bBrLen_lk, bBrLen_im,
        bBrLen_br, bOutCnt, tCnt_lk, tCnt_im, tCnt_br, tEscs_lk, tEscs_im, tEscs_br, BUse.C]; omega)
    | omega)

/-- where the stash holds the pieces of the uses.  A link: the link text (escapes from `m`, code spans from `n0`, its
    emphases from `s`), its `<a>` element, the content after it (emphases from `n1`, `n2`).  An image: its `<img>`
    element (number `t`), the content after it.  A hard break: its `<br>` element (number `b`), the content after it. -/
def BAt (esc : List Char) (S : List StashItem) : Nat → Nat → Nat → Nat → Nat → Nat → Nat → List BUse → Prop
  | _, _, _, _, _, _, _, [] => True
  | m, n0, s, t, b, n1, n2, .lk u :: r =>
    ChunkAt esc S u.T m n0 s (s + u.T.cnt 1) ∧
    S[s + u.T.cnt 1 + u.T.cnt 2]? =
      some (.node (InlineRef.linkEl u.url (titleOf u.dtitle) (u.T.stage esc 3 true m n0 s (s + u.T.cnt 1)))) ∧
    ChunkAt esc S u.C (m + u.T.escs esc) (n0 + u.T.cnt 0) n1 n2 ∧
    BAt esc S (m + u.T.escs esc + u.C.escs esc) (n0 + u.T.cnt 0 + u.C.cnt 0) (s + u.T.cnt 1 + u.T.cnt 2 + 1) t b
      (n1 + u.C.cnt 1) (n2 + u.C.cnt 2) r
  | m, n0, s, t, b, n1, n2, .im u :: r =>
    S[t]? = some (.node (imgNode u)) ∧
    ChunkAt esc S u.C m n0 n1 n2 ∧
    BAt esc S (m + u.C.escs esc) (n0 + u.C.cnt 0) s (t + 1) b (n1 + u.C.cnt 1) (n2 + u.C.cnt 2) r
  | m, n0, s, t, b, n1, n2, .br C :: r =>
    S[b]? = some (.node (mkEl "br")) ∧
    ChunkAt esc S C m n0 n1 n2 ∧
    BAt esc S (m + C.escs esc) (n0 + C.cnt 0) s t (b + 1) (n1 + C.cnt 1) (n2 + C.cnt 2) r

/-- **where the pieces of the uses are** in a stash of the shape
    `P0, code spans, P1, escapes, P2, link entries, P3, <img> elements, P4, <br> elements, P5, * emphases outside, P6,
    _ emphases outside, E` -/
theorem bAt_layout (esc : List Char) (gs : List BUse) :
    ∀ (P0 P1 P2 P3 P4 P5 P6 E : List StashItem) (m n0 s t b n1 n2 : Nat), n0 = P0.length →
      m = P0.length + bCnt0 gs + P1.length → s = m + bEscs esc gs + P2.length →
      t = s + bLinkLen gs + P3.length → b = t + bImgLen gs + P4.length → n1 = b + bBrLen gs + P5.length →
      n2 = n1 + bOutCnt 1 gs + P6.length →
      BAt esc (P0 ++ bNodes0 gs ++ P1 ++ bEscStash esc gs ++ P2 ++ bLinkStash esc m n0 s gs ++ P3 ++ bImgs gs ++ P4 ++
        brItems (bBrLen gs) ++ P5 ++ outNodes 1 (bOuter esc m n0 s t b gs) ++ P6 ++
        outNodes 2 (bOuter esc m n0 s t b gs) ++ E) m n0 s t b n1 n2 gs := by
  induction gs with
  | nil => intro _ _ _ _ _ _ _ _ _ _ _ _ _ _ _ _ _ _ _ _ _ _; trivial
  | cons g r ih =>
    intro P0 P1 P2 P3 P4 P5 P6 E m n0 s t b n1 n2 h0 hm hs ht hb h1 h2
    cases g with
    | lk u =>
      generalize hS : P0 ++ bNodes0 (.lk u :: r) ++ P1 ++ bEscStash esc (.lk u :: r) ++ P2 ++
        bLinkStash esc m n0 s (.lk u :: r) ++ P3 ++ bImgs (.lk u :: r) ++ P4 ++ brItems (bBrLen (.lk u :: r)) ++ P5 ++
        outNodes 1 (bOuter esc m n0 s t b (.lk u :: r)) ++ P6 ++ outNodes 2 (bOuter esc m n0 s t b (.lk u :: r)) ++ E = S
      generalize hm' : m + u.T.escs esc + u.C.escs esc = m' at *
      generalize hn0' : n0 + u.T.cnt 0 + u.C.cnt 0 = n0' at *
      generalize hs' : s + u.T.cnt 1 + u.T.cnt 2 + 1 = s' at *
      have hLr := bLinkStash_length esc r m' n0' s'
      have hO1 := outNodes_bOuter_length esc 1 r m' n0' s' t b
      have hO2 := outNodes_bOuter_length esc 2 r m' n0' s' t b
      have hN0 := bNodes0_length r
      have hEr := bEscStash_length esc r
      have hIr := bImgs_length r
      have hET := Chunk.escStash_length esc u.T
      have hEC := Chunk.escStash_length esc u.C
      simp only [bCnt0, bEscs, bLinkLen_lk, bImgLen_lk, bBrLen_lk, bOutCnt, tCnt_lk, tEscs_lk, BUse.C] at hm hs ht hb h1 h2
      refine ⟨⟨?_, ?_⟩, ?_, ⟨?_, ?_⟩, ?_⟩
      · -- escapes of the link text
        have := escs_at esc u.T (P0 ++ bNodes0 (.lk u :: r) ++ P1)
          (u.C.escStash esc ++ bEscStash esc r ++ P2 ++ bLinkStash esc m n0 s (.lk u :: r) ++ P3 ++
            bImgs (.lk u :: r) ++ P4 ++ brItems (bBrLen (.lk u :: r)) ++ P5 ++
            outNodes 1 (bOuter esc m n0 s t b (.lk u :: r)) ++ P6 ++
            outNodes 2 (bOuter esc m n0 s t b (.lk u :: r)) ++ E) m
          (by blen)
        rw [← hS]
        simpa [bEscStash, List.append_assoc] using this
      · -- items of the link text
        have := mStash_at u.T.segs P0 (nodesOf 0 u.C.segs ++ bNodes0 r ++ P1 ++ bEscStash esc (.lk u :: r) ++ P2) []
          (.node (InlineRef.linkEl u.url (titleOf u.dtitle) (u.T.stage esc 3 true m n0 s (s + u.T.cnt 1))) ::
            bLinkStash esc m' n0' s' r ++ P3 ++ bImgs (.lk u :: r) ++ P4 ++ brItems (bBrLen (.lk u :: r)) ++ P5 ++
            outNodes 1 (bOuter esc m n0 s t b (.lk u :: r)) ++ P6 ++
            outNodes 2 (bOuter esc m n0 s t b (.lk u :: r)) ++ E) n0 s (s + u.T.cnt 1) h0
          (by blen)
          (by blen)
        rw [← hS]
        simpa [bNodes0, bLinkStash, List.append_assoc, hm', hn0', hs'] using this
      · -- the `<a>` element
        rw [← hS]
        have hpre : (P0 ++ bNodes0 (.lk u :: r) ++ P1 ++ bEscStash esc (.lk u :: r) ++ P2 ++ nodesOf 1 u.T.segs ++
            nodesOf 2 u.T.segs).length = s + u.T.cnt 1 + u.T.cnt 2 := by
          blen
        have hform : P0 ++ bNodes0 (.lk u :: r) ++ P1 ++ bEscStash esc (.lk u :: r) ++ P2 ++
            bLinkStash esc m n0 s (.lk u :: r) ++ P3 ++ bImgs (.lk u :: r) ++ P4 ++ brItems (bBrLen (.lk u :: r)) ++ P5 ++
            outNodes 1 (bOuter esc m n0 s t b (.lk u :: r)) ++ P6 ++
            outNodes 2 (bOuter esc m n0 s t b (.lk u :: r)) ++ E =
            (P0 ++ bNodes0 (.lk u :: r) ++ P1 ++ bEscStash esc (.lk u :: r) ++ P2 ++ nodesOf 1 u.T.segs ++
              nodesOf 2 u.T.segs) ++
            (.node (InlineRef.linkEl u.url (titleOf u.dtitle) (u.T.stage esc 3 true m n0 s (s + u.T.cnt 1))) ::
              (bLinkStash esc m' n0' s' r ++ P3 ++ bImgs (.lk u :: r) ++ P4 ++ brItems (bBrLen (.lk u :: r)) ++ P5 ++
              outNodes 1 (bOuter esc m n0 s t b (.lk u :: r)) ++ P6 ++
              outNodes 2 (bOuter esc m n0 s t b (.lk u :: r)) ++ E)) := by
          simp [bLinkStash, List.append_assoc, hm', hn0', hs']
        rw [hform, ← hpre, List.getElem?_append_right (Nat.le_refl _)]
        simp
      · -- escapes of the content after the link
        have := escs_at esc u.C (P0 ++ bNodes0 (.lk u :: r) ++ P1 ++ u.T.escStash esc)
          (bEscStash esc r ++ P2 ++ bLinkStash esc m n0 s (.lk u :: r) ++ P3 ++ bImgs (.lk u :: r) ++ P4 ++
            brItems (bBrLen (.lk u :: r)) ++ P5 ++
            outNodes 1 (bOuter esc m n0 s t b (.lk u :: r)) ++ P6 ++ outNodes 2 (bOuter esc m n0 s t b (.lk u :: r)) ++ E)
          (m + u.T.escs esc)
          (by blen)
        rw [← hS]
        simpa [bEscStash, List.append_assoc] using this
      · -- items of the content after the link
        have := mStash_at u.C.segs (P0 ++ nodesOf 0 u.T.segs)
          (bNodes0 r ++ P1 ++ bEscStash esc (.lk u :: r) ++ P2 ++ bLinkStash esc m n0 s (.lk u :: r) ++ P3 ++
            bImgs (.lk u :: r) ++ P4 ++ brItems (bBrLen (.lk u :: r)) ++ P5)
          (outNodes 1 (bOuter esc m' n0' s' t b r) ++ P6)
          (outNodes 2 (bOuter esc m' n0' s' t b r) ++ E) (n0 + u.T.cnt 0) n1 n2
          (by simp only [List.length_append, cnt_len, h0])
          (by blen)
          (by blen)
        rw [← hS]
        simpa [bNodes0, outNodes_bOuter_lk, List.append_assoc, hm', hn0', hs'] using this
      · -- the other uses
        have := ih (P0 ++ nodesOf 0 u.T.segs ++ nodesOf 0 u.C.segs) (P1 ++ u.T.escStash esc ++ u.C.escStash esc)
          (P2 ++ nodesOf 1 u.T.segs ++ nodesOf 2 u.T.segs ++
            [.node (InlineRef.linkEl u.url (titleOf u.dtitle) (u.T.stage esc 3 true m n0 s (s + u.T.cnt 1)))])
          P3 P4 (P5 ++ nodesOf 1 u.C.segs) (P6 ++ nodesOf 2 u.C.segs) E m' n0' s' t b (n1 + u.C.cnt 1)
          (n2 + u.C.cnt 2)
          (by blen)
          (by blen)
          (by blen)
          (by blen)
          (by blen)
          (by blen)
          (by blen)
        rw [← hS]
        simpa [bNodes0, bEscStash, bLinkStash, bImgs_lk, bBrLen_lk, outNodes_bOuter_lk, List.append_assoc, hm', hn0',
          hs'] using this
    | im u =>
      generalize hS : P0 ++ bNodes0 (.im u :: r) ++ P1 ++ bEscStash esc (.im u :: r) ++ P2 ++
        bLinkStash esc m n0 s (.im u :: r) ++ P3 ++ bImgs (.im u :: r) ++ P4 ++ brItems (bBrLen (.im u :: r)) ++ P5 ++
        outNodes 1 (bOuter esc m n0 s t b (.im u :: r)) ++ P6 ++ outNodes 2 (bOuter esc m n0 s t b (.im u :: r)) ++ E = S
      generalize hm' : m + u.C.escs esc = m' at *
      generalize hn0' : n0 + u.C.cnt 0 = n0' at *
      have hLr := bLinkStash_length esc r m' n0' s
      have hO1 := outNodes_bOuter_length esc 1 r m' n0' s (t + 1) b
      have hO2 := outNodes_bOuter_length esc 2 r m' n0' s (t + 1) b
      have hN0 := bNodes0_length r
      have hEr := bEscStash_length esc r
      have hIr := bImgs_length r
      have hEC := Chunk.escStash_length esc u.C
      simp only [bCnt0, bEscs, bLinkLen_im, bImgLen_im, bBrLen_im, bOutCnt, tCnt_im, tEscs_im, BUse.C] at hm hs ht hb h1 h2
      refine ⟨?_, ⟨?_, ?_⟩, ?_⟩
      · -- the `<img>` element
        rw [← hS]
        have hpre : (P0 ++ bNodes0 (.im u :: r) ++ P1 ++ bEscStash esc (.im u :: r) ++ P2 ++
            bLinkStash esc m n0 s (.im u :: r) ++ P3).length = t := by
          blen
        have hform : P0 ++ bNodes0 (.im u :: r) ++ P1 ++ bEscStash esc (.im u :: r) ++ P2 ++
            bLinkStash esc m n0 s (.im u :: r) ++ P3 ++ bImgs (.im u :: r) ++ P4 ++ brItems (bBrLen (.im u :: r)) ++ P5 ++
            outNodes 1 (bOuter esc m n0 s t b (.im u :: r)) ++ P6 ++
            outNodes 2 (bOuter esc m n0 s t b (.im u :: r)) ++ E =
            (P0 ++ bNodes0 (.im u :: r) ++ P1 ++ bEscStash esc (.im u :: r) ++ P2 ++
              bLinkStash esc m n0 s (.im u :: r) ++ P3) ++
            (.node (imgNode u) :: (bImgs r ++ P4 ++ brItems (bBrLen (.im u :: r)) ++ P5 ++
              outNodes 1 (bOuter esc m n0 s t b (.im u :: r)) ++ P6 ++
              outNodes 2 (bOuter esc m n0 s t b (.im u :: r)) ++ E)) := by
          simp [bImgs_im, List.append_assoc]
        rw [hform, ← hpre, List.getElem?_append_right (Nat.le_refl _)]
        simp
      · -- escapes of the content after the image
        have := escs_at esc u.C (P0 ++ bNodes0 (.im u :: r) ++ P1)
          (bEscStash esc r ++ P2 ++ bLinkStash esc m n0 s (.im u :: r) ++ P3 ++ bImgs (.im u :: r) ++ P4 ++
            brItems (bBrLen (.im u :: r)) ++ P5 ++
            outNodes 1 (bOuter esc m n0 s t b (.im u :: r)) ++ P6 ++ outNodes 2 (bOuter esc m n0 s t b (.im u :: r)) ++ E)
          m
          (by blen)
        rw [← hS]
        simpa [bEscStash, List.append_assoc] using this
      · -- items of the content after the image
        have := mStash_at u.C.segs P0
          (bNodes0 r ++ P1 ++ bEscStash esc (.im u :: r) ++ P2 ++ bLinkStash esc m n0 s (.im u :: r) ++ P3 ++
            bImgs (.im u :: r) ++ P4 ++ brItems (bBrLen (.im u :: r)) ++ P5)
          (outNodes 1 (bOuter esc m' n0' s (t + 1) b r) ++ P6)
          (outNodes 2 (bOuter esc m' n0' s (t + 1) b r) ++ E) n0 n1 n2 h0
          (by blen)
          (by blen)
        rw [← hS]
        simpa [bNodes0, outNodes_bOuter_im, List.append_assoc, hm', hn0'] using this
      · -- the other uses
        have := ih (P0 ++ nodesOf 0 u.C.segs) (P1 ++ u.C.escStash esc) P2 (P3 ++ [.node (imgNode u)]) P4
          (P5 ++ nodesOf 1 u.C.segs) (P6 ++ nodesOf 2 u.C.segs) E m' n0' s (t + 1) b (n1 + u.C.cnt 1) (n2 + u.C.cnt 2)
          (by blen)
          (by blen)
          (by blen)
          (by blen)
          (by blen)
          (by blen)
          (by blen)
        rw [← hS]
        simpa [bNodes0, bEscStash, bLinkStash, bImgs_im, bBrLen_im, outNodes_bOuter_im, List.append_assoc, hm',
          hn0'] using this
    | br C =>
      generalize hS : P0 ++ bNodes0 (.br C :: r) ++ P1 ++ bEscStash esc (.br C :: r) ++ P2 ++
        bLinkStash esc m n0 s (.br C :: r) ++ P3 ++ bImgs (.br C :: r) ++ P4 ++ brItems (bBrLen (.br C :: r)) ++ P5 ++
        outNodes 1 (bOuter esc m n0 s t b (.br C :: r)) ++ P6 ++ outNodes 2 (bOuter esc m n0 s t b (.br C :: r)) ++ E = S
      generalize hm' : m + C.escs esc = m' at *
      generalize hn0' : n0 + C.cnt 0 = n0' at *
      have hLr := bLinkStash_length esc r m' n0' s
      have hO1 := outNodes_bOuter_length esc 1 r m' n0' s t (b + 1)
      have hO2 := outNodes_bOuter_length esc 2 r m' n0' s t (b + 1)
      have hN0 := bNodes0_length r
      have hEr := bEscStash_length esc r
      have hIr := bImgs_length r
      have hEC := Chunk.escStash_length esc C
      simp only [bCnt0, bEscs, bLinkLen_br, bImgLen_br, bBrLen_br, bOutCnt, tCnt_br, tEscs_br, BUse.C] at hm hs ht hb h1 h2
      refine ⟨?_, ⟨?_, ?_⟩, ?_⟩
      · -- the `<br>` element
        rw [← hS]
        have hpre : (P0 ++ bNodes0 (.br C :: r) ++ P1 ++ bEscStash esc (.br C :: r) ++ P2 ++
            bLinkStash esc m n0 s (.br C :: r) ++ P3 ++ bImgs (.br C :: r) ++ P4).length = b := by
          blen
        have hform : P0 ++ bNodes0 (.br C :: r) ++ P1 ++ bEscStash esc (.br C :: r) ++ P2 ++
            bLinkStash esc m n0 s (.br C :: r) ++ P3 ++ bImgs (.br C :: r) ++ P4 ++ brItems (bBrLen (.br C :: r)) ++ P5 ++
            outNodes 1 (bOuter esc m n0 s t b (.br C :: r)) ++ P6 ++
            outNodes 2 (bOuter esc m n0 s t b (.br C :: r)) ++ E =
            (P0 ++ bNodes0 (.br C :: r) ++ P1 ++ bEscStash esc (.br C :: r) ++ P2 ++
              bLinkStash esc m n0 s (.br C :: r) ++ P3 ++ bImgs (.br C :: r) ++ P4) ++
            (.node (mkEl "br") :: (brItems (bBrLen r) ++ P5 ++
              outNodes 1 (bOuter esc m n0 s t b (.br C :: r)) ++ P6 ++
              outNodes 2 (bOuter esc m n0 s t b (.br C :: r)) ++ E)) := by
          simp [bBrLen_br, brItems_succ, List.append_assoc]
        rw [hform, ← hpre, List.getElem?_append_right (Nat.le_refl _)]
        simp
      · -- escapes of the content after the hard break
        have := escs_at esc C (P0 ++ bNodes0 (.br C :: r) ++ P1)
          (bEscStash esc r ++ P2 ++ bLinkStash esc m n0 s (.br C :: r) ++ P3 ++ bImgs (.br C :: r) ++ P4 ++
            brItems (bBrLen (.br C :: r)) ++ P5 ++
            outNodes 1 (bOuter esc m n0 s t b (.br C :: r)) ++ P6 ++ outNodes 2 (bOuter esc m n0 s t b (.br C :: r)) ++ E)
          m
          (by blen)
        rw [← hS]
        simpa [bEscStash, List.append_assoc] using this
      · -- items of the content after the hard break
        have := mStash_at C.segs P0
          (bNodes0 r ++ P1 ++ bEscStash esc (.br C :: r) ++ P2 ++ bLinkStash esc m n0 s (.br C :: r) ++ P3 ++
            bImgs (.br C :: r) ++ P4 ++ brItems (bBrLen (.br C :: r)) ++ P5)
          (outNodes 1 (bOuter esc m' n0' s t (b + 1) r) ++ P6)
          (outNodes 2 (bOuter esc m' n0' s t (b + 1) r) ++ E) n0 n1 n2 h0
          (by blen)
          (by blen)
        rw [← hS]
        simpa [bNodes0, outNodes_bOuter_br, List.append_assoc, hm', hn0'] using this
      · -- the other uses
        have := ih (P0 ++ nodesOf 0 C.segs) (P1 ++ C.escStash esc) P2 P3 (P4 ++ [.node (mkEl "br")])
          (P5 ++ nodesOf 1 C.segs) (P6 ++ nodesOf 2 C.segs) E m' n0' s t (b + 1) (n1 + C.cnt 1) (n2 + C.cnt 2)
          (by blen)
          (by blen)
          (by blen)
          (by blen)
          (by blen)
          (by blen)
          (by blen)
        rw [← hS]
        simpa [bNodes0, bEscStash, bLinkStash, bImgs_br, bBrLen_br, brItems_succ, outNodes_bOuter_br, List.append_assoc,
          hm', hn0'] using this

/-- **where the pieces of the text are** in the stash the pattern loop leaves -/
theorem bAt (esc : List Char) (S0 : List StashItem) (C0 : Chunk) (gs : List BUse) :
    ChunkAt esc (S0 ++ bStash esc S0.length C0 gs) C0 (mStartB S0.length C0 gs) S0.length
        (o1StartB esc S0.length C0 gs) (o2StartB esc S0.length C0 gs) ∧
    BAt esc (S0 ++ bStash esc S0.length C0 gs) (mStartB S0.length C0 gs + C0.escs esc) (S0.length + C0.cnt 0)
        (lStartB esc S0.length C0 gs) (iStartB esc S0.length C0 gs) (rStartB esc S0.length C0 gs)
        (o1StartB esc S0.length C0 gs + C0.cnt 1) (o2StartB esc S0.length C0 gs + C0.cnt 2) gs := by
  refine ⟨⟨?_, ?_⟩, ?_⟩
  · have := escs_at esc C0 (S0 ++ nodesOf 0 C0.segs ++ bNodes0 gs)
      (bEscStash esc gs ++ lineLinksB esc S0.length C0 gs ++ bImgs gs ++ brItems (bBrLen gs) ++
        (nodesOf 1 C0.segs ++ outNodes 1 (lineOuterB esc S0.length C0 gs)) ++
        (nodesOf 2 C0.segs ++ outNodes 2 (lineOuterB esc S0.length C0 gs))) (mStartB S0.length C0 gs)
      (by simp only [List.length_append, bNodes0_length, cnt_len, mStartB])
    simpa [bStash, List.append_assoc] using this
  · have := mStash_at C0.segs S0 (bNodes0 gs ++ C0.escStash esc ++ bEscStash esc gs ++ lineLinksB esc S0.length C0 gs ++
        bImgs gs ++ brItems (bBrLen gs))
      (outNodes 1 (lineOuterB esc S0.length C0 gs)) (outNodes 2 (lineOuterB esc S0.length C0 gs)) S0.length
      (o1StartB esc S0.length C0 gs) (o2StartB esc S0.length C0 gs) rfl
      (by simp only [List.length_append, bNodes0_length, bEscStash_length, bImgs_length, brItems_length,
            Chunk.escStash_length, cnt_len, lineLinksB, bLinkStash_length, o1StartB, rStartB, iStartB, lStartB, mStartB]
          try omega)
      (by simp only [List.length_append, bNodes0_length, bEscStash_length, bImgs_length, brItems_length,
            Chunk.escStash_length, cnt_len, lineLinksB, lineOuterB, bLinkStash_length, outNodes_bOuter_length, o2StartB,
            o1StartB, rStartB, iStartB, lStartB, mStartB]
          try omega)
    simpa [bStash, List.append_assoc] using this
  · have := bAt_layout esc gs (S0 ++ nodesOf 0 C0.segs) (C0.escStash esc) [] [] [] (nodesOf 1 C0.segs)
      (nodesOf 2 C0.segs) []
      (mStartB S0.length C0 gs + C0.escs esc) (S0.length + C0.cnt 0) (lStartB esc S0.length C0 gs)
      (iStartB esc S0.length C0 gs) (rStartB esc S0.length C0 gs)
      (o1StartB esc S0.length C0 gs + C0.cnt 1) (o2StartB esc S0.length C0 gs + C0.cnt 2)
      (by simp only [List.length_append, cnt_len])
      (by simp only [List.length_append, Chunk.escStash_length, cnt_len, mStartB]; try omega)
      (by simp only [List.length_nil, lStartB]; try omega)
      (by simp only [List.length_nil, iStartB]; try omega)
      (by simp only [List.length_nil, rStartB]; try omega)
      (by simp only [cnt_len, o1StartB]; try omega)
      (by simp only [cnt_len, o2StartB]; try omega)
    simpa [bStash, lineLinksB, lineOuterB, List.append_assoc] using this

/-! ### 2. `__processPlaceholders` on the residue of the text -/

/-- the state of the loop after the uses -/
def foldB (esc : List Char) : List BUse → List Node × Node → List Node × Node
  | [], rp => rp
  | .lk u :: r, rp =>
    foldB esc r (foldM esc u.C.segs (lt (coded esc u.C.t0) (aNode esc u.url (titleOf u.dtitle) u.T :: rp.1, rp.2)))
  | .im u :: r, rp => foldB esc r (foldM esc u.C.segs (lt (coded esc u.C.t0) (imgNode u :: rp.1, rp.2)))
  | .br C :: r, rp => foldB esc r (foldM esc C.segs (lt (coded esc C.t0) (mkEl "br" :: rp.1, rp.2)))

def costB (esc : List Char) : List BUse → Nat
  | [] => 1
  | .lk u :: r => 1 + costC esc u.C.t0 u.C.segs + costB esc r
  | .im u :: r => 1 + costC esc u.C.t0 u.C.segs + costB esc r
  | .br C :: r => 1 + costC esc C.t0 C.segs + costB esc r

/-- what `__processPlaceholders` needs of the texts: no STX, clean items, a visible link text -/
def BPP : BUse → Prop
  | .lk u => UsePP (IUse.toR u)
  | .im u => ImPP u
  | .br C => Inline.STX ∉ C.t0 ∧ ∀ x ∈ C.segs, Inline.STX ∉ x.t ∧ x.k.clean

theorem nextOK_bs (esc : List Char) (S : List StashItem) (f : Nat) (gs : List BUse) :
    ∀ (m n0 s t b n1 n2 g : Nat), BAt esc S m n0 s t b n1 n2 gs → (∀ x ∈ gs, BPP x) →
      NextOK S (procNode fun d a p i => processPlaceholders S (f + 2) d a p i)
        (outStage esc 3 n1 n2 (bOuter esc m n0 s t b gs)) (g + costB esc gs)
        (fun _ st => some ((foldB esc gs st).1.reverse, (foldB esc gs st).2)) := by
  induction gs with
  | nil =>
    intro m n0 s t b n1 n2 g _ _
    simpa [outStage, bOuter, costB, foldB] using nextOK_end S _ g
  | cons x r ih =>
    intro m n0 s t b n1 n2 g hat hpp
    cases x with
    | lk u =>
      obtain ⟨hT, hL, hC, hR⟩ := hat
      have hu : UsePP (IUse.toR u) := hpp (.lk u) List.mem_cons_self
      have hKr := ih (m + u.T.escs esc + u.C.escs esc) (n0 + u.T.cnt 0 + u.C.cnt 0) (s + u.T.cnt 1 + u.T.cnt 2 + 1) t b
        (n1 + u.C.cnt 1) (n2 + u.C.cnt 2) g hR (fun x hx => hpp x (List.mem_cons_of_mem _ hx))
      have hlink := procNode_link esc S f u.url (titleOf u.dtitle) u.T m n0 s (s + u.T.cnt 1) hu.vis hu.t0 hu.segs hT
      intro P' B' rp' hB
      have hnode := nextOK_node' S (procNode fun d a p i => processPlaceholders S (f + 2) d a p i)
        (g + costB esc r + costC esc u.C.t0 u.C.segs) (s + u.T.cnt 1 + u.T.cnt 2)
        (u.C.stage esc 3 true (m + u.T.escs esc) (n0 + u.T.cnt 0) n1 n2 ++
          outStage esc 3 (n1 + u.C.cnt 1) (n2 + u.C.cnt 2)
            (bOuter esc (m + u.T.escs esc + u.C.escs esc) (n0 + u.T.cnt 0 + u.C.cnt 0) (s + u.T.cnt 1 + u.T.cnt 2 + 1) t b
              r))
        _ _ hL hlink P' B' rp' hB
      obtain ⟨⟨rest, hdrop⟩, hst⟩ := hC
      have hchunk := ppLoop_chunk_ctx esc S (procNode fun d a p i => processPlaceholders S (f + 2) d a p i)
        (outStage esc 3 (n1 + u.C.cnt 1) (n2 + u.C.cnt 2)
          (bOuter esc (m + u.T.escs esc + u.C.escs esc) (n0 + u.T.cnt 0 + u.C.cnt 0) (s + u.T.cnt 1 + u.T.cnt 2 + 1) t b r))
        (g + costB esc r) _ hKr u.C.segs (P' ++ B' ++ placeholder (s + u.T.cnt 1 + u.T.cnt 2)) u.C.t0
        (m + u.T.escs esc) (n0 + u.T.cnt 0) n1 n2
        (aNode esc u.url (titleOf u.dtitle) u.T :: (lt B' rp').1, (lt B' rp').2) rest hu.c0
        (fun x hx => ⟨(hu.csegs x hx).1, procNode_knode S (f + 2) (by omega) x.k (hu.csegs x hx).2⟩) hdrop hst
      simp only [bOuter, outStage, costB, foldB]
      rw [show g + (1 + costC esc u.C.t0 u.C.segs + costB esc r) = (g + costB esc r + costC esc u.C.t0 u.C.segs) + 1
        by omega]
      simp only [Chunk.stage, if_true, List.append_assoc] at hnode hchunk ⊢
      rw [hnode, hchunk]
    | im u =>
      obtain ⟨hL, hC, hR⟩ := hat
      have hu : ImPP u := hpp (.im u) List.mem_cons_self
      have hKr := ih (m + u.C.escs esc) (n0 + u.C.cnt 0) s (t + 1) b
        (n1 + u.C.cnt 1) (n2 + u.C.cnt 2) g hR (fun x hx => hpp x (List.mem_cons_of_mem _ hx))
      have himg := procNode_img (fun d a p i => processPlaceholders S (f + 2) d a p i) u
      intro P' B' rp' hB
      have hnode := nextOK_node' S (procNode fun d a p i => processPlaceholders S (f + 2) d a p i)
        (g + costB esc r + costC esc u.C.t0 u.C.segs) t
        (u.C.stage esc 3 true m n0 n1 n2 ++
          outStage esc 3 (n1 + u.C.cnt 1) (n2 + u.C.cnt 2)
            (bOuter esc (m + u.C.escs esc) (n0 + u.C.cnt 0) s (t + 1) b r))
        _ _ hL himg P' B' rp' hB
      obtain ⟨⟨rest, hdrop⟩, hst⟩ := hC
      have hchunk := ppLoop_chunk_ctx esc S (procNode fun d a p i => processPlaceholders S (f + 2) d a p i)
        (outStage esc 3 (n1 + u.C.cnt 1) (n2 + u.C.cnt 2)
          (bOuter esc (m + u.C.escs esc) (n0 + u.C.cnt 0) s (t + 1) b r))
        (g + costB esc r) _ hKr u.C.segs (P' ++ B' ++ placeholder t) u.C.t0
        m n0 n1 n2 (imgNode u :: (lt B' rp').1, (lt B' rp').2) rest hu.c0
        (fun x hx => ⟨(hu.csegs x hx).1, procNode_knode S (f + 2) (by omega) x.k (hu.csegs x hx).2⟩) hdrop hst
      simp only [bOuter, outStage, costB, foldB]
      rw [show g + (1 + costC esc u.C.t0 u.C.segs + costB esc r) = (g + costB esc r + costC esc u.C.t0 u.C.segs) + 1
        by omega]
      simp only [Chunk.stage, if_true, List.append_assoc] at hnode hchunk ⊢
      rw [hnode, hchunk]
    | br C =>
      obtain ⟨hL, hC, hR⟩ := hat
      have hu : Inline.STX ∉ C.t0 ∧ ∀ x ∈ C.segs, Inline.STX ∉ x.t ∧ x.k.clean := hpp (.br C) List.mem_cons_self
      have hKr := ih (m + C.escs esc) (n0 + C.cnt 0) s t (b + 1)
        (n1 + C.cnt 1) (n2 + C.cnt 2) g hR (fun x hx => hpp x (List.mem_cons_of_mem _ hx))
      have hbr := procNode_br (fun d a p i => processPlaceholders S (f + 2) d a p i)
      intro P' B' rp' hB
      have hnode := nextOK_node' S (procNode fun d a p i => processPlaceholders S (f + 2) d a p i)
        (g + costB esc r + costC esc C.t0 C.segs) b
        (C.stage esc 3 true m n0 n1 n2 ++
          outStage esc 3 (n1 + C.cnt 1) (n2 + C.cnt 2)
            (bOuter esc (m + C.escs esc) (n0 + C.cnt 0) s t (b + 1) r))
        _ _ hL hbr P' B' rp' hB
      obtain ⟨⟨rest, hdrop⟩, hst⟩ := hC
      have hchunk := ppLoop_chunk_ctx esc S (procNode fun d a p i => processPlaceholders S (f + 2) d a p i)
        (outStage esc 3 (n1 + C.cnt 1) (n2 + C.cnt 2)
          (bOuter esc (m + C.escs esc) (n0 + C.cnt 0) s t (b + 1) r))
        (g + costB esc r) _ hKr C.segs (P' ++ B' ++ placeholder b) C.t0
        m n0 n1 n2 (mkEl "br" :: (lt B' rp').1, (lt B' rp').2) rest hu.1
        (fun x hx => ⟨(hu.2 x hx).1, procNode_knode S (f + 2) (by omega) x.k (hu.2 x hx).2⟩) hdrop hst
      simp only [bOuter, outStage, costB, foldB]
      rw [show g + (1 + costC esc C.t0 C.segs + costB esc r) = (g + costB esc r + costC esc C.t0 C.segs) + 1
        by omega]
      simp only [Chunk.stage, if_true, List.append_assoc] at hnode hchunk ⊢
      rw [hnode, hchunk]

theorem foldB_closed (esc : List Char) (gs : List BUse) :
    ∀ (res : List Node) (par : Node), foldB esc gs (res, par) = ((bKids esc gs).reverse ++ res, par) := by
  induction gs with
  | nil => intro res par; rfl
  | cons x r ih =>
    intro res par
    cases x with
    | lk u =>
      simp only [foldB, lt_node _ (aNode esc u.url (titleOf u.dtitle) u.T) res par rfl rfl, foldM_closed, ih, bKids,
        List.reverse_cons, List.reverse_append, List.append_assoc, List.singleton_append]
    | im u =>
      simp only [foldB, lt_node _ (imgNode u) res par (imgNode_tail u).1 (imgNode_tail u).2.1, foldM_closed, ih, bKids,
        List.reverse_cons, List.reverse_append, List.append_assoc, List.singleton_append]
    | br C =>
      simp only [foldB, lt_br, foldM_closed, ih, bKids, brT,
        List.reverse_cons, List.reverse_append, List.append_assoc, List.singleton_append]

theorem costB_le (esc : List Char) (gs : List BUse) : ∀ (m n0 s t b n1 n2 : Nat),
    costB esc gs ≤ (outStage esc 3 n1 n2 (bOuter esc m n0 s t b gs)).length + 1 := by
  induction gs with
  | nil => intro _ _ _ _ _ _ _; simp [costB]
  | cons x r ih =>
    intro m n0 s t b n1 n2
    cases x with
    | lk u =>
      have h1 := costC_le esc u.C (m + u.T.escs esc) (n0 + u.T.cnt 0) n1 n2
      have h2 := ih (m + u.T.escs esc + u.C.escs esc) (n0 + u.T.cnt 0 + u.C.cnt 0) (s + u.T.cnt 1 + u.T.cnt 2 + 1) t b
        (n1 + u.C.cnt 1) (n2 + u.C.cnt 2)
      have h3 := placeholder_length_pos (s + u.T.cnt 1 + u.T.cnt 2)
      simp only [costB, bOuter, outStage, List.length_append]
      omega
    | im u =>
      have h1 := costC_le esc u.C m n0 n1 n2
      have h2 := ih (m + u.C.escs esc) (n0 + u.C.cnt 0) s (t + 1) b (n1 + u.C.cnt 1) (n2 + u.C.cnt 2)
      have h3 := placeholder_length_pos t
      simp only [costB, bOuter, outStage, List.length_append]
      omega
    | br C =>
      have h1 := costC_le esc C m n0 n1 n2
      have h2 := ih (m + C.escs esc) (n0 + C.cnt 0) s t (b + 1) (n1 + C.cnt 1) (n2 + C.cnt 2)
      have h3 := placeholder_length_pos b
      simp only [costB, bOuter, outStage, List.length_append]
      omega

theorem outStage_bOuter_ne (esc : List Char) (gs : List BUse) (hne : gs ≠ []) (m n0 s t b n1 n2 : Nat) :
    0 < (outStage esc 3 n1 n2 (bOuter esc m n0 s t b gs)).length := by
  cases gs with
  | nil => exact absurd rfl hne
  | cons x r =>
    cases x with
    | lk u =>
      have := placeholder_length_pos (s + u.T.cnt 1 + u.T.cnt 2)
      simp only [bOuter, outStage, List.length_append]; omega
    | im u =>
      have := placeholder_length_pos t
      simp only [bOuter, outStage, List.length_append]; omega
    | br C =>
      have := placeholder_length_pos b
      simp only [bOuter, outStage, List.length_append]; omega

/-- **`__processPlaceholders` on the residue of the text**: the items of the first content, then for each use its
    `<a>` element (with the items of the link text as children), `<img>` element or `<br>` element and the items of the
    content after it -/
theorem ppTop_bLine (esc : List Char) (st : St) (f : Nat) (hf : st.stash.length = f + 1) (C0 : Chunk) (gs : List BUse)
    (hne : gs ≠ []) (parent : Node) (hp1 : parent.text = none) (hp2 : parent.textAtomic = false)
    (m n0 s t b n1 n2 : Nat) (h0 : ChunkAt esc st.stash C0 m n0 n1 n2)
    (hus : BAt esc st.stash (m + C0.escs esc) (n0 + C0.cnt 0) s t b (n1 + C0.cnt 1) (n2 + C0.cnt 2) gs)
    (hc0 : Inline.STX ∉ C0.t0) (hcs : ∀ x ∈ C0.segs, Inline.STX ∉ x.t ∧ x.k.clean) (hpp : ∀ x ∈ gs, BPP x) :
    ppTop st (C0.stage esc 3 true m n0 n1 n2 ++
        outStage esc 3 (n1 + C0.cnt 1) (n2 + C0.cnt 2) (bOuter esc (m + C0.escs esc) (n0 + C0.cnt 0) s t b gs))
      false parent true =
      some (C0.segs.map (tailedM esc) ++ bKids esc gs, { parent with text := optStr (coded esc C0.t0) }) := by
  generalize hD : C0.stage esc 3 true m n0 n1 n2 ++
    outStage esc 3 (n1 + C0.cnt 1) (n2 + C0.cnt 2) (bOuter esc (m + C0.escs esc) (n0 + C0.cnt 0) s t b gs) = D
  have hlen : D.length = (C0.stage esc 3 true m n0 n1 n2).length +
      (outStage esc 3 (n1 + C0.cnt 1) (n2 + C0.cnt 2)
        (bOuter esc (m + C0.escs esc) (n0 + C0.cnt 0) s t b gs)).length := by
    rw [← hD, List.length_append]
  have hDne : D.isEmpty = false := by
    have := outStage_bOuter_ne esc gs hne (m + C0.escs esc) (n0 + C0.cnt 0) s t b (n1 + C0.cnt 1) (n2 + C0.cnt 2)
    cases D with
    | nil => simp only [List.length_nil] at hlen; omega
    | cons a b => rfl
  have hc1 := costC_le esc C0 m n0 n1 n2
  have hc2 := costB_le esc gs (m + C0.escs esc) (n0 + C0.cnt 0) s t b (n1 + C0.cnt 1) (n2 + C0.cnt 2)
  obtain ⟨g, hg⟩ : ∃ g, D.length + 2 = (g + costB esc gs) + costC esc C0.t0 C0.segs :=
    ⟨D.length + 2 - (costB esc gs + costC esc C0.t0 C0.segs), by omega⟩
  obtain ⟨⟨rest, hdrop⟩, hst⟩ := h0
  have hK := nextOK_bs esc st.stash f gs (m + C0.escs esc) (n0 + C0.cnt 0) s t b (n1 + C0.cnt 1) (n2 + C0.cnt 2) g hus
    hpp
  have hloop := ppLoop_chunk_ctx esc st.stash (procNode fun d a p i => processPlaceholders st.stash (f + 2) d a p i)
    _ _ _ hK C0.segs [] C0.t0 m n0 n1 n2 ([], parent) rest hc0
    (fun x hx => ⟨(hcs x hx).1, procNode_knode st.stash (f + 2) (by omega) x.k (hcs x hx).2⟩) hdrop hst
  have hlt : lt (coded esc C0.t0) ([], parent) = ([], { parent with text := optStr (coded esc C0.t0) }) := by
    simp only [lt]; exact CodeLaw.linkText_text _ _ hp1 hp2
  simp only [List.nil_append, List.length_nil, hlt, foldM_closed, foldB_closed] at hloop
  have hD' : resid esc m C0.t0 ++ stageM esc 3 true (m + escCount esc C0.t0) n0 n1 n2 C0.segs ++
      outStage esc 3 (n1 + C0.cnt 1) (n2 + C0.cnt 2) (bOuter esc (m + C0.escs esc) (n0 + C0.cnt 0) s t b gs) = D := by
    rw [← hD]; simp [Chunk.stage]
  rw [hD'] at hloop
  unfold ppTop
  rw [hf, show f + 1 + 2 = (f + 2) + 1 from rfl]
  unfold processPlaceholders
  simp only [hDne, Bool.false_eq_true, if_false, hg, hloop]
  simp

/-! ### 3. the element through `__handleInline` and `__processPlaceholders` -/

theorem bRaw_ne_nil (esc : List Char) (C0 : Chunk) (gs : List BUse) (hne : gs ≠ []) : bRaw esc C0 gs ≠ [] := by
  cases gs with
  | nil => exact absurd rfl hne
  | cons x r =>
    cases x with
    | lk u => simp [bRaw, bStage, BUse.head]
    | im u => simp [bRaw, bStage, BUse.head, openerM]
    | br C => simp [bRaw, bStage, BUse.head, brS]

theorem bStash_length_pos (esc : List Char) (s0 : Nat) (C0 : Chunk) (gs : List BUse) (hne : gs ≠ []) :
    0 < (bStash esc s0 C0 gs).length := by
  have h : 0 < bLinkLen gs + bImgLen gs + bBrLen gs := by
    cases gs with
    | nil => exact absurd rfl hne
    | cons x r =>
      cases x with
      | lk u => simp only [bLinkLen_lk, bImgLen_lk, bBrLen_lk]; omega
      | im u => simp only [bLinkLen_im, bImgLen_im, bBrLen_im]; omega
      | br C => simp only [bLinkLen_br, bImgLen_br, bBrLen_br]; omega
  simp only [bStash, lineLinksB, List.length_append, bLinkStash_length, bImgs_length, brItems_length]
  omega

theorem bPP_of {esc : List Char} {g : BUse} (h : BUseOK esc g) (hvis : ∀ u, g = .lk u → u.T.Vis) : BPP g := by
  cases g with
  | lk u =>
    have hu := h.lk u rfl
    exact ⟨hvis u rfl, (chunkOK_pp hu.text).1, (chunkOK_pp hu.text).2, (chunkOK_pp hu.after).1, (chunkOK_pp hu.after).2⟩
  | im u => exact imPP_of (h.im u rfl)
  | br C => exact chunkOK_pp (h.br C rfl).1

/-- **the element through `__handleInline` and `__processPlaceholders`** (the pattern loop is the hypothesis
    `hloop`) -/
theorem visitChild_bLine (cfg : Inline.Cfg) (tg : Str) (C0 : Chunk) (gs : List BUse) (h0 : ChunkOK cfg.esc C0)
    (hgs : ∀ g ∈ gs, BUseOK cfg.esc g) (hvis : ∀ u, BUse.lk u ∈ gs → u.T.Vis) (hne : gs ≠ [])
    (hloop : LoopOKB cfg C0 gs) (v : Visit) :
    visitChild cfg { tag := .name tg, text := some (bRaw cfg.esc C0 gs) } v =
      some (bMid tg cfg.esc C0 gs, [],
        { v with pushes := ((List.range (C0.segs.map (tailedM cfg.esc) ++ bKids cfg.esc gs).length).map
                    (fun k => [v.done.length, k])).reverse ++ v.pushes,
                 st := { v.st with stash := v.st.stash ++ bStash cfg.esc v.st.stash.length C0 gs } }) := by
  have h1 := hloop v.st
  obtain ⟨hat0, hatU⟩ := bAt cfg.esc v.st.stash C0 gs
  obtain ⟨f, hf⟩ : ∃ f, (v.st.stash ++ bStash cfg.esc v.st.stash.length C0 gs).length = f + 1 := by
    have := bStash_length_pos cfg.esc v.st.stash.length C0 gs hne
    exact ⟨(v.st.stash ++ bStash cfg.esc v.st.stash.length C0 gs).length - 1, by
      rw [List.length_append]; omega⟩
  have hpp : ∀ x ∈ gs, BPP x := fun x hx => bPP_of (hgs x hx) (fun u e => hvis u (e ▸ hx))
  have h2 := ppTop_bLine cfg.esc { v.st with stash := v.st.stash ++ bStash cfg.esc v.st.stash.length C0 gs }
    f hf C0 gs hne { tag := .name tg, text := none, textAtomic := false }
    rfl rfl (mStartB v.st.stash.length C0 gs) v.st.stash.length
    (lStartB cfg.esc v.st.stash.length C0 gs) (iStartB cfg.esc v.st.stash.length C0 gs)
    (rStartB cfg.esc v.st.stash.length C0 gs)
    (o1StartB cfg.esc v.st.stash.length C0 gs) (o2StartB cfg.esc v.st.stash.length C0 gs)
    hat0 hatU (chunkOK_pp h0).1 (chunkOK_pp h0).2 hpp
  have hres : bRes cfg.esc v.st.stash.length C0 gs =
      C0.stage cfg.esc 3 true (mStartB v.st.stash.length C0 gs) v.st.stash.length
        (o1StartB cfg.esc v.st.stash.length C0 gs) (o2StartB cfg.esc v.st.stash.length C0 gs) ++
      outStage cfg.esc 3 (o1StartB cfg.esc v.st.stash.length C0 gs + C0.cnt 1)
        (o2StartB cfg.esc v.st.stash.length C0 gs + C0.cnt 2)
        (bOuter cfg.esc (mStartB v.st.stash.length C0 gs + C0.escs cfg.esc) (v.st.stash.length + C0.cnt 0)
          (lStartB cfg.esc v.st.stash.length C0 gs) (iStartB cfg.esc v.st.stash.length C0 gs)
          (rStartB cfg.esc v.st.stash.length C0 gs) gs) := rfl
  rw [← hres] at h2
  have htr := truthy_some (bRaw_ne_nil cfg.esc C0 gs hne)
  simp only [visitChild, htr, Bool.not_false, Bool.and_self, if_true, Option.getD_some, h1]
    at h2 ⊢
  rw [h2]
  simp [bMid, Node.truthy]

/-! ### 4. prettify -/

theorem bKids_lk (esc : List Char) (u : IUse) (r : List BUse) :
    bKids esc (.lk u :: r) = aKid esc (IUse.toR u) :: (u.C.segs.map (tailedM esc) ++ bKids esc r) := rfl

theorem bKids_im (esc : List Char) (u : DocImg.MUse) (r : List BUse) :
    bKids esc (.im u :: r) = iKid esc u :: (u.C.segs.map (tailedM esc) ++ bKids esc r) := rfl

theorem bKids_br (esc : List Char) (C : Chunk) (r : List BUse) :
    bKids esc (.br C :: r) = brT esc C.t0 :: (C.segs.map (tailedM esc) ++ bKids esc r) := rfl

theorem bl_brT (esc : List Char) (t : Str) :
    TreeProc.isBlockLevel TreeProc.defaultBlockLevel (brT esc t).tag = false := bl_br

theorem prettifyKids_bKids (esc : List Char) (gs : List BUse) :
    TreeProc.prettifyKids TreeProc.defaultBlockLevel (bKids esc gs) = bKids esc gs := by
  induction gs with
  | nil => rfl
  | cons x r ih =>
    cases x with
    | lk u =>
      rw [bKids_lk]
      simp only [TreeProc.prettifyKids, bl_aKid, Bool.false_eq_true, if_false, prettifyKids_append, prettifyKids_tailedM, ih]
    | im u =>
      rw [bKids_im]
      simp only [TreeProc.prettifyKids, bl_iKid, Bool.false_eq_true, if_false, prettifyKids_append, prettifyKids_tailedM, ih]
    | br C =>
      rw [bKids_br]
      simp only [TreeProc.prettifyKids, bl_brT, Bool.false_eq_true, if_false, prettifyKids_append, prettifyKids_tailedM, ih]

/-- the children the uses give, after prettify: a line feed after each `<br>` -/
def bKidsP (esc : List Char) : List BUse → List Node
  | [] => []
  | .lk u :: r => aKid esc (IUse.toR u) :: (u.C.segs.map (tailedM esc) ++ bKidsP esc r)
  | .im u :: r => iKid esc u :: (u.C.segs.map (tailedM esc) ++ bKidsP esc r)
  | .br C :: r => brP esc C.t0 :: (C.segs.map (tailedM esc) ++ bKidsP esc r)

theorem bKidsP_lk (esc : List Char) (u : IUse) (r : List BUse) :
    bKidsP esc (.lk u :: r) = aKid esc (IUse.toR u) :: (u.C.segs.map (tailedM esc) ++ bKidsP esc r) := rfl

theorem bKidsP_im (esc : List Char) (u : DocImg.MUse) (r : List BUse) :
    bKidsP esc (.im u :: r) = iKid esc u :: (u.C.segs.map (tailedM esc) ++ bKidsP esc r) := rfl

theorem bKidsP_br (esc : List Char) (C : Chunk) (r : List BUse) :
    bKidsP esc (.br C :: r) = brP esc C.t0 :: (C.segs.map (tailedM esc) ++ bKidsP esc r) := rfl

theorem mapKids_bKids (esc : List Char) (gs : List BUse) (hgs : ∀ g ∈ gs, BUseOK esc g) :
    TreeProc.mapKids TreeProc.preRule (TreeProc.mapKids TreeProc.brRule (bKids esc gs)) = bKidsP esc gs := by
  induction gs with
  | nil => rfl
  | cons x r ih =>
    have ihr := ih (fun x hx => hgs x (List.mem_cons_of_mem _ hx))
    cases x with
    | lk u =>
      rw [bKids_lk, bKidsP_lk]
      simp only [TreeProc.mapKids, mapKids_append, mapTree_aKid, mapKids_tailedM, ihr]
    | im u =>
      rw [bKids_im, bKidsP_im]
      simp only [TreeProc.mapKids, mapKids_append, mapTree_iKid, mapKids_tailedM, ihr]
    | br C =>
      have hC := ((hgs (.br C) List.mem_cons_self).br C rfl).2
      rw [bKids_br, bKidsP_br]
      simp only [TreeProc.mapKids, mapKids_append, mapTree_brT esc C.t0 hC, mapKids_tailedM, ihr]

/-- the element after prettify -/
def bPretty (tg : Str) (esc : List Char) (C0 : Chunk) (gs : List BUse) : Node :=
  { tag := .name tg, text := optStr (coded esc C0.t0),
    children := C0.segs.map (tailedM esc) ++ bKidsP esc gs, tail := some ['\n'] }

theorem pretty_bMid (tg : Str) (htg : TgOK tg) (esc : List Char) (C0 : Chunk) (gs : List BUse)
    (hgs : ∀ g ∈ gs, BUseOK esc g) :
    TreeProc.mapTree TreeProc.preRule (TreeProc.mapTree TreeProc.brRule
      (TreeProc.prettifyETree TreeProc.defaultBlockLevel (bMid tg esc C0 gs))) = bPretty tg esc C0 gs := by
  have hp := htg.block
  have hbr := htg.br
  have hpre := htg.pre
  have hcode := htg.code
  have hkids : TreeProc.prettifyKids TreeProc.defaultBlockLevel (C0.segs.map (tailedM esc) ++ bKids esc gs) =
      C0.segs.map (tailedM esc) ++ bKids esc gs := by
    rw [prettifyKids_append, prettifyKids_tailedM, prettifyKids_bKids]
  have hfirst : ∀ c r, C0.segs.map (tailedM esc) ++ bKids esc gs = c :: r →
      TreeProc.isBlockLevel TreeProc.defaultBlockLevel c.tag = false := by
    intro c r h
    cases hs : C0.segs with
    | nil =>
      cases gs with
      | nil => simp [hs, bKids] at h
      | cons x r' =>
        cases x with
        | lk u =>
          simp only [hs, List.map_nil, List.nil_append, bKids_lk, List.cons.injEq] at h
          rw [← h.1]; exact bl_a
        | im u =>
          simp only [hs, List.map_nil, List.nil_append, bKids_im, List.cons.injEq] at h
          rw [← h.1]; exact bl_iKid esc u
        | br C =>
          simp only [hs, List.map_nil, List.nil_append, bKids_br, List.cons.injEq] at h
          rw [← h.1]; exact bl_brT esc C.t0
    | cons s r' =>
      simp only [hs, List.map_cons, List.cons_append, List.cons.injEq] at h
      rw [← h.1]; exact bl_tailedM esc s
  have h1 : TreeProc.prettifyETree TreeProc.defaultBlockLevel (bMid tg esc C0 gs) =
      { tag := .name tg, text := optStr (coded esc C0.t0),
        children := C0.segs.map (tailedM esc) ++ bKids esc gs, tail := some ['\n'] } := by
    simp only [bMid]
    generalize hK : C0.segs.map (tailedM esc) ++ bKids esc gs = K at hkids hfirst
    cases K with
    | nil => simp [TreeProc.prettifyETree, TreeProc.prettifyKids, TreeProc.blankOrNone, Node.truthy]
    | cons c r =>
      have hb := hfirst c r rfl
      simp only [TreeProc.prettifyETree, hp, hcode, hpre, Bool.not_false, Bool.and_self, if_true, hkids, hb,
        Bool.and_false, Bool.false_eq_true, if_false, TreeProc.blankOrNone, Node.truthy, Bool.true_or]
  rw [h1]
  simp only [bPretty, TreeProc.mapTree, TreeProc.brRule, TreeProc.preRule, TreeProc.tagIs, hbr, hpre,
    Bool.false_eq_true, if_false, mapKids_append, mapKids_tailedM, mapKids_bKids esc gs hgs]

/-! ### 5. unescape -/

def bKidsFin : List BUse → List Node
  | [] => []
  | .lk u :: r => aFin (IUse.toR u) :: (u.C.segs.map tailedFinM ++ bKidsFin r)
  | .im u :: r => iKidFin u :: (u.C.segs.map tailedFinM ++ bKidsFin r)
  | .br C :: r => brF C.t0 :: (C.segs.map tailedFinM ++ bKidsFin r)

theorem bKidsFin_nil : bKidsFin [] = [] := rfl
theorem bKidsFin_lk (u : IUse) (r : List BUse) :
    bKidsFin (.lk u :: r) = aFin (IUse.toR u) :: (u.C.segs.map tailedFinM ++ bKidsFin r) := rfl
theorem bKidsFin_im (u : DocImg.MUse) (r : List BUse) :
    bKidsFin (.im u :: r) = iKidFin u :: (u.C.segs.map tailedFinM ++ bKidsFin r) := rfl
theorem bKidsFin_br (C : Chunk) (r : List BUse) :
    bKidsFin (.br C :: r) = brF C.t0 :: (C.segs.map tailedFinM ++ bKidsFin r) := rfl

theorem unescapeKids_bKidsP {esc : List Char} (gs : List BUse) (hgs : ∀ g ∈ gs, BUseOK esc g) :
    TreeProc.unescapeKids (bKidsP esc gs) = some (bKidsFin gs) := by
  induction gs with
  | nil => rfl
  | cons x r ih =>
    have hr := ih (fun x hx => hgs x (List.mem_cons_of_mem _ hx))
    cases x with
    | lk u =>
      have hu := (hgs (.lk u) List.mem_cons_self).lk u rfl
      have hkC := unescapeKids_tailedM esc u.C.segs
        (fun s hs => ⟨((chunkOK_pp hu.after).2 s hs).1, fine_of_ok s.k (hu.after.ok s hs) (hu.after.clean s hs)⟩)
      rw [bKidsP_lk]
      simp only [TreeProc.unescapeKids, unescapeTree_aKidI u hu, unescapeKids_append _ _ _ _ hkC hr, bKidsFin_lk]
    | im u =>
      have hu := (hgs (.im u) List.mem_cons_self).im u rfl
      have hkC := unescapeKids_tailedM esc u.C.segs
        (fun s hs => ⟨((chunkOK_pp hu.after).2 s hs).1, fine_of_ok s.k (hu.after.ok s hs) (hu.after.clean s hs)⟩)
      rw [bKidsP_im]
      simp only [TreeProc.unescapeKids, unescapeTree_iKid u hu, unescapeKids_append _ _ _ _ hkC hr, bKidsFin_im]
    | br C =>
      have hu := ((hgs (.br C) List.mem_cons_self).br C rfl).1
      have hkC := unescapeKids_tailedM esc C.segs
        (fun s hs => ⟨((chunkOK_pp hu).2 s hs).1, fine_of_ok s.k (hu.ok s hs) (hu.clean s hs)⟩)
      rw [bKidsP_br]
      simp only [TreeProc.unescapeKids, unescapeTree_brP esc C.t0 (chunkOK_pp hu).1,
        unescapeKids_append _ _ _ _ hkC hr, bKidsFin_br]

/-- the element after unescape -/
def bFin (tg : Str) (C0 : Chunk) (gs : List BUse) : Node :=
  { tag := .name tg, text := optStr C0.t0, children := C0.segs.map tailedFinM ++ bKidsFin gs,
    tail := some ['\n'] }

theorem unesc_bPretty (tg : Str) (htg : TgOK tg) {esc : List Char} (C0 : Chunk) (gs : List BUse) (h0 : ChunkOK esc C0)
    (hgs : ∀ g ∈ gs, BUseOK esc g) :
    TreeProc.unescapeTree (bPretty tg esc C0 gs) = some (bFin tg C0 gs) := by
  have hcode := htg.code
  have hnl : TreeProc.unescapeText 0 ['\n'] = some ['\n'] := by decide
  have h := unescOpt_coded esc C0.t0 (chunkOK_pp h0).1
  have hk0 := unescapeKids_tailedM esc C0.segs
    (fun s hs => ⟨((chunkOK_pp h0).2 s hs).1, fine_of_ok s.k (h0.ok s hs) (h0.clean s hs)⟩)
  have hk := unescapeKids_append _ _ _ _ hk0 (unescapeKids_bKidsP gs hgs)
  have t1 : Node.truthy (some ['\n']) = true := rfl
  simp only [bPretty, bFin, TreeProc.unescapeTree, hcode, Bool.not_false, Bool.and_true, h, hk, TreeProc.unescAttrs, t1,
    if_true, Option.getD_some, hnl, Option.map_some]
  by_cases ht : Node.truthy (optStr (coded esc C0.t0)) = true <;> simp [ht]

/-! ### 6. the serializer -/

theorem serializeList_bKidsFin {esc : List Char} : ∀ (gs : List BUse), (∀ g ∈ gs, BUseOK esc g) →
    Ser.serializeList .xhtml (bKidsFin gs) = bOutS gs
  | [], _ => by rw [bKidsFin_nil, InlineRef.serializeList_nil, bOutS_nil]
  | .lk u :: r, hgs => by
    have hu := (hgs (.lk u) List.mem_cons_self).lk u rfl
    have hkC := serializeList_tailedM u.C.segs
      (fun s hs => fine_of_ok s.k (hu.after.ok s hs) (hu.after.clean s hs))
    have hr := serializeList_bKidsFin r (fun x hx => hgs x (List.mem_cons_of_mem _ hx))
    rw [bKidsFin_lk, serializeList_cons, serializeList_append, serialize_aFinI u hu, hkC, hr, bOutS_cons]
    simp only [bOutU, Chunk.out, List.append_assoc]
  | .im u :: r, hgs => by
    have hu := (hgs (.im u) List.mem_cons_self).im u rfl
    have hkC := serializeList_tailedM u.C.segs
      (fun s hs => fine_of_ok s.k (hu.after.ok s hs) (hu.after.clean s hs))
    have hr := serializeList_bKidsFin r (fun x hx => hgs x (List.mem_cons_of_mem _ hx))
    rw [bKidsFin_im, serializeList_cons, serializeList_append, serialize_iKidFin u, hkC, hr, bOutS_cons]
    simp only [bOutU, Chunk.out, List.append_assoc]
  | .br C :: r, hgs => by
    have hu := ((hgs (.br C) List.mem_cons_self).br C rfl).1
    have hkC := serializeList_tailedM C.segs
      (fun s hs => fine_of_ok s.k (hu.ok s hs) (hu.clean s hs))
    have hr := serializeList_bKidsFin r (fun x hx => hgs x (List.mem_cons_of_mem _ hx))
    rw [bKidsFin_br, serializeList_cons, serializeList_append, serialize_brF, hkC, hr, bOutS_cons]
    simp only [bOutU, Chunk.out, List.append_assoc]

theorem ser_bFin (tg : Str) (htg : TgOK tg) {esc : List Char} (C0 : Chunk) (gs : List BUse) (h0 : ChunkOK esc C0)
    (hgs : ∀ g ∈ gs, BUseOK esc g) :
    Ser.serialize .xhtml (bFin tg C0 gs) = bOut tg C0 gs ++ ['\n'] := by
  have h2 := htg.empty
  have h4 := htg.raw
  have e7 : Ser.escCdata ['\n'] = ['\n'] := by decide
  have t1 : Node.truthy (some ['\n']) = true := rfl
  have hk0 := serializeList_tailedM C0.segs (fun s hs => fine_of_ok s.k (h0.ok s hs) (h0.clean s hs))
  simp only [bFin]
  rw [serialize_plain _ _ _ _ _ _ _ h2 h4, serializeList_append, hk0, serializeList_bKidsFin gs hgs, optEsc_optStr]
  simp [t1, e7, bOut, Chunk.out, List.append_assoc]

/-! ### 7. the element as an `Elem` -/

theorem stx_not_mem_bOutS {esc : List Char} : ∀ (gs : List BUse), (∀ g ∈ gs, BUseOK esc g) → Post.STX ∉ bOutS gs
  | [], _ => by rw [bOutS_nil]; simp
  | .lk u :: r, hgs => by
    have hu := (hgs (.lk u) List.mem_cons_self).lk u rfl
    have ha := useAttrOK_of hu
    have hr := stx_not_mem_bOutS r (fun x hx => hgs x (List.mem_cons_of_mem _ hx))
    have h1 := stx_not_mem_aOpen u.url (titleOf u.dtitle) ha.1 ha.2
    have h2 := stx_not_mem_chunkOut u.T hu.text
    have h3 := stx_not_mem_chunkOut u.C hu.after
    have h4 : Post.STX ∉ aClose := by decide
    rw [bOutS_cons]
    intro hm
    simp only [bOutU, List.mem_append] at hm
    rcases hm with (hm | hm | hm | hm) | hm
    · exact h1 hm
    · exact h2 hm
    · exact h4 hm
    · exact h3 hm
    · exact hr hm
  | .im u :: r, hgs => by
    have hu := (hgs (.im u) List.mem_cons_self).im u rfl
    have ha := imAttrOK_of hu
    have hr := stx_not_mem_bOutS r (fun x hx => hgs x (List.mem_cons_of_mem _ hx))
    have h1 : Post.STX ∉ imgHtml u := InlineRef.stx_not_mem_imgHtmlF _ _ _ _ ha.1 ha.2.1 ha.2.2
    have h3 := stx_not_mem_chunkOut u.C hu.after
    rw [bOutS_cons]
    intro hm
    simp only [bOutU, List.mem_append] at hm
    rcases hm with (hm | hm) | hm
    · exact h1 hm
    · exact h3 hm
    · exact hr hm
  | .br C :: r, hgs => by
    have hu := ((hgs (.br C) List.mem_cons_self).br C rfl).1
    have hr := stx_not_mem_bOutS r (fun x hx => hgs x (List.mem_cons_of_mem _ hx))
    have h1 : Post.STX ∉ brOutS := by decide
    have h3 := stx_not_mem_chunkOut C hu
    rw [bOutS_cons]
    intro hm
    simp only [bOutU, List.mem_append] at hm
    rcases hm with (hm | hm) | hm
    · exact h1 hm
    · exact h3 hm
    · exact hr hm

theorem brT_children (esc : List Char) (t : Str) : (brT esc t).children = [] := rfl

/-- the children of the kids the uses give (the items of a link text) are soft and childless -/
theorem bKids_soft {esc : List Char} (hE : EscOK esc) (gs : List BUse) (hgs : ∀ g ∈ gs, BUseOK esc g) :
    ∀ kid ∈ bKids esc gs, (∀ c ∈ kid.children, SoftNode c ∧ c.children = []) ∧
      kid.children.length ≤ bCnt0 gs + bLinkLen gs := by
  induction gs with
  | nil => intro kid hk; simp [bKids] at hk
  | cons x r ih =>
    intro kid hk
    have ihr := ih (fun x hx => hgs x (List.mem_cons_of_mem _ hx))
    cases x with
    | lk u =>
      have hu := (hgs (.lk u) List.mem_cons_self).lk u rfl
      rw [bKids_lk] at hk
      simp only [List.mem_cons, List.mem_append, List.mem_map] at hk
      rcases hk with rfl | ⟨s, _, rfl⟩ | hk
      · refine ⟨?_, ?_⟩
        · intro c hc
          have hc' : c ∈ u.T.segs.map (tailedM esc) := hc
          obtain ⟨s, hs, rfl⟩ := List.mem_map.1 hc'
          exact soft_tailedM hE s (hu.text.ok s hs) (hu.text.clean s hs)
            (fun x hx => hu.text.plain x (Or.inr ⟨s, hs, hx⟩))
        · have h1 := nodes_length u.T.segs hu.text.ok
          show (u.T.segs.map (tailedM esc)).length ≤ _
          simp only [List.length_map, bCnt0, bLinkLen_lk, tCnt_lk, BUse.C, Chunk.cnt]
          omega
      · rw [tailedM_childless]
        exact ⟨fun c hc => (by cases hc), by simp⟩
      · refine ⟨(ihr kid hk).1, ?_⟩
        have := (ihr kid hk).2
        simp only [bCnt0, bLinkLen_lk]; omega
    | im u =>
      rw [bKids_im] at hk
      simp only [List.mem_cons, List.mem_append, List.mem_map] at hk
      rcases hk with rfl | ⟨s, _, rfl⟩ | hk
      · rw [iKid_eq]
        exact ⟨fun c hc => (by cases hc), by simp⟩
      · rw [tailedM_childless]
        exact ⟨fun c hc => (by cases hc), by simp⟩
      · refine ⟨(ihr kid hk).1, ?_⟩
        have := (ihr kid hk).2
        simp only [bCnt0, bLinkLen_im]; omega
    | br C =>
      rw [bKids_br] at hk
      simp only [List.mem_cons, List.mem_append, List.mem_map] at hk
      rcases hk with rfl | ⟨s, _, rfl⟩ | hk
      · rw [brT_children]
        exact ⟨fun c hc => (by cases hc), by simp⟩
      · rw [tailedM_childless]
        exact ⟨fun c hc => (by cases hc), by simp⟩
      · refine ⟨(ihr kid hk).1, ?_⟩
        have := (ihr kid hk).2
        simp only [bCnt0, bLinkLen_br]; omega

/-- every child of the element: its own children are soft and childless -/
theorem bAllKids_soft {esc : List Char} (hE : EscOK esc) (C0 : Chunk) (gs : List BUse)
    (hgs : ∀ g ∈ gs, BUseOK esc g) :
    ∀ kid ∈ C0.segs.map (tailedM esc) ++ bKids esc gs,
      (∀ c ∈ kid.children, SoftNode c ∧ c.children = []) ∧ kid.children.length ≤ bCnt0 gs + bLinkLen gs := by
  intro kid hk
  rcases List.mem_append.1 hk with hk | hk
  · obtain ⟨s, _, rfl⟩ := List.mem_map.1 hk
    rw [tailedM_childless]
    exact ⟨fun c hc => (by cases hc), by simp⟩
  · exact bKids_soft hE gs hgs kid hk

/-- the weight of the kids: one per kid, one more per item of a link text -/
theorem weight_bKids {esc : List Char} (gs : List BUse) (hgs : ∀ g ∈ gs, BUseOK esc g) :
    ((bKids esc gs).map (fun c => 1 + below c)).sum =
      bCnt0 gs + bLinkLen gs + bImgLen gs + bBrLen gs + bOutCnt 1 gs + bOutCnt 2 gs := by
  induction gs with
  | nil => rfl
  | cons x r ih =>
    have ihr := ih (fun x hx => hgs x (List.mem_cons_of_mem _ hx))
    cases x with
    | lk u =>
      have hu := (hgs (.lk u) List.mem_cons_self).lk u rfl
      have h1 := nodes_length u.T.segs hu.text.ok
      have h2 := nodes_length u.C.segs hu.after.ok
      have ha : below (aKid esc (IUse.toR u)) = u.T.segs.length := by
        rw [below_eq]
        show belowKids (u.T.segs.map (tailedM esc)) = _
        rw [belowKids_childless _ (fun c hc => by
          obtain ⟨s, _, rfl⟩ := List.mem_map.1 hc; exact tailedM_childless esc s)]
        simp
      rw [bKids_lk]
      simp only [List.map_cons, List.map_append, List.sum_cons, List.sum_append, ha, weight_tailedM, ihr, bCnt0,
        bLinkLen_lk, bImgLen_lk, bBrLen_lk, bOutCnt, tCnt_lk, BUse.C, Chunk.cnt]
      omega
    | im u =>
      have hu := (hgs (.im u) List.mem_cons_self).im u rfl
      have h2 := nodes_length u.C.segs hu.after.ok
      rw [bKids_im]
      simp only [List.map_cons, List.map_append, List.sum_cons, List.sum_append, below_iKid, weight_tailedM, ihr, bCnt0,
        bLinkLen_im, bImgLen_im, bBrLen_im, bOutCnt, tCnt_im, BUse.C, Chunk.cnt]
      omega
    | br C =>
      have hu := ((hgs (.br C) List.mem_cons_self).br C rfl).1
      have h2 := nodes_length C.segs hu.ok
      rw [bKids_br]
      simp only [List.map_cons, List.map_append, List.sum_cons, List.sum_append, below_brT, weight_tailedM, ihr, bCnt0,
        bLinkLen_br, bImgLen_br, bBrLen_br, bOutCnt, tCnt_br, BUse.C, Chunk.cnt]
      omega

theorem bKids_length {esc : List Char} (gs : List BUse) (hgs : ∀ g ∈ gs, BUseOK esc g) :
    (bKids esc gs).length ≤ bCnt0 gs + bLinkLen gs + bImgLen gs + bBrLen gs + bOutCnt 1 gs + bOutCnt 2 gs := by
  induction gs with
  | nil => simp [bKids]
  | cons x r ih =>
    have ihr := ih (fun x hx => hgs x (List.mem_cons_of_mem _ hx))
    cases x with
    | lk u =>
      have hu := (hgs (.lk u) List.mem_cons_self).lk u rfl
      have h2 := nodes_length u.C.segs hu.after.ok
      rw [bKids_lk]
      simp only [bCnt0, bLinkLen_lk, bImgLen_lk, bBrLen_lk, bOutCnt, tCnt_lk, BUse.C, Chunk.cnt, List.length_cons,
        List.length_append, List.length_map]
      omega
    | im u =>
      have hu := (hgs (.im u) List.mem_cons_self).im u rfl
      have h2 := nodes_length u.C.segs hu.after.ok
      rw [bKids_im]
      simp only [bCnt0, bLinkLen_im, bImgLen_im, bBrLen_im, bOutCnt, tCnt_im, BUse.C, Chunk.cnt, List.length_cons,
        List.length_append, List.length_map]
      omega
    | br C =>
      have hu := ((hgs (.br C) List.mem_cons_self).br C rfl).1
      have h2 := nodes_length C.segs hu.ok
      rw [bKids_br]
      simp only [bCnt0, bLinkLen_br, bImgLen_br, bBrLen_br, bOutCnt, tCnt_br, BUse.C, Chunk.cnt, List.length_cons,
        List.length_append, List.length_map]
      omega

/-- each link contributes at least the four characters `[]()`, each image at least `![]()`, each hard break its three
    characters, each escape and each item at least one -/
theorem bStage_length {esc : List Char} (gs : List BUse) (hgs : ∀ g ∈ gs, BUseOK esc g) : ∀ (m n0 : Nat),
    bEscs esc gs + bCnt0 gs + bLinkLen gs + bImgLen gs + bBrLen gs + bOutCnt 1 gs + bOutCnt 2 gs ≤
      (bStage esc 0 false m n0 gs).length := by
  induction gs with
  | nil => intro _ _; simp [bEscs, bCnt0, bLinkLen, bImgLen, bBrLen, bOutCnt, bStage]
  | cons x r ih =>
    intro m n0
    cases x with
    | lk u =>
      have hu := (hgs (.lk u) List.mem_cons_self).lk u rfl
      have h1 := chunk_raw_length esc u.T hu.text.ok
      have h2 := chunk_raw_length esc u.C hu.after.ok
      have h3 := ih (fun x hx => hgs x (List.mem_cons_of_mem _ hx)) (m + u.T.escs esc + u.C.escs esc)
        (n0 + u.T.cnt 0 + u.C.cnt 0)
      simp only [bEscs, bCnt0, bLinkLen_lk, bImgLen_lk, bBrLen_lk, bOutCnt, bStage, BUse.head, tEscs_lk, tCnt_lk, BUse.C,
        closerI, Chunk.stage_raw, List.length_cons, List.length_append]
      omega
    | im u =>
      have hu := (hgs (.im u) List.mem_cons_self).im u rfl
      have h2 := chunk_raw_length esc u.C hu.after.ok
      have h3 := ih (fun x hx => hgs x (List.mem_cons_of_mem _ hx)) (m + u.C.escs esc) (n0 + u.C.cnt 0)
      simp only [bEscs, bCnt0, bLinkLen_im, bImgLen_im, bBrLen_im, bOutCnt, bStage, BUse.head, tEscs_im, tCnt_im, BUse.C,
        openerM, closerM, Chunk.stage_raw, List.length_cons, List.length_append, Nat.add_zero]
      omega
    | br C =>
      have hu := ((hgs (.br C) List.mem_cons_self).br C rfl).1
      have h2 := chunk_raw_length esc C hu.ok
      have h3 := ih (fun x hx => hgs x (List.mem_cons_of_mem _ hx)) (m + C.escs esc) (n0 + C.cnt 0)
      simp only [bEscs, bCnt0, bLinkLen_br, bImgLen_br, bBrLen_br, bOutCnt, bStage, BUse.head, tEscs_br, tCnt_br, BUse.C,
        brS, Chunk.stage_raw, List.length_cons, List.length_nil, List.length_append, Nat.add_zero]
      omega

/-- the element `<tg>C₀ U₁ C₁ … </tg>` (links, images and hard breaks) at every stage -/
def bElem (tg : Str) (esc : List Char) (C0 : Chunk) (gs : List BUse) : Elem :=
  ⟨{ tag := .name tg, text := some (bRaw esc C0 gs) }, bMid tg esc C0 gs, fun n => bStash esc n C0 gs,
   fun i => ((List.range (C0.segs.map (tailedM esc) ++ bKids esc gs).length).map (fun k => [i, k])).reverse,
   bPretty tg esc C0 gs, bFin tg C0 gs, bOut tg C0 gs⟩

set_option linter.unusedVariables false in
theorem bElem_ok (cfg : Inline.Cfg) (hE : EscOK cfg.esc) (hrb : ']' ∈ cfg.esc) (tg : Str)
    (htg : tg ∈ ["p", "h1", "h2", "h3", "h4", "h5", "h6"].map String.toList) (C0 : Chunk) (gs : List BUse)
    (h0 : ChunkOK cfg.esc C0) (hgs : ∀ g ∈ gs, BUseOK cfg.esc g) (hvis : ∀ u, BUse.lk u ∈ gs → u.T.Vis)
    (hne : gs ≠ []) (hloop : LoopOKB cfg C0 gs) : ElemOK cfg (bElem tg cfg.esc C0 gs) := by
  have ht := tgOK_of tg htg
  have hlenraw : C0.escs cfg.esc + C0.cnt 0 + C0.cnt 1 + C0.cnt 2 + (bEscs cfg.esc gs + bCnt0 gs + bLinkLen gs +
      bImgLen gs + bBrLen gs + bOutCnt 1 gs + bOutCnt 2 gs) ≤ (bRaw cfg.esc C0 gs).length := by
    have h1 := chunk_raw_length cfg.esc C0 h0.ok
    have h2 := bStage_length gs hgs 0 0
    rw [bRaw, List.length_append]; omega
  have hsize : Inline.size (bElem tg cfg.esc C0 gs).src = 1 + (bRaw cfg.esc C0 gs).length := by
    simp [bElem, Inline.size, Inline.sizeList]
  have hw : ((C0.segs.map (tailedM cfg.esc) ++ bKids cfg.esc gs).map (fun c => 1 + below c)).sum ≤
      (bRaw cfg.esc C0 gs).length := by
    have h1 := weight_bKids gs hgs
    have h2 := nodes_length C0.segs h0.ok
    simp only [List.map_append, List.sum_append, weight_tailedM, h1]
    simp only [Chunk.cnt] at hlenraw
    omega
  have hklen : (C0.segs.map (tailedM cfg.esc) ++ bKids cfg.esc gs).length ≤ (bRaw cfg.esc C0 gs).length := by
    have h1 := bKids_length gs hgs
    have h2 := nodes_length C0.segs h0.ok
    simp only [List.length_append, List.length_map]
    simp only [Chunk.cnt] at hlenraw
    omega
  refine ⟨fun v => visitChild_bLine cfg tg C0 gs h0 hgs hvis hne hloop v, fun i => ?_, fun i => ?_,
    fun i q hq => ?_, ht.block, pretty_bMid tg ht cfg.esc C0 gs hgs, unesc_bPretty tg ht C0 gs h0 hgs,
    ser_bFin tg ht C0 gs h0 hgs, ?_⟩
  · rw [hsize]
    simp only [bElem, List.length_reverse, List.length_map, List.length_range]
    omega
  · rw [hsize]
    have := mStack_range_all (bMid tg cfg.esc C0 gs) i
    have e1 : (bMid tg cfg.esc C0 gs).children = C0.segs.map (tailedM cfg.esc) ++ bKids cfg.esc gs := rfl
    rw [e1] at this
    show mStack (bMid tg cfg.esc C0 gs) _ ≤ _
    simp only [bElem]
    rw [this]
    omega
  · simp only [bElem, List.mem_reverse, List.mem_map, List.mem_range] at hq
    obtain ⟨k, hk, rfl⟩ := hq
    obtain ⟨kid, hkid⟩ : ∃ kid, (C0.segs.map (tailedM cfg.esc) ++ bKids cfg.esc gs)[k]? = some kid := by
      cases hx : (C0.segs.map (tailedM cfg.esc) ++ bKids cfg.esc gs)[k]? with
      | none => rw [List.getElem?_eq_none_iff] at hx; omega
      | some kid => exact ⟨kid, rfl⟩
    have hmem : kid ∈ C0.segs.map (tailedM cfg.esc) ++ bKids cfg.esc gs := List.mem_of_getElem? hkid
    obtain ⟨hs1, hs2⟩ := bAllKids_soft hE C0 gs hgs kid hmem
    refine ⟨[k], kid, rfl, ?_, ?_⟩
    · simp only [bElem, bMid, getAt]
      rw [hkid]
    · apply stillBelow_of_childless cfg _ kid
      · rw [hsize]; omega
      · intro c hc
        exact ⟨fun v => visitChild_soft cfg c v (hs1 c hc).1, (hs1 c hc).2⟩
  · refine ⟨?_, rfl, ?_⟩
    · intro hm
      have hm' : Post.STX ∈ '<' :: tg ++ ['>'] ++ (C0.out ++ bOutS gs) ++ ('<' :: '/' :: tg ++ ['>']) := hm
      simp only [List.mem_append, List.mem_cons, List.not_mem_nil, or_false] at hm'
      have hs := ht.stx
      rcases hm' with ((hm' | hm') | hm') | hm' | hm'
      · rcases hm' with hm' | hm'
        · revert hm'; decide
        · exact hs hm'
      · revert hm'; decide
      · rcases hm' with hm' | hm'
        · exact stx_not_mem_chunkOut C0 h0 hm'
        · exact stx_not_mem_bOutS gs hgs hm'
      · rcases hm' with hm' | hm' | hm'
        · revert hm'; decide
        · revert hm'; decide
        · exact hs hm'
      · revert hm'; decide
    · have e : (bElem tg cfg.esc C0 gs).out =
          ('<' :: tg ++ ['>'] ++ (C0.out ++ bOutS gs) ++ ('<' :: '/' :: tg)) ++ ['>'] := by
        simp [bElem, bOut]
      rw [e, List.getLast?_append]; rfl

end MdVerif.DocMixB
