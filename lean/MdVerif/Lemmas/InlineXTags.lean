/-
The inline stage and the tags / attributes of the tree: the inline stage keeps the tag and the attributes of every
element it finds and every element it makes has a tag other than `div`.  So a predicate `qt` of (tag, attributes) that
holds of every element of the tree, and of every element that is not a `div`, holds of every element of the result
(`runX_tags`).  Used for: no `div` of class `footnote` after the inline stage.
Same structure as `Lemmas/InlineXInv.lean` / `Lemmas/InlineXRel.lean`.  Core Lean only.
-/
import MdVerif.Lemmas.InlineXRel
import MdVerif.Lemmas.BlockExtTree

namespace MdVerif.InlineX
open Py Inline BlockExt

variable {qt : Tag → List (Str × Str) → Bool}

/-- `qt` holds of every element that is not a `div` -/
def NonDivOk (qt : Tag → List (Str × Str) → Bool) : Prop :=
  ∀ (tag : String) (attrs : List (Str × Str)), tag ≠ "div" → qt (.name tag.toList) attrs = true

/-- an element with a tag other than `div` -/
def Fr (n : Node) : Prop := ∃ tag : String, tag ≠ "div" ∧ n.tag = .name tag.toList

theorem Fr_mkEl {tag : String} (h : tag ≠ "div") : Fr (mkEl tag) := ⟨tag, h, rfl⟩

theorem Fr_setAttr {n : Node} (a b : Str) (h : Fr n) : Fr (n.setAttr a b) := by
  obtain ⟨tag, h1, h2⟩ := h
  refine ⟨tag, h1, ?_⟩
  unfold Node.setAttr
  split <;> exact h2

theorem setAttr_children (n : Node) (a b : Str) : (n.setAttr a b).children = n.children := by
  unfold Node.setAttr
  split <;> rfl

theorem NI_of_Fr (hq : NonDivOk qt) {n : Node} (h : Fr n) (hk : ∀ k ∈ n.children, NI qt k) : NI qt n := by
  obtain ⟨tag, h1, h2⟩ := h
  rw [NI_iff]
  exact ⟨h2 ▸ hq tag _ h1, hk⟩

theorem NI_mkEl' (hq : NonDivOk qt) {tag : String} (h : tag ≠ "div") : NI qt (mkEl tag) :=
  NI_of_Fr hq (Fr_mkEl h) (by intro k hk; cases hk)

theorem NI_text {n : Node} (h : NI qt n) (t : Option Str) (ta : Bool) : NI qt { n with text := t, textAtomic := ta } := by
  rw [NI_iff] at h ⊢; exact h

theorem NI_tail {n : Node} (h : NI qt n) (t : Option Str) (ta : Bool) : NI qt { n with tail := t, tailAtomic := ta } := by
  rw [NI_iff] at h ⊢; exact h

theorem NI_text1 {n : Node} (h : NI qt n) (t : Option Str) : NI qt { n with text := t } := by
  rw [NI_iff] at h ⊢; exact h

theorem NI_kids {n : Node} (h : NI qt n) : ∀ k ∈ n.children, NI qt k := ((NI_iff n).mp h).2

def ItemQ (qt : Tag → List (Str × Str) → Bool) (it : StashItem) : Prop :=
  match it with
  | .str _ => True
  | .node n => NI qt n

def StashQ (qt : Tag → List (Str × Str) → Bool) (stash : List StashItem) : Prop := ∀ it ∈ stash, ItemQ qt it

def FoundQ (qt : Tag → List (Str × Str) → Bool) (f : Found) : Prop :=
  match f.node with
  | .el n => NI qt n
  | _ => True

theorem NI_setTextOrTail {p : Node} {text : Str} (hasLast : Bool) (hp : NI qt p) : NI qt (setTextOrTail p hasLast text) := by
  unfold setTextOrTail
  split
  · exact hp
  · split
    · split
      · rename_i l hl
        apply NI_setLast hp
        exact NI_tail (NI_kids hp l (List.mem_of_getLast? hl)) _ _
      · exact hp
    · exact NI_text hp _ _

/-! ### emphasis -/

def ItemOk (item : EmItem) : Prop := item.tag1 ≠ "div" ∧ item.tag2 ≠ "div"

theorem emPatterns_ok (ch : Char) : ∀ item ∈ emPatterns ch, ItemOk item := by
  unfold emPatterns
  split
  · intro item hi
    simp only [starPatterns, List.mem_cons, List.not_mem_nil, or_false] at hi
    rcases hi with rfl | rfl | rfl | rfl | rfl <;> exact ⟨by decide, by decide⟩
  · intro item hi
    simp only [underPatterns, List.mem_cons, List.not_mem_nil, or_false] at hi
    rcases hi with rfl | rfl | rfl | rfl | rfl <;> exact ⟨by decide, by decide⟩

theorem subTry_tags {b : List Str → EmItem → Nat → Option Node} {data : Str} {ch : Char} {idx : Nat}
    (hb : ∀ groups item i n, ItemOk item → b groups item i = some n → NI qt n) :
    ∀ (items : List EmItem) (index : Nat) (s s' : SubSt), (∀ it ∈ items, ItemOk it) → NI qt s.parent →
      subTry b data ch idx items index s = some s' → NI qt s'.parent := by
  intro items
  induction items with
  | nil => intro index s s' _ hs h; simp only [subTry] at h; cases h; exact hs
  | cons item rest ih =>
    intro index s s' hit hs h
    have hrest : ∀ it ∈ rest, ItemOk it := fun it hi => hit it (List.mem_cons_of_mem _ hi)
    unfold subTry at h
    split at h
    · exact ih _ _ _ hrest hs h
    · split at h
      · exact ih _ _ _ hrest hs h
      · rename_i e groups hm
        split at h
        · cases h
        · rename_i el hel
          have hel' := hb groups item index el (hit item List.mem_cons_self) hel
          exact ih _ _ _ hrest (NI_append (NI_setTextOrTail _ hs) hel') h

theorem subLoop_tags {b : List Str → EmItem → Nat → Option Node} {data : Str} {ch : Char} {idx : Nat}
    (hb : ∀ groups item i n, ItemOk item → b groups item i = some n → NI qt n) :
    ∀ (g : Nat) (s s' : SubSt), NI qt s.parent → subLoop b data ch idx g s = some s' → NI qt s'.parent := by
  intro g
  induction g with
  | zero => intro s s' _ h; simp [subLoop] at h
  | succ g ih =>
    intro s s' hs h
    unfold subLoop at h
    split at h
    · split at h
      · split at h
        · cases h
        · rename_i s1 hs1
          have h1 := subTry_tags hb _ _ _ _ (emPatterns_ok ch) (by exact hs) hs1
          exact ih _ _ (by split <;> exact h1) h
      · exact ih _ _ (by exact hs) h
    · cases h; exact hs

theorem parseSub_tags {b : List Str → EmItem → Nat → Option Node} {data : Str} {ch : Char}
    (hb : ∀ groups item i n, ItemOk item → b groups item i = some n → NI qt n)
    (parent : Node) (hasLast : Bool) (idx : Nat) (hp : NI qt parent) {n : Node}
    (h : parseSub b data parent hasLast idx ch = some n) : NI qt n := by
  unfold parseSub at h
  split at h
  · cases h
  · rename_i s hs
    injection h with h
    rw [← h]
    exact NI_setTextOrTail _ (subLoop_tags hb _ _ _ hp hs)

theorem build_tags (hq : NonDivOk qt) (ch : Char) : ∀ (f : Nat) (groups : List Str) (item : EmItem) (idx : Nat)
    (n : Node), ItemOk item → build ch f groups item idx = some n → NI qt n := by
  intro f
  induction f with
  | zero => intro groups item idx n _ h; simp [build] at h
  | succ f ih =>
    intro groups item idx n hit h
    have hsub : ∀ (d : Str) (p : Node) (hl : Bool) (m : Node), NI qt p →
        parseSub (fun g i j => build ch f g i j) d p hl idx ch = some m → NI qt m :=
      fun d p hl m hp hm => parseSub_tags (fun groups item i n hi hb' => ih groups item i n hi hb') p hl idx hp hm
    unfold build at h
    simp only at h
    split at h
    · exact hsub _ _ _ _ (NI_mkEl' hq hit.1) h
    · split at h
      · cases h
      · rename_i el2 hel2
        have hD2 := hsub _ _ _ _ (NI_mkEl' hq hit.2) hel2
        have hD1 : NI qt ((mkEl item.tag1).append el2) := NI_append (NI_mkEl' hq hit.1) hD2
        split at h
        · exact hsub _ _ _ _ hD1 h
        · cases h; exact hD1
    · split at h
      · rename_i el1 el2 hel1 hel2
        cases h
        exact NI_append (hsub _ _ _ _ (NI_mkEl' hq hit.1) hel1) (hsub _ _ _ _ (NI_mkEl' hq hit.2) hel2)
      · cases h

theorem emHandle_tags (hq : NonDivOk qt) {data : Str} {i : Nat} {ch : Char} :
    ∀ (items : List EmItem) (idx : Nat) el e, (∀ it ∈ items, ItemOk it) →
      emHandle data i ch items idx = some (some (el, e)) → NI qt el := by
  intro items
  induction items with
  | nil => intro idx el e _ h; simp [emHandle] at h
  | cons item rest ih =>
    intro idx el e hit h
    unfold emHandle at h
    split at h
    · rename_i e' groups hm
      split at h
      · rename_i el' hel
        simp only [Option.some.injEq, Prod.mk.injEq] at h
        rw [← h.1]
        exact build_tags hq ch _ groups item idx el' (hit item List.mem_cons_self) hel
      · cases h
    · exact ih _ _ _ (fun it hi => hit it (List.mem_cons_of_mem _ hi)) h

theorem emScan_tags (hq : NonDivOk qt) {data : Str} {ch : Char} :
    ∀ (suf : Str) (i : Nat) el s e, emScan data ch suf i = some (some (el, s, e)) → NI qt el := by
  intro suf
  induction suf with
  | nil => intro i el s e h; simp [emScan] at h
  | cons x r ih =>
    intro i el s e h
    unfold emScan at h
    split at h
    · split at h
      · cases h
      · rename_i el' e' hx
        simp only [Option.some.injEq, Prod.mk.injEq] at h
        rw [← h.1]
        exact emHandle_tags hq _ _ _ _ (emPatterns_ok ch) hx
      · exact ih _ _ _ _ h
    · exact ih _ _ _ _ h

/-! ### links -/

theorem NI_fresh (hq : NonDivOk qt) {n : Node} (h : Fr n) (hk : n.children = []) : NI qt n :=
  NI_of_Fr hq h (by rw [hk]; intro k hk'; cases hk')

theorem Fr_text {n : Node} (h : Fr n) (t : Option Str) : Fr { n with text := t } := h

theorem linkHandle_tags (hq : NonDivOk qt) {cfg : Cfg} {stash : List StashItem} {pi : Nat} {data : Str}
    {mstart mend : Nat} {f : Found} (h : linkHandle cfg stash pi data mstart mend = some f) : FoundQ qt f := by
  have himg : Fr (mkEl "img") := Fr_mkEl (by decide)
  have ha : Fr (mkEl "a") := Fr_mkEl (by decide)
  unfold linkHandle at h
  revert h
  generalize getText data mend = r
  obtain ⟨text, index, handled⟩ := r
  simp only
  intro h
  split at h
  · cases h
  · split at h
    · revert h
      generalize getLink (unescape stash) data index = gl
      obtain ⟨href, title, idx, ok⟩ := gl
      simp only
      intro h
      split at h
      · cases h
      · cases h
        simp only [FoundQ]
        split
        · split
          · exact NI_fresh hq (Fr_setAttr _ _ (Fr_setAttr _ _ (Fr_setAttr _ _ himg)))
              (by simp [setAttr_children, mkEl])
          · exact NI_fresh hq (Fr_setAttr _ _ (Fr_setAttr _ _ himg)) (by simp [setAttr_children, mkEl])
        · split
          · exact NI_fresh hq (Fr_setAttr _ _ (Fr_setAttr _ _ (Fr_text ha _))) (by simp [setAttr_children, mkEl])
          · exact NI_fresh hq (Fr_setAttr _ _ (Fr_text ha _)) (by simp [setAttr_children, mkEl])
    · split at h
      · cases h
      · split at h
        · cases h
          simp only [FoundQ]
        · cases h
          simp only [FoundQ]
          split
          · split
            · exact NI_fresh hq (Fr_setAttr _ _ (Fr_setAttr _ _ (Fr_setAttr _ _ himg)))
                (by simp [setAttr_children, mkEl])
            · exact NI_fresh hq (Fr_setAttr _ _ (Fr_setAttr _ _ himg)) (by simp [setAttr_children, mkEl])
          · split
            · exact NI_text1 (NI_fresh hq (Fr_setAttr _ _ (Fr_setAttr _ _ ha)) (by simp [setAttr_children, mkEl])) _
            · exact NI_text1 (NI_fresh hq (Fr_setAttr _ _ ha) (by simp [setAttr_children, mkEl])) _

theorem linkScan_tags (hq : NonDivOk qt) {cfg : Cfg} {stash : List StashItem} {pi : Nat} {data : Str} :
    ∀ {suf : Str} {prev : Option Char} {i : Nat} {f : Found},
      linkScan cfg stash pi data prev suf i = some f → FoundQ qt f := by
  intro suf
  induction suf with
  | nil => intro prev i f h; simp [linkScan] at h
  | cons ch r ih =>
    intro prev i f h
    rw [linkScan_cons] at h
    split at h
    · rename_i f' hf'
      cases h
      unfold linkHere at hf'
      split at hf'
      · split at hf'
        · exact linkHandle_tags hq hf'
        · cases hf'
      · split at hf'
        · exact linkHandle_tags hq hf'
        · cases hf'
    · exact ih h

/-- every core pattern: the found element has no `div`, the inline stash is untouched -/
theorem findMatch_tags (hq : NonDivOk qt) (cfg : Cfg) (pi : Nat) (data : Str) (si : Nat) (st : St)
    {r : Option Found} {st' : St} (h : findMatch cfg pi data si st = some (r, st')) :
    st'.stash = st.stash ∧ ∀ f, r = some f → FoundQ qt f := by
  unfold findMatch at h
  simp only at h
  have hnone : ∀ {x : Option Found × St}, some (none, st) = some x →
      x.2.stash = st.stash ∧ ∀ f, x.1 = some f → FoundQ qt f := by
    intro x hx; cases hx; exact ⟨rfl, by intro f hf; cases hf⟩
  split at h
  · exact hnone h
  · split at h
    · -- backtick
      split at h
      · split at h
        · cases h
          refine ⟨rfl, ?_⟩
          intro f hf; cases hf
          simp only [FoundQ]
          exact NI_of_Fr hq (Fr_mkEl (tag := "code") (by decide)) (by intro k hk; cases hk)
        · cases h
          exact ⟨rfl, by intro f hf; cases hf; simp only [FoundQ]⟩
      · exact hnone h
    · -- escape
      split at h
      · cases h
        refine ⟨rfl, ?_⟩
        intro f hf; cases hf
        rename_i i ch _
        by_cases he : cfg.esc.contains ch = true
        · simp only [FoundQ, he, if_true]
        · simp only [FoundQ, he, Bool.false_eq_true, if_false]
      · exact hnone h
    · -- linebreak
      split at h
      · cases h
        exact ⟨rfl, by intro f hf; cases hf; exact NI_mkEl' hq (by decide)⟩
      · exact hnone h
    · -- entity
      split at h
      · cases h
        exact ⟨rfl, by intro f hf; cases hf; simp only [FoundQ]⟩
      · exact hnone h
    · -- not_strong
      split at h
      · cases h
        exact ⟨rfl, by intro f hf; cases hf; simp only [FoundQ]⟩
      · exact hnone h
    · -- emphasis
      split at h
      · cases h
      · exact hnone h
      · rename_i el s e hx
        cases h
        exact ⟨rfl, by intro f hf; cases hf; exact emScan_tags hq _ _ _ _ _ hx⟩
    · split at h
      · cases h
      · exact hnone h
      · rename_i el s e hx
        cases h
        exact ⟨rfl, by intro f hf; cases hf; exact emScan_tags hq _ _ _ _ _ hx⟩
    · exact hnone h
    · exact hnone h
    · exact hnone h
    · -- links
      split at h
      · cases h
        refine ⟨rfl, ?_⟩
        intro f hf
        exact linkScan_tags hq hf
      · exact hnone h

theorem findX_tags (hq : NonDivOk qt) (xc : XCfg) (k : PatK) (data : Str) (si : Nat) (x : XSt)
    {r : Option Found} {x' : XSt} (h : findX xc k data si x = some (r, x')) :
    x'.st.stash = x.st.stash ∧ ∀ f, r = some f → FoundQ qt f := by
  cases k with
  | core i =>
    simp only [findX] at h
    split at h
    · cases h
    · rename_i f st hm
      injection h with h
      injection h with h1 h2
      subst h1; subst h2
      exact findMatch_tags hq xc.cfg i data si x.st hm
  | footnote =>
    simp only [findX] at h
    split at h
    · cases h; exact ⟨rfl, by intro f hf; cases hf⟩
    · split at h
      · rename_i id s0 e0 _
        cases h
        refine ⟨rfl, ?_⟩
        intro f hf; cases hf
        simp only [FoundQ, fnRefNode]
        have ha : NI qt ((({ mkEl "a" with text := some (natToDec (indexOf xc.fnKeys id + 1)) } : Node).setAttr
            "href".toList ('#' :: Footnotes.footnoteId id)).setAttr "class".toList "footnote-ref".toList) :=
          NI_fresh hq (Fr_setAttr _ _ (Fr_setAttr _ _ (Fr_text (Fr_mkEl (tag := "a") (by decide)) _)))
            (by simp [setAttr_children, mkEl])
        have hsup : Fr ((mkEl "sup").setAttr "id".toList (Footnotes.footnoteRefId id true x.fn).1) :=
          Fr_setAttr _ _ (Fr_mkEl (by decide))
        apply NI_children (NI_of_Fr hq hsup (by simp [setAttr_children, mkEl]))
        intro k' hk'
        simp only [List.mem_singleton] at hk'
        exact hk' ▸ ha
      · cases h; exact ⟨rfl, by intro f hf; cases hf⟩
  | wikilink =>
    simp only [findX] at h
    split at h
    · cases h; exact ⟨rfl, by intro f hf; cases hf⟩
    · split at h
      · rename_i g s e hw
        cases h
        refine ⟨rfl, ?_⟩
        intro f hf; cases hf
        by_cases he : (strip g).isEmpty = true
        · simp [FoundQ, wikiNode, he]
        · simp only [FoundQ, wikiNode, he, Bool.false_eq_true, if_false]
          exact NI_fresh hq (Fr_setAttr _ _ (Fr_setAttr _ _ (Fr_text (Fr_mkEl (tag := "a") (by decide)) _)))
            (by simp [setAttr_children, mkEl])
      · cases h; exact ⟨rfl, by intro f hf; cases hf⟩
  | nl =>
    simp only [findX] at h
    split at h
    · cases h; exact ⟨rfl, by intro f hf; cases hf⟩
    · split at h
      · cases h
        exact ⟨rfl, by intro f hf; cases hf; exact NI_mkEl' hq (by decide)⟩
      · cases h; exact ⟨rfl, by intro f hf; cases hf⟩

/-! ### `processPlaceholders` -/

theorem StashQ_get {stash : List StashItem} (h : StashQ qt stash) {id : Str} {it : StashItem}
    (hg : stashGet stash id = some it) : ItemQ qt it := by
  simp only [stashGet] at hg
  split at hg
  · exact h it (List.mem_of_getElem? hg)
  · cases hg

theorem linkText_tags {text : Str} {atomic isText : Bool} {result : List Node} {parent : Node}
    (hr : ∀ n ∈ result, NI qt n) (hp : NI qt parent) :
    (∀ n ∈ (linkText text atomic isText result parent).1, NI qt n) ∧
      NI qt (linkText text atomic isText result parent).2 := by
  unfold linkText
  split
  · exact ⟨hr, hp⟩
  · split
    · rename_i l r
      have hl := hr l List.mem_cons_self
      have hr' : ∀ n ∈ r, NI qt n := fun n hn => hr n (List.mem_cons_of_mem _ hn)
      split
      · refine ⟨?_, hp⟩
        intro n hn
        rcases List.mem_cons.mp hn with hn | hn
        · rw [hn]; exact NI_tail hl _ _
        · exact hr' n hn
      · refine ⟨?_, hp⟩
        intro n hn
        rcases List.mem_cons.mp hn with hn | hn
        · rw [hn]; exact NI_tail hl _ _
        · exact hr' n hn
    · split
      · split
        · exact ⟨hr, NI_tail hp _ _⟩
        · exact ⟨hr, NI_tail hp _ _⟩
      · split
        · exact ⟨hr, NI_text hp _ _⟩
        · exact ⟨hr, NI_text hp _ _⟩

theorem ppLoop_tags {stash : List StashItem} {nested : Node → Option Node} {data : Str} {atomic isText : Bool}
    (hst : StashQ qt stash) (hn : ∀ n n', NI qt n → nested n = some n' → NI qt n') :
    ∀ (g start : Nat) (result : List Node) (parent : Node) {res : List Node} {p' : Node},
      (∀ n ∈ result, NI qt n) → NI qt parent →
      ppLoop stash nested data atomic isText g start result parent = some (res, p') →
      (∀ n ∈ res, NI qt n) ∧ NI qt p' := by
  intro g
  induction g with
  | zero => intro start result parent res p' _ _ h; simp [ppLoop] at h
  | succ g ih =>
    intro start result parent res p' hr hp h
    unfold ppLoop at h
    simp only at h
    split at h
    · rename_i off _
      have h1 : (∀ n ∈ (if start + off > 0 then linkText (Inline.slice data start (start + off)) false isText result parent
            else (result, parent)).1, NI qt n) ∧
          NI qt (if start + off > 0 then linkText (Inline.slice data start (start + off)) false isText result parent
            else (result, parent)).2 := by
        split
        · exact linkText_tags hr hp
        · exact ⟨hr, hp⟩
      split at h
      · rename_i item hitem
        have hitemC : ItemQ qt item := by
          cases hfp : (findPh data (start + off)).1 with
          | none => rw [hfp] at hitem; simp at hitem
          | some id' => rw [hfp] at hitem; exact StashQ_get hst (by simpa using hitem)
        cases item with
        | node n =>
          simp only at h
          split at h
          · cases h
          · rename_i n' hn'
            exact ih _ _ _ (by
              intro m hm
              rcases List.mem_cons.mp hm with hm | hm
              · exact hm ▸ hn n n' hitemC hn'
              · exact h1.1 m hm) h1.2 h
        | str s =>
          simp only at h
          have h2 := linkText_tags (text := s) (atomic := false) (isText := isText) h1.1 h1.2
          exact ih _ _ _ h2.1 h2.2 h
      · have h2 := linkText_tags (text := Inline.slice data start (start + off + phPrefixLen)) (atomic := false)
          (isText := isText) hr hp
        exact ih _ _ _ h2.1 h2.2 h
    · have h2 := linkText_tags (text := data.drop start) (atomic := atomic) (isText := isText) hr hp
      injection h with h
      injection h with h3 h4
      subst h3; subst h4
      exact ⟨(by intro n hn'; exact h2.1 n (List.mem_reverse.mp hn')), h2.2⟩

def PPq (qt : Tag → List (Str × Str) → Bool) (pp : PP) : Prop :=
  ∀ data atomic parent isText res p', NI qt parent → pp data atomic parent isText = some (res, p') →
    (∀ n ∈ res, NI qt n) ∧ NI qt p'

theorem petTail_tags {pp : PP} (hpp : PPq qt pp) {k k' : Node} {res : List Node} (hk : NI qt k)
    (h : petTail pp k = some (k', res)) : NI qt k' ∧ ∀ n ∈ res, NI qt n := by
  unfold petTail at h
  split at h
  · split at h
    · rename_i res' c' hp
      injection h with h
      injection h with h1 h2
      subst h1; subst h2
      have := hpp _ _ _ _ _ _ (NI_tail hk none false) hp
      exact ⟨this.2, this.1⟩
    · cases h
  · injection h with h
    injection h with h1 h2
    subst h1; subst h2
    exact ⟨hk, (by intro n hn; cases hn)⟩

theorem petText_tags {pp : PP} (hpp : PPq qt pp) {k k' : Node} (hk : NI qt k) (h : petText pp k = some k') :
    NI qt k' := by
  unfold petText at h
  split at h
  · split at h
    · rename_i res c' hp
      injection h with h
      subst h
      have := hpp _ _ _ _ _ _ (NI_text hk none false) hp
      apply NI_children this.2
      intro n hn
      rcases List.mem_append.mp hn with hn | hn
      · exact this.1 n hn
      · exact NI_kids this.2 n hn
    · cases h
  · injection h with h
    exact h ▸ hk

theorem procKids_tags {pp : PP} (hpp : PPq qt pp) : ∀ (l : List Node) {l' : List Node}, (∀ n ∈ l, NI qt n) →
    procKids pp l = some l' → ∀ n ∈ l', NI qt n := by
  intro l
  induction l with
  | nil => intro l' _ h; simp only [procKids] at h; cases h; intro n hn; cases hn
  | cons k r ih =>
    intro l' hl h
    simp only [procKids] at h
    split at h
    · cases h
    · rename_i c1 res hpt
      have h1 := petTail_tags hpp (hl k List.mem_cons_self) hpt
      split at h
      · cases h
      · rename_i c2 hpx
        have h2 := petText_tags hpp h1.1 hpx
        split at h
        · cases h
        · rename_i r' hr'
          injection h with h
          subst h
          intro n hn
          rcases List.mem_cons.mp hn with hn | hn
          · exact hn ▸ h2
          · rcases List.mem_append.mp hn with hn | hn
            · exact h1.2 n hn
            · exact ih (fun m hm => hl m (List.mem_cons_of_mem _ hm)) hr' n hn

theorem procNode_tags {pp : PP} (hpp : PPq qt pp) {node node' : Node} (hn : NI qt node)
    (h : procNode pp node = some node') : NI qt node' := by
  unfold procNode at h
  simp only at h
  split at h
  · cases h
  · rename_i n1 tailRes hpt
    have h1 := petTail_tags hpp (NI_children hn [] (by intro k hk; cases hk)) hpt
    split at h
    · cases h
    · rename_i n2 hpx
      have h2 := petText_tags hpp h1.1 hpx
      split at h
      · cases h
      · rename_i kids hk
        injection h with h
        subst h
        have h3 := procKids_tags hpp _ (NI_kids hn) hk
        apply NI_children h2
        intro n hn'
        rcases List.mem_append.mp hn' with hn' | hn'
        · rcases List.mem_append.mp hn' with hn' | hn'
          · exact NI_kids h2 n hn'
          · exact h1.2 n hn'
        · exact h3 n hn'

theorem processPlaceholders_tags {stash : List StashItem} (hst : StashQ qt stash) :
    ∀ f, PPq qt (processPlaceholders stash f) := by
  intro f
  induction f with
  | zero => intro data atomic parent isText res p' _ h; simp [processPlaceholders] at h
  | succ f ih =>
    intro data atomic parent isText res p' hp h
    simp only [processPlaceholders] at h
    split at h
    · injection h with h
      injection h with h1 h2
      subst h1; subst h2
      exact ⟨(by intro n hn; cases hn), hp⟩
    · exact ppLoop_tags hst (fun n n' hn hn' => procNode_tags ih hn hn') _ _ _ _ (by intro n hn; cases hn) hp h

theorem ppTop_tags {st : St} (hst : StashQ qt st.stash) {data : Str} {atomic isText : Bool} {parent : Node}
    {res : List Node} {p' : Node} (hp : NI qt parent)
    (h : ppTop st data atomic parent isText = some (res, p')) : (∀ n ∈ res, NI qt n) ∧ NI qt p' :=
  processPlaceholders_tags hst _ _ _ _ _ _ _ hp h

/-! ### `__handleInline` -/

/-- the nested `__handleInline` keeps the stash invariant -/
def HIQ (qt : Tag → List (Str × Str) → Bool) (hi : HIX) : Prop :=
  ∀ d p x d' x', StashQ qt x.st.stash → hi d p x = some (d', x') → StashQ qt x'.st.stash

theorem hiOptX_tags {hi : HIX} (hg : HIQ qt hi) (t : Option Str) (atomic : Bool) (pi : Nat) (x : XSt)
    (hx : StashQ qt x.st.stash) {t' : Option Str} {x' : XSt} (h : hiOptX hi t atomic pi x = some (t', x')) :
    StashQ qt x'.st.stash := by
  simp only [hiOptX] at h
  split at h
  · cases hh : hi (t.getD []) pi x with
    | none => rw [hh] at h; cases h
    | some r =>
      obtain ⟨d, x1⟩ := r
      rw [hh] at h
      injection h with h
      injection h with _ h2
      subst h2
      exact hg _ _ _ _ _ hx hh
  · injection h with h
    injection h with _ h2
    subst h2
    exact hx

theorem hiNodeX_tags {hi : HIX} (hg : HIQ qt hi) (pi : Nat) (n : Node) (x : XSt) (hn : NI qt n)
    (hx : StashQ qt x.st.stash) {n' : Node} {x' : XSt} (h : hiNodeX hi pi n x = some (n', x')) :
    NI qt n' ∧ StashQ qt x'.st.stash := by
  simp only [hiNodeX] at h
  cases h1 : hiOptX hi n.text n.textAtomic (pi + 1) x with
  | none => rw [h1] at h; cases h
  | some r1 =>
    obtain ⟨t, x1⟩ := r1
    rw [h1] at h
    simp only [] at h
    have hx1 := hiOptX_tags hg _ _ _ _ hx h1
    cases h2 : hiOptX hi n.tail n.tailAtomic pi x1 with
    | none => rw [h2] at h; cases h
    | some r2 =>
      obtain ⟨tl, x2⟩ := r2
      rw [h2] at h
      injection h with h
      injection h with h3 h4
      subst h3; subst h4
      refine ⟨?_, hiOptX_tags hg _ _ _ _ hx1 h2⟩
      rw [NI_iff] at hn ⊢
      exact hn

theorem hiNodesX_tags {hi : HIX} (hg : HIQ qt hi) (pi : Nat) : ∀ (l : List Node) (x : XSt),
    (∀ n ∈ l, NI qt n) → StashQ qt x.st.stash →
    ∀ {l' : List Node} {x' : XSt}, hiNodesX hi pi l x = some (l', x') →
      (∀ n ∈ l', NI qt n) ∧ StashQ qt x'.st.stash := by
  intro l
  induction l with
  | nil =>
    intro x _ hx l' x' h
    simp only [hiNodesX] at h
    injection h with h
    injection h with h1 h2
    subst h1; subst h2
    exact ⟨(by intro n hn; cases hn), hx⟩
  | cons n r ih =>
    intro x hl hx l' x' h
    simp only [hiNodesX] at h
    cases h1 : hiNodeX hi pi n x with
    | none => rw [h1] at h; cases h
    | some r1 =>
      obtain ⟨n', x1⟩ := r1
      rw [h1] at h
      simp only [] at h
      obtain ⟨hn', hx1⟩ := hiNodeX_tags hg pi n x (hl n List.mem_cons_self) hx h1
      cases h2 : hiNodesX hi pi r x1 with
      | none => rw [h2] at h; cases h
      | some r2 =>
        obtain ⟨r', x2⟩ := r2
        rw [h2] at h
        injection h with h
        injection h with h3 h4
        subst h3; subst h4
        obtain ⟨hr', hx2⟩ := ih x1 (fun m hm => hl m (List.mem_cons_of_mem _ hm)) hx1 h2
        refine ⟨?_, hx2⟩
        intro m hm
        rcases List.mem_cons.mp hm with hm | hm
        · exact hm ▸ hn'
        · exact hr' m hm

theorem StashQ_snoc {stash : List StashItem} {it : StashItem} (h : StashQ qt stash) (hi : ItemQ qt it) :
    StashQ qt (stash ++ [it]) := by
  intro x hx
  rcases List.mem_append.mp hx with hx | hx
  · exact h x hx
  · simp only [List.mem_singleton] at hx
    exact hx ▸ hi

theorem applyPatternX_tags (hq : NonDivOk qt) (xc : XCfg) {hi : HIX} (hg : HIQ qt hi) (pi : Nat) (data : Str)
    (si : Nat) (x : XSt) (hx : StashQ qt x.st.stash) {d : Str} {m : Bool} {si' : Nat} {x' : XSt}
    (h : applyPatternX xc hi pi data si x = some (d, m, si', x')) : StashQ qt x'.st.stash := by
  simp only [applyPatternX] at h
  cases hk : xc.table[pi]? with
  | none =>
    rw [hk] at h
    injection h with h
    injection h with _ h
    injection h with _ h
    injection h with _ h2
    subst h2
    exact hx
  | some k =>
    rw [hk] at h
    simp only [] at h
    cases hf : findX xc k data si x with
    | none => rw [hf] at h; cases h
    | some r =>
      obtain ⟨fo, x0⟩ := r
      rw [hf] at h
      obtain ⟨hst, hfc⟩ := findX_tags hq xc k data si x hf
      have hx0 : StashQ qt x0.st.stash := hst ▸ hx
      cases fo with
      | none =>
        injection h with h
        injection h with _ h
        injection h with _ h
        injection h with _ h2
        subst h2
        exact hx0
      | some f =>
        have hF := hfc f rfl
        simp only [] at h
        cases hnode : f.node with
        | none =>
          rw [hnode] at h
          injection h with h
          injection h with _ h
          injection h with _ h
          injection h with _ h2
          subst h2
          exact hx0
        | str s =>
          rw [hnode] at h
          simp only [stashX, stashNode] at h
          injection h with h
          injection h with _ h
          injection h with _ h
          injection h with _ h2
          subst h2
          exact StashQ_snoc hx0 trivial
        | el n =>
          rw [hnode] at h
          have hnD : NI qt n := by simpa [FoundQ, hnode] using hF
          simp only [] at h
          by_cases hat : (n.text.isSome && n.textAtomic) = true
          · simp only [hat, if_true, stashX, stashNode] at h
            injection h with h
            injection h with _ h
            injection h with _ h
            injection h with _ h2
            subst h2
            exact StashQ_snoc hx0 hnD
          · simp only [hat, Bool.false_eq_true, if_false] at h
            cases h1 : hiNodeX hi pi { n with children := [] } x0 with
            | none => rw [h1] at h; cases h
            | some r1 =>
              obtain ⟨n1, x1⟩ := r1
              rw [h1] at h
              simp only [] at h
              obtain ⟨hn1, hx1⟩ := hiNodeX_tags hg pi _ x0 (NI_children hnD [] (by intro k hk; cases hk)) hx0 h1
              cases h2 : hiNodesX hi pi n.children x1 with
              | none => rw [h2] at h; cases h
              | some r2 =>
                obtain ⟨kids, x2⟩ := r2
                rw [h2] at h
                obtain ⟨hkids, hx2⟩ := hiNodesX_tags hg pi n.children x1 (NI_kids hnD) hx1 h2
                simp only [stashX, stashNode] at h
                injection h with h
                injection h with _ h
                injection h with _ h
                injection h with _ h4
                subst h4
                exact StashQ_snoc hx2 (NI_children hn1 kids hkids)

theorem hiLoopX_tags {ap : Nat → Str → Nat → XSt → Option (Str × Bool × Nat × XSt)} (count : Nat)
    (hap : ∀ pi data si x d m si' x', StashQ qt x.st.stash → ap pi data si x = some (d, m, si', x') →
      StashQ qt x'.st.stash) :
    ∀ (g : Nat) (data : Str) (pi si : Nat) (x : XSt) {d : Str} {x' : XSt}, StashQ qt x.st.stash →
      hiLoopX count ap g data pi si x = some (d, x') → StashQ qt x'.st.stash := by
  intro g
  induction g with
  | zero => intro data pi si x d x' _ h; simp only [hiLoopX] at h; cases h
  | succ g ih =>
    intro data pi si x d x' hx h
    unfold hiLoopX at h
    split at h
    · cases h1 : ap pi data si x with
      | none => rw [h1] at h; cases h
      | some r =>
        obtain ⟨d1, m, si', x1⟩ := r
        rw [h1] at h
        exact ih _ _ _ _ (hap _ _ _ _ _ _ _ _ hx h1) h
    · injection h with h
      injection h with _ h2
      subst h2
      exact hx

theorem handleInlineX_tags (hq : NonDivOk qt) (xc : XCfg) : ∀ f, HIQ qt (handleInlineX xc f) := by
  intro f
  induction f with
  | zero => intro d p x d' x' _ h; simp only [handleInlineX] at h; cases h
  | succ f ih =>
    intro d p x d' x' hx h
    simp only [handleInlineX] at h
    exact hiLoopX_tags _ (fun pi data si x d m si' x' hx h => applyPatternX_tags hq xc ih pi data si x hx h)
      _ _ _ _ _ hx h

theorem handleInlineTopX_tags (hq : NonDivOk qt) (xc : XCfg) (data : Str) (x : XSt) (hx : StashQ qt x.st.stash)
    {d' : Str} {x' : XSt} (h : handleInlineTopX xc data x = some (d', x')) : StashQ qt x'.st.stash := by
  simp only [handleInlineTopX] at h
  exact handleInlineX_tags hq xc _ _ _ _ _ _ hx h

/-! ### `run` -/

theorem textStageX_tags (hq : NonDivOk qt) (xc : XCfg) (child : Node) (x : XSt) (hch : NI qt child)
    (hx : StashQ qt x.st.stash) {c1 : Node} {lst : List Node} {x1 : XSt}
    (h : textStageX xc child x = some (c1, lst, x1)) :
    NI qt c1 ∧ (∀ n ∈ lst, NI qt n) ∧ StashQ qt x1.st.stash := by
  simp only [textStageX] at h
  split at h
  · cases hh : handleInlineTopX xc (child.text.getD []) x with
    | none => rw [hh] at h; cases h
    | some r =>
      obtain ⟨data, x1'⟩ := r
      rw [hh] at h
      simp only [] at h
      have hx' := handleInlineTopX_tags hq xc _ x hx hh
      cases hp : ppTop x1'.st data false { child with text := none, textAtomic := false } true with
      | none => rw [hp] at h; cases h
      | some q =>
        obtain ⟨lst', c1'⟩ := q
        rw [hp] at h
        injection h with h
        injection h with h1' h
        injection h with h2' h3'
        subst h1'; subst h2'; subst h3'
        have := ppTop_tags hx' (NI_text hch none false) hp
        exact ⟨this.2, this.1, hx'⟩
  · injection h with h
    injection h with h1' h
    injection h with h2' h3'
    subst h1'; subst h2'; subst h3'
    exact ⟨hch, (by intro n hn; cases hn), hx⟩

theorem tailFinish_tags (hq : NonDivOk qt) (c1 : Node) (hc1 : NI qt c1) (ho : Option (Str × XSt))
    (hh : ∀ data x2', ho = some (data, x2') → StashQ qt x2'.st.stash) :
    ∀ c2 tr x2, tailFinish c1 ho = some (c2, tr, x2) →
      NI qt c2 ∧ (∀ n ∈ tr, NI qt n) ∧ StashQ qt x2.st.stash := by
  intro c2 tr x2 he
  cases ho with
  | none => cases he
  | some r =>
    obtain ⟨data, x2'⟩ := r
    have hx' := hh data x2' rfl
    simp only [tailFinish] at he
    cases hp : ppTop x2'.st data c1.tailAtomic (mkEl "d") false with
    | none => rw [hp] at he; cases he
    | some q =>
      obtain ⟨tr', dumby⟩ := q
      rw [hp] at he
      injection he with he
      injection he with h1' he
      injection he with h2' h3'
      subst h1'; subst h2'; subst h3'
      have := ppTop_tags hx' (NI_mkEl' hq (tag := "d") (by decide)) hp
      refine ⟨?_, this.1, hx'⟩
      split
      · exact NI_tail hc1 _ _
      · exact NI_tail hc1 _ _

theorem tailStageX_tags (hq : NonDivOk qt) (xc : XCfg) (c1 : Node) (x1 : XSt) (hc1 : NI qt c1)
    (hx1 : StashQ qt x1.st.stash) {c2 : Node} {tr : List Node} {x2 : XSt}
    (h : tailStageX xc c1 x1 = some (c2, tr, x2)) :
    NI qt c2 ∧ (∀ n ∈ tr, NI qt n) ∧ StashQ qt x2.st.stash := by
  simp only [tailStageX] at h
  split at h
  · by_cases hat : c1.tailAtomic = true
    · rw [if_pos hat] at h
      exact tailFinish_tags hq c1 hc1 _ (by
        intro data x2' hh
        injection hh with hh
        injection hh with _ e2
        subst e2
        exact hx1) _ _ _ h
    · rw [if_neg hat] at h
      exact tailFinish_tags hq c1 hc1 _ (fun data x2' hh => handleInlineTopX_tags hq xc _ x1 hx1 hh) _ _ _ h
  · injection h with h
    injection h with h1' h
    injection h with h2' h3'
    subst h1'; subst h2'; subst h3'
    exact ⟨hc1, (by intro n hn; cases hn), hx1⟩

theorem visitChildX_tags (hq : NonDivOk qt) (xc : XCfg) (child : Node) (v : VisitX) (hch : NI qt child)
    (hv : StashQ qt v.x.st.stash) {k : Node} {tr : List Node} {v' : VisitX}
    (h : visitChildX xc child v = some (k, tr, v')) :
    NI qt k ∧ (∀ n ∈ tr, NI qt n) ∧ StashQ qt v'.x.st.stash ∧ v'.done = v.done := by
  rw [visitChildX_stages] at h
  cases h1 : textStageX xc child v.x with
  | none => rw [h1] at h; cases h
  | some r1 =>
    obtain ⟨c1, lst, x1⟩ := r1
    rw [h1] at h
    simp only [] at h
    obtain ⟨hc1, hlst, hx1⟩ := textStageX_tags hq xc child v.x hch hv h1
    cases h2 : tailStageX xc c1 x1 with
    | none => rw [h2] at h; cases h
    | some r2 =>
      obtain ⟨c2, tr2, x2⟩ := r2
      rw [h2] at h
      obtain ⟨hc2, htr, hx2⟩ := tailStageX_tags hq xc c1 x1 hc1 hx1 h2
      injection h with h
      injection h with h1' h
      injection h with h2' h3'
      subst h1'; subst h2'; subst h3'
      refine ⟨?_, htr, hx2, rfl⟩
      apply NI_children hc2
      intro n hn
      rcases List.mem_append.mp hn with hn | hn
      · exact hlst n hn
      · exact NI_kids hc2 n hn

theorem visitLoopX_tags (hq : NonDivOk qt) (xc : XCfg) : ∀ (g : Nat) (todo : List (Node × Option Nat)) (v : VisitX),
    (∀ t ∈ todo, NI qt t.1) → (∀ n ∈ v.done, NI qt n) → StashQ qt v.x.st.stash →
    ∀ {v' : VisitX}, visitLoopX xc g todo v = some v' → (∀ n ∈ v'.done, NI qt n) ∧ StashQ qt v'.x.st.stash := by
  intro g
  induction g with
  | zero => intro todo v _ _ _ v' h; simp only [visitLoopX] at h; cases h
  | succ g ih =>
    intro todo v ht hdone hv v' h
    cases todo with
    | nil =>
      simp only [visitLoopX] at h
      injection h with h
      exact h ▸ ⟨hdone, hv⟩
    | cons hd todo =>
      obtain ⟨child, orig⟩ := hd
      simp only [visitLoopX] at h
      cases h1 : visitChildX xc child v with
      | none => rw [h1] at h; cases h
      | some r =>
        obtain ⟨k, tr, v1⟩ := r
        rw [h1] at h
        simp only [] at h
        obtain ⟨hk, htr, hv1, hd1⟩ := visitChildX_tags hq xc child v (ht (child, orig) List.mem_cons_self) hv h1
        apply ih _ _ ?_ ?_ ?_ h
        · intro t htm
          rcases List.mem_append.mp htm with htm | htm
          · obtain ⟨n, hn, rfl⟩ := List.mem_map.mp htm
            exact htr n hn
          · exact ht t (List.mem_cons_of_mem _ htm)
        · intro n hn
          rcases List.mem_cons.mp hn with hn | hn
          · exact hn ▸ hk
          · exact hdone n (hd1 ▸ hn)
        · exact hv1

theorem getAt_tags : ∀ (p : Path) {root cur : Node}, NI qt root → getAt root p = some cur → NI qt cur := by
  intro p
  induction p with
  | nil => intro root cur h e; simp only [getAt] at e; cases e; exact h
  | cons i p ih =>
    intro root cur h e
    simp only [getAt] at e
    split at e
    · rename_i k hk
      exact ih (NI_kids h k (List.mem_of_getElem? hk)) e
    · cases e

theorem setAt_tags : ∀ (p : Path) {root new : Node}, NI qt root → NI qt new → NI qt (setAt root p new) := by
  intro p
  induction p with
  | nil => intro root new _ hn; exact hn
  | cons i p ih =>
    intro root new h hn
    simp only [setAt]
    split
    · rename_i k hk
      apply NI_children h
      intro m hm
      rcases List.mem_or_eq_of_mem_set hm with hm | hm
      · exact NI_kids h m hm
      · exact hm ▸ ih (NI_kids h k (List.mem_of_getElem? hk)) hn
    · exact h

theorem withIdx_tags : ∀ (l : List Node) (i : Nat), (∀ n ∈ l, NI qt n) → ∀ t ∈ withIdx l i, NI qt t.1 := by
  intro l
  induction l with
  | nil => intro i _ t ht; simp [withIdx] at ht
  | cons n r ih =>
    intro i hl t ht
    simp only [withIdx, List.mem_cons] at ht
    rcases ht with ht | ht
    · rw [ht]; exact hl n List.mem_cons_self
    · exact ih (i + 1) (fun m hm => hl m (List.mem_cons_of_mem _ hm)) t ht

theorem runLoopX_tags (hq : NonDivOk qt) (xc : XCfg) (g2 : Nat) : ∀ (g : Nat) (root : Node) (stack : List Path)
    (x : XSt), NI qt root → StashQ qt x.st.stash →
    ∀ {r : Node} {x' : XSt}, runLoopX xc g2 g root stack x = some (r, x') → NI qt r ∧ StashQ qt x'.st.stash := by
  intro g
  induction g with
  | zero => intro root stack x _ _ r x' h; simp only [runLoopX] at h; cases h
  | succ g ih =>
    intro root stack x hr hx r x' h
    cases stack with
    | nil =>
      simp only [runLoopX] at h
      injection h with h
      injection h with h1 h2
      subst h1; subst h2
      exact ⟨hr, hx⟩
    | cons p stack =>
      simp only [runLoopX] at h
      cases hg : getAt root p with
      | none => rw [hg] at h; exact ih _ _ _ hr hx h
      | some cur =>
        rw [hg] at h
        simp only [] at h
        have hcur := getAt_tags p hr hg
        cases hv : visitLoopX xc g2 (withIdx cur.children 0) { x := x } with
        | none => rw [hv] at h; cases h
        | some v =>
          rw [hv] at h
          simp only [] at h
          obtain ⟨hdone, hvx⟩ := visitLoopX_tags hq xc g2 (withIdx cur.children 0) { x := x }
            (withIdx_tags _ 0 (NI_kids hcur)) (by intro n hn; cases hn) hx hv
          apply ih _ _ _ ?_ hvx h
          apply setAt_tags p hr
          apply NI_children hcur
          intro n hn
          exact hdone n (List.mem_reverse.mp hn)

/-- the inline stage makes no `div` and keeps the tags and attributes of the elements it finds -/
theorem runX_tags (hq : NonDivOk qt) (xc : XCfg) (tree : Node) (html : List Str) (ht : NI qt tree)
    {r : Node} {x' : XSt} (h : runX xc tree html = some (r, x')) : NI qt r := by
  simp only [runX] at h
  exact (runLoopX_tags hq xc _ _ tree [[]] { st := { html := html } } ht (by intro it hit; cases hit) h).1

end MdVerif.InlineX
