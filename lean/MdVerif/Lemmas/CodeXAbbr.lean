/-
Helper lemmas for C03 with extensions enabled (`Props/C03X.lean`), continued: an abbreviation DEFINITION followed by an
indented code block, with `abbr` (and any other extensions) enabled — the abbreviation table is not empty when
`AbbrTreeprocessor` runs, the abbreviation may occur in the code, and the code stays literal.  Core Lean only.

T. the abbreviation definition line (`abbrDef`, `abbrAt_def`, `abbrP_def`, `dispatchXT_abbrDef`)
U. the block parser, the tree processors (`parseDocumentXT_abbrCode`, `abbr_codeTreeP`, `treeStages_codeTreeA`)
V. `convertX_abbrCode`
-/
import MdVerif.Lemmas.CodeXAtomic

namespace MdVerif.CodeX
open Py Block BlockExt CodeLaw Pipeline PipelineX

/-! ### T. the definition line -/

/-- `*[K]: T` -/
def abbrDef (K T : Str) : Str := '*' :: '[' :: (K ++ ']' :: ':' :: ' ' :: T)

/-- a word of ASCII letters, not empty -/
def isLetters (s : Str) : Bool := s.all isAsciiAlpha && !s.isEmpty

theorem isLetters_spec {s : Str} (h : isLetters s = true) : (∀ c ∈ s, isAsciiAlpha c = true) ∧ s ≠ [] := by
  simp only [isLetters, Bool.and_eq_true, List.all_eq_true, Bool.not_eq_true', List.isEmpty_eq_false_iff] at h
  exact h

theorem abbrClose_def (K r : Str) (hK : ∀ c ∈ K, isAsciiAlpha c = true) :
    ∀ i, abbrClose i (K ++ ']' :: ':' :: r) = some (i + K.length) := by
  induction K with
  | nil => intro i; simp [abbrClose, startsWith]
  | cons c K ih =>
    intro i
    have hc := hK c List.mem_cons_self
    have h1 : c ≠ ']' := alpha_ne hc (by decide)
    have h2 : c ≠ '\\' := alpha_ne hc (by decide)
    simp only [List.cons_append, abbrClose, h1, decide_false, Bool.false_and, Bool.false_eq_true, if_false, h2]
    rw [ih (fun d hd => hK d (List.mem_cons_of_mem _ hd))]
    simp; omega

theorem takeWhile_notNl_letters (T : Str) (hT : ∀ c ∈ T, isAsciiAlpha c = true) : T.takeWhile notNl = T := by
  induction T with
  | nil => rfl
  | cons c r ih =>
    have : c ≠ '\n' := alpha_ne (hT c List.mem_cons_self) (by decide)
    have hb : (c != '\n') = true := by simpa using this
    simp [List.takeWhile, notNl, hb, ih (fun d hd => hT d (List.mem_cons_of_mem _ hd))]

open Escape in
theorem countSp_letters (T : Str) (hT : ∀ c ∈ T, isAsciiAlpha c = true) : countSp T = 0 := by
  cases T with
  | nil => rfl
  | cons c r =>
    have : c ≠ ' ' := alpha_ne (hT c List.mem_cons_self) (by decide)
    exact countPrefix_eq_zero (by simpa using this) _

theorem strip_letters (T : Str) (hT : ∀ c ∈ T, isAsciiAlpha c = true) : strip T = T := by
  apply strip_eq_self
  · intro c hc
    exact alpha_not_space (hT c (List.mem_of_mem_head? hc))
  · intro c hc
    exact alpha_not_space (hT c (List.mem_of_getLast? hc))

/-- the abbreviation pattern on the definition line -/
theorem abbrAt_def (K T : Str) (hK : ∀ c ∈ K, isAsciiAlpha c = true) (hT : ∀ c ∈ T, isAsciiAlpha c = true) :
    abbrAt (abbrDef K T) = some (K, T, (abbrDef K T).length) := by
  have hcl := abbrClose_def K (' ' :: T) hK 0
  have hd : (K ++ ']' :: ':' :: ' ' :: T).drop (0 + K.length + 1) = ':' :: ' ' :: T := by
    rw [show K ++ ']' :: ':' :: ' ' :: T = (K ++ [']']) ++ ':' :: ' ' :: T by simp]
    exact List.drop_left' (by simp)
  have ht : (K ++ ']' :: ':' :: ' ' :: T).take (0 + K.length) = K := by simp
  have hsp : countSp (' ' :: T) = 1 := by
    have := countSp_letters T hT
    simp only [countSp] at this ⊢
    cases T with
    | nil => rfl
    | cons c r =>
      have hc : c ≠ ' ' := alpha_ne (hT c List.mem_cons_self) (by decide)
      simp [countPrefix, hc]
  have hnl : startsWith T ['\n'] = false := by
    cases T with
    | nil => rfl
    | cons c r =>
      have hc : c ≠ '\n' := alpha_ne (hT c List.mem_cons_self) (by decide)
      simp [startsWith, hc]
  simp only [abbrAt, abbrDef, startsWith, List.drop_succ_cons, List.drop_zero, hcl, hd, ht,
    show startsWith (':' :: ' ' :: T) [' '] = false by simp [startsWith], Bool.false_eq_true, if_false, if_true,
    hsp, List.drop_one, List.tail_cons, hnl, Nat.add_zero, countSp_letters T hT,
    takeWhile_notNl_letters T hT, beq_self_eq_true, Bool.and_self, Bool.true_and, List.drop_succ_cons]
  simp; omega

theorem abKey_notFn (K : Str) (v : Str × Option Str) : isFnEntry (abKey K, v) = false := by
  simp [isFnEntry, abKey, startsWith]

/-- `AbbrBlockprocessor.run` on the definition line: the abbreviation is written to the table, nothing else -/
theorem abbrP_def (refs : Refs) (K T : Str) (rest : List Str) (hK : isLetters K = true) (hT : isLetters T = true) :
    abbrP refs (abbrDef K T) rest = .ok (refs ++ [(abKey K, (T, none))], rest) := by
  obtain ⟨hK1, hK2⟩ := isLetters_spec hK
  obtain ⟨hT1, hT2⟩ := isLetters_spec hT
  have hs : abbrSearch (abbrDef K T) = some (0, K, T, (abbrDef K T).length) :=
    RenderX.lineSearch_line_some _ _ _ (abbrAt_def K T hK1 hT1) (by simp [abbrDef])
  have hq1 : T ≠ ['\'', '\''] := by
    intro e
    have := hT1 '\'' (by rw [e]; simp)
    revert this; decide
  have hq2 : T ≠ ['"', '"'] := by
    intro e
    have := hT1 '"' (by rw [e]; simp)
    revert this; decide
  have hTe : T.isEmpty = false := by cases T <;> simp_all
  have hKe : K.isEmpty = false := by cases K <;> simp_all
  simp only [abbrP, hs, strip_letters K hK1, strip_letters T hT1, hTe, hKe, Bool.or_self, Bool.false_eq_true, if_false,
    Nat.zero_add, List.drop_length, List.take_zero, hq1, hq2, false_or]
  simp [isBlank]

open Escape in
theorem hashAt_none_of_head (c : Char) (r : Str) (hc : c ≠ '#') : hashAt (c :: r) = none := by
  have h0 : countPrefix '#' (some 6) (c :: r) = 0 := countPrefix_eq_zero (by simpa using hc) _
  simp [hashAt, h0, firstDown, firstDownFrom]

open FencedPipe RenderX Escape in
/-- **the abbreviation definition line reaches `AbbrBlockprocessor`** (whatever else is enabled) and leaves nothing in
    the tree -/
theorem dispatchXT_abbrDef (tables : Bool) (cfg : XCfg) (hab : cfg.abbr = true) (tab : Nat) (htab : 0 < tab) (pb : PB)
    (refs : Refs) (parent : Node) (K T : Str) (rest : List Str) (hK : isLetters K = true) (hT : isLetters T = true)
    (hadm : ∀ sib, parent.last? = some sib → isAdmDiv sib = false) :
    dispatchXT tables cfg tab pb [] refs parent (abbrDef K T) rest =
      some (parent, refs ++ [(abKey K, (T, none))], rest) := by
  obtain ⟨hK1, hK2⟩ := isLetters_spec hK
  obtain ⟨hT1, hT2⟩ := isLetters_spec hT
  have hnl : '\n' ∉ abbrDef K T := by
    intro hm
    simp only [abbrDef, List.mem_cons, List.mem_append] at hm
    rcases hm with h | h | h | h | h | h | h
    · revert h; decide
    · revert h; decide
    · exact alpha_ne (hK1 _ h) (by decide) rfl
    · revert h; decide
    · revert h; decide
    · revert h; decide
    · exact alpha_ne (hT1 _ h) (by decide) rfl
  obtain ⟨r, hr⟩ : ∃ r, abbrDef K T = '*' :: '[' :: r := ⟨_, rfl⟩
  obtain ⟨n, rfl⟩ : ∃ n, tab = n + 1 := ⟨tab - 1, by omega⟩
  have hA : (if cfg.admonition then admTest (n + 1) parent (abbrDef K T) else none) = none := by
    split
    · refine admTest_noBang (lineHeads_line _ _ hnl (fun d hd => ?_)) hadm
      rw [hr] at hd
      simp only [List.head?_cons, Option.some.injEq] at hd
      subst hd; rfl
    · rfl
  have hT' : (if tables then Tables.tableTest (abbrDef K T) else none) = none := by
    split
    · exact tableTest_line _ hnl
    · rfl
  rw [hr] at hnl hA hT' ⊢
  have e1 : (('*' :: '[' :: r).isEmpty || startsWith ('*' :: '[' :: r) ['\n']) = false := by simp [startsWith]
  have e2 : startsWith ('*' :: '[' :: r) (spaces (n + 1)) = false := by simp [spaces, List.replicate_succ]
  have e3 : setextMatch ('*' :: '[' :: r) = false := by
    have : find ['\n'] ('*' :: '[' :: r) = none := by
      rw [find_none_iff]; intro pre post e; apply hnl; rw [e]; simp
    simp [setextMatch, this]
  have e4 : ∀ ol ul, listItemMatch (n + 1) ol ul ('*' :: '[' :: r) = none := by
    intro ol ul
    have h0 : countPrefix ' ' (some (n + 1 - 1)) ('*' :: '[' :: r) = 0 := countPrefix_eq_zero (by simp) _
    have ho : olMarker ('*' :: '[' :: r) = none := by simp [olMarker, spanLen, show isDecimal '*' = false by decide]
    have hu : ulMarker ('*' :: '[' :: r) = some (['*'], '[' :: r) := by simp [ulMarker]
    have hsp : countSp ('[' :: r) = 0 := countPrefix_eq_zero (by simp) _
    simp only [listItemMatch, h0, List.drop_zero, ho, hu, hsp]
    cases ol <;> cases ul <;> rfl
  have e5 : hashSearch ('*' :: '[' :: r) = none := by
    simp only [hashSearch, hashAt_none_of_head '*' _ (by decide),
      hashSearchNl_eq_none (esc := lineEsc) (by decide) _ (startsOkNl_of_no_nl _ _ hnl)]
  have e6 : hrSearch ('*' :: '[' :: r) = none := by
    have hl : lines ('*' :: '[' :: r) = ['*' :: '[' :: r] := by
      simp only [lines]; exact splitC_of_no_sep hnl
    have h0 : countPrefix ' ' (some 3) ('*' :: '[' :: r) = 0 := countPrefix_eq_zero (by simp) _
    simp [hrSearch, hl, hrSearchLines, hrLine, h0, hrScan]
  have e7 : quoteSearch ('*' :: '[' :: r) = none := by
    have h0 : countPrefix ' ' (some 3) ('*' :: '[' :: r) = 0 := countPrefix_eq_zero (by simp) _
    have hq : quoteLine ('*' :: '[' :: r) = none := by simp [quoteLine, h0]
    simp only [quoteSearch, hq, Option.isSome_none, Bool.false_eq_true, if_false,
      quoteSearchNl_eq_none (esc := lineEsc) (by decide) _ (startsOkNl_of_no_nl _ _ hnl)]
  have hdef : defSearch ('*' :: '[' :: r) = none := by
    apply defSearch_line_none _ hnl
    have h0 : countPrefix ' ' (some 3) ('*' :: '[' :: r) = 0 := countPrefix_eq_zero (by simp) _
    simp [defAt, h0]
  have hfn : footnoteP refs ('*' :: '[' :: r) rest = none := by
    have : fnSearch ('*' :: '[' :: r) = none := by
      apply lineSearch_line_none _ _ hnl _ (by simp)
      have h0 : countPrefix ' ' (some 3) ('*' :: '[' :: r) = 0 := countPrefix_eq_zero (by simp) _
      simp [fnAt, h0, startsWith]
    simp only [footnoteP, this]
  have habp := abbrP_def refs K T rest hK hT
  rw [hr] at habp
  unfold dispatchXT
  rw [hA]
  simp only [tailEmptyT, e1, e2, indentTestX, hT', e3, e5, e6, tailList, e4, tailDef, hdef, tailQuote, e7,
    tailFootnote, hfn, tailAbbr, hab, habp, Bool.false_eq_true, if_false, if_true, Bool.false_and,
    Bool.and_false, Option.isSome_none, ite_self]

/-! ### U. the block parser and the tree processors -/

theorem abbrDef_shape (K T : Str) : ∃ r, abbrDef K T = '*' :: r := ⟨_, rfl⟩

theorem abbrDef_no_nl (K T : Str) (hK : isLetters K = true) (hT : isLetters T = true) : '\n' ∉ abbrDef K T := by
  obtain ⟨hK1, _⟩ := isLetters_spec hK
  obtain ⟨hT1, _⟩ := isLetters_spec hT
  intro hm
  simp only [abbrDef, List.mem_cons, List.mem_append] at hm
  rcases hm with h | h | h | h | h | h | h
  · revert h; decide
  · revert h; decide
  · exact alpha_ne (hK1 _ h) (by decide) rfl
  · revert h; decide
  · revert h; decide
  · revert h; decide
  · exact alpha_ne (hT1 _ h) (by decide) rfl

open FencedPipe Escape Fuel in
/-- the extended block parser on an abbreviation definition followed by a code block: the tree of the code block
    alone; the definition is in the log -/
theorem parseDocumentXT_abbrCode (tables : Bool) (cfg : XCfg) (hab : cfg.abbr = true) (tab : Nat) (htab : 0 < tab)
    (K T : Str) (hK : isLetters K = true) (hT : isLetters T = true)
    (first : List Str) (more : List (Nat × List Str)) (h1 : RunOk first) (h : ∀ er ∈ more, RunOk er.2) :
    parseDocumentXT tables cfg tab (paraCodeSource tab (abbrDef K T) first more ++ ['\n', '\n']) =
      some ((Node.el "div").append (codePre (codeAccum first more ++ ['\n', '\n'])), [(abKey K, (T, none))]) := by
  have hnl := abbrDef_no_nl K T hK hT
  obtain ⟨f, hf⟩ := parse_codeBlockX tables cfg tab htab [(abKey K, (T, none))] (Node.el "div") parentOk_div
    (fun sib hs => by simp [Node.last?, Node.el] at hs) first more h1 h
  have key : parseBlocksXT tables cfg tab (f + 1) [] [] (Node.el "div")
      (splitS ['\n', '\n'] (paraCodeSource tab (abbrDef K T) first more ++ ['\n', '\n'])) =
      some ((Node.el "div").append (codePre (codeAccum first more ++ ['\n', '\n'])), [(abKey K, (T, none))]) := by
    have e : paraCodeSource tab (abbrDef K T) first more ++ ['\n', '\n'] =
        abbrDef K T ++ '\n' :: '\n' :: (codeSource tab first more ++ ['\n', '\n']) := by
      simp [paraCodeSource]
    have hsp := splitS_codeSource tab first more h1 h
    have htight : noEmptyLineFrom true (abbrDef K T) = true := by
      obtain ⟨r, hr⟩ := abbrDef_shape K T
      rw [hr] at hnl ⊢
      exact noEmptyLine_of_no_nl _ _ hnl
    simp only [splitS] at hsp ⊢
    rw [e, splitAux_tight true _ htight, hsp, parseBlocksXT_step,
      dispatchXT_abbrDef tables cfg hab tab htab _ [] _ K T _ hK hT (fun sib hs => by simp [Node.last?, Node.el] at hs)]
    exact hf
  obtain ⟨res, hr⟩ := Option.isSome_iff_exists.1
    (parseDocumentXT_total tables cfg tab (fun _ => htab) (paraCodeSource tab (abbrDef K T) first more ++ ['\n', '\n']))
  rw [hr]
  simp only [parseDocumentXT, parseChunk] at hr
  have a1 := parseBlocksXT_fuel_mono (fuelForX (paraCodeSource tab (abbrDef K T) first more ++ ['\n', '\n']).length) key
  have a2 := parseBlocksXT_fuel_mono (f + 1) hr
  rw [Nat.add_comm] at a2
  rw [a2] at a1
  exact a1

/-- **`AbbrTreeprocessor` on the tree of a code block, ANY abbreviation table**: nothing changes — the only strings
    it reads are the `"\n"` texts and tails; the code is an `AtomicString` -/
theorem abbr_codeTreeP (abbrs : List (Str × Str)) (t : Str) : AbbrTree.run abbrs (codeTreeP t) = codeTreeP t := by
  unfold AbbrTree.run
  split
  · rfl
  · have hw : isWord '\n' = false := by decide
    rw [codeTreeP_eq]
    simp [AbbrTree.abbrNode, AbbrTree.abbrKids, AbbrTree.segs, AbbrTree.abbrAt, AbbrTree.boundary, AbbrTree.isW,
      Node.truthy, hw]

/-- the tree processors between the inline stage and the serializer on a code block, any abbreviation table -/
theorem treeStages_codeTreeA (x : Exts) (tab : Nat) (fmt : Ser.Fmt) (t : Str) (abbrs : List (Str × Str))
    (post : Str → Option Str) :
    (let u := TreeProc.prettify ((Node.el "div").append (codePre t)) ({ tab := tab, fmt := fmt } : Pipeline.Cfg).blockLevel
     let u := if x.attrList then AttrListTree.run ({ tab := tab, fmt := fmt } : Pipeline.Cfg).blockLevel u else u
     let u := if x.abbr then AbbrTree.run abbrs u else u
     let tocStage : TocTree.R Node :=
       if x.toc then
         TocTree.run { fmt := ({ tab := tab, fmt := fmt } : Pipeline.Cfg).fmt, post := post }
           ({ tab := tab, fmt := fmt } : Pipeline.Cfg).blockLevel u
       else .ok u
     tocStage) = .ok (codeTreeP (rstrip t ++ ['\n'])) := by
  have h1 : TreeProc.prettify ((Node.el "div").append (codePre t)) ({ tab := tab, fmt := fmt } : Pipeline.Cfg).blockLevel =
      codeTreeP (rstrip t ++ ['\n']) := prettify_codeTree t
  have h2 : AttrListTree.run ({ tab := tab, fmt := fmt } : Pipeline.Cfg).blockLevel (codeTreeP (rstrip t ++ ['\n'])) =
      codeTreeP (rstrip t ++ ['\n']) := attrList_codeTreeP _
  have h3 : AbbrTree.run abbrs (codeTreeP (rstrip t ++ ['\n'])) = codeTreeP (rstrip t ++ ['\n']) := abbr_codeTreeP _ _
  have h4 : ∀ env, TocTree.run env ({ tab := tab, fmt := fmt } : Pipeline.Cfg).blockLevel (codeTreeP (rstrip t ++ ['\n'])) =
      .ok (codeTreeP (rstrip t ++ ['\n'])) := fun env => toc_codeTreeP env _
  simp only [h1]
  cases x.attrList <;> cases x.abbr <;> cases x.toc <;>
    simp only [Bool.false_eq_true, if_false, if_true, h2, h3, h4]

/-! ### V. `Markdown.convert` on an abbreviation definition followed by an indented code block -/

/-- **`Markdown.convert` with `abbr` and any of the other ten modelled extensions on `*[K]: T`, a blank line and an
    indented code block**: the definition leaves no output, the abbreviation table holds `K` when
    `AbbrTreeprocessor` runs, and the code block comes out as from the core pipeline — also when `K` occurs in it. -/
theorem convertX_abbrCode (x : Exts) (hab : x.abbr = true) (tab : Nat) (htab : 0 < tab) (fmt : Ser.Fmt) (K T : Str)
    (first : List Str) (more : List (Nat × List Str)) (hK : isLetters K = true) (hT : isLetters T = true)
    (h1 : isCodeRun first = true) (h2 : ∀ er ∈ more, isCodeRun er.2 = true)
    (hadm : (x.admonition && admNonAscii (paraCodeSource tab (abbrDef K T) first more ++ ['\n', '\n'])) = false) :
    convertX x { tab := tab, fmt := fmt } (paraCodeSource tab (abbrDef K T) first more) =
      .ok ("<pre><code>".toList ++ Code.codeEscape (trimSpec first more) ++ "\n</code></pre>".toList) := by
  obtain ⟨i1, r1, c1⟩ := isCodeRun_spec h1
  have hm : ∀ er ∈ more, RunInk er.2 ∧ RunRefs er.2 ∧ ∀ l ∈ er.2, ∀ c ∈ l, isCodeChar c = true :=
    fun er her => isCodeRun_spec (h2 er her)
  obtain ⟨hK1, hK2⟩ := isLetters_spec hK
  obtain ⟨hT1, hT2⟩ := isLetters_spec hT
  have hpnl := abbrDef_no_nl K T hK hT
  -- the characters of the definition line
  have hdchars : ∀ c ∈ abbrDef K T, c ≠ '<' ∧ c ≠ '\r' ∧ c ≠ '\t' ∧ c ≠ Char.ofNat 2 ∧ c ≠ Char.ofNat 3 ∧ c ≠ '&' := by
    intro c hc
    simp only [abbrDef, List.mem_cons, List.mem_append] at hc
    have hal : ∀ d, isAsciiAlpha d = true →
        d ≠ '<' ∧ d ≠ '\r' ∧ d ≠ '\t' ∧ d ≠ Char.ofNat 2 ∧ d ≠ Char.ofNat 3 ∧ d ≠ '&' := fun d hd =>
      ⟨alpha_ne hd (by decide), alpha_ne hd (by decide), alpha_ne hd (by decide), alpha_ne hd (by decide),
        alpha_ne hd (by decide), alpha_ne hd (by decide)⟩
    rcases hc with rfl | rfl | h | rfl | rfl | rfl | h
    · decide
    · decide
    · exact hal c (hK1 c h)
    · decide
    · decide
    · decide
    · exact hal c (hT1 c h)
  have hchars : ∀ c ∈ paraCodeSource tab (abbrDef K T) first more,
      c ≠ '<' ∧ c ≠ '\r' ∧ c ≠ '\t' ∧ c ≠ Char.ofNat 2 ∧ c ≠ Char.ofNat 3 := by
    intro c hc
    simp only [paraCodeSource, List.mem_append, List.mem_cons] at hc
    rcases hc with hc | rfl | rfl | hc
    · obtain ⟨a1, a2, a3, a4, a5, _⟩ := hdchars c hc; exact ⟨a1, a2, a3, a4, a5⟩
    · decide
    · decide
    · rcases mem_codeSource hc with rfl | rfl | ⟨l, hl, hcl⟩ | ⟨er, her, l, hl, hcl⟩
      · decide
      · decide
      · obtain ⟨a1, _, a3, a4, a5, a6⟩ := isCodeChar_spec (c1 l hl c hcl); exact ⟨a1, a3, a4, a5, a6⟩
      · obtain ⟨a1, _, a3, a4, a5, a6⟩ := isCodeChar_spec ((hm er her).2.2 l hl c hcl); exact ⟨a1, a3, a4, a5, a6⟩
  have hlt : (paraCodeSource tab (abbrDef K T) first more).contains '<' = false := by
    rw [Bool.eq_false_iff]; intro hc
    exact (hchars '<' (by simpa using hc)).1 rfl
  have hblank : Normalize.isBlankDoc (paraCodeSource tab (abbrDef K T) first more) = false := by
    rw [Normalize.isBlankDoc_eq_all]; simp [paraCodeSource, abbrDef, isSpace]
  have e : paraCodeSource tab (abbrDef K T) first more ++ ['\n', '\n'] =
      abbrDef K T ++ '\n' :: '\n' :: (codeSource tab first more ++ ['\n', '\n']) := by
    simp [paraCodeSource]
  obtain ⟨r0, hr0⟩ := abbrDef_shape K T
  have hnorm : Normalize.normalize tab (paraCodeSource tab (abbrDef K T) first more) =
      paraCodeSource tab (abbrDef K T) first more ++ ['\n', '\n'] :=
    normalize_of_clean tab _ (fun c hc => by
      obtain ⟨_, a2, a3, a4, a5⟩ := hchars c hc; exact ⟨a4, a5, a2, a3⟩)
      (by rw [e, hr0, ws_some_line_of_head '*' r0 _ (hr0 ▸ hpnl) (by decide), Normalize.wsLinesAux_nl,
            ws_codeSource_some tab first more i1 (fun er her => (hm er her).1)])
  have hrc : refsClosed (paraCodeSource tab (abbrDef K T) first more ++ ['\n', '\n']) = true := by
    rw [e]
    apply refsClosed_append _ '\n' _ (by decide)
      (refsClosed_of_no_amp _ (fun hm' => (hdchars _ hm').2.2.2.2.2 rfl))
    apply refsClosed_cons_of_ne (by decide)
    apply refsClosed_cons_of_ne (by decide)
    exact refsClosed_codeSource tab first more r1 (fun er her => (hm er her).2.1)
  have hfence : Fenced.fenceFindFrom (paraCodeSource tab (abbrDef K T) first more ++ ['\n', '\n']) 0 = none := by
    apply fenceFindFrom_noFence
    apply noFenceLine_of_heads
    rw [e, lineHeads_append_nl _ (by decide), lineHeads_nl _ (by decide),
      lineHeads_codeSource isFenceCh (by decide) (by decide) tab htab first more i1.ok (fun er her => (hm er her).1.ok),
      lineHeads_line _ _ hpnl (fun d hd => by
        rw [hr0] at hd
        simp only [List.head?_cons, Option.some.injEq] at hd
        subst hd; rfl)]
    rfl
  have hprep : prepareX x { tab := tab, fmt := fmt } (paraCodeSource tab (abbrDef K T) first more) =
      .ok (paraCodeSource tab (abbrDef K T) first more ++ ['\n', '\n'], []) :=
    prepareX_plain x tab fmt _ _ hnorm hadm hfence hrc
  have hfo : BlockExt.footnotesOf [(abKey K, (T, none))] = [] := by
    simp [BlockExt.footnotesOf, abKey_notFn]
  have hmk : ∀ pc : Block.Refs → Str → Option (Node × Block.Refs),
      FootnotesTree.makeDiv pc fnCount (BlockExt.footnotesOf [(abKey K, (T, none))]) [(abKey K, (T, none))] =
        .ok (none, [(abKey K, (T, none))]) := fun _ => by rw [hfo]; rfl
  have htree : treeX x { tab := tab, fmt := fmt } (paraCodeSource tab (abbrDef K T) first more) =
      .ok (codeTreeP (Code.codeEscape (trimSpec first more) ++ ['\n'])) [] := by
    unfold treeX
    rw [hprep]
    simp only
    rw [parseDocumentXT_abbrCode x.tables x.blockCfg hab tab htab K T hK hT first more i1.ok
      (fun er her => (hm er her).1.ok)]
    simp only [hmk, ite_self]
    rw [runX_codeTree]
    simp only
    have hdup : (if x.footnotes then FootnotesTree.duplicates Footnotes.State.empty
          ((Node.el "div").append (codePre (codeAccum first more ++ ['\n', '\n'])))
        else some ((Node.el "div").append (codePre (codeAccum first more ++ ['\n', '\n'])))) =
        some ((Node.el "div").append (codePre (codeAccum first more ++ ['\n', '\n']))) := by
      split
      · exact duplicates_codeTree _ _
      · rfl
    rw [hdup]
    simp only
    have hstages := treeStages_codeTreeA x tab fmt (codeAccum first more ++ ['\n', '\n'])
      (BlockExt.abbrsOf [(abKey K, (T, none))]) (postX x { tab := tab, fmt := fmt } [])
    simp only at hstages
    rw [hstages]
    simp only
    rw [prettified_codeAccum, unescape_codeTree]
  unfold convertX
  rw [hlt, hblank, htree]
  simp only [Exts.unsupported, Bool.false_eq_true, if_false]
  rw [serialize_codeTree _ _ (by simp)]
  rw [escCdata_code_nl]
  have hstx : Post.STX ∉ "\n<pre><code>".toList ++ (Code.codeEscape (trimSpec first more) ++ ['\n']) ++
      "</code></pre>\n".toList := by
    intro hmem
    simp only [List.mem_append] at hmem
    rcases hmem with (hmem | hmem | hmem) | hmem
    · revert hmem; decide
    · rcases mem_codeEscape hmem with hmem | hmem
      · rcases mem_trimSpec hmem with e | ⟨l, hl, hcl⟩ | ⟨er, her, l, hl, hcl⟩
        · revert e; decide
        · exact (isCodeChar_spec (c1 l hl _ hcl)).2.2.2.2.1 rfl
        · exact (isCodeChar_spec ((hm er her).2.2 l hl _ hcl)).2.2.2.2.1 rfl
      · revert hmem; decide
    · revert hmem; decide
    · revert hmem; decide
  rw [finishX_div _ _ _ hstx]
  have e' : "\n<pre><code>".toList ++ (Code.codeEscape (trimSpec first more) ++ ['\n']) ++ "</code></pre>\n".toList =
      '\n' :: '<' :: ("pre><code>".toList ++ Code.codeEscape (trimSpec first more) ++ "\n</code></pre".toList) ++
        ['>', '\n'] := by simp
  rw [e', strip_tagged]
  have e2 : strip ('<' :: ("pre><code>".toList ++ Code.codeEscape (trimSpec first more) ++ "\n</code></pre".toList) ++ ['>']) =
      '<' :: ("pre><code>".toList ++ Code.codeEscape (trimSpec first more) ++ "\n</code></pre".toList) ++ ['>'] := by
    apply strip_eq_self
    · intro c hc
      simp at hc; subst hc; decide
    · intro c hc
      rw [List.getLast?_append] at hc
      simp at hc; subst hc; decide
  rw [e2]
  simp

end MdVerif.CodeX
