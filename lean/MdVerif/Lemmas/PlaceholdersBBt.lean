/-
`BACKTICK_RE` on texts without a backslash immediately before a backtick (`NoAdj`): the `.bs` alternative never fires,
a match attempt at `j` succeeds exactly when a code span `Opens` at `j` (soundness and completeness of `btAt` with
respect to runs of backticks), and the consequences for the inline engine: the first match lies behind the last STX of
a `BtSafe` text, and replacing stretches by placeholder-like strings keeps `NoAdj`, `BtSafe`, `BtDone`.

Core Lean only.
-/
import MdVerif.Spec.NoCtlB
import MdVerif.Lemmas.PlaceholdersPat

namespace MdVerif.NoCtl
open Py Inline

/-! ### lists -/

/-- where a middle piece `w` of `u ++ w ++ v` lies with respect to a cut `A | B` -/
theorem append_eq_mid {α : Type} {A B u w v : List α} (h : A ++ B = u ++ w ++ v) :
    (∃ v', A = u ++ w ++ v' ∧ v = v' ++ B) ∨ (∃ u', B = u' ++ w ++ v ∧ u = A ++ u') ∨
      (∃ w1 w2, w = w1 ++ w2 ∧ w1 ≠ [] ∧ w2 ≠ [] ∧ A = u ++ w1 ∧ B = w2 ++ v) := by
  rw [List.append_assoc, List.append_eq_append_iff] at h
  rcases h with ⟨a', h1, h2⟩ | ⟨c', h1, h2⟩
  · exact Or.inr (Or.inl ⟨a', by rw [h2, List.append_assoc], h1⟩)
  · rw [List.append_eq_append_iff] at h2
    rcases h2 with ⟨a'', h3, h4⟩ | ⟨c'', h3, h4⟩
    · exact Or.inl ⟨a'', by rw [h1, h3, List.append_assoc], h4⟩
    · by_cases e1 : c' = []
      · subst e1
        refine Or.inr (Or.inl ⟨[], ?_, by simpa using h1.symm⟩)
        simp only [List.nil_append] at h3
        rw [h4, h3]; simp
      · by_cases e2 : c'' = []
        · subst e2
          refine Or.inl ⟨[], ?_, by simpa using h4.symm⟩
          simp only [List.append_nil] at h3
          rw [h1, h3]; simp
        · exact Or.inr (Or.inr ⟨c', c'', h3, e1, e2, h1, h4⟩)

theorem head?_of_take_replicate {x : Str} {m : Nat} {ch : Char} (hm : 1 ≤ m) (h : x.take m = List.replicate m ch) :
    x.head? = some ch := by
  obtain ⟨k, rfl⟩ : ∃ k, m = k + 1 := ⟨m - 1, by omega⟩
  cases x with
  | nil => simp [List.replicate_succ] at h
  | cons c s =>
    simp only [List.take_succ_cons, List.replicate_succ, List.cons.injEq] at h
    simp [h.1]

theorem head?_replicate_append {m : Nat} {ch : Char} (hm : 1 ≤ m) (y : Str) :
    (List.replicate m ch ++ y).head? = some ch := by
  obtain ⟨k, rfl⟩ : ∃ k, m = k + 1 := ⟨m - 1, by omega⟩
  simp [List.replicate_succ]

theorem getLast?_append_replicate {m : Nat} {ch : Char} (hm : 1 ≤ m) (y : Str) :
    (y ++ List.replicate m ch).getLast? = some ch := by
  obtain ⟨k, rfl⟩ : ∃ k, m = k + 1 := ⟨m - 1, by omega⟩
  rw [List.replicate_succ', ← List.append_assoc, List.getLast?_concat]

theorem head?_ne_of_not_mem {t : Str} {c : Char} (h : c ∉ t) : t.head? ≠ some c := by
  intro e
  exact h (List.mem_of_mem_head? e)

theorem getLast?_ne_of_not_mem {t : Str} {c : Char} (h : c ∉ t) : t.getLast? ≠ some c := by
  intro e
  exact h (List.mem_of_mem_getLast? e)

theorem head?_append_ne {a b : Str} {c : Char} (ha : a ≠ []) (h : a.head? ≠ some c) : (a ++ b).head? ≠ some c := by
  cases a with
  | nil => exact absurd rfl ha
  | cons d a => simpa using h

theorem getLast?_append_ne {a b : Str} {c : Char} (hb : b ≠ []) (h : b.getLast? ≠ some c) :
    (a ++ b).getLast? ≠ some c := by
  rw [List.getLast?_append]
  cases hb' : b.getLast? with
  | none => exact absurd (List.getLast?_eq_none_iff.1 hb') hb
  | some d => rw [hb'] at h; simpa using h

theorem getLast?_suffix_ne {a b : Str} {c : Char} (h : (a ++ b).getLast? ≠ some c) : b.getLast? ≠ some c := by
  intro e
  apply h
  rw [List.getLast?_append, e]; rfl

theorem head?_prefix_ne {a b : Str} {c : Char} (h : (a ++ b).head? ≠ some c) : a.head? ≠ some c := by
  intro e
  apply h
  rw [List.head?_append, e]; rfl

/-! ### `countPrefix` without limit -/

theorem cpn_cons_self (ch : Char) (s : Str) : countPrefix ch none (ch :: s) = countPrefix ch none s + 1 := by
  simp [countPrefix]

theorem cpn_cons_ne {ch c : Char} (h : c ≠ ch) (s : Str) : countPrefix ch none (c :: s) = 0 := by
  simp [countPrefix, h]

theorem cpn_replicate_append (ch : Char) (m : Nat) {v : Str} (hv : v.head? ≠ some ch) :
    countPrefix ch none (List.replicate m ch ++ v) = m := by
  induction m with
  | zero =>
    cases v with
    | nil => simp
    | cons c v => exact cpn_cons_ne (by simpa using hv) v
  | succ k ih => rw [List.replicate_succ, List.cons_append, cpn_cons_self, ih]

theorem cpn_decomp (ch : Char) (x : Str) :
    ∃ v, x = List.replicate (countPrefix ch none x) ch ++ v ∧ v.head? ≠ some ch := by
  induction x with
  | nil => exact ⟨[], by simp, by simp⟩
  | cons c s ih =>
    by_cases h : c = ch
    · subst h
      obtain ⟨v, h1, h2⟩ := ih
      refine ⟨v, ?_, h2⟩
      rw [cpn_cons_self, List.replicate_succ, List.cons_append, ← h1]
    · exact ⟨c :: s, by rw [cpn_cons_ne h]; rfl, by simpa using h⟩

theorem cpn_eq_iff {ch : Char} {x : Str} {m : Nat} :
    countPrefix ch none x = m ↔ ∃ v, x = List.replicate m ch ++ v ∧ v.head? ≠ some ch := by
  constructor
  · rintro rfl; exact cpn_decomp ch x
  · rintro ⟨v, rfl, hv⟩; exact cpn_replicate_append ch m hv

theorem take_eq_replicate_iff {ch : Char} {x : Str} {m : Nat} :
    x.take m = List.replicate m ch ↔ m ≤ countPrefix ch none x := by
  induction x generalizing m with
  | nil =>
    cases m with
    | zero => simp
    | succ k => simp [List.replicate_succ]
  | cons c s ih =>
    cases m with
    | zero => simp
    | succ k =>
      simp only [List.take_succ_cons, List.replicate_succ, List.cons.injEq]
      by_cases h : c = ch
      · subst h; rw [cpn_cons_self, ih]; simp
      · rw [cpn_cons_ne h]; simp [h]

/-! ### `NoAdj` -/

theorem noAdj_iff {s : Str} : NoAdj s ↔ ∀ a b, s ≠ a ++ '\\' :: '`' :: b := by
  unfold NoAdj
  rw [contains_eq_false_iff]
  constructor
  · intro h a b e; exact h a b (by rw [e]; simp)
  · intro h a b e; exact h a b (by rw [e]; simp)

theorem NoAdj.infix {s t : Str} (h : NoAdj s) (ht : t <:+: s) : NoAdj t := by
  rw [noAdj_iff] at h ⊢
  obtain ⟨x, y, rfl⟩ := ht
  intro a b e
  exact h (x ++ a) (b ++ y) (by rw [e]; simp)

theorem NoAdj.drop {s : Str} (h : NoAdj s) (j : Nat) : NoAdj (s.drop j) :=
  h.infix (List.drop_suffix j s).isInfix

theorem noAdj_append {a b : Str} (ha : NoAdj a) (hb : NoAdj b)
    (h : a.getLast? ≠ some '\\' ∨ b.head? ≠ some '`') : NoAdj (a ++ b) := by
  rw [noAdj_iff] at ha hb ⊢
  intro x y e
  rw [List.append_eq_append_iff] at e
  rcases e with ⟨a', h1, h2⟩ | ⟨c', h1, h2⟩
  · exact hb a' y h2
  · cases c' with
    | nil => exact hb [] y (by simpa using h2.symm)
    | cons d c' =>
      cases c' with
      | nil =>
        simp only [List.cons_append, List.nil_append, List.cons.injEq] at h2
        obtain ⟨rfl, rfl⟩ := h2
        rcases h with h | h
        · exact h (by rw [h1]; simp)
        · exact h (by simp)
      | cons d' c' =>
        simp only [List.cons_append, List.cons.injEq] at h2
        obtain ⟨rfl, rfl, rfl⟩ := h2
        exact ha x c' h1

theorem noAdj_of_no_backslash {s : Str} (h : '\\' ∉ s) : NoAdj s := by
  rw [noAdj_iff]
  intro a b e
  exact h (by rw [e]; simp)

theorem noAdj_of_no_backtick {s : Str} (h : '`' ∉ s) : NoAdj s := by
  rw [noAdj_iff]
  intro a b e
  exact h (by rw [e]; simp)

theorem noAdj_getElem {s : Str} (h : NoAdj s) {i : Nat} (h1 : s[i]? = some '\\') : s[i + 1]? ≠ some '`' := by
  intro h2
  rw [noAdj_iff] at h
  obtain ⟨hi, e1⟩ := List.getElem?_eq_some_iff.1 h1
  obtain ⟨hi', e2⟩ := List.getElem?_eq_some_iff.1 h2
  apply h (s.take i) (s.drop (i + 2))
  conv => lhs; rw [← List.take_append_drop i s]
  rw [List.drop_eq_getElem_cons hi, List.drop_eq_getElem_cons hi', e1, e2]

theorem noAdj_replace {X M Y T : Str} (h : NoAdj (X ++ M ++ Y)) (_hM : M ≠ []) (hT : SepOK T) :
    NoAdj (X ++ T ++ Y) := by
  obtain ⟨hT1, hT2, hT3⟩ := hT
  have hX : NoAdj X := h.infix ⟨[], M ++ Y, by simp⟩
  have hY : NoAdj Y := h.infix ⟨X ++ M, [], by simp⟩
  have hXT : NoAdj (X ++ T) := noAdj_append hX (noAdj_of_no_backslash hT3) (Or.inr (head?_ne_of_not_mem hT2))
  exact noAdj_append hXT hY (Or.inl (getLast?_append_ne hT1 (getLast?_ne_of_not_mem hT3)))

/-! ### `btClose`, `btCode`: soundness and completeness with respect to `HasRun` -/

theorem btClose_sound (m : Nat) : ∀ (r : Str) (prev : Char) (L L' : Nat), btClose m prev r L = some L' →
    ∃ a v, r = a ++ List.replicate m '`' ++ v ∧ L' = L + a.length ∧ (prev :: a).getLast? ≠ some '`' ∧
      v.head? ≠ some '`' := by
  intro r
  induction r with
  | nil =>
    intro prev L L' h
    unfold btClose at h
    split at h
    · rename_i hc
      simp only [Option.some.injEq] at h; subst h
      simp only [Bool.and_eq_true, beq_iff_eq, bne_iff_ne, ne_eq] at hc
      obtain ⟨v, hv, hv'⟩ := cpn_eq_iff.1 hc.2
      exact ⟨[], v, by simpa using hv, by simp, by simpa using hc.1, hv'⟩
    · cases h
  | cons c r ih =>
    intro prev L L' h
    unfold btClose at h
    split at h
    · rename_i hc
      simp only [Option.some.injEq] at h; subst h
      simp only [Bool.and_eq_true, beq_iff_eq, bne_iff_ne, ne_eq] at hc
      obtain ⟨v, hv, hv'⟩ := cpn_eq_iff.1 hc.2
      exact ⟨[], v, by simpa using hv, by simp, by simpa using hc.1, hv'⟩
    · obtain ⟨a, v, h1, h2, h3, h4⟩ := ih c (L + 1) L' h
      refine ⟨c :: a, v, by rw [h1]; simp, by simp only [List.length_cons]; omega, ?_, h4⟩
      rw [List.getLast?_cons_cons]; exact h3

theorem btClose_complete (m : Nat) : ∀ (a : Str) (prev : Char) (v : Str) (L : Nat),
    (prev :: a).getLast? ≠ some '`' → v.head? ≠ some '`' →
    ∃ L', btClose m prev (a ++ List.replicate m '`' ++ v) L = some L' := by
  intro a
  induction a with
  | nil =>
    intro prev v L h1 h2
    unfold btClose
    have hp : prev ≠ '`' := by simpa using h1
    have : (prev != '`' && countPrefix '`' none ([] ++ List.replicate m '`' ++ v) == m) = true := by
      simp only [List.nil_append, Bool.and_eq_true, bne_iff_ne, ne_eq, beq_iff_eq]
      exact ⟨hp, cpn_replicate_append _ _ h2⟩
    rw [if_pos this]; exact ⟨L, rfl⟩
  | cons c a ih =>
    intro prev v L h1 h2
    unfold btClose
    split
    · exact ⟨L, rfl⟩
    · rw [List.getLast?_cons_cons] at h1
      exact ih c v (L + 1) h1 h2

theorem btClose_isSome_iff {m : Nat} {c : Char} {r : Str} :
    (∃ L, btClose m c r 1 = some L) ↔ HasRun m (c :: r) := by
  constructor
  · rintro ⟨L, h⟩
    obtain ⟨a, v, h1, -, h3, h4⟩ := btClose_sound m r c 1 L h
    exact ⟨c :: a, v, by rw [h1]; simp, by simp, h3, h4⟩
  · rintro ⟨u, v, h1, h2, h3, h4⟩
    cases u with
    | nil => exact absurd rfl h2
    | cons d a =>
      simp only [List.cons_append, List.cons.injEq] at h1
      obtain ⟨rfl, rfl⟩ := h1
      have := btClose_complete m a c v 1 h3 h4
      simpa using this

theorem hasRun_nil (m : Nat) : ¬ HasRun m [] := by
  rintro ⟨u, v, h1, h2, -, -⟩
  have := congrArg List.length h1
  simp at this
  exact h2 (List.eq_nil_of_length_eq_zero (by omega))

theorem btCode_isSome_iff (suf : Str) : ∀ t : Nat,
    (∃ r, btCode suf t = some r) ↔ ∃ m, 1 ≤ m ∧ m ≤ t ∧ HasRun m (suf.drop m) := by
  intro t
  constructor
  · rintro ⟨⟨m, L⟩, h⟩
    obtain ⟨h1, h2, c, r, hd, hcl⟩ := btCode_spec suf t m L h
    exact ⟨m, h1, h2, by rw [hd]; exact btClose_isSome_iff.1 ⟨L, hcl⟩⟩
  · induction t with
    | zero => rintro ⟨m, h1, h2, -⟩; omega
    | succ t ih =>
      rintro ⟨m, h1, h2, h3⟩
      unfold btCode
      split
      · rename_i c r hd
        split
        · exact ⟨_, rfl⟩
        · rename_i hcl
          by_cases e : m = t + 1
          · subst e
            rw [hd] at h3
            obtain ⟨L, hL⟩ := btClose_isSome_iff.2 h3
            rw [hL] at hcl; cases hcl
          · exact ih ⟨m, h1, by omega, h3⟩
      · rename_i hd
        by_cases e : m = t + 1
        · subst e
          rw [hd] at h3
          exact absurd h3 (hasRun_nil _)
        · exact ih ⟨m, h1, by omega, h3⟩

/-- a code span: opening run, content, closing run, and what is around the closing run -/
theorem btCode_decomp' {suf : Str} {m L : Nat} (h : btCode suf (countPrefix '`' none suf) = some (m, L)) :
    ∃ G rest, suf = List.replicate m '`' ++ G ++ List.replicate m '`' ++ rest ∧ 1 ≤ m ∧ G.length = L ∧ G ≠ [] ∧
      (suf.drop m).take L = G ∧ G.getLast? ≠ some '`' ∧ rest.head? ≠ some '`' := by
  obtain ⟨h1, h2, c, r, hd, hcl⟩ := btCode_spec suf _ m L h
  obtain ⟨a, v, k1, k2, k3, k4⟩ := btClose_sound m r c 1 L hcl
  have hpre : suf.take m = List.replicate m '`' := take_eq_replicate_iff.2 h2
  have hX : suf = List.replicate m '`' ++ (c :: r) := by rw [← hpre, ← hd, List.take_append_drop]
  refine ⟨c :: a, v, ?_, h1, by simp only [List.length_cons]; omega, by simp, ?_, k3, k4⟩
  · rw [hX, k1]; simp
  · rw [hd, k1, k2]
    have : 1 + a.length = (c :: a).length := by simp only [List.length_cons]; omega
    rw [this, show c :: (a ++ List.replicate m '`' ++ v) = (c :: a) ++ (List.replicate m '`' ++ v) by simp]
    exact List.take_left' rfl

/-! ### `btAt` under `NoAdj` -/

/-- the `.bs` alternative needs a backslash immediately before a backtick -/
theorem btAt_bs_false {suf : Str} (h : NoAdj suf) :
    ¬ ((decide (countPrefix '\\' none suf ≥ 2) && (countPrefix '\\' none suf % 2 == 0) &&
        (suf[countPrefix '\\' none suf]? == some '`')) = true) := by
  intro hc
  simp only [Bool.and_eq_true, beq_iff_eq, decide_eq_true_eq] at hc
  obtain ⟨⟨hk, -⟩, h3⟩ := hc
  obtain ⟨k, hk'⟩ : ∃ k, countPrefix '\\' none suf = k + 1 := ⟨countPrefix '\\' none suf - 1, by omega⟩
  have h1 : suf[k]? = some '\\' := by
    obtain ⟨v, hv, -⟩ := cpn_decomp '\\' suf
    rw [hk'] at hv
    rw [hv, List.getElem?_append_left (by simp)]
    simp
  rw [hk'] at h3
  exact noAdj_getElem h h1 h3

theorem btAt_bslash (suf : Str) (i : Nat) : btAt (some '\\') suf i = none := by
  unfold btAt; simp

theorem btAt_nobt {prev : Option Char} {suf : Str} {i : Nat} (h : NoAdj suf) (hh : suf.head? ≠ some '`') :
    btAt prev suf i = none := by
  unfold btAt
  split
  · rfl
  · simp only
    rw [if_neg (btAt_bs_false h)]
    split
    · exact absurd rfl hh
    · rfl

theorem btAt_bt {prev : Option Char} {s : Str} {i : Nat} (h : NoAdj ('`' :: s)) (hp : prev ≠ some '\\') :
    btAt prev ('`' :: s) i =
      match btCode ('`' :: s) (countPrefix '`' none ('`' :: s)) with
      | some (m, L) => some ⟨.code, i, i + m + L + m, (('`' :: s).drop m).take L⟩
      | none => none := by
  unfold btAt
  have : ¬ ((prev == some '\\') = true) := by simpa using hp
  rw [if_neg this]
  simp only
  rw [if_neg (btAt_bs_false h)]
  generalize btCode ('`' :: s) (countPrefix '`' none ('`' :: s)) = x
  rcases x with _ | ⟨m, L⟩ <;> rfl

theorem btAt_some {prev : Option Char} {suf : Str} {i : Nat} {r : BtMatch} (h : NoAdj suf)
    (hr : btAt prev suf i = some r) :
    ∃ m L, btCode suf (countPrefix '`' none suf) = some (m, L) ∧
      r = ⟨.code, i, i + m + L + m, (suf.drop m).take L⟩ := by
  by_cases hh : suf.head? = some '`'
  · obtain ⟨s, rfl⟩ := List.head?_eq_some_iff.1 hh
    by_cases hp : prev = some '\\'
    · subst hp; rw [btAt_bslash] at hr; cases hr
    · rw [btAt_bt h hp] at hr
      split at hr
      · rename_i m L hc
        simp only [Option.some.injEq] at hr
        exact ⟨m, L, hc, hr.symm⟩
      · cases hr
  · rw [btAt_nobt h hh] at hr; cases hr

/-- soundness and completeness of a match attempt -/
theorem btAt_none_iff {prev : Option Char} {suf : Str} {i : Nat} (h : NoAdj suf)
    (hp : prev = some '\\' → suf.head? ≠ some '`') :
    btAt prev suf i = none ↔
      ¬ ∃ m, 1 ≤ m ∧ suf.take m = List.replicate m '`' ∧ HasRun m (suf.drop m) := by
  by_cases hh : suf.head? = some '`'
  · have hp' : prev ≠ some '\\' := fun e => hp e hh
    obtain ⟨s, rfl⟩ := List.head?_eq_some_iff.1 hh
    rw [btAt_bt h hp']
    have key := btCode_isSome_iff ('`' :: s) (countPrefix '`' none ('`' :: s))
    constructor
    · intro hn
      rintro ⟨m, h1, h2, h3⟩
      obtain ⟨⟨m', L'⟩, hr⟩ := key.2 ⟨m, h1, take_eq_replicate_iff.1 h2, h3⟩
      rw [hr] at hn; cases hn
    · intro hn
      split
      · rename_i m L hc
        obtain ⟨m', h1, h2, h3⟩ := key.1 ⟨_, hc⟩
        exact absurd ⟨m', h1, take_eq_replicate_iff.2 h2, h3⟩ hn
      · rfl
  · rw [btAt_nobt h hh]
    simp only [true_iff]
    rintro ⟨m, h1, h2, -⟩
    exact hh (head?_of_take_replicate h1 h2)

/-! ### `Opens`, `FailsAt` -/

/-- `Opens` only looks at the text from `j` on -/
def OpensL (x : Str) : Prop := ∃ m y, 1 ≤ m ∧ x = List.replicate m '`' ++ y ∧ HasRun m y

theorem opens_iff_opensL {s : Str} {j : Nat} : Opens s j ↔ OpensL (s.drop j) := by
  constructor
  · rintro ⟨m, h1, h2, h3⟩
    refine ⟨m, s.drop (j + m), h1, ?_, h3⟩
    rw [← h2, ← List.drop_drop, List.take_append_drop]
  · rintro ⟨m, y, h1, h2, h3⟩
    refine ⟨m, h1, ?_, ?_⟩
    · rw [h2]; exact List.take_left' (by simp)
    · rw [← List.drop_drop, h2, List.drop_left' (by simp)]; exact h3

theorem opensL_iff {x : Str} :
    OpensL x ↔ ∃ m, 1 ≤ m ∧ x.take m = List.replicate m '`' ∧ HasRun m (x.drop m) := by
  have := @opens_iff_opensL x 0
  simp only [List.drop_zero] at this
  rw [← this]
  unfold Opens
  simp

theorem opensL_head {x : Str} (h : OpensL x) : x.head? = some '`' := by
  obtain ⟨m, y, h1, rfl, -⟩ := h
  exact head?_replicate_append h1 y

theorem failsAt_iff {s : Str} (h : NoAdj s) {j : Nat} (_hj : j ≤ s.length) : FailsAt s j ↔ ¬ Opens s j := by
  unfold FailsAt
  rw [opens_iff_opensL, opensL_iff]
  apply btAt_none_iff (h.drop j)
  intro hp
  split at hp
  · cases hp
  · rename_i hj0
    rw [List.head?_drop]
    have := noAdj_getElem h hp
    rwa [show j - 1 + 1 = j by omega] at this

theorem failsAt_of_not_head {s : Str} (h : NoAdj s) {j : Nat} (hh : (s.drop j).head? ≠ some '`') : FailsAt s j :=
  btAt_nobt (h.drop j) hh

/-! ### `btScan`: leftmost match -/

theorem btScan_none_iff : ∀ (suf : Str) (prev : Option Char) (i : Nat), btScan prev suf i = none ↔
    ∀ k, k ≤ suf.length → btAt (if k = 0 then prev else suf[k - 1]?) (suf.drop k) (i + k) = none := by
  intro suf
  induction suf with
  | nil =>
    intro prev i
    unfold btScan
    constructor
    · intro h k hk
      have : k = 0 := by simpa using hk
      subst this
      cases ha : btAt prev [] i with
      | none => simpa using ha
      | some x => rw [ha] at h; cases h
    · intro h
      have := h 0 (by simp)
      simp only [if_true, List.drop_zero, Nat.add_zero] at this
      rw [this]
  | cons c r ih =>
    intro prev i
    unfold btScan
    constructor
    · intro h k hk
      cases ha : btAt prev (c :: r) i with
      | some x => rw [ha] at h; cases h
      | none =>
        rw [ha] at h
        simp only at h
        cases k with
        | zero => simpa using ha
        | succ k' =>
          have := (ih (some c) (i + 1)).1 h k' (by simpa using hk)
          rw [show i + 1 + k' = i + (k' + 1) by omega] at this
          simp only [Nat.add_sub_cancel, List.drop_succ_cons, Nat.succ_ne_zero, if_false]
          cases k' with
          | zero => simpa using this
          | succ k'' => simpa using this
    · intro h
      have h0 := h 0 (by simp)
      simp only [if_true, List.drop_zero, Nat.add_zero] at h0
      rw [h0]
      simp only
      rw [ih]
      intro k hk
      have := h (k + 1) (by simpa using hk)
      rw [show i + (k + 1) = i + 1 + k by omega] at this
      simp only [Nat.add_sub_cancel, List.drop_succ_cons, Nat.succ_ne_zero, if_false] at this
      cases k with
      | zero => simpa using this
      | succ k'' => simpa using this

theorem btScan_some : ∀ (suf : Str) (prev : Option Char) (i : Nat) (r : BtMatch), btScan prev suf i = some r →
    ∃ k, k ≤ suf.length ∧ btAt (if k = 0 then prev else suf[k - 1]?) (suf.drop k) (i + k) = some r ∧
      ∀ k', k' < k → btAt (if k' = 0 then prev else suf[k' - 1]?) (suf.drop k') (i + k') = none := by
  intro suf
  induction suf with
  | nil =>
    intro prev i r h
    unfold btScan at h
    cases ha : btAt prev [] i with
    | none => rw [ha] at h; cases h
    | some x =>
      rw [ha] at h
      simp only [Option.some.injEq] at h; subst h
      exact ⟨0, by simp, by simpa using ha, by intro k' hk'; omega⟩
  | cons c s ih =>
    intro prev i r h
    unfold btScan at h
    cases ha : btAt prev (c :: s) i with
    | some x =>
      rw [ha] at h
      simp only [Option.some.injEq] at h; subst h
      exact ⟨0, by simp, by simpa using ha, by intro k' hk'; omega⟩
    | none =>
      rw [ha] at h
      simp only at h
      obtain ⟨k, h1, h2, h3⟩ := ih (some c) (i + 1) r h
      refine ⟨k + 1, by simpa using h1, ?_, ?_⟩
      · rw [show i + 1 + k = i + (k + 1) by omega] at h2
        simp only [Nat.add_sub_cancel, List.drop_succ_cons, Nat.succ_ne_zero, if_false]
        cases k with
        | zero => simpa using h2
        | succ k'' => simpa using h2
      · intro k' hk'
        cases k' with
        | zero => simpa using ha
        | succ k'' =>
          have := h3 k'' (by omega)
          rw [show i + 1 + k'' = i + (k'' + 1) by omega] at this
          simp only [Nat.add_sub_cancel, List.drop_succ_cons, Nat.succ_ne_zero, if_false]
          cases k'' with
          | zero => simpa using this
          | succ k3 => simpa using this

theorem btFind_zero (s : Str) : btFind s 0 = btScan none s 0 := by
  unfold btFind; simp

/-! ### `BtDone`, `BtSafe` -/

theorem btDone_iff {s : Str} : BtDone s ↔ ∀ j, j ≤ s.length → FailsAt s j := by
  unfold BtDone FailsAt
  rw [btFind_zero, btScan_none_iff]
  simp only [Nat.zero_add]

theorem BtDone.safe {s : Str} (h : BtDone s) : BtSafe s := by
  rw [btDone_iff] at h
  intro j i hji hi
  obtain ⟨hlt, -⟩ := List.getElem?_eq_some_iff.1 hi
  exact h j (by omega)

theorem btSafe_of_no_stx {s : Str} (h : STX ∉ s) : BtSafe s := by
  intro j i _ hi
  exact absurd (List.mem_of_getElem? hi) h

theorem btDone_of_no_backtick {s : Str} (h : '`' ∉ s) : BtDone s := btFind_none h 0

theorem btFind_kind {s : Str} (h : NoAdj s) {si : Nat} {m : BtMatch} (hm : btFind s si = some m) :
    m.kind = .code := by
  unfold btFind at hm
  split at hm
  · cases hm
  · obtain ⟨k, -, h2, -⟩ := btScan_some _ _ _ _ hm
    obtain ⟨n, L, -, rfl⟩ := btAt_some ((h.drop si).drop k) h2
    rfl

/-! ### replacing a stretch by a backtick-free string -/

/-- a run of backticks in `A ++ T ++ Y`, `T` without backtick, lies in `A` or in `Y` -/
theorem run_place {A T Y u v : Str} {m : Nat} (hT : '`' ∉ T) (hTne : T ≠ []) (hm : 1 ≤ m)
    (h : A ++ T ++ Y = u ++ List.replicate m '`' ++ v) :
    (∃ v', A = u ++ List.replicate m '`' ++ v' ∧ v = v' ++ T ++ Y) ∨
      (∃ u', Y = u' ++ List.replicate m '`' ++ v ∧ u = A ++ T ++ u') := by
  have hbt' : ∀ {w1 : Str} (w2 : Str), List.replicate m '`' = w1 ++ w2 → w1 ≠ [] → '`' ∈ w1 := by
    intro w1 w2 e hne
    cases w1 with
    | nil => exact absurd rfl hne
    | cons d w1 =>
      have : d ∈ List.replicate m '`' := by rw [e]; simp
      rw [List.mem_replicate] at this
      rw [this.2]; simp
  have hrep : '`' ∈ List.replicate m '`' := by rw [List.mem_replicate]; exact ⟨by omega, rfl⟩
  rw [List.append_assoc] at h
  rcases append_eq_mid h with ⟨v', h1, h2⟩ | ⟨u', h1, h2⟩ | ⟨w1, w2, h1, h2, h3, h4, h5⟩
  · exact Or.inl ⟨v', h1, by rw [h2, List.append_assoc]⟩
  · rcases append_eq_mid h1 with ⟨v'', k1, k2⟩ | ⟨u'', k1, k2⟩ | ⟨w1, w2, k1, k2, k3, k4, k5⟩
    · exact absurd (by rw [k1]; simp [hrep]) hT
    · exact Or.inr ⟨u'', k1, by rw [h2, k2, List.append_assoc]⟩
    · exact absurd (by rw [k4]; simp [hbt' w2 k1 k2]) hT
  · cases w2 with
    | nil => exact absurd rfl h3
    | cons d w2 =>
      have hd : d = '`' := by
        have : d ∈ List.replicate m '`' := by rw [h1]; simp
        exact (List.mem_replicate.1 this).2
      cases T with
      | nil => exact absurd rfl hTne
      | cons t T =>
        simp only [List.cons_append, List.cons.injEq] at h5
        exact absurd (by rw [h5.1, hd]; simp) hT

/-- the closing run survives the replacement of `T` by `M` -/
theorem hasRun_replace {A M Y T : Str} {m : Nat} (hT : '`' ∉ T) (hTne : T ≠ []) (hM : M ≠ []) (hm : 1 ≤ m)
    (hA : A.getLast? ≠ some '`' ∨ M.head? ≠ some '`') (hY : M.getLast? ≠ some '`' ∨ Y.head? ≠ some '`')
    (h : HasRun m (A ++ T ++ Y)) : HasRun m (A ++ M ++ Y) := by
  obtain ⟨u, v, h1, h2, h3, h4⟩ := h
  rcases run_place hT hTne hm h1 with ⟨v', k1, k2⟩ | ⟨u', k1, k2⟩
  · refine ⟨u, v' ++ M ++ Y, by rw [k1]; simp, h2, h3, ?_⟩
    by_cases hv : v' = []
    · subst hv
      simp only [List.append_nil] at k1
      simp only [List.nil_append]
      rcases hA with hA | hA
      · exact absurd (by rw [k1]; exact getLast?_append_replicate hm u) hA
      · exact head?_append_ne hM hA
    · rw [List.append_assoc]
      apply head?_append_ne hv
      rw [k2, List.append_assoc] at h4
      exact head?_prefix_ne h4
  · refine ⟨A ++ M ++ u', v, by rw [k1]; simp, ?_, ?_, h4⟩
    · intro e
      have := congrArg List.length e
      simp only [List.length_append, List.length_nil] at this
      exact hM (List.eq_nil_of_length_eq_zero (by omega))
    · by_cases hu : u' = []
      · subst hu
        simp only [List.nil_append] at k1
        simp only [List.append_nil]
        rcases hY with hY | hY
        · exact getLast?_append_ne hM hY
        · exact absurd (by rw [k1]; exact head?_replicate_append hm v) hY
      · apply getLast?_append_ne hu
        rw [k2] at h3
        exact getLast?_suffix_ne h3

theorem opensL_replace {A M Y T : Str} (hT : '`' ∉ T) (hTne : T ≠ []) (hM : M ≠ [])
    (hA : A.getLast? ≠ some '`' ∨ M.head? ≠ some '`') (hY : M.getLast? ≠ some '`' ∨ Y.head? ≠ some '`')
    (h : OpensL (A ++ T ++ Y)) : OpensL (A ++ M ++ Y) := by
  obtain ⟨m, y, h1, h2, h3⟩ := h
  -- the opening run lies in `A`
  have key : ∃ A', A = List.replicate m '`' ++ A' ∧ y = A' ++ T ++ Y := by
    rw [List.append_assoc, List.append_eq_append_iff] at h2
    rcases h2 with ⟨a', k1, k2⟩ | ⟨c', k1, k2⟩
    · cases a' with
      | nil => exact ⟨[], by simpa using k1.symm, by simpa using k2.symm⟩
      | cons d a' =>
        have hd : d = '`' := by
          have : d ∈ List.replicate m '`' := by rw [k1]; simp
          exact (List.mem_replicate.1 this).2
        cases T with
        | nil => exact absurd rfl hTne
        | cons t T =>
          simp only [List.cons_append, List.cons.injEq] at k2
          exact absurd (by rw [k2.1, hd]; simp) hT
    · exact ⟨c', k1, by rw [k2, List.append_assoc]⟩
  obtain ⟨A', rfl, rfl⟩ := key
  refine ⟨m, A' ++ M ++ Y, h1, by simp, ?_⟩
  refine hasRun_replace hT hTne hM h1 ?_ hY h3
  rcases hA with hA | hA
  · exact Or.inl (getLast?_suffix_ne hA)
  · exact Or.inr hA

/-- the text from a position inside `T` (not at its end) on does not open -/
theorem not_opensL_of_head {x : Str} (h : x.head? ≠ some '`') : ¬ OpensL x := fun ho => h (opensL_head ho)


theorem opensL_append {x Y : Str} (hY : Y.head? ≠ some '`') (h : OpensL x) : OpensL (x ++ Y) := by
  obtain ⟨m, y, h1, rfl, u, v, rfl, h3, h4, h5⟩ := h
  refine ⟨m, u ++ List.replicate m '`' ++ v ++ Y, h1, by simp, u, v ++ Y, by simp, h3, h4, ?_⟩
  by_cases hv : v = []
  · subst hv; simpa using hY
  · exact head?_append_ne hv h5

theorem opensL_shift {x : Str} (h : OpensL x) : OpensL ('`' :: x) := by
  obtain ⟨m, y, h1, rfl, u, v, rfl, h3, h4, h5⟩ := h
  refine ⟨m, '`' :: (u ++ List.replicate m '`' ++ v), h1, ?_, '`' :: u, v, by simp, by simp, ?_, h5⟩
  · rw [← List.cons_append, ← List.replicate_succ, List.replicate_succ']; simp
  · cases u with
    | nil => exact absurd rfl h3
    | cons d u => rw [List.getLast?_cons_cons]; exact h4

theorem opens_pred {s : Str} {j : Nat} (hj : s[j]? = some '`') (ho : Opens s (j + 1)) : Opens s j := by
  rw [opens_iff_opensL] at ho ⊢
  obtain ⟨hlt, e⟩ := List.getElem?_eq_some_iff.1 hj
  rw [List.drop_eq_getElem_cons hlt, e]
  exact opensL_shift ho

/-- where a code span can open after a stretch has been replaced by a backtick-free string -/
theorem opens_replace_cases {X M Y T : Str} (hT : '`' ∉ T) (hTne : T ≠ []) (hM : M ≠ [])
    (hA : X.getLast? ≠ some '`' ∨ M.head? ≠ some '`') (hY : M.getLast? ≠ some '`' ∨ Y.head? ≠ some '`')
    {j : Nat} (ho : Opens (X ++ T ++ Y) j) :
    (j < X.length ∧ Opens (X ++ M ++ Y) j) ∨
      (X.length + T.length ≤ j ∧ Opens (X ++ M ++ Y) (j - T.length + M.length)) := by
  rw [opens_iff_opensL] at ho
  by_cases h1 : j < X.length
  · left
    refine ⟨h1, ?_⟩
    rw [opens_iff_opensL]
    rw [List.append_assoc, List.drop_append_of_le_length (by omega), ← List.append_assoc] at ho ⊢
    refine opensL_replace hT hTne hM ?_ hY ho
    rcases hA with hA | hA
    · left; rw [List.getLast?_drop, if_neg (by omega)]; exact hA
    · exact Or.inr hA
  · by_cases h2 : j < X.length + T.length
    · exfalso
      refine not_opensL_of_head ?_ ho
      rw [List.head?_drop, List.append_assoc, List.getElem?_append_right (by omega),
        List.getElem?_append_left (by omega)]
      intro e
      exact hT (List.mem_of_getElem? e)
    · right
      refine ⟨by omega, ?_⟩
      rw [opens_iff_opensL]
      have e1 : (X ++ T ++ Y).drop j = Y.drop (j - (X ++ T).length) := by
        rw [List.drop_append, List.drop_eq_nil_of_le (by simp only [List.length_append]; omega)]; rfl
      have e2 : (X ++ M ++ Y).drop (j - T.length + M.length) = Y.drop (j - T.length + M.length - (X ++ M).length) := by
        rw [List.drop_append, List.drop_eq_nil_of_le (by simp only [List.length_append]; omega)]; rfl
      rw [e1] at ho
      rw [e2]
      have : j - T.length + M.length - (X ++ M).length = j - (X ++ T).length := by
        simp only [List.length_append]; omega
      rw [this]; exact ho

theorem btDone_replace {X M Y T : Str} (h : NoAdj (X ++ M ++ Y)) (hd : BtDone (X ++ M ++ Y)) (hM : M ≠ [])
    (hh : M.head? ≠ some '`') (hl : M.getLast? ≠ some '`') (hT : SepOK T) : BtDone (X ++ T ++ Y) := by
  have hnew := noAdj_replace h hM hT
  rw [btDone_iff] at hd ⊢
  intro j hj
  rw [failsAt_iff hnew hj]
  intro ho
  simp only [List.length_append] at hj
  rcases opens_replace_cases hT.2.1 hT.1 hM (Or.inr hh) (Or.inl hl) ho with ⟨h1, h2⟩ | ⟨h1, h2⟩
  · have hle : j ≤ (X ++ M ++ Y).length := by simp only [List.length_append]; omega
    exact (failsAt_iff h hle).1 (hd j hle) h2
  · have hle : j - T.length + M.length ≤ (X ++ M ++ Y).length := by simp only [List.length_append]; omega
    exact (failsAt_iff h hle).1 (hd _ hle) h2

theorem btDone_cut {X S Y : Str} (h : NoAdj (X ++ S ++ Y)) (hd : BtDone (X ++ S ++ Y)) (hY : Y.head? ≠ some '`') :
    BtDone S := by
  have hS : NoAdj S := h.infix ⟨X, Y, rfl⟩
  rw [btDone_iff] at hd ⊢
  intro j hj
  rw [failsAt_iff hS hj]
  intro ho
  have hle : X.length + j ≤ (X ++ S ++ Y).length := by simp only [List.length_append]; omega
  refine (failsAt_iff h hle).1 (hd _ hle) ?_
  rw [opens_iff_opensL] at ho ⊢
  rw [List.append_assoc, ← List.drop_drop, List.drop_left' rfl, List.drop_append_of_le_length hj]
  exact opensL_append hY ho

theorem bt_first_match {s : Str} (h : NoAdj s) (hs : BtSafe s) {m : BtMatch} (hm : btFind s 0 = some m) :
    ∃ pre n G rest, s = pre ++ (List.replicate n '`' ++ G ++ List.replicate n '`') ++ rest ∧ 1 ≤ n ∧ G ≠ [] ∧
      m = ⟨.code, pre.length, pre.length + n + G.length + n, G⟩ ∧ STX ∉ G ∧ STX ∉ rest ∧
      ∀ t, SepOK t → NoAdj (pre ++ t ++ rest) ∧ BtSafe (pre ++ t ++ rest) := by
  rw [btFind_zero] at hm
  obtain ⟨p, hp, hat, hleft⟩ := btScan_some _ _ _ _ hm
  simp only [Nat.zero_add] at hat hleft
  have hleft' : ∀ j, j < p → FailsAt s j := hleft
  have hnf : ¬ FailsAt s p := by unfold FailsAt; rw [hat]; simp
  have hop : Opens s p := Classical.not_not.1 (fun hn => hnf ((failsAt_iff h hp).2 hn))
  obtain ⟨n, L, hc, rfl⟩ := btAt_some (h.drop p) hat
  obtain ⟨G, rest, e1, e2, e3, e4, e5, -, e7⟩ := btCode_decomp' hc
  obtain ⟨pre, hpre⟩ : ∃ pre, pre = s.take p := ⟨_, rfl⟩
  have hlen : pre.length = p := by rw [hpre, List.length_take]; omega
  have hs_eq : s = pre ++ (List.replicate n '`' ++ G ++ List.replicate n '`') ++ rest := by
    conv => lhs; rw [← List.take_append_drop p s, e1, ← hpre]
    simp
  have hstx : STX ∉ s.drop p := by
    intro hmem
    obtain ⟨i, hi⟩ := List.mem_iff_getElem?.1 hmem
    rw [List.getElem?_drop] at hi
    exact hnf (hs p (p + i) (by omega) hi)
  have hMne : List.replicate n '`' ++ G ++ List.replicate n '`' ≠ [] := by
    intro e
    have := congrArg List.length e
    simp at this; omega
  have hrest : STX ∉ rest := fun hr => hstx (by rw [e1]; simp [hr])
  have hlast : pre.getLast? ≠ some '`' := by
    intro e
    rw [List.getLast?_eq_getElem?, hpre, List.getElem?_take] at e
    split at e
    · rename_i hlt
      rw [← hpre, hlen] at e hlt
      have ho := opens_pred e (by rw [show p - 1 + 1 = p by omega]; exact hop)
      exact (failsAt_iff h (by omega)).1 (hleft' (p - 1) (by omega)) ho
    · cases e
  refine ⟨pre, n, G, rest, hs_eq, e2, e4, ?_, fun hG => hstx (by rw [e1]; simp [hG]), hrest, ?_⟩
  · rw [hlen, e5, e3]
  · intro t ht
    have hnew : NoAdj (pre ++ t ++ rest) := noAdj_replace (by rw [← hs_eq]; exact h) hMne ht
    refine ⟨hnew, ?_⟩
    intro j i hji hi
    obtain ⟨hilt, -⟩ := List.getElem?_eq_some_iff.1 hi
    have hi' : i < pre.length + t.length := by
      apply Classical.not_not.1
      intro hge
      rw [List.getElem?_append_right (by simp only [List.length_append]; omega)] at hi
      exact hrest (List.mem_of_getElem? hi)
    rw [failsAt_iff hnew (by omega)]
    intro ho
    rcases opens_replace_cases ht.2.1 ht.1 hMne (Or.inl hlast) (Or.inr e7) ho with ⟨h1, h2⟩ | ⟨h1, h2⟩
    · rw [← hs_eq] at h2
      exact (failsAt_iff h (by omega)).1 (hleft' j (by omega)) h2
    · omega

/-! ### concrete instances (each value computed with `#eval` first; `decide +kernel` for the longer runs of the model:
the elaborator's `whnf` does not share the `brecOn` unfoldings of `btClose`) -/

/-- a text of the domain: backslashes and backticks, none adjacent in that order -/
example : NoAdj "a\\b `c` \\\\ ``d`e``".toList := by decide
/-- ... whose first match is the code span `c` -/
example : (btFind "a\\b `c` \\\\ ``d`e``".toList 0).map (fun m => (m.start, m.stop, m.group)) =
    some (4, 7, ['c']) := by decide +kernel
/-- after the replacement of both spans nothing matches -/
example : BtDone ("a\\b ".toList ++ placeholder 0 ++ " \\\\ ".toList ++ placeholder 1) := by decide +kernel
/-- an unclosed run matches nowhere -/
example : BtDone "a ``b c".toList := by decide +kernel
/-- without `NoAdj` the `.bs` alternative fires: `btFind_kind` needs the hypothesis -/
example : ¬ NoAdj "\\\\`a`".toList ∧ (btFind "\\\\`a`".toList 0).map (·.kind) = some .bs := by decide
/-- without `NoAdj` a match attempt can fail although a code span `Opens` there (the look-behind rejects a backtick
    after a backslash): `failsAt_iff` needs the hypothesis -/
example : ¬ NoAdj "\\`a`".toList ∧ BtDone "\\`a`".toList := by decide
/-- `btDone_cut` needs `Y` not to start with a backtick -/
example : BtDone ("`a`".toList ++ "`".toList) ∧ ¬ BtDone "`a`".toList := by decide
/-- `btDone_replace` needs `M` not to end with a backtick (here `M` is one backtick) -/
example : BtDone ("`a`".toList ++ "`".toList ++ "b".toList) ∧ ¬ BtDone ("`a`".toList ++ "x".toList ++ "b".toList) := by
  decide

end MdVerif.NoCtl
