/-
C05 on the extension pipeline, removal of the residual hypothesis `hamp` of `C05X_partial`: a string class for the
NAMES that the toc extension computes.

`TocTreeprocessor` serialises every heading, applies `UnescapeTreeprocessor.unescape` to the STRING, cuts it between
the first `>` and the last `<`, strips, runs the postprocessors (raw_html, footnote, amp_substitute), strips, removes
the tags (`strip_tags`: `<!--…-->` spans, `<…>` spans, whitespace runs) — and writes the result into the `div.toc`,
which the final `UnescapeTreeprocessor` unescapes AGAIN.  The class `SK` below contains the serialisation of a heading
(texts with the invariant `G.SOk`, attribute values with `G.SOkA` in front of their closing quote), is closed under all
of these steps, and a string of the class has no STX followed by `a` after unescaping (`unescapeText_SK`, `SQ_of_SK`):

  **every STX is followed — possibly behind ONE tag `<…>` that holds no STX and no `<` — by: nothing; a closing
  quote, a blank, a line feed or `&` (`tm`: where a truncated continuation ends); `k`, `w`, `q`, `z`; or a non-zero
  digit that is followed by nothing, a digit, or one of `tm`.**

The tag in front of the continuation is what `AbbrTreeprocessor` leaves: an abbreviation can match right behind an
STX (`STX<abbr title="…">40</abbr>ETX`, F-C10-6), `strip_tags` removes the tag again.  None of the characters that may
follow an STX is `a`, STX, or whitespace other than blank and line feed; a number behind an STX has a non-zero first
digit and, when an ETX ends it, at least two digits (so `unescape` never writes an STX); removing a `<…>` span never
changes what follows an STX, up to the skipped tag (`SK_cut` in `Lemmas/VocabXWFAmpKOps.lean`).

`SKC`: the same without the "nothing" cases (complete, whatever is appended).  Core Lean only.
-/
import MdVerif.Lemmas.VocabXWFAmpGTree

set_option autoImplicit false

namespace MdVerif.VocabXAmp
open Py G

/-- where a truncated continuation of an STX may end: the closing quote of an attribute value, a blank, a line feed,
    the `&` of an escaped character -/
def tm (c : Char) : Bool := c == '"' || c == ' ' || c == '\n' || c == '&'

def digit2K : Str → Bool
  | [] => true
  | d :: _ => isAsciiDigit d || tm d

/-- what follows an STX directly -/
def folK0 : Str → Bool
  | [] => true
  | c :: r => tm c || gl c || (isNZ c && digit2K r)

/-- behind the `<` of a tag: `none` = the tag holds an STX or a `<`; `some r` = what follows its `>` (nothing when
    the string ends inside the tag) -/
def afterSpan : Str → Option Str
  | [] => some []
  | c :: r => if c = '>' then some r else if c = G.STX ∨ c = '<' then none else afterSpan r

/-- behind the `<` of a tag that does not start with `!` (no comment, no declaration) -/
def spanRest : Str → Option Str
  | c :: t => if c = '!' then none else afterSpan (c :: t)
  | [] => some []

/-- the continuation of an STX, read past one clean tag -/
def win : Str → Str
  | c :: t => if c = '<' then (spanRest t).getD (c :: t) else c :: t
  | [] => []

/-- what follows an STX -/
def folK (r : Str) : Bool := folK0 (win r)

def SK : Str → Bool
  | [] => true
  | c :: r => (c != G.STX || folK r) && SK r

def digit2C : Str → Bool
  | [] => false
  | d :: _ => isAsciiDigit d || tm d

/-- a complete continuation -/
def folC0 : Str → Bool
  | [] => false
  | c :: r => tm c || gl c || (isNZ c && digit2C r)

/-- as `afterSpan`, for a tag that is closed -/
def afterSpanT : Str → Option Str
  | [] => none
  | c :: r => if c = '>' then some r else if c = G.STX ∨ c = '<' then none else afterSpanT r

def spanRestT : Str → Option Str
  | c :: t => if c = '!' then none else afterSpanT (c :: t)
  | [] => none

def folC : Str → Bool
  | c :: t => if c = '<' then (match spanRestT t with | some r => folC0 r | none => false) else folC0 (c :: t)
  | [] => false

def SKC : Str → Bool
  | [] => true
  | c :: r => (c != G.STX || folC r) && SKC r

/-! ### characters -/

theorem tm_iff {c : Char} : tm c = true ↔ c = '"' ∨ c = ' ' ∨ c = '\n' ∨ c = '&' := by
  simp [tm, or_assoc]

theorem tm_ne_stx {c : Char} (h : tm c = true) : c ≠ G.STX := by
  rcases tm_iff.1 h with rfl | rfl | rfl | rfl <;> decide

theorem tm_ne_a {c : Char} (h : tm c = true) : c ≠ 'a' := by
  rcases tm_iff.1 h with rfl | rfl | rfl | rfl <;> decide

theorem tm_ne_lt {c : Char} (h : tm c = true) : c ≠ '<' := by
  rcases tm_iff.1 h with rfl | rfl | rfl | rfl <;> decide

theorem tm_ne_gt {c : Char} (h : tm c = true) : c ≠ '>' := by
  rcases tm_iff.1 h with rfl | rfl | rfl | rfl <;> decide

theorem tm_ne_etx {c : Char} (h : tm c = true) : c ≠ G.ETX := by
  rcases tm_iff.1 h with rfl | rfl | rfl | rfl <;> decide

theorem tm_not_decimal {c : Char} (h : tm c = true) : isDecimal c = false := by
  rcases tm_iff.1 h with rfl | rfl | rfl | rfl <;> decide

theorem gl_ne_lt {c : Char} (h : gl c = true) : c ≠ '<' := by
  rcases gl_iff.1 h with rfl | rfl | rfl | rfl <;> decide

theorem digit_ne_stx {c : Char} (h : isAsciiDigit c = true) : c ≠ G.STX := by
  rintro rfl; revert h; decide

theorem digit_ne_lt {c : Char} (h : isAsciiDigit c = true) : c ≠ '<' := by
  rintro rfl; revert h; decide

theorem digit_ne_a {c : Char} (h : isAsciiDigit c = true) : c ≠ 'a' := by
  rintro rfl; revert h; decide

theorem digit_not_space {c : Char} (h : isAsciiDigit c = true) : isSpace c = false := by
  cases hs : isSpace c with
  | false => rfl
  | true =>
    have := (NoCtl.space_not_inner hs).1
    simp only [NoCtl.inner, Bool.or_eq_false_iff] at this
    rw [this.1] at h; cases h

/-! ### the window -/

theorem folK0_first {c : Char} {r : Str} (h : folK0 (c :: r) = true) : c ≠ G.STX ∧ c ≠ '<' ∧ c ≠ 'a' := by
  simp only [folK0, Bool.or_eq_true, Bool.and_eq_true] at h
  rcases h with (h | h) | h
  · exact ⟨tm_ne_stx h, tm_ne_lt h, tm_ne_a h⟩
  · exact ⟨gl_ne_stx h, gl_ne_lt h, gl_ne_a h⟩
  · exact ⟨digit_ne_stx (isNZ_digit h.1), digit_ne_lt (isNZ_digit h.1), digit_ne_a (isNZ_digit h.1)⟩

theorem win_cons_ne {c : Char} (hc : c ≠ '<') (r : Str) : win (c :: r) = c :: r := by
  simp [win, hc]

theorem win_of_folK0 {r : Str} (h : folK0 r = true) : win r = r := by
  cases r with
  | nil => rfl
  | cons c r => exact win_cons_ne (folK0_first h).2.1 r

theorem folK_of_0 {r : Str} (h : folK0 r = true) : folK r = true := by
  unfold folK; rw [win_of_folK0 h]; exact h

theorem folK_cons_ne {c : Char} (hc : c ≠ '<') (r : Str) : folK (c :: r) = folK0 (c :: r) := by
  unfold folK; rw [win_cons_ne hc]

/-- the two ways to be a continuation -/
theorem folK_cases {r : Str} (h : folK r = true) :
    folK0 r = true ∨ ∃ t r', r = '<' :: t ∧ spanRest t = some r' ∧ folK0 r' = true := by
  cases r with
  | nil => exact Or.inl rfl
  | cons c t =>
    by_cases hc : c = '<'
    · subst hc
      right
      unfold folK at h
      simp only [win, if_true] at h
      cases ha : spanRest t with
      | none => rw [ha] at h; simp [folK0, tm, gl, isNZ] at h
      | some r' => rw [ha] at h; exact ⟨t, r', rfl, ha, h⟩
    · left; rw [folK_cons_ne hc] at h; exact h

theorem folK_span {t r' : Str} (ha : spanRest t = some r') (h : folK0 r' = true) : folK ('<' :: t) = true := by
  unfold folK; simp only [win, if_true, ha, Option.getD_some]; exact h

theorem spanRest_cons {c : Char} (hc : c ≠ '!') (t : Str) : spanRest (c :: t) = afterSpan (c :: t) := by
  simp [spanRest, hc]

/-- what `spanRest` says: the tag does not start with `!`, and `afterSpan` -/
theorem spanRest_some {t r : Str} (h : spanRest t = some r) : t.head? ≠ some '!' ∧ afterSpan t = some r := by
  cases t with
  | nil => exact ⟨by simp, h⟩
  | cons c t =>
    simp only [spanRest] at h
    split at h
    · cases h
    · rename_i hc; exact ⟨by simpa using hc, h⟩

theorem spanRest_of {t r : Str} (h1 : t.head? ≠ some '!') (h2 : afterSpan t = some r) : spanRest t = some r := by
  cases t with
  | nil => exact h2
  | cons c t =>
    have hc : c ≠ '!' := by simpa using h1
    rw [spanRest_cons hc]; exact h2

theorem spanRestT_some {t r : Str} (h : spanRestT t = some r) : t.head? ≠ some '!' ∧ afterSpanT t = some r := by
  cases t with
  | nil => cases h
  | cons c t =>
    simp only [spanRestT] at h
    split at h
    · cases h
    · rename_i hc; exact ⟨by simpa using hc, h⟩

theorem afterSpan_of_T {t r : Str} (h : afterSpanT t = some r) : afterSpan t = some r := by
  induction t with
  | nil => cases h
  | cons c t ih =>
    simp only [afterSpanT] at h
    simp only [afterSpan]
    split at h
    · rename_i hc; rw [if_pos hc]; exact h
    · rename_i hc
      rw [if_neg hc]
      split at h
      · cases h
      · rename_i hd; rw [if_neg hd]; exact ih h

theorem afterSpan_append_T {t r : Str} (h : afterSpanT t = some r) (b : Str) : afterSpan (t ++ b) = some (r ++ b) := by
  induction t with
  | nil => cases h
  | cons c t ih =>
    simp only [afterSpanT] at h
    simp only [List.cons_append, afterSpan]
    split at h
    · rename_i hc
      rw [if_pos hc]
      simp only [Option.some.injEq] at h; rw [h]
    · rename_i hc
      rw [if_neg hc]
      split at h
      · cases h
      · rename_i hd; rw [if_neg hd]; exact ih h

/-- truncating inside or behind the tag -/
theorem afterSpan_take {t r : Str} (h : afterSpan t = some r) (m : Nat) :
    ∃ k, afterSpan (t.take m) = some (r.take k) := by
  induction t generalizing m with
  | nil =>
    simp only [afterSpan, Option.some.injEq] at h; subst h
    exact ⟨0, by simp [afterSpan]⟩
  | cons c t ih =>
    cases m with
    | zero => exact ⟨0, by simp [afterSpan]⟩
    | succ m =>
      simp only [afterSpan] at h
      simp only [List.take_succ_cons, afterSpan]
      split at h
      · rename_i hc
        rw [if_pos hc]
        simp only [Option.some.injEq] at h; subst h
        exact ⟨m, rfl⟩
      · rename_i hc
        rw [if_neg hc]
        split at h
        · cases h
        · rename_i hd; rw [if_neg hd]; exact ih h m

/-! ### `SK` -/

theorem SK_cons (c : Char) (r : Str) : SK (c :: r) = ((c != G.STX || folK r) && SK r) := rfl

theorem SK_cons_ne {c : Char} (hc : c ≠ G.STX) (r : Str) : SK (c :: r) = SK r := by
  simp [SK, hc]

theorem SK_right {a b : Str} (h : SK (a ++ b) = true) : SK b = true := by
  induction a with
  | nil => exact h
  | cons c r ih =>
    simp only [List.cons_append, SK, Bool.and_eq_true] at h
    exact ih h.2

theorem SK_drop {s : Str} (h : SK s = true) (n : Nat) : SK (s.drop n) = true := by
  have := List.take_append_drop n s
  rw [← this] at h
  exact SK_right h

theorem digit2K_take {r : Str} (h : digit2K r = true) (n : Nat) : digit2K (r.take n) = true := by
  cases n with
  | zero => rfl
  | succ n =>
    cases r with
    | nil => rfl
    | cons d r => simpa [digit2K] using h

theorem folK0_take {r : Str} (h : folK0 r = true) (n : Nat) : folK0 (r.take n) = true := by
  cases n with
  | zero => rfl
  | succ n =>
    cases r with
    | nil => rfl
    | cons c r =>
      simp only [folK0, Bool.or_eq_true, Bool.and_eq_true] at h
      simp only [List.take_succ_cons, folK0, Bool.or_eq_true, Bool.and_eq_true]
      rcases h with h | h
      · exact Or.inl h
      · exact Or.inr ⟨h.1, digit2K_take h.2 n⟩

theorem folK_take {r : Str} (h : folK r = true) (n : Nat) : folK (r.take n) = true := by
  rcases folK_cases h with h0 | ⟨t, r', rfl, ha, h0⟩
  · exact folK_of_0 (folK0_take h0 n)
  · cases n with
    | zero => rfl
    | succ n =>
      obtain ⟨hb, ha'⟩ := spanRest_some ha
      obtain ⟨k, hk⟩ := afterSpan_take ha' n
      rw [List.take_succ_cons]
      refine folK_span (spanRest_of ?_ hk) (folK0_take h0 k)
      cases t with
      | nil => simp
      | cons c t =>
        cases n with
        | zero => simp
        | succ n => simpa using hb

theorem SK_take {s : Str} (h : SK s = true) (n : Nat) : SK (s.take n) = true := by
  induction s generalizing n with
  | nil => simp [SK]
  | cons c r ih =>
    cases n with
    | zero => rfl
    | succ n =>
      simp only [SK, Bool.and_eq_true, Bool.or_eq_true] at h
      simp only [List.take_succ_cons, SK, Bool.and_eq_true, Bool.or_eq_true]
      refine ⟨?_, ih h.2 n⟩
      rcases h.1 with h1 | h1
      · exact Or.inl h1
      · exact Or.inr (folK_take h1 n)

theorem SK_infix {a s : Str} (h : SK s = true) (hi : a <:+: s) : SK a = true := by
  obtain ⟨p, q, rfl⟩ := hi
  have h1 : SK (a ++ q) = true := by rw [List.append_assoc] at h; exact SK_right h
  have := SK_take h1 a.length
  simpa using this

theorem SK_strip {s : Str} (h : SK s = true) : SK (strip s) = true := SK_infix h (strip_infix s)

theorem SK_noSTX_append {a : Str} (ha : G.STX ∉ a) (b : Str) : SK (a ++ b) = SK b := by
  induction a with
  | nil => rfl
  | cons c r ih =>
    have hc : c ≠ G.STX := fun e => ha (by rw [e]; exact List.mem_cons_self)
    rw [List.cons_append, SK_cons_ne hc]
    exact ih (fun hm => ha (List.mem_cons_of_mem _ hm))

theorem SK_of_noSTX {s : Str} (h : G.STX ∉ s) : SK s = true := by
  have := SK_noSTX_append h []
  rw [List.append_nil] at this
  rw [this]; rfl

theorem folK0_of_folA {r : Str} (h : folA r = true) : folK0 r = true := by
  cases r with
  | nil => rfl
  | cons c r =>
    simp only [folA, Bool.or_eq_true, Bool.and_eq_true] at h
    simp only [folK0, Bool.or_eq_true, Bool.and_eq_true]
    rcases h with h | h
    · exact Or.inl (Or.inr h)
    · refine Or.inr ⟨h.1, ?_⟩
      cases r with
      | nil => rfl
      | cons d r => simp only [digit2A] at h; simp [digit2K, h.2]

theorem folK_of_folA {r : Str} (h : folA r = true) : folK r = true := folK_of_0 (folK0_of_folA h)

theorem SK_of_SOkA {s : Str} (h : SOkA s = true) : SK s = true := by
  induction s with
  | nil => rfl
  | cons c r ih =>
    simp only [SOkA, Bool.and_eq_true, Bool.or_eq_true] at h
    simp only [SK, Bool.and_eq_true, Bool.or_eq_true]
    refine ⟨?_, ih h.2⟩
    rcases h.1 with h1 | h1
    · exact Or.inl h1
    · exact Or.inr (folK_of_folA h1)

theorem SK_of_SOk {s : Str} (h : SOk s = true) : SK s = true := SK_of_SOkA (SOkA_of_SOk h)

/-! ### `SKC`: complete continuations -/

theorem digit2K_of_C {r : Str} (h : digit2C r = true) (b : Str) : digit2K (r ++ b) = true := by
  cases r with
  | nil => cases h
  | cons d r => simpa [digit2C, digit2K] using h

theorem folK0_of_C0 {r : Str} (h : folC0 r = true) (b : Str) : folK0 (r ++ b) = true := by
  cases r with
  | nil => cases h
  | cons c r =>
    simp only [folC0, Bool.or_eq_true, Bool.and_eq_true] at h
    simp only [List.cons_append, folK0, Bool.or_eq_true, Bool.and_eq_true]
    rcases h with h | h
    · exact Or.inl h
    · exact Or.inr ⟨h.1, digit2K_of_C h.2 b⟩

theorem folK_of_C {r : Str} (h : folC r = true) (b : Str) : folK (r ++ b) = true := by
  cases r with
  | nil => cases h
  | cons c t =>
    simp only [folC] at h
    split at h
    · rename_i hc
      subst hc
      split at h
      · rename_i r' ha
        rw [List.cons_append]
        obtain ⟨hb, ha'⟩ := spanRestT_some ha
        refine folK_span (spanRest_of ?_ (afterSpan_append_T ha' b)) (folK0_of_C0 h b)
        cases t with
        | nil => cases ha
        | cons c t => simpa using hb
      · cases h
    · have := folK0_of_C0 h b
      exact folK_of_0 this

/-- a complete string in front of a string of the class -/
theorem SK_append_of_C {a b : Str} (ha : SKC a = true) (hb : SK b = true) : SK (a ++ b) = true := by
  induction a with
  | nil => exact hb
  | cons c r ih =>
    simp only [SKC, Bool.and_eq_true, Bool.or_eq_true] at ha
    simp only [List.cons_append, SK, Bool.and_eq_true, Bool.or_eq_true]
    refine ⟨?_, ih ha.2⟩
    rcases ha.1 with h | h
    · exact Or.inl h
    · exact Or.inr (folK_of_C h b)

theorem folC0_of_fol {r : Str} (h : fol r = true) : folC0 r = true := by
  cases r with
  | nil => cases h
  | cons c r =>
    simp only [fol, Bool.or_eq_true, Bool.and_eq_true] at h
    simp only [folC0, Bool.or_eq_true, Bool.and_eq_true]
    rcases h with h | h
    · exact Or.inl (Or.inr h)
    · refine Or.inr ⟨h.1, ?_⟩
      cases r with
      | nil => cases h.2
      | cons d r => simp only [digit2] at h; simp [digit2C, h.2]

theorem folC_of_C0 {r : Str} (h : folC0 r = true) : folC r = true := by
  cases r with
  | nil => cases h
  | cons c r =>
    have hc : c ≠ '<' := by
      simp only [folC0, Bool.or_eq_true, Bool.and_eq_true] at h
      rcases h with (h | h) | h
      · exact tm_ne_lt h
      · exact gl_ne_lt h
      · exact digit_ne_lt (isNZ_digit h.1)
    simp only [folC, if_neg hc]; exact h

theorem SKC_of_SOk {s : Str} (h : SOk s = true) : SKC s = true := by
  induction s with
  | nil => rfl
  | cons c r ih =>
    simp only [SOk, Bool.and_eq_true, Bool.or_eq_true] at h
    simp only [SKC, Bool.and_eq_true, Bool.or_eq_true]
    refine ⟨?_, ih h.2⟩
    rcases h.1 with h1 | h1
    · exact Or.inl h1
    · exact Or.inr (folC_of_C0 (folC0_of_fol h1))

/-- a text with the invariant in front of anything of the class -/
theorem SK_append_sok {a b : Str} (ha : SOk a = true) (hb : SK b = true) : SK (a ++ b) = true :=
  SK_append_of_C (SKC_of_SOk ha) hb

theorem SKC_noSTX {s : Str} (h : G.STX ∉ s) : SKC s = true := by
  induction s with
  | nil => rfl
  | cons c r ih =>
    have hc : c ≠ G.STX := fun e => h (by rw [e]; exact List.mem_cons_self)
    simp only [SKC, Bool.and_eq_true, Bool.or_eq_true, bne_iff_ne, ne_eq]
    exact ⟨Or.inl hc, ih (fun hm => h (List.mem_cons_of_mem _ hm))⟩

/-- appending a blank, a line feed, a quote or `&` -/
theorem folK0_snoc_tm {r : Str} (h : folK0 r = true) {x : Char} (hx : tm x = true) : folK0 (r ++ [x]) = true := by
  cases r with
  | nil => simp [folK0, hx]
  | cons c r =>
    simp only [folK0, Bool.or_eq_true, Bool.and_eq_true] at h
    simp only [List.cons_append, folK0, Bool.or_eq_true, Bool.and_eq_true]
    rcases h with h | h
    · exact Or.inl h
    · refine Or.inr ⟨h.1, ?_⟩
      cases r with
      | nil => simp [digit2K, hx]
      | cons d r => simpa [digit2K] using h.2

theorem tm_ne_bang {c : Char} (h : tm c = true) : c ≠ '!' := by
  rcases tm_iff.1 h with rfl | rfl | rfl | rfl <;> decide

theorem afterSpan_snoc_tm {t r : Str} (h : afterSpan t = some r) {x : Char} (hx : tm x = true) :
    afterSpan (t ++ [x]) = some (r ++ [x]) ∨ afterSpan (t ++ [x]) = some [] := by
  induction t with
  | nil =>
    right
    simp only [List.nil_append, afterSpan, if_neg (tm_ne_gt hx)]
    rw [if_neg (by
      intro hc
      rcases hc with hc | hc
      · exact tm_ne_stx hx hc
      · exact tm_ne_lt hx hc)]
  | cons c t ih =>
    simp only [afterSpan] at h
    simp only [List.cons_append, afterSpan]
    split at h
    · rename_i hc
      rw [if_pos hc]
      simp only [Option.some.injEq] at h; subst h
      exact Or.inl rfl
    · rename_i hc
      rw [if_neg hc]
      split at h
      · cases h
      · rename_i hd; rw [if_neg hd]; exact ih h

theorem folK_snoc_tm {r : Str} (h : folK r = true) {x : Char} (hx : tm x = true) : folK (r ++ [x]) = true := by
  rcases folK_cases h with h0 | ⟨t, r', rfl, ha, h0⟩
  · exact folK_of_0 (folK0_snoc_tm h0 hx)
  · rw [List.cons_append]
    obtain ⟨hb, ha'⟩ := spanRest_some ha
    have hb' : (t ++ [x]).head? ≠ some '!' := by
      cases t with
      | nil => simpa using tm_ne_bang hx
      | cons c t => simpa using hb
    rcases afterSpan_snoc_tm ha' hx with e | e
    · exact folK_span (spanRest_of hb' e) (folK0_snoc_tm h0 hx)
    · exact folK_span (spanRest_of hb' e) rfl

theorem SK_snoc_tm {a : Str} (ha : SK a = true) {x : Char} (hx : tm x = true) : SK (a ++ [x]) = true := by
  induction a with
  | nil => simp [SK, tm_ne_stx hx]
  | cons c r ih =>
    simp only [SK, Bool.and_eq_true, Bool.or_eq_true] at ha
    simp only [List.cons_append, SK, Bool.and_eq_true, Bool.or_eq_true]
    refine ⟨?_, ih ha.2⟩
    rcases ha.1 with h | h
    · exact Or.inl h
    · exact Or.inr (folK_snoc_tm h hx)

/-! ### no STX is followed by `a` -/

theorem folK_head {r : Str} (h : folK r = true) : r.head? ≠ some 'a' := by
  rcases folK_cases h with h0 | ⟨t, r', rfl, _, _⟩
  · cases r with
    | nil => simp
    | cons c r =>
      simp only [List.head?_cons, ne_eq, Option.some.injEq]
      exact (folK0_first h0).2.2
  · simp

theorem SQ_of_SK {s : Str} (h : SK s = true) : SQ s = true := by
  induction s with
  | nil => rfl
  | cons c r ih =>
    simp only [SK, Bool.and_eq_true, Bool.or_eq_true] at h
    simp only [SQ, Bool.and_eq_true, Bool.or_eq_true, bne_iff_ne]
    refine ⟨?_, ih h.2⟩
    rcases h.1 with h1 | h1
    · exact Or.inl (by simpa using h1)
    · exact Or.inr (folK_head h1)

/-! ### `UnescapeTreeprocessor.unescape` keeps the class -/

/-- a character other than STX is copied -/
theorem unescapeText_copy {c : Char} (hc : c ≠ G.STX) {s r : Str} (h : TreeProc.unescapeText 0 (c :: s) = some r) :
    ∃ r1, r = c :: r1 ∧ TreeProc.unescapeText 0 s = some r1 := by
  have hc' : c ≠ TreeProc.STX := hc
  rw [TreeProc.unescapeText, if_neg hc'] at h
  simp only [Option.map_eq_some_iff] at h
  obtain ⟨r1, h1, rfl⟩ := h
  exact ⟨r1, rfl, h1⟩

/-- what follows a copied STX directly is copied too -/
theorem folK0_unescape {s r : Str} (hf : folK0 s = true) (h : TreeProc.unescapeText 0 s = some r) :
    folK0 r = true := by
  cases s with
  | nil => simp only [TreeProc.unescapeText, Option.some.injEq] at h; subst h; rfl
  | cons c s =>
    obtain ⟨r1, rfl, h1⟩ := unescapeText_copy (folK0_first hf).1 h
    simp only [folK0, Bool.or_eq_true, Bool.and_eq_true] at hf ⊢
    rcases hf with hf | hf
    · exact Or.inl hf
    · refine Or.inr ⟨hf.1, ?_⟩
      cases s with
      | nil => simp only [TreeProc.unescapeText, Option.some.injEq] at h1; subst h1; rfl
      | cons d s =>
        have hd : d ≠ G.STX := by
          simp only [digit2K, Bool.or_eq_true] at hf
          rcases hf.2 with h' | h'
          · exact digit_ne_stx h'
          · exact tm_ne_stx h'
        obtain ⟨r2, rfl, _⟩ := unescapeText_copy hd h1
        simpa [digit2K] using hf.2

/-- a clean tag is copied -/
theorem afterSpan_unescape {t r' o : Str} (ha : afterSpan t = some r') (h : TreeProc.unescapeText 0 t = some o) :
    ∃ o', afterSpan o = some o' ∧ TreeProc.unescapeText 0 r' = some o' := by
  induction t generalizing o with
  | nil =>
    simp only [afterSpan, Option.some.injEq] at ha; subst ha
    simp only [TreeProc.unescapeText, Option.some.injEq] at h; subst h
    exact ⟨[], rfl, rfl⟩
  | cons c t ih =>
    simp only [afterSpan] at ha
    split at ha
    · rename_i hc
      subst hc
      simp only [Option.some.injEq] at ha; subst ha
      obtain ⟨o1, rfl, h1⟩ := unescapeText_copy (by decide) h
      exact ⟨o1, by simp [afterSpan], h1⟩
    · rename_i hc
      split at ha
      · cases ha
      · rename_i hd
        have hs : c ≠ G.STX := fun e => hd (Or.inl e)
        obtain ⟨o1, rfl, h1⟩ := unescapeText_copy hs h
        obtain ⟨o', e1, e2⟩ := ih ha h1
        exact ⟨o', by simp only [afterSpan, if_neg hc, if_neg hd]; exact e1, e2⟩

theorem folK_unescape {s r : Str} (hf : folK s = true) (h : TreeProc.unescapeText 0 s = some r) : folK r = true := by
  rcases folK_cases hf with h0 | ⟨t, r', rfl, ha, h0⟩
  · exact folK_of_0 (folK0_unescape h0 h)
  · obtain ⟨o1, rfl, h1⟩ := unescapeText_copy (by decide) h
    obtain ⟨hb, ha'⟩ := spanRest_some ha
    obtain ⟨o', e1, e2⟩ := afterSpan_unescape ha' h1
    refine folK_span (spanRest_of ?_ e1) (folK0_unescape h0 e2)
    cases t with
    | nil => simp only [TreeProc.unescapeText, Option.some.injEq] at h1; subst h1; simp
    | cons c t =>
      have hc : c ≠ G.STX := by
        intro e; subst e
        simp only [afterSpan] at ha'
        rw [if_neg (by decide)] at ha'
        simp at ha'
      obtain ⟨o2, rfl, _⟩ := unescapeText_copy hc h1
      simpa using hb

/-- the code of a token behind an STX of the class has at least two digits -/
theorem token_ge_ten {s : Str} (hf : folK s = true) (hd : spanLen isDecimal s > 0)
    (he : s[spanLen isDecimal s]? = some TreeProc.ETX) : 10 ≤ decToNat (s.take (spanLen isDecimal s)) := by
  rcases folK_cases hf with hf | ⟨t, r', rfl, _, _⟩
  · cases s with
    | nil => simp [spanLen] at hd
    | cons d1 s1 =>
      simp only [folK0, Bool.or_eq_true, Bool.and_eq_true] at hf
      rcases hf with (h' | h') | h'
      · have := tm_not_decimal h'
        simp [spanLen, this] at hd
      · have := not_decimal_letter h'
        simp [spanLen, this] at hd
      · cases s1 with
        | nil =>
          have := isNZ_decimal h'.1
          simp [spanLen, this] at he
        | cons d2 s2 =>
          simp only [digit2K, Bool.or_eq_true] at h'
          have e1 := isNZ_decimal h'.1
          rcases h'.2 with h2 | h2
          · have e2 := digit_decimal h2
            simp only [spanLen, e1, e2, if_true, List.take_succ_cons]
            exact decToNat_two h'.1
          · exfalso
            have e2 := tm_not_decimal h2
            simp only [spanLen, e1, e2, if_true, Bool.false_eq_true, if_false, Nat.zero_add,
              List.getElem?_cons_succ, List.getElem?_cons_zero, Option.some.injEq] at he
            exact tm_ne_etx h2 he
  · have : isDecimal '<' = false := by decide
    simp [spanLen, this] at hd

theorem unescapeText_SK : ∀ (s : Str) (k : Nat) (r : Str), SK (s.drop k) = true →
    TreeProc.unescapeText k s = some r → SK r = true := by
  intro s
  induction s with
  | nil => intro k r _ h; cases k <;> (simp only [TreeProc.unescapeText, Option.some.injEq] at h; subst h; rfl)
  | cons c s ih =>
    intro k r hs h
    cases k with
    | succ k => rw [TreeProc.unescapeText] at h; exact ih k r (by simpa using hs) h
    | zero =>
      simp only [List.drop_zero] at hs
      rw [SK_cons, Bool.and_eq_true] at hs
      have hcopy : ∀ r', (TreeProc.unescapeText 0 s).map (c :: ·) = some r' → SK r' = true := by
        intro r' h'
        simp only [Option.map_eq_some_iff] at h'
        obtain ⟨r0, hr0, rfl⟩ := h'
        have ih0 := ih 0 r0 (by simpa using hs.2) hr0
        simp only [SK, Bool.and_eq_true, Bool.or_eq_true]
        refine ⟨?_, ih0⟩
        rcases Bool.or_eq_true_iff.1 hs.1 with h1 | h1
        · exact Or.inl h1
        · exact Or.inr (folK_unescape h1 hr0)
      rw [TreeProc.unescapeText] at h
      split at h
      · rename_i hc
        dsimp only at h
        split at h
        · rename_i hm
          split at h
          · simp only [Option.map_eq_some_iff] at h
            obtain ⟨r0, hr0, rfl⟩ := h
            have ih0 := ih _ r0 (SK_drop hs.2 _) hr0
            have hf : folK s = true := by
              rcases Bool.or_eq_true_iff.1 hs.1 with h1 | h1
              · exfalso; simp [hc] at h1; exact h1 rfl
              · exact h1
            simp only [Bool.and_eq_true, decide_eq_true_eq, beq_iff_eq] at hm
            have hv := token_ge_ten hf hm.1 hm.2
            simp only [SK, Bool.and_eq_true, Bool.or_eq_true, bne_iff_ne]
            exact ⟨Or.inl (ofNat_ne_stx hv), ih0⟩
          · cases h
        · exact hcopy r h
      · exact hcopy r h

/-- **unescaping a string of the class leaves no STX followed by `a`** -/
theorem unescapeText_SQ_of_SK {s r : Str} (hs : SK s = true) (h : TreeProc.unescapeText 0 s = some r) :
    SQ r = true :=
  SQ_of_SK (unescapeText_SK s 0 r (by simpa using hs) h)

/-- the predicates are not trivially true -/
example : SK "x\x02klzzwxh:0000\x03 \x0242\x03 \x02\" \x024\" \x02 \x024\n".toList = true ∧
    SK "\x02<abbr title=\"U\">40</abbr>\x03".toList = true ∧ SK "\x02<abbr tit".toList = true ∧
    SK "\x02<!-- a>k".toList = false ∧
    SK "\x02<a href=\"\x02k\">k".toList = false ∧ SK "\x02<b><i>k".toList = false ∧
    SK "\x02amp\x03".toList = false ∧ SK "\x02<b>amp\x03".toList = false ∧ SK "\x027\x03".toList = false ∧
    SK "\x024<".toList = false ∧ SK "\x02\x02".toList = false ∧ SK "\x0207\x03".toList = false ∧
    SKC "ab\x02".toList = false ∧ SKC "\x02k".toList = true ∧ SKC "\x02<b".toList = false := by decide

end MdVerif.VocabXAmp
