/-
Helper lemmas for `Props/C06Links.lean`, part 1: the text content of the document tree for a paragraph with mixed
content around and inside reference-style links (`Lemmas/RefText*.lean`) — the contents and the link texts in order;
labels, destinations, titles and definitions contribute nothing — and the letters of a chunk of mixed content are
the letters of its source.  Core Lean only.
-/
import MdVerif.Lemmas.RefTextSpec
import MdVerif.Lemmas.InlineConserve

namespace MdVerif.RefText
open Py Inline Escape CodeLaw DocParse DocParse2 Flat

/-! ### text content -/

/-- the text an item shows -/
def kText : MKind → Str
  | .code _ b => Code.codeEscape b
  | .em _ _ w => w

def segsContent : List MSeg → Str
  | [] => []
  | s :: r => kText s.k ++ (s.t ++ segsContent r)

/-- the text content of a chunk: its texts and what its items show, in order -/
def Chunk.content (c : Chunk) : Str := c.t0 ++ segsContent c.segs

/-- the text content of the uses: link text, then the content after the use -/
def usContent : List RUse → Str
  | [] => []
  | u :: r => u.T.content ++ (u.C.content ++ usContent r)

theorem getD_optStr (t : Str) : (optStr t).getD [] = t := by
  cases t <;> rfl

theorem content_tailedFinM (s : MSeg) : content (tailedFinM s) = kText s.k ∧ (tailedFinM s).tail.getD [] = s.t := by
  obtain ⟨k, t⟩ := s
  cases k with
  | code n b => exact ⟨by simp [tailedFinM, MKind.node, codeSpan, Node.el, content, contentKids, kText], getD_optStr t⟩
  | em st d w => exact ⟨by simp [tailedFinM, MKind.node, emEl, mkEl, content, contentKids, kText], getD_optStr t⟩

theorem contentKids_tailedFinM (segs : List MSeg) : contentKids (segs.map tailedFinM) = segsContent segs := by
  induction segs with
  | nil => rfl
  | cons s r ih =>
    rw [List.map_cons, contentKids_cons, (content_tailedFinM s).1, (content_tailedFinM s).2, ih]
    simp [segsContent, List.append_assoc]

theorem content_aFin (u : RUse) : content (aFin u) = u.T.content ∧ (aFin u).tail.getD [] = u.C.t0 := by
  refine ⟨?_, getD_optStr _⟩
  rw [content_eq]
  show (optStr u.T.t0).getD [] ++ contentKids (u.T.segs.map tailedFinM) = _
  rw [getD_optStr, contentKids_tailedFinM]; rfl

theorem contentKids_usKidsFin : ∀ us : List RUse, contentKids (usKidsFin us) = usContent us
  | [] => rfl
  | u :: r => by
    rw [usKidsFin_cons, contentKids_cons, contentKids_append, (content_aFin u).1, (content_aFin u).2,
      contentKids_tailedFinM, contentKids_usKidsFin r]
    simp [usContent, Chunk.content, List.append_assoc]

/-- **the text content of the paragraph**: the first content, then for each use its link text and the content after
    it; nothing of the labels, the destinations, the titles -/
theorem content_pFin (C0 : Chunk) (us : List RUse) : content (pFin C0 us) = C0.content ++ usContent us := by
  rw [content_eq]
  show (optStr C0.t0).getD [] ++ contentKids (C0.segs.map tailedFinM ++ usKidsFin us) = _
  rw [getD_optStr, contentKids_append, contentKids_tailedFinM, contentKids_usKidsFin]
  simp [Chunk.content, List.append_assoc]

/-! ### the letters of a chunk are the letters of its source -/

theorem letters_escAll {L : Char → Bool} (hL : LetterClass L) (esc : List Char) (t : Str) :
    letters L (escAll esc t) = letters L t := by
  induction t with
  | nil => rfl
  | cons c r ih =>
    by_cases hc : c ∈ esc
    · simp only [escAll, List.contains_eq_mem, hc, decide_true, if_true]
      rw [letters_cons_of_not L hL.bslash, letters_cons, letters_cons, ih]
    · simp only [escAll, List.contains_eq_mem, hc, decide_false, Bool.false_eq_true, if_false]
      rw [letters_cons, letters_cons, ih]

/-- no `&`, `<`, `>` in the bodies of the code spans: `code_escape` leaves them as they are -/
def Chunk.CodeClean (c : Chunk) : Prop := ∀ s ∈ c.segs, ∀ n b, s.k = .code n b → '&' ∉ b ∧ '<' ∉ b ∧ '>' ∉ b

theorem codeEscape_clean {s : Str} (h1 : '&' ∉ s) (h2 : '<' ∉ s) (h3 : '>' ∉ s) : Code.codeEscape s = s := by
  have hc : ∀ {x : Char}, x ∉ s → contains s [x] = false := fun h => contains_single_false h
  unfold Code.codeEscape
  rw [replace_id_of_not_contains _ (hc h1), replace_id_of_not_contains _ (hc h2), replace_id_of_not_contains _ (hc h3)]

theorem letters_kind {L : Char → Bool} (hL : LetterClass L) (k : MKind)
    (hc : ∀ n b, k = .code n b → '&' ∉ b ∧ '<' ∉ b ∧ '>' ∉ b) (hd : ∀ st d w, k = .em st d w → d = '*' ∨ d = '_') :
    letters L k.src = letters L (kText k) := by
  cases k with
  | code n b =>
    obtain ⟨h1, h2, h3⟩ := hc n b rfl
    have hpad : letters L (DocSpec.codePad b) = [] := by
      unfold DocSpec.codePad
      split
      · exact letters_eq_nil_of_all L (fun c hc => by simp at hc; subst hc; exact hL.space ' ' (by decide))
      · rfl
    simp only [MKind.src, spanSrc, padded, ticks, kText, letters_append, letters_replicate L hL.tick, hpad,
      codeEscape_clean h1 h2 h3, List.nil_append, List.append_nil]
  | em st d w =>
    have hdl : L d = false := by
      rcases hd st d w rfl with e | e <;> rw [e]
      · exact hL.star
      · exact hL.under
    simp only [MKind.src, emSrc, EmSeg.delim, kText, letters_append, letters_replicate L hdl, List.nil_append,
      List.append_nil]

theorem letters_rawM {L : Char → Bool} (hL : LetterClass L) (esc : List Char) (segs : List MSeg)
    (hc : ∀ s ∈ segs, ∀ n b, s.k = .code n b → '&' ∉ b ∧ '<' ∉ b ∧ '>' ∉ b) (hok : MSegsOK segs) :
    letters L (rawM esc segs) = letters L (segsContent segs) := by
  induction segs with
  | nil => rfl
  | cons s r ih =>
    have hk := hok s List.mem_cons_self
    have hd : ∀ st d w, s.k = .em st d w → d = '*' ∨ d = '_' := by
      intro st d w e; rw [e] at hk; exact hk.1
    simp only [rawM, segsContent, letters_append, letters_kind hL s.k (hc s List.mem_cons_self) hd,
      letters_escAll hL, ih (fun x hx => hc x (List.mem_cons_of_mem _ hx)) (fun x hx => hok x (List.mem_cons_of_mem _ hx))]

/-- **the letters of the source of a chunk are the letters of its text content** -/
theorem letters_chunk {L : Char → Bool} (hL : LetterClass L) (esc : List Char) (c : Chunk) (hc : c.CodeClean)
    (hok : MSegsOK c.segs) : letters L (c.raw esc) = letters L c.content := by
  simp only [Chunk.raw, Chunk.content, letters_append, letters_escAll hL, letters_rawM hL esc c.segs hc hok]

end MdVerif.RefText
