/-
Helper lemmas for the inline side of C15 (reference-style links in `Model/Inline.lean`, and the rest of the pipeline
for a paragraph that contains one of them).  Core Lean only.

Contents
* vocabulary: `PlainText`, `linkEl`/`imgEl`, `refSrc`/`imgSrc`, `useKey`, `SpOK`, `UseLabelOK`, `QuietLabel`, …;
* target 1: `wsClean_eq` (`wsClean = wsCollapse`), `evalId_spec`, `linkHandle_ref`;
* the patterns that find nothing (`btScan_none` … `emScan_none`, `findMatch_quiet`, `findMatch_quietB`), the pattern
  loop on quiet text (`hiLoop_quiet`, `handleInline_quiet`);
* `handleInline_ref_found`, `handleInline_ref_undefined`, `handleInline_img_found`;
* `__processPlaceholders` with one stashed element (`ppTop_one`, `procNode_leaf`), `run_ref_found`,
  `run_ref_undefined`, `run_img_found`;
* prettify / unescape / serializer / finish on `<div><p>pre<a …>text</a>post</p></div>`
  (`prettify_linkPara`, `unescapeTree_linkDoc`, `serialize_linkDoc`, `finish_linkDoc`);
* the preprocessors on a document with blank lines (`normalize_doc`, `extract_no_amp`, `prepare_doc`), the block
  splitter (`splitS_two`, `twoBlocks`), the block parser on paragraph + definition (`dispatch_para`,
  `parseBlocks_doc`), and the composition `convert_ref_doc`.
Some small lemmas about placeholders and the end of `convert` follow the C07 inline development (noted where so).
-/
import MdVerif.Model.Pipeline
import MdVerif.Spec.RefDef
import MdVerif.Lemmas.PyBasic
import MdVerif.Lemmas.BlockRef
import MdVerif.Lemmas.SerializerEsc
import MdVerif.Lemmas.Normalize
import MdVerif.Lemmas.BlockEsc

namespace MdVerif.InlineRef
open Py Inline RefDef

/-! ### vocabulary -/

/-- a character of plain running text: ASCII letter or digit, space, `.` or `,` — none of them starts or ends any
    inline or block construct -/
def inlPlain (c : Char) : Bool := isAsciiAlnum c || c = ' ' || c = '.' || c = ','

/-- plain running text -/
def PlainText (s : Str) : Bool := s.all inlPlain

/-- `<a href=url [title=title]>text</a>` as `ReferenceInlineProcessor.makeTag` builds it: `href` first, `title` only
    when it is truthy (`if title:`) -/
def linkEl (url : Str) (title : Option Str) (text : Str) : Node :=
  let e := (mkEl "a").setAttr "href".toList url
  let e := if Node.truthy title then e.setAttr "title".toList (title.getD []) else e
  { e with text := some text }

/-- `<img src=url [title=title] alt=alt>` as `ImageReferenceInlineProcessor.makeTag` builds it -/
def imgEl (url : Str) (title : Option Str) (alt : Str) : Node :=
  let e := (mkEl "img").setAttr "src".toList url
  let e := if Node.truthy title then e.setAttr "title".toList (title.getD []) else e
  e.setAttr "alt".toList alt

/-- `''` and `None` are the same for `elem.text` / `elem.tail`: what the code leaves when nothing is assigned -/
def optStr (s : Str) : Option Str := if s.isEmpty then none else some s

/-! ### target 1: the id clean-up of the model is `wsCollapse` -/

theorem wsCleanAux_eq (b : Bool) (s : Str) : wsCleanAux b s = wsCollapseAux b s := by
  induction s generalizing b with
  | nil => rfl
  | cons c r ih => simp only [wsCleanAux, wsCollapseAux, ih]

theorem wsClean_eq (s : Str) : wsClean s = wsCollapse s := wsCleanAux_eq false s

theorem wsClean_lower (l : Str) : wsClean (lower l) = normUse l := wsClean_eq _

theorem lower_isEmpty (l : Str) : (lower l).isEmpty = l.isEmpty := by
  cases l with
  | nil => rfl
  | cons c r =>
    have := lower_ne_nil (c :: r) (by simp)
    cases h : lower (c :: r) with
    | nil => exact absurd h this
    | cons a b => rfl

theorem find_char_append (c : Char) (a r : Str) (h : c ∉ a) : find [c] (a ++ c :: r) = some a.length := by
  induction a with
  | nil => simp [find_cons, startsWith]
  | cons d a ih =>
    have hd : d ≠ c := fun e => h (e ▸ List.mem_cons_self)
    have := ih (fun hh => h (List.mem_cons_of_mem _ hh))
    simp only [List.cons_append, find_cons, startsWith, hd, decide_false, Bool.false_and, Bool.false_eq_true, if_false,
      this, Option.map_some, List.length_cons]

/-- `evalId` on `…[label]…` (directly after the text, or after one white-space character) -/
theorem evalId_spec (A sp label post text : Str) (hsp : sp = [] ∨ ∃ c, sp = [c] ∧ isSpace c = true)
    (hl : ']' ∉ label) :
    evalId (A ++ sp ++ '[' :: label ++ ']' :: post) A.length text =
      some (if label.isEmpty then lower text else lower label, A.length + sp.length + label.length + 2) := by
  have hfind := find_char_append ']' label post hl
  rcases hsp with rfl | ⟨c, rfl, hc⟩
  · have hd : (A ++ [] ++ '[' :: label ++ ']' :: post).drop A.length = '[' :: (label ++ ']' :: post) := by simp
    have : isSpace '[' = false := by decide
    simp only [evalId, hd, this, Bool.false_eq_true, if_false, hfind, List.take_left', lower_isEmpty,
      List.length_nil, Nat.add_zero]
    congr 2 <;> omega
  · have hd : (A ++ [c] ++ '[' :: label ++ ']' :: post).drop A.length = c :: '[' :: (label ++ ']' :: post) := by simp
    simp only [evalId, hd, hc, if_true, hfind, List.take_left', lower_isEmpty, List.length_singleton]
    congr 2 <;> omega


/-! ### the patterns that find nothing -/

theorem btScan_none (s : Str) (h : '`' ∉ s) (prev : Option Char) (i : Nat) : btScan prev s i = none := by
  induction s generalizing prev i with
  | nil =>
    simp [btScan, btAt, countPrefix]
  | cons c r ih =>
    have hc : c ≠ '`' := fun e => h (e ▸ List.mem_cons_self)
    have hr : '`' ∉ r := fun hh => h (List.mem_cons_of_mem _ hh)
    have hk : ((c :: r)[countPrefix '\\' none (c :: r)]? == some '`') = false := by
      cases hx : (c :: r)[countPrefix '\\' none (c :: r)]? with
      | none => rfl
      | some x =>
        have : x ∈ c :: r := List.mem_of_getElem? hx
        have : x ≠ '`' := fun e => h (e ▸ this)
        simp [this]
    have hat : btAt prev (c :: r) i = none := by
      unfold btAt
      split
      · rfl
      · simp only [hk, Bool.and_false, Bool.false_eq_true, if_false]
        split
        · rename_i heq; simp at heq; exact absurd heq.1 hc
        · rfl
    rw [btScan, hat]
    exact ih hr _ _

theorem btFind_none (s : Str) (h : '`' ∉ s) : btFind s 0 = none := by
  simp [btFind, btScan_none s h]

theorem escScan_none (s : Str) (h : '\\' ∉ s) (i : Nat) : escScan s i = none := by
  induction s generalizing i with
  | nil => rfl
  | cons c r ih =>
    cases r with
    | nil => rfl
    | cons d r =>
      have hc : c ≠ '\\' := fun e => h (e ▸ List.mem_cons_self)
      simp only [escScan, hc, if_false]
      exact ih (fun hh => h (List.mem_cons_of_mem _ hh)) _

theorem linkScan_none (cfg : Inline.Cfg) (stash : List StashItem) (pi : Nat) (data : Str) (s : Str)
    (h : if pi = 4 ∨ pi = 5 ∨ pi = 7 then '!' ∉ s else '[' ∉ s) (prev : Option Char) (i : Nat) :
    linkScan cfg stash pi data prev s i = none := by
  induction s generalizing prev i with
  | nil => rfl
  | cons c r ih =>
    have hr : if pi = 4 ∨ pi = 5 ∨ pi = 7 then '!' ∉ r else '[' ∉ r := by
      split at h <;> rename_i hp <;> simp only [hp, if_true, if_false] <;>
        exact fun hh => h (List.mem_cons_of_mem _ hh)
    by_cases hp : pi = 4 ∨ pi = 5 ∨ pi = 7
    · simp only [hp, if_true] at h
      have hc : c ≠ '!' := fun e => h (e ▸ List.mem_cons_self)
      have himg : (decide (pi = 4) || decide (pi = 5) || decide (pi = 7)) = true := by
        rcases hp with rfl | rfl | rfl <;> rfl
      simp only [linkScan, himg, if_true, hc, decide_false, Bool.false_and, Bool.false_eq_true, if_false]
      exact ih hr _ _
    · simp only [hp, if_false] at h
      have hc : c ≠ '[' := fun e => h (e ▸ List.mem_cons_self)
      have himg : (decide (pi = 4) || decide (pi = 5) || decide (pi = 7)) = false := by
        simp only [not_or] at hp; simp [hp.1, hp.2.1, hp.2.2]
      simp only [linkScan, himg, Bool.false_eq_true, if_false, hc, decide_false, Bool.false_and]
      exact ih hr _ _

theorem entityScan_none (s : Str) (h : '&' ∉ s) (i : Nat) : entityScan s i = none := by
  induction s generalizing i with
  | nil => rfl
  | cons c r ih =>
    have hc : c ≠ '&' := fun e => h (e ▸ List.mem_cons_self)
    simp only [entityScan, hc, if_false]
    exact ih (fun hh => h (List.mem_cons_of_mem _ hh)) _

theorem countPrefix_zero_of_head_ne {c : Char} {lim : Option Nat} {s : Str} (h : s.head? ≠ some c) :
    countPrefix c lim s = 0 := by
  cases s with
  | nil => cases lim with | none => rfl | some n => cases n <;> rfl
  | cons d r =>
    have : d ≠ c := by simpa using h
    cases lim with
    | none => simp [countPrefix, this]
    | some n => cases n <;> simp [countPrefix, this]

theorem nsScan_none (s : Str) (h1 : '*' ∉ s) (h2 : '_' ∉ s) (prev : Option Char) (i : Nat) :
    nsScan prev s i = none := by
  induction s generalizing prev i with
  | nil => rfl
  | cons c r ih =>
    have hc1 : c ≠ '*' := fun e => h1 (e ▸ List.mem_cons_self)
    have hc2 : c ≠ '_' := fun e => h2 (e ▸ List.mem_cons_self)
    have n1 : nsRun '*' (c :: r) = none := by
      simp [nsRun, countPrefix_zero_of_head_ne (c := '*') (lim := some 3) (s := c :: r) (by simpa using hc1)]
    have n2 : nsRun '_' (c :: r) = none := by
      simp [nsRun, countPrefix_zero_of_head_ne (c := '_') (lim := some 3) (s := c :: r) (by simpa using hc2)]
    simp only [nsScan, n1, n2, Option.map_none, ite_self]
    exact ih (fun hh => h1 (List.mem_cons_of_mem _ hh)) (fun hh => h2 (List.mem_cons_of_mem _ hh)) _ _

theorem emScan_none (data : Str) (c : Char) (s : Str) (h : c ∉ s) (i : Nat) : emScan data c s i = some none := by
  induction s generalizing i with
  | nil => rfl
  | cons d r ih =>
    have hd : d ≠ c := fun e => h (e ▸ List.mem_cons_self)
    simp only [emScan, hd, if_false]
    exact ih (fun hh => h (List.mem_cons_of_mem _ hh)) _

theorem find_none_of_not_mem {c : Char} {pt : Str} {s : Str} (h : c ∉ s) : find (c :: pt) s = none := by
  induction s with
  | nil => rfl
  | cons d r ih =>
    have hd : d ≠ c := fun e => h (e ▸ List.mem_cons_self)
    simp [find_cons, startsWith, hd, ih (fun hh => h (List.mem_cons_of_mem _ hh))]

theorem find_none_of_not_mem' {pat : Str} {c : Char} (hc : c ∈ pat) {s : Str} (h : c ∉ s) : find pat s = none := by
  rw [find_none_iff]
  intro pre post e
  exact h (by rw [e]; simp [hc])

/-- text in which no pattern from `pi ≥ 2` on can match: no `[`, `!`, `&`, `*`, `_`, line break -/
def Quiet (s : Str) : Prop := '[' ∉ s ∧ '!' ∉ s ∧ '&' ∉ s ∧ '*' ∉ s ∧ '_' ∉ s ∧ '\n' ∉ s

/-- nothing for patterns 0 and 1 either -/
def Quiet01 (s : Str) : Prop := '`' ∉ s ∧ '\\' ∉ s

theorem findMatch_quiet (cfg : Inline.Cfg) (pi : Nat) (h2 : 2 ≤ pi) (D : Str) (st : St) (hD : Quiet D) :
    findMatch cfg pi D 0 st = some (none, st) := by
  obtain ⟨q1, q2, q3, q4, q5, q6⟩ := hD
  have hls : ∀ pi', linkScan cfg st.stash pi' D none D 0 = none := by
    intro pi'; apply linkScan_none; split <;> assumption
  have hbr : find [' ', ' ', '\n'] D = none := find_none_of_not_mem' (c := '\n') (by simp) q6
  by_cases h16 : pi < 16
  · have : pi = 2 ∨ pi = 3 ∨ pi = 4 ∨ pi = 5 ∨ pi = 6 ∨ pi = 7 ∨ pi = 8 ∨ pi = 9 ∨ pi = 10 ∨ pi = 11 ∨ pi = 12 ∨
        pi = 13 ∨ pi = 14 ∨ pi = 15 := by omega
    rcases this with rfl | rfl | rfl | rfl | rfl | rfl | rfl | rfl | rfl | rfl | rfl | rfl | rfl | rfl <;>
      simp [findMatch, hls, hbr, entityFind, entityScan_none D q3, nsFind, nsScan_none D q4 q5,
        emScan_none D _ D q4, emScan_none D _ D q5]
  · unfold findMatch
    have : ¬ (2 ≤ pi ∧ pi ≤ 7) := by omega
    simp only [List.drop_zero, Nat.not_lt_zero, if_false, gt_iff_lt]
    split <;> first | omega | simp [this]

theorem applyPattern_none (cfg : Inline.Cfg) (hi : HI) (pi : Nat) (D : Str) (si : Nat) (st : St)
    (h : findMatch cfg pi D si st = some (none, st)) : applyPattern cfg hi pi D si st = some (D, false, 0, st) := by
  simp [applyPattern, h]

theorem hiLoop_step (ap : Nat → Str → Nat → St → Option (Str × Bool × Nat × St)) (g : Nat) (data : Str)
    (pi si : Nat) (st : St) (hpi : pi < 16) (d : Str) (m : Bool) (si' : Nat) (st' : St)
    (h : ap pi data si st = some (d, m, si', st')) :
    hiLoop ap (g + 1) data pi si st = hiLoop ap g d (if m then pi else pi + 1) si' st' := by
  simp [hiLoop, patternCount, hpi, h]

/-- the pattern loop from `pi ≥ 2` on leaves quiet text as it is -/
theorem hiLoop_quiet (cfg : Inline.Cfg) (hi : HI) (D : Str) (st : St) (hD : Quiet D) :
    ∀ (k pi g : Nat), pi + k = 16 → 2 ≤ pi → k + 1 ≤ g → hiLoop (applyPattern cfg hi) g D pi 0 st = some (D, st) := by
  intro k
  induction k with
  | zero =>
    intro pi g h _ hg
    obtain ⟨g, rfl⟩ : ∃ g', g = g' + 1 := ⟨g - 1, by omega⟩
    have : pi = 16 := by omega
    subst this
    simp [hiLoop, patternCount]
  | succ k ih =>
    intro pi g h h2 hg
    obtain ⟨g, rfl⟩ : ∃ g', g = g' + 1 := ⟨g - 1, by omega⟩
    rw [hiLoop_step _ _ D pi 0 st (by omega) _ _ _ _
      (applyPattern_none cfg hi pi D 0 st (findMatch_quiet cfg pi h2 D st hD))]
    simp only [Bool.false_eq_true, if_false]
    exact ih (pi + 1) g (by omega) (by omega) (by omega)

theorem loopFuel_ge (n : Nat) : 64 ≤ loopFuel n := by
  unfold loopFuel
  have : 4 ≤ (n + 2) * (n + 2) := Nat.mul_le_mul (by omega : 2 ≤ n + 2) (by omega : 2 ≤ n + 2)
  rw [Nat.mul_assoc]
  omega

/-- `__handleInline(text, pi)` for quiet text and `pi ≥ 2` -/
theorem handleInline_quiet (cfg : Inline.Cfg) (f : Nat) (D : Str) (pi : Nat) (st : St) (hD : Quiet D)
    (h2 : 2 ≤ pi) (h16 : pi ≤ 16) : handleInline cfg (f + 1) D pi st = some (D, st) := by
  simp only [handleInline]
  have := loopFuel_ge D.length
  exact hiLoop_quiet cfg _ D st hD (16 - pi) pi _ (by omega) h2 (by omega)


/-! ### `getText`, `handleMatch` of the reference patterns -/

theorem getTextLoop_plain (text rest : Str) (idx : Nat) (acc : Str) (h1 : '[' ∉ text) (h2 : ']' ∉ text) :
    getTextLoop (text ++ ']' :: rest) 1 idx acc = (acc.reverse ++ text, idx + text.length + 1, true) := by
  induction text generalizing idx acc with
  | nil => simp [getTextLoop]
  | cons c r ih =>
    have c1 : c ≠ '[' := fun e => h1 (e ▸ List.mem_cons_self)
    have c2 : c ≠ ']' := fun e => h2 (e ▸ List.mem_cons_self)
    simp only [List.cons_append, getTextLoop, c1, c2, if_false, Nat.succ_ne_zero]
    rw [ih (idx + 1) (c :: acc) (fun hh => h1 (List.mem_cons_of_mem _ hh)) (fun hh => h2 (List.mem_cons_of_mem _ hh))]
    simp; omega

theorem getText_plain (A text rest : Str) (h1 : '[' ∉ text) (h2 : ']' ∉ text) :
    getText (A ++ text ++ ']' :: rest) A.length = (text, A.length + text.length + 1, true) := by
  have hd : (A ++ text ++ ']' :: rest).drop A.length = text ++ ']' :: rest := by simp [List.append_assoc]
  simp [getText, getTextLoop_plain text rest _ [] h1 h2]

theorem phSub_id (lookup : Str → Option Str) (s : Str) (h : STX ∉ s) : phSub lookup 0 s = s := by
  induction s with
  | nil => rfl
  | cons c r ih =>
    have hc : c ≠ STX := fun e => h (e ▸ List.mem_cons_self)
    simp [phSub, hc, ih (fun hh => h (List.mem_cons_of_mem _ hh))]

theorem unescape_id (stash : List StashItem) (s : Str) (h : STX ∉ s) : unescape stash s = s := phSub_id _ s h

/-- the key the model looks up for `[text][label]` / `[text][]` -/
def useKey (text label : Str) : Str := if label.isEmpty then normUse text else normUse label

/-- **`handleMatch` of `ReferenceInlineProcessor` / `ImageReferenceInlineProcessor`** at `[text][label]`
    (`A` ends with the `[` resp. `![` of the match, `sp` is the optional white-space character of `RE_LINK`) -/
theorem linkHandle_ref (cfg : Inline.Cfg) (stash : List StashItem) (pi : Nat) (hpi : pi = 2 ∨ pi = 5)
    (A text sp label post : Str) (mstart : Nat) (h1 : '[' ∉ text) (h2 : ']' ∉ text) (h3 : STX ∉ text)
    (hsp : sp = [] ∨ ∃ c, sp = [c] ∧ isSpace c = true) (hl : ']' ∉ label) :
    linkHandle cfg stash pi (A ++ text ++ ']' :: sp ++ '[' :: label ++ ']' :: post) mstart A.length =
      some (match cfg.refs.find? (fun x => x.1 = useKey text label) with
        | none => ⟨.none, mstart, ((A ++ text ++ [']']).length + sp.length + label.length + 2 : Nat)⟩
        | some (_, href, title) =>
          ⟨.el (if pi = 5 then imgEl href title text else linkEl href title text), mstart,
            ((A ++ text ++ [']']).length + sp.length + label.length + 2 : Nat)⟩) := by
  have hdata : A ++ text ++ ']' :: sp ++ '[' :: label ++ ']' :: post =
      A ++ text ++ ']' :: (sp ++ '[' :: label ++ ']' :: post) := by simp [List.append_assoc]
  have hg := getText_plain A text (sp ++ '[' :: label ++ ']' :: post) h1 h2
  have hdata2 : A ++ text ++ ']' :: sp ++ '[' :: label ++ ']' :: post =
      (A ++ text ++ [']']) ++ sp ++ '[' :: label ++ ']' :: post := by simp [List.append_assoc]
  have he := evalId_spec (A ++ text ++ [']']) sp label post text hsp hl
  have hlen : (A ++ text ++ [']']).length = A.length + text.length + 1 := by simp; omega
  rw [hlen, ← hdata2, hdata] at he
  have hkey : wsClean (if label.isEmpty then lower text else lower label) = useKey text label := by
    unfold useKey; split <;> exact wsClean_lower _
  have hp34 : (decide (pi = 3) || decide (pi = 4)) = false := by rcases hpi with rfl | rfl <;> rfl
  have hp67 : (decide (pi = 6) || decide (pi = 7)) = false := by rcases hpi with rfl | rfl <;> rfl
  unfold linkHandle
  rw [hdata, hg]
  simp only [Bool.not_true, Bool.false_eq_true, if_false, hp34, hp67, he, hkey, hlen]
  cases cfg.refs.find? (fun x => x.1 = useKey text label) with
  | none => rfl
  | some x =>
    obtain ⟨k, href, title⟩ := x
    rcases hpi with rfl | rfl
    · simp [linkEl]
    · simp [imgEl, unescape_id stash text h3]


/-! ### plain text -/

theorem plain_not_mem {s : Str} (h : PlainText s = true) {x : Char} (hx : inlPlain x = false) : x ∉ s := by
  intro hm
  have := List.all_eq_true.mp h x hm
  rw [hx] at this; exact Bool.false_ne_true this

theorem plain_quiet {s : Str} (h : PlainText s = true) : Quiet s :=
  ⟨plain_not_mem h (by decide), plain_not_mem h (by decide), plain_not_mem h (by decide),
   plain_not_mem h (by decide), plain_not_mem h (by decide), plain_not_mem h (by decide)⟩

theorem plain_quiet01 {s : Str} (h : PlainText s = true) : Quiet01 s :=
  ⟨plain_not_mem h (by decide), plain_not_mem h (by decide)⟩

theorem plain_append {a b : Str} (ha : PlainText a = true) (hb : PlainText b = true) : PlainText (a ++ b) = true := by
  simp only [PlainText, List.all_append, Bool.and_eq_true] at *; exact ⟨ha, hb⟩

/-- the characters of an inline placeholder -/
def phChar (c : Char) : Bool := phPrefix.contains c || isAsciiDigit c || c == ETX

theorem phChar_of_mem_placeholder {n : Nat} {c : Char} (h : c ∈ placeholder n) : phChar c = true := by
  simp only [placeholder, List.mem_append, List.mem_singleton] at h
  rcases h with (h | h) | h
  · simp [phChar, h]
  · simp [phChar, pad4_digits n c h]
  · simp [phChar, h]

theorem not_mem_placeholder {n : Nat} {x : Char} (hx : phChar x = false) : x ∉ placeholder n := by
  intro h; rw [phChar_of_mem_placeholder h] at hx; exact Bool.noConfusion hx

theorem quiet_append {a b : Str} (ha : Quiet a) (hb : Quiet b) : Quiet (a ++ b) := by
  obtain ⟨a1, a2, a3, a4, a5, a6⟩ := ha
  obtain ⟨b1, b2, b3, b4, b5, b6⟩ := hb
  refine ⟨?_, ?_, ?_, ?_, ?_, ?_⟩ <;> (intro h; rcases List.mem_append.1 h with h | h <;> contradiction)

theorem quiet_placeholder (n : Nat) : Quiet (placeholder n) :=
  ⟨not_mem_placeholder (by decide), not_mem_placeholder (by decide), not_mem_placeholder (by decide),
   not_mem_placeholder (by decide), not_mem_placeholder (by decide), not_mem_placeholder (by decide)⟩

/-! ### the scan reaches the `[` of the reference -/

theorem linkScan_link_at (cfg : Inline.Cfg) (stash : List StashItem) (pi : Nat)
    (hpi : ¬ (pi = 4 ∨ pi = 5 ∨ pi = 7)) (data pre rest : Str) (prev0 : Option Char) (i : Nat)
    (h1 : '[' ∉ pre) (h2 : '!' ∉ pre) (h3 : prev0 ≠ some '!') :
    linkScan cfg stash pi data prev0 (pre ++ '[' :: rest) i =
      match linkHandle cfg stash pi data (i + pre.length) (i + pre.length + 1) with
      | some f => some f
      | none => linkScan cfg stash pi data (some '[') rest (i + pre.length + 1) := by
  have himg : (decide (pi = 4) || decide (pi = 5) || decide (pi = 7)) = false := by
    simp only [not_or] at hpi; simp [hpi.1, hpi.2.1, hpi.2.2]
  induction pre generalizing prev0 i with
  | nil =>
    have : (prev0 != some '!') = true := by simpa using h3
    simp only [List.nil_append, linkScan, himg, Bool.false_eq_true, if_false, decide_true, Bool.true_and, this,
      if_true, List.length_nil, Nat.add_zero]
    cases linkHandle cfg stash pi data i (i + 1) <;> rfl
  | cons c r ih =>
    have c1 : c ≠ '[' := fun e => h1 (e ▸ List.mem_cons_self)
    have c2 : c ≠ '!' := fun e => h2 (e ▸ List.mem_cons_self)
    simp only [List.cons_append, linkScan, himg, Bool.false_eq_true, if_false, c1, decide_false, Bool.false_and]
    rw [ih (some c) (i + 1) (fun hh => h1 (List.mem_cons_of_mem _ hh)) (fun hh => h2 (List.mem_cons_of_mem _ hh))
      (by simpa using c2)]
    simp only [List.length_cons]
    have e1 : i + 1 + r.length = i + (r.length + 1) := by omega
    rw [e1]

theorem linkScan_image_at (cfg : Inline.Cfg) (stash : List StashItem) (pi : Nat)
    (hpi : pi = 4 ∨ pi = 5 ∨ pi = 7) (data pre rest : Str) (prev0 : Option Char) (i : Nat) (h1 : '!' ∉ pre)
    (f : Found) (hf : linkHandle cfg stash pi data (i + pre.length) (i + pre.length + 2) = some f) :
    linkScan cfg stash pi data prev0 (pre ++ '!' :: '[' :: rest) i = some f := by
  have himg : (decide (pi = 4) || decide (pi = 5) || decide (pi = 7)) = true := by
    rcases hpi with rfl | rfl | rfl <;> rfl
  induction pre generalizing prev0 i with
  | nil =>
    simp only [List.length_nil, Nat.add_zero] at hf
    rw [List.nil_append, linkScan]
    simp only [himg, if_true, decide_true, Bool.true_and, List.head?_cons, beq_self_eq_true, hf]
  | cons c r ih =>
    have c1 : c ≠ '!' := fun e => h1 (e ▸ List.mem_cons_self)
    rw [List.cons_append, linkScan]
    simp only [himg, if_true, c1, decide_false, Bool.false_and, Bool.false_eq_true, if_false]
    exact ih (some c) (i + 1) (fun hh => h1 (List.mem_cons_of_mem _ hh)) (by
      rw [← hf]; simp only [List.length_cons]
      have e1 : i + 1 + r.length = i + (r.length + 1) := by omega
      rw [e1])

/-! ### `__applyPattern` when the match produces an element without children -/

theorem pyDrop_nat (D : Str) (n : Nat) : pyDrop D (n : Int) = D.drop n := by
  have : ¬ ((n : Int) < 0) := by omega
  simp only [pyDrop, pyIdx, this, if_false, Int.toNat_natCast]
  by_cases h : n ≤ D.length
  · rw [Nat.min_eq_left h]
  · rw [Nat.min_eq_right (by omega), List.drop_of_length_le (Nat.le_refl _), List.drop_of_length_le (by omega)]

theorem applyPattern_leaf (cfg : Inline.Cfg) (hi : HI) (pi : Nat) (D : Str) (si : Nat) (st : St) (n : Node)
    (start stop : Nat) (hf : findMatch cfg pi D si st = some (some ⟨.el n, start, (stop : Nat)⟩, st))
    (hc : n.children = []) (htl : n.tail = none) (hta : n.textAtomic = false)
    (hhi : ∀ t, n.text = some t → t ≠ [] → hi t (pi + 1) st = some (t, st)) :
    applyPattern cfg hi pi D si st =
      some (D.take start ++ placeholder st.stash.length ++ D.drop stop, true, 0,
        { st with stash := st.stash ++ [.node n] }) := by
  obtain ⟨tag, attrs, text, ta, children, tail, tla⟩ := n
  simp only at hc htl hta hhi
  subst hc htl hta
  have hr : hiOpt hi text false (pi + 1) st = some (text, st) := by
    unfold hiOpt
    cases text with
    | none => simp [Node.truthy]
    | some t =>
      cases t with
      | nil => simp [Node.truthy]
      | cons a b => simp [Node.truthy, hhi (a :: b) rfl (by simp)]
  have hr2 : ∀ b st', hiOpt hi none b pi st' = some (none, st') := by intro b st'; simp [hiOpt, Node.truthy]
  simp only [applyPattern, hf, Bool.and_false, Bool.false_eq_true, if_false, hiNode, hr, hr2, hiNodes, stashNode,
    pyDrop_nat]


/-! ### the pattern loop on a paragraph text with one reference-style link -/

/-- `pre[text]sp[label]post` -/
def refSrc (pre text sp label post : Str) : Str :=
  pre ++ ['['] ++ text ++ [']'] ++ sp ++ ['['] ++ label ++ [']'] ++ post

/-- `pre![alt]sp[label]post` -/
def imgSrc (pre alt sp label post : Str) : Str :=
  pre ++ ['!', '['] ++ alt ++ [']'] ++ sp ++ ['['] ++ label ++ [']'] ++ post

/-- the optional white-space character of `RE_LINK = \s?\[…\]` between `[text]` and `[label]` -/
def SpOK (sp : Str) : Prop := sp = [] ∨ ∃ c, sp = [c] ∧ isSpace c = true

/-- a label at the place of use: no `]` (it would end the label), no backtick or backslash (patterns 0 and 1 run
    before the reference pattern) -/
def UseLabelOK (label : Str) : Bool := label.all (fun c => c != ']' && c != '`' && c != '\\')

theorem useLabel_facts {label : Str} (h : UseLabelOK label = true) : ']' ∉ label ∧ '`' ∉ label ∧ '\\' ∉ label := by
  simp only [UseLabelOK, List.all_eq_true, Bool.and_eq_true, bne_iff_ne, ne_eq] at h
  exact ⟨fun hm => (h _ hm).1.1 rfl, fun hm => (h _ hm).1.2 rfl, fun hm => (h _ hm).2 rfl⟩

theorem sp_not_mem {sp : Str} (h : SpOK sp) {x : Char} (hx : isSpace x = false) : x ∉ sp := by
  rcases h with rfl | ⟨c, rfl, hc⟩
  · simp
  · intro hm; simp at hm; subst hm; rw [hc] at hx; exact Bool.noConfusion hx

theorem findMatch0_none (cfg : Inline.Cfg) (D : Str) (st : St) (h : '`' ∉ D) :
    findMatch cfg 0 D 0 st = some (none, st) := by
  simp [findMatch, btFind_none D h]

theorem findMatch1_none (cfg : Inline.Cfg) (D : Str) (st : St) (h : '\\' ∉ D) :
    findMatch cfg 1 D 0 st = some (none, st) := by
  simp [findMatch, escScan_none D h]

theorem refSrc_quiet01 {pre text sp label post : Str} (hpre : PlainText pre = true) (htext : PlainText text = true)
    (hpost : PlainText post = true) (hsp : SpOK sp) (hl : UseLabelOK label = true) :
    Quiet01 (refSrc pre text sp label post) := by
  obtain ⟨_, l2, l3⟩ := useLabel_facts hl
  have a := plain_quiet01 hpre; have b := plain_quiet01 htext; have c := plain_quiet01 hpost
  constructor <;>
  · simp only [refSrc, List.mem_append, List.mem_singleton, not_or]
    refine ⟨⟨⟨⟨⟨⟨⟨⟨?_, by decide⟩, ?_⟩, by decide⟩, ?_⟩, by decide⟩, ?_⟩, by decide⟩, ?_⟩
    all_goals first | exact a.1 | exact a.2 | exact b.1 | exact b.2 | exact c.1 | exact c.2 | exact l2 | exact l3
                    | exact sp_not_mem hsp (by decide)

theorem refSrc_decomp (pre text sp label post : Str) :
    refSrc pre text sp label post = (pre ++ ['[']) ++ text ++ ']' :: sp ++ '[' :: label ++ ']' :: post := by
  simp [refSrc, List.append_assoc]

theorem refSrc_take (pre text sp label post : Str) : (refSrc pre text sp label post).take pre.length = pre := by
  simp [refSrc, List.append_assoc]

theorem refSrc_drop (pre text sp label post : Str) :
    (refSrc pre text sp label post).drop (((pre ++ ['[']) ++ text ++ [']']).length + sp.length + label.length + 2) =
      post := by
  have : refSrc pre text sp label post = (pre ++ ['['] ++ text ++ [']'] ++ sp ++ ['['] ++ label ++ [']']) ++ post := rfl
  rw [this]
  apply List.drop_left'
  simp; omega

/-- pattern 2 at the reference: what `findMatch` returns -/
theorem findMatch2_ref (cfg : Inline.Cfg) (st : St) (pre text sp label post : Str) (hpre : PlainText pre = true)
    (htext : PlainText text = true) (hsp : SpOK sp) (hl : UseLabelOK label = true) :
    findMatch cfg 2 (refSrc pre text sp label post) 0 st =
      some (some (match cfg.refs.find? (fun x => x.1 = useKey text label) with
        | none => ⟨.none, pre.length, (((pre ++ ['[']) ++ text ++ [']']).length + sp.length + label.length + 2 : Nat)⟩
        | some (_, href, title) =>
          ⟨.el (linkEl href title text), pre.length,
            (((pre ++ ['[']) ++ text ++ [']']).length + sp.length + label.length + 2 : Nat)⟩), st) := by
  have hlh := linkHandle_ref cfg st.stash 2 (Or.inl rfl) (pre ++ ['[']) text sp label post pre.length
    (plain_not_mem htext (by decide)) (plain_not_mem htext (by decide)) (plain_not_mem htext (by decide)) hsp
    (useLabel_facts hl).1
  rw [← refSrc_decomp] at hlh
  have hscan := linkScan_link_at cfg st.stash 2 (by decide) (refSrc pre text sp label post) pre
    (text ++ ']' :: sp ++ '[' :: label ++ ']' :: post) none 0 (plain_not_mem hpre (by decide))
    (plain_not_mem hpre (by decide)) (by simp)
  have hlen : (pre ++ ['[']).length = 0 + pre.length + 1 := by simp
  rw [hlen] at hlh
  simp only [Nat.zero_add] at hscan hlh
  rw [hlh] at hscan
  have hD : refSrc pre text sp label post = pre ++ '[' :: (text ++ ']' :: sp ++ '[' :: label ++ ']' :: post) := by
    simp [refSrc, List.append_assoc]
  unfold findMatch
  simp only [List.drop_zero, Nat.not_lt_zero, if_false, gt_iff_lt, Nat.le_refl, Nat.reduceLeDiff, if_true]
  rw [show linkScan cfg st.stash 2 (refSrc pre text sp label post) none (refSrc pre text sp label post) 0 =
    linkScan cfg st.stash 2 (refSrc pre text sp label post) none
      (pre ++ '[' :: (text ++ ']' :: sp ++ '[' :: label ++ ']' :: post)) 0 by rw [← hD], hscan]
  cases cfg.refs.find? (fun x => x.1 = useKey text label) <;> simp


theorem setAttr_fields (n : Node) (k v : Str) :
    (n.setAttr k v).children = n.children ∧ (n.setAttr k v).tail = n.tail ∧ (n.setAttr k v).text = n.text ∧
      (n.setAttr k v).textAtomic = n.textAtomic ∧ (n.setAttr k v).tailAtomic = n.tailAtomic ∧
      (n.setAttr k v).tag = n.tag := by
  unfold Node.setAttr; split <;> simp

theorem linkEl_fields (url : Str) (title : Option Str) (text : Str) :
    (linkEl url title text).children = [] ∧ (linkEl url title text).tail = none ∧
      (linkEl url title text).textAtomic = false ∧ (linkEl url title text).text = some text ∧
      (linkEl url title text).tailAtomic = false ∧ (linkEl url title text).tag = .name "a".toList := by
  unfold linkEl
  split <;> simp [setAttr_fields, mkEl]

theorem imgEl_fields (url : Str) (title : Option Str) (alt : Str) :
    (imgEl url title alt).children = [] ∧ (imgEl url title alt).tail = none ∧
      (imgEl url title alt).textAtomic = false ∧ (imgEl url title alt).text = none ∧
      (imgEl url title alt).tailAtomic = false ∧ (imgEl url title alt).tag = .name "img".toList := by
  unfold imgEl
  split <;> simp [setAttr_fields, mkEl]

/-- **`__handleInline` on `pre[text][label]post`, label defined**: patterns 0 and 1 find nothing, pattern 2 replaces
    the reference by a placeholder for the `<a>` element, the rest finds nothing. -/
theorem handleInline_ref_found (cfg : Inline.Cfg) (f : Nat) (st : St) (pre text sp label post : Str)
    (hpre : PlainText pre = true) (htext : PlainText text = true) (hpost : PlainText post = true) (hsp : SpOK sp)
    (hl : UseLabelOK label = true) (k url : Str) (title : Option Str)
    (hfind : cfg.refs.find? (fun x => x.1 = useKey text label) = some (k, url, title)) :
    handleInline cfg (f + 2) (refSrc pre text sp label post) 0 st =
      some (pre ++ placeholder st.stash.length ++ post,
        { st with stash := st.stash ++ [.node (linkEl url title text)] }) := by
  obtain ⟨q1, q2⟩ := refSrc_quiet01 hpre htext hpost hsp hl
  have hfm := findMatch2_ref cfg st pre text sp label post hpre htext hsp hl
  rw [hfind] at hfm
  simp only at hfm
  obtain ⟨e1, e2, e3, e4, _, _⟩ := linkEl_fields url title text
  have hap := applyPattern_leaf cfg (fun d p s => handleInline cfg (f + 1) d p s) 2 _ 0 st _ _ _ hfm e1 e2 e3
    (fun t ht _ => by
      rw [e4] at ht; cases ht
      exact handleInline_quiet cfg f text 3 st (plain_quiet htext) (by omega) (by omega))
  rw [refSrc_take, refSrc_drop] at hap
  obtain ⟨g, hg⟩ : ∃ g, loopFuel (refSrc pre text sp label post).length = g + 3 :=
    ⟨loopFuel (refSrc pre text sp label post).length - 3, by have := loopFuel_ge (refSrc pre text sp label post).length; omega⟩
  have hg' : 15 ≤ g := by have := loopFuel_ge (refSrc pre text sp label post).length; omega
  rw [show handleInline cfg (f + 2) (refSrc pre text sp label post) 0 st =
    hiLoop (applyPattern cfg fun d p s => handleInline cfg (f + 1) d p s)
      (loopFuel (refSrc pre text sp label post).length) (refSrc pre text sp label post) 0 0 st from rfl]
  rw [hg, hiLoop_step _ _ _ 0 0 st (by omega) _ _ _ _ (applyPattern_none cfg _ 0 _ 0 st (findMatch0_none cfg _ st q1))]
  simp only [Bool.false_eq_true, if_false, Nat.zero_add]
  rw [hiLoop_step _ _ _ 1 0 st (by omega) _ _ _ _ (applyPattern_none cfg _ 1 _ 0 st (findMatch1_none cfg _ st q2))]
  simp only [Bool.false_eq_true, if_false, Nat.reduceAdd]
  rw [hiLoop_step _ _ _ 2 0 st (by omega) _ _ _ _ hap]
  simp only [if_true]
  exact hiLoop_quiet cfg _ _ _
    (quiet_append (quiet_append (plain_quiet hpre) (quiet_placeholder _)) (plain_quiet hpost)) 14 2 g rfl (by omega)
    (by omega)


/-! ### `__processPlaceholders` puts the element back

(`find_prefix_after` … `stashGet_pad4` follow the corresponding lemmas of the C07 inline development) -/

theorem find_prefix_after {ph : Char} {pt : Str} (B X : Str) (h : ph ∉ B) :
    find (ph :: pt) (B ++ (ph :: pt) ++ X) = some B.length := by
  induction B with
  | nil => simp [find_cons]
  | cons b B ih =>
    have hb : b ≠ ph := fun e => h (e ▸ List.mem_cons_self)
    have := ih (fun hh => h (List.mem_cons_of_mem _ hh))
    simp only [List.cons_append, List.append_assoc] at this ⊢
    rw [find_cons, this]
    simp [hb]

theorem placeholder_eq (n : Nat) : placeholder n = phPrefix ++ (pad4 n ++ [ETX]) := by
  simp [placeholder, List.append_assoc]

theorem spanLen_pad4 (n : Nat) (X : Str) : spanLen isAsciiDigit (pad4 n ++ ETX :: X) = (pad4 n).length := by
  rw [spanLen_append_of_all (List.all_eq_true.2 (pad4_digits n))]
  simp [spanLen_cons, show isAsciiDigit ETX = false by decide]

theorem phAt_pad4 (n : Nat) (X : Str) : phAt (pad4 n ++ ETX :: X) = some (pad4 n, (pad4 n).length + 1) := by
  have hpos : 0 < (pad4 n).length := by have := pad4_length n; omega
  simp [phAt, spanLen_pad4, hpos]

theorem findPh_placeholder (Q : Str) (n : Nat) (X : Str) :
    findPh (Q ++ placeholder n ++ X) Q.length = (some (pad4 n), (Q ++ placeholder n).length) := by
  have hd : (Q ++ placeholder n ++ X).drop Q.length = placeholder n ++ X := by simp [List.append_assoc]
  have hle : ¬ Q.length > (Q ++ placeholder n ++ X).length := by simp
  simp only [findPh, hle, if_false, hd]
  have : findPhScan (placeholder n ++ X) Q.length = some (pad4 n, Q.length + phPrefixLen + ((pad4 n).length + 1)) := by
    rw [placeholder_eq]
    simp only [phPrefix, List.cons_append, findPhScan, startsWith_cons_cons, decide_true, Bool.true_and]
    have hsw : startsWith ("klzzwxh:".toList ++ (pad4 n ++ [ETX]) ++ X) "klzzwxh:".toList = true := by
      rw [List.append_assoc]; exact startsWith_append _ _
    have hdrop : (STX :: ("klzzwxh:".toList ++ (pad4 n ++ [ETX]) ++ X)).drop phPrefixLen = pad4 n ++ ETX :: X := by
      simp [phPrefixLen, List.append_assoc]
    simp only [hsw, if_true, hdrop, phAt_pad4]
  rw [this]
  simp [placeholder, phPrefix, phPrefixLen]; omega

theorem stashGet_pad4 (S : List StashItem) (n : Nat) : stashGet S (pad4 n) = S[n]? := by
  simp [stashGet]

/-- `__processPlaceholders` on text without placeholder, into an element that has no text yet -/
theorem processPlaceholders_plain (stash : List StashItem) (f : Nat) (t : Str) (p : Node) (h : STX ∉ t)
    (ht : t ≠ []) (hp : p.text = none) :
    processPlaceholders stash (f + 1) t false p true = some ([], { p with text := some t, textAtomic := false }) := by
  have hne : t.isEmpty = false := by cases t with | nil => exact absurd rfl ht | cons a b => rfl
  have hfind : find phPrefix t = none := find_none_of_not_mem h
  simp only [processPlaceholders, hne, Bool.false_eq_true, if_false, ppLoop, Nat.not_lt_zero, gt_iff_lt,
    List.drop_zero, hfind, linkText, hp, Node.truthy, Bool.not_true]
  simp

/-- an element without children and tail whose text contains no placeholder comes out of the stash as it is -/
theorem procNode_leaf (stash : List StashItem) (f : Nat) (a : Node) (hc : a.children = []) (htl : a.tail = none)
    (hta : a.textAtomic = false) (htx : ∀ t, a.text = some t → STX ∉ t) :
    procNode (fun d at' p isT => processPlaceholders stash (f + 1) d at' p isT) a = some a := by
  obtain ⟨tag, attrs, text, ta, children, tail, tla⟩ := a
  simp only at hc htl hta htx
  subst hc htl hta
  have h1 : petTail (fun d at' p isT => processPlaceholders stash (f + 1) d at' p isT)
      ⟨tag, attrs, text, false, [], none, tla⟩ = some (⟨tag, attrs, text, false, [], none, tla⟩, []) := by
    simp [petTail, Node.truthy]
  have h2 : petText (fun d at' p isT => processPlaceholders stash (f + 1) d at' p isT)
      ⟨tag, attrs, text, false, [], none, tla⟩ = some ⟨tag, attrs, text, false, [], none, tla⟩ := by
    unfold petText
    split
    · rename_i hcond
      cases text with
      | none => simp [Node.truthy] at hcond
      | some t =>
        cases t with
        | nil => simp [Node.truthy] at hcond
        | cons x y =>
          simp only [Option.getD_some]
          rw [processPlaceholders_plain stash f (x :: y) _ (htx _ rfl) (by simp) rfl]
          simp
    · rfl
  simp only [procNode, h1, h2, procKids, List.append_nil]


theorem optStr_nil : optStr [] = none := rfl
theorem optStr_cons (c : Char) (s : Str) : optStr (c :: s) = some (c :: s) := rfl

/-- **`__processPlaceholders` on `pre‹placeholder›post`**: the stashed element comes back between the two texts:
    `pre` becomes the text of the parent, `post` the tail of the element -/
theorem ppTop_one (S : List StashItem) (html : List Str) (a : Node) (hc : a.children = []) (htl : a.tail = none)
    (hta : a.textAtomic = false) (htla : a.tailAtomic = false) (htx : ∀ t, a.text = some t → STX ∉ t)
    (pre post : Str) (hpre : STX ∉ pre) (hpost : STX ∉ post) (parent : Node) (hp : parent.text = none)
    (hpa : parent.textAtomic = false) :
    ppTop { stash := S ++ [.node a], html := html } (pre ++ placeholder S.length ++ post) false parent true =
      some ([{ a with tail := optStr post }], { parent with text := optStr pre }) := by
  have hne : (pre ++ placeholder S.length ++ post).isEmpty = false := by
    simp [placeholder, phPrefix]
  have hfind : find phPrefix (pre ++ placeholder S.length ++ post) = some pre.length := by
    have := find_prefix_after (ph := STX) (pt := "klzzwxh:".toList) pre (pad4 S.length ++ [ETX] ++ post) hpre
    rw [← this, placeholder_eq]
    simp [phPrefix, List.append_assoc]
  have hph := findPh_placeholder pre S.length post
  have hget : stashGet (S ++ [StashItem.node a]) (pad4 S.length) = some (.node a) := by
    rw [stashGet_pad4]; simp
  have hnest := procNode_leaf (S ++ [.node a]) (S ++ [StashItem.node a]).length a hc htl hta htx
  have hslice : Inline.slice (pre ++ placeholder S.length ++ post) 0 pre.length = pre := by
    simp [Inline.slice, List.append_assoc]
  have hdrop : (pre ++ placeholder S.length ++ post).drop (pre ++ placeholder S.length).length = post := by simp
  have hfind2 : find phPrefix post = none := find_none_of_not_mem hpost
  have hle : ¬ (pre ++ placeholder S.length).length > (pre ++ placeholder S.length ++ post).length := by
    simp
  obtain ⟨tag, attrs, text, ta, children, tail, tla⟩ := a
  obtain ⟨ptag, pattrs, ptext, pta, pchildren, ptail, ptla⟩ := parent
  simp only at hc htl hta htla hp hpa
  subst hc htl hta htla hp hpa
  unfold ppTop processPlaceholders
  simp only [hne, Bool.false_eq_true, if_false]
  rw [show (pre ++ placeholder S.length ++ post).length + 2 = ((pre ++ placeholder S.length ++ post).length) + 1 + 1
    from rfl]
  rw [ppLoop]
  simp only [Nat.not_lt_zero, gt_iff_lt, if_false, List.drop_zero, hfind, Nat.zero_add, hph, Option.bind_some, hget,
    hslice, hnest]
  rw [ppLoop]
  simp only [hle, if_false, hdrop, hfind2]
  cases pre with
  | nil =>
    cases post with
    | nil => simp [linkText, optStr_nil]
    | cons c r => simp [linkText, optStr_nil, optStr_cons, Node.truthy]
  | cons d e =>
    cases post with
    | nil => simp [linkText, optStr_nil, optStr_cons, Node.truthy]
    | cons c r => simp [linkText, optStr_cons, Node.truthy]


/-! ### `InlineProcessor.run` on `<div><p>pre[text][label]post</p></div>` -/

/-- the paragraph after the inline processor: `<p>pre<a …>text</a>post</p>` -/
def linkPara (pre post : Str) (a : Node) : Node :=
  { Node.el "p" with text := optStr pre, children := [{ a with tail := optStr post }] }

theorem refSrc_ne_nil (pre text sp label post : Str) : refSrc pre text sp label post ≠ [] := by
  simp [refSrc]

theorem plain_no_stx {s : Str} (h : PlainText s = true) : STX ∉ s := plain_not_mem h (by decide)

theorem visitChild_ref_found (cfg : Inline.Cfg) (pre text sp label post : Str)
    (hpre : PlainText pre = true) (htext : PlainText text = true) (hpost : PlainText post = true) (hsp : SpOK sp)
    (hl : UseLabelOK label = true) (k url : Str) (title : Option Str)
    (hfind : cfg.refs.find? (fun x => x.1 = useKey text label) = some (k, url, title)) :
    visitChild cfg (Block.mkText "p" (refSrc pre text sp label post)) { st := { html := [] } } =
      some (linkPara pre post (linkEl url title text), [],
        { st := { stash := [.node (linkEl url title text)], html := [] }, pushes := [[0, 0]] }) := by
  obtain ⟨e1, e2, e3, e4, e5, _⟩ := linkEl_fields url title text
  have h1 : handleInlineTop cfg (refSrc pre text sp label post) { html := [] } =
      some (pre ++ placeholder 0 ++ post, { stash := [.node (linkEl url title text)], html := [] }) := by
    have := handleInline_ref_found cfg ((refSrc pre text sp label post).length + 18) { html := [] } pre text sp label
      post hpre htext hpost hsp hl k url title hfind
    simpa [handleInlineTop, depthFuel] using this
  have h2 := ppTop_one [] [] (linkEl url title text) e1 e2 e3 e5
    (fun t ht => by rw [e4] at ht; cases ht; exact plain_no_stx htext) pre post (plain_no_stx hpre)
    (plain_no_stx hpost) { Block.mkText "p" (refSrc pre text sp label post) with text := none, textAtomic := false }
    rfl rfl
  simp only [List.nil_append, List.length_nil] at h2
  have htr : Node.truthy (some (refSrc pre text sp label post)) = true := by
    cases h : refSrc pre text sp label post with
    | nil => exact absurd h (refSrc_ne_nil _ _ _ _ _)
    | cons a b => rfl
  simp only [visitChild, Block.mkText, Node.el, htr, Bool.not_false, Bool.and_self, if_true, Option.getD_some, h1]
    at h2 ⊢
  rw [h2]
  simp [Node.truthy, linkPara, Node.el]

theorem runFuel_ge (t : Node) : 64 ≤ runFuel t := by unfold runFuel; omega

/-- **`InlineProcessor.run`** on a document whose only block is the paragraph `pre[text][label]post` -/
theorem run_ref_found (cfg : Inline.Cfg) (pre text sp label post : Str)
    (hpre : PlainText pre = true) (htext : PlainText text = true) (hpost : PlainText post = true) (hsp : SpOK sp)
    (hl : UseLabelOK label = true) (k url : Str) (title : Option Str)
    (hfind : cfg.refs.find? (fun x => x.1 = useKey text label) = some (k, url, title)) :
    Inline.run cfg ((Node.el "div").append (Block.mkText "p" (refSrc pre text sp label post))) =
      some ((Node.el "div").append (linkPara pre post (linkEl url title text)),
        { stash := [.node (linkEl url title text)], html := [] }) := by
  have hv := visitChild_ref_found cfg pre text sp label post hpre htext hpost hsp hl k url title hfind
  obtain ⟨e1, _⟩ := linkEl_fields url title text
  obtain ⟨n, hn⟩ : ∃ n, runFuel ((Node.el "div").append (Block.mkText "p" (refSrc pre text sp label post))) = n + 3 :=
    ⟨runFuel ((Node.el "div").append (Block.mkText "p" (refSrc pre text sp label post))) - 3,
      by have := runFuel_ge ((Node.el "div").append (Block.mkText "p" (refSrc pre text sp label post))); omega⟩
  simp only [Inline.run, hn]
  simp only [runLoop, getAt, Node.append, Node.el, List.nil_append, withIdx, visitLoop]
  rw [hv]
  simp [setAt, visitLoop, runLoop, getAt, linkPara, e1, withIdx, Node.el]


/-! ### an undefined reference: every pattern leaves the text as it is -/

/-- `handleMatch` of `LinkInlineProcessor` / `ImageInlineProcessor` rejects `[t]` that is not followed by `(` -/
theorem linkHandle_link_reject (cfg : Inline.Cfg) (stash : List StashItem) (pi : Nat) (hpi : pi = 3 ∨ pi = 4)
    (D A t rest : Str) (m : Nat) (hD : D = A ++ t ++ ']' :: rest) (h1 : '[' ∉ t) (h2 : ']' ∉ t)
    (hr : rest.head? ≠ some '(') : linkHandle cfg stash pi D m A.length = none := by
  subst hD
  have hg := getText_plain A t rest h1 h2
  have hidx : (A ++ t ++ ']' :: rest)[A.length + t.length + 1]? = rest.head? := by
    have : A ++ t ++ ']' :: rest = (A ++ t ++ [']']) ++ rest := by simp
    rw [this, List.getElem?_append_right (by simp; omega)]
    have : A.length + t.length + 1 - (A ++ t ++ [']']).length = 0 := by simp; omega
    rw [this]; cases rest <;> rfl
  have hp34 : (decide (pi = 3) || decide (pi = 4)) = true := by rcases hpi with rfl | rfl <;> rfl
  have hne : ((A ++ t ++ ']' :: rest)[A.length + t.length + 1]? != some '(') = true := by
    rw [hidx]; simpa using hr
  unfold linkHandle
  rw [hg]
  simp only [Bool.not_true, Bool.false_eq_true, if_false, hp34, if_true, getLink, getLinkRaw, hne]
  simp

/-- `handleMatch` of the short reference patterns at `[t]` -/
theorem linkHandle_short (cfg : Inline.Cfg) (stash : List StashItem) (D A t rest : Str) (m : Nat)
    (hD : D = A ++ t ++ ']' :: rest) (h1 : '[' ∉ t) (h2 : ']' ∉ t)
    (hfind : cfg.refs.find? (fun x => x.1 = normUse t) = none) :
    linkHandle cfg stash 6 D m A.length = some ⟨.none, m, ((A.length + t.length + 1 : Nat) : Int)⟩ := by
  subst hD
  have hg := getText_plain A t rest h1 h2
  unfold linkHandle
  rw [hg]
  simp only [Bool.not_true, Bool.false_eq_true, if_false, Nat.reduceEqDiff, decide_false, Bool.or_self,
    decide_true, Bool.or_false, if_true, wsClean_lower, hfind]

theorem getElem?_ne_of_not_mem {s : Str} {x : Char} (h : x ∉ s) (i : Nat) : s[i]? ≠ some x := by
  intro e; exact h (List.mem_of_getElem? e)

/-- no `!`, `&`, `*`, `_`, line break: the patterns other than 0–3 and 6 find nothing (brackets are allowed) -/
def QuietB (s : Str) : Prop := '!' ∉ s ∧ '&' ∉ s ∧ '*' ∉ s ∧ '_' ∉ s ∧ '\n' ∉ s

theorem findMatch_quietB (cfg : Inline.Cfg) (pi : Nat) (hpi : 4 ≤ pi ∧ pi ≠ 6 ∧ pi < 16) (D : Str) (st : St)
    (hD : QuietB D) : findMatch cfg pi D 0 st = some (none, st) := by
  obtain ⟨q2, q3, q4, q5, q6⟩ := hD
  have hls : ∀ pi', (pi' = 4 ∨ pi' = 5 ∨ pi' = 7) → linkScan cfg st.stash pi' D none D 0 = none := by
    intro pi' hp; apply linkScan_none; simp only [hp, if_true]; exact q2
  have hbr : find [' ', ' ', '\n'] D = none := find_none_of_not_mem' (c := '\n') (by simp) q6
  have : pi = 4 ∨ pi = 5 ∨ pi = 7 ∨ pi = 8 ∨ pi = 9 ∨ pi = 10 ∨ pi = 11 ∨ pi = 12 ∨
      pi = 13 ∨ pi = 14 ∨ pi = 15 := by omega
  rcases this with rfl | rfl | rfl | rfl | rfl | rfl | rfl | rfl | rfl | rfl | rfl <;>
    simp [findMatch, hls, hbr, entityFind, entityScan_none D q3, nsFind, nsScan_none D q4 q5,
      emScan_none D _ D q4, emScan_none D _ D q5]

/-- `findMatch` of a link pattern from `si` on when no `[` follows -/
theorem findMatch_link_tail (cfg : Inline.Cfg) (pi : Nat) (hpi : pi = 2 ∨ pi = 3 ∨ pi = 6) (D : Str) (si : Nat)
    (st : St) (h : '[' ∉ D.drop si) : findMatch cfg pi D si st = some (none, st) := by
  have hls : linkScan cfg st.stash pi D (if si = 0 then none else D[si - 1]?) (D.drop si) si = none := by
    apply linkScan_none
    have : ¬ (pi = 4 ∨ pi = 5 ∨ pi = 7) := by omega
    simp only [this, if_false]; exact h
  unfold findMatch
  by_cases hgt : si > D.length
  · simp [hgt]
  · rcases hpi with rfl | rfl | rfl <;> simp [hgt, hls]


/-- the scan of a link pattern, in absolute positions: `P` has been scanned, `Q` contains no bracket -/
theorem linkScan_bracket (cfg : Inline.Cfg) (stash : List StashItem) (pi : Nat)
    (hpi : ¬ (pi = 4 ∨ pi = 5 ∨ pi = 7)) (D P Q R : Str) (prev0 : Option Char)
    (h1 : '[' ∉ Q) (h2 : '!' ∉ Q) (h3 : prev0 ≠ some '!') :
    linkScan cfg stash pi D prev0 (Q ++ '[' :: R) P.length =
      match linkHandle cfg stash pi D (P ++ Q).length (P ++ Q ++ ['[']).length with
      | some f => some f
      | none => linkScan cfg stash pi D (some '[') R (P ++ Q ++ ['[']).length := by
  have := linkScan_link_at cfg stash pi hpi D Q R prev0 P.length h1 h2 h3
  simpa [List.length_append, Nat.add_assoc] using this

/-- what the undefined-reference theorem asks of the label: none of the characters that start or end an inline
    construct -/
def QuietLabel (label : Str) : Bool :=
  label.all (fun c => c != '[' && c != ']' && c != '`' && c != '\\' && c != '!' && c != '&' && c != '*' &&
    c != '_' && c != '\n')

theorem quietLabel_not_mem {label : Str} (h : QuietLabel label = true) {x : Char}
    (hx : (x != '[' && x != ']' && x != '`' && x != '\\' && x != '!' && x != '&' && x != '*' && x != '_' &&
      x != '\n') = false) : x ∉ label := by
  intro hm
  have := List.all_eq_true.mp h x hm
  rw [hx] at this; exact Bool.false_ne_true this

theorem quietLabel_useLabel {label : Str} (h : QuietLabel label = true) : UseLabelOK label = true := by
  simp only [UseLabelOK, List.all_eq_true, Bool.and_eq_true, bne_iff_ne, ne_eq]
  intro c hc
  refine ⟨⟨?_, ?_⟩, ?_⟩ <;> (intro e; subst e; exact quietLabel_not_mem h (by decide) hc)

theorem refSrc_quietB {pre text sp label post : Str} (hpre : PlainText pre = true) (htext : PlainText text = true)
    (hpost : PlainText post = true) (hsp : SpOK sp) (hnl : '\n' ∉ sp) (hl : QuietLabel label = true) :
    QuietB (refSrc pre text sp label post) := by
  have hq : ∀ x : Char, inlPlain x = false → isSpace x = false ∨ x = '\n' →
      (x != '[' && x != ']' && x != '`' && x != '\\' && x != '!' && x != '&' && x != '*' && x != '_' &&
        x != '\n') = false → x ≠ '[' → x ≠ ']' → x ∉ refSrc pre text sp label post := by
    intro x hx hs hlq hb1 hb2
    simp only [refSrc, List.mem_append, List.mem_singleton, not_or]
    have hsp' : x ∉ sp := by
      rcases hs with hs | rfl
      · exact sp_not_mem hsp hs
      · exact hnl
    exact ⟨⟨⟨⟨⟨⟨⟨⟨plain_not_mem hpre hx, hb1⟩, plain_not_mem htext hx⟩, hb2⟩, hsp'⟩, hb1⟩,
      quietLabel_not_mem hl hlq⟩, hb2⟩, plain_not_mem hpost hx⟩
  exact ⟨hq '!' (by decide) (Or.inl (by decide)) (by decide) (by decide) (by decide),
    hq '&' (by decide) (Or.inl (by decide)) (by decide) (by decide) (by decide),
    hq '*' (by decide) (Or.inl (by decide)) (by decide) (by decide) (by decide),
    hq '_' (by decide) (Or.inl (by decide)) (by decide) (by decide) (by decide),
    hq '\n' (by decide) (Or.inr rfl) (by decide) (by decide) (by decide)⟩

theorem sp_head_ne_paren {sp rest : Str} (hsp : SpOK sp) : (sp ++ '[' :: rest).head? ≠ some '(' := by
  rcases hsp with rfl | ⟨c, rfl, hc⟩
  · simp
  · simp only [List.cons_append, List.nil_append, List.head?_cons, ne_eq, Option.some.injEq]
    intro e; subst e; exact absurd hc (by decide)

theorem plain_head_ne {s : Str} (h : PlainText s = true) {x : Char} (hx : inlPlain x = false) : s.head? ≠ some x := by
  intro e
  cases s with
  | nil => simp at e
  | cons c r => simp at e; subst e; exact plain_not_mem h hx List.mem_cons_self

/-- pattern 3 (`[text](url)`) finds nothing in `pre[text][label]post` -/
theorem findMatch3_ref (cfg : Inline.Cfg) (st : St) (pre text sp label post : Str) (hpre : PlainText pre = true)
    (htext : PlainText text = true) (hpost : PlainText post = true) (hsp : SpOK sp)
    (hl : QuietLabel label = true) :
    findMatch cfg 3 (refSrc pre text sp label post) 0 st = some (none, st) := by
  have hD0 : refSrc pre text sp label post =
      pre ++ '[' :: ((text ++ ']' :: sp) ++ '[' :: (label ++ ']' :: post)) := by simp [refSrc, List.append_assoc]
  have hsp1 : '[' ∉ sp := sp_not_mem hsp (by decide)
  have hsp2 : '!' ∉ sp := sp_not_mem hsp (by decide)
  have s1 := linkScan_bracket cfg st.stash 3 (by decide) (refSrc pre text sp label post) [] pre
    ((text ++ ']' :: sp) ++ '[' :: (label ++ ']' :: post)) none (plain_not_mem hpre (by decide))
    (plain_not_mem hpre (by decide)) (by simp)
  have r1 := linkHandle_link_reject cfg st.stash 3 (Or.inl rfl) (refSrc pre text sp label post) (pre ++ ['[']) text
    (sp ++ '[' :: label ++ ']' :: post) ([] ++ pre).length (by simp [refSrc, List.append_assoc])
    (plain_not_mem htext (by decide)) (plain_not_mem htext (by decide))
    (by rw [List.append_assoc]; exact sp_head_ne_paren hsp)
  have s2 := linkScan_bracket cfg st.stash 3 (by decide) (refSrc pre text sp label post) (pre ++ ['['])
    (text ++ ']' :: sp) (label ++ ']' :: post) (some '[')
    (by simp only [List.mem_append, List.mem_cons, not_or]
        exact ⟨plain_not_mem htext (by decide), by decide, hsp1⟩)
    (by simp only [List.mem_append, List.mem_cons, not_or]
        exact ⟨plain_not_mem htext (by decide), by decide, hsp2⟩) (by simp)
  have r2 := linkHandle_link_reject cfg st.stash 3 (Or.inl rfl) (refSrc pre text sp label post)
    (pre ++ ['['] ++ (text ++ ']' :: sp) ++ ['[']) label post (pre ++ ['['] ++ (text ++ ']' :: sp)).length
    (by simp [refSrc, List.append_assoc]) (quietLabel_not_mem hl (by decide)) (quietLabel_not_mem hl (by decide))
    (plain_head_ne hpost (by decide))
  have s3 : linkScan cfg st.stash 3 (refSrc pre text sp label post) (some '[') (label ++ ']' :: post)
      (pre ++ ['['] ++ (text ++ ']' :: sp) ++ ['[']).length = none := by
    apply linkScan_none
    simp only [show ¬ ((3 : Nat) = 4 ∨ (3 : Nat) = 5 ∨ (3 : Nat) = 7) by decide, if_false, List.mem_append,
      List.mem_cons, not_or]
    exact ⟨quietLabel_not_mem hl (by decide), by decide, plain_not_mem hpost (by decide)⟩
  simp only [List.nil_append, List.length_nil] at s1 r1
  rw [r1] at s1
  rw [r2, s3] at s2
  simp only at s1 s2
  rw [show (pre ++ ['[']).length = ([] ++ pre ++ ['[']).length by simp] at s2
  simp only [List.nil_append] at s2
  rw [s2] at s1
  rw [← hD0] at s1
  unfold findMatch
  simp [s1]


theorem hiLoop_none_step (cfg : Inline.Cfg) (hi : HI) (g : Nat) (D : Str) (pi si : Nat) (st : St) (hpi : pi < 16)
    (h : findMatch cfg pi D si st = some (none, st)) :
    hiLoop (applyPattern cfg hi) (g + 1) D pi si st = hiLoop (applyPattern cfg hi) g D (pi + 1) 0 st := by
  rw [hiLoop_step _ _ _ pi si st hpi _ _ _ _ (applyPattern_none cfg hi pi D si st h)]
  simp

theorem hiLoop_skip_step (cfg : Inline.Cfg) (hi : HI) (g : Nat) (D : Str) (pi si : Nat) (st : St) (hpi : pi < 16)
    (s e : Nat) (h : findMatch cfg pi D si st = some (some ⟨.none, s, (e : Nat)⟩, st)) :
    hiLoop (applyPattern cfg hi) (g + 1) D pi si st = hiLoop (applyPattern cfg hi) g D pi e st := by
  have : applyPattern cfg hi pi D si st = some (D, true, e, st) := by simp [applyPattern, h]
  rw [hiLoop_step _ _ _ pi si st hpi _ _ _ _ this]
  simp

theorem hiLoop_quietB (cfg : Inline.Cfg) (hi : HI) (D : Str) (st : St) (hD : QuietB D) :
    ∀ (k pi g : Nat), pi + k = 16 → 7 ≤ pi → k + 1 ≤ g → hiLoop (applyPattern cfg hi) g D pi 0 st = some (D, st) := by
  intro k
  induction k with
  | zero =>
    intro pi g h _ hg
    obtain ⟨g, rfl⟩ : ∃ g', g = g' + 1 := ⟨g - 1, by omega⟩
    have : pi = 16 := by omega
    subst this
    simp [hiLoop, patternCount]
  | succ k ih =>
    intro pi g h h2 hg
    obtain ⟨g, rfl⟩ : ∃ g', g = g' + 1 := ⟨g - 1, by omega⟩
    rw [hiLoop_none_step cfg hi g D pi 0 st (by omega) (findMatch_quietB cfg pi ⟨by omega, by omega, by omega⟩ D st hD)]
    exact ih (pi + 1) g (by omega) (by omega) (by omega)

/-- pattern 6 (`[text]`) on `pre[text][label]post` when neither `text` nor `label` is defined: two matches whose
    node is `None`, then nothing -/
theorem findMatch6_ref (cfg : Inline.Cfg) (st : St) (pre text sp label post : Str) (hpre : PlainText pre = true)
    (htext : PlainText text = true) (hpost : PlainText post = true) (hsp : SpOK sp)
    (hl : QuietLabel label = true)
    (hf1 : cfg.refs.find? (fun x => x.1 = normUse text) = none)
    (hf2 : cfg.refs.find? (fun x => x.1 = normUse label) = none) :
    findMatch cfg 6 (refSrc pre text sp label post) 0 st =
        some (some ⟨.none, pre.length, ((pre ++ ['['] ++ text ++ [']']).length : Nat)⟩, st) ∧
    findMatch cfg 6 (refSrc pre text sp label post) (pre ++ ['['] ++ text ++ [']']).length st =
        some (some ⟨.none, (pre ++ ['['] ++ text ++ [']'] ++ sp).length,
          ((pre ++ ['['] ++ text ++ [']'] ++ sp ++ ['['] ++ label ++ [']']).length : Nat)⟩, st) ∧
    findMatch cfg 6 (refSrc pre text sp label post) (pre ++ ['['] ++ text ++ [']'] ++ sp ++ ['['] ++ label ++ [']']).length
        st = some (none, st) := by
  have hD0 : refSrc pre text sp label post =
      pre ++ '[' :: ((text ++ ']' :: sp) ++ '[' :: (label ++ ']' :: post)) := by simp [refSrc, List.append_assoc]
  have hne : ∀ i, (refSrc pre text sp label post)[i]? ≠ some '!' :=
    getElem?_ne_of_not_mem (by
      simp only [refSrc, List.mem_append, List.mem_singleton, not_or]
      exact ⟨⟨⟨⟨⟨⟨⟨⟨plain_not_mem hpre (by decide), by decide⟩, plain_not_mem htext (by decide)⟩, by decide⟩,
        sp_not_mem hsp (by decide)⟩, by decide⟩, quietLabel_not_mem hl (by decide)⟩, by decide⟩,
        plain_not_mem hpost (by decide)⟩)
  refine ⟨?_, ?_, ?_⟩
  · have s1 := linkScan_bracket cfg st.stash 6 (by decide) (refSrc pre text sp label post) [] pre
      ((text ++ ']' :: sp) ++ '[' :: (label ++ ']' :: post)) none (plain_not_mem hpre (by decide))
      (plain_not_mem hpre (by decide)) (by simp)
    have r1 := linkHandle_short cfg st.stash (refSrc pre text sp label post) (pre ++ ['[']) text
      (sp ++ '[' :: label ++ ']' :: post) ([] ++ pre).length (by simp [refSrc, List.append_assoc])
      (plain_not_mem htext (by decide)) (plain_not_mem htext (by decide)) hf1
    simp only [List.nil_append, List.length_nil] at s1 r1
    rw [r1, ← hD0] at s1
    unfold findMatch
    simp [s1]; omega
  · have hdrop : (refSrc pre text sp label post).drop (pre ++ ['['] ++ text ++ [']']).length =
        sp ++ '[' :: (label ++ ']' :: post) := by
      have : refSrc pre text sp label post = (pre ++ ['['] ++ text ++ [']']) ++ (sp ++ '[' :: (label ++ ']' :: post)) := by
        simp [refSrc, List.append_assoc]
      rw [this]; exact List.drop_left' rfl
    have s2 := linkScan_bracket cfg st.stash 6 (by decide) (refSrc pre text sp label post)
      (pre ++ ['['] ++ text ++ [']']) sp (label ++ ']' :: post)
      (if (pre ++ ['['] ++ text ++ [']']).length = 0 then none
        else (refSrc pre text sp label post)[(pre ++ ['['] ++ text ++ [']']).length - 1]?)
      (sp_not_mem hsp (by decide)) (sp_not_mem hsp (by decide)) (by split; simp; exact hne _)
    have r2 := linkHandle_short cfg st.stash (refSrc pre text sp label post)
      (pre ++ ['['] ++ text ++ [']'] ++ sp ++ ['[']) label post (pre ++ ['['] ++ text ++ [']'] ++ sp).length
      (by simp [refSrc, List.append_assoc]) (quietLabel_not_mem hl (by decide)) (quietLabel_not_mem hl (by decide)) hf2
    rw [r2] at s2
    have hle : ¬ (pre ++ ['['] ++ text ++ [']']).length > (refSrc pre text sp label post).length := by
      simp [refSrc]
    have hL0 : (pre ++ ['['] ++ text ++ [']']).length ≠ 0 := by simp
    simp only at s2
    generalize (pre ++ ['['] ++ text ++ [']']).length = L at *
    unfold findMatch
    simp only [hle, if_false, hdrop, s2]
    simp; omega
  · apply findMatch_link_tail cfg 6 (Or.inr (Or.inr rfl))
    have : refSrc pre text sp label post = (pre ++ ['['] ++ text ++ [']'] ++ sp ++ ['['] ++ label ++ [']']) ++ post := rfl
    rw [this, List.drop_left' rfl]
    exact plain_not_mem hpost (by decide)


/-- **`__handleInline` on `pre[text][label]post`, label not defined** (and `text` not defined either, or `[text]`
    alone would be a short reference): every pattern leaves the text as it is, nothing is stashed. -/
theorem handleInline_ref_undefined (cfg : Inline.Cfg) (f : Nat) (st : St) (pre text sp label post : Str)
    (hpre : PlainText pre = true) (htext : PlainText text = true) (hpost : PlainText post = true) (hsp : SpOK sp)
    (hnl : '\n' ∉ sp) (hl : QuietLabel label = true)
    (hf1 : cfg.refs.find? (fun x => x.1 = normUse text) = none)
    (hf2 : cfg.refs.find? (fun x => x.1 = normUse label) = none) :
    handleInline cfg (f + 1) (refSrc pre text sp label post) 0 st = some (refSrc pre text sp label post, st) := by
  have hul := quietLabel_useLabel hl
  obtain ⟨q1, q2⟩ := refSrc_quiet01 hpre htext hpost hsp hul
  have hqb := refSrc_quietB hpre htext hpost hsp hnl hl
  have hkey : cfg.refs.find? (fun x => x.1 = useKey text label) = none := by
    unfold useKey; split <;> assumption
  have m2 := findMatch2_ref cfg st pre text sp label post hpre htext hsp hul
  rw [hkey] at m2
  simp only at m2
  have m2b : findMatch cfg 2 (refSrc pre text sp label post)
      (((pre ++ ['[']) ++ text ++ [']']).length + sp.length + label.length + 2) st = some (none, st) := by
    apply findMatch_link_tail cfg 2 (Or.inl rfl)
    rw [refSrc_drop]; exact plain_not_mem hpost (by decide)
  have m3 := findMatch3_ref cfg st pre text sp label post hpre htext hpost hsp hl
  obtain ⟨m6a, m6b, m6c⟩ := findMatch6_ref cfg st pre text sp label post hpre htext hpost hsp hl hf1 hf2
  obtain ⟨g, hg⟩ : ∃ g, loopFuel (refSrc pre text sp label post).length = g + 11 :=
    ⟨loopFuel (refSrc pre text sp label post).length - 11,
      by have := loopFuel_ge (refSrc pre text sp label post).length; omega⟩
  have hg' : 20 ≤ g := by have := loopFuel_ge (refSrc pre text sp label post).length; omega
  rw [show handleInline cfg (f + 1) (refSrc pre text sp label post) 0 st =
    hiLoop (applyPattern cfg fun d p s => handleInline cfg f d p s)
      (loopFuel (refSrc pre text sp label post).length) (refSrc pre text sp label post) 0 0 st from rfl, hg]
  rw [hiLoop_none_step cfg _ _ _ 0 0 st (by omega) (findMatch0_none cfg _ st q1),
    hiLoop_none_step cfg _ _ _ 1 0 st (by omega) (findMatch1_none cfg _ st q2),
    hiLoop_skip_step cfg _ _ _ 2 0 st (by omega) _ _ m2,
    hiLoop_none_step cfg _ _ _ 2 _ st (by omega) m2b,
    hiLoop_none_step cfg _ _ _ 3 0 st (by omega) m3,
    hiLoop_none_step cfg _ _ _ 4 0 st (by omega) (findMatch_quietB cfg 4 (by omega) _ st hqb),
    hiLoop_none_step cfg _ _ _ 5 0 st (by omega) (findMatch_quietB cfg 5 (by omega) _ st hqb),
    hiLoop_skip_step cfg _ _ _ 6 0 st (by omega) _ _ m6a,
    hiLoop_skip_step cfg _ _ _ 6 _ st (by omega) _ _ m6b,
    hiLoop_none_step cfg _ _ _ 6 _ st (by omega) m6c]
  exact hiLoop_quietB cfg _ _ st hqb 9 7 (g + 1) rfl (by omega) (by omega)


theorem refSrc_no_stx {pre text sp label post : Str} (hpre : PlainText pre = true) (htext : PlainText text = true)
    (hpost : PlainText post = true) (hsp : SpOK sp) (hstx : STX ∉ label) : STX ∉ refSrc pre text sp label post := by
  simp only [refSrc, List.mem_append, List.mem_singleton, not_or]
  exact ⟨⟨⟨⟨⟨⟨⟨⟨plain_no_stx hpre, by decide⟩, plain_no_stx htext⟩, by decide⟩, sp_not_mem hsp (by decide)⟩,
    by decide⟩, hstx⟩, by decide⟩, plain_no_stx hpost⟩

/-- **`InlineProcessor.run`** on the paragraph `pre[text][label]post` with an undefined label: the tree is returned
    as it was -/
theorem run_ref_undefined (cfg : Inline.Cfg) (pre text sp label post : Str)
    (hpre : PlainText pre = true) (htext : PlainText text = true) (hpost : PlainText post = true) (hsp : SpOK sp)
    (hnl : '\n' ∉ sp) (hl : QuietLabel label = true) (hstx : STX ∉ label)
    (hf1 : cfg.refs.find? (fun x => x.1 = normUse text) = none)
    (hf2 : cfg.refs.find? (fun x => x.1 = normUse label) = none) :
    Inline.run cfg ((Node.el "div").append (Block.mkText "p" (refSrc pre text sp label post))) =
      some ((Node.el "div").append (Block.mkText "p" (refSrc pre text sp label post)), { stash := [], html := [] }) := by
  have h1 : handleInlineTop cfg (refSrc pre text sp label post) { html := [] } =
      some (refSrc pre text sp label post, { html := [] }) :=
    handleInline_ref_undefined cfg _ { html := [] } pre text sp label post hpre htext hpost hsp hnl hl hf1 hf2
  have h2 := processPlaceholders_plain [] 1 (refSrc pre text sp label post)
    { Block.mkText "p" (refSrc pre text sp label post) with text := none, textAtomic := false }
    (refSrc_no_stx hpre htext hpost hsp hstx) (refSrc_ne_nil _ _ _ _ _) rfl
  have htr : Node.truthy (some (refSrc pre text sp label post)) = true := by
    cases h : refSrc pre text sp label post with
    | nil => exact absurd h (refSrc_ne_nil _ _ _ _ _)
    | cons a b => rfl
  have hv : visitChild cfg (Block.mkText "p" (refSrc pre text sp label post)) { st := { html := [] } } =
      some (Block.mkText "p" (refSrc pre text sp label post), [], { st := { stash := [], html := [] } }) := by
    simp only [visitChild, Block.mkText, Node.el, htr, Bool.not_false, Bool.and_self, if_true, Option.getD_some, h1,
      ppTop, List.length_nil] at h2 ⊢
    rw [h2]
    simp [Node.truthy]
  obtain ⟨n, hn⟩ : ∃ n, runFuel ((Node.el "div").append (Block.mkText "p" (refSrc pre text sp label post))) = n + 3 :=
    ⟨runFuel ((Node.el "div").append (Block.mkText "p" (refSrc pre text sp label post))) - 3,
      by have := runFuel_ge ((Node.el "div").append (Block.mkText "p" (refSrc pre text sp label post))); omega⟩
  simp only [Inline.run, hn]
  simp only [runLoop, getAt, Node.append, Node.el, List.nil_append, withIdx, visitLoop]
  rw [hv]
  simp [setAt, visitLoop, runLoop, Block.mkText, Node.el]


/-! ### tree processors, serializer and postprocessors on `<div><p>pre<a …>text</a>post</p></div>` -/

/-- the document tree after `PrettifyTreeprocessor` -/
def prettyLinkDoc (pre post : Str) (a : Node) : Node :=
  { tag := .name "div".toList, text := some ['\n'],
    children := [{ tag := .name "p".toList, text := optStr pre, children := [{ a with tail := optStr post }],
                   tail := some ['\n'] }],
    tail := some ['\n'] }

theorem optStr_blankOrNone_none : TreeProc.blankOrNone none = true := rfl

theorem prettify_linkPara (pre post : Str) (a : Node) (hc : a.children = []) (htag : a.tag = .name "a".toList) :
    TreeProc.prettify ((Node.el "div").append (linkPara pre post a)) = prettyLinkDoc pre post a := by
  obtain ⟨tag, attrs, text, ta, children, tail, tla⟩ := a
  simp only at hc htag
  subst hc htag
  have h1 : TreeProc.isBlockLevel TreeProc.defaultBlockLevel (.name "div".toList) = true := by decide
  have h2 : TreeProc.isBlockLevel TreeProc.defaultBlockLevel (.name "p".toList) = true := by decide
  have h2a : TreeProc.isBlockLevel TreeProc.defaultBlockLevel (.name "a".toList) = false := by decide
  have h3 : (Tag.name "div".toList == Tag.name "code".toList) = false := by decide
  have h4 : (Tag.name "div".toList == Tag.name "pre".toList) = false := by decide
  have h5 : (Tag.name "p".toList == Tag.name "code".toList) = false := by decide
  have h6 : (Tag.name "p".toList == Tag.name "pre".toList) = false := by decide
  have h7 : (Tag.name "div".toList == Tag.name "br".toList) = false := by decide
  have h8 : (Tag.name "p".toList == Tag.name "br".toList) = false := by decide
  have h9 : (Tag.name "a".toList == Tag.name "br".toList) = false := by decide
  have h10 : (Tag.name "a".toList == Tag.name "pre".toList) = false := by decide
  simp only [TreeProc.prettify, Node.append, Node.el, linkPara, List.nil_append, TreeProc.prettifyETree,
    TreeProc.prettifyKids, h1, h2, h2a, h3, h4, h5, h6, TreeProc.blankOrNone, Node.truthy,
    Option.getD_some, Option.getD_none, isBlank, List.all_nil, Bool.not_false, Bool.not_true, Bool.and_true,
    Bool.or_true, Bool.true_and, if_true, Bool.false_eq_true, if_false, Bool.and_false,
    TreeProc.mapTree, TreeProc.mapKids, TreeProc.brRule, TreeProc.preRule, TreeProc.tagIs, h7, h8, h9, h10,
    prettyLinkDoc]

theorem unescapeText_id (s : Str) (h : TreeProc.STX ∉ s) : TreeProc.unescapeText 0 s = some s := by
  induction s with
  | nil => rfl
  | cons c r ih =>
    have hc : c ≠ TreeProc.STX := fun e => h (e ▸ List.mem_cons_self)
    simp [TreeProc.unescapeText, hc, ih (fun hh => h (List.mem_cons_of_mem _ hh))]

theorem unescAttrs_id (attrs : List (Str × Str)) (h : ∀ kv ∈ attrs, TreeProc.STX ∉ kv.2) :
    TreeProc.unescAttrs attrs = some attrs := by
  induction attrs with
  | nil => rfl
  | cons kv r ih =>
    obtain ⟨k, v⟩ := kv
    simp [TreeProc.unescAttrs, unescapeText_id v (h (k, v) (by simp)), ih (fun x hx => h x (by simp [hx]))]

/-- `UnescapeTreeprocessor` changes nothing when there is no `STX` in the texts and attribute values -/
theorem unescapeTree_linkDoc (pre post : Str) (a : Node) (hc : a.children = []) (hta : a.textAtomic = false)
    (htla : a.tailAtomic = false)
    (hpre : TreeProc.STX ∉ pre) (hpost : TreeProc.STX ∉ post) (htext : ∀ s, a.text = some s → TreeProc.STX ∉ s)
    (hattrs : ∀ kv ∈ a.attrs, TreeProc.STX ∉ kv.2) :
    TreeProc.unescapeTree (prettyLinkDoc pre post a) = some (prettyLinkDoc pre post a) := by
  obtain ⟨tag, attrs, text, ta, children, tail, tla⟩ := a
  simp only at hc hta htla htext hattrs
  subst hc hta htla
  have hnl : TreeProc.unescapeText 0 ['\n'] = some ['\n'] := by decide
  have u1 := unescapeText_id pre hpre
  have u2 := unescapeText_id post hpost
  have u3 : ∀ s, text = some s → TreeProc.unescapeText 0 s = some s := fun s hs => unescapeText_id s (htext s hs)
  have ua := unescAttrs_id attrs hattrs
  cases pre <;> cases post <;> rcases text with _ | _ | ⟨x, y⟩ <;>
    simp [prettyLinkDoc, optStr, TreeProc.unescapeTree, TreeProc.unescapeKids, TreeProc.unescAttrs, ua, hnl, u1, u2,
      u3, Node.truthy]


/-! ### serializer -/

theorem linkEl_eq (url : Str) (title : Option Str) (text : Str) :
    linkEl url title text =
      { tag := .name "a".toList,
        attrs := ("href".toList, url) :: (if Node.truthy title then [("title".toList, title.getD [])] else []),
        text := some text } := by
  unfold linkEl
  split <;> simp [Node.setAttr, mkEl]

theorem escCdata_plain (s : Str) (h : PlainText s = true) : Ser.escCdata s = s := by
  have := Ser.esc1_body false false s [] (fun c hc => by
    have hp := List.all_eq_true.mp h c hc
    have : c ≠ '&' ∧ c ≠ '<' ∧ c ≠ '>' ∧ c ≠ '"' ∧ c ≠ '\n' := by
      refine ⟨?_, ?_, ?_, ?_, ?_⟩ <;> (intro e; subst e; exact absurd hp (by decide))
    simp [Ser.plain, this])
  rw [Ser.onepass_cdata']
  simpa [Ser.esc1] using this

/-- the `title="…"` part of the start tag: present iff the stored title is truthy -/
def titleAttr (title : Option Str) : Str :=
  if Node.truthy title then " title=\"".toList ++ Ser.escAttrHtml (title.getD []) ++ ['"'] else []

/-- `<a href="…" title="…">text</a>` -/
def linkHtml (url : Str) (title : Option Str) (text : Str) : Str :=
  "<a href=\"".toList ++ Ser.escAttrHtml url ++ ['"'] ++ titleAttr title ++ ['>'] ++ text ++ "</a>".toList

theorem txt_optStr (s : Str) (h : PlainText s = true) :
    (if Node.truthy (optStr s) = true then Ser.escCdata ((optStr s).getD []) else []) = s := by
  cases s with
  | nil => rfl
  | cons c r => simp [optStr, Node.truthy, escCdata_plain _ h]

theorem txt_some (s : Str) (h : PlainText s = true) :
    (if Node.truthy (some s) = true then Ser.escCdata ((some s).getD []) else []) = s := by
  cases s with
  | nil => rfl
  | cons c r => simp [Node.truthy, escCdata_plain _ h]

theorem sortAttrs_link (url : Str) (title : Option Str) :
    Ser.sortAttrs (("href".toList, url) :: (if Node.truthy title then [("title".toList, title.getD [])] else [])) =
      ("href".toList, url) :: (if Node.truthy title then [("title".toList, title.getD [])] else []) := by
  have hlt : Ser.strLt "href".toList "title".toList = true := by decide
  split
  · simp only [Ser.sortAttrs, List.foldr, Ser.insAttr, hlt, if_true]
  · simp only [Ser.sortAttrs, List.foldr, Ser.insAttr]

theorem writeAttrs_link (url : Str) (title : Option Str) :
    Ser.writeAttrs .xhtml (("href".toList, url) :: (if Node.truthy title then [("title".toList, title.getD [])] else [])) =
      " href=\"".toList ++ Ser.escAttrHtml url ++ ['"'] ++ titleAttr title := by
  unfold titleAttr
  split <;> simp [Ser.writeAttrs, List.append_assoc]

theorem linkEl_tail_eq (url : Str) (title : Option Str) (text post : Str) :
    ({ linkEl url title text with tail := optStr post } : Node) =
      { tag := .name ['a'],
        attrs := ("href".toList, url) :: (if Node.truthy title then [("title".toList, title.getD [])] else []),
        text := some text, tail := optStr post } := by
  rw [linkEl_eq]; rfl

/-- one unfolding of `_serialize_html` for an ordinary element (stated once: generating the equations of the
    mutual definition is slow) -/
theorem serialize_name (fmt : Ser.Fmt) (t : Str) (attrs : List (Str × Str)) (text : Option Str) (ta : Bool)
    (children : List Node) (tail : Option Str) (tla : Bool) :
    Ser.serialize fmt ⟨.name t, attrs, text, ta, children, tail, tla⟩ =
      Ser.element fmt t none attrs text (Ser.serializeList fmt children) ++
        (if Node.truthy tail then Ser.escCdata (tail.getD []) else []) := by
  rw [Ser.serialize]

theorem element_xhtml (t : Str) (attrs : List (Str × Str)) (text : Option Str) (kids : Str)
    (h1 : Ser.isEmptyTag t = false) (h2 : Ser.isRawTextTag t = false) :
    Ser.element .xhtml t none attrs text kids =
      '<' :: t ++ Ser.writeAttrs .xhtml (Ser.sortAttrs attrs) ++ ['>'] ++
        (if Node.truthy text then Ser.escCdata (text.getD []) else []) ++ kids ++ ("</".toList ++ t ++ ['>']) := by
  simp [Ser.element, h1, h2]

theorem serializeList_nil (fmt : Ser.Fmt) : Ser.serializeList fmt [] = [] := by rw [Ser.serializeList]

theorem serializeList_one (fmt : Ser.Fmt) (n : Node) : Ser.serializeList fmt [n] = Ser.serialize fmt n := by
  simp [Ser.serializeList]

theorem serialize_link (post url : Str) (title : Option Str) (text : Str)
    (htext : PlainText text = true) (hpost : PlainText post = true) :
    Ser.serialize .xhtml { linkEl url title text with tail := optStr post } = linkHtml url title text ++ post := by
  have h2a : Ser.isEmptyTag ['a'] = false := by decide
  have h4a : Ser.isRawTextTag ['a'] = false := by decide
  rw [linkEl_tail_eq, serialize_name, element_xhtml _ _ _ _ h2a h4a, sortAttrs_link, writeAttrs_link,
    txt_some text htext, txt_optStr post hpost, serializeList_nil]
  unfold linkHtml
  simp only [List.append_assoc, List.append_nil]
  rfl

theorem serialize_linkDoc (pre post url : Str) (title : Option Str) (text : Str) (hpre : PlainText pre = true)
    (htext : PlainText text = true) (hpost : PlainText post = true) :
    Ser.serialize .xhtml (prettyLinkDoc pre post (linkEl url title text)) =
      "<div>".toList ++ ('\n' :: "<p>".toList ++ pre ++ linkHtml url title text ++ post ++ "</p>".toList ++ ['\n']) ++
        "</div>\n".toList := by
  have h1 : Ser.isEmptyTag "div".toList = false := by decide
  have h2 : Ser.isEmptyTag "p".toList = false := by decide
  have h3 : Ser.isRawTextTag "div".toList = false := by decide
  have h4 : Ser.isRawTextTag "p".toList = false := by decide
  have h5 : Ser.escCdata ['\n'] = ['\n'] := by decide
  have hl := serialize_link post url title text htext hpost
  unfold prettyLinkDoc
  rw [serialize_name, element_xhtml _ _ _ _ h1 h3, serializeList_one, serialize_name, element_xhtml _ _ _ _ h2 h4,
    serializeList_one, hl, txt_optStr pre hpre]
  simp [Ser.sortAttrs, Ser.writeAttrs, h5, Node.truthy, List.append_assoc]


/-! ### the end of `convert`

(`topLevelStrip_div` … `ampSub_id` follow the corresponding lemmas of the C07 development) -/

theorem topLevelStrip_div (M : Str) :
    Post.topLevelStrip ("<div>".toList ++ M ++ "</div>\n".toList) = some (strip M) := by
  have hf : find ('<' :: "div".toList ++ ['>']) ("<div>".toList ++ M ++ "</div>\n".toList) = some 0 := by
    simp [find_cons]
  have hr : Post.rfind ('<' :: '/' :: "div".toList ++ ['>']) ("<div>".toList ++ M ++ "</div>\n".toList) =
      some (5 + M.length) := by
    simp [Post.rfind, find_cons]
    omega
  simp only [Post.topLevelStrip, hf, hr]
  congr 1
  have : ("<div>".toList ++ M ++ "</div>\n".toList).take (5 + M.length) = "<div>".toList ++ M := by
    have hl : ("<div>".toList ++ M).length = 5 + M.length := by simp; omega
    rw [← hl]; exact List.take_left' rfl
  rw [Post.topLevelStrip.sl, this]; simp

theorem getLast_closeP (X : Str) : (X ++ "</p>".toList).getLast? = some '>' := by
  have : X ++ "</p>".toList = (X ++ "</p".toList) ++ ['>'] := by simp
  rw [this, List.getLast?_append]; rfl

theorem strip_p_self (E : Str) : strip ("<p>".toList ++ E ++ "</p>".toList) = "<p>".toList ++ E ++ "</p>".toList := by
  apply strip_eq_self
  · intro c hc
    have : c = '<' := by simpa using hc.symm
    subst this; decide
  · intro c hc
    have : c = '>' := by
      have : ("<p>".toList ++ E ++ "</p>".toList).getLast? = some '>' := getLast_closeP _
      rw [this] at hc; exact (Option.some.inj hc).symm
    subst this; decide

theorem strip_paragraph (E : Str) :
    strip ('\n' :: "<p>".toList ++ E ++ "</p>".toList ++ ['\n']) = "<p>".toList ++ E ++ "</p>".toList := by
  have := strip_append_of_blank (a := ['\n']) (b := ['\n']) (by decide) (by decide) ("<p>".toList ++ E ++ "</p>".toList)
  have e : '\n' :: "<p>".toList ++ E ++ "</p>".toList ++ ['\n'] =
      ['\n'] ++ ("<p>".toList ++ E ++ "</p>".toList) ++ ['\n'] := by simp
  rw [e, this]
  exact strip_p_self E

theorem stx_not_mem_esc1 (q n : Bool) (s : Str) (h : Post.STX ∉ s) : Post.STX ∉ Ser.esc1 q n s := by
  induction s with
  | nil => simp [Ser.esc1]
  | cons c r ih =>
    have hc : c ≠ Post.STX := fun e => h (e ▸ List.mem_cons_self)
    have ih' := ih (fun hh => h (List.mem_cons_of_mem _ hh))
    have hlit : ∀ l : Str, (∀ x ∈ l, x ≠ Post.STX) → Post.STX ∉ l ++ Ser.esc1 q n r := by
      intro l hl hm
      rcases List.mem_append.1 hm with hm | hm
      · exact hl _ hm rfl
      · exact ih' hm
    simp only [Ser.esc1]
    repeat' split
    · exact hlit ['&'] (by decide)
    · exact hlit "&amp;".toList (by decide)
    · exact hlit "&lt;".toList (by decide)
    · exact hlit "&gt;".toList (by decide)
    · exact hlit "&quot;".toList (by decide)
    · exact hlit "&#10;".toList (by decide)
    · exact hlit [c] (by simpa using hc)

theorem ampSub_id (s : Str) (h : Post.STX ∉ s) : Post.ampSub s = s := by
  apply replace_id_of_not_contains
  rw [contains_eq_false_iff]
  intro pre post e
  apply h
  rw [e]
  simp [Post.ampSubstitute]

theorem stx_not_mem_linkHtml (url : Str) (title : Option Str) (text : Str) (hu : Post.STX ∉ url)
    (ht : ∀ t, title = some t → Post.STX ∉ t) (htext : Post.STX ∉ text) : Post.STX ∉ linkHtml url title text := by
  have h1 : Post.STX ∉ Ser.escAttrHtml url := by rw [Ser.onepass_attr']; exact stx_not_mem_esc1 _ _ _ hu
  have h2 : Post.STX ∉ titleAttr title := by
    unfold titleAttr
    split
    · cases title with
      | none => simp [Node.truthy] at *
      | some t =>
        have : Post.STX ∉ Ser.escAttrHtml t := by rw [Ser.onepass_attr']; exact stx_not_mem_esc1 _ _ _ (ht t rfl)
        simp only [Option.getD_some, List.mem_append, not_or]
        exact ⟨⟨by decide, this⟩, by decide⟩
    · simp
  unfold linkHtml
  simp only [List.mem_append, not_or]
  exact ⟨⟨⟨⟨⟨⟨by decide, h1⟩, by decide⟩, h2⟩, by decide⟩, htext⟩, by decide⟩

/-- strip `<div>`, postprocessors, `.strip()` on the serialised document -/
theorem finish_linkDoc (bl : List Str) (E : Str) (hstx : Post.STX ∉ E) :
    Post.finish bl [] ("<div>".toList ++ ('\n' :: "<p>".toList ++ E ++ "</p>".toList ++ ['\n']) ++ "</div>\n".toList) =
      some (some ("<p>".toList ++ E ++ "</p>".toList)) := by
  have hE : Post.STX ∉ "<p>".toList ++ E ++ "</p>".toList := by
    simp only [List.mem_append, not_or]
    exact ⟨⟨by decide, hstx⟩, by decide⟩
  simp only [Post.finish, topLevelStrip_div, strip_paragraph, Post.post, Post.rawHtmlFuel, List.length_nil,
    Post.rawHtml, List.isEmpty_nil, if_true, Option.map_some, ampSub_id _ hE, strip_p_self]


/-! ### the preprocessors on a document whose lines are empty or have a visible character -/

/-- characters that the preprocessors leave alone: no `<`, `&`, STX, ETX, tab, CR -/
def docCh (c : Char) : Bool :=
  c != '<' && c != '&' && c != Char.ofNat 2 && c != Char.ofNat 3 && c != '\t' && c != '\r'

/-- every line is empty or has a character other than a space; `b`: the current line has one, `a`: the current
    line has a character -/
def inkE : Bool → Bool → Str → Bool
  | b, a, [] => b || !a
  | b, a, c :: r => if c = '\n' then (b || !a) && inkE false false r else inkE (b || c != ' ') true r

open Normalize in
theorem wsLinesAux_inkE (s : Str) :
    (∀ b a, inkE b a s = true → wsLinesAux none (s ++ ['\n', '\n']) = s ++ ['\n', '\n']) ∧
    (∀ n, inkE false (decide (0 < n)) s = true →
      wsLinesAux (some n) (s ++ ['\n', '\n']) = List.replicate n ' ' ++ (s ++ ['\n', '\n'])) := by
  induction s with
  | nil =>
    refine ⟨fun b a _ => by simp [wsLinesAux], fun n h => ?_⟩
    have : n = 0 := by
      cases n with
      | zero => rfl
      | succ k => simp [inkE] at h
    subst this
    simp [wsLinesAux]
  | cons c r ih =>
    refine ⟨fun b a h => ?_, fun n h => ?_⟩
    · by_cases hc : c = '\n'
      · subst hc
        simp only [inkE, if_true, Bool.and_eq_true] at h
        simp only [List.cons_append, wsLinesAux, if_true]
        rw [ih.2 0 (by simpa using h.2)]; simp
      · simp only [inkE, hc, if_false] at h
        simp only [List.cons_append, wsLinesAux, hc, if_false]
        rw [ih.1 _ _ h]
    · by_cases h1 : c = ' '
      · subst h1
        simp only [inkE, show (' ' : Char) ≠ '\n' by decide, if_false] at h
        simp only [List.cons_append, wsLinesAux, if_true]
        rw [ih.2 (n + 1) (by simpa using h), List.replicate_succ']
        simp
      · by_cases h2 : c = '\n'
        · subst h2
          simp only [inkE, if_true, Bool.false_or, Bool.and_eq_true, Bool.not_eq_true', decide_eq_false_iff_not,
            Nat.not_lt, Nat.le_zero_eq] at h
          obtain ⟨hn, hr⟩ := h
          subst hn
          simp only [List.cons_append, wsLinesAux, if_true, show ('\n' : Char) ≠ ' ' by decide, if_false]
          rw [ih.2 0 (by simpa using hr)]; simp
        · simp only [inkE, h2, if_false] at h
          simp only [List.cons_append, wsLinesAux, h1, h2, if_false]
          rw [ih.1 _ _ h]

/-- `NormalizeWhitespace` only appends `"\n\n"` to such a document -/
theorem normalize_doc (tab : Nat) (s : Str) (hp : s.all docCh = true) (hl : inkE false false s = true) :
    Normalize.normalize tab s = s ++ ['\n', '\n'] := by
  have hmem : ∀ c ∈ s, c ≠ Normalize.STX ∧ c ≠ Normalize.ETX ∧ c ≠ '\r' ∧ c ≠ '\t' := by
    intro c hc
    have := List.all_eq_true.1 hp c hc
    simp only [docCh, Bool.and_eq_true, bne_iff_ne, ne_eq] at this
    exact ⟨this.1.1.1.2, this.1.1.2, this.2, this.1.2⟩
  have h1 : Normalize.stripCtl s = s := by
    rw [Normalize.stripCtl_eq_filter, List.filter_eq_self]
    intro c hc
    have := hmem c hc
    simp [Normalize.notCtl, this.1, this.2.1]
  have h2 : Normalize.nlAux false s = s := Normalize.nlAux_id _ (fun c hc => (hmem c hc).2.2.1)
  have h3 : expandtabsAux tab 0 (s ++ ['\n', '\n']) = s ++ ['\n', '\n'] := by
    apply Normalize.expandtabsAux_id
    intro c hc
    rcases List.mem_append.1 hc with hc | hc
    · exact (hmem c hc).2.2.2
    · have : c = '\n' := by simpa using hc
      subst this; decide
  rw [Normalize.normalize_eq, h1, h2, h3]
  -- the scan starts at a line start (`some 0`) since the repair a0e7e3c of F-C09-1
  have := (wsLinesAux_inkE s).2 0 (by simpa using hl)
  simpa using this

theorem goahead_no_amp (e : Bool) (s : Str) (h : '&' ∉ s) : ∀ f, s.length ≤ f → Extract.goahead e f s = (s, []) := by
  induction s with
  | nil => intro f _; cases f <;> rfl
  | cons c r ih =>
    intro f hf
    obtain ⟨f', rfl⟩ : ∃ f', f = f' + 1 := ⟨f - 1, by simp at hf; omega⟩
    have hc : c ≠ '&' := fun e => h (e ▸ List.mem_cons_self)
    have := ih (fun hh => h (List.mem_cons_of_mem _ hh)) f' (by simp at hf; omega)
    simp [Extract.goahead, hc, this]

/-- `HtmlBlockPreprocessor` leaves text without `&` (and `<`) alone -/
theorem extract_no_amp (s : Str) (h : '&' ∉ s) : Extract.extract s = s := by
  simp [Extract.extract, goahead_no_amp false s h (s.length + 1) (by omega), Extract.goahead]

theorem prepare_doc (cfg : Pipeline.Cfg) (s : Str) (hp : s.all docCh = true) (hl : inkE false false s = true) :
    Pipeline.prepare cfg s = s ++ ['\n', '\n'] := by
  rw [Pipeline.prepare, normalize_doc cfg.tab s hp hl]
  apply extract_no_amp
  intro hm
  rcases List.mem_append.1 hm with hm | hm
  · exact absurd (List.all_eq_true.1 hp _ hm) (by decide)
  · exact absurd hm (by decide)


theorem inkE_line (l rest : Str) (b a : Bool) (h : l.all Block.notNl = true) :
    inkE b a (l ++ rest) = inkE (b || l.any (· != ' ')) (a || !l.isEmpty) rest := by
  induction l generalizing b a with
  | nil => simp
  | cons c l ih =>
    simp only [List.all_cons, Bool.and_eq_true] at h
    have hc : c ≠ '\n' := by simpa [Block.notNl] using h.1
    simp only [List.cons_append, inkE, hc, if_false, ih _ _ h.2, List.any_cons, List.isEmpty_cons, Bool.not_false,
      Bool.or_true, Bool.or_assoc]
    cases l <;> simp

theorem inkE_joinLines (ls : List Str)
    (h : ∀ l ∈ ls, l.all Block.notNl = true ∧ (l = [] ∨ l.any (· != ' ') = true)) :
    inkE false false (joinLines ls) = true := by
  induction ls with
  | nil => rfl
  | cons l r ih =>
    obtain ⟨hn, hi⟩ := h l (by simp)
    have hfin : (false || l.any (· != ' ') || !(false || !l.isEmpty)) = true := by
      rcases hi with rfl | hi
      · rfl
      · simp [hi]
    cases r with
    | nil =>
      have := inkE_line l [] false false hn
      simp only [List.append_nil] at this
      rw [Block.joinLines_single, this]
      simpa [inkE] using hfin
    | cons l2 r =>
      rw [Block.joinLines_cons_cons, inkE_line l _ false false hn]
      simp only [inkE, if_true, Bool.and_eq_true]
      exact ⟨hfin, ih (fun x hx => h x (by simp [hx]))⟩

theorem plainLine_ink {l : Str} (h : Block.PlainLine l) : l.all Block.notNl = true ∧ (l = [] ∨ l.any (· != ' ') = true) := by
  refine ⟨h.noNl, Or.inr ?_⟩
  obtain ⟨n, c, r, rfl, hc, _⟩ := h.ex
  have : c ≠ ' ' := by intro e; subst e; simp [Block.plainCh] at hc
  simp [this]

/-! ### splitting the document at the blank line -/

theorem splitAux_sep (A R : Str) (h : Block.noNN (A ++ ['\n']) = true) :
    splitAux ['\n', '\n'] 0 (A ++ '\n' :: '\n' :: R) = A :: splitAux ['\n', '\n'] 0 R := by
  induction A with
  | nil => simp [splitAux, startsWith]
  | cons c A ih =>
    simp only [List.cons_append, Block.noNN, Bool.and_eq_true, Bool.not_eq_true'] at h
    have hsw : startsWith (c :: (A ++ '\n' :: '\n' :: R)) ['\n', '\n'] = false := by
      have := h.1
      cases A with
      | nil => simpa [startsWith] using this
      | cons d A => simpa [startsWith] using this
    simp only [List.cons_append, splitAux, hsw, Bool.false_eq_true, if_false, ih h.2]

theorem noNN_snoc (X : Str) (h : Block.noNN X = true) (hl : X.getLast? ≠ some '\n') :
    Block.noNN (X ++ ['\n']) = true := by
  induction X with
  | nil => rfl
  | cons c X ih =>
    simp only [Block.noNN, Bool.and_eq_true, Bool.not_eq_true'] at h
    cases X with
    | nil =>
      have : c ≠ '\n' := by simpa using hl
      simp [Block.noNN, startsWith, this]
    | cons d X =>
      have hl' : (d :: X).getLast? ≠ some '\n' := by simpa [List.getLast?_cons_cons] using hl
      have := ih h.2 hl'
      have h1 := h.1
      simp only [List.cons_append, Block.noNN, Bool.and_eq_true, Bool.not_eq_true'] at this ⊢
      refine ⟨?_, this⟩
      simpa [startsWith] using h1

theorem splitS_two (A B : Str) (hA : Block.noNN A = true) (hAl : A.getLast? ≠ some '\n')
    (hB : Block.noNN B = true) (hBl : B.getLast? ≠ some '\n') :
    splitS ['\n', '\n'] (A ++ ['\n', '\n'] ++ B ++ ['\n', '\n']) = [A, B, []] := by
  have e : A ++ ['\n', '\n'] ++ B ++ ['\n', '\n'] = A ++ '\n' :: '\n' :: (B ++ '\n' :: '\n' :: []) := by simp
  rw [splitS, e, splitAux_sep A _ (noNN_snoc A hA hAl), splitAux_sep B _ (noNN_snoc B hB hBl)]
  rfl


/-! ### the block parser on the paragraph -/

/-- the paragraph does not start with a space or a digit (indentation, ordered list) -/
def ParaStartOK (pre : Str) : Bool :=
  match pre with
  | [] => true
  | c :: _ => c != ' ' && !isAsciiDigit c

theorem lineStartsFrom_nil (s : Str) (h : '\n' ∉ s) (i : Nat) : Block.lineStartsFrom i s = [] := by
  induction s generalizing i with
  | nil => rfl
  | cons c r ih =>
    have hc : c ≠ '\n' := fun e => h (e ▸ List.mem_cons_self)
    simp [Block.lineStartsFrom, hc, ih (fun hh => h (List.mem_cons_of_mem _ hh))]

theorem refSearch_line_none (s : Str) (h : '\n' ∉ s) (hm : Block.refMatchAt s 0 = none) : Block.refSearch s = none := by
  simp [Block.refSearch, lineStartsFrom_nil s h, hm]

theorem inlPlain_block {c : Char} (h : inlPlain c = true) (h1 : c ≠ ' ') (h2 : isAsciiDigit c = false) :
    Block.plainCh c = true := by
  have hlt : c.toNat < 128 := by
    simp only [inlPlain, isAsciiAlnum, isAsciiAlpha, isAsciiLower, isAsciiUpper, isAsciiDigit, Bool.or_eq_true,
      Bool.and_eq_true, decide_eq_true_eq] at h
    rcases h with ((((h | h) | h) | h) | h) | h
    · have := h.2; exact Nat.lt_of_le_of_lt (show c.toNat ≤ 'z'.toNat from this) (by decide)
    · have := h.2; exact Nat.lt_of_le_of_lt (show c.toNat ≤ 'Z'.toNat from this) (by decide)
    · have := h.2; exact Nat.lt_of_le_of_lt (show c.toNat ≤ '9'.toNat from this) (by decide)
    · subst h; decide
    · subst h; decide
    · subst h; decide
  have hdec : isDecimal c = false := by simp [isDecimal, hlt, h2]
  have hne : ∀ x : Char, inlPlain x = false → c ≠ x := fun x hx e => by subst e; rw [h] at hx; cases hx
  simp only [Block.plainCh, hdec, Bool.not_false, Bool.and_true, Bool.and_eq_true, bne_iff_ne, ne_eq]
  exact ⟨⟨⟨⟨⟨⟨⟨⟨h1, hne _ (by decide)⟩, hne _ (by decide)⟩, hne _ (by decide)⟩, hne _ (by decide)⟩,
    hne _ (by decide)⟩, hne _ (by decide)⟩, hne _ (by decide)⟩, hne _ (by decide)⟩


theorem refSrc_no_nl {pre text sp label post : Str} (hpre : PlainText pre = true) (htext : PlainText text = true)
    (hpost : PlainText post = true) (hsp : sp = [] ∨ sp = [' ']) (hl : '\n' ∉ label) :
    '\n' ∉ refSrc pre text sp label post := by
  have hs : '\n' ∉ sp := by rcases hsp with rfl | rfl <;> simp
  simp only [refSrc, List.mem_append, List.mem_singleton, not_or]
  exact ⟨⟨⟨⟨⟨⟨⟨⟨plain_not_mem hpre (by decide), by decide⟩, plain_not_mem htext (by decide)⟩, by decide⟩, hs⟩,
    by decide⟩, hl⟩, by decide⟩, plain_not_mem hpost (by decide)⟩

theorem refSrc_shape {pre text sp label post : Str} (hpre : PlainText pre = true) (hstart : ParaStartOK pre = true) :
    ∃ c r, refSrc pre text sp label post = c :: r ∧ Block.plainCh c = true ∧ isSpace c = false := by
  cases pre with
  | nil => exact ⟨'[', text ++ [']'] ++ sp ++ ['['] ++ label ++ [']'] ++ post, by simp [refSrc], by decide, by decide⟩
  | cons c pre' =>
    have hc : inlPlain c = true := by
      simp only [PlainText, List.all_cons, Bool.and_eq_true] at hpre; exact hpre.1
    simp only [ParaStartOK, Bool.and_eq_true, bne_iff_ne, ne_eq, Bool.not_eq_true'] at hstart
    refine ⟨c, pre' ++ ['['] ++ text ++ [']'] ++ sp ++ ['['] ++ label ++ [']'] ++ post, by simp [refSrc],
      inlPlain_block hc hstart.1 hstart.2, ?_⟩
    cases hs : isSpace c with
    | false => rfl
    | true =>
      exfalso
      have : ∀ x : Char, isSpace x = true → inlPlain x = true → x = ' ' := by
        intro x hx hp
        simp only [inlPlain, Bool.or_eq_true, decide_eq_true_eq] at hp
        rcases hp with ((hp | hp) | hp) | hp
        · exfalso
          have hlt : x.toNat < 128 := by
            simp only [isAsciiAlnum, isAsciiAlpha, isAsciiLower, isAsciiUpper, isAsciiDigit, Bool.or_eq_true,
              Bool.and_eq_true, decide_eq_true_eq] at hp
            rcases hp with (hp | hp) | hp
            · exact Nat.lt_of_le_of_lt (show x.toNat ≤ 'z'.toNat from hp.2) (by decide)
            · exact Nat.lt_of_le_of_lt (show x.toNat ≤ 'Z'.toNat from hp.2) (by decide)
            · exact Nat.lt_of_le_of_lt (show x.toNat ≤ '9'.toNat from hp.2) (by decide)
          revert hx hp
          exact char_of_ascii (fun x => isSpace x = true → isAsciiAlnum x = true → False) (by decide) x hlt
        · exact hp
        · subst hp; exact absurd hx (by decide)
        · subst hp; exact absurd hx (by decide)
      exact hstart.1 (this c hs hc)

theorem refMatchAt_para {pre text sp label post : Str} (hpre : PlainText pre = true) (htext : PlainText text = true)
    (hstart : ParaStartOK pre = true) (hsp : sp = [] ∨ sp = [' ']) :
    Block.refMatchAt (refSrc pre text sp label post) 0 = none := by
  cases pre with
  | cons c pre' =>
    have hc : inlPlain c = true := by
      simp only [PlainText, List.all_cons, Bool.and_eq_true] at hpre; exact hpre.1
    simp only [ParaStartOK, Bool.and_eq_true, bne_iff_ne, ne_eq, Bool.not_eq_true'] at hstart
    have hcb : c ≠ '[' := by intro e; subst e; exact absurd hc (by decide)
    have e : refSrc (c :: pre') text sp label post = c :: (pre' ++ ['['] ++ text ++ [']'] ++ sp ++ ['['] ++ label ++ [']'] ++ post) := by
      simp [refSrc]
    rw [e]
    simp [Block.refMatchAt, countPrefix, hstart.1, hcb]
  | nil =>
    have e : refSrc [] text sp label post = '[' :: (text ++ (']' :: (sp ++ '[' :: (label ++ [']'] ++ post)))) := by
      simp [refSrc]
    have hsl : spanLen (fun c => c != '[' && c != ']') (text ++ (']' :: (sp ++ '[' :: (label ++ [']'] ++ post)))) =
        text.length := by
      apply Block.spanLen_append
      · simp only [List.all_eq_true, Bool.and_eq_true, bne_iff_ne, ne_eq]
        intro x hx
        exact ⟨fun e => by subst e; exact plain_not_mem htext (by decide) hx,
          fun e => by subst e; exact plain_not_mem htext (by decide) hx⟩
      · intro x hx; simp at hx; subst hx; rfl
    have g1 : ('[' :: (text ++ (']' :: (sp ++ '[' :: (label ++ [']'] ++ post)))))[0 + 1 + text.length]? = some ']' :=
      Block.getElem?_at (pre := '[' :: text) (r := sp ++ '[' :: (label ++ [']'] ++ post)) (by simp) (by simp; omega)
    have g2 : ('[' :: (text ++ (']' :: (sp ++ '[' :: (label ++ [']'] ++ post)))))[0 + 1 + text.length + 1]? ≠ some ':' := by
      rcases hsp with rfl | rfl
      · rw [Block.getElem?_at (pre := '[' :: text ++ [']']) (c := '[') (r := label ++ [']'] ++ post) (by simp)
          (by simp; omega)]
        decide
      · rw [Block.getElem?_at (pre := '[' :: text ++ [']']) (c := ' ') (r := '[' :: (label ++ [']'] ++ post)) (by simp)
          (by simp; omega)]
        decide
    have : ((('[' :: (text ++ (']' :: (sp ++ '[' :: (label ++ [']'] ++ post)))))[0 + 1 + text.length + 1]?) != some ':') = true := by
      simpa using g2
    rw [e]
    unfold Block.refMatchAt
    simp only [List.drop_zero, countPrefix, show ('[' : Char) ≠ ' ' by decide, if_false, Nat.add_zero,
      List.getElem?_cons_zero, bne_self_eq_false, Bool.false_eq_true, List.drop_succ_cons, hsl, g1, this, if_true]


/-- `ParagraphProcessor` gets the paragraph -/
theorem dispatch_para (tab : Nat) (htab : 0 < tab) (pb : Block.PB) (rest : List Str) {pre text sp label post : Str}
    (hpre : PlainText pre = true) (htext : PlainText text = true) (hpost : PlainText post = true)
    (hstart : ParaStartOK pre = true) (hsp : sp = [] ∨ sp = [' ']) (hl : '\n' ∉ label) :
    Block.dispatch tab pb [] [] (Node.el "div") (refSrc pre text sp label post) rest =
      some (Block.paraP [] [] (Node.el "div") (refSrc pre text sp label post) rest) := by
  obtain ⟨c, r, e, hc, _⟩ := refSrc_shape (text := text) (sp := sp) (label := label) (post := post) hpre hstart
  have hnl := refSrc_no_nl hpre htext hpost hsp hl
  have hr : r.all Block.notNl = true := by
    rw [e] at hnl
    simp only [List.all_eq_true, Block.notNl, bne_iff_ne, ne_eq]
    intro x hx ex; subst ex; exact hnl (List.mem_cons_of_mem _ hx)
  have hpl : Block.PlainLine (refSrc pre text sp label post) := ⟨0, c, r, by simp [e, Block.spaces], hc, hr⟩
  have := Block.dispatch_plain tab pb [] [] (Node.el "div") rest (refSrc pre text sp label post) [] 0 c r
    (by simp [e, Block.spaces]) hc htab (by intro l hl'; simp at hl'; subst hl'; exact hpl)
  rw [Block.joinLines_single] at this
  rw [this, refSearch_line_none _ hnl (refMatchAt_para hpre htext hstart hsp)]

theorem startsVisible_para {pre text sp label post : Str} (hpre : PlainText pre = true)
    (hstart : ParaStartOK pre = true) : Escape.startsVisible (refSrc pre text sp label post) = true := by
  obtain ⟨c, r, e, _, hs⟩ := refSrc_shape (text := text) (sp := sp) (label := label) (post := post) hpre hstart
  simp [e, Escape.startsVisible, hs]

/-- the block parser on the three blocks of the document: paragraph, definition, and the empty block that the
    final `"\n\n"` gives — in either order of the first two -/
theorem parseBlocks_doc (tab f : Nat) (defFirst : Bool) {pre text sp label post : Str}
    (hpre : PlainText pre = true) (htext : PlainText text = true) (hpost : PlainText post = true)
    (hstart : ParaStartOK pre = true) (hsp : sp = [] ∨ sp = [' ']) (hl : '\n' ∉ label)
    (indent : Nat) (dlabel url : Str) (angle : Bool) (title : Option (TitleStyle × Str)) (nl : Bool)
    (hi : indent ≤ 3) (hit : indent < tab) (hdl : LabelOK dlabel = true) (hu : UrlOK url = true)
    (ht : TitleOK title = true) :
    Block.parseBlocks tab (f + 3) [] [] (Node.el "div")
        (if defFirst then [printDef indent dlabel url angle title nl, refSrc pre text sp label post, []]
         else [refSrc pre text sp label post, printDef indent dlabel url angle title nl, []]) =
      some ((Node.el "div").append (Block.mkText "p" (refSrc pre text sp label post)),
        [defEntry dlabel url title]) := by
  have hp := Escape.parseBlocks_paragraph tab f (refSrc pre text sp label post) (startsVisible_para hpre hstart)
    (fun pb rest => dispatch_para tab (by omega) pb rest hpre htext hpost hstart hsp hl)
  have hd : ∀ (pb : Block.PB) refs p rest, Block.dispatch tab pb [] refs p (printDef indent dlabel url angle title nl) rest =
      some (p, refs ++ [defEntry dlabel url title], rest) :=
    fun pb refs p rest => Block.dispatch_printDef tab pb [] refs p rest indent dlabel url angle title nl hi hit hdl hu ht
  cases defFirst with
  | true =>
    obtain ⟨r1, r2, p1, hR, h1, h2⟩ := Block.parseBlocks_insert tab [] _ _ hd [refSrc pre text sp label post, []]
      (f + 2) [] [] (Node.el "div") _ _ hp
    simp only [List.nil_append] at hR h2
    have : r1 = [] ∧ r2 = [] := by
      have := congrArg List.length hR
      simp only [List.length_nil, List.length_append] at this
      exact ⟨List.length_eq_zero_iff.mp (by omega), List.length_eq_zero_iff.mp (by omega)⟩
    obtain ⟨rfl, rfl⟩ := this
    simpa using h2
  | false =>
    obtain ⟨r1, r2, p1, hR, h1, h2⟩ := Block.parseBlocks_insert tab [] _ _ hd [[]]
      (f + 2) [refSrc pre text sp label post] [] (Node.el "div") _ _ hp
    simp only [List.nil_append] at hR h2
    have : r1 = [] ∧ r2 = [] := by
      have := congrArg List.length hR
      simp only [List.length_nil, List.length_append] at this
      exact ⟨List.length_eq_zero_iff.mp (by omega), List.length_eq_zero_iff.mp (by omega)⟩
    obtain ⟨rfl, rfl⟩ := this
    simpa using h2


/-! ### the whole document -/

/-- the two blocks separated by a blank line, the definition first or last -/
def docSrc (defFirst : Bool) (para d : Str) : Str :=
  if defFirst then d ++ ['\n', '\n'] ++ para else para ++ ['\n', '\n'] ++ d

theorem plain_docCh {s : Str} (h : PlainText s = true) : s.all docCh = true := by
  simp only [List.all_eq_true] at *
  intro c hc
  have hp := List.all_eq_true.mp h c hc
  simp only [docCh, Bool.and_eq_true, bne_iff_ne, ne_eq]
  refine ⟨⟨⟨⟨⟨?_, ?_⟩, ?_⟩, ?_⟩, ?_⟩, ?_⟩ <;> (intro e; subst e; exact absurd hp (by decide))

/-- the characters of the definition are ordinary document characters -/
def DefChars (dlabel url : Str) (title : Option (TitleStyle × Str)) : Bool :=
  dlabel.all docCh && url.all docCh && (match title with | none => true | some (_, t) => t.all docCh)

theorem printDef_docCh (indent : Nat) (dlabel url : Str) (title : Option (TitleStyle × Str)) (nl : Bool)
    (h : DefChars dlabel url title = true) : (printDef indent dlabel url false title nl).all docCh = true := by
  simp only [DefChars, Bool.and_eq_true] at h
  obtain ⟨⟨h1, h2⟩, h3⟩ := h
  have hsp : ∀ n, (Block.spaces n).all docCh = true := by
    intro n
    simp only [Block.spaces, List.all_eq_true]
    intro c hc
    have : c = ' ' := (List.mem_replicate.mp hc).2
    subst this; decide
  cases title with
  | none => simp [printDef, defHead, urlWritten, List.all_append, hsp, h1, h2]; decide
  | some t =>
    obtain ⟨st, t⟩ := t
    have ho : docCh st.openCh = true := by cases st <;> decide
    have hcl : docCh st.closeCh = true := by cases st <;> decide
    have h3' : t.all docCh = true := h3
    cases nl <;>
      simp [printDef, defHead, urlWritten, titleWritten, List.all_append, hsp, h1, h2, ho, hcl, h3'] <;> decide


theorem joinLines_ne_nil (l : Str) (r : List Str) (h : l ≠ []) : joinLines (l :: r) ≠ [] := by
  cases r with
  | nil => simpa [Block.joinLines_single] using h
  | cons b r => rw [Block.joinLines_cons_cons]; simp

theorem joinLines_getLast (ls : List Str) (hne : ls ≠ []) (h : ∀ l ∈ ls, Block.PlainLine l) :
    (joinLines ls).getLast? ≠ some '\n' := by
  induction ls with
  | nil => exact absurd rfl hne
  | cons l r ih =>
    cases r with
    | nil =>
      rw [Block.joinLines_single]
      intro e
      have hm := List.mem_of_getLast? e
      have := List.all_eq_true.mp (h l (by simp)).noNl _ hm
      simp [Block.notNl] at this
    | cons b r =>
      rw [Block.joinLines_cons_cons]
      have hne' : joinLines (b :: r) ≠ [] := joinLines_ne_nil b r (h b (by simp)).ne_nil
      have : (l ++ '\n' :: joinLines (b :: r)).getLast? = (joinLines (b :: r)).getLast? := by
        rw [List.getLast?_append]
        cases hj : joinLines (b :: r) with
        | nil => exact absurd hj hne'
        | cons x y =>
          simp only [List.getLast?_cons_cons]
          have : (x :: y).getLast? = some ((x :: y).getLast (by simp)) := List.getLast?_eq_some_getLast (by simp)
          rw [this]; rfl
      rw [this]
      exact ih (by simp) (fun x hx => h x (by simp [hx]))

/-- two blocks of plain lines separated by a blank line: what the preprocessors and the block splitter do -/
theorem twoBlocks (cfg : Pipeline.Cfg) (LA LB : List Str) (hA : LA ≠ []) (hB : LB ≠ [])
    (hpA : ∀ l ∈ LA, Block.PlainLine l) (hpB : ∀ l ∈ LB, Block.PlainLine l)
    (hcA : (joinLines LA).all docCh = true) (hcB : (joinLines LB).all docCh = true) :
    Pipeline.prepare cfg (joinLines LA ++ ['\n', '\n'] ++ joinLines LB) =
        joinLines LA ++ ['\n', '\n'] ++ joinLines LB ++ ['\n', '\n'] ∧
    splitS ['\n', '\n'] (joinLines LA ++ ['\n', '\n'] ++ joinLines LB ++ ['\n', '\n']) =
        [joinLines LA, joinLines LB, []] := by
  constructor
  · apply prepare_doc
    · simp only [List.all_append, hcA, hcB, Bool.and_true, Bool.true_and]; decide
    · have e : joinLines LA ++ ['\n', '\n'] ++ joinLines LB = joinLines (LA ++ [] :: LB) := by
        rw [Block.joinLines_append LA ([] :: LB) hA (by simp)]
        cases LB with
        | nil => exact absurd rfl hB
        | cons b r => rw [Block.joinLines_cons_cons]; simp
      rw [e]
      apply inkE_joinLines
      intro l hl
      simp only [List.mem_append, List.mem_cons] at hl
      rcases hl with hl | rfl | hl
      · exact plainLine_ink (hpA l hl)
      · exact ⟨rfl, Or.inl rfl⟩
      · exact plainLine_ink (hpB l hl)
  · exact splitS_two _ _ (Block.noNN_plain LA hpA) (joinLines_getLast LA hA hpA) (Block.noNN_plain LB hpB)
      (joinLines_getLast LB hB hpB)


theorem docCh_ne_stx {s : Str} (h : s.all docCh = true) : (Char.ofNat 2) ∉ s := by
  intro hm
  exact absurd (List.all_eq_true.mp h _ hm) (by decide)

theorem storedTitle_docCh {dlabel url : Str} {title : Option (TitleStyle × Str)} (h : DefChars dlabel url title = true) :
    ∀ s, storedTitle title = some s → s.all docCh = true := by
  simp only [DefChars, Bool.and_eq_true] at h
  intro s hs
  cases title with
  | none => simp [storedTitle, group5, group6, Node.truthy] at hs
  | some t =>
    obtain ⟨st, t⟩ := t
    have h3 : t.all docCh = true := h.2
    cases st <;> cases t <;> simp [storedTitle, group5, group6, Node.truthy] at hs <;> (subst hs; first | exact h3 | rfl)

theorem refSrc_docCh {pre text sp label post : Str} (hpre : PlainText pre = true) (htext : PlainText text = true)
    (hpost : PlainText post = true) (hsp : sp = [] ∨ sp = [' ']) (hl : label.all docCh = true) :
    (refSrc pre text sp label post).all docCh = true := by
  have hs : sp.all docCh = true := by rcases hsp with rfl | rfl <;> decide
  simp only [refSrc, List.all_append, plain_docCh hpre, plain_docCh htext, plain_docCh hpost, hs, hl, Bool.and_true,
    Bool.true_and]
  decide

/-- **`Markdown.convert`** on a two-block document: a paragraph with one reference-style link and the definition of
    its label, in either order -/
theorem convert_ref_doc (cfg : Pipeline.Cfg) (hfmt : cfg.fmt = .xhtml)
    (hbl : cfg.blockLevel = TreeProc.defaultBlockLevel) (defFirst : Bool) (pre text sp label post : Str)
    (hpre : PlainText pre = true) (htext : PlainText text = true) (hpost : PlainText post = true)
    (hstart : ParaStartOK pre = true) (hsp : sp = [] ∨ sp = [' ']) (hul : UseLabelOK label = true)
    (hlnl : '\n' ∉ label) (hlc : label.all docCh = true)
    (indent : Nat) (dlabel url : Str) (title : Option (TitleStyle × Str)) (nl : Bool)
    (hi : indent ≤ 3) (hit : indent < cfg.tab) (hdl : LabelOK dlabel = true) (hu : UrlOK url = true)
    (ht : TitleOK title = true) (hdc : DefChars dlabel url title = true)
    (hkey : useKey text label = normDef dlabel) :
    Pipeline.convert cfg (docSrc defFirst (refSrc pre text sp label post) (printDef indent dlabel url false title nl)) =
      .ok ("<p>".toList ++ (pre ++ linkHtml url (storedTitle title) text ++ post) ++ "</p>".toList) := by
  -- the paragraph and the definition as blocks of plain lines
  have hspOK : SpOK sp := by
    rcases hsp with rfl | rfl
    · exact Or.inl rfl
    · exact Or.inr ⟨' ', rfl, by decide⟩
  obtain ⟨c, r, epara, hc, _⟩ := refSrc_shape (text := text) (sp := sp) (label := label) (post := post) hpre hstart
  have hnl := refSrc_no_nl hpre htext hpost hsp hlnl
  have hparaPL : Block.PlainLine (refSrc pre text sp label post) := by
    refine ⟨0, c, r, by simp [epara, Block.spaces], hc, ?_⟩
    rw [epara] at hnl
    simp only [List.all_eq_true, Block.notNl, bne_iff_ne, ne_eq]
    intro x hx ex; subst ex; exact hnl (List.mem_cons_of_mem _ hx)
  have hdefPL := Block.plain_defLines (indent := indent) (angle := false) (nl := nl) hdl hu ht
  obtain ⟨r0, rl, edl⟩ := Block.defLines_shape indent dlabel url false title nl
  have hdefne : defLines indent dlabel url false title nl ≠ [] := by rw [edl]; simp
  have hcpara := refSrc_docCh hpre htext hpost hsp hlc
  have hcdef := printDef_docCh indent dlabel url title nl hdc
  -- preprocessors and block splitter
  obtain ⟨LA, LB, hLA, hLB, hpA, hpB, hcA, hcB, hdoc, hblocks⟩ :
      ∃ LA LB : List Str, LA ≠ [] ∧ LB ≠ [] ∧ (∀ l ∈ LA, Block.PlainLine l) ∧ (∀ l ∈ LB, Block.PlainLine l) ∧
        (joinLines LA).all docCh = true ∧ (joinLines LB).all docCh = true ∧
        docSrc defFirst (refSrc pre text sp label post) (printDef indent dlabel url false title nl) =
          joinLines LA ++ ['\n', '\n'] ++ joinLines LB ∧
        [joinLines LA, joinLines LB, []] =
          (if defFirst then [printDef indent dlabel url false title nl, refSrc pre text sp label post, []]
           else [refSrc pre text sp label post, printDef indent dlabel url false title nl, []]) := by
    cases defFirst with
    | true =>
      refine ⟨defLines indent dlabel url false title nl, [refSrc pre text sp label post], hdefne, by simp, hdefPL,
        by intro l hl; simp at hl; subst hl; exact hparaPL, ?_, ?_, ?_, ?_⟩
      · rw [← Block.printDef_eq_joinLines]; exact hcdef
      · rw [Block.joinLines_single]; exact hcpara
      · simp [docSrc, Block.joinLines_single, ← Block.printDef_eq_joinLines]
      · simp [Block.joinLines_single, ← Block.printDef_eq_joinLines]
    | false =>
      refine ⟨[refSrc pre text sp label post], defLines indent dlabel url false title nl, by simp, hdefne,
        by intro l hl; simp at hl; subst hl; exact hparaPL, hdefPL, ?_, ?_, ?_, ?_⟩
      · rw [Block.joinLines_single]; exact hcpara
      · rw [← Block.printDef_eq_joinLines]; exact hcdef
      · simp [docSrc, Block.joinLines_single, ← Block.printDef_eq_joinLines]
      · simp [Block.joinLines_single, ← Block.printDef_eq_joinLines]
  obtain ⟨hprep, hsplit⟩ := twoBlocks cfg LA LB hLA hLB hpA hpB hcA hcB
  -- the source is in the modelled domain and not blank
  have hall : (docSrc defFirst (refSrc pre text sp label post) (printDef indent dlabel url false title nl)).all docCh =
      true := by
    rw [hdoc]; simp only [List.all_append, hcA, hcB, Bool.and_true, Bool.true_and]; decide
  have h1 : (docSrc defFirst (refSrc pre text sp label post) (printDef indent dlabel url false title nl)).contains '<' =
      false := by
    cases hcn : (docSrc defFirst (refSrc pre text sp label post) (printDef indent dlabel url false title nl)).contains '<' with
    | false => rfl
    | true => exact absurd (List.all_eq_true.mp hall _ (List.contains_iff_mem.1 hcn)) (by decide)
  have h2 : Normalize.isBlankDoc
      (docSrc defFirst (refSrc pre text sp label post) (printDef indent dlabel url false title nl)) = false := by
    rw [Normalize.isBlankDoc_eq_all]
    cases hb : (docSrc defFirst (refSrc pre text sp label post) (printDef indent dlabel url false title nl)).all isSpace with
    | false => rfl
    | true =>
      exfalso
      have hmem : '[' ∈ docSrc defFirst (refSrc pre text sp label post) (printDef indent dlabel url false title nl) := by
        have : '[' ∈ refSrc pre text sp label post := by simp [refSrc]
        cases defFirst <;> simp [docSrc, this]
      exact absurd (List.all_eq_true.mp hb _ hmem) (by decide)
  -- block parser
  have h4 : Block.parseDocument cfg.tab (joinLines LA ++ ['\n', '\n'] ++ joinLines LB ++ ['\n', '\n']) =
      some ((Node.el "div").append (Block.mkText "p" (refSrc pre text sp label post)),
        [defEntry dlabel url title]) := by
    simp only [Block.parseDocument, Block.parseDocumentWith, Block.parseChunk, hsplit, hblocks, Block.fuelFor]
    have := parseBlocks_doc cfg.tab (2 * (joinLines LA ++ ['\n', '\n'] ++ joinLines LB ++ ['\n', '\n']).length + 7)
      defFirst hpre htext hpost hstart hsp hlnl indent dlabel url false title nl hi hit hdl hu ht
    exact this
  -- inline processor
  have h5 := run_ref_found { esc := cfg.esc, refs := [defEntry dlabel url title] } pre text sp label post hpre htext
    hpost hspOK hul (normDef dlabel) url (storedTitle title) (by simp [defEntry, hkey])
  -- tree processors
  obtain ⟨e1, e2, e3, e4, e5, e6⟩ := linkEl_fields url (storedTitle title) text
  have h6 := prettify_linkPara pre post (linkEl url (storedTitle title) text) e1 e6
  have hu' : (Char.ofNat 2) ∉ url := docCh_ne_stx (by simp only [DefChars, Bool.and_eq_true] at hdc; exact hdc.1.2)
  have ht' : ∀ s, storedTitle title = some s → (Char.ofNat 2) ∉ s := fun s hs => docCh_ne_stx (storedTitle_docCh hdc s hs)
  have h7 := unescapeTree_linkDoc pre post (linkEl url (storedTitle title) text) e1 e3 e5 (plain_no_stx hpre)
    (plain_no_stx hpost) (fun s hs => by rw [e4] at hs; cases hs; exact plain_no_stx htext)
    (by
      rw [linkEl_eq]
      intro kv hkv
      simp only [List.mem_cons] at hkv
      rcases hkv with rfl | hkv
      · exact hu'
      · split at hkv
        · simp only [List.mem_singleton] at hkv; subst hkv
          cases hst : storedTitle title with
          | none => simp [hst, Node.truthy] at *
          | some s => simp only [Option.getD_some]; exact ht' s hst
        · simp at hkv)
  -- serializer and postprocessors
  have h8 := serialize_linkDoc pre post url (storedTitle title) text hpre htext hpost
  have h9 := finish_linkDoc cfg.blockLevel (pre ++ linkHtml url (storedTitle title) text ++ post) (by
    simp only [List.mem_append, not_or]
    exact ⟨⟨plain_no_stx hpre, stx_not_mem_linkHtml url _ text hu' ht' (plain_no_stx htext)⟩, plain_no_stx hpost⟩)
  rw [hdoc] at h1 h2
  rw [hbl] at h9
  simp only [Pipeline.convert, Pipeline.tree, hdoc, h1, h2, Bool.false_eq_true, if_false, hprep, h4,
    List.reverse_cons, List.reverse_nil, List.nil_append, h5, hbl, h6, h7, hfmt, h8]
  simp only [List.append_assoc] at h9 ⊢
  simp only [h9]


/-! ### the image form `pre![alt][label]post` -/

/-- a link pattern (not an image pattern) skips `![`: the look-behind `(?<!\!)` -/
theorem linkScan_skip_bang (cfg : Inline.Cfg) (stash : List StashItem) (pi : Nat)
    (hpi : ¬ (pi = 4 ∨ pi = 5 ∨ pi = 7)) (data pre R : Str) (prev0 : Option Char) (i : Nat) (h1 : '[' ∉ pre) :
    linkScan cfg stash pi data prev0 (pre ++ '!' :: '[' :: R) i =
      linkScan cfg stash pi data (some '[') R (i + pre.length + 2) := by
  have himg : (decide (pi = 4) || decide (pi = 5) || decide (pi = 7)) = false := by
    simp only [not_or] at hpi; simp [hpi.1, hpi.2.1, hpi.2.2]
  induction pre generalizing prev0 i with
  | nil =>
    rw [List.nil_append, linkScan]
    simp only [himg, Bool.false_eq_true, if_false, show ('!' : Char) ≠ '[' by decide, decide_false, Bool.false_and]
    rw [linkScan]
    simp [himg]
  | cons c r ih =>
    have c1 : c ≠ '[' := fun e => h1 (e ▸ List.mem_cons_self)
    rw [List.cons_append, linkScan]
    simp only [himg, Bool.false_eq_true, if_false, c1, decide_false, Bool.false_and]
    rw [ih (some c) (i + 1) (fun hh => h1 (List.mem_cons_of_mem _ hh))]
    simp only [List.length_cons]
    congr 1; omega

/-- an image pattern at `![`, when `handleMatch` rejects and no other `!` follows -/
theorem linkScan_image_reject (cfg : Inline.Cfg) (stash : List StashItem) (pi : Nat)
    (hpi : pi = 4 ∨ pi = 5 ∨ pi = 7) (data pre rest : Str) (prev0 : Option Char) (i : Nat) (h1 : '!' ∉ pre)
    (h2 : '!' ∉ rest) (hf : linkHandle cfg stash pi data (i + pre.length) (i + pre.length + 2) = none) :
    linkScan cfg stash pi data prev0 (pre ++ '!' :: '[' :: rest) i = none := by
  have himg : (decide (pi = 4) || decide (pi = 5) || decide (pi = 7)) = true := by
    rcases hpi with rfl | rfl | rfl <;> rfl
  induction pre generalizing prev0 i with
  | nil =>
    simp only [List.length_nil, Nat.add_zero] at hf
    rw [List.nil_append, linkScan]
    simp only [himg, if_true, decide_true, Bool.true_and, List.head?_cons, beq_self_eq_true, hf]
    apply linkScan_none
    simp only [hpi, if_true, List.mem_cons, not_or]
    exact ⟨by decide, h2⟩
  | cons c r ih =>
    have c1 : c ≠ '!' := fun e => h1 (e ▸ List.mem_cons_self)
    rw [List.cons_append, linkScan]
    simp only [himg, if_true, c1, decide_false, Bool.false_and, Bool.false_eq_true, if_false]
    exact ih (some c) (i + 1) (fun hh => h1 (List.mem_cons_of_mem _ hh)) (by
      rw [← hf]; simp only [List.length_cons]
      have e1 : i + 1 + r.length = i + (r.length + 1) := by omega
      rw [e1])

theorem evalId_plain_none (D : Str) (idx : Nat) (text post : Str) (hd : D.drop idx = post)
    (hp : '[' ∉ post) : evalId D idx text = none := by
  unfold evalId
  rw [hd]
  cases post with
  | nil => rfl
  | cons c r =>
    have hc : c ≠ '[' := fun e => hp (e ▸ List.mem_cons_self)
    have hr : '[' ∉ r := fun hh => hp (List.mem_cons_of_mem _ hh)
    simp only
    split
    · cases r with
      | nil => rfl
      | cons d r' =>
        have hd' : d ≠ '[' := fun e => hr (e ▸ List.mem_cons_self)
        simp
        split
        · rename_i heq; simp at heq; exact absurd heq.1 hd'
        · rfl
    · simp
      split
      · rename_i heq; simp at heq; exact absurd heq.1 hc
      · rfl

/-- `handleMatch` of the reference pattern rejects `[t]` that is followed by plain text -/
theorem linkHandle_ref_reject (cfg : Inline.Cfg) (stash : List StashItem) (D A t post : Str) (m : Nat)
    (hD : D = A ++ t ++ ']' :: post) (h1 : '[' ∉ t) (h2 : ']' ∉ t) (hp : '[' ∉ post) :
    linkHandle cfg stash 2 D m A.length = none := by
  subst hD
  have hg := getText_plain A t post h1 h2
  have he := evalId_plain_none (A ++ t ++ ']' :: post) (A.length + t.length + 1) t post (by
    have : A ++ t ++ ']' :: post = (A ++ t ++ [']']) ++ post := by simp
    rw [this]; apply List.drop_left'; simp; omega) hp
  unfold linkHandle
  rw [hg]
  simp only [Bool.not_true, Bool.false_eq_true, if_false, Nat.reduceEqDiff, decide_false, Bool.or_self, he]


/-- the label of an image reference in the theorem below: no bracket, backtick, backslash, `!` -/
def ImgLabelOK (label : Str) : Bool :=
  label.all (fun c => c != '[' && c != ']' && c != '`' && c != '\\' && c != '!')

theorem imgLabel_not_mem {label : Str} (h : ImgLabelOK label = true) {x : Char}
    (hx : (x != '[' && x != ']' && x != '`' && x != '\\' && x != '!') = false) : x ∉ label := by
  intro hm
  have := List.all_eq_true.mp h x hm
  rw [hx] at this; exact Bool.false_ne_true this

theorem imgSrc_not_mem {pre alt sp label post : Str} (hpre : PlainText pre = true) (halt : PlainText alt = true)
    (hpost : PlainText post = true) (hsp : SpOK sp) {x : Char} (hx : inlPlain x = false) (hs : isSpace x = false)
    (hl : x ∉ label) (hb1 : x ≠ '!') (hb2 : x ≠ '[') (hb3 : x ≠ ']') : x ∉ imgSrc pre alt sp label post := by
  simp only [imgSrc, List.mem_append, List.mem_cons, List.not_mem_nil, or_false, not_or]
  exact ⟨⟨⟨⟨⟨⟨⟨⟨plain_not_mem hpre hx, hb1, hb2⟩, plain_not_mem halt hx⟩, hb3⟩, sp_not_mem hsp hs⟩, hb2⟩, hl⟩, hb3⟩,
    plain_not_mem hpost hx⟩

/-- patterns 2, 3, 4 find nothing in `pre![alt][label]post`; pattern 5 finds the image reference -/
theorem findMatch_img (cfg : Inline.Cfg) (st : St) (pre alt sp label post : Str) (hpre : PlainText pre = true)
    (halt : PlainText alt = true) (hpost : PlainText post = true) (hsp : SpOK sp) (hl : ImgLabelOK label = true) :
    findMatch cfg 2 (imgSrc pre alt sp label post) 0 st = some (none, st) ∧
    findMatch cfg 3 (imgSrc pre alt sp label post) 0 st = some (none, st) ∧
    findMatch cfg 4 (imgSrc pre alt sp label post) 0 st = some (none, st) ∧
    findMatch cfg 5 (imgSrc pre alt sp label post) 0 st =
      some (some (match cfg.refs.find? (fun x => x.1 = useKey alt label) with
        | none => ⟨.none, pre.length, (((pre ++ ['!', '[']) ++ alt ++ [']']).length + sp.length + label.length + 2 : Nat)⟩
        | some (_, href, title) =>
          ⟨.el (imgEl href title alt), pre.length,
            (((pre ++ ['!', '[']) ++ alt ++ [']']).length + sp.length + label.length + 2 : Nat)⟩), st) := by
  have hD0 : imgSrc pre alt sp label post =
      pre ++ '!' :: '[' :: ((alt ++ ']' :: sp) ++ '[' :: (label ++ ']' :: post)) := by simp [imgSrc, List.append_assoc]
  have hQ1 : '[' ∉ alt ++ ']' :: sp := by
    simp only [List.mem_append, List.mem_cons, not_or]
    exact ⟨plain_not_mem halt (by decide), by decide, sp_not_mem hsp (by decide)⟩
  have hQ2 : '!' ∉ alt ++ ']' :: sp := by
    simp only [List.mem_append, List.mem_cons, not_or]
    exact ⟨plain_not_mem halt (by decide), by decide, sp_not_mem hsp (by decide)⟩
  have hR2 : '[' ∉ label ++ ']' :: post := by
    simp only [List.mem_append, List.mem_cons, not_or]
    exact ⟨imgLabel_not_mem hl (by decide), by decide, plain_not_mem hpost (by decide)⟩
  have hDA : imgSrc pre alt sp label post = (pre ++ ['!', '['] ++ (alt ++ ']' :: sp) ++ ['[']) ++ label ++ ']' :: post := by
    simp [imgSrc, List.append_assoc]
  -- a link pattern: skip `![`, reject at `[label]`, nothing after
  have hlink : ∀ pi, (pi = 2 ∨ pi = 3) →
      linkHandle cfg st.stash pi (imgSrc pre alt sp label post) (pre ++ ['!', '['] ++ (alt ++ ']' :: sp)).length
        (pre ++ ['!', '['] ++ (alt ++ ']' :: sp) ++ ['[']).length = none →
      findMatch cfg pi (imgSrc pre alt sp label post) 0 st = some (none, st) := by
    intro pi hpi hrej
    have hni : ¬ (pi = 4 ∨ pi = 5 ∨ pi = 7) := by omega
    have s0 := linkScan_skip_bang cfg st.stash pi hni (imgSrc pre alt sp label post) pre
      ((alt ++ ']' :: sp) ++ '[' :: (label ++ ']' :: post)) none 0 (plain_not_mem hpre (by decide))
    have s1 := linkScan_bracket cfg st.stash pi hni (imgSrc pre alt sp label post) (pre ++ ['!', '['])
      (alt ++ ']' :: sp) (label ++ ']' :: post) (some '[') hQ1 hQ2 (by simp)
    have s2 : linkScan cfg st.stash pi (imgSrc pre alt sp label post) (some '[') (label ++ ']' :: post)
        (pre ++ ['!', '['] ++ (alt ++ ']' :: sp) ++ ['[']).length = none := by
      apply linkScan_none; simp only [hni, if_false]; exact hR2
    rw [hrej, s2] at s1
    simp only at s1
    rw [show (pre ++ ['!', '[']).length = 0 + pre.length + 2 by simp] at s1
    rw [s1, ← hD0] at s0
    unfold findMatch
    rcases hpi with rfl | rfl <;> simp [s0]
  refine ⟨?_, ?_, ?_, ?_⟩
  · exact hlink 2 (Or.inl rfl) (linkHandle_ref_reject cfg st.stash _ _ label post _ hDA
      (imgLabel_not_mem hl (by decide)) (imgLabel_not_mem hl (by decide)) (plain_not_mem hpost (by decide)))
  · exact hlink 3 (Or.inr rfl) (linkHandle_link_reject cfg st.stash 3 (Or.inl rfl) _ _ label post _ hDA
      (imgLabel_not_mem hl (by decide)) (imgLabel_not_mem hl (by decide)) (plain_head_ne hpost (by decide)))
  · have hrej := linkHandle_link_reject cfg st.stash 4 (Or.inr rfl) (imgSrc pre alt sp label post) (pre ++ ['!', '['])
      alt (sp ++ '[' :: label ++ ']' :: post) (0 + pre.length) (by simp [imgSrc, List.append_assoc])
      (plain_not_mem halt (by decide)) (plain_not_mem halt (by decide))
      (by rw [List.append_assoc]; exact sp_head_ne_paren hsp)
    rw [show (pre ++ ['!', '[']).length = 0 + pre.length + 2 by simp] at hrej
    have hrest : '!' ∉ (alt ++ ']' :: sp) ++ '[' :: (label ++ ']' :: post) := by
      simp only [List.mem_append, List.mem_cons, not_or]
      exact ⟨⟨plain_not_mem halt (by decide), by decide, sp_not_mem hsp (by decide)⟩, by decide,
        imgLabel_not_mem hl (by decide), by decide, plain_not_mem hpost (by decide)⟩
    have := linkScan_image_reject cfg st.stash 4 (Or.inl rfl) (imgSrc pre alt sp label post) pre _ none 0
      (plain_not_mem hpre (by decide)) hrest hrej
    rw [← hD0] at this
    unfold findMatch
    simp [this]
  · have hlh := linkHandle_ref cfg st.stash 5 (Or.inr rfl) (pre ++ ['!', '[']) alt sp label post (0 + pre.length)
      (plain_not_mem halt (by decide)) (plain_not_mem halt (by decide)) (plain_not_mem halt (by decide)) hsp
      (imgLabel_not_mem hl (by decide))
    have hsrc : pre ++ ['!', '['] ++ alt ++ ']' :: sp ++ '[' :: label ++ ']' :: post = imgSrc pre alt sp label post := by
      simp [imgSrc, List.append_assoc]
    rw [hsrc, show (pre ++ ['!', '[']).length = 0 + pre.length + 2 by simp] at hlh
    have := linkScan_image_at cfg st.stash 5 (Or.inr (Or.inl rfl)) (imgSrc pre alt sp label post) pre
      ((alt ++ ']' :: sp) ++ '[' :: (label ++ ']' :: post)) none 0 (plain_not_mem hpre (by decide)) _ hlh
    rw [← hD0] at this
    unfold findMatch
    simp only [List.drop_zero, Nat.not_lt_zero, if_false, gt_iff_lt, Nat.reduceLeDiff, if_true]
    rw [this]
    cases cfg.refs.find? (fun x => x.1 = useKey alt label) <;> simp


theorem imgSrc_take (pre alt sp label post : Str) : (imgSrc pre alt sp label post).take pre.length = pre := by
  simp [imgSrc, List.append_assoc]

theorem imgSrc_drop (pre alt sp label post : Str) :
    (imgSrc pre alt sp label post).drop (((pre ++ ['!', '[']) ++ alt ++ [']']).length + sp.length + label.length + 2) =
      post := by
  have : imgSrc pre alt sp label post = (pre ++ ['!', '['] ++ alt ++ [']'] ++ sp ++ ['['] ++ label ++ [']']) ++ post := rfl
  rw [this]
  apply List.drop_left'
  simp; omega

theorem imgSrc_ne_nil (pre alt sp label post : Str) : imgSrc pre alt sp label post ≠ [] := by simp [imgSrc]

/-- **`__handleInline` on `pre![alt][label]post`, label defined**: patterns 0–4 find nothing, pattern 5 replaces the
    reference by a placeholder for the `<img>` element, the rest finds nothing. -/
theorem handleInline_img_found (cfg : Inline.Cfg) (f : Nat) (st : St) (pre alt sp label post : Str)
    (hpre : PlainText pre = true) (halt : PlainText alt = true) (hpost : PlainText post = true) (hsp : SpOK sp)
    (hl : ImgLabelOK label = true) (k url : Str) (title : Option Str)
    (hfind : cfg.refs.find? (fun x => x.1 = useKey alt label) = some (k, url, title)) :
    handleInline cfg (f + 1) (imgSrc pre alt sp label post) 0 st =
      some (pre ++ placeholder st.stash.length ++ post,
        { st with stash := st.stash ++ [.node (imgEl url title alt)] }) := by
  have q1 : '`' ∉ imgSrc pre alt sp label post :=
    imgSrc_not_mem hpre halt hpost hsp (by decide) (by decide) (imgLabel_not_mem hl (by decide)) (by decide) (by decide)
      (by decide)
  have q2 : '\\' ∉ imgSrc pre alt sp label post :=
    imgSrc_not_mem hpre halt hpost hsp (by decide) (by decide) (imgLabel_not_mem hl (by decide)) (by decide) (by decide)
      (by decide)
  obtain ⟨m2, m3, m4, m5⟩ := findMatch_img cfg st pre alt sp label post hpre halt hpost hsp hl
  rw [hfind] at m5
  simp only at m5
  obtain ⟨e1, e2, e3, e4, _, _⟩ := imgEl_fields url title alt
  have hap := applyPattern_leaf cfg (fun d p s => handleInline cfg f d p s) 5 _ 0 st _ _ _ m5 e1 e2 e3
    (fun t ht _ => by rw [e4] at ht; cases ht)
  rw [imgSrc_take, imgSrc_drop] at hap
  obtain ⟨g, hg⟩ : ∃ g, loopFuel (imgSrc pre alt sp label post).length = g + 6 :=
    ⟨loopFuel (imgSrc pre alt sp label post).length - 6,
      by have := loopFuel_ge (imgSrc pre alt sp label post).length; omega⟩
  have hg' : 15 ≤ g := by have := loopFuel_ge (imgSrc pre alt sp label post).length; omega
  rw [show handleInline cfg (f + 1) (imgSrc pre alt sp label post) 0 st =
    hiLoop (applyPattern cfg fun d p s => handleInline cfg f d p s)
      (loopFuel (imgSrc pre alt sp label post).length) (imgSrc pre alt sp label post) 0 0 st from rfl, hg]
  rw [hiLoop_none_step cfg _ _ _ 0 0 st (by omega) (findMatch0_none cfg _ st q1),
    hiLoop_none_step cfg _ _ _ 1 0 st (by omega) (findMatch1_none cfg _ st q2),
    hiLoop_none_step cfg _ _ _ 2 0 st (by omega) m2,
    hiLoop_none_step cfg _ _ _ 3 0 st (by omega) m3,
    hiLoop_none_step cfg _ _ _ 4 0 st (by omega) m4,
    hiLoop_step _ _ _ 5 0 st (by omega) _ _ _ _ hap]
  simp only [if_true]
  exact hiLoop_quiet cfg _ _ _
    (quiet_append (quiet_append (plain_quiet hpre) (quiet_placeholder _)) (plain_quiet hpost)) 11 5 g rfl (by omega)
    (by omega)

/-- the paragraph after the inline processor: `<p>pre<img …/>post</p>` is `linkPara pre post (imgEl …)` -/
theorem run_img_found (cfg : Inline.Cfg) (pre alt sp label post : Str)
    (hpre : PlainText pre = true) (halt : PlainText alt = true) (hpost : PlainText post = true) (hsp : SpOK sp)
    (hl : ImgLabelOK label = true) (k url : Str) (title : Option Str)
    (hfind : cfg.refs.find? (fun x => x.1 = useKey alt label) = some (k, url, title)) :
    Inline.run cfg ((Node.el "div").append (Block.mkText "p" (imgSrc pre alt sp label post))) =
      some ((Node.el "div").append (linkPara pre post (imgEl url title alt)),
        { stash := [.node (imgEl url title alt)], html := [] }) := by
  obtain ⟨e1, e2, e3, e4, e5, _⟩ := imgEl_fields url title alt
  have h1 : handleInlineTop cfg (imgSrc pre alt sp label post) { html := [] } =
      some (pre ++ placeholder 0 ++ post, { stash := [.node (imgEl url title alt)], html := [] }) := by
    have := handleInline_img_found cfg ((imgSrc pre alt sp label post).length + 19) { html := [] } pre alt sp label
      post hpre halt hpost hsp hl k url title hfind
    simpa [handleInlineTop, depthFuel] using this
  have h2 := ppTop_one [] [] (imgEl url title alt) e1 e2 e3 e5
    (fun t ht => by rw [e4] at ht; cases ht) pre post (plain_no_stx hpre)
    (plain_no_stx hpost) { Block.mkText "p" (imgSrc pre alt sp label post) with text := none, textAtomic := false }
    rfl rfl
  simp only [List.nil_append, List.length_nil] at h2
  have htr : Node.truthy (some (imgSrc pre alt sp label post)) = true := by
    cases h : imgSrc pre alt sp label post with
    | nil => exact absurd h (imgSrc_ne_nil _ _ _ _ _)
    | cons a b => rfl
  have hv : visitChild cfg (Block.mkText "p" (imgSrc pre alt sp label post)) { st := { html := [] } } =
      some (linkPara pre post (imgEl url title alt), [],
        { st := { stash := [.node (imgEl url title alt)], html := [] }, pushes := [[0, 0]] }) := by
    simp only [visitChild, Block.mkText, Node.el, htr, Bool.not_false, Bool.and_self, if_true, Option.getD_some, h1]
      at h2 ⊢
    rw [h2]
    simp [Node.truthy, linkPara, Node.el]
  obtain ⟨n, hn⟩ : ∃ n, runFuel ((Node.el "div").append (Block.mkText "p" (imgSrc pre alt sp label post))) = n + 3 :=
    ⟨runFuel ((Node.el "div").append (Block.mkText "p" (imgSrc pre alt sp label post))) - 3,
      by have := runFuel_ge ((Node.el "div").append (Block.mkText "p" (imgSrc pre alt sp label post))); omega⟩
  simp only [Inline.run, hn]
  simp only [runLoop, getAt, Node.append, Node.el, List.nil_append, withIdx, visitLoop]
  rw [hv]
  simp [setAt, visitLoop, runLoop, getAt, linkPara, e1, withIdx, Node.el]

end MdVerif.InlineRef
