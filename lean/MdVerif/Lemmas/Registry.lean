/-
Helper lemmas for C13 (registry refinement).  Core Lean only.
-/
import MdVerif.Model.Registry
import MdVerif.Spec.Registry

namespace MdVerif.Registry
variable {α : Type}

/-! ### Generic stable descending insertion sort (both `ins`/`ssort` and `insE`/`view` are instances) -/

section Generic
variable {β γ : Type}

def insG (key : β → Int) (e : β) : List β → List β
  | [] => [e]
  | x :: xs => if key x ≥ key e then x :: insG key e xs else e :: x :: xs

def sortG (key : β → Int) (l : List β) : List β := l.foldl (fun acc e => insG key e acc) []

def Desc (key : β → Int) (l : List β) : Prop := l.Pairwise (fun a b => key a ≥ key b)

theorem insG_perm (key : β → Int) (e : β) (l : List β) : (insG key e l).Perm (e :: l) := by
  induction l with
  | nil => simp [insG]
  | cons x xs ih =>
    simp only [insG]
    split
    · exact (List.Perm.cons x ih).trans (List.Perm.swap e x xs)
    · exact List.Perm.refl _

theorem mem_insG {key : β → Int} {a e : β} {l : List β} : a ∈ insG key e l ↔ a = e ∨ a ∈ l := by
  rw [(insG_perm key e l).mem_iff]; simp

theorem insG_desc (key : β → Int) (e : β) (l : List β) (h : Desc key l) : Desc key (insG key e l) := by
  induction l with
  | nil => simp [insG, Desc]
  | cons x xs ih =>
    simp only [insG]
    unfold Desc at *
    split
    · rename_i hx
      rw [List.pairwise_cons] at h ⊢
      refine ⟨?_, ih h.2⟩
      intro a ha
      rcases mem_insG.1 ha with h1 | h1
      · subst h1; exact hx
      · exact h.1 a h1
    · rename_i hx
      rw [List.pairwise_cons]
      refine ⟨?_, h⟩
      intro a ha
      rw [List.pairwise_cons] at h
      simp at ha
      rcases ha with h1 | h1
      · subst h1; omega
      · have := h.1 a h1; omega

theorem foldl_insG_desc (key : β → Int) (l acc : List β) (h : Desc key acc) :
    Desc key (l.foldl (fun acc e => insG key e acc) acc) := by
  induction l generalizing acc with
  | nil => simpa
  | cons x xs ih => exact ih _ (insG_desc key x acc h)

theorem sortG_desc (key : β → Int) (l : List β) : Desc key (sortG key l) :=
  foldl_insG_desc key l [] (by simp [Desc])

theorem foldl_insG_perm (key : β → Int) (l acc : List β) :
    (l.foldl (fun acc e => insG key e acc) acc).Perm (acc ++ l) := by
  induction l generalizing acc with
  | nil => simp
  | cons x xs ih =>
    simp only [List.foldl_cons]
    refine (ih _).trans ?_
    refine ((insG_perm key x acc).append_right xs).trans ?_
    simpa using (List.perm_middle (a := x) (l₁ := acc) (l₂ := xs)).symm

theorem sortG_perm (key : β → Int) (l : List β) : (sortG key l).Perm l := by
  simpa [sortG] using foldl_insG_perm key l []

theorem insG_of_all_ge (key : β → Int) (e : β) (l : List β) (h : ∀ a ∈ l, key a ≥ key e) :
    insG key e l = l ++ [e] := by
  induction l with
  | nil => simp [insG]
  | cons x xs ih =>
    have hx := h x (by simp)
    simp only [insG, hx, if_true, List.cons_append]
    rw [ih (fun a ha => h a (by simp [ha]))]

theorem foldl_insG_sorted (key : β → Int) (l acc : List β) (h : Desc key (acc ++ l)) :
    l.foldl (fun acc e => insG key e acc) acc = acc ++ l := by
  induction l generalizing acc with
  | nil => simp
  | cons x xs ih =>
    simp only [List.foldl_cons]
    have hx : insG key x acc = acc ++ [x] := by
      apply insG_of_all_ge
      intro a ha
      unfold Desc at h
      rw [List.pairwise_append] at h
      exact h.2.2 a ha x (by simp)
    rw [hx, ih]
    · simp
    · simpa using h

theorem sortG_of_desc (key : β → Int) (l : List β) (h : Desc key l) : sortG key l = l := by
  have := foldl_insG_sorted key l [] (by simpa using h)
  simpa [sortG] using this

theorem sortG_idem (key : β → Int) (l : List β) : sortG key (sortG key l) = sortG key l :=
  sortG_of_desc _ _ (sortG_desc key l)

theorem sortG_append_single (key : β → Int) (l : List β) (e : β) :
    sortG key (l ++ [e]) = insG key e (sortG key l) := by
  simp [sortG, List.foldl_append]

theorem insG_of_all_lt (key : β → Int) (e : β) (l : List β) (h : ∀ a ∈ l, key a < key e) :
    insG key e l = e :: l := by
  cases l with
  | nil => simp [insG]
  | cons x xs =>
    have hx := h x (by simp)
    simp only [insG]
    split
    · omega
    · rfl

theorem insG_filter (key : β → Int) (p : β → Bool) (e : β) (l : List β) (hd : Desc key l) :
    (insG key e l).filter p = if p e then insG key e (l.filter p) else l.filter p := by
  induction l with
  | nil => simp [insG]; split <;> simp_all
  | cons x xs ih =>
    have hd' : Desc key xs := by unfold Desc at *; exact (List.pairwise_cons.1 hd).2
    have hall : ∀ a ∈ xs, key x ≥ key a := by unfold Desc at hd; exact (List.pairwise_cons.1 hd).1
    simp only [insG]
    by_cases hx : key x ≥ key e
    · simp only [hx, if_true, List.filter_cons]
      by_cases hpx : p x <;> by_cases hpe : p e <;> simp_all [insG]
    · simp only [hx, if_false, List.filter_cons]
      have hlt : ∀ a ∈ xs.filter p, key a < key e := by
        intro a ha
        have := hall a (List.mem_filter.1 ha).1
        omega
      have key' := insG_of_all_lt key e (xs.filter p) hlt
      by_cases hpx : p x <;> by_cases hpe : p e
      · simp [hpx, hpe, insG, hx]
      · simp [hpx, hpe]
      · simp [hpx, hpe, key']
      · simp [hpx, hpe]

theorem foldl_insG_filter (key : β → Int) (p : β → Bool) (l acc : List β) (hd : Desc key acc) :
    (l.foldl (fun acc e => insG key e acc) acc).filter p
      = (l.filter p).foldl (fun acc e => insG key e acc) (acc.filter p) := by
  induction l generalizing acc with
  | nil => simp
  | cons x xs ih =>
    simp only [List.foldl_cons, List.filter_cons]
    rw [ih _ (insG_desc key x acc hd), insG_filter _ _ _ _ hd]
    split <;> simp_all

theorem sortG_filter (key : β → Int) (p : β → Bool) (l : List β) :
    (sortG key l).filter p = sortG key (l.filter p) := by
  unfold sortG
  simpa using foldl_insG_filter key p l [] (by simp [Desc])

theorem insG_map (key : β → Int) (key' : γ → Int) (f : β → γ) (hk : ∀ x, key' (f x) = key x)
    (e : β) (l : List β) : (insG key e l).map f = insG key' (f e) (l.map f) := by
  induction l with
  | nil => simp [insG]
  | cons x xs ih =>
    simp only [insG, List.map_cons, hk]
    split <;> simp [ih]

theorem foldl_insG_map (key : β → Int) (key' : γ → Int) (f : β → γ) (hk : ∀ x, key' (f x) = key x)
    (l acc : List β) :
    (l.foldl (fun acc e => insG key e acc) acc).map f
      = (l.map f).foldl (fun acc e => insG key' e acc) (acc.map f) := by
  induction l generalizing acc with
  | nil => simp
  | cons x xs ih =>
    simp only [List.foldl_cons, List.map_cons]
    rw [ih, insG_map key key' f hk]

theorem sortG_map (key : β → Int) (key' : γ → Int) (f : β → γ) (hk : ∀ x, key' (f x) = key x)
    (l : List β) : (sortG key l).map f = sortG key' (l.map f) := by
  simpa [sortG] using foldl_insG_map key key' f hk l []

end Generic

/-! ### Instances -/

theorem ins_eq (e : PItem) (l : List PItem) : ins e l = insG PItem.prio e l := by
  induction l with
  | nil => rfl
  | cons x xs ih => simp [ins, insG, ih]

theorem ssort_eq (l : List PItem) : ssort l = sortG PItem.prio l := by
  unfold ssort sortG
  congr 1
  funext acc e
  exact ins_eq e acc

theorem insE_eq (e : Entry α) (l : List (Entry α)) : insE e l = insG Entry.prio e l := by
  induction l with
  | nil => rfl
  | cons x xs ih => simp [insE, insG, ih]

theorem view_eq (l : List (Entry α)) : view l = sortG Entry.prio l := by
  unfold view sortG
  congr 1
  funext acc e
  exact insE_eq e acc

theorem view_pairwise (l : List (Entry α)) : (view l).Pairwise (fun a b => a.prio ≥ b.prio) := by
  rw [view_eq]; exact sortG_desc _ l

theorem view_perm' (l : List (Entry α)) : (view l).Perm l := by
  rw [view_eq]; exact sortG_perm _ l

theorem view_filter_prio (l : List (Entry α)) (p : Int) :
    (view l).filter (fun e => e.prio == p) = l.filter (fun e => e.prio == p) := by
  rw [view_eq, sortG_filter]
  apply sortG_of_desc
  unfold Desc
  rw [List.pairwise_iff_forall_sublist]
  intro a b hab
  have ha := hab.subset (List.mem_cons_self)
  have hb := hab.subset (List.mem_cons_of_mem _ List.mem_cons_self)
  simp at ha hb
  omega

/-! ### Name-uniqueness helpers -/

section Names
variable {β γ δ : Type}

theorem find_of_mem {nm : β → Name} {l : List β} (hn : (l.map nm).Nodup) {e : β} (he : e ∈ l) :
    l.find? (fun x => nm x == nm e) = some e := by
  induction l with
  | nil => simp at he
  | cons x xs ih =>
    simp only [List.map_cons, List.nodup_cons] at hn
    rw [List.find?_cons]
    rcases List.mem_cons.1 he with h | h
    · subst h; simp
    · have hx : nm x ≠ nm e := by
        intro hx; apply hn.1; rw [hx]; exact List.mem_map_of_mem h
      have hb : (nm x == nm e) = false := by simpa using hx
      rw [hb]
      exact ih hn.2 h

theorem find_perm {nm : β → Name} {v l : List β} (hp : v.Perm l) (hn : (l.map nm).Nodup) (n : Name) :
    v.find? (fun x => nm x == n) = l.find? (fun x => nm x == n) := by
  have hnv : (v.map nm).Nodup := (hp.map nm).nodup_iff.2 hn
  cases h : l.find? (fun x => nm x == n) with
  | none =>
    rw [List.find?_eq_none] at h ⊢
    intro x hx; exact h x (hp.mem_iff.1 hx)
  | some e =>
    have hm := List.mem_of_find?_eq_some h
    have hne := List.find?_some h
    have h1 : nm e = n := by simpa using hne
    subst h1
    exact find_of_mem hnv (hp.mem_iff.2 hm)

theorem eraseIdx_findIdx {nm : β → Name} (n : Name) (l : List β) (hn : (l.map nm).Nodup) :
    l.eraseIdx (l.findIdx (fun x => nm x == n)) = l.filter (fun x => nm x != n) := by
  induction l with
  | nil => rfl
  | cons x xs ih =>
    simp only [List.map_cons, List.nodup_cons] at hn
    rw [List.findIdx_cons, List.filter_cons]
    by_cases h : nm x = n
    · subst h
      simp only [beq_self_eq_true, cond_true, List.eraseIdx_zero, List.tail_cons, bne_self_eq_false,
        Bool.false_eq_true, if_false]
      symm
      rw [List.filter_eq_self]
      intro a ha
      simp only [bne_iff_ne, ne_eq]
      intro h'
      apply hn.1
      rw [← h']
      exact List.mem_map_of_mem ha
    · have hb : (nm x == n) = false := by simpa using h
      have hb' : (nm x != n) = true := by simp [h]
      rw [hb, hb']
      simp only [cond_false, List.eraseIdx_cons_succ, if_true]
      rw [ih hn.2]

theorem mapM_map_some (h : β → δ) (f : δ → Option γ) (g : β → γ) (l : List β)
    (hh : ∀ x ∈ l, f (h x) = some (g x)) : (l.map h).mapM f = some (l.map g) := by
  induction l with
  | nil => simp
  | cons x xs ih =>
    simp only [List.map_cons, List.mapM_cons]
    rw [hh x (by simp), ih (fun y hy => hh y (by simp [hy]))]
    rfl

theorem nodup_filterMap_getElem? (l : List β) (idxs : List Nat) (hl : l.Nodup) (hi : idxs.Nodup) :
    (idxs.filterMap (fun i => l[i]?)).Nodup := by
  unfold List.Nodup
  rw [List.pairwise_filterMap]
  refine List.Pairwise.imp ?_ hi
  intro i j hij b hb b' hb' hbb
  subst hbb
  have hlt : i < l.length := by
    rcases Nat.lt_or_ge i l.length with h | h
    · exact h
    · rw [List.getElem?_eq_none h] at hb; cases hb
  exact hij ((List.getElem?_inj hlt hl).1 (hb.trans hb'.symm))

end Names

/-! ### `view` facts -/

def kv (e : Entry α) : Name × α := (e.name, e.item)

theorem lookup_map (n : Name) (l : List (Entry α)) :
    lookup n (l.map kv) = (l.find? (fun e => e.name == n)).map (·.item) := by
  induction l with
  | nil => rfl
  | cons x xs ih =>
    simp only [List.map_cons, kv, lookup, List.find?_cons]
    by_cases h : x.name = n
    · have hb : (x.name == n) = true := by simpa using h
      rw [hb]; simp [h]
    · have hb : (x.name == n) = false := by simpa using h
      rw [hb]; simp only [h, if_false]; exact ih

theorem lookup_of_mem {l : List (Entry α)} (hn : (l.map (·.name)).Nodup) {e : Entry α} (he : e ∈ l) :
    lookup e.name (l.map kv) = some e.item := by
  rw [lookup_map, find_of_mem (nm := Entry.name) hn he]; rfl

theorem view_map_pitem (l : List (Entry α)) : (view l).map Entry.pitem = ssort (l.map Entry.pitem) := by
  rw [view_eq, ssort_eq]
  exact sortG_map Entry.prio PItem.prio Entry.pitem (fun _ => rfl) l

theorem view_filter (p : Entry α → Bool) (l : List (Entry α)) : (view l).filter p = view (l.filter p) := by
  rw [view_eq, view_eq, sortG_filter]

theorem view_append_single (l : List (Entry α)) (e : Entry α) : view (l ++ [e]) = insE e (view l) := by
  rw [view_eq, view_eq, insE_eq, sortG_append_single]

theorem insE_map_pitem (e : Entry α) (v : List (Entry α)) :
    (insE e v).map Entry.pitem = ins e.pitem (v.map Entry.pitem) := by
  rw [insE_eq, ins_eq]
  exact insG_map Entry.prio PItem.prio Entry.pitem (fun _ => rfl) e v

theorem mem_view {e : Entry α} {l : List (Entry α)} : e ∈ view l ↔ e ∈ l := (view_perm' l).mem_iff

theorem view_nodup_names {l : List (Entry α)} (hn : (l.map (·.name)).Nodup) :
    ((view l).map (·.name)).Nodup := ((view_perm' l).map _).nodup_iff.2 hn

theorem ssort_perm (l : List PItem) : (ssort l).Perm l := by rw [ssort_eq]; exact sortG_perm _ l

theorem ssort_idem (l : List PItem) : ssort (ssort l) = ssort l := by
  rw [ssort_eq, ssort_eq]; exact sortG_idem _ l

theorem ssort_append_single (l : List PItem) (e : PItem) : ssort (l ++ [e]) = ins e (ssort l) := by
  rw [ssort_eq, ssort_eq, ins_eq, sortG_append_single]

theorem pitem_name_map (v : List (Entry α)) : (v.map Entry.pitem).map (·.name) = v.map (·.name) := by
  simp [Entry.pitem]

/-! ### The simulation relation -/

structure R (r : Reg α) (l : List (Entry α)) : Prop where
  data : r.data = l.map kv
  prio : ssort r.prio = (view l).map Entry.pitem
  srt : r.sorted = true → ssort r.prio = r.prio
  nodup : (l.map (·.name)).Nodup

def canon (l : List (Entry α)) : Reg α := ⟨l.map kv, (view l).map Entry.pitem, true⟩

theorem R_empty : R (empty : Reg α) [] := by
  refine ⟨rfl, rfl, ?_, ?_⟩
  · intro h; cases h
  · simp

theorem R_canon {l : List (Entry α)} (hn : (l.map (·.name)).Nodup) : R (canon l) l := by
  have : ssort ((view l).map Entry.pitem) = (view l).map Entry.pitem := by
    rw [view_map_pitem, ssort_idem]
  exact ⟨rfl, this, fun _ => this, hn⟩

theorem sortR_eq {r : Reg α} {l : List (Entry α)} (h : R r l) : sortR r = canon l := by
  obtain ⟨d, p, s⟩ := r
  obtain ⟨h1, h2, h3, _⟩ := h
  simp only at h1 h2 h3
  subst h1
  unfold sortR canon
  cases s with
  | true => simp only [if_true]; rw [← h3 rfl, h2]
  | false => simp [h2]

theorem containsName_eq {r : Reg α} {l : List (Entry α)} (h : R r l) (n : Name) :
    containsName r n = (view l).any (fun e => e.name == n) := by
  unfold containsName
  rw [h.data, (view_perm' l).any_eq, List.any_map]
  rfl

theorem containsItem_eq [DecidableEq α] {r : Reg α} {l : List (Entry α)} (h : R r l) (a : α) :
    containsItem r a = (view l).any (fun e => e.item == a) := by
  unfold containsItem
  rw [h.data, (view_perm' l).any_eq, List.any_map]
  rfl

theorem len_eq {r : Reg α} {l : List (Entry α)} (h : R r l) : len r = (view l).length := by
  unfold len
  rw [← (ssort_perm r.prio).length_eq, h.prio, List.length_map]

theorem filter_name_of_not_contains {l : List (Entry α)} {n : Name}
    (hc : (view l).any (fun e => e.name == n) = false) : l.filter (fun e => e.name != n) = l := by
  rw [List.filter_eq_self]
  intro a ha
  rw [List.any_eq_false] at hc
  have := hc a (mem_view.2 ha)
  simpa using this

theorem nodup_filter_names {l : List (Entry α)} (hn : (l.map (·.name)).Nodup) (p : Entry α → Bool) :
    ((l.filter p).map (·.name)).Nodup :=
  List.Nodup.sublist (List.filter_sublist.map _) hn

theorem indexFor_eq_of_contains {r : Reg α} {l : List (Entry α)} (h : R r l) {n : Name}
    (hc : (view l).any (fun e => e.name == n) = true) :
    indexFor r n = (canon l, .ok ((view l).findIdx (fun e => e.name == n))) := by
  unfold indexFor
  rw [containsName_eq h, hc]
  simp only [if_true, sortR_eq h]
  congr 2
  simp only [canon, List.findIdx_map]
  rfl

theorem indexFor_eq_of_not {r : Reg α} {l : List (Entry α)} (h : R r l) {n : Name}
    (hc : (view l).any (fun e => e.name == n) = false) :
    indexFor r n = (r, .error .valueError) := by
  unfold indexFor
  rw [containsName_eq h, hc]
  simp

theorem deregister_eq_of_contains {r : Reg α} {l : List (Entry α)} (h : R r l) {n : Name} (s : Bool)
    (hc : (view l).any (fun e => e.name == n) = true) :
    deregister r n s = (canon (l.filter (fun e => e.name != n)), .ok ()) := by
  unfold deregister
  rw [indexFor_eq_of_contains h hc]
  simp only
  congr 1
  unfold canon
  simp only [Reg.mk.injEq, and_true]
  constructor
  · unfold eraseKey
    rw [List.filter_map]
    rfl
  · have hnd : (((view l).map Entry.pitem).map (·.name)).Nodup := by
      rw [pitem_name_map]; exact view_nodup_names h.nodup
    have := eraseIdx_findIdx (nm := PItem.name) n _ hnd
    rw [List.findIdx_map, List.filter_map] at this
    rw [← view_filter]
    exact this

theorem deregister_eq_of_not {r : Reg α} {l : List (Entry α)} (h : R r l) {n : Name} (s : Bool)
    (hc : (view l).any (fun e => e.name == n) = false) :
    deregister r n s = (r, if s then .error .valueError else .ok ()) := by
  unfold deregister
  rw [indexFor_eq_of_not h hc]

theorem R_deregister {r : Reg α} {l : List (Entry α)} (h : R r l) (n : Name) (s : Bool) :
    R (deregister r n s).1 (l.filter (fun e => e.name != n)) := by
  cases hc : (view l).any (fun e => e.name == n) with
  | true => rw [deregister_eq_of_contains h s hc]; exact R_canon (nodup_filter_names h.nodup _)
  | false => rw [deregister_eq_of_not h s hc, filter_name_of_not_contains hc]; exact h

theorem R_append {r1 : Reg α} {l' : List (Entry α)} (h : R r1 l') (a : α) (n : Name) (p : Int)
    (hn : n ∉ l'.map (·.name)) :
    R ⟨r1.data ++ [(n, a)], r1.prio ++ [⟨n, p⟩], false⟩ (l' ++ [⟨n, p, a⟩]) := by
  refine ⟨?_, ?_, ?_, ?_⟩
  · simp [h.data, kv]
  · show ssort (r1.prio ++ [⟨n, p⟩]) = _
    rw [ssort_append_single, h.prio, view_append_single, insE_map_pitem]
    rfl
  · intro hh; cases hh
  · rw [List.map_append, List.nodup_append]
    refine ⟨h.nodup, by simp, ?_⟩
    intro x hx y hy
    simp at hy
    subst hy
    intro hxy
    subst hxy
    exact hn hx

theorem R_register {r : Reg α} {l : List (Entry α)} (h : R r l) (a : α) (n : Name) (p : Int) :
    R (register r a n p) (l.filter (fun e => e.name != n) ++ [⟨n, p, a⟩]) := by
  unfold register
  have h1 : R (if containsName r n then (deregister r n true).1 else r)
      (l.filter (fun e => e.name != n)) := by
    split
    · exact R_deregister h n true
    · rename_i hc
      rw [containsName_eq h] at hc
      have hc' : (view l).any (fun e => e.name == n) = false := by simpa using hc
      rw [filter_name_of_not_contains hc']
      exact h
  exact R_append h1 a n p (by simp [List.mem_map, List.mem_filter])

/-! ### Reads -/

theorem iter_eq {r : Reg α} {l : List (Entry α)} (h : R r l) :
    iter r = (canon l, .ok ((view l).map (·.item))) := by
  unfold iter
  rw [sortR_eq h]
  simp only [canon]
  rw [mapM_map_some Entry.pitem (fun p => lookup p.name (l.map kv)) (·.item) (view l)
    (fun e he => lookup_of_mem h.nodup (mem_view.1 he))]

theorem getIdx_eq {r : Reg α} {l : List (Entry α)} (h : R r l) (i : Int) :
    getIdx r i = (canon l, match normIdx (view l).length i with
      | none => .error .indexError
      | some j => match (view l)[j]? with
        | some e => .ok e.item
        | none => .error .indexError) := by
  unfold getIdx
  rw [sortR_eq h]
  simp only [canon, List.length_map]
  cases normIdx (view l).length i with
  | none => rfl
  | some j =>
    simp only [List.getElem?_map]
    cases hv : (view l)[j]? with
    | none => rfl
    | some e =>
      have := lookup_of_mem h.nodup (mem_view.1 (List.mem_of_getElem? hv))
      simp [Entry.pitem, this]

theorem getName_eq {r : Reg α} {l : List (Entry α)} (h : R r l) (n : Name) :
    getName r n = (canon l, match (view l).find? (fun e => e.name == n) with
      | some e => .ok e.item
      | none => .error .keyError) := by
  unfold getName
  rw [sortR_eq h]
  simp only [canon]
  rw [lookup_map, ← find_perm (nm := Entry.name) (view_perm' l) h.nodup n]
  cases (view l).find? (fun e => e.name == n) <;> rfl

theorem filterMap_map_some {β γ δ : Type} (h : β → δ) (f : δ → Option γ) (g : β → γ) (l : List β)
    (hh : ∀ x ∈ l, f (h x) = some (g x)) : (l.map h).filterMap f = l.map g := by
  induction l with
  | nil => simp
  | cons x xs ih =>
    simp only [List.map_cons, List.filterMap_cons]
    rw [hh x (by simp), ih (fun y hy => hh y (by simp [hy]))]

theorem dump_eq {r : Reg α} {l : List (Entry α)} (h : R r l) :
    dump r = (view l).map (fun e => (e.name, e.prio, e.item)) := by
  unfold dump
  rw [sortR_eq h, h.data]
  simp only [canon]
  apply filterMap_map_some
  intro e he
  rw [show (Entry.pitem e).name = e.name from rfl, lookup_of_mem h.nodup (mem_view.1 he)]
  rfl

/-! ### Slices -/

theorem R_foldl_register (es : List (Entry α)) {r : Reg α} {l : List (Entry α)} (h : R r l) :
    R (es.foldl (fun acc e => register acc e.item e.name e.prio) r)
      (es.foldl (fun l e => l.filter (fun x => x.name != e.name) ++ [e]) l) := by
  induction es generalizing r l with
  | nil => exact h
  | cons e es ih =>
    simp only [List.foldl_cons]
    exact ih (R_register h e.item e.name e.prio)

theorem foldl_log_nodup (es acc : List (Entry α)) (hn : ((acc ++ es).map (·.name)).Nodup) :
    es.foldl (fun l e => l.filter (fun x => x.name != e.name) ++ [e]) acc = acc ++ es := by
  induction es generalizing acc with
  | nil => simp
  | cons e es ih =>
    simp only [List.foldl_cons]
    have hf : acc.filter (fun x => x.name != e.name) = acc := by
      rw [List.filter_eq_self]
      intro a ha
      simp only [bne_iff_ne, ne_eq]
      intro hae
      rw [List.map_append, List.nodup_append] at hn
      exact hn.2.2 a.name (List.mem_map_of_mem ha) e.name (by simp) hae
    rw [hf, ih (acc ++ [e]) (by simpa using hn)]
    simp

theorem nodup_range_map (a st : Int) (cnt : Nat) (hst : st ≠ 0)
    (hnn : ∀ k : Nat, k < cnt → 0 ≤ a + (k : Int) * st) :
    ((List.range cnt).map (fun (k : Nat) => (a + (k : Int) * st).toNat)).Nodup := by
  unfold List.Nodup
  rw [List.pairwise_map]
  refine List.Pairwise.imp_of_mem ?_ List.pairwise_lt_range
  intro i j hi hj hij
  rw [List.mem_range] at hi hj
  have h1 := hnn i hi
  have h2 := hnn j hj
  have hij' : (i : Int) < (j : Int) := by omega
  rcases Int.lt_or_gt_of_ne hst with hneg | hpos
  · have := Int.mul_lt_mul_of_neg_right hij' hneg; omega
  · have := Int.mul_lt_mul_of_pos_right hij' hpos; omega

theorem slice_neg_aux (a b st : Int) (k : Nat) (hb : -1 ≤ b) (hst : st < 0)
    (hk : k < (if a > b then ((a - b + -st - 1) / -st).toNat else 0)) : 0 ≤ a + (k : Int) * st := by
  split at hk
  · have hq := Int.ediv_mul_le (a - b + -st - 1) (b := -st) (by omega)
    generalize (a - b + -st - 1) / -st = q at hq hk
    have hkq : (k : Int) + 1 ≤ q := by omega
    have hm := Int.mul_le_mul_of_nonneg_right hkq (show 0 ≤ -st by omega)
    have he : ((k : Int) + 1) * -st = -((k : Int) * st) - st := by
      rw [Int.add_mul, Int.mul_neg, Int.one_mul]; omega
    omega
  · omega

theorem sliceIdx_nodup {len : Nat} {start stop step : Option Int} {idxs : List Nat}
    (h : sliceIdx len start stop step = some idxs) : idxs.Nodup := by
  unfold sliceIdx at h
  simp only at h
  split at h
  · cases h
  · rename_i hst
    split at h
    · rename_i hpos
      injection h with h
      subst h
      apply nodup_range_map _ _ _ hst
      intro k hk
      have hk0 : 0 ≤ (k : Int) * step.getD 1 := Int.mul_nonneg (by omega) (by omega)
      clear hk
      cases start with
      | none => simpa using hk0
      | some v =>
        simp only
        repeat' split
        all_goals omega
    · rename_i hpos
      injection h with h
      subst h
      apply nodup_range_map _ _ _ hst
      intro k hk
      refine slice_neg_aux _ _ _ k ?_ (by omega) hk
      cases stop with
      | none => simp
      | some v =>
        simp only
        repeat' split
        all_goals omega

theorem getSlice_eq {r : Reg α} {l : List (Entry α)} (h : R r l) (a b c : Option Int) :
    getSlice r a b c = (canon l, match sliceIdx (view l).length a b c with
      | none => .error .valueError
      | some idxs => .ok ((idxs.filterMap (fun i => (view l)[i]?)).foldl
          (fun acc e => register acc e.item e.name e.prio) empty)) := by
  unfold getSlice
  rw [sortR_eq h]
  simp only [canon, List.length_map]
  cases sliceIdx (view l).length a b c with
  | none => rfl
  | some idxs =>
    simp only
    have hsel : idxs.filterMap (fun i => ((view l).map Entry.pitem)[i]?)
        = (idxs.filterMap (fun i => (view l)[i]?)).map Entry.pitem := by
      rw [List.map_filterMap]; simp only [List.getElem?_map]
    have hm := mapM_map_some Entry.pitem
      (fun p => (lookup p.name (l.map kv)).map (fun a => (a, p))) (fun e => (e.item, e.pitem))
      (idxs.filterMap (fun i => (view l)[i]?)) (by
        intro e he
        have hev : e ∈ view l := by
          rw [List.mem_filterMap] at he
          obtain ⟨i, _, hi⟩ := he
          exact List.mem_of_getElem? hi
        rw [show (Entry.pitem e).name = e.name from rfl, lookup_of_mem h.nodup (mem_view.1 hev)]
        rfl)
    rw [hsel, hm]
    simp only [List.foldl_map]
    rfl

theorem slice_dump {l : List (Entry α)} (hn : (l.map (·.name)).Nodup) {idxs : List Nat}
    (hi : idxs.Nodup) :
    dump ((idxs.filterMap (fun i => (view l)[i]?)).foldl
        (fun acc e => register acc e.item e.name e.prio) (empty : Reg α))
      = (view (idxs.filterMap (fun i => (view l)[i]?))).map (fun e => (e.name, e.prio, e.item)) := by
  have hes : ((idxs.filterMap (fun i => (view l)[i]?)).map (·.name)).Nodup := by
    rw [List.map_filterMap]
    have := nodup_filterMap_getElem? ((view l).map (·.name)) idxs (view_nodup_names hn) hi
    simpa only [List.getElem?_map] using this
  have hR := R_foldl_register (idxs.filterMap (fun i => (view l)[i]?)) (R_empty (α := α))
  rw [foldl_log_nodup _ [] (by simpa using hes)] at hR
  simpa using dump_eq hR

/-! ### One step, then whole histories -/

theorem step_sim [DecidableEq α] {r : Reg α} {l : List (Entry α)} (h : R r l) (op : Op α) :
    R (step r op).1 (logStep l op) ∧ (step r op).2 = specObs (view l) op := by
  cases op with
  | register a n p => exact ⟨R_register h a n p, by first | trivial | rfl⟩
  | deregister n s =>
    cases hc : (view l).any (fun e => e.name == n) with
    | true =>
      simp only [step, deregister_eq_of_contains h s hc, logStep, specObs, hc, if_true]
      exact ⟨R_canon (nodup_filter_names h.nodup _), by first | trivial | rfl⟩
    | false =>
      simp only [step, deregister_eq_of_not h s hc, logStep, specObs, hc,
        filter_name_of_not_contains hc]
      cases s <;> exact ⟨h, by simp⟩
  | iter =>
    simp only [step, iter_eq h, logStep, specObs]
    exact ⟨R_canon h.nodup, by first | trivial | rfl⟩
  | len =>
    simp only [step, len_eq h, logStep, specObs]
    exact ⟨h, by first | trivial | rfl⟩
  | containsName n =>
    simp only [step, containsName_eq h, logStep, specObs]
    exact ⟨h, by first | trivial | rfl⟩
  | containsItem a =>
    simp only [step, containsItem_eq h, logStep, specObs]
    exact ⟨h, by first | trivial | rfl⟩
  | getIdx i =>
    simp only [step, getIdx_eq h, logStep, specObs]
    cases normIdx (view l).length i with
    | none => exact ⟨R_canon h.nodup, by first | trivial | rfl⟩
    | some j =>
      simp only
      cases (view l)[j]? <;> exact ⟨R_canon h.nodup, by first | trivial | rfl⟩
  | getName n =>
    simp only [step, getName_eq h, logStep, specObs]
    cases (view l).find? (fun e => e.name == n) <;> exact ⟨R_canon h.nodup, by first | trivial | rfl⟩
  | getSlice a b c =>
    simp only [step, getSlice_eq h, logStep, specObs]
    cases hs : sliceIdx (view l).length a b c with
    | none => exact ⟨R_canon h.nodup, by first | trivial | rfl⟩
    | some idxs =>
      simp only
      rw [slice_dump h.nodup (sliceIdx_nodup hs)]
      exact ⟨R_canon h.nodup, by first | trivial | rfl⟩
  | indexFor n =>
    cases hc : (view l).any (fun e => e.name == n) with
    | true =>
      simp only [step, indexFor_eq_of_contains h hc, logStep, specObs, hc, if_true]
      exact ⟨R_canon h.nodup, by first | trivial | rfl⟩
    | false =>
      simp only [step, indexFor_eq_of_not h hc, logStep, specObs, hc]
      exact ⟨h, by simp⟩

theorem run_cons [DecidableEq α] (r : Reg α) (op : Op α) (ops : List (Op α)) :
    run r (op :: ops) = ((run (step r op).1 ops).1, (step r op).2 :: (run (step r op).1 ops).2) := rfl

theorem run_sim [DecidableEq α] (ops : List (Op α)) {r : Reg α} {l : List (Entry α)} (h : R r l) :
    (run r ops).2 = specRun l ops ∧ R (run r ops).1 (ops.foldl logStep l) := by
  induction ops generalizing r l with
  | nil => exact ⟨rfl, h⟩
  | cons op ops ih =>
    obtain ⟨h1, h2⟩ := step_sim h op
    obtain ⟨h3, h4⟩ := ih h1
    rw [run_cons]
    simp only [specRun, List.foldl_cons]
    exact ⟨by rw [h2, h3], h4⟩

theorem nodup_logStep {l : List (Entry α)} (hn : (l.map (·.name)).Nodup) (op : Op α) :
    ((logStep l op).map (·.name)).Nodup := by
  cases op with
  | register a n p =>
    simp only [logStep]
    rw [List.map_append, List.nodup_append]
    refine ⟨nodup_filter_names hn _, by simp, ?_⟩
    intro x hx y hy
    simp only [List.map_cons, List.map_nil, List.mem_singleton] at hy
    subst hy
    simp only [List.mem_map, List.mem_filter] at hx
    obtain ⟨e, ⟨_, he⟩, rfl⟩ := hx
    simpa using he
  | deregister n s => exact nodup_filter_names hn _
  | _ => exact hn

theorem foldl_logStep_nodup (ops : List (Op α)) {l : List (Entry α)} (hn : (l.map (·.name)).Nodup) :
    ((ops.foldl logStep l).map (·.name)).Nodup := by
  induction ops generalizing l with
  | nil => exact hn
  | cons op ops ih => exact ih (nodup_logStep hn op)

theorem log_nodup (ops : List (Op α)) : ((log ops).map (·.name)).Nodup :=
  foldl_logStep_nodup ops (by simp)

theorem run_refines [DecidableEq α] (ops : List (Op α)) : (run (empty : Reg α) ops).2 = specRun [] ops :=
  (run_sim ops R_empty).1

theorem run_dump [DecidableEq α] (ops : List (Op α)) :
    dump (run (empty : Reg α) ops).1 = (view (log ops)).map (fun e => (e.name, e.prio, e.item)) :=
  dump_eq (run_sim ops R_empty).2

end MdVerif.Registry
