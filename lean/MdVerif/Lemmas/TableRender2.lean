/-
Helper lemmas for `Props/C16Render.lean`, part 2: **the inline processor on a settled tree**.  A node is settled when
`visitChild` returns it unchanged, without new elements and without touching the stash, and all its children are
settled.  `run_settled`: `InlineProcessor.run` returns such a tree as it is — for trees of any shape and depth; the
stack-of-paths loop is followed with an explicit potential (`work`), so the fuel of the model is shown to suffice.
Core Lean only.
-/
import MdVerif.Model.Inline

namespace MdVerif.Settled
open Py Inline

/-! ### sizes -/

theorem size_pos (n : Node) : 0 < size n := by
  cases n; simp only [size]; omega

theorem sizeList_mem {c : Node} {l : List Node} (h : c ∈ l) : size c ≤ sizeList l := by
  induction l with
  | nil => simp at h
  | cons a r ih =>
    simp only [List.mem_cons] at h
    simp only [sizeList]
    rcases h with rfl | h
    · omega
    · have := ih h; omega

theorem sizeList_length (l : List Node) : l.length ≤ sizeList l := by
  induction l with
  | nil => simp [sizeList]
  | cons a r ih => have := size_pos a; simp only [sizeList, List.length_cons]; omega

theorem size_eq (n : Node) : sizeList n.children < size n := by
  cases n; simp only [size]; omega

theorem size_child_lt {c n : Node} (h : c ∈ n.children) : size c < size n :=
  Nat.lt_of_le_of_lt (sizeList_mem h) (size_eq n)

theorem children_length_lt (n : Node) : n.children.length < size n :=
  Nat.lt_of_le_of_lt (sizeList_length _) (size_eq n)

/-! ### settled nodes, the work of the stack loop -/

/-- `visitChild` is the identity on `n` (in state `st`) -/
def VisitId (cfg : Inline.Cfg) (st : St) (n : Node) : Prop :=
  ∀ v : Visit, v.st = st →
    visitChild cfg n v =
      some (n, [], { v with pushes := if n.children.isEmpty then v.pushes else [v.done.length] :: v.pushes })

inductive Settled (cfg : Inline.Cfg) (st : St) : Node → Prop
  | mk (n : Node) : VisitId cfg st n → (∀ c ∈ n.children, Settled cfg st c) → Settled cfg st n

theorem Settled.visitId {cfg st n} (h : Settled cfg st n) : VisitId cfg st n := by cases h; assumption
theorem Settled.kids {cfg st n} (h : Settled cfg st n) : ∀ c ∈ n.children, Settled cfg st c := by cases h; assumption

mutual
/-- number of pops of the stack loop for the subtree of a popped element -/
def work : Node → Nat
  | ⟨_, _, _, _, children, _, _⟩ => 1 + workKids children
def workKids : List Node → Nat
  | [] => 0
  | c :: r => (if c.children.isEmpty then 0 else work c) + workKids r
end

theorem work_eq (n : Node) : work n = 1 + workKids n.children := by cases n; simp [work]

mutual
theorem work_le_size : ∀ n : Node, work n ≤ size n
  | ⟨_, _, _, _, children, _, _⟩ => by
    have := workKids_le_sizeList children
    simp only [work, size]; omega
theorem workKids_le_sizeList : ∀ l : List Node, workKids l ≤ sizeList l
  | [] => by simp [workKids, sizeList]
  | c :: r => by
    have h1 := work_le_size c
    have h2 := workKids_le_sizeList r
    simp only [workKids, sizeList]
    split <;> omega
end

/-! ### one `visitLoop` over settled children -/

/-- the state after visiting `kids` (original indices from `k` on) when every visit is the identity -/
def vres : List Node → Nat → Visit → Visit
  | [], _, v => v
  | c :: r, k, v =>
    vres r (k + 1)
      { v with done := c :: v.done, posmap := (k, v.done.length) :: v.posmap,
               pushes := if c.children.isEmpty then v.pushes else [v.done.length] :: v.pushes }

theorem vres_st (kids : List Node) (k : Nat) (v : Visit) : (vres kids k v).st = v.st := by
  induction kids generalizing k v with
  | nil => rfl
  | cons c r ih => simp only [vres]; rw [ih]

theorem withIdx_cons (c : Node) (r : List Node) (k : Nat) : withIdx (c :: r) k = (c, some k) :: withIdx r (k + 1) := rfl

theorem visitLoop_settled (cfg : Inline.Cfg) (st : St) (kids : List Node) (h : ∀ c ∈ kids, VisitId cfg st c) :
    ∀ (g k : Nat) (v : Visit), v.st = st → kids.length < g →
      visitLoop cfg g (withIdx kids k) v = some (vres kids k v) := by
  induction kids with
  | nil =>
    intro g k v _ hg
    obtain ⟨g, rfl⟩ : ∃ g', g = g' + 1 := ⟨g - 1, by omega⟩
    simp [withIdx, visitLoop, vres]
  | cons c r ih =>
    intro g k v hv hg
    obtain ⟨g, rfl⟩ : ∃ g', g = g' + 1 := ⟨g - 1, by omega⟩
    rw [withIdx_cons, visitLoop, h c (by simp) v hv]
    simp only [List.map_nil, List.nil_append]
    rw [ih (fun x hx => h x (by simp [hx])) g (k + 1) _ (by simpa using hv) (by simpa using hg)]
    rfl

theorem vres_done (kids : List Node) (k : Nat) (v : Visit) : (vres kids k v).done = kids.reverse ++ v.done := by
  induction kids generalizing k v with
  | nil => simp [vres]
  | cons c r ih => simp only [vres]; rw [ih]; simp

theorem vres_posmap (kids : List Node) (k : Nat) (v : Visit) (hk : v.done.length = k)
    (hv : ∀ x ∈ v.posmap, x.1 = x.2) : ∀ x ∈ (vres kids k v).posmap, x.1 = x.2 := by
  induction kids generalizing k v with
  | nil => simpa [vres] using hv
  | cons c r ih =>
    simp only [vres]
    apply ih
    · simp [hk]
    · intro x hx
      simp only [List.mem_cons] at hx
      rcases hx with rfl | hx
      · exact hk.symm
      · exact hv x hx

/-- work of a relative path `[i]` below an element with children `all` -/
def wrel (all : List Node) (q : Path) : Nat :=
  match q with
  | [i] => (match all[i]? with | some c => work c | none => 1)
  | _ => 1

def sumW (all : List Node) (qs : List Path) : Nat := (qs.map (wrel all)).sum

theorem vres_pushes (pre kids : List Node) (v : Visit) (hk : v.done.length = pre.length) :
    sumW (pre ++ kids) (vres kids pre.length v).pushes = sumW (pre ++ kids) v.pushes + workKids kids ∧
    (∀ q ∈ (vres kids pre.length v).pushes, q ∈ v.pushes ∨ ∃ i c, q = [i] ∧ (pre ++ kids)[i]? = some c ∧ c ∈ kids) := by
  induction kids generalizing pre v with
  | nil => simp [vres, workKids]
  | cons c r ih =>
    have hget : (pre ++ c :: r)[pre.length]? = some c := by simp
    have e : pre ++ c :: r = (pre ++ [c]) ++ r := by simp
    have := ih (pre ++ [c])
      { v with done := c :: v.done, posmap := (pre.length, v.done.length) :: v.posmap,
               pushes := if c.children.isEmpty then v.pushes else [v.done.length] :: v.pushes }
      (by simp [hk])
    simp only [List.length_append, List.length_singleton] at this
    rw [← e] at this
    obtain ⟨h1, h2⟩ := this
    constructor
    · simp only [vres]
      rw [h1]
      by_cases hc : c.children.isEmpty = true
      · simp only [hc, if_true, workKids, Nat.zero_add]
      · simp only [hc, Bool.false_eq_true, if_false, workKids]
        simp only [sumW, List.map_cons, List.sum_cons, wrel, hk, hget]
        omega
    · intro q hq
      simp only [vres] at hq
      rcases h2 q hq with h | ⟨i, x, rfl, hx, hxm⟩
      · by_cases hc : c.children.isEmpty = true
        · simp only [hc, if_true] at h; exact Or.inl h
        · simp only [hc, Bool.false_eq_true, if_false, List.mem_cons] at h
          rcases h with rfl | h
          · exact Or.inr ⟨_, c, rfl, by rw [hk]; exact hget, by simp⟩
          · exact Or.inl h
      · exact Or.inr ⟨i, x, rfl, hx, by simp [hxm]⟩


/-! ### paths -/

theorem setAt_self : ∀ (p : Path) (root cur : Node), getAt root p = some cur → setAt root p cur = root
  | [], root, cur, h => by simp only [getAt, Option.some.injEq] at h; subst h; rfl
  | i :: p, root, cur, h => by
    simp only [getAt] at h
    cases hc : root.children[i]? with
    | none => simp [hc] at h
    | some c =>
      rw [hc] at h
      simp only [setAt, hc, setAt_self p c cur h]
      have : root.children.set i c = root.children := by
        apply List.ext_getElem?
        intro j
        by_cases hj : i = j
        · subst hj
          have hi : i < root.children.length := by
            rcases Nat.lt_or_ge i root.children.length with h' | h'
            · exact h'
            · rw [List.getElem?_eq_none h'] at hc; cases hc
          rw [List.getElem?_set_self hi, hc]
        · rw [List.getElem?_set_ne hj]
      rw [this]
      cases root; rfl

theorem getAt_append : ∀ (p q : Path) (root : Node),
    getAt root (p ++ q) = (getAt root p).bind (fun cur => getAt cur q)
  | [], q, root => by simp [getAt]
  | i :: p, q, root => by
    simp only [List.cons_append, getAt]
    cases root.children[i]? with
    | none => rfl
    | some c => exact getAt_append p q c

theorem getAt_single (cur : Node) (i : Nat) : getAt cur [i] = cur.children[i]? := by
  simp only [getAt]
  cases cur.children[i]? <;> rfl

theorem startsWithPath_eq : ∀ (q p : Path), remap.startsWithPath q p = true → q = p ++ q.drop p.length
  | _, [], _ => by simp
  | [], _ :: _, h => by simp [remap.startsWithPath] at h
  | a :: q, b :: p, h => by
    simp only [remap.startsWithPath, Bool.and_eq_true, decide_eq_true_eq] at h
    obtain ⟨rfl, h2⟩ := h
    simp only [List.cons_append, List.length_cons, List.drop_succ_cons]
    rw [← startsWithPath_eq q p h2]

theorem remap_id (p : Path) (posmap : List (Nat × Nat)) (h : ∀ x ∈ posmap, x.1 = x.2) (q : Path) :
    remap p posmap q = q := by
  unfold remap
  split
  · rename_i hs
    have hq := startsWithPath_eq q p hs
    cases hd : q.drop p.length with
    | nil => rfl
    | cons j rest =>
      simp only
      cases hf : posmap.find? (fun x => x.1 = j) with
      | none => rfl
      | some x =>
        obtain ⟨a, b⟩ := x
        have hm := List.mem_of_find?_eq_some hf
        have hp := List.find?_some hf
        simp only [decide_eq_true_eq] at hp
        have hab := h _ hm
        simp only at hab hp
        simp only
        rw [← hab, hp, ← hd, ← hq]
  · rfl

/-! ### the stack loop -/

/-- the children of `n` are settled -/
def KidsSettled (cfg : Inline.Cfg) (st : St) (n : Node) : Prop := ∀ c ∈ n.children, Settled cfg st c

/-- work of an absolute path -/
def wabs (root : Node) (p : Path) : Nat :=
  match getAt root p with
  | some cur => work cur
  | none => 1

def sumA (root : Node) (stack : List Path) : Nat := (stack.map (wabs root)).sum

theorem runLoop_settled (cfg : Inline.Cfg) (st : St) (g2 : Nat) (root : Node) :
    ∀ (g : Nat) (stack : List Path),
      (∀ p ∈ stack, ∀ cur, getAt root p = some cur → KidsSettled cfg st cur ∧ size cur ≤ g2) →
      sumA root stack < g → runLoop cfg g2 g root stack st = some (root, st) := by
  intro g
  induction g with
  | zero => intro stack _ h; omega
  | succ g ih =>
    intro stack hinv hg
    cases stack with
    | nil => simp [runLoop]
    | cons p stack =>
      have hinv' : ∀ q ∈ stack, ∀ cur, getAt root q = some cur → KidsSettled cfg st cur ∧ size cur ≤ g2 :=
        fun q hq => hinv q (by simp [hq])
      simp only [sumA, List.map_cons, List.sum_cons] at hg
      cases hget : getAt root p with
      | none =>
        simp only [runLoop, hget]
        apply ih stack hinv'
        simp only [wabs, hget] at hg
        simp only [sumA]; omega
      | some cur =>
        obtain ⟨hk, hsz⟩ := hinv p (by simp) cur hget
        have hvl := visitLoop_settled cfg st cur.children (fun c hc => (hk c hc).visitId) g2 0 { st := st } rfl
          (Nat.lt_of_lt_of_le (children_length_lt cur) hsz)
        have hdone : (vres cur.children 0 { st := st }).done.reverse = cur.children := by
          rw [vres_done]; simp
        have hpm := vres_posmap cur.children 0 { st := st } rfl (by simp)
        obtain ⟨hsum, hpaths⟩ := vres_pushes [] cur.children { st := st } rfl
        simp only [List.nil_append, List.length_nil] at hsum hpaths
        have hcur : ({ cur with children := cur.children } : Node) = cur := by cases cur; rfl
        have hset : setAt root p ⟨cur.tag, cur.attrs, cur.text, cur.textAtomic, cur.children, cur.tail,
            cur.tailAtomic⟩ = root := by
          have := setAt_self p root cur hget
          cases cur; exact this
        simp only [runLoop, hget, hvl, hdone, vres_st, hset]
        have hstack : stack.map (remap p (vres cur.children 0 { st := st }).posmap) = stack := by
          conv => rhs; rw [← List.map_id stack]
          apply List.map_congr_left
          intro q _
          exact remap_id p _ hpm q
        rw [hstack]
        apply ih
        · intro q hq cur' hcur'
          simp only [List.mem_append, List.mem_map] at hq
          rcases hq with ⟨r, hr, rfl⟩ | hq
          · rcases hpaths r hr with h0 | ⟨i, c, rfl, hic, hcm⟩
            · simp at h0
            · rw [getAt_append, hget, Option.bind_some, getAt_single, hic] at hcur'
              have e : c = cur' := Option.some.inj hcur'
              subst e
              exact ⟨(hk c hcm).kids, Nat.le_trans (Nat.le_of_lt (size_child_lt hcm)) hsz⟩
          · exact hinv' q hq cur' hcur'
        · -- the potential decreases by one
          have hmap : sumA root ((vres cur.children 0 { st := st }).pushes.map (p ++ ·)) =
              sumW cur.children (vres cur.children 0 { st := st }).pushes := by
            simp only [sumA, sumW, List.map_map]
            congr 1
            apply List.map_congr_left
            intro r hr
            rcases hpaths r hr with h0 | ⟨i, c, rfl, hic, _⟩
            · simp at h0
            · simp only [Function.comp, wabs, getAt_append, hget, Option.bind_some, getAt_single, wrel, hic]
          have hsplit : sumA root ((vres cur.children 0 { st := st }).pushes.map (p ++ ·) ++ stack) =
              sumA root ((vres cur.children 0 { st := st }).pushes.map (p ++ ·)) + sumA root stack := by
            simp [sumA, List.sum_append]
          rw [hsplit, hmap, hsum]
          simp only [wabs, hget, work_eq] at hg
          simp only [sumW, List.map_nil, List.sum_nil, sumA] at hg ⊢
          omega

/-- **`InlineProcessor.run` returns a tree whose elements are all settled as it is.** -/
theorem run_settled (cfg : Inline.Cfg) (tree : Node) (html : List Str)
    (h : KidsSettled cfg { html := html } tree) :
    Inline.run cfg tree html = some (tree, { html := html }) := by
  unfold Inline.run
  apply runLoop_settled cfg { html := html } (runFuel tree) tree (runFuel tree) [[]]
  · intro p hp cur hcur
    simp only [List.mem_singleton] at hp; subst hp
    simp only [getAt, Option.some.injEq] at hcur; subst hcur
    exact ⟨h, by unfold runFuel; omega⟩
  · have := work_le_size tree
    simp only [sumA, List.map_cons, List.map_nil, List.sum_cons, List.sum_nil, wabs, getAt]
    unfold runFuel; omega

end MdVerif.Settled
