/-
Helper lemmas for `Props/C18X.lean`, part 2: what the tree processors of the extensions (`AbbrTree`, `AttrListTree`,
`TocTree`, `FootnotesTree.placeDiv`) and `TreeProc.unescapeTree` do to the `AtomicString`s of ANY tree.  Core Lean only.

A. `AbbrTreeprocessor` keeps every atomic string (`Emb`, `atomicTexts`)
B. `UnescapeTreeprocessor`: every string but the text of `code` is unescaped, atomic or not (`allStrings`)
C. `AttrListTreeprocessor`: which strings it reads (`readsText`), never asking whether they are atomic
D. `TocTreeprocessor.replace_marker`
E. `FootnoteTreeprocessor` (`placeDiv`)
-/
import MdVerif.Lemmas.AtomicXRun
import MdVerif.Model.PipelineX

namespace MdVerif.AtomicX
open Py Probe StashAtomic

/-! ### A. abbr -/

theorem atomicTextsKids_mkAbbr_sub (abbrs : List (Str × Str)) (l : List (Str × Str)) (ys : List Str) :
    List.Sublist ys (atomicTextsKids (l.map (AbbrTree.mkAbbr abbrs)) ++ ys) :=
  List.sublist_append_right _ _

mutual
theorem abbrNode_sub (abbrs : List (Str × Str)) (keys : List Str) (isRoot : Bool) :
    ∀ n : Node, List.Sublist (atomicTexts n) (atomicTexts (AbbrTree.abbrNode abbrs keys isRoot n).1)
  | ⟨tag, attrs, text, ta, children, tail, tla⟩ => by
    have ih := abbrKids_sub abbrs keys children
    simp only [AbbrTree.abbrNode, atomicTexts, atomicTextsKids_append]
    refine List.Sublist.append (List.Sublist.append ?_ ?_) ?_
    · apply sublist_ite_single
      intro hta
      subst hta
      simp
    · exact ih.trans (List.sublist_append_right _ _)
    · apply sublist_ite_single
      intro htla
      subst htla
      simp
theorem abbrKids_sub (abbrs : List (Str × Str)) (keys : List Str) :
    ∀ l : List Node, List.Sublist (atomicTextsKids l) (atomicTextsKids (AbbrTree.abbrKids abbrs keys l))
  | [] => List.Sublist.refl _
  | c :: r => by
    have h1 := abbrNode_sub abbrs keys false c
    have h2 := abbrKids_sub abbrs keys r
    simp only [AbbrTree.abbrKids, atomicTextsKids, atomicTextsKids_append]
    rw [List.append_assoc]
    exact List.Sublist.append h1 (h2.trans (List.sublist_append_right _ _))
end

/-- `AbbrTreeprocessor` keeps every atomic string of any tree, in order -/
theorem abbr_sub (abbrs : List (Str × Str)) (root : Node) :
    List.Sublist (atomicTexts root) (atomicTexts (AbbrTree.run abbrs root)) := by
  unfold AbbrTree.run
  split
  · exact List.Sublist.refl _
  · exact abbrNode_sub abbrs _ true root

mutual
theorem abbrNode_emb (abbrs : List (Str × Str)) (keys : List Str) (isRoot : Bool) :
    ∀ n : Node, Emb n (AbbrTree.abbrNode abbrs keys isRoot n).1
  | ⟨tag, attrs, text, ta, children, tail, tla⟩ => by
    have ih := abbrKids_emb abbrs keys children
    rw [emb_iff]
    simp only [AbbrTree.abbrNode]
    refine ⟨trivial, trivial, ?_, ?_, embList_append_left _ ih⟩
    · intro hta
      subst hta
      simp
    · intro htla _
      subst htla
      simp
theorem abbrKids_emb (abbrs : List (Str × Str)) (keys : List Str) :
    ∀ l : List Node, EmbList l (AbbrTree.abbrKids abbrs keys l)
  | [] => embList_nil _
  | c :: r => by
    simp only [AbbrTree.abbrKids]
    exact embList_cons (abbrNode_emb abbrs keys false c) (embList_append_left _ (abbrKids_emb abbrs keys r))
end

/-- …each in its element: the input tree is still there inside the result -/
theorem abbr_emb (abbrs : List (Str × Str)) (root : Node) : Emb root (AbbrTree.run abbrs root) := by
  unfold AbbrTree.run
  split
  · exact emb_refl _
  · exact abbrNode_emb abbrs _ true root

/-! ### B. unescape -/

mutual
/-- every text and tail of the tree (atomic or not; `None` counted as `''`), in document order -/
def allStrings : Node → List Str
  | ⟨_, _, text, _, children, tail, _⟩ => [text.getD []] ++ allStringsKids children ++ [tail.getD []]
def allStringsKids : List Node → List Str
  | [] => []
  | c :: r => allStrings c ++ allStringsKids r
end

theorem sublist_ite_one {p : Bool} {a b : Str} (h : p = true → b = a) :
    List.Sublist (if p then [a] else []) [b] := by
  cases p with
  | false => exact List.nil_sublist _
  | true => rw [h rfl]; exact List.Sublist.refl _

theorem unescape_opt {doIt : Bool} {text t : Option Str}
    (h1 : (if doIt = true then Option.map some (TreeProc.unescapeText 0 (text.getD [])) else some text) = some t)
    (hm : TreeProc.STX ∉ text.getD []) : t.getD [] = text.getD [] := by
  cases doIt with
  | true =>
    simp only [if_true] at h1
    rw [unescapeText_of_no_stx _ hm] at h1
    simp only [Option.map_some, Option.some.injEq] at h1
    rw [← h1]; rfl
  | false =>
    simp only [Bool.false_eq_true, if_false, Option.some.injEq] at h1
    rw [h1]

mutual
theorem unescapeTree_sub : ∀ (n n' : Node), TreeProc.unescapeTree n = some n' →
    (∀ s ∈ atomicTexts n, TreeProc.STX ∉ s) → List.Sublist (atomicTexts n) (allStrings n')
  | ⟨tag, attrs, text, ta, children, tail, tla⟩, n', h, hs => by
    simp only [TreeProc.unescapeTree] at h
    split at h
    · rename_i t tl a ks h1 h2 h3 h4
      simp only [Option.some.injEq] at h
      subst h
      simp only [atomicTexts, allStrings]
      have hk : ∀ s ∈ atomicTextsKids children, TreeProc.STX ∉ s := fun s hm =>
        hs s (by simp only [atomicTexts, List.mem_append]; exact Or.inl (Or.inr hm))
      refine List.Sublist.append (List.Sublist.append ?_ (unescapeKids_sub children ks h4 hk)) ?_
      · apply sublist_ite_one
        intro hta
        subst hta
        exact unescape_opt h1 (hs _ (by simp [atomicTexts]))
      · apply sublist_ite_one
        intro htla
        subst htla
        exact unescape_opt h2 (hs _ (by simp [atomicTexts]))
    · cases h
theorem unescapeKids_sub : ∀ (l l' : List Node), TreeProc.unescapeKids l = some l' →
    (∀ s ∈ atomicTextsKids l, TreeProc.STX ∉ s) → List.Sublist (atomicTextsKids l) (allStringsKids l')
  | [], l', h, _ => by
    simp only [TreeProc.unescapeKids, Option.some.injEq] at h
    subst h; exact List.Sublist.refl _
  | c :: r, l', h, hs => by
    simp only [TreeProc.unescapeKids] at h
    split at h
    · rename_i c' r' hc hr
      simp only [Option.some.injEq] at h
      subst h
      simp only [atomicTextsKids, allStringsKids]
      exact List.Sublist.append
        (unescapeTree_sub c c' hc (fun s hm => hs s (by simp [atomicTextsKids, hm])))
        (unescapeKids_sub r r' hr (fun s hm => hs s (by simp [atomicTextsKids, hm])))
    · cases h
end

/-! ### C. attr_list -/

section attr
open AttrList AttrListTree

theorem baseAt_none_of (ok : Str → Bool) {s : Str} (h : '{' ∉ s) : baseAt ok s = none := by
  cases s with
  | nil => rfl
  | cons a r =>
    have ha : a ≠ '{' := fun e => h (e ▸ List.mem_cons_self)
    unfold baseAt
    split
    · rename_i heq; injection heq with h1 _; exact absurd h1 ha
    · rename_i heq; injection heq with h1 _; exact absurd h1 ha
    · rfl

theorem blockSearch_none_of : ∀ {s : Str}, '{' ∉ s → blockSearch s = none := by
  intro s
  induction s with
  | nil => intro _; rfl
  | cons a r ih =>
    intro h
    have hr : '{' ∉ r := fun hm => h (List.mem_cons_of_mem _ hm)
    simp only [blockSearch]
    have : (if a = '\n' then baseAt endOk (r.dropWhile (· = ' ')) else none) = none := by
      split
      · exact baseAt_none_of _ (fun hm => hr ((List.dropWhile_suffix _).subset hm))
      · rfl
    rw [this, ih hr]
    rfl

theorem headerSearch_none_of : ∀ {s : Str}, '{' ∉ s → headerSearch s = none := by
  intro s
  induction s with
  | nil => intro _; rfl
  | cons a r ih =>
    intro h
    have hr : '{' ∉ r := fun hm => h (List.mem_cons_of_mem _ hm)
    simp only [headerSearch]
    have : (if a = ' ' then baseAt endOk (r.dropWhile (· = ' ')) else none) = none := by
      split
      · exact baseAt_none_of _ (fun hm => hr ((List.dropWhile_suffix _).subset hm))
      · rfl
    rw [this, ih hr]
    rfl

/-- a string without `{` holds no attribute list: the block branch leaves it and the attributes alone -/
theorem blockApply_id (header hashes : Bool) (a : Attrs) {s : Str} (h : '{' ∉ s) :
    blockApply header hashes a s = (a, s) := by
  unfold blockApply
  cases header <;> simp [blockSearch_none_of h, headerSearch_none_of h]

theorem inlineMatch_none_of {s : Str} (h : '{' ∉ s) : inlineMatch s = none := baseAt_none_of _ h

/-- does the block branch of `AttrListTreeprocessor.run` read the TEXT of the element (and not the tail of one of
    its children)?  Without children: yes.  `li`: when no child is a list and the last child has no tail, or when the
    child before the first `ul`/`ol` has none (or there is no such child).  Otherwise: when the last child has no
    tail. -/
def readsText (tag : Tag) (children : List Node) : Bool :=
  if !children.isEmpty && tag == .name "li".toList then
    match firstListPos children 0 with
    | none => !Node.truthy (children.getLast?.bind (·.tail))
    | some pos => !(pos > 0 && Node.truthy ((children[pos - 1]?).bind (·.tail)))
  else !(!children.isEmpty && Node.truthy (children.getLast?.bind (·.tail)))

/-- what the block branch does with the text it reads -/
def textCut (tag : Tag) (attrs : Attrs) (s : Str) : Attrs × Str :=
  blockApply (isHeaderTag tag || isCellTag tag) (isHeaderTag tag) attrs s

/-- **the block branch and the element's text, exactly**: the text is replaced iff it is the string the rule reads,
    it is not empty and `blockApply` finds an attribute list at its end — whatever its type -/
theorem blockRule_text (tag : Tag) (attrs : Attrs) (text : Option Str) (children : List Node) :
    (blockRule tag attrs text children).2.1 =
      if readsText tag children && Node.truthy text && decide ((textCut tag attrs (text.getD [])).2 ≠ text.getD [])
      then some (textCut tag attrs (text.getD [])).2 else none := by
  unfold blockRule readsText textCut
  simp only []
  generalize blockApply (isHeaderTag tag || isCellTag tag) (isHeaderTag tag) attrs (text.getD []) = R
  by_cases hR : R.2 = text.getD [] <;> by_cases ht : Node.truthy text = true <;>
    simp only [hR, ht, if_true, if_false, Bool.false_eq_true, Bool.and_true, Bool.and_false, ne_eq, not_true_eq_false,
      decide_false, decide_true, not_false_eq_true] <;>
    (repeat' split) <;> simp_all

theorem bind_tail_truthy {o : Option Node} (h : Node.truthy (o.bind (·.tail)) = true) :
    ∃ c, o = some c ∧ Node.truthy c.tail = true ∧ (o.bind (·.tail)).getD [] = c.tail.getD [] := by
  cases o with
  | none => simp [Node.truthy] at h
  | some c => exact ⟨c, rfl, h, rfl⟩

/-- **the block branch and the tail of a child, exactly**: when the rule cuts the tail of child `j`, that child has a
    non-empty tail at whose end `blockApply` finds an attribute list — whatever its type -/
theorem blockRule_tail (tag : Tag) (attrs : Attrs) (text : Option Str) (children : List Node) (j : Nat) (t : Str)
    (h : (blockRule tag attrs text children).2.2 = some (j, t)) :
    ∃ c, children[j]? = some c ∧ Node.truthy c.tail = true ∧ t = (textCut tag attrs (c.tail.getD [])).2 ∧
      t ≠ c.tail.getD [] := by
  unfold blockRule at h
  simp only [] at h
  have key : ∀ (o : Option Node) (i : Nat), children[i]? = o → Node.truthy (o.bind (·.tail)) = true →
      (if (blockApply (isHeaderTag tag || isCellTag tag) (isHeaderTag tag) attrs ((o.bind (·.tail)).getD [])).2 =
          (o.bind (·.tail)).getD [] then
        ((blockApply (isHeaderTag tag || isCellTag tag) (isHeaderTag tag) attrs ((o.bind (·.tail)).getD [])).1,
          (none : Option Str), (none : Option (Nat × Str)))
       else ((blockApply (isHeaderTag tag || isCellTag tag) (isHeaderTag tag) attrs ((o.bind (·.tail)).getD [])).1,
          none, some (i, (blockApply (isHeaderTag tag || isCellTag tag) (isHeaderTag tag) attrs
            ((o.bind (·.tail)).getD [])).2))).2.2 = some (j, t) →
      ∃ c, children[j]? = some c ∧ Node.truthy c.tail = true ∧ t = (textCut tag attrs (c.tail.getD [])).2 ∧
        t ≠ c.tail.getD [] := by
    intro o i ho htr hh
    obtain ⟨c, rfl, hc, he⟩ := bind_tail_truthy htr
    rw [he] at hh
    split at hh
    · cases hh
    · rename_i hne
      simp only [Option.some.injEq, Prod.mk.injEq] at hh
      obtain ⟨rfl, rfl⟩ := hh
      exact ⟨c, ho, hc, rfl, hne⟩
  have onText : ∀ (X : Attrs × Option Str × Option (Nat × Str)),
      X = (if Node.truthy text = true then
        if (blockApply (isHeaderTag tag || isCellTag tag) (isHeaderTag tag) attrs (text.getD [])).2 = text.getD [] then
          ((blockApply (isHeaderTag tag || isCellTag tag) (isHeaderTag tag) attrs (text.getD [])).1, none, none)
        else ((blockApply (isHeaderTag tag || isCellTag tag) (isHeaderTag tag) attrs (text.getD [])).1,
          some (blockApply (isHeaderTag tag || isCellTag tag) (isHeaderTag tag) attrs (text.getD [])).2, none)
      else (attrs, none, none)) → X.2.2 = none := by
    intro X hX
    rw [hX]
    split
    · split <;> rfl
    · rfl
  have hlast : children[children.length - 1]? = children.getLast? := (List.getLast?_eq_getElem? ).symm
  split at h
  · split at h
    · split at h
      · exact key _ _ hlast (by assumption) h
      · rw [onText _ rfl] at h; cases h
    · split at h
      · rename_i hp
        simp only [Bool.and_eq_true, decide_eq_true_eq] at hp
        exact key _ _ rfl hp.2 h
      · rw [onText _ rfl] at h; cases h
  · split at h
    · rename_i hp
      simp only [Bool.and_eq_true] at hp
      exact key _ _ hlast hp.2 h
    · rw [onText _ rfl] at h; cases h

/-- no attribute list is found in `s`: neither at its end by `BLOCK_RE` / `HEADER_RE` (`search`) nor at its start by
    `INLINE_RE` (`match`) -/
def attrInert (s : Str) : Bool := (blockSearch s).isNone && (headerSearch s).isNone && (inlineMatch s).isNone

theorem attrInert_of_no_brace {s : Str} (h : '{' ∉ s) : attrInert s = true := by
  simp [attrInert, blockSearch_none_of h, headerSearch_none_of h, inlineMatch_none_of h]

theorem blockApply_inert (header hashes : Bool) (a : Attrs) {s : Str} (h : attrInert s = true) :
    blockApply header hashes a s = (a, s) := by
  simp only [attrInert, Bool.and_eq_true, Option.isNone_iff_eq_none] at h
  unfold blockApply
  cases header <;> simp [h.1.1, h.1.2]

theorem inlineMatch_inert {s : Str} (h : attrInert s = true) : inlineMatch s = none := by
  simp only [attrInert, Bool.and_eq_true, Option.isNone_iff_eq_none] at h
  exact h.2

theorem mem_atomicTextsKids_tail : ∀ (l : List Node) (j : Nat) (c : Node), l[j]? = some c → c.tailAtomic = true →
    c.tail.getD [] ∈ atomicTextsKids l := by
  intro l
  induction l with
  | nil => intro j c h; simp at h
  | cons a l ih =>
    intro j c h hc
    simp only [atomicTextsKids, List.mem_append]
    cases j with
    | zero =>
      simp only [List.getElem?_cons_zero, Option.some.injEq] at h
      subst h
      left
      rw [atomicTexts_eq]
      simp [hc]
    | succ j =>
      simp only [List.getElem?_cons_succ] at h
      exact Or.inr (ih j c h hc)

/-- the visit of one element, given its effective tail -/
def attrBody (bl : List Str) (tag : Tag) (attrs : Attrs) (text : Option Str) (ta : Bool) (children : List Node)
    (tail : Option Str) (tla : Bool) : Node :=
  if TreeProc.isBlockLevel bl tag then
    let r := blockRule tag attrs text children
    ⟨tag, r.1, (match r.2.1 with | some t => some t | none => text), (match r.2.1 with | some _ => false | none => ta),
     attrKids bl r.2.2 0 children, tail, tla⟩
  else if Node.truthy tail then
    match inlineMatch (tail.getD []) with
    | some _ =>
      let r := inlineApply attrs (tail.getD [])
      ⟨tag, r.1, text, ta, attrKids bl none 0 children, some r.2, false⟩
    | none => ⟨tag, attrs, text, ta, attrKids bl none 0 children, tail, tla⟩
  else ⟨tag, attrs, text, ta, attrKids bl none 0 children, tail, tla⟩

theorem attrNode_body (bl : List Str) (ov : Option Str) (tag : Tag) (attrs : Attrs) (text : Option Str) (ta : Bool)
    (children : List Node) (tail0 : Option Str) (tla0 : Bool) :
    attrNode bl ov ⟨tag, attrs, text, ta, children, tail0, tla0⟩ =
      attrBody bl tag attrs text ta children (match ov with | some t => some t | none => tail0)
        (match ov with | some _ => false | none => tla0) := by
  unfold attrNode
  rfl

mutual
theorem attrNode_inert (bl : List Str) : ∀ (n : Node) (ov : Option Str),
    (∀ s ∈ atomicTexts n, attrInert s = true) → (ov.isSome = true → n.tailAtomic = false) →
    atomicTexts (attrNode bl ov n) = atomicTexts n
  | ⟨tag, attrs, text, ta, children, tail0, tla0⟩, ov, hs, hov => by
    have hk : ∀ s ∈ atomicTextsKids children, attrInert s = true := fun s hm =>
      hs s (by simp only [atomicTexts, List.mem_append]; exact Or.inl (Or.inr hm))
    have htxt : ta = true → attrInert (text.getD []) = true := by
      intro hta; subst hta; exact hs _ (by simp [atomicTexts])
    -- the effective tail: as atomic as before, and inert when atomic
    have core : ∀ (tail : Option Str) (tla : Bool),
        (if tla then [tail.getD []] else []) = (if tla0 then [tail0.getD []] else []) →
        (tla = true → attrInert (tail.getD []) = true) →
        atomicTexts (attrBody bl tag attrs text ta children tail tla) =
          atomicTexts ⟨tag, attrs, text, ta, children, tail0, tla0⟩ := by
      intro tail tla htail hin
      unfold attrBody
      split
      · -- block-level
        have htext : ta = true → (blockRule tag attrs text children).2.1 = none := by
          intro hta
          rw [blockRule_text]
          have : (textCut tag attrs (text.getD [])).2 = text.getD [] := by
            unfold textCut; rw [blockApply_inert _ _ _ (htxt hta)]
          simp [this]
        have hkids := attrKids_inert bl children (blockRule tag attrs text children).2.2 0 hk (by
          intro j t he c hc _
          obtain ⟨c', hc', _, ht, hne⟩ := blockRule_tail tag attrs text children j t he
          simp only [Nat.sub_zero] at hc
          rw [hc] at hc'
          injection hc' with hc'
          subst hc'
          cases hta : c.tailAtomic with
          | false => rfl
          | true =>
            exfalso
            have hi : attrInert (c.tail.getD []) = true := hk _ (mem_atomicTextsKids_tail children j c hc hta)
            apply hne
            rw [ht]
            unfold textCut; rw [blockApply_inert _ _ _ hi])
        simp only [atomicTexts, hkids, htail]
        congr 2
        cases ta with
        | false => cases (blockRule tag attrs text children).2.1 <;> rfl
        | true => rw [htext rfl]
      · -- inline
        have hkids := attrKids_inert bl children none 0 hk (by intro j t he; cases he)
        split
        · split
          · rename_i g hm
            -- an attribute list at the start of the tail: the tail was not atomic
            have hna : tla = false := by
              cases hta : tla with
              | false => rfl
              | true =>
                exfalso
                rw [inlineMatch_inert (hin hta)] at hm
                cases hm
            subst hna
            simp only [atomicTexts, hkids, ← htail]
            rfl
          · simp only [atomicTexts, hkids, htail]
        · simp only [atomicTexts, hkids, htail]
    rw [attrNode_body]
    cases ov with
    | none =>
      exact core tail0 tla0 rfl (by intro hta; subst hta; exact hs _ (by simp [atomicTexts]))
    | some t =>
      have : tla0 = false := hov rfl
      subst this
      exact core (some t) false rfl (by intro h; cases h)
theorem attrKids_inert (bl : List Str) : ∀ (l : List Node) (ovk : Option (Nat × Str)) (i : Nat),
    (∀ s ∈ atomicTextsKids l, attrInert s = true) →
    (∀ j t, ovk = some (j, t) → ∀ c, l[j - i]? = some c → i ≤ j → c.tailAtomic = false) →
    atomicTextsKids (attrKids bl ovk i l) = atomicTextsKids l
  | [], _, _, _, _ => rfl
  | c :: r, ovk, i, hs, hov => by
    simp only [attrKids, atomicTextsKids]
    rw [attrNode_inert bl c _ (fun s hm => hs s (by simp [atomicTextsKids, hm])) (by
        intro hsome
        cases ovk with
        | none => simp at hsome
        | some jt =>
          obtain ⟨j, t⟩ := jt
          by_cases hij : i = j
          · subst hij
            exact hov i t rfl c (by simp) (Nat.le_refl _)
          · simp [hij] at hsome),
      attrKids_inert bl r ovk (i + 1) (fun s hm => hs s (by simp [atomicTextsKids, hm])) (by
        intro j t he c' hc' hle
        apply hov j t he c' _ (by omega)
        have : j - i = (j - (i + 1)) + 1 := by omega
        rw [this, List.getElem?_cons_succ]
        exact hc')]
end

mutual
theorem attrNode_sub (bl : List Str) : ∀ (n : Node) (ov : Option Str),
    List.Sublist (atomicTexts (attrNode bl ov n)) (atomicTexts n)
  | ⟨tag, attrs, text, ta, children, tail0, tla0⟩, ov => by
    have core : ∀ (tail : Option Str) (tla : Bool), (tla = true → tla0 = true ∧ tail0.getD [] = tail.getD []) →
        List.Sublist (atomicTexts (attrBody bl tag attrs text ta children tail tla))
          (atomicTexts ⟨tag, attrs, text, ta, children, tail0, tla0⟩) := by
      intro tail tla htl
      unfold attrBody
      split
      · simp only [atomicTexts]
        refine List.Sublist.append (List.Sublist.append ?_ (attrKids_sub bl children _ 0)) (sublist_ite_single htl)
        apply sublist_ite_single
        cases (blockRule tag attrs text children).2.1 with
        | none => intro h; exact ⟨h, rfl⟩
        | some t => intro h; cases h
      · split
        · split
          · simp only [atomicTexts]
            exact List.Sublist.append (List.Sublist.append (List.Sublist.refl _) (attrKids_sub bl children none 0))
              (sublist_ite_single (fun h => by cases h))
          · simp only [atomicTexts]
            exact List.Sublist.append (List.Sublist.append (List.Sublist.refl _) (attrKids_sub bl children none 0))
              (sublist_ite_single htl)
        · simp only [atomicTexts]
          exact List.Sublist.append (List.Sublist.append (List.Sublist.refl _) (attrKids_sub bl children none 0))
            (sublist_ite_single htl)
    rw [attrNode_body]
    cases ov with
    | none => exact core tail0 tla0 (fun h => ⟨h, rfl⟩)
    | some t => exact core (some t) false (fun h => by cases h)
theorem attrKids_sub (bl : List Str) : ∀ (l : List Node) (ovk : Option (Nat × Str)) (i : Nat),
    List.Sublist (atomicTextsKids (attrKids bl ovk i l)) (atomicTextsKids l)
  | [], _, _ => List.Sublist.refl _
  | c :: r, ovk, i => by
    simp only [attrKids, atomicTextsKids]
    exact List.Sublist.append (attrNode_sub bl c _) (attrKids_sub bl r ovk (i + 1))
end

/-- `AttrListTreeprocessor` makes no atomic string and changes none without taking its type away: the atomic
    strings of the result are, in order, among those of the input -/
theorem attrList_sub (bl : List Str) (root : Node) :
    List.Sublist (atomicTexts (AttrListTree.run bl root)) (atomicTexts root) :=
  attrNode_sub bl root none

/-- **`AttrListTreeprocessor` leaves every atomic string alone when none of them holds an attribute list** -/
theorem attrList_inert (bl : List Str) (root : Node) (h : ∀ s ∈ atomicTexts root, attrInert s = true) :
    atomicTexts (AttrListTree.run bl root) = atomicTexts root :=
  attrNode_inert bl root none h (by intro h; cases h)

/-- **F-C18-1, text of a block-level element, exactly.**  The text (and its type) after the visit: replaced by the cut
    string, as a plain `str`, iff the rule reads the text (`readsText`), the text is not empty and `blockApply` finds
    an attribute list at its end; `ta` (is the text an `AtomicString`?) does not occur in the condition. -/
theorem attrNode_block_text (bl : List Str) (ov : Option Str) (tag : Tag) (attrs : Attrs) (text : Option Str) (ta : Bool)
    (children : List Node) (tail0 : Option Str) (tla0 : Bool) (hb : TreeProc.isBlockLevel bl tag = true) :
    ((attrNode bl ov ⟨tag, attrs, text, ta, children, tail0, tla0⟩).text,
     (attrNode bl ov ⟨tag, attrs, text, ta, children, tail0, tla0⟩).textAtomic) =
      if readsText tag children && Node.truthy text && decide ((textCut tag attrs (text.getD [])).2 ≠ text.getD [])
      then (some (textCut tag attrs (text.getD [])).2, false) else (text, ta) := by
  rw [attrNode_body]
  unfold attrBody
  simp only [hb, if_true, blockRule_text]
  by_cases hc : (readsText tag children && Node.truthy text &&
      decide ((textCut tag attrs (text.getD [])).2 ≠ text.getD [])) = true
  · simp only [hc, if_true]
  · simp only [hc, Bool.false_eq_true, if_false]

/-- **F-C18-1, tail of an inline element, exactly.**  For an element that is not block-level and keeps its own tail:
    the tail is cut, and becomes a plain `str`, iff it is not empty and `INLINE_RE` matches at its start; `tla` does
    not occur in the condition. -/
theorem attrNode_inline_tail (bl : List Str) (tag : Tag) (attrs : Attrs) (text : Option Str) (ta : Bool)
    (children : List Node) (tail0 : Option Str) (tla0 : Bool) (hb : TreeProc.isBlockLevel bl tag = false) :
    ((attrNode bl none ⟨tag, attrs, text, ta, children, tail0, tla0⟩).tail,
     (attrNode bl none ⟨tag, attrs, text, ta, children, tail0, tla0⟩).tailAtomic) =
      if Node.truthy tail0 && (inlineMatch (tail0.getD [])).isSome
      then (some (inlineApply attrs (tail0.getD [])).2, false) else (tail0, tla0) := by
  rw [attrNode_body]
  unfold attrBody
  simp only [hb, Bool.false_eq_true, if_false]
  split
  · rename_i htr
    split
    · rename_i hm; simp [htr, hm]
    · rename_i hm; simp [htr, hm]
  · rename_i htr
    simp [htr]

end attr

/-! ### D. toc -/

section toc
open TocTree

/-- `replace_marker` replaces this child: it is not a heading, `pre` or `code`, has no children, and its text,
    stripped, is the marker -/
def isMarkerEl (c : Node) : Bool :=
  !(isHeaderTag c.tag || c.tag == .name "pre".toList || c.tag == .name "code".toList) &&
  (Node.truthy c.text && strip (c.text.getD []) == marker && c.children.isEmpty)

theorem replKids_cons (div c : Node) (r : List Node) :
    replKids div (c :: r) =
      (if isMarkerEl c then div
       else if isHeaderTag c.tag || c.tag == .name "pre".toList || c.tag == .name "code".toList then c
       else replNode div c) :: replKids div r := by
  simp only [replKids, isMarkerEl]
  by_cases h : (isHeaderTag c.tag || c.tag == Tag.name "pre".toList || c.tag == Tag.name "code".toList) = true
  · simp only [h, if_true, Bool.not_true, Bool.false_and, Bool.false_eq_true, if_false]
  · simp only [h, Bool.false_eq_true, if_false, Bool.not_false, Bool.true_and]
    split <;> rfl

mutual
/-- no element below this one would be replaced by `replace_marker` -/
def markerFree : Node → Bool
  | ⟨_, _, _, _, children, _, _⟩ => markerFreeKids children
def markerFreeKids : List Node → Bool
  | [] => true
  | c :: r => !isMarkerEl c && markerFree c && markerFreeKids r
end

mutual
theorem replNode_free (div : Node) : ∀ n : Node, markerFree n = true → replNode div n = n
  | ⟨tag, attrs, text, ta, children, tail, tla⟩, h => by
    simp only [markerFree] at h
    simp only [replNode, replKids_free div children h]
theorem replKids_free (div : Node) : ∀ l : List Node, markerFreeKids l = true → replKids div l = l
  | [], _ => rfl
  | c :: r, h => by
    simp only [markerFreeKids, Bool.and_eq_true, Bool.not_eq_true'] at h
    rw [replKids_cons, h.1.1, replKids_free div r h.2]
    simp only [Bool.false_eq_true, if_false]
    split
    · rfl
    · rw [replNode_free div c h.1.2]
end

mutual
theorem walkNode_shape (env : Env) : ∀ (n : Node) (st : St) (n' : Node) (st' : St),
    walkNode env n st = .ok (n', st') →
    atomicTexts n' = atomicTexts n ∧ markerFree n' = markerFree n ∧ isMarkerEl n' = isMarkerEl n
  | ⟨tag, attrs, text, ta, children, tail, tla⟩, st, n', st', h => by
    simp only [walkNode] at h
    split at h
    · cases h
    · cases h
    · cases h
    · rename_i attrs' st1 _
      split at h
      · cases h
      · cases h
      · cases h
      · rename_i ks st2 hk
        simp only [R.ok.injEq, Prod.mk.injEq] at h
        obtain ⟨rfl, _⟩ := h
        obtain ⟨e1, e2, e3⟩ := walkKids_shape env children st1 ks st2 hk
        refine ⟨by simp only [atomicTexts, e1], by simp only [markerFree, e2], ?_⟩
        simp only [isMarkerEl, e3]
theorem walkKids_shape (env : Env) : ∀ (l : List Node) (st : St) (l' : List Node) (st' : St),
    walkKids env l st = .ok (l', st') →
    atomicTextsKids l' = atomicTextsKids l ∧ markerFreeKids l' = markerFreeKids l ∧ l'.isEmpty = l.isEmpty
  | [], st, l', st', h => by
    simp only [walkKids, R.ok.injEq, Prod.mk.injEq] at h
    obtain ⟨rfl, _⟩ := h
    exact ⟨rfl, rfl, rfl⟩
  | c :: r, st, l', st', h => by
    simp only [walkKids] at h
    split at h
    · cases h
    · cases h
    · cases h
    · rename_i c' st1 hc
      split at h
      · cases h
      · cases h
      · cases h
      · rename_i r' st2 hr
        simp only [R.ok.injEq, Prod.mk.injEq] at h
        obtain ⟨rfl, _⟩ := h
        obtain ⟨a1, a2, a3⟩ := walkNode_shape env c st c' st1 hc
        obtain ⟨b1, b2, _⟩ := walkKids_shape env r st1 r' st2 hr
        exact ⟨by simp only [atomicTextsKids, a1, b1], by simp only [markerFreeKids, a2, a3, b2], rfl⟩
end

/-- **`TocTreeprocessor` leaves every atomic string alone when no element would be replaced** -/
theorem toc_free (env : Env) (bl : List Str) (root r : Node) (h : TocTree.run env bl root = .ok r)
    (hf : markerFree root = true) : atomicTexts r = atomicTexts root := by
  unfold TocTree.run at h
  split at h
  · cases h
  · split at h
    · cases h
    · cases h
    · cases h
    · rename_i root' st hw
      simp only [R.ok.injEq] at h
      subst h
      obtain ⟨e1, e2, _⟩ := walkNode_shape env root _ root' st hw
      rw [replNode_free _ root' (by rw [e2]; exact hf), e1]

end toc

/-! ### E. footnotes: `placeDiv` -/

section fn
open FootnotesTree

theorem placeKids_text (div c : Node) (r : List Node) (h : hasMarker c.text = true) :
    placeKids div (c :: r) = some (div :: r) := by
  simp [placeKids, h]

theorem placeKids_tail (div c : Node) (r : List Node) (h1 : hasMarker c.text = false) (h2 : hasMarker c.tail = true) :
    placeKids div (c :: r) = some ({ c with tail := none, tailAtomic := false } :: div :: r) := by
  simp [placeKids, h1, h2]

mutual
/-- no text and no tail below this element contains the place marker -/
def fnFree : Node → Bool
  | ⟨_, _, _, _, children, _, _⟩ => fnFreeKids children
def fnFreeKids : List Node → Bool
  | [] => true
  | c :: r => !hasMarker c.text && !hasMarker c.tail && fnFree c && fnFreeKids r
end

mutual
theorem placeNode_free (div : Node) : ∀ n : Node, fnFree n = true → placeNode div n = none
  | ⟨tag, attrs, text, ta, children, tail, tla⟩, h => by
    simp only [fnFree] at h
    simp only [placeNode, placeKids_free div children h]
theorem placeKids_free (div : Node) : ∀ l : List Node, fnFreeKids l = true → placeKids div l = none
  | [], _ => rfl
  | c :: r, h => by
    simp only [fnFreeKids, Bool.and_eq_true, Bool.not_eq_true'] at h
    simp only [placeKids, h.1.1.1, h.1.1.2, Bool.false_eq_true, if_false, placeNode_free div c h.1.2,
      placeKids_free div r h.2]
end

/-- without a marker anywhere the footnote block goes to the end of the root and nothing else changes -/
theorem placeDiv_free (root div : Node) (h : fnFree root = true) : placeDiv root div = root.append div := by
  unfold placeDiv
  rw [placeNode_free div root h]

theorem atomicTexts_append_child (root div : Node) :
    atomicTexts (root.append div) =
      (if root.textAtomic then [root.text.getD []] else []) ++ atomicTextsKids root.children ++ atomicTexts div ++
        (if root.tailAtomic then [root.tail.getD []] else []) := by
  obtain ⟨tag, attrs, text, ta, children, tail, tla⟩ := root
  simp only [Node.append, atomicTexts, atomicTextsKids_append, atomicTextsKids, List.append_nil, List.append_assoc]

end fn

/-! ### F. a decidable equality test for trees (for the kernel-checked witnesses) -/

mutual
def sameTree : Node → Node → Bool
  | ⟨tag, attrs, text, ta, children, tail, tla⟩, ⟨tag', attrs', text', ta', children', tail', tla'⟩ =>
    decide (tag = tag') && decide (attrs = attrs') && decide (text = text') && decide (ta = ta') &&
    sameKids children children' && decide (tail = tail') && decide (tla = tla')
def sameKids : List Node → List Node → Bool
  | [], [] => true
  | c :: r, c' :: r' => sameTree c c' && sameKids r r'
  | _, _ => false
end

mutual
theorem sameTree_eq : ∀ (a b : Node), sameTree a b = true → a = b
  | ⟨tag, attrs, text, ta, children, tail, tla⟩, ⟨tag', attrs', text', ta', children', tail', tla'⟩, h => by
    simp only [sameTree, Bool.and_eq_true, decide_eq_true_eq] at h
    obtain ⟨⟨⟨⟨⟨⟨h1, h2⟩, h3⟩, h4⟩, h5⟩, h6⟩, h7⟩ := h
    have := sameKids_eq children children' h5
    subst h1 h2 h3 h4 h6 h7 this
    rfl
theorem sameKids_eq : ∀ (l l' : List Node), sameKids l l' = true → l = l'
  | [], [], _ => rfl
  | c :: r, c' :: r', h => by
    simp only [sameKids, Bool.and_eq_true] at h
    rw [sameTree_eq c c' h.1, sameKids_eq r r' h.2]
  | [], _ :: _, h => by simp [sameKids] at h
  | _ :: _, [], h => by simp [sameKids] at h
end

end MdVerif.AtomicX
