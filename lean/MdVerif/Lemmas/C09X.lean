/-
Helper lemmas for C09 on the extension pipeline (`Props/C09X.lean`): the lift of the normaliser theorems to
`PipelineX.convertX`.  `convertX x cfg src` reads the source through `src.contains '<'`, `isBlankDoc src` (both on the
raw source) and `prepareX x cfg src`, and `prepareX` starts with `Normalize.normalize cfg.tab src`: every later
observation (`admNonAscii`, `fencedHasConfig`, the fenced-code preprocessor, the raw-HTML extractor) is made on the
normalised text.  Core Lean only.
-/
import MdVerif.Model.PipelineX
import MdVerif.Lemmas.NormalizeDoc

namespace MdVerif.C09X
open Py Normalize PipelineX

/-- the preprocessors read the normalised text only -/
theorem prepareX_factors (x : Exts) (cfg : Pipeline.Cfg) {s s' : Str}
    (h : normalize cfg.tab s = normalize cfg.tab s') : prepareX x cfg s = prepareX x cfg s' := by
  simp only [prepareX, h]

/-- the stages before the serializer read the source through the preprocessors only -/
theorem treeX_factors (x : Exts) (cfg : Pipeline.Cfg) {s s' : Str}
    (h : normalize cfg.tab s = normalize cfg.tab s') : treeX x cfg s = treeX x cfg s' := by
  simp only [treeX, prepareX_factors x cfg h]

/-- `convertX` reads the source through three observations only -/
theorem convertX_factors (x : Exts) (cfg : Pipeline.Cfg) {s s' : Str} (h1 : s.contains '<' = s'.contains '<')
    (h2 : isBlankDoc s = isBlankDoc s') (h3 : normalize cfg.tab s = normalize cfg.tab s') :
    convertX x cfg s = convertX x cfg s' := by
  simp only [convertX, h1, h2, treeX_factors x cfg h3]

end MdVerif.C09X
