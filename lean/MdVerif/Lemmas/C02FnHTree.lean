/-
SECOND PORT, STRONGER TOKEN: this file is `Lemmas/C02FnTree.lean` in the namespace `MdVerif.TokH`, over the string invariant
of `Lemmas/C02FnHStr.lean`, in which a complete escape token `STX d₁…d_k ETX` must have a value below 0x110000 AND
DIFFERENT FROM 2 (`TokH.chrOk`), so that `UnescapeTreeprocessor.unescape` never writes an STX.  The one place where tokens
are created (the escape pattern, `findMatch_S` in `Lemmas/C02FnHPat.lean`) needs that STX is no escapable character:
`RefsS cfg` is the old statement together with `cfg.esc.contains Inline.STX = false`.  Header of the file copied:

PORT for `Props/C02Fn.lean` (footnotes): this file is `Lemmas/C02BigTree.lean (without the last section, `convertBig_ok`)` in the namespace `MdVerif.TokH`, over the
string invariant of `Lemmas/C02FnStr.lean`, in which an STX may be followed by `k`, `w`, **`q`, `z`** (`TokH.gl`: the two
tokens of the footnotes extension, `STX zz…qq ETX` and `STX qq…zz ETX`) or by a complete escape token.  The proofs are
those of the original up to the case splits on the letter.  Original header:

Lemmas for `Props/C02Big.lean` (the `err` answer is unreachable), part 4: the block tree, `PrettifyTreeprocessor`,
`UnescapeTreeprocessor`, and the whole pipeline.

* the block parser's tree holds no STX at all, so it satisfies the invariant of `Lemmas/C02BigStr.lean`;
* the inline stage keeps it (`Lemmas/C02BigRun.lean`), `PrettifyTreeprocessor` only adds line feeds;
* a string with the invariant up to truncation (`SOkA`) holds no `STX digits ETX` with a number of at least 0x110000:
  `UnescapeTreeprocessor.unescape` does not raise on it (`unescapeText_sokA`), hence `UnescapeTreeprocessor.run` does
  not raise on the tree (`unescapeTree_S`);
* so `convertBig` never answers `err` on a `<`-free source (`convertBig_ok`).

Core Lean only.
-/
import MdVerif.Lemmas.C02FnHRun
import MdVerif.Lemmas.C02Big

namespace MdVerif.TokH
open Py Inline

/-! ### the block tree -/

theorem nodeS_of_noCtl {n : Node} (h : NoCtl.NodeNoCtl n) : NodeS n :=
  ⟨SOk_of_noCtl h.2.2.1, SOk_of_noCtl h.2.2.2, fun kv hkv => SOkA_of_noSTX (h.2.1 kv hkv).2.1⟩

theorem forallS_of_noCtl {t : Node} (h : NoCtl.TreeNoCtl t) : t.Forall NodeS :=
  Node.Forall.mono (fun _ hn => nodeS_of_noCtl hn) t h

/-! ### `PrettifyTreeprocessor` -/

private theorem ite_pred {α : Type} (P : α → Prop) {c : Prop} [Decidable c] {a b : α} (ha : P a) (hb : P b) :
    P (if c then a else b) := by
  split
  · exact ha
  · exact hb

mutual
theorem prettifyETree_S (bl : List Str) : ∀ t : Node, t.Forall NodeS → (TreeProc.prettifyETree bl t).Forall NodeS
  | ⟨tag, attrs, text, ta, children, tail, tla⟩, h => by
    simp only [Node.Forall] at h
    obtain ⟨⟨h1, h2, h3⟩, hk⟩ := h
    simp only at h1 h2 h3
    unfold TreeProc.prettifyETree
    simp only [Node.Forall]
    refine ⟨⟨?_, ?_, h3⟩, ?_⟩
    · exact ite_pred (fun t : Option Str => SOk (t.getD []) = true) (by decide) h1
    · exact ite_pred (fun t : Option Str => SOk (t.getD []) = true) (by decide) h2
    · split
      · exact prettifyKids_S bl children hk
      · exact hk
theorem prettifyKids_S (bl : List Str) : ∀ l : List Node, Node.ForallL NodeS l →
    Node.ForallL NodeS (TreeProc.prettifyKids bl l)
  | [], _ => by simp [TreeProc.prettifyKids, Node.ForallL]
  | c :: r, h => by
    simp only [Node.ForallL] at h
    unfold TreeProc.prettifyKids
    simp only [Node.ForallL]
    refine ⟨?_, prettifyKids_S bl r h.2⟩
    split
    · exact prettifyETree_S bl c h.1
    · exact h.1
end

mutual
theorem mapTree_P {P : Node → Prop} (hP : ∀ (n : Node) (l : List Node), P n → P { n with children := l })
    {f : Node → Node} (hf : ∀ n : Node, n.Forall P → (f n).Forall P) :
    ∀ t : Node, t.Forall P → (TreeProc.mapTree f t).Forall P
  | ⟨tag, attrs, text, ta, children, tail, tla⟩, h => by
    simp only [Node.Forall] at h
    unfold TreeProc.mapTree
    apply hf
    simp only [Node.Forall]
    exact ⟨hP _ _ h.1, mapKids_P hP hf children h.2⟩
theorem mapKids_P {P : Node → Prop} (hP : ∀ (n : Node) (l : List Node), P n → P { n with children := l })
    {f : Node → Node} (hf : ∀ n : Node, n.Forall P → (f n).Forall P) :
    ∀ l : List Node, Node.ForallL P l → Node.ForallL P (TreeProc.mapKids f l)
  | [], _ => by simp [TreeProc.mapKids, Node.ForallL]
  | c :: r, h => by
    simp only [Node.ForallL] at h
    unfold TreeProc.mapKids
    simp only [Node.ForallL]
    exact ⟨mapTree_P hP hf c h.1, mapKids_P hP hf r h.2⟩
end

theorem brRule_S {n : Node} (h : n.Forall NodeS) : (TreeProc.brRule n).Forall NodeS := by
  unfold TreeProc.brRule
  split
  · split
    · exact forallS_setTail h (by decide) _
    · exact forallS_setTail h (by rw [SOk_cons_ne (by decide)]; exact forallS_tail h) _
  · exact h

theorem preRule_S {n : Node} (h : n.Forall NodeS) : (TreeProc.preRule n).Forall NodeS := by
  unfold TreeProc.preRule
  split
  · split
    · next code rest hch =>
      split
      · split
        · next t ht =>
          refine forallS_setChildren h ?_
          have hk := forallS_children h
          rw [hch] at hk
          intro c hc
          rcases List.mem_cons.1 hc with rfl | hc
          · have hcd := hk code List.mem_cons_self
            refine forallS_setText hcd ?_ _
            have := forallS_text hcd
            rw [ht] at this
            exact SOk_append (SOk_rstrip this) (by decide)
          · exact hk c (List.mem_cons_of_mem _ hc)
        · exact h
      · exact h
    · exact h
  · exact h

theorem prettify_S {t : Node} (h : t.Forall NodeS) (bl : List Str) : (TreeProc.prettify t bl).Forall NodeS := by
  unfold TreeProc.prettify
  exact mapTree_P nodeS_children_irrel (fun _ => preRule_S) _
    (mapTree_P nodeS_children_irrel (fun _ => brRule_S) _ (prettifyETree_S bl t h))

/-! ### `UnescapeTreeprocessor` -/

theorem append_cons_inj {x : Char} : ∀ {a a' b b' : Str}, a ++ x :: b = a' ++ x :: b' → x ∉ a → x ∉ a' → a = a' := by
  intro a
  induction a with
  | nil =>
    intro a' b b' e _ h2
    cases a' with
    | nil => rfl
    | cons y a' =>
      simp only [List.nil_append, List.cons_append, List.cons.injEq] at e
      exact absurd (by rw [e.1]; exact List.mem_cons_self) h2
  | cons y a ih =>
    intro a' b b' e h1 h2
    cases a' with
    | nil =>
      simp only [List.nil_append, List.cons_append, List.cons.injEq] at e
      exact absurd (by rw [e.1]; exact List.mem_cons_self) h1
    | cons z a' =>
      simp only [List.cons_append, List.cons.injEq] at e
      rw [e.1, ih e.2 (fun hm => h1 (List.mem_cons_of_mem _ hm)) (fun hm => h2 (List.mem_cons_of_mem _ hm))]

theorem SOkA_at {pre r : Str} (h : SOkA (pre ++ STX :: r) = true) : folA r = true := by
  have := SOkA_right h
  rw [SOkA_cons] at this
  have := (Bool.and_eq_true _ _ ▸ this : _ ∧ _).1
  simpa using this

/-- **`unescape` does not raise on a string with the invariant** (up to truncation): a match `STX \d+ ETX` of the
    regular expression is a complete token, whose number is below 0x110000 -/
theorem unescapeText_sokA {s : Str} (h : SOkA s = true) : (TreeProc.unescapeText 0 s).isSome = true := by
  cases hu : TreeProc.unescapeText 0 s with
  | some r => rfl
  | none =>
    exfalso
    obtain ⟨pre, d, post, e, hne, hdec, hbig⟩ := (TreeProc.C02_unescape_raises_iff s).1 hu
    subst e
    have hf := SOkA_at h
    have hetx_dec : TreeProc.ETX ∉ d := by
      intro hm
      have := hdec _ hm
      revert this; decide
    cases d with
    | nil => exact hne rfl
    | cons c d =>
      rw [List.cons_append, folA_cons] at hf
      simp only [Bool.or_eq_true] at hf
      have hc := hdec c List.mem_cons_self
      rcases hf with (hf | hf) | hf
      · rcases gl_iff.1 hf with rfl | rfl | rfl | rfl <;> (revert hc; decide)
      · obtain ⟨d', rest, e, _, h2, h3⟩ := (tok_iff _).1 hf
        have hetx' : TreeProc.ETX ∉ d' := by
          intro hm
          have := h2 _ hm
          revert this; decide
        have e' : (c :: d) ++ TreeProc.ETX :: post = d' ++ TreeProc.ETX :: rest := e
        have := append_cons_inj e' hetx_dec hetx'
        rw [← this] at h3
        have h3' : decToNat (c :: d) < 0x110000 := chrOk_lt h3
        omega
      · rw [List.all_eq_true] at hf
        have := hf TreeProc.ETX (by simp)
        revert this; decide

theorem forall_mem_unescAttrs {attrs : List (Str × Str)} (h : ∀ kv ∈ attrs, SOkA kv.2 = true) :
    ∀ s ∈ attrs.map (·.2), SOkA s = true := by
  intro s hs
  obtain ⟨kv, hkv, rfl⟩ := List.mem_map.1 hs
  exact h kv hkv

mutual
theorem unescInputs_S : (n : Node) → n.Forall NodeS → ∀ s ∈ TreeProc.unescInputs n, SOkA s = true
  | ⟨tag, attrs, text, ta, children, tail, tla⟩, h => by
    unfold Node.Forall at h
    have hk := unescInputsList_S children h.2
    obtain ⟨h1, h2, h3⟩ := h.1
    intro s hs
    unfold TreeProc.unescInputs at hs
    simp only [List.mem_append] at hs
    rcases hs with ((hs | hs) | hs) | hs
    · split at hs
      · simp only [List.mem_singleton] at hs; subst hs; exact SOkA_of_SOk h1
      · cases hs
    · split at hs
      · simp only [List.mem_singleton] at hs; subst hs; exact SOkA_of_SOk h2
      · cases hs
    · exact forall_mem_unescAttrs h3 s hs
    · exact hk s hs
theorem unescInputsList_S : (l : List Node) → Node.ForallL NodeS l → ∀ s ∈ TreeProc.unescInputsList l, SOkA s = true
  | [], _ => by intro s hs; unfold TreeProc.unescInputsList at hs; cases hs
  | c :: r, h => by
    unfold Node.ForallL at h
    have hc := unescInputs_S c h.1
    have hr := unescInputsList_S r h.2
    intro s hs
    unfold TreeProc.unescInputsList at hs
    rcases List.mem_append.1 hs with hs | hs
    · exact hc s hs
    · exact hr s hs
end

/-- **`UnescapeTreeprocessor.run` does not raise on a tree with the invariant** -/
theorem unescapeTree_S {n : Node} (h : n.Forall NodeS) : (TreeProc.unescapeTree n).isSome = true := by
  rw [TreeProc.C02_unescapeTree_total_iff]
  intro s hs
  exact unescapeText_sokA (unescInputs_S n h s hs)

end MdVerif.TokH
