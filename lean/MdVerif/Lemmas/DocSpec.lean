/-
Helper lemmas about the C01 specification (`MdVerif/Spec/Doc.lean`).  Core Lean only.
-/
import MdVerif.Spec.Doc

namespace MdVerif.DocSpec
open MdVerif MdVerif.Py

/-! ### `spec` of a concatenation -/

theorem specBlocks_append : ∀ (d1 d2 : List Block), d1 ≠ [] → d2 ≠ [] →
    specBlocks (d1 ++ d2) = specBlocks d1 ++ S "\n" ++ specBlocks d2
  | [], _, h, _ => absurd rfl h
  | [b], b' :: r, _, _ => by simp [specBlocks]
  | [_], [], _, h => absurd rfl h
  | b :: b1 :: r1, d2, _, h2 => by
    have ih := specBlocks_append (b1 :: r1) d2 (by simp) h2
    simp only [List.cons_append] at ih
    simp only [List.cons_append, specBlocks, ih, List.append_assoc]

/-! ### characters of the printed source -/

/-- not a tab, a carriage return, STX or ETX: the characters the normalisation of the converter touches -/
def okCh (c : Char) : Bool := c != '\t' && c != '\r' && c != Char.ofNat 2 && c != Char.ofNat 3

def clean (s : Str) : Bool := s.all okCh

def cleanOpt : Option Str → Bool
  | none => true
  | some t => clean t

def cleanLines (ls : List Str) : Bool := ls.all clean

mutual
def cleanInline : Inline → Bool
  | .text w => clean w
  | .em c => cleanInlines c
  | .strong c => cleanInlines c
  | .code b => clean b
  | .link c d t => cleanInlines c && clean d && cleanOpt t
  | .image a d t => clean a && clean d && cleanOpt t
  | .autolink u => clean u
  | .br => true
  | .esc c => okCh c
def cleanInlines : List Inline → Bool
  | [] => true
  | x :: r => cleanInline x && cleanInlines r
end

mutual
def cleanBlock : Block → Bool
  | .para c => cleanInlines c
  | .atx _ c => cleanInlines c
  | .setext _ c => cleanInlines c
  | .rule => true
  | .code ls => cleanLines ls
  | .quote bs => cleanBlocks bs
  | .ulist _ items => cleanItems items
  | .olist _ items => cleanItems items
def cleanBlocks : List Block → Bool
  | [] => true
  | b :: r => cleanBlock b && cleanBlocks r
def cleanItems : List (List Block) → Bool
  | [] => true
  | i :: r => cleanBlocks i && cleanItems r
end

@[simp] theorem clean_nil : clean [] = true := rfl
@[simp] theorem clean_cons (c : Char) (s : Str) : clean (c :: s) = (okCh c && clean s) := rfl
@[simp] theorem clean_append (a b : Str) : clean (a ++ b) = (clean a && clean b) := by simp [clean]
theorem clean_rep (n : Nat) (c : Char) (h : okCh c = true) : clean (rep n c) = true := by
  simp [clean, rep, h]
@[simp] theorem cleanLines_nil : cleanLines [] = true := rfl
@[simp] theorem cleanLines_cons (l : Str) (ls : List Str) : cleanLines (l :: ls) = (clean l && cleanLines ls) := rfl
@[simp] theorem cleanLines_append (a b : List Str) : cleanLines (a ++ b) = (cleanLines a && cleanLines b) := by
  simp [cleanLines]

theorem okCh_digit : ∀ k, k < 10 → okCh (Char.ofNat (48 + k)) = true := by decide

theorem clean_natToDecAux : ∀ (f n : Nat) (acc : Str), clean acc = true → clean (natToDecAux f n acc) = true
  | 0, _, _, h => h
  | f + 1, n, acc, h => by
    have hd : okCh (digitChar n) = true := okCh_digit (n % 10) (Nat.mod_lt _ (by decide))
    simp only [natToDecAux]
    split
    · simp [hd, h]
    · exact clean_natToDecAux f (n / 10) _ (by simp [hd, h])

theorem clean_natToDec (n : Nat) : clean (natToDec n) = true := clean_natToDecAux _ _ _ rfl

/-- the definitions collected so far are clean -/
def stClean (st : PSt) : Bool := cleanLines st.defs

theorem draw_clean (st : PSt) : stClean (draw st).2 = stClean st := by
  unfold draw; split <;> rfl

theorem clean_quoteTitle (k : Nat) (t : Str) (h : clean t = true) : clean (quoteTitle k t) = true := by
  unfold quoteTitle; split
  · simp [h, okCh]
  · split <;> simp [h, okCh]

@[simp] theorem clean_lit_lp : clean (S "(") = true := by decide
@[simp] theorem clean_lit_rp : clean (S ")") = true := by decide
@[simp] theorem clean_lit_lb : clean (S "[") = true := by decide
@[simp] theorem clean_lit_rb : clean (S "]") = true := by decide
@[simp] theorem clean_lit_def : clean (S "]: ") = true := by decide
@[simp] theorem clean_lit_r : clean (S "r-") = true := by decide
@[simp] theorem clean_lit_bb : clean (S "[]") = true := by decide
@[simp] theorem clean_lit_br : clean (S "  \n") = true := by decide
@[simp] theorem clean_lit_h : clean (S " #") = true := by decide
@[simp] theorem clean_lit_dot : clean (S ". ") = true := by decide

theorem clean_inlineTail (a : Bool) (d : Str) (t : Option Str) (q : Nat) (hd : clean d = true)
    (ht : cleanOpt t = true) : clean (inlineTail a d t q) = true := by
  unfold inlineTail
  cases t with
  | none => cases a <;> simp [hd, okCh]
  | some t =>
    have := clean_quoteTitle (q % 2) t ht
    cases a <;> simp [hd, okCh, this]

theorem clean_defLine (id : Str) (a : Bool) (d : Str) (t : Option Str) (q : Nat) (hi : clean id = true)
    (hd : clean d = true) (ht : cleanOpt t = true) : clean (defLine id a d t q) = true := by
  unfold defLine
  cases t with
  | none => cases a <;> simp [hd, hi, okCh]
  | some t =>
    have := clean_quoteTitle (q % 3) t ht
    cases a <;> simp [hd, hi, okCh, this]

theorem linkTailOf_clean (style q : Nat) (label : Option Str) (d : Str) (t : Option Str) (st : PSt)
    (hl : cleanOpt label = true) (hd : clean d = true) (ht : cleanOpt t = true) (hs : stClean st = true) :
    clean (linkTailOf style q label d t st).1 = true ∧ stClean (linkTailOf style q label d t st).2 = true := by
  have hid : clean (S "r-" ++ natToDec st.next) = true := by simp [clean_natToDec]
  have hlab : clean (label.getD []) = true := by
    cases label with
    | none => rfl
    | some l => exact hl
  unfold linkTailOf
  split
  · exact ⟨clean_inlineTail _ _ _ _ hd ht, hs⟩
  · split
    · exact ⟨clean_inlineTail _ _ _ _ hd ht, hs⟩
    · split
      · refine ⟨by simp [clean_natToDec], ?_⟩
        simp only [stClean, cleanLines_append, cleanLines_cons, cleanLines_nil, Bool.and_true, Bool.and_eq_true]
        exact ⟨hs, clean_defLine _ _ _ _ _ hid hd ht⟩
      · refine ⟨by split <;> simp, ?_⟩
        simp only [stClean, cleanLines_append, cleanLines_cons, cleanLines_nil, Bool.and_true, Bool.and_eq_true]
        exact ⟨hs, clean_defLine _ _ _ _ _ hlab hd ht⟩

theorem linkTail_clean (label : Option Str) (safe : Bool) (d : Str) (t : Option Str) (st : PSt)
    (hl : cleanOpt label = true) (hd : clean d = true) (ht : cleanOpt t = true) (hs : stClean st = true) :
    clean (linkTail label safe d t st).1 = true ∧ stClean (linkTail label safe d t st).2 = true := by
  have h : stClean (draw (draw st).2).2 = true := by rw [draw_clean, draw_clean]; exact hs
  unfold linkTail
  exact linkTailOf_clean _ _ _ _ _ _ hl hd ht h

theorem okCh_chooseDelim (pd : Option Char) (k : Nat) (a b : Bool) : okCh (chooseDelim pd k a b) = true := by
  unfold chooseDelim
  cases pd with
  | none => simp only; split <;> decide
  | some p => simp only [otherDelim]; split <;> decide

theorem clean_codePad (b : Str) : clean (codePad b) = true := by
  unfold codePad; split <;> decide

theorem cleanOpt_plainLabel (c : List Inline) (h : cleanInlines c = true) : cleanOpt (plainLabel c) = true := by
  unfold plainLabel
  split
  · simpa [cleanInlines, cleanInline, cleanOpt] using h
  · rfl

mutual
theorem printInline_clean : ∀ (x : Inline) (pd : Option Char) (prevB nextB safe : Bool) (st : PSt),
    cleanInline x = true → stClean st = true →
    clean (printInline pd prevB nextB safe x st).1 = true ∧ stClean (printInline pd prevB nextB safe x st).2 = true
  | .text w, pd, a, b, sf, st, hx, hs => by
    simp only [cleanInline] at hx
    simp only [printInline]; exact ⟨hx, hs⟩
  | .esc c, pd, a, b, sf, st, hx, hs => by
    simp only [cleanInline] at hx
    simp only [printInline]
    exact ⟨by show (okCh '\\' && (okCh c && true)) = true; rw [hx]; decide, hs⟩
  | .br, pd, a, b, sf, st, hx, hs => by
    simp only [printInline]; exact ⟨by simp, hs⟩
  | .autolink u, pd, a, b, sf, st, hx, hs => by
    simp only [cleanInline] at hx
    simp only [printInline]; exact ⟨by simp [hx, okCh], hs⟩
  | .code body, pd, a, b, sf, st, hx, hs => by
    simp only [cleanInline] at hx
    simp only [printInline]
    refine ⟨?_, by rw [draw_clean]; exact hs⟩
    simp [hx, clean_codePad, clean_rep, okCh]
  | .em c, pd, a, b, sf, st, hx, hs => by
    simp only [cleanInline] at hx
    have ih := printInlines_clean c (some (chooseDelim pd (draw st).1 a b))
      (chooseDelim pd (draw st).1 a b = '*') (chooseDelim pd (draw st).1 a b = '*') (draw st).2 hx
      (by rw [draw_clean]; exact hs)
    simp only [printInline]
    exact ⟨by simp [ih.1, okCh_chooseDelim], ih.2⟩
  | .strong c, pd, a, b, sf, st, hx, hs => by
    simp only [cleanInline] at hx
    have ih := printInlines_clean c (some (chooseDelim pd (draw st).1 a b))
      (chooseDelim pd (draw st).1 a b = '*') (chooseDelim pd (draw st).1 a b = '*') (draw st).2 hx
      (by rw [draw_clean]; exact hs)
    simp only [printInline]
    exact ⟨by simp [ih.1, okCh_chooseDelim], ih.2⟩
  | .link c d t, pd, a, b, sf, st, hx, hs => by
    simp only [cleanInline, Bool.and_eq_true] at hx
    have ih := printInlines_clean c none true true st hx.1.1 hs
    have ht := linkTail_clean (plainLabel c) sf d t (printInlines none true true c st).2
      (cleanOpt_plainLabel c hx.1.1) hx.1.2 hx.2 ih.2
    simp only [printInline]
    exact ⟨by simp [ih.1, ht.1, okCh], ht.2⟩
  | .image al d t, pd, a, b, sf, st, hx, hs => by
    simp only [cleanInline, Bool.and_eq_true] at hx
    have ht := linkTail_clean (some al) sf d t st hx.1.1 hx.1.2 hx.2 hs
    simp only [printInline]
    exact ⟨by simp [hx.1.1, ht.1, okCh], ht.2⟩
theorem printInlines_clean : ∀ (l : List Inline) (pd : Option Char) (prevB endB : Bool) (st : PSt),
    cleanInlines l = true → stClean st = true →
    clean (printInlines pd prevB endB l st).1 = true ∧ stClean (printInlines pd prevB endB l st).2 = true
  | [], pd, a, b, st, hl, hs => by
    simp only [printInlines]; exact ⟨rfl, hs⟩
  | x :: r, pd, a, b, st, hl, hs => by
    simp only [cleanInlines, Bool.and_eq_true] at hl
    simp only [printInlines]
    have h1 := printInline_clean x pd a (nextBoundary b r) (safeAfterRef r) st hl.1 hs
    have h2 := printInlines_clean r pd
      (afterBoundary a (printInline pd a (nextBoundary b r) (safeAfterRef r) x st).1) b
      (printInline pd a (nextBoundary b r) (safeAfterRef r) x st).2 hl.2 h1.2
    exact ⟨by simp [h1.1, h2.1], h2.2⟩
end

/-! ### lines -/

@[simp] theorem okCh_space : okCh ' ' = true := by decide

theorem cleanLines_splitC (ch : Char) : ∀ (s : Str), clean s = true → cleanLines (splitC ch s) = true
  | [], _ => rfl
  | c :: s, h => by
    simp only [clean_cons, Bool.and_eq_true] at h
    have ih := cleanLines_splitC ch s h.2
    simp only [splitC]
    cases hs : splitC ch s with
    | nil => rfl
    | cons p ps =>
      rw [hs] at ih
      simp only [cleanLines_cons, Bool.and_eq_true] at ih
      simp only
      split
      · simp [ih.1, ih.2]
      · simp [h.1, ih.1, ih.2]

theorem clean_join (sep : Str) (hsep : clean sep = true) : ∀ (ls : List Str), cleanLines ls = true →
    clean (join sep ls) = true
  | [], _ => rfl
  | [a], h => by simpa [join] using h
  | a :: b :: r, h => by
    simp only [cleanLines_cons, Bool.and_eq_true] at h
    have ih := clean_join sep hsep (b :: r) (by simp [h.2.1, h.2.2])
    simp [join, h.1, hsep, ih]

theorem cleanLines_prefixLines (p : Str) (hp : clean p = true) (ls : List Str) (h : cleanLines ls = true) :
    cleanLines (prefixLines p ls) = true := by
  induction ls with
  | nil => rfl
  | cons l ls ih =>
    simp only [cleanLines_cons, Bool.and_eq_true] at h
    simp only [prefixLines, List.map_cons, cleanLines_cons, Bool.and_eq_true]
    refine ⟨?_, ih h.2⟩
    split
    · rfl
    · simp [hp, h.1]

theorem cleanLines_quoteLines (ls : List Str) (h : cleanLines ls = true) : cleanLines (quoteLines ls) = true := by
  induction ls with
  | nil => rfl
  | cons l ls ih =>
    simp only [cleanLines_cons, Bool.and_eq_true] at h
    simp only [quoteLines, List.map_cons, cleanLines_cons, Bool.and_eq_true]
    refine ⟨?_, ih h.2⟩
    split
    · decide
    · simp [h.1, okCh]

theorem cleanLines_indentTop (top : Bool) (i : Nat) (ls : List Str) (h : cleanLines ls = true) :
    cleanLines (indentTop top i ls) = true := by
  unfold indentTop
  split
  · cases ls with
    | nil => rfl
    | cons l r =>
      simp only [cleanLines_cons, Bool.and_eq_true] at h
      simp [indentFirst, h.1, h.2, clean_rep, okCh]
  · exact h

theorem clean_rulePattern (ch : Char) (hc : okCh ch = true) (gap : Nat) : ∀ n, clean (rulePattern ch n gap) = true
  | 0 => rfl
  | 1 => by simp [rulePattern, hc]
  | n + 2 => by
    have ih := clean_rulePattern ch hc gap (n + 1)
    simp [rulePattern, hc, clean_rep, ih]

theorem okCh_ruleChar (k : Nat) : okCh (ruleChar k) = true := by
  unfold ruleChar; split
  · decide
  · split <;> decide

theorem okCh_markerChar (k : Nat) : okCh (markerChar k) = true := by
  unfold markerChar; split
  · decide
  · split <;> decide

theorem clean_ruleLine (top : Bool) (i ch n g t : Nat) : clean (ruleLine top i ch n g t) = true := by
  simp [ruleLine, clean_rep, okCh, clean_rulePattern _ (okCh_ruleChar ch)]

theorem clean_atxLine (l : Nat) (ls : List Str) (k : Nat) (h : cleanLines ls = true) :
    clean (atxLine l ls k) = true := by
  have hj := clean_join ['\n'] (by decide) ls h
  have hc : clean (atxClosing k l) = true := by
    unfold atxClosing; split
    · rfl
    · split
      · simp
      · simp [clean_rep, okCh]
  simp [atxLine, clean_rep, okCh, hj, hc]

theorem clean_setextUnderline (l k : Nat) : clean (setextUnderline l k) = true := by
  unfold setextUnderline
  split <;> exact clean_rep _ _ (by decide)

theorem clean_itemMarker (m : Option Char) (hm : ∀ c, m = some c → okCh c = true) (num : Nat) :
    clean (itemMarker m num) = true := by
  unfold itemMarker
  cases m with
  | none => simp [clean_natToDec]
  | some c => simp [hm c rfl]

theorem cleanLines_withMarker (m : Str) (hm : clean m = true) (f : List Str) (h : cleanLines f = true) :
    cleanLines (withMarker m f) = true := by
  cases f with
  | nil => simp [withMarker, hm]
  | cons l ls =>
    simp only [cleanLines_cons, Bool.and_eq_true] at h
    simp [withMarker, hm, h.1, h.2]

theorem printContent_clean (c : List Inline) (st : PSt) (hc : cleanInlines c = true) (hs : stClean st = true) :
    cleanLines (printContent c st).1 = true ∧ stClean (printContent c st).2 = true := by
  have h := printInlines_clean c none true true st hc hs
  unfold printContent
  exact ⟨cleanLines_splitC _ _ h.1, h.2⟩

/-! ### blocks -/

mutual
theorem printBlock_clean : ∀ (b : Block) (top : Bool) (st : PSt), cleanBlock b = true → stClean st = true →
    cleanLines (printBlock top b st).1 = true ∧ stClean (printBlock top b st).2 = true
  | .para c, top, st, hb, hs => by
    simp only [cleanBlock] at hb
    have h := printContent_clean c (draw st).2 hb (by rw [draw_clean]; exact hs)
    simp only [printBlock]
    exact ⟨cleanLines_indentTop _ _ _ h.1, h.2⟩
  | .atx l c, top, st, hb, hs => by
    simp only [cleanBlock] at hb
    have h := printContent_clean c (draw st).2 hb (by rw [draw_clean]; exact hs)
    simp only [printBlock]
    exact ⟨by simp [clean_atxLine _ _ _ h.1], h.2⟩
  | .setext l c, top, st, hb, hs => by
    simp only [cleanBlock] at hb
    have h := printContent_clean c (draw (draw st).2).2 hb (by rw [draw_clean, draw_clean]; exact hs)
    simp only [printBlock]
    exact ⟨by simp [cleanLines_indentTop _ _ _ h.1, clean_setextUnderline], h.2⟩
  | .rule, top, st, hb, hs => by
    simp only [printBlock]
    exact ⟨by simp [clean_ruleLine], by rw [draw_clean, draw_clean, draw_clean, draw_clean, draw_clean]; exact hs⟩
  | .code ls, top, st, hb, hs => by
    simp only [cleanBlock] at hb
    simp only [printBlock]
    exact ⟨cleanLines_prefixLines _ (clean_rep _ _ okCh_space) _ hb, hs⟩
  | .quote bs, top, st, hb, hs => by
    simp only [cleanBlock] at hb
    have h := printQuoted_clean bs ((draw (draw st).2).1 % 2 = 1) (draw (draw st).2).2 hb
      (by rw [draw_clean, draw_clean]; exact hs)
    simp only [printBlock]
    refine ⟨?_, h.2⟩
    split
    · exact cleanLines_prefixLines _ (clean_rep _ _ okCh_space) _ h.1
    · exact h.1
  | .ulist loose items, top, st, hb, hs => by
    simp only [cleanBlock] at hb
    simp only [printBlock]
    exact printItems_clean items loose (some (markerChar (draw st).1)) 0 0
      (by intro c hc; cases hc; exact okCh_markerChar _) (draw st).2 hb (by rw [draw_clean]; exact hs)
  | .olist loose items, top, st, hb, hs => by
    simp only [cleanBlock] at hb
    simp only [printBlock]
    exact printItems_clean items loose none _ _ (by intro c hc; cases hc) (draw (draw st).2).2 hb
      (by rw [draw_clean, draw_clean]; exact hs)
theorem printBlocks_clean : ∀ (l : List Block) (top : Bool) (st : PSt), cleanBlocks l = true → stClean st = true →
    cleanLines (printBlocks top l st).1 = true ∧ stClean (printBlocks top l st).2 = true
  | [], top, st, hl, hs => by simp only [printBlocks]; exact ⟨rfl, hs⟩
  | [b], top, st, hl, hs => by
    simp only [cleanBlocks, Bool.and_true] at hl
    simp only [printBlocks]
    exact printBlock_clean b top st hl hs
  | b :: b' :: r, top, st, hl, hs => by
    simp only [cleanBlocks, Bool.and_eq_true] at hl
    have h1 := printBlock_clean b top st hl.1 hs
    have h2 := printBlocks_clean (b' :: r) top (printBlock top b st).2 (by simp [cleanBlocks, hl.2.1, hl.2.2]) h1.2
    simp only [printBlocks]
    exact ⟨by simp [h1.1, h2.1], h2.2⟩
theorem printQuoted_clean : ∀ (l : List Block) (blank : Bool) (st : PSt), cleanBlocks l = true → stClean st = true →
    cleanLines (printQuoted blank l st).1 = true ∧ stClean (printQuoted blank l st).2 = true
  | [], blank, st, hl, hs => by simp only [printQuoted]; exact ⟨rfl, hs⟩
  | [b], blank, st, hl, hs => by
    simp only [cleanBlocks, Bool.and_true] at hl
    have h1 := printBlock_clean b false st hl hs
    simp only [printQuoted]
    exact ⟨cleanLines_quoteLines _ h1.1, h1.2⟩
  | b :: b' :: r, blank, st, hl, hs => by
    simp only [cleanBlocks, Bool.and_eq_true] at hl
    have h1 := printBlock_clean b false st hl.1 hs
    have h2 := printQuoted_clean (b' :: r) blank (printBlock false b st).2
      (by simp [cleanBlocks, hl.2.1, hl.2.2]) h1.2
    simp only [printQuoted]
    refine ⟨?_, h2.2⟩
    have hsep : clean (if blank = true then [] else ['>']) = true := by split <;> decide
    simp [cleanLines_quoteLines _ h1.1, h2.1, hsep]
theorem printRest_clean : ∀ (l : List Block) (loose : Bool) (st : PSt), cleanBlocks l = true → stClean st = true →
    cleanLines (printRest loose l st).1 = true ∧ stClean (printRest loose l st).2 = true
  | [], loose, st, hl, hs => by simp only [printRest]; exact ⟨rfl, hs⟩
  | b :: r, loose, st, hl, hs => by
    simp only [cleanBlocks, Bool.and_eq_true] at hl
    have h1 := printBlock_clean b false st hl.1 hs
    have h2 := printRest_clean r loose (printBlock false b st).2 hl.2 h1.2
    simp only [printRest]
    refine ⟨?_, h2.2⟩
    have hsep : cleanLines (if loose = true then [[]] else []) = true := by split <;> rfl
    simp [hsep, cleanLines_prefixLines _ (clean_rep _ _ okCh_space) _ h1.1, h2.1]
theorem printItem_clean : ∀ (l : List Block) (loose : Bool) (m : Str) (st : PSt), clean m = true →
    cleanBlocks l = true → stClean st = true →
    cleanLines (printItem loose m l st).1 = true ∧ stClean (printItem loose m l st).2 = true
  | [], loose, m, st, hm, hl, hs => by simp only [printItem]; exact ⟨by simp [hm], hs⟩
  | b :: bs, loose, m, st, hm, hl, hs => by
    simp only [cleanBlocks, Bool.and_eq_true] at hl
    have h1 := printBlock_clean b false st hl.1 hs
    have h2 := printRest_clean bs loose (printBlock false b st).2 hl.2 h1.2
    simp only [printItem]
    exact ⟨by simp [cleanLines_withMarker _ hm _ h1.1, h2.1], h2.2⟩
theorem printItems_clean : ∀ (items : List (List Block)) (loose : Bool) (marker : Option Char) (num step : Nat),
    (∀ c, marker = some c → okCh c = true) → ∀ (st : PSt), cleanItems items = true → stClean st = true →
    cleanLines (printItems loose marker num step items st).1 = true ∧
      stClean (printItems loose marker num step items st).2 = true
  | [], loose, marker, num, step, hm, st, hl, hs => by simp only [printItems]; exact ⟨rfl, hs⟩
  | item :: r, loose, marker, num, step, hm, st, hl, hs => by
    simp only [cleanItems, Bool.and_eq_true] at hl
    have h1 := printItem_clean item loose (itemMarker marker num) st (clean_itemMarker _ hm _) hl.1 hs
    have h2 := printItems_clean r loose marker (num + step) step hm
      (printItem loose (itemMarker marker num) item st).2 hl.2 h1.2
    simp only [printItems]
    refine ⟨?_, h2.2⟩
    simp only [cleanLines_append, h1.1, h2.1, Bool.true_and, Bool.and_true]
    split <;> rfl
end

/-- the printed source of a document whose strings are clean is clean -/
theorem print_clean (d : Doc) (sp : Spelling) (h : cleanBlocks d = true) : clean (print d sp) = true := by
  have hp := printBlocks_clean d true ⟨sp.choices, 1, []⟩ h rfl
  unfold print
  apply clean_join _ (by decide)
  simp only [cleanLines_append, Bool.and_eq_true]
  refine ⟨hp.1, ?_⟩
  split
  · rfl
  · simpa [stClean] using hp.2

/-! ### well-formed documents are clean -/

theorem okCh_of_printable (c : Char) (h : isPrintable c = true) : okCh c = true := by
  simp only [okCh, bne_iff_ne, Bool.and_eq_true, ne_eq]
  refine ⟨⟨⟨?_, ?_⟩, ?_⟩, ?_⟩ <;> (intro hc; subst hc; revert h; decide)

theorem okCh_of_alnumSp (c : Char) (h : isAlnumSp c = true) : okCh c = true := by
  simp only [okCh, bne_iff_ne, Bool.and_eq_true, ne_eq]
  refine ⟨⟨⟨?_, ?_⟩, ?_⟩, ?_⟩ <;> (intro hc; subst hc; revert h; decide)

theorem okCh_of_destChar (c : Char) (h : destChar c = true) : okCh c = true := by
  simp only [okCh, bne_iff_ne, Bool.and_eq_true, ne_eq]
  refine ⟨⟨⟨?_, ?_⟩, ?_⟩, ?_⟩ <;> (intro hc; subst hc; revert h; decide)

theorem clean_of_all (p : Char → Bool) (hp : ∀ c, p c = true → okCh c = true) (s : Str) (h : s.all p = true) :
    clean s = true := by
  simp only [clean, List.all_eq_true] at h ⊢
  exact fun c hc => hp c (h c hc)

theorem clean_of_wfWords (w : Str) (h : wfWords w = true) : clean w = true := by
  simp only [wfWords, Bool.and_eq_true] at h
  exact clean_of_all _ okCh_of_alnumSp _ h.1.2

theorem clean_of_wfLabel (w : Str) (h : wfLabel w = true) : clean w = true := by
  simp only [wfLabel, Bool.and_eq_true] at h
  exact clean_of_wfWords _ h.1.1

theorem cleanOpt_of_wfTitle (t : Option Str) (h : wfTitle t = true) : cleanOpt t = true := by
  cases t with
  | none => rfl
  | some t => exact clean_of_wfLabel t h

theorem clean_of_wfDest (d : Str) (h : wfDest d = true) : clean d = true := by
  simp only [wfDest, Bool.and_eq_true] at h
  exact clean_of_all _ okCh_of_destChar _ h.1.1.2

theorem clean_of_wfUrl (u : Str) (h : wfUrl u = true) : clean u = true := by
  simp only [wfUrl, Bool.and_eq_true] at h
  exact clean_of_all _ okCh_of_destChar _ h.1.2

theorem clean_of_wfCodeSpan (b : Str) (h : wfCodeSpan b = true) : clean b = true := by
  simp only [wfCodeSpan, Bool.and_eq_true] at h
  exact clean_of_all _ okCh_of_printable _ h.1.1.1.1.2

theorem okCh_of_escaped : ∀ c, Generated.escapedChars.contains c = true → okCh c = true := by
  intro c h
  have : ∀ e ∈ Generated.escapedChars, okCh e = true := by decide
  exact this c (by simpa using h)

theorem cleanLines_of_wfCodeLines (ls : List Str) (h : wfCodeLines ls = true) : cleanLines ls = true := by
  simp only [wfCodeLines, Bool.and_eq_true, List.all_eq_true] at h
  simp only [cleanLines, List.all_eq_true]
  intro l hl
  have := h.1.1 l hl
  simp only [wfCodeLine, Bool.and_eq_true] at this
  exact clean_of_all _ okCh_of_printable _ this.1.1

mutual
theorem clean_of_wfInline : ∀ (x : Inline) (inLink : Bool) (par : Par) (brOk : Bool),
    wfInline inLink par brOk x = true → cleanInline x = true
  | .text w, _, _, _, h => by simp only [wfInline] at h; simpa [cleanInline] using clean_of_wfWords w h
  | .em c, il, par, br, h => by
    simp only [wfInline, Bool.and_eq_true] at h
    simpa [cleanInline] using clean_of_wfInlineList c il _ br h.2
  | .strong c, il, par, br, h => by
    simp only [wfInline, Bool.and_eq_true] at h
    simpa [cleanInline] using clean_of_wfInlineList c il _ br h.2
  | .code b, _, _, _, h => by simp only [wfInline] at h; simpa [cleanInline] using clean_of_wfCodeSpan b h
  | .link c d t, il, par, br, h => by
    simp only [wfInline, Bool.and_eq_true] at h
    simp only [cleanInline, Bool.and_eq_true]
    exact ⟨⟨clean_of_wfInlineList c true .none br h.2, clean_of_wfDest d h.1.1.1.2⟩, cleanOpt_of_wfTitle t h.1.1.2⟩
  | .image a d t, _, _, _, h => by
    simp only [wfInline, Bool.and_eq_true] at h
    simp only [cleanInline, Bool.and_eq_true]
    exact ⟨⟨clean_of_wfLabel a h.1.1, clean_of_wfDest d h.1.2⟩, cleanOpt_of_wfTitle t h.2⟩
  | .autolink u, _, _, _, h => by
    simp only [wfInline, Bool.and_eq_true] at h
    simpa [cleanInline] using clean_of_wfUrl u h.2
  | .br, _, _, _, _ => rfl
  | .esc c, _, _, _, h => by simp only [wfInline] at h; simpa [cleanInline] using okCh_of_escaped c h
theorem clean_of_wfInlineList : ∀ (l : List Inline) (inLink : Bool) (par : Par) (brOk : Bool),
    wfInlineList inLink par brOk l = true → cleanInlines l = true
  | [], _, _, _, _ => rfl
  | x :: r, il, par, br, h => by
    simp only [wfInlineList, Bool.and_eq_true] at h
    simp only [cleanInlines, Bool.and_eq_true]
    exact ⟨clean_of_wfInline x il par br h.1, clean_of_wfInlineList r il par br h.2⟩
end

theorem clean_of_wfInlines (c : List Inline) (il : Bool) (par : Par) (br : Bool)
    (h : wfInlines il par br c = true) : cleanInlines c = true := by
  simp only [wfInlines, Bool.and_eq_true] at h
  exact clean_of_wfInlineList c il par br h.2

mutual
theorem clean_of_wfBlock : ∀ (b : Block) (mode : Option Bool), wfBlock mode b = true → cleanBlock b = true
  | .para c, _, h => by simp only [wfBlock] at h; simpa [cleanBlock] using clean_of_wfInlines c _ _ _ h
  | .atx l c, _, h => by
    simp only [wfBlock, Bool.and_eq_true] at h; simpa [cleanBlock] using clean_of_wfInlines c _ _ _ h.2
  | .setext l c, _, h => by
    simp only [wfBlock, Bool.and_eq_true] at h; simpa [cleanBlock] using clean_of_wfInlines c _ _ _ h.2
  | .rule, _, _ => rfl
  | .code ls, _, h => by
    simp only [wfBlock, Bool.and_eq_true] at h; simpa [cleanBlock] using cleanLines_of_wfCodeLines ls h.1
  | .quote bs, _, h => by
    simp only [wfBlock, Bool.and_eq_true] at h; simpa [cleanBlock] using clean_of_wfBlockList bs none h.2
  | .ulist loose items, _, h => by
    simp only [wfBlock, Bool.and_eq_true] at h; simpa [cleanBlock] using clean_of_wfItems items loose h.1.2
  | .olist loose items, _, h => by
    simp only [wfBlock, Bool.and_eq_true] at h; simpa [cleanBlock] using clean_of_wfItems items loose h.1.2
theorem clean_of_wfBlockList : ∀ (l : List Block) (mode : Option Bool), wfBlockList mode l = true →
    cleanBlocks l = true
  | [], _, _ => rfl
  | b :: r, mode, h => by
    simp only [wfBlockList, Bool.and_eq_true] at h
    simp only [cleanBlocks, Bool.and_eq_true]
    exact ⟨clean_of_wfBlock b mode h.1, clean_of_wfBlockList r mode h.2⟩
theorem clean_of_wfItems : ∀ (items : List (List Block)) (loose : Bool), wfItems loose items = true →
    cleanItems items = true
  | [], _, _ => rfl
  | [] :: r, loose, h => by simp [wfItems] at h
  | (b :: bs) :: r, loose, h => by
    simp only [wfItems, Bool.and_eq_true] at h
    simp only [cleanItems, cleanBlocks, Bool.and_eq_true]
    exact ⟨⟨clean_of_wfBlock b _ h.1.1.1.2, clean_of_wfBlockList bs _ h.1.1.2⟩, clean_of_wfItems r loose h.2⟩
end

theorem clean_of_WF (d : Doc) (h : WF d = true) : cleanBlocks d = true := by
  simp only [WF, Bool.and_eq_true] at h
  exact clean_of_wfBlockList d none h.1.2

end MdVerif.DocSpec
