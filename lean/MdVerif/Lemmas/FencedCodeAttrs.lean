/-
Helper lemmas for C16 (fenced_code): the `{attrs}` extension of the loop, inertness on texts without fences,
text before the first block.  Core Lean only.
-/
import MdVerif.Model.Ext.FencedCodeAttrs
import MdVerif.Lemmas.FencedCode

namespace MdVerif.Fenced
open Py Code

/-! ### `fencedRunA` extends `fencedRun` -/

theorem pre_code_open2 : "<pre".toList ++ "><code".toList = "<pre><code".toList := by decide

theorem blockHtmlA_plain (lang code : Str) : blockHtmlA [] [] lang code = blockHtml lang code := by
  unfold blockHtmlA blockHtml
  rw [← pre_code_open2]
  simp only [List.isEmpty_nil, if_true, List.append_nil, List.append_assoc]

theorem fencedLoopA_eq (fuel : Nat) (text : Str) (index : Nat) (stash : List Str)
    (h : fencedLoop fuel text index stash ≠ .ood) :
    fencedLoopA fuel text index stash = fencedLoop fuel text index stash := by
  induction fuel generalizing text index stash with
  | zero => rfl
  | succ k ih =>
    cases hm : fenceFindFrom text index with
    | none => simp only [fencedLoop, fencedLoopA, hm]
    | some m =>
      simp only [fencedLoop, hm] at h
      simp only [fencedLoop, fencedLoopA, hm]
      by_cases ha : (m.attrs.getD []).isEmpty = true
      · simp only [ha, Bool.not_true, Bool.false_eq_true, if_false, if_true, blockHtmlA_plain] at h ⊢
        exact ih _ _ _ h
      · simp [ha] at h

/-- with the `{attrs}` branch the loop still terminates within `text.length - index + 1` iterations: a block
    replaced, or an opening fence skipped, both move `index` forward -/
theorem fencedLoopA_stable (f1 f2 : Nat) (text : Str) (index : Nat) (stash : List Str)
    (h1 : text.length - index < f1) (h2 : text.length - index < f2) :
    fencedLoopA f1 text index stash = fencedLoopA f2 text index stash ∧
    fencedLoopA f1 text index stash ≠ .fuel ∧ fencedLoopA f1 text index stash ≠ .ood := by
  induction f1 generalizing f2 text index stash with
  | zero => omega
  | succ k ih =>
    cases f2 with
    | zero => omega
    | succ j =>
      simp only [fencedLoopA]
      split
      · simp
      · rename_i m hm
        have hb := fenceFindFrom_bounds _ _ _ hm
        have hlen : ∀ ph : Str, (text.take m.start ++ '\n' :: (ph ++ '\n' :: text.drop m.stop)).length -
            (m.start + 1 + ph.length) < k ∧
            (text.take m.start ++ '\n' :: (ph ++ '\n' :: text.drop m.stop)).length -
            (m.start + 1 + ph.length) < j := by
          intro ph
          simp only [List.length_append, List.length_cons, List.length_take, List.length_drop]
          omega
        split
        · exact ih _ _ _ _ (hlen _).1 (hlen _).2
        · split
          · apply ih
            · unfold attrsEnd; omega
            · unfold attrsEnd; omega
          · exact ih _ _ _ _ (hlen _).1 (hlen _).2

/-! ### no fence, no match -/

theorem fenceRun_lt_of_not_startsWith (s : Str)
    (h1 : startsWith s "```".toList = false) (h2 : startsWith s "~~~".toList = false) : fenceRun s < 3 := by
  unfold fenceRun
  split
  · rename_i r
    match r with
    | [] => simp [spanLen]
    | [a] => by_cases ha : a = '~' <;> simp [spanLen, ha]
    | a :: b :: r' =>
      simp only [spanLen]
      by_cases ha : a = '~'
      · by_cases hb : b = '~'
        · subst ha; subst hb; simp [startsWith] at h2
        · simp [ha, hb]
      · simp [ha]
  · rename_i r
    match r with
    | [] => simp [spanLen]
    | [a] => by_cases ha : a = '`' <;> simp [spanLen, ha]
    | a :: b :: r' =>
      simp only [spanLen]
      by_cases ha : a = '`'
      · by_cases hb : b = '`'
        · subst ha; subst hb; simp [startsWith] at h1
        · simp [ha, hb]
      · simp [ha]
  · omega

theorem fenceAt_none_of_not_startsWith (s : Str)
    (h1 : startsWith s "```".toList = false) (h2 : startsWith s "~~~".toList = false) : fenceAt s = none := by
  have := fenceRun_lt_of_not_startsWith s h1 h2
  unfold fenceAt
  simp only [this, if_true]

theorem find_none_cons (pat : Str) (c : Char) (s : Str) (h : find pat (c :: s) = none) :
    startsWith (c :: s) pat = false ∧ find pat s = none := by
  simp only [find] at h
  split at h
  · simp at h
  · rename_i hs
    exact ⟨by simpa using hs, by simpa using h⟩

theorem fenceScan_none_of_find (bol : Bool) (off : Nat) (s : Str)
    (h1 : find "```".toList s = none) (h2 : find "~~~".toList s = none) : fenceScan bol off s = none := by
  induction s generalizing bol off with
  | nil => rfl
  | cons c r ih =>
    have a1 := find_none_cons _ _ _ h1
    have a2 := find_none_cons _ _ _ h2
    have hat := fenceAt_none_of_not_startsWith (c :: r) a1.1 a2.1
    simp only [fenceScan, hat, ite_self]
    exact ih _ _ a1.2 a2.2

/-! ### no line starts with a fence, no match -/

theorem noFenceLine_eq (text : Str) : noFenceLine text = (lines text).all plainLine := rfl

/-- a prefix without line feed of the text is a prefix of its first line -/
theorem startsWith_firstLine (pat s p : Str) (ps : List Str) (hp : ∀ c ∈ pat, c ≠ '\n')
    (hl : splitC '\n' s = p :: ps) (h : startsWith s pat = true) : startsWith p pat = true := by
  induction pat generalizing s p ps with
  | nil => cases p <;> rfl
  | cons a pat ih =>
    cases s with
    | nil => simp [startsWith] at h
    | cons c r =>
      simp only [startsWith, Bool.and_eq_true, decide_eq_true_eq] at h
      have hc : c ≠ '\n' := by rw [h.1]; exact hp a (by simp)
      simp only [splitC] at hl
      cases hr : splitC '\n' r with
      | nil => exact absurd hr (splitC_ne_nil _ _)
      | cons q qs =>
        rw [hr] at hl
        simp only [hc, if_false, List.cons.injEq] at hl
        rw [← hl.1]
        simp only [startsWith, h.1, decide_true, Bool.true_and]
        exact ih r q qs (fun x hx => hp x (by simp [hx])) hr h.2

theorem fenceAt_none_of_plainLine (s p : Str) (ps : List Str) (hl : splitC '\n' s = p :: ps)
    (hp : plainLine p = true) : fenceAt s = none := by
  simp only [plainLine, Bool.and_eq_true, Bool.not_eq_true'] at hp
  apply fenceAt_none_of_not_startsWith
  · cases h : startsWith s "```".toList with
    | false => rfl
    | true =>
      have := startsWith_firstLine _ s p ps (by decide) hl h
      rw [this] at hp; simp at hp
  · cases h : startsWith s "~~~".toList with
    | false => rfl
    | true =>
      have := startsWith_firstLine _ s p ps (by decide) hl h
      rw [this] at hp; simp at hp

/-- scanning a text all of whose lines (all but the first when the scan starts inside a line) are plain -/
theorem fenceScan_none_of_lines (bol : Bool) (off : Nat) (s : Str)
    (h : ((lines s).drop (if bol then 0 else 1)).all plainLine = true) : fenceScan bol off s = none := by
  induction s generalizing bol off with
  | nil => rfl
  | cons c r ih =>
    cases hr : splitC '\n' r with
    | nil => exact absurd hr (splitC_ne_nil _ _)
    | cons q qs =>
      have hl : lines (c :: r) = if c = '\n' then [] :: q :: qs else (c :: q) :: qs := by
        simp only [lines, splitC, hr]
      have hat : (if bol = true then fenceAt (c :: r) else none) = none := by
        cases bol with
        | false => rfl
        | true =>
          simp only [if_true]
          rw [hl] at h
          by_cases hc : c = '\n'
          · subst hc
            apply fenceAt_none_of_not_startsWith <;> simp [startsWith]
          · simp only [hc, if_false, if_true, List.drop_zero, List.all_cons, Bool.and_eq_true] at h
            exact fenceAt_none_of_plainLine (c :: r) (c :: q) qs (by simp [splitC, hr, hc]) h.1
      simp only [fenceScan, hat]
      apply ih
      rw [hl] at h
      by_cases hc : c = '\n'
      · rw [if_pos hc] at h
        simp only [hc, decide_true, if_true, List.drop_zero, lines, hr]
        cases bol with
        | false => simpa using h
        | true =>
          simp only [if_true, List.drop_zero, List.all_cons, Bool.and_eq_true] at h
          simpa using h.2
      · rw [if_neg hc] at h
        simp only [hc, decide_false, Bool.false_eq_true, if_false, lines, hr, List.drop_succ_cons, List.drop_zero]
        cases bol with
        | false => simpa using h
        | true =>
          simp only [if_true, List.drop_zero, List.all_cons, Bool.and_eq_true] at h
          exact h.2

/-! ### text before the first block is copied -/

/-- a match moved `k` characters to the right -/
def shift (k : Nat) (m : FenceMatch) : FenceMatch := { m with start := k + m.start, stop := k + m.stop }

/-- the result with `pre` put back in front of the text -/
def prepend (pre : Str) : RunResult → RunResult
  | .ok t s => .ok (pre ++ t) s
  | r => r

theorem fenceScan_shift (k : Nat) (bol : Bool) (off : Nat) (s : Str) :
    fenceScan bol (k + off) s = (fenceScan bol off s).map (shift k) := by
  induction s generalizing bol off with
  | nil => rfl
  | cons c r ih =>
    simp only [fenceScan]
    split
    · simp [shift, Nat.add_assoc]
    · rw [Nat.add_assoc, ih]

theorem plain_step (bol : Bool) (c : Char) (r : Str)
    (h : ((lines (c :: r)).drop (if bol then 0 else 1)).all plainLine = true) :
    ((lines r).drop (if (decide (c = '\n')) then 0 else 1)).all plainLine = true := by
  cases hr : splitC '\n' r with
  | nil => exact absurd hr (splitC_ne_nil _ _)
  | cons q qs =>
    have hl : lines (c :: r) = if c = '\n' then [] :: q :: qs else (c :: q) :: qs := by
      simp only [lines, splitC, hr]
    rw [hl] at h
    by_cases hc : c = '\n'
    · rw [if_pos hc] at h
      simp only [hc, decide_true, if_true, List.drop_zero, lines, hr]
      cases bol with
      | false => simpa using h
      | true =>
        simp only [if_true, List.drop_zero, List.all_cons, Bool.and_eq_true] at h
        simpa using h.2
    · rw [if_neg hc] at h
      simp only [hc, decide_false, Bool.false_eq_true, if_false, lines, hr, List.drop_succ_cons, List.drop_zero]
      cases bol with
      | false => simpa using h
      | true =>
        simp only [if_true, List.drop_zero, List.all_cons, Bool.and_eq_true] at h
        exact h.2

/-- scanning through plain lines that end with a line feed arrives at the rest, at a line start -/
theorem fenceScan_through (bol : Bool) (off : Nat) (q rest : Str)
    (h : ((lines q).drop (if bol then 0 else 1)).all plainLine = true) :
    fenceScan bol off (q ++ '\n' :: rest) = fenceScan true (off + q.length + 1) rest := by
  induction q generalizing bol off with
  | nil =>
    have hat : fenceAt ('\n' :: rest) = none := by
      apply fenceAt_none_of_not_startsWith <;> simp [startsWith]
    simp [fenceScan, hat]
  | cons c r ih =>
    have hat : (if bol = true then fenceAt (c :: r ++ '\n' :: rest) else none) = none := by
      cases bol with
      | false => rfl
      | true =>
        simp only [if_true]
        cases hs : splitC '\n' (c :: r) with
        | nil => exact absurd hs (splitC_ne_nil _ _)
        | cons p ps =>
          have hl : splitC '\n' (c :: r ++ '\n' :: rest) = p :: (ps ++ splitC '\n' rest) := by
            rw [splitC_append, hs]; rfl
          apply fenceAt_none_of_plainLine _ p _ hl
          simp only [lines, hs, if_true, List.drop_zero, List.all_cons, Bool.and_eq_true] at h
          exact h.1
    simp only [List.cons_append, fenceScan]
    simp only [List.cons_append] at hat
    rw [hat]
    simp only
    rw [ih _ _ (plain_step bol c r h)]
    simp only [List.length_cons]
    congr 1; omega

theorem take_prefix (pre t : Str) (k : Nat) : (pre ++ t).take (pre.length + k) = pre ++ t.take k := by
  induction pre with
  | nil => simp
  | cons c r ih =>
    rw [show (c :: r).length + k = (r.length + k) + 1 from by simp; omega]
    simp [ih]

theorem drop_prefix (pre t : Str) (k : Nat) : (pre ++ t).drop (pre.length + k) = t.drop k := by
  induction pre with
  | nil => simp
  | cons c r ih =>
    rw [show (c :: r).length + k = (r.length + k) + 1 from by simp; omega]
    simp [ih]

/-- `pre` is empty or a run of complete lines none of which starts with a fence -/
def plainPrefix (pre : Str) : Prop := pre = [] ∨ ∃ q, pre = q ++ ['\n'] ∧ noFenceLine q = true

theorem fenceFindFrom_prefix0 (pre t : Str) (hp : plainPrefix pre) :
    fenceFindFrom (pre ++ t) 0 = (fenceFindFrom t 0).map (shift pre.length) := by
  rcases hp with rfl | ⟨q, rfl, hq⟩
  · simp only [List.nil_append, List.length_nil]
    cases fenceFindFrom t 0 <;> simp [shift]
  · have h := fenceScan_through true 0 q t (by simpa [noFenceLine_eq] using hq)
    have hb : ∀ l : Str, (decide (0 = 0) || decide (l[0 - 1]? = some '\n')) = true := by intro l; simp
    unfold fenceFindFrom
    rw [hb, hb, List.drop_zero, List.drop_zero, List.append_assoc]
    simp only [List.singleton_append, List.length_append, List.length_cons, List.length_nil, Nat.zero_add] at h ⊢
    rw [h, ← fenceScan_shift]

theorem fenceFindFrom_prefix (pre t : Str) (i : Nat) (hi : 1 ≤ i) :
    fenceFindFrom (pre ++ t) (pre.length + i) = (fenceFindFrom t i).map (shift pre.length) := by
  unfold fenceFindFrom
  have e1 : (pre ++ t).drop (pre.length + i) = t.drop i := drop_prefix pre t i
  have e2 : (pre ++ t)[pre.length + i - 1]? = t[i - 1]? := by
    rw [List.getElem?_append_right (by omega)]
    congr 1; omega
  have e3 : (decide (pre.length + i = 0)) = decide (i = 0) := by
    have : pre.length + i ≠ 0 := by omega
    have : i ≠ 0 := by omega
    simp [*]
  rw [e1, e2, e3, fenceScan_shift]

theorem attrsEnd_shift (pre t : Str) (m : FenceMatch) (a : Str) :
    attrsEnd (pre ++ t) (shift pre.length m) a = pre.length + attrsEnd t m a := by
  unfold attrsEnd shift
  simp only
  rw [Nat.add_assoc pre.length m.start, drop_prefix]
  omega

theorem attrsEnd_ge (t : Str) (m : FenceMatch) (a : Str) : 1 ≤ attrsEnd t m a := by
  unfold attrsEnd; omega

theorem fencedLoopA_prefix (pre : Str) (hp : plainPrefix pre) (fuel : Nat) (t : Str) (j i : Nat) (st : List Str)
    (hji : (j = pre.length + i ∧ 1 ≤ i) ∨ (j = 0 ∧ i = 0)) :
    fencedLoopA fuel (pre ++ t) j st = prepend pre (fencedLoopA fuel t i st) := by
  induction fuel generalizing t j i st with
  | zero => rfl
  | succ k ih =>
    have hfind : fenceFindFrom (pre ++ t) j = (fenceFindFrom t i).map (shift pre.length) := by
      rcases hji with ⟨rfl, hi⟩ | ⟨rfl, rfl⟩
      · exact fenceFindFrom_prefix pre t i hi
      · exact fenceFindFrom_prefix0 pre t hp
    simp only [fencedLoopA, hfind]
    cases fenceFindFrom t i with
    | none => rfl
    | some m =>
      have htext : ∀ ph : Str, (pre ++ t).take (pre.length + m.start) ++ '\n' :: (ph ++ '\n' ::
          (pre ++ t).drop (pre.length + m.stop)) = pre ++ (t.take m.start ++ '\n' :: (ph ++ '\n' :: t.drop m.stop)) := by
        intro ph
        rw [take_prefix, drop_prefix, List.append_assoc]
      have hidx : ∀ n : Nat, (pre.length + m.start + 1 + n = pre.length + (m.start + 1 + n) ∧ 1 ≤ m.start + 1 + n) ∨
          (pre.length + m.start + 1 + n = 0 ∧ m.start + 1 + n = 0) := fun n => Or.inl ⟨by omega, by omega⟩
      simp only [Option.map_some, shift, htext]
      split
      · exact ih _ _ _ _ (hidx _)
      · split
        · have := attrsEnd_shift pre t m (m.attrs.getD [])
          simp only [shift] at this
          rw [this]
          exact ih _ _ _ _ (Or.inl ⟨rfl, attrsEnd_ge _ _ _⟩)
        · exact ih _ _ _ _ (hidx _)

theorem fencedLoop_prefix (pre : Str) (hp : plainPrefix pre) (fuel : Nat) (t : Str) (j i : Nat) (st : List Str)
    (hji : (j = pre.length + i ∧ 1 ≤ i) ∨ (j = 0 ∧ i = 0)) :
    fencedLoop fuel (pre ++ t) j st = prepend pre (fencedLoop fuel t i st) := by
  induction fuel generalizing t j i st with
  | zero => rfl
  | succ k ih =>
    have hfind : fenceFindFrom (pre ++ t) j = (fenceFindFrom t i).map (shift pre.length) := by
      rcases hji with ⟨rfl, hi⟩ | ⟨rfl, rfl⟩
      · exact fenceFindFrom_prefix pre t i hi
      · exact fenceFindFrom_prefix0 pre t hp
    simp only [fencedLoop, hfind]
    cases fenceFindFrom t i with
    | none => rfl
    | some m =>
      have htext : ∀ ph : Str, (pre ++ t).take (pre.length + m.start) ++ '\n' :: (ph ++ '\n' ::
          (pre ++ t).drop (pre.length + m.stop)) = pre ++ (t.take m.start ++ '\n' :: (ph ++ '\n' :: t.drop m.stop)) := by
        intro ph
        rw [take_prefix, drop_prefix, List.append_assoc]
      have hidx : ∀ n : Nat, (pre.length + m.start + 1 + n = pre.length + (m.start + 1 + n) ∧ 1 ≤ m.start + 1 + n) ∨
          (pre.length + m.start + 1 + n = 0 ∧ m.start + 1 + n = 0) := fun n => Or.inl ⟨by omega, by omega⟩
      simp only [Option.map_some, shift, htext]
      split
      · rfl
      · exact ih _ _ _ _ (hidx _)

theorem fencedRunA_prefix (pre t : Str) (hp : plainPrefix pre) :
    fencedRunA (pre ++ t) = prepend pre (fencedRunA t) := by
  unfold fencedRunA
  rw [fencedLoopA_prefix pre hp _ t 0 0 [] (Or.inr ⟨rfl, rfl⟩)]
  rw [(fencedLoopA_stable ((pre ++ t).length + 1) (t.length + 1) t 0 [] (by simp; omega) (by omega)).1]

theorem fencedRun_prefix (pre t : Str) (hp : plainPrefix pre) :
    fencedRun (pre ++ t) = prepend pre (fencedRun t) := by
  unfold fencedRun
  rw [fencedLoop_prefix pre hp _ t 0 0 [] (Or.inr ⟨rfl, rfl⟩)]
  rw [(fencedLoop_stable ((pre ++ t).length + 1) (t.length + 1) t 0 [] (by simp; omega) (by omega)).1]

end MdVerif.Fenced
