/-
C05 on the extension pipeline, removal of the residual hypothesis `hamp` of `C05X_partial`, part 3: the tree processors
between the inline stage and the serializer.

* `AbbrTreeprocessor` (`AbbrTree.run`) cuts a text or tail at the occurrences of the abbreviations: a piece may END
  with a dangling STX (an abbreviation can match right behind an STX: the key `klzzwxh`, or the number of an escape
  token — F-C10-6), so "every STX is followed by `k`, `w` or two digits" (`AmpFull.NodeS`) is NOT kept by it; the
  truncation-closed form (`NodeSA`: `AmpFull.SOkA` of text, tail and attribute values) is, because every piece and
  every key is an infix of the string that was cut (`segs_shape`), and the titles come from the abbreviation table;
* `UnescapeTreeprocessor` from `NodeSA`: `unescapeTree_QA` (`AmpFull.unescapeText_SQ` only needs `SOkA`): afterwards
  no STX is followed by `a` (`AmpFull.NodeQ`).  The pieces of a cut text are separated by `<abbr …>` in the
  serialisation, and `<` is not `a` (`Lemmas/VocabXWFAmpSer.lean`).

Core Lean only.
-/
import MdVerif.Lemmas.VocabXWFAmpRun
import MdVerif.Lemmas.VocabXWFAmpGTree
import MdVerif.Lemmas.PlaceholdersXPost

set_option autoImplicit false

namespace MdVerif.VocabXAmp
open Py G

/-- texts, tails and attribute values are complete up to truncation -/
def NodeSA (n : Node) : Prop :=
  SOkA (n.text.getD []) = true ∧ SOkA (n.tail.getD []) = true ∧ ∀ kv ∈ n.attrs, SOkA kv.2 = true

theorem nodeSA_of_S {n : Node} (h : NodeS n) : NodeSA n := ⟨SOkA_of_SOk h.1, SOkA_of_SOk h.2.1, h.2.2⟩

theorem forallSA_of_S {t : Node} (h : t.Forall NodeS) : t.Forall NodeSA :=
  Node.Forall.mono (fun _ hn => nodeSA_of_S hn) t h

/-! ### `AbbrTreeprocessor` -/

theorem abbrAt_prefix {keys : List Str} {prev : Option Char} {suf key : Str}
    (h : AbbrTree.abbrAt keys prev suf = some key) : key <+: suf := by
  unfold AbbrTree.abbrAt at h
  split at h
  · have := List.find?_some h
    simp only [Bool.and_eq_true] at this
    exact startsWith_iff_isPrefix.1 this.1.2
  · cases h

/-- the first piece is a prefix of what is left after the skipped characters; every key and every later piece is an
    infix of the string -/
theorem segs_shape (keys : List Str) : ∀ (s : Str) (prev : Option Char) (k : Nat),
    (AbbrTree.segs keys prev k s).1 <+: s.drop k ∧
      ∀ m ∈ (AbbrTree.segs keys prev k s).2, m.1 <:+: s ∧ m.2 <:+: s := by
  intro s
  induction s with
  | nil => intro prev k; simp [AbbrTree.segs]
  | cons c r ih =>
    intro prev k
    cases k with
    | succ k =>
      simp only [AbbrTree.segs, List.drop_succ_cons]
      obtain ⟨i1, i2⟩ := ih (some c) k
      refine ⟨i1, fun m hm => ?_⟩
      obtain ⟨a, b⟩ := i2 m hm
      exact ⟨a.trans (List.suffix_cons c r).isInfix, b.trans (List.suffix_cons c r).isInfix⟩
    | zero =>
      simp only [AbbrTree.segs, List.drop_zero]
      split
      · rename_i key hk
        simp only
        obtain ⟨i1, i2⟩ := ih (some c) (key.length - 1)
        refine ⟨List.nil_prefix, fun m hm => ?_⟩
        rcases List.mem_cons.1 hm with rfl | hm
        · refine ⟨(abbrAt_prefix hk).isInfix, ?_⟩
          exact (i1.isInfix.trans (List.drop_suffix _ _).isInfix).trans (List.suffix_cons c r).isInfix
        · obtain ⟨a, b⟩ := i2 m hm
          exact ⟨a.trans (List.suffix_cons c r).isInfix, b.trans (List.suffix_cons c r).isInfix⟩
      · simp only
        obtain ⟨i1, i2⟩ := ih (some c) 0
        refine ⟨?_, fun m hm => ?_⟩
        · rw [List.drop_zero] at i1
          exact List.cons_prefix_cons.2 ⟨rfl, i1⟩
        · obtain ⟨a, b⟩ := i2 m hm
          exact ⟨a.trans (List.suffix_cons c r).isInfix, b.trans (List.suffix_cons c r).isInfix⟩

theorem mkAbbr_SA {abbrs : List (Str × Str)} (ha : ∀ kv ∈ abbrs, SOkA kv.2 = true) {m : Str × Str}
    (h1 : SOkA m.1 = true) (h2 : SOkA m.2 = true) : (AbbrTree.mkAbbr abbrs m).Forall NodeSA := by
  rw [Node.forall_iff]
  refine ⟨⟨h1, h2, ?_⟩, ?_⟩
  · intro kv hkv
    simp only [AbbrTree.mkAbbr, List.mem_singleton] at hkv
    subst hkv
    show SOkA (((abbrs.find? (fun kv => kv.1 = m.1)).map (·.2)).getD []) = true
    cases hf : abbrs.find? (fun kv => kv.1 = m.1) with
    | none => rfl
    | some kv => exact ha kv (List.mem_of_find?_eq_some hf)
  · intro c hc
    simp [AbbrTree.mkAbbr] at hc

theorem abbrSlot_SA {abbrs : List (Str × Str)} (ha : ∀ kv ∈ abbrs, SOkA kv.2 = true) (keys : List Str)
    (active : Bool) (t : Option Str) (a : Bool) (ht : SOkA (t.getD []) = true) :
    SOkA ((NoCtlX.abbrSlot abbrs keys active t a).1.1.getD []) = true ∧
      Node.ForallL NodeSA (NoCtlX.abbrSlot abbrs keys active t a).2 := by
  unfold NoCtlX.abbrSlot
  split
  · simp only
    split
    · exact ⟨ht, by simp [Node.ForallL]⟩
    · obtain ⟨i1, i2⟩ := segs_shape keys (t.getD []) none 0
      refine ⟨SOkA_infix ht i1.isInfix, ?_⟩
      rw [Node.forallL_iff]
      intro c hc
      obtain ⟨m, hm, rfl⟩ := List.mem_map.1 hc
      exact mkAbbr_SA ha (SOkA_infix ht (i2 m hm).1) (SOkA_infix ht (i2 m hm).2)
  · exact ⟨ht, by simp [Node.ForallL]⟩

mutual
theorem abbrNode_SA {abbrs : List (Str × Str)} (ha : ∀ kv ∈ abbrs, SOkA kv.2 = true) (keys : List Str)
    (isRoot : Bool) : ∀ (n : Node), n.Forall NodeSA →
    (AbbrTree.abbrNode abbrs keys isRoot n).1.Forall NodeSA ∧
      Node.ForallL NodeSA (AbbrTree.abbrNode abbrs keys isRoot n).2
  | ⟨tag, attrs, text, ta, children, tail, tla⟩, h => by
    simp only [Node.Forall] at h
    obtain ⟨⟨h1, h2, h3⟩, hkids⟩ := h
    rw [NoCtlX.abbrNode_eq]
    obtain ⟨t1, t2⟩ := abbrSlot_SA ha keys true text ta h1
    obtain ⟨l1, l2⟩ := abbrSlot_SA ha keys (!isRoot) tail tla h2
    refine ⟨?_, l2⟩
    rw [Node.forall_def]
    exact ⟨⟨t1, l1, h3⟩, NoCtlX.forallL_append t2 (abbrKids_SA ha keys children hkids)⟩
theorem abbrKids_SA {abbrs : List (Str × Str)} (ha : ∀ kv ∈ abbrs, SOkA kv.2 = true) (keys : List Str) :
    ∀ (l : List Node), Node.ForallL NodeSA l → Node.ForallL NodeSA (AbbrTree.abbrKids abbrs keys l)
  | [], _ => by simp [AbbrTree.abbrKids, Node.ForallL]
  | c :: r, h => by
    simp only [Node.ForallL] at h
    rw [AbbrTree.abbrKids]
    obtain ⟨c1, c2⟩ := abbrNode_SA ha keys false c h.1
    have : Node.ForallL NodeSA ((AbbrTree.abbrNode abbrs keys false c).1 ::
        ((AbbrTree.abbrNode abbrs keys false c).2 ++ AbbrTree.abbrKids abbrs keys r)) := by
      simp only [Node.ForallL]
      exact ⟨c1, NoCtlX.forallL_append c2 (abbrKids_SA ha keys r h.2)⟩
    exact this
end

/-- **`AbbrTreeprocessor.run` keeps the truncation-closed invariant**, whatever the keys are; the titles hold no
    incomplete STX (they come from the block parser's log) -/
theorem abbr_run_SA {abbrs : List (Str × Str)} (ha : ∀ kv ∈ abbrs, SOkA kv.2 = true) {t : Node}
    (h : t.Forall NodeSA) : (AbbrTree.run abbrs t).Forall NodeSA := by
  unfold AbbrTree.run
  split
  · exact h
  · exact (abbrNode_SA ha _ true t h).1

/-! ### `UnescapeTreeprocessor` from the truncation-closed invariant -/

mutual
theorem unescapeTree_QA : (n u : Node) → TreeProc.unescapeTree n = some u → n.Forall NodeSA → u.Forall NodeQ
  | ⟨tag, attrs, text, ta, children, tail, tla⟩, u, hu, h => by
    simp only [Node.Forall] at h
    obtain ⟨⟨h1, h2, h3⟩, hk⟩ := h
    simp only at h1 h2 h3
    simp only [TreeProc.unescapeTree] at hu
    split at hu
    · rename_i t tl a ks e1 e2 e3 e4
      simp only [Option.some.injEq] at hu; subst hu
      simp only [Node.Forall]
      refine ⟨⟨?_, ?_, unescAttrs_SQ _ _ h3 e3⟩, unescapeKids_QA children ks e4 hk⟩
      · simp only
        split at e1
        · simp only [Option.map_eq_some_iff] at e1
          obtain ⟨r, hr, rfl⟩ := e1
          exact unescapeText_SQ h1 hr
        · simp only [Option.some.injEq] at e1; subst e1
          exact SQ_of_SOkA h1
      · simp only
        split at e2
        · simp only [Option.map_eq_some_iff] at e2
          obtain ⟨r, hr, rfl⟩ := e2
          exact unescapeText_SQ h2 hr
        · simp only [Option.some.injEq] at e2; subst e2
          exact SQ_of_SOkA h2
    · cases hu
theorem unescapeKids_QA : (l l' : List Node) → TreeProc.unescapeKids l = some l' → Node.ForallL NodeSA l →
    Node.ForallL NodeQ l'
  | [], l', hu, _ => by
    simp only [TreeProc.unescapeKids, Option.some.injEq] at hu; subst hu; simp [Node.ForallL]
  | c :: r, l', hu, h => by
    simp only [Node.ForallL] at h
    simp only [TreeProc.unescapeKids] at hu
    split at hu
    · rename_i c' r' e1 e2
      simp only [Option.some.injEq] at hu; subst hu
      simp only [Node.ForallL]
      exact ⟨unescapeTree_QA c c' e1 h.1, unescapeKids_QA r r' e2 h.2⟩
    · cases hu
end

end MdVerif.VocabXAmp
