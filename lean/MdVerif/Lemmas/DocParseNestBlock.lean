/-
Helper lemmas for C01 on nested documents (`Props/C01e.lean`), part 2: the block parser.

* chunks as LOCAL STEPS (`Loc`): a chunk, parsed on its own in a state that is not the tight-list state, turns the
  parent `P` into `P'`; by `parseBlocks_append` such steps compose with whatever follows;
* one-line contents `X` that the block processors leave alone (`RawOK`, `Lemmas/DocParse2.lean`) as the text of list
  items: the development of `Lemmas/DocParseList.lean` (tight lists nested to any depth) again, for items whose text
  is a mixed line (escaped words, code spans, emphasis) instead of escaped words.
Core Lean only.
-/
import MdVerif.Lemmas.DocParseNestTree
import MdVerif.Lemmas.BlockLocal

namespace MdVerif.DocNest
open Py Inline Escape Block DocParse DocParse2 CodeLaw

/-! ### lines -/

/-- the source of a text -/
def Txt.raw (esc : List Char) : Txt → Str
  | .mix t0 segs => escAll esc t0 ++ rawM esc segs
  | _ => []

/-- a mixed text that is a good one-line content for the block processors and for the inline stages -/
structure TxtLine (esc : List Char) (tx : Txt) : Prop where
  isMix : ∃ t0 segs, tx = .mix t0 segs
  raw : RawOK (tx.raw esc)
  ok : tx.ok esc

theorem TxtLine.src {esc : List Char} {tx : Txt} (h : TxtLine esc tx) : tx.src esc = some (tx.raw esc) := by
  obtain ⟨t0, segs, rfl⟩ := h.isMix; rfl

/-- what the list lemmas use of a raw line; the last part: wherever a thematic break would have to go on with `ch`
    or a space, the line has another character — at its start, or after the delimiters of an emphasis it starts with -/
theorem raw_facts {X : Str} (h : RawOK X) :
    X ≠ [] ∧ X.head? ≠ some ' ' ∧ '\n' ∉ X ∧ startsWith X (spaces 4) = false ∧ startsVisible X = true ∧
      X.head? ≠ some '-' ∧ ∀ ch, (ch = '-' ∨ ch = '_' ∨ ch = '*') →
        ∃ A c B, X = A ++ c :: B ∧ (∀ a ∈ A, a = ch) ∧ c ≠ ch ∧ c ≠ ' ' := by
  obtain ⟨c, tail, rfl, hcs, hce⟩ := h.shape
  have hcsp : c ≠ ' ' := by intro e; subst e; exact absurd hcs (by decide)
  refine ⟨by simp, by simpa using hcsp, h.nl, by simp [spaces, List.replicate_succ, hcsp],
    by simp [startsVisible, hcs], ?_, ?_⟩
  · rcases hce with hce | ⟨d, m, x, tl, he, hd, hm1, _, _⟩
    · simpa using fun e : c = '-' => hce (by rw [e]; decide)
    · obtain ⟨m', rfl⟩ : ∃ m', m = m' + 1 := ⟨m - 1, by omega⟩
      simp only [List.replicate_succ, List.cons_append, List.cons.injEq] at he
      have hdd : d ≠ '-' := by rcases hd with e | e <;> rw [e] <;> decide
      simpa [he.1] using hdd
  · intro ch hch
    rcases hce with hce | ⟨d, m, x, tl, he, _, hm1, _, hxd, hxs⟩
    · refine ⟨[], c, tail, rfl, by simp, ?_, hcsp⟩
      intro e; apply hce; rw [e]
      rcases hch with e' | e' | e' <;> rw [e'] <;> decide
    · by_cases hdc : d = ch
      · subst hdc
        exact ⟨List.replicate m d, x, tl, he, fun a ha => List.eq_of_mem_replicate ha, hxd, hxs⟩
      · obtain ⟨m', rfl⟩ : ∃ m', m = m' + 1 := ⟨m - 1, by omega⟩
        have he' := he
        simp only [List.replicate_succ, List.cons_append, List.cons.injEq] at he'
        refine ⟨[], c, tail, rfl, by simp, ?_, hcsp⟩
        rw [he'.1]; exact hdc

theorem hrScan_run (ch c : Char) (B : Str) (hc1 : c ≠ ch) (hc2 : c ≠ ' ') (A : Str) :
    ∀ (sp cnt : Nat), (∀ a ∈ A, a = ch) → hrScan ch sp cnt (A ++ c :: B) = (cnt + A.length, c :: B) := by
  induction A with
  | nil => intro sp cnt _; simp [hrScan, hc1, hc2]
  | cons a A' ih =>
    intro sp cnt hA
    have ha : a = ch := hA a List.mem_cons_self
    simp only [List.cons_append, hrScan, ha, if_true]
    rw [ih 0 (cnt + 1) (fun x hx => hA x (List.mem_cons_of_mem _ hx))]
    simp only [List.length_cons]; congr 1; omega

/-- a list marker that starts with a thematic-break character is that character and a space -/
theorem marker_hr {o : Bool} {m : Str} (h : IsMarker o m) (d : Char) (r : Str) (hmr : m = d :: r)
    (hch : d = '-' ∨ d = '_' ∨ d = '*') : r = [' '] := by
  unfold IsMarker at h
  cases o with
  | true =>
    simp only [if_true] at h
    obtain ⟨n, rfl⟩ := h
    have hne := natToDec_ne_nil n
    cases hd : natToDec n with
    | nil => exact absurd hd hne
    | cons d' r' =>
      have hdig : isAsciiDigit d' = true := natToDec_digits n d' (by rw [hd]; simp)
      rw [hd] at hmr
      simp only [List.cons_append, List.cons.injEq] at hmr
      rw [hmr.1] at hdig
      rcases hch with e | e | e <;> rw [e] at hdig <;> exact absurd hdig (by decide)
  | false =>
    simp only [Bool.false_eq_true, if_false] at h
    obtain ⟨c, _, rfl⟩ := h
    simp only [List.cons.injEq] at hmr
    exact hmr.2.symm

/-- the processors before the paragraph processor leave a raw line alone, in every state, also when it is indented by
    up to three spaces -/
theorem dispatch_raw_ind (i : Nat) (hi3 : i ≤ 3) (X : Str) (hX : RawOK X) (pb : PB) (st : List BState) (refs : Refs)
    (parent : Node) (rest : List Str) :
    dispatch 4 pb st refs parent (spaces i ++ X) rest = some (paraP st refs parent (spaces i ++ X) rest) := by
  obtain ⟨c, tail, rfl, hcs, hce⟩ := hX.shape
  have hcsp : c ≠ ' ' := by intro e; subst e; exact absurd hcs (by decide)
  have hcnl : c ≠ '\n' := by intro e; subst e; exact absurd hcs (by decide)
  have hnlb : '\n' ∉ spaces i ++ c :: tail := by
    intro hm; rcases List.mem_append.1 hm with hm | hm
    · exact absurd (List.eq_of_mem_replicate hm) (by decide)
    · exact hX.nl hm
  have hsearch : hashSearch (spaces i ++ c :: tail) = none ∧ hrSearch (spaces i ++ c :: tail) = none ∧
      quoteSearch (spaces i ++ c :: tail) = none ∧ refSearch (spaces i ++ c :: tail) = none ∧
      ∀ ol ul, listItemMatch 4 ol ul (spaces i ++ c :: tail) = none := by
    rcases hce with hce | hem
    · have hl : LineStartsOk lineEsc (spaces i ++ c :: tail) = true := by
        simp only [LineStartsOk, startOk_raw i c tail hcsp hce, startsOkNl_of_no_nl _ _ hnlb, Bool.and_self]
      have hmem : ∀ d ∈ lineEsc, c ≠ d := fun d hd e => hce (e ▸ hd)
      refine ⟨hashSearch_eq_none (esc := lineEsc) (by decide) _ hl,
        hrSearch_eq_none (esc := lineEsc) (by decide) (by decide) (by decide) _ hl,
        quoteSearch_eq_none (esc := lineEsc) (by decide) _ hl, refSearch_eq_none (esc := lineEsc) (by decide) _ hl, ?_⟩
      intro ol ul
      have h0 : countPrefix ' ' (some (4 - 1)) (spaces i ++ c :: tail) = i :=
        countPrefix_spaces i _ c tail (by omega) hcsp
      have hd : (spaces i ++ c :: tail).drop i = c :: tail := by
        rw [List.drop_left' (by simp [spaces])]
      have hu : ulMarker (c :: tail) = none := by
        simp [ulMarker, hmem '*' (by decide), hmem '+' (by decide), hmem '-' (by decide)]
      simp only [listItemMatch, h0, hd, hX.ol, hu]
      cases ol <;> cases ul <;> rfl
    · exact emStart_searches 4 i (by omega) hi3 _ hX.nl hX.ol hem
  obtain ⟨e1, e2, e3, e5, e4⟩ := hsearch
  generalize hb : spaces i ++ c :: tail = b at *
  have h1 : b.isEmpty = false := by rw [← hb]; cases i <;> simp [spaces, List.replicate_succ]
  have h2 : startsWith b ['\n'] = false := by
    rw [← hb]; cases i <;> simp [spaces, List.replicate_succ, hcnl]
  have h3 : startsWith b (spaces 4) = false := by
    rw [← hb]; exact startsWith_spaces_false _ 4 c _ (by omega) hcsp
  unfold dispatch
  simp only [h1, h2, h3, Bool.or_self, Bool.false_eq_true, if_false, Bool.false_and, e4, Option.isSome_none,
    e1, setextMatch_line b hnlb, e2, e3, e5]

theorem dispatch_raw (X : Str) (hX : RawOK X) (pb : PB) (st : List BState) (refs : Refs) (parent : Node)
    (rest : List Str) : dispatch 4 pb st refs parent X rest = some (paraP st refs parent X rest) := by
  have := dispatch_raw_ind 0 (by omega) X hX pb st refs parent rest
  simpa [spaces] using this

/-- **A paragraph** in any state that is not the tight-list state -/
theorem produces_paraN (i : Nat) (hi3 : i ≤ 3) (X : Str) (hX : RawOK X) :
    ProducesS 4 (spaces i ++ X) { tag := .name "p".toList, text := some X } := by
  intro pb state refs parent rest hst
  obtain ⟨c, tail, he, hcs, _⟩ := hX.shape
  have hlstrip := lstrip_indent i _ c tail he hcs
  have hblank : isBlank (spaces i ++ X) = false := by
    cases hb : isBlank (spaces i ++ X) with
    | false => rfl
    | true =>
      rw [isBlank_iff] at hb
      have := hb c (by rw [he]; simp)
      rw [hcs] at this; cases this
  rw [dispatch_raw_ind i hi3 X hX]
  simp [paraP, hblank, hlstrip, hst, mkText, Node.el]

/-- **A Setext heading** in any state -/
theorem produces_setextN (i : Nat) (hi : i < 4) (X : Str) (hX : RawOK X) (lv k : Nat) (hlv : lv = 1 ∨ lv = 2) :
    ProducesS 4 (spaces i ++ X ++ '\n' :: List.replicate (k + 1) (if lv = 1 then '=' else '-'))
      { tag := .name ('h' :: natToDec lv), text := some X } := by
  intro pb state refs parent rest _
  obtain ⟨c, tail, he, hcs, hce⟩ := hX.shape
  have hch : c ≠ '#' := by
    rcases hce with hce | ⟨d, m, x, tl, hx, hd, hm1, _, _⟩
    · exact fun e => hce (by rw [e]; decide)
    · obtain ⟨m', rfl⟩ : ∃ m', m = m' + 1 := ⟨m - 1, by omega⟩
      rw [he] at hx
      simp only [List.replicate_succ, List.cons_append, List.cons.injEq] at hx
      rw [hx.1]; rcases hd with e | e <;> rw [e] <;> decide
  have hnl := hX.nl
  have hlast := hX.last
  have hcsp : c ≠ ' ' := by intro e; subst e; exact absurd hcs (by decide)
  have hcnl : c ≠ '\n' := by intro e; subst e; exact absurd hcs (by decide)
  generalize hu : (if lv = 1 then '=' else '-') = ch
  have hch2 : ch = '=' ∨ ch = '-' := by rw [← hu]; split <;> simp
  have hl1nl : '\n' ∉ spaces i ++ X := by
    intro hm; rcases List.mem_append.1 hm with hm | hm
    · exact absurd (List.eq_of_mem_replicate hm) (by decide)
    · exact hnl hm
  have hunl : '\n' ∉ List.replicate (k + 1) ch := by
    intro hm; have := List.eq_of_mem_replicate hm
    rcases hch2 with h | h <;> rw [h] at this <;> exact absurd this (by decide)
  have hlines : lines (spaces i ++ X ++ '\n' :: List.replicate (k + 1) ch) =
      [spaces i ++ X, List.replicate (k + 1) ch] := by
    unfold lines
    rw [splitC_append_nl _ _ (notNl_of_not_mem hl1nl), splitC_noNl _ (notNl_of_not_mem hunl)]
  have h4 : hashSearch (spaces i ++ X ++ '\n' :: List.replicate (k + 1) ch) = none := by
    have hh1 : (spaces i ++ X ++ '\n' :: List.replicate (k + 1) ch).head? ≠ some '#' := by
      rw [he, List.append_assoc, List.cons_append, head?_spaces_cons]; split <;> simp [hch]
    have hh2 : (List.replicate (k + 1) ch).head? ≠ some '#' := by
      rcases hch2 with h | h <;> simp [List.replicate_succ, h]
    have s1 := hashSearchNl_skip (spaces i ++ X) ('\n' :: List.replicate (k + 1) ch) 0
      (notNl_of_not_mem hl1nl)
    have s2 := hashSearchNl_skip (List.replicate (k + 1) ch) [] (0 + (spaces i ++ X).length + 1)
      (notNl_of_not_mem hunl)
    simp only [List.append_nil] at s2
    simp only [hashSearch, hashAt_none _ hh1, s1, hashSearchNl, if_true, hashAt_none _ hh2, s2]
  have h5 : setextMatch (spaces i ++ X ++ '\n' :: List.replicate (k + 1) ch) = true := by
    rw [setextMatch_eq]
    simp only [secondLine, hlines, List.getElem?_cons_succ, List.getElem?_cons_zero, setextLine2]
    have hp : (fun c => decide (c = '=') || decide (c = '-')) ch = true := by rcases hch2 with h | h <;> simp [h]
    rw [DocParse.spanLen_replicate _ _ _ hp]
    simp
  generalize hb : spaces i ++ X ++ '\n' :: List.replicate (k + 1) ch = b at *
  have hb' : b = spaces i ++ c :: (tail ++ '\n' :: List.replicate (k + 1) ch) := by rw [← hb, he]; simp
  have h1 : b.isEmpty = false := by rw [hb']; cases i <;> simp [spaces, List.replicate_succ]
  have h2 : startsWith b ['\n'] = false := by
    rw [hb']; cases i <;> simp [spaces, List.replicate_succ, hcnl]
  have h3 : startsWith b (spaces 4) = false := by
    rw [hb']; exact startsWith_spaces_false _ 4 c _ hi hcsp
  have hstrip : strip (spaces i ++ X) = X := by
    have := strip_append_of_blank (a := spaces i) (b := []) (by simp [isBlank, spaces]) (by simp [isBlank]) X
    simp only [List.append_nil] at this
    rw [this]
    exact strip_eq_self (fun d hd => by rw [he] at hd; cases hd; exact hcs) hlast
  have hlevel : (if startsWith (List.replicate (k + 1) ch) ['='] = true then 1 else 2) = lv := by
    rcases hlv with h | h
    · subst h; simp only [if_true] at hu; subst hu; simp [List.replicate_succ]
    · subst h; simp only [show (2 : Nat) ≠ 1 by decide, if_false] at hu; subst hu; simp [List.replicate_succ]
  unfold dispatch
  simp only [h1, h2, h3, h4, h5, Bool.or_self, Bool.false_eq_true, if_false, Bool.false_and, if_true]
  simp [setextP, hlines, hstrip, hlevel, hTag]

/-- **An ATX heading** in any state -/
theorem produces_atxN (X : Str) (hX : RawOK X) (lv : Nat) (h1 : 1 ≤ lv)
    (h6 : lv ≤ 6) (Y : Str) (hY : Y = [] ∨ ∃ m, Y = ' ' :: List.replicate m '#') :
    ProducesS 4 (List.replicate lv '#' ++ ' ' :: (X ++ Y)) { tag := .name ('h' :: natToDec lv), text := some X } := by
  intro pb state refs parent rest _
  obtain ⟨c, tail, he, hcs, hce⟩ := hX.shape
  have hlast := hX.last
  obtain ⟨ys, hys, hclose⟩ : ∃ ys, (ys = [] ∨ ys = [' ']) ∧ ∀ f, hashHeader (f + 2) Y = some (ys, Y.length) := by
    rcases hY with rfl | ⟨m, rfl⟩
    · exact ⟨[], Or.inl rfl, fun f => hashHeader_closing_nil (f + 1)⟩
    · exact ⟨[' '], Or.inr rfl, fun f => by rw [hashHeader_closing]; simp⟩
  generalize hb : List.replicate lv '#' ++ ' ' :: (X ++ Y) = b
  have hlen : b.length = lv + 1 + X.length + Y.length := by rw [← hb]; simp; omega
  have hdrop : b.drop lv = ' ' :: (X ++ Y) := by
    rw [← hb, List.drop_left' (by simp)]
  have hcount : countPrefix '#' (some 6) b = lv := by rw [← hb]; exact countHash_level lv 6 h6 _
  obtain ⟨f0, hf0⟩ : ∃ f0, b.length + 1 = ((f0 + 2) + X.length) + 1 := ⟨b.length - X.length - 2, by omega⟩
  have hhdr : hashHeader (b.length + 1) (b.drop lv) = some (' ' :: (X ++ ys), Y.length + X.length + 1) := by
    rw [hdrop, hf0]
    have hw := hX.walk (f0 + 2) Y ys Y.length (hclose f0)
    have hcl : hashClose (' ' :: (X ++ Y)) = none := hashClose_none_of_head _ _ (by decide) (by decide)
    simp [hashHeader, hcl, hw]
  have hat : hashAt b = some (lv, ' ' :: (X ++ ys), lv + (Y.length + X.length + 1)) := by
    unfold hashAt
    rw [hcount]
    apply firstDown_top _ 1 lv _ h1
    simp only [hhdr]
  have hen : lv + (Y.length + X.length + 1) = b.length := by rw [hlen]; omega
  have hsearch : hashSearch b = some (0, b.length, lv, ' ' :: (X ++ ys)) := by
    simp only [hashSearch, hat, hen]
  have hstrip : strip (' ' :: (X ++ ys)) = X := by
    have hbl : isBlank ys = true := by rcases hys with rfl | rfl <;> decide
    have := strip_append_of_blank (a := [' ']) (b := ys) (by decide) hbl X
    simp only [List.cons_append, List.nil_append] at this
    rw [this]
    exact strip_eq_self (fun d hd => by rw [he] at hd; cases hd; exact hcs) hlast
  have hb1 : ∃ r, b = '#' :: r := by
    obtain ⟨l', rfl⟩ : ∃ l', lv = l' + 1 := ⟨lv - 1, by omega⟩
    exact ⟨List.replicate l' '#' ++ ' ' :: (X ++ Y), by rw [← hb]; simp [List.replicate_succ]⟩
  obtain ⟨r0, hr0⟩ := hb1
  have g1 : b.isEmpty = false := by rw [hr0]; rfl
  have g2 : startsWith b ['\n'] = false := by rw [hr0]; simp
  have g3 : startsWith b (spaces 4) = false := by
    rw [hr0]; simp [spaces, List.replicate_succ]
  unfold dispatch
  simp only [g1, g2, g3, Bool.or_self, Bool.false_eq_true, if_false, Bool.false_and, hsearch]
  simp [hashP, hstrip, hTag]

/-! ### chunks as local steps -/

/-- the chunk `c`, parsed on its own in the state `st`, turns the parent `P` into `P'` and leaves the references -/
def Loc (st : List BState) (c : Str) (P P' : Node) : Prop :=
  ∀ refs : Refs, RunsE st refs P [c] (P', refs)

/-- a local step, followed by the rest of the blocks -/
theorem loc_then {st : List BState} {c : Str} {P P' : Node} (h : Loc st c P P') {refs : Refs} {rest : List Str}
    {res : Node × Refs} (hr : RunsE st refs P' rest res) : RunsE st refs P (c :: rest) res := by
  obtain ⟨f, hf⟩ := h refs
  obtain ⟨g, hg⟩ := hr
  exact ⟨f + g, by simpa using Local.parseBlocks_append hf hg⟩

/-- the unbounded effect `EffX` of one chunk, as local steps -/
theorem loc_of_effX {c : Str} {n : Node} (h : EffX [c] n) (st : List BState) (hst : isstate st .list = false)
    (P : Node) (hp : POK P n) : Loc st c P (P.append n) :=
  fun refs => by simpa using h st refs P [] (P.append n, refs) hst hp (runsE_nil _ _ _)

theorem effX_of_loc {c : Str} {n : Node}
    (h : ∀ (st : List BState), isstate st .list = false → ∀ P, POK P n → Loc st c P (P.append n)) : EffX [c] n :=
  fun st _ parent _ _ hst hp hr => loc_then (h st hst parent hp) hr

/-- a local step outside the tight-list state keeps the element's own fields -/
theorem loc_shell {st : List BState} (hst : isstate st .list = false) {c : Str} {P P' : Node} (h : Loc st c P P') :
    Local.shell P' = Local.shell P := by
  obtain ⟨f, hf⟩ := h []
  exact (Local.parseBlocks_good 4 f _ _ _ _ _ _ hf).2 hst

/-! ### tight lists whose items are mixed lines -/

/-- one item of a tight list: marker, text, the lines of the nested list (not yet indented; `[]` when there is none)
    and its tree (`[]` or one list) -/
structure TItem where
  m : Str
  tx : Txt
  sub : List Str
  subT : List NT

def TItem.lines (esc : List Char) (it : TItem) : List Str :=
  (it.m ++ it.tx.raw esc) :: it.sub.map (spaces 4 ++ ·)

def tlistLines (esc : List Char) (items : List TItem) : List Str := items.flatMap (TItem.lines esc)

def TItem.entries (esc : List Char) (it : TItem) : List Str :=
  it.tx.raw esc :: (if it.sub.isEmpty then [] else [joinLines (it.sub.map (spaces 4 ++ ·))])

def TItem.tree (it : TItem) : NT := .el "li".toList it.tx it.subT

def tlistTree (o : Bool) (items : List TItem) : NT :=
  .el (if o then "ol".toList else "ul".toList) .none (items.map TItem.tree)

structure TItemShape (esc : List Char) (o : Bool) (it : TItem) : Prop where
  marker : IsMarker o it.m
  text : TxtLine esc it.tx
  sub : it.sub = [] ∨ MarkerStart it.sub
  subNl : ∀ l ∈ it.sub, '\n' ∉ l

theorem tfold_item {esc : List Char} {o : Bool} (it : TItem) (h : TItemShape esc o it) (acc : List Str) :
    (it.lines esc).foldl (getItemsStep 4) acc = acc ++ it.entries esc := by
  obtain ⟨_, hx, hnl, hsw, _⟩ := raw_facts h.text.raw
  simp only [TItem.lines, List.foldl_cons, getItemsStep_marker h.marker _ hx hnl]
  rcases h.sub with hs | ⟨o', m', x', r, hs, hm', _⟩
  · simp [TItem.entries, hs]
  · rw [hs]
    simp only [List.map_cons, List.foldl_cons]
    rw [getItemsStep_indented_first hm' x' acc _ hsw, List.append_assoc]
    have := fold_indented_rest r (acc ++ [it.tx.raw esc]) (spaces 4 ++ (m' ++ x')) (startsWith_spaces4 _)
    simp only [List.append_assoc, List.singleton_append] at this ⊢
    rw [this]
    simp [TItem.entries, hs]

theorem tfold_items {esc : List Char} {o : Bool} (items : List TItem)
    (h : ∀ it ∈ items, TItemShape esc o it) (acc : List Str) :
    (tlistLines esc items).foldl (getItemsStep 4) acc = acc ++ items.flatMap (TItem.entries esc) := by
  induction items generalizing acc with
  | nil => simp [tlistLines]
  | cons it r ih =>
    simp only [tlistLines, List.flatMap_cons, List.foldl_append]
    rw [tfold_item it (h it List.mem_cons_self)]
    have := ih (fun x hx => h x (List.mem_cons_of_mem _ hx)) (acc ++ it.entries esc)
    simp only [tlistLines] at this
    rw [this, List.append_assoc]

theorem marker_noNl {o : Bool} {m : Str} (h : IsMarker o m) : '\n' ∉ m :=
  fun hm => (marker_chars h _ hm).2 rfl

/-- a line that starts with a marker and goes on with a raw line -/
theorem markerLine_facts {o : Bool} {m X : Str} (hm : IsMarker o m) (hX : RawOK X) :
    '\n' ∉ m ++ X ∧ (m ++ X).head? ≠ some '#' ∧ hrLine (m ++ X) = false ∧ setextLine2 (m ++ X) = false := by
  obtain ⟨hne, hx, hnl, _, _, hdash, hstop⟩ := raw_facts hX
  obtain ⟨d, r, hmr, hdsp, hdh, hdnl, hdeq, hdr⟩ := marker_head hm
  refine ⟨?_, by rw [hmr]; simpa using hdh, ?_, ?_⟩
  · intro h
    rcases List.mem_append.1 h with h | h
    · exact marker_noNl hm h
    · exact hnl h
  · -- `hr`: after the marker character and its space the line goes on with that character, and then with one that
    -- is neither that character nor a space
    have h0 : countPrefix ' ' (some 3) (m ++ X) = 0 := by rw [hmr]; simp [countPrefix, hdsp]
    unfold hrLine
    rw [h0, List.drop_zero, hmr]
    simp only [List.cons_append]
    by_cases hch : d = '-' ∨ d = '_' ∨ d = '*'
    · have hr1 := marker_hr hm d r hmr hch
      obtain ⟨A, c, B, hX', hA, hc1, hc2⟩ := hstop d hch
      have hcond : (d = '-' || d = '_' || d = '*') = true := by
        rcases hch with e | e | e <;> simp [e]
      simp only [hcond, if_true]
      have hscan : hrScan d 0 0 (d :: (r ++ X)) = (1 + A.length, c :: B) := by
        rw [hr1, hX']
        simp only [hrScan, if_true, List.cons_append, List.nil_append]
        have hsd : ¬ (' ' = d) := fun e => hdsp e.symm
        simp only [hsd, if_false, Bool.and_eq_true, decide_eq_true_eq, show (0 : Nat) < 2 by omega, and_self, if_true]
        rw [hrScan_run d c B hc1 hc2 A (0 + 1) (0 + 1) hA]
      rw [hscan]
      simp [hc2]
    · have hcond : (d = '-' || d = '_' || d = '*') = false := by
        cases hc : (d = '-' || d = '_' || d = '*') with
        | false => rfl
        | true =>
          simp only [Bool.or_eq_true, decide_eq_true_eq] at hc
          exact absurd (by rcases hc with (e | e) | e; exact Or.inl e; exact Or.inr (Or.inl e); exact Or.inr (Or.inr e)) hch
      simp [hcond]
  · by_cases hd : d = '-'
    · have hr := hdr hd
      subst hd
      obtain ⟨a, b, rfl⟩ : ∃ a b, X = a :: b := by cases X <;> simp_all
      have ha : a ≠ ' ' := by simpa using hx
      have ha2 : a ≠ '-' := by simpa using hdash
      rw [hmr, hr]
      by_cases ha3 : a = '='
      · subst ha3
        -- `- =…`: the span is `-`, then a space
        simp [setextLine2, spanLen]
      · simp [setextLine2, spanLen, ha]
    · have : spanLen (fun c => decide (c = '=') || decide (c = '-')) (m ++ X) = 0 := by
        rw [hmr]; simp [spanLen, hdeq, hd]
      simp [setextLine2, this]

theorem tlistLines_noNl {esc : List Char} {o : Bool} (items : List TItem)
    (h : ∀ it ∈ items, TItemShape esc o it) : ∀ l ∈ tlistLines esc items, '\n' ∉ l := by
  intro l hl
  obtain ⟨it, hit, hli⟩ := List.mem_flatMap.1 hl
  have hs := h it hit
  simp only [TItem.lines, List.mem_cons, List.mem_map] at hli
  rcases hli with rfl | ⟨x, hx, rfl⟩
  · exact (markerLine_facts hs.marker hs.text.raw).1
  · intro hm
    rcases List.mem_append.1 hm with hm | hm
    · exact absurd (List.eq_of_mem_replicate hm) (by decide)
    · exact hs.subNl x hx hm

/-- **`get_items`** on the lines of a tight list -/
theorem tgetItems_list {esc : List Char} {o : Bool} (items : List TItem) (hne : items ≠ [])
    (h : ∀ it ∈ items, TItemShape esc o it) :
    getItems 4 (joinLines (tlistLines esc items)) = items.flatMap (TItem.entries esc) := by
  have hlne : tlistLines esc items ≠ [] := by
    cases items with
    | nil => exact absurd rfl hne
    | cons it r => simp [tlistLines, TItem.lines]
  unfold getItems
  rw [lines_joinLines _ hlne (fun l hl => notNl_of_not_mem (tlistLines_noNl items h l hl))]
  simpa using tfold_items items h []

/-- the lines of a list: marker lines and indented lines -/
def TListLine (l : Str) : Prop :=
  (∃ o m X, IsMarker o m ∧ RawOK X ∧ l = m ++ X) ∨ (∃ x, '\n' ∉ x ∧ l = spaces 4 ++ x)

theorem tlistLine_facts {l : Str} (h : TListLine l) :
    '\n' ∉ l ∧ l.head? ≠ some '#' ∧ hrLine l = false ∧ setextLine2 l = false := by
  rcases h with ⟨o, m, X, hm, hX, rfl⟩ | ⟨x, hx, rfl⟩
  · exact markerLine_facts hm hX
  · refine ⟨?_, by simp [spaces, List.replicate_succ], hrLine_indented x, setextLine2_indented x⟩
    intro hmem
    rcases List.mem_append.1 hmem with hmem | hmem
    · exact absurd (List.eq_of_mem_replicate hmem) (by decide)
    · exact hx hmem

theorem tlistLines_are {esc : List Char} {o : Bool} (items : List TItem) (h : ∀ it ∈ items, TItemShape esc o it) :
    ∀ l ∈ tlistLines esc items, TListLine l := by
  intro l hl
  obtain ⟨it, hit, hli⟩ := List.mem_flatMap.1 hl
  have hs := h it hit
  simp only [TItem.lines, List.mem_cons, List.mem_map] at hli
  rcases hli with rfl | ⟨x, hx, rfl⟩
  · exact Or.inl ⟨o, it.m, it.tx.raw esc, hs.marker, hs.text.raw, rfl⟩
  · exact Or.inr ⟨x, hs.subNl x hx, rfl⟩

/-- **a list chunk reaches the list processor** -/
theorem tdispatch_list {esc : List Char} (o : Bool) (items : List TItem) (hne : items ≠ [])
    (h : ∀ it ∈ items, TItemShape esc o it) (pb : PB) (state : List BState) (refs : Refs) (parent : Node)
    (rest : List Str) :
    dispatch 4 pb state refs parent (joinLines (tlistLines esc items)) rest =
      listP 4 pb state refs parent (joinLines (tlistLines esc items)) rest (if o then "ol" else "ul") := by
  obtain ⟨it, r, rfl⟩ : ∃ it r, items = it :: r := by
    cases items with
    | nil => exact absurd rfl hne
    | cons it r => exact ⟨it, r, rfl⟩
  have hls := tlistLines_are (it :: r) h
  have hfacts := fun l hl => tlistLine_facts (hls l hl)
  have hlne : tlistLines esc (it :: r) ≠ [] := by simp [tlistLines, TItem.lines]
  have hlines := lines_joinLines _ hlne (fun l hl => notNl_of_not_mem (hfacts l hl).1)
  have hit := h it List.mem_cons_self
  obtain ⟨d, dr, hmr, hdsp, _, hdnl, _⟩ := marker_head hit.marker
  obtain ⟨hXne, hx, _⟩ := raw_facts hit.text.raw
  obtain ⟨tail, hshape⟩ : ∃ tail, joinLines (tlistLines esc (it :: r)) = it.m ++ (it.tx.raw esc ++ tail) := by
    have : tlistLines esc (it :: r) = (it.m ++ it.tx.raw esc) :: (it.sub.map (spaces 4 ++ ·) ++ tlistLines esc r) := by
      simp [tlistLines, TItem.lines]
    rw [this]
    cases hrest : it.sub.map (spaces 4 ++ ·) ++ tlistLines esc r with
    | nil => exact ⟨[], by simp [joinLines_single]⟩
    | cons a b => exact ⟨'\n' :: joinLines (a :: b), by rw [joinLines_cons_cons]; simp⟩
  have hxt : (it.tx.raw esc ++ tail).head? ≠ some ' ' := by
    cases he : it.tx.raw esc with
    | nil => exact absurd he hXne
    | cons a b => rw [he] at hx; simpa using hx
  have h4 := hashSearch_heads _ hlne (fun l hl => ⟨(hfacts l hl).1, (hfacts l hl).2.1⟩)
  have h5 : setextMatch (joinLines (tlistLines esc (it :: r))) = false := by
    rw [setextMatch_eq]
    simp only [secondLine, hlines]
    cases hsl : (tlistLines esc (it :: r))[1]? with
    | none => rfl
    | some l => exact (hfacts l (List.mem_of_getElem? hsl)).2.2.2
  have h6 : hrSearch (joinLines (tlistLines esc (it :: r))) = none := by
    unfold hrSearch
    rw [hlines]
    exact hrSearchLines_none _ 0 (fun l hl => (hfacts l hl).2.2.1)
  have hol := listItemMatch_marker hit.marker (it.tx.raw esc ++ tail) hxt true false
  have hul := listItemMatch_marker hit.marker (it.tx.raw esc ++ tail) hxt false true
  generalize hb : joinLines (tlistLines esc (it :: r)) = b at *
  have hb' : b = d :: (dr ++ (it.tx.raw esc ++ tail)) := by rw [hshape, hmr]; rfl
  have h1 : b.isEmpty = false := by rw [hb']; rfl
  have h2 : startsWith b ['\n'] = false := by rw [hb']; simp [hdnl]
  have h3 : startsWith b (spaces 4) = false := by rw [hb']; simp [spaces, List.replicate_succ, hdsp]
  rw [← hshape] at hol hul
  unfold dispatch
  simp only [h1, h2, h3, h4, h5, h6, Bool.or_self, Bool.false_eq_true, if_false, Bool.false_and, hol, hul]
  cases o <;> simp

/-- the `li` element whose text is the raw line -/
def liRaw (X : Str) : Node := { tag := .name "li".toList, text := some X }

/-- the text of an item, parsed in a list state into a fresh `li` -/
theorem tparse_item_text (X : Str) (hX : RawOK X) (f : Nat) (st : List BState) (refs : Refs) :
    parseBlocks 4 (f + 1) (st ++ [.list]) refs (Node.el "li") [X] = some (liRaw X, refs) := by
  obtain ⟨_, _, _, _, hv, _⟩ := raw_facts hX
  have hlist : isstate (st ++ [.list]) .list = true := by simp [isstate]
  have hpara : paraP (st ++ [.list]) refs (Node.el "li") X [] = (liRaw X, refs, []) := by
    simp [paraP, isBlank_of_visible hv, hlist, Node.last?, Node.el, Node.truthy, lstrip_of_visible hv, liRaw]
  simp only [parseBlocks, dispatch_raw X hX, hpara]

/-- the nested list of an item -/
theorem tparse_item_sub (X : Str) (sub : List Str) (hms : MarkerStart sub)
    (hnl : ∀ l ∈ sub, '\n' ∉ l) (n : Node) (heff : EffX [joinLines sub] n)
    (st : List BState) (refs : Refs) :
    ∃ f0, ∀ f, f0 ≤ f →
      parseBlocks 4 f (st ++ [.list]) refs (liRaw X) [joinLines (sub.map (spaces 4 ++ ·))] =
        some ((liRaw X).append n, refs) := by
  have hsne : sub ≠ [] := by obtain ⟨_, _, _, _, hs, _⟩ := hms; rw [hs]; simp
  have hin := heff (st ++ [.list] ++ [.detabbed]) refs (liRaw X) [] ((liRaw X).append n, refs)
    (by simp [isstate])
    ⟨by simp [liRaw, isListTag, Node.isTag], by intro sib hs; simp [liRaw, Node.last?] at hs⟩
    (runsE_nil _ _ _)
  obtain ⟨f1, hf1⟩ := hin.ev
  refine ⟨f1 + 2, fun f hf => ?_⟩
  obtain ⟨g, rfl⟩ : ∃ g, f = g + 1 := ⟨f - 1, by omega⟩
  have hg : f1 ≤ g := by omega
  obtain ⟨o, m, x, r, hs, hm, _⟩ := hms
  obtain ⟨d, dr, hmr, hdsp, _, _, _⟩ := marker_head hm
  obtain ⟨tail, hshape⟩ : ∃ tail, joinLines (sub.map (spaces 4 ++ ·)) = spaces 4 ++ (d :: tail) := by
    rw [hs, List.map_cons, hmr]
    cases hr : r.map (spaces 4 ++ ·) with
    | nil => exact ⟨dr ++ x, by simp [joinLines_single]⟩
    | cons a b => exact ⟨dr ++ x ++ '\n' :: joinLines (a :: b), by rw [joinLines_cons_cons]; simp⟩
  have hdetab := looseDetab_indented sub hsne hnl
  generalize hB : joinLines (sub.map (spaces 4 ++ ·)) = B at *
  have h1 : B.isEmpty = false := by rw [hshape]; simp [spaces, List.replicate_succ]
  have h2 : startsWith B ['\n'] = false := by rw [hshape]; simp [spaces, List.replicate_succ]
  have h3 : startsWith B (spaces 4) = true := by rw [hshape]; exact startsWith_spaces4 _
  have hcs : countSp B = 4 := by rw [hshape]; exact countSp_spaces 4 _ (by simpa using hdsp)
  have hnd : isstate (st ++ [.list]) .detabbed = false := by simp [isstate]
  have hli : isItemTag (liRaw X) = true := by simp [liRaw, isItemTag, Node.isTag]
  have hlevel : getLevel 4 (st ++ [.list]) (liRaw X) B = (1, 0) := by
    simp [getLevel, hcs, isstate, liRaw, getLevelNode, getLevelKids]
  have hinner := hf1 g hg
  simp only [List.append_nil] at hinner
  have hd : dispatch 4 (parseBlocks 4 g) (st ++ [.list]) refs (liRaw X) B [] =
      some ((liRaw X).append n, refs, []) := by
    unfold dispatch
    simp only [h1, h2, h3, hnd, hli, Bool.or_self, Bool.false_eq_true, if_false, Bool.not_false, Bool.and_self,
      Bool.true_or, if_true]
    have hlast : (liRaw X).last? = none := by simp [liRaw, Node.last?]
    simp only [indentP, hlevel, hdetab, nodeAt, hli, if_true, hlast, hinner]
  simp only [parseBlocks, hd]

/-- an item with its nested list, if any, already understood -/
structure TItemOK (esc : List Char) (o : Bool) (it : TItem) : Prop where
  shape : TItemShape esc o it
  sub : (it.sub = [] ∧ it.subT = []) ∨
    (∃ tr, it.subT = [tr] ∧ MarkerStart it.sub ∧ EffX [joinLines it.sub] (tr.src esc))

theorem titem_src_nil {esc : List Char} (it : TItem) (ht : TxtLine esc it.tx) (h : it.subT = []) :
    it.tree.src esc = liRaw (it.tx.raw esc) := by
  simp [TItem.tree, NT.src, h, NT.srcs, liRaw, ht.src]

theorem titem_src_one {esc : List Char} (it : TItem) (ht : TxtLine esc it.tx) (tr : NT) (h : it.subT = [tr]) :
    it.tree.src esc = (liRaw (it.tx.raw esc)).append (tr.src esc) := by
  simp [TItem.tree, NT.src, h, NT.srcs, liRaw, Node.append, ht.src]

/-- **the loop over the items** of `OListProcessor.run` -/
theorem tlistItems_entries {esc : List Char} {o : Bool} (st : List BState) (items : List TItem)
    (h : ∀ it ∈ items, TItemOK esc o it) (refs : Refs) :
    ∃ f0, ∀ f, f0 ≤ f → ∀ (lst : Node),
      listItems 4 (parseBlocks 4 f) (st ++ [.list]) refs lst (items.flatMap (TItem.entries esc)) =
        some ({ lst with children := lst.children ++ items.map (fun it => it.tree.src esc) }, refs) := by
  induction items with
  | nil => exact ⟨0, fun f _ lst => by cases lst; simp [listItems]⟩
  | cons it r ih =>
    obtain ⟨f1, hf1⟩ := ih (fun x hx => h x (List.mem_cons_of_mem _ hx))
    have hit := h it List.mem_cons_self
    have hraw := hit.shape.text.raw
    obtain ⟨_, _, _, hsw, _⟩ := raw_facts hraw
    rcases hit.sub with ⟨hs, hsT⟩ | ⟨tr, hsT, hms, heff⟩
    · refine ⟨max f1 1, fun f hf lst => ?_⟩
      obtain ⟨g, rfl⟩ : ∃ g, f = g + 1 := ⟨f - 1, by omega⟩
      have hrest := hf1 (g + 1) (by omega) (lst.append (liRaw (it.tx.raw esc)))
      simp only [List.flatMap_cons, TItem.entries, hs, List.isEmpty_nil, if_true, List.cons_append,
        List.nil_append, listItems, hsw, Bool.false_eq_true, if_false,
        tparse_item_text _ hraw g st refs, hrest]
      simp [Node.append, titem_src_nil it hit.shape.text hsT, List.append_assoc]
    · obtain ⟨f2, hf2⟩ := tparse_item_sub (it.tx.raw esc) it.sub hms hit.shape.subNl (tr.src esc) heff st refs
      have hsne : it.sub.isEmpty = false := by
        obtain ⟨_, _, _, _, hs, _⟩ := hms
        rw [hs]; rfl
      refine ⟨max (max f1 f2) 1, fun f hf lst => ?_⟩
      obtain ⟨g, rfl⟩ : ∃ g, f = g + 1 := ⟨f - 1, by omega⟩
      have hrest := hf1 (g + 1) (by omega) (lst.append ((liRaw (it.tx.raw esc)).append (tr.src esc)))
      have hsub := hf2 (g + 1) (by omega)
      have hB : startsWith (joinLines (it.sub.map (spaces 4 ++ ·))) (spaces 4) = true := by
        obtain ⟨_, m, x, r', hs, _⟩ := hms
        rw [hs, List.map_cons]
        cases hr : r'.map (spaces 4 ++ ·) with
        | nil => rw [joinLines_single]; exact startsWith_spaces4 _
        | cons a b => rw [joinLines_cons_cons, List.append_assoc]; exact startsWith_spaces4 _
      simp only [List.flatMap_cons, TItem.entries, hsne, Bool.false_eq_true, if_false, List.cons_append,
        List.nil_append, listItems, hsw, tparse_item_text _ hraw g st refs, hB, if_true,
        DocParse.last_append, hsub, DocParse.setLast_append, hrest]
      simp [Node.append, titem_src_one it hit.shape.text tr hsT, List.append_assoc]

theorem tlistTree_src {esc : List Char} (o : Bool) (items : List TItem) :
    (tlistTree o items).src esc =
      { Node.el (if o then "ol" else "ul") with children := items.map (fun it => it.tree.src esc) } := by
  cases o <;> simp [tlistTree, NT.src, nsrcs_eq_map, List.map_map, Node.el, Function.comp_def, Txt.src]

theorem isListTag_tlistTree {esc : List Char} (o : Bool) (items : List TItem) :
    isListTag ((tlistTree o items).src esc) = true := by
  cases o <;> simp [tlistTree, NT.src, isListTag, Node.isTag]

/-- **a tight list**, nested to any depth: the chunk of its lines appends the `ul`/`ol` element with its items -/
theorem teffX_list {esc : List Char} (o : Bool) (items : List TItem) (hne : items ≠ [])
    (h : ∀ it ∈ items, TItemOK esc o it) :
    EffX [joinLines (tlistLines esc items)] ((tlistTree o items).src esc) := by
  intro st refs parent rest res hst hpok hr
  obtain ⟨f0, hf0⟩ := tlistItems_entries st items h refs
  have hshape : ∀ it ∈ items, TItemShape esc o it := fun it hit => (h it hit).shape
  have hd : dispatch 4 (parseBlocks 4 f0) st refs parent (joinLines (tlistLines esc items)) rest =
      some (parent.append ((tlistTree o items).src esc), refs, rest) := by
    rw [tdispatch_list o items hne hshape, listP, tgetItems_list items hne hshape]
    have hres := hf0 f0 (Nat.le_refl _) (Node.el (if o then "ol" else "ul"))
    rw [tlistTree_src]
    cases hl : parent.last? with
    | none => simp only [hpok.1, Bool.false_eq_true, if_false, hres]; simp [Node.el]
    | some sib =>
      have hns := (hpok.2 sib hl).2.2 (isListTag_tlistTree o items)
      simp only [hns, hpok.1, Bool.false_eq_true, if_false, hres]; simp [Node.el]
  exact runsE_step hd hr

/-! ### groups of lines -/

/-- a line of a group: not empty, safe for the normaliser, without `<`, with closed character references and a visible
    character -/
def GLine (l : Str) : Prop :=
  l ≠ [] ∧ lineSafe l = true ∧ '<' ∉ l ∧ refsClosed l = true ∧ ∃ c ∈ l, isSpace c = false

def GGroup (g : List Str) : Prop := g ≠ [] ∧ ∀ l ∈ g, GLine l

theorem GLine.noNl {l : Str} (h : GLine l) : '\n' ∉ l := (lineSafe_facts h.2.1).1

theorem GLine.inner {l : Str} (h : GLine l) : InnerLine l := ⟨h.noNl, Or.inr h.2.2.2.2⟩

theorem nel_ggroup (g : List Str) (h : GGroup g) : noEmptyLineFrom true (joinLines g) = true := by
  obtain ⟨hne, hl⟩ := h
  induction g with
  | nil => exact absurd rfl hne
  | cons l r ih =>
    have h1 := hl l List.mem_cons_self
    cases r with
    | nil => exact nel_line l h1.1 h1.noNl
    | cons l' r' =>
      rw [joinLines_cons_cons, nel_cons_line l _ h1.1 h1.noNl]
      exact ih (by simp) (fun x hx => hl x (List.mem_cons_of_mem _ hx))

theorem gline_of_chars {l : Str} (hch : ∀ c ∈ l, okCh c) (hrc : refsClosed l = true) (hv : ∃ c ∈ l, isSpace c = false) :
    GLine l := by
  obtain ⟨c, hc, hcs⟩ := hv
  have hcsp : c ≠ ' ' := by intro e; subst e; exact absurd hcs (by decide)
  have := safe_of_okCh l hch ⟨c, hc, hcsp⟩
  exact ⟨(by intro e; rw [e] at hc; cases hc), this.1, this.2, hrc, c, hc, hcs⟩

theorem GLine.chars {l : Str} (h : GLine l) : ∀ c ∈ l, okCh c := by
  intro c hc
  have := (lineSafe_facts h.2.1).2.1 c hc
  exact ⟨fun e => h.noNl (e ▸ hc), this.1, this.2.1, this.2.2.1, this.2.2.2, fun e => h.2.2.1 (e ▸ hc)⟩

/-- a prefix of harmless characters -/
theorem gline_prefix {p l : Str} (hp : ∀ c ∈ p, okCh c ∧ c ≠ '&') (h : GLine l) : GLine (p ++ l) := by
  obtain ⟨c, hc, hcs⟩ := h.2.2.2.2
  refine gline_of_chars ?_ (refsClosed_noamp_append p l (fun hm => (hp _ hm).2 rfl) h.2.2.2.1)
    ⟨c, List.mem_append_right _ hc, hcs⟩
  intro x hx
  rcases List.mem_append.1 hx with hx | hx
  · exact (hp x hx).1
  · exact h.chars x hx

theorem okCh_space' : okCh ' ' ∧ (' ' : Char) ≠ '&' :=
  ⟨⟨by decide, by decide, by decide, by decide, by decide, by decide⟩, by decide⟩

theorem gline_spaces (n : Nat) {l : Str} (h : GLine l) : GLine (spaces n ++ l) :=
  gline_prefix (fun c hc => by rw [List.eq_of_mem_replicate hc]; exact okCh_space') h

theorem gline_qline (i : Nat) (l : Str) (h : l = [] ∨ GLine l) : GLine (qline i l) := by
  have hgt : okCh '>' ∧ ('>' : Char) ≠ '&' :=
    ⟨⟨by decide, by decide, by decide, by decide, by decide, by decide⟩, by decide⟩
  rcases h with rfl | hg
  · refine gline_of_chars ?_ (refsClosed_of_no_amp _ ?_) ⟨'>', by simp [qline], by decide⟩
    · intro c hc
      simp only [qline, List.isEmpty_nil, if_true, List.mem_append, List.mem_singleton] at hc
      rcases hc with hc | rfl
      · rw [List.eq_of_mem_replicate hc]; exact okCh_space'.1
      · exact hgt.1
    · intro hm
      simp only [qline, List.isEmpty_nil, if_true, List.mem_append, List.mem_singleton] at hm
      rcases hm with hm | hm
      · exact absurd (List.eq_of_mem_replicate hm) (by decide)
      · exact absurd hm (by decide)
  · have hne : l.isEmpty = false := by
      cases l with
      | nil => exact absurd rfl hg.1
      | cons a b => rfl
    have e : qline i l = (spaces i ++ ['>', ' ']) ++ l := by simp [qline, hne]
    rw [e]
    apply gline_prefix _ hg
    intro c hc
    rcases List.mem_append.1 hc with hc | hc
    · rw [List.eq_of_mem_replicate hc]; exact okCh_space'
    · simp only [List.mem_cons, List.mem_nil_iff, or_false] at hc
      rcases hc with rfl | rfl
      · exact hgt
      · exact okCh_space'

theorem ggroup_qlines (i : Nat) (L : List Str) (hne : L ≠ []) (h : ∀ l ∈ L, l = [] ∨ GLine l) :
    GGroup (L.map (qline i)) := by
  refine ⟨by simpa using hne, ?_⟩
  intro l hl
  obtain ⟨x, hx, rfl⟩ := List.mem_map.1 hl
  exact gline_qline i x (h x hx)

theorem gflat_lines (GS : List (List Str)) (h : ∀ g ∈ GS, GGroup g) : ∀ l ∈ flatLines GS, l = [] ∨ GLine l := by
  intro l hl
  rcases mem_flatLines hl with rfl | ⟨g, hg, hlg⟩
  · exact Or.inl rfl
  · exact Or.inr ((h g hg).2 l hlg)

theorem ginner_flatLines (gs : List (List Str)) (h : ∀ g ∈ gs, GGroup g) : ∀ l ∈ flatLines gs, InnerLine l := by
  intro l hl
  rcases gflat_lines gs h l hl with rfl | hg
  · exact innerLine_nil
  · exact hg.inner

theorem gsplit_flatLines (GS : List (List Str)) (hne : GS ≠ []) (h : ∀ g ∈ GS, GGroup g) :
    splitS ['\n', '\n'] (joinLines (flatLines GS)) = GS.map joinLines := by
  rw [joinLines_flatLines GS (fun g hg => (h g hg).1)]
  apply splitS_joinChunks _ (by simpa using hne)
  intro b hb
  obtain ⟨g, hg, rfl⟩ := List.mem_map.1 hb
  exact nel_ggroup g (h g hg)

theorem ggroup_ind (k : Nat) (g : List Str) (h : GGroup g) : GGroup (ind k g) := by
  refine ⟨by simpa [ind] using h.1, ?_⟩
  intro l hl
  obtain ⟨x, hx, rfl⟩ := List.mem_map.1 hl
  exact gline_spaces _ (h.2 x hx)

/-! ### the hole of a context: where the next chunk of the enclosing block goes -/

/-- the state in which a chunk that is routed to the hole is parsed -/
def holeSt (F : List (Node × Node)) (st : List BState) : List BState := if F.isEmpty then st else st ++ [.detabbed]

/-- the element it is parsed into: the parent itself, or the open item with its text moved into a `p` -/
def holeP (F : List (Node × Node)) (H : Node) : Node := if F.isEmpty then H else textToP H

/-- the hole is the parent of the run (no frames; not an item), or an open item below a chain of lists -/
def HoleOK (F : List (Node × Node)) (H : Node) : Prop :=
  (F = [] ∧ isItemTag H = false) ∨ (TopOK F ∧ isItemTag H = true)

theorem holeSt_list (F : List (Node × Node)) (st : List BState) (h : isstate st .list = false) :
    isstate (holeSt F st) .list = false := by
  unfold holeSt; split
  · exact h
  · simp [isstate]

theorem textToP_text (T : Node) : Node.truthy (textToP T).text = false := by
  unfold textToP
  split
  · rfl
  · rename_i h; simpa using h

theorem textToP_of_not_truthy {T : Node} (h : Node.truthy T.text = false) : textToP T = T := by
  simp [textToP, h]

theorem isItemTag_textToP (T : Node) : isItemTag (textToP T) = isItemTag T := by
  unfold textToP; split <;> rfl

theorem isListTag_textToP (T : Node) : isListTag (textToP T) = isListTag T := by
  unfold textToP; split <;> rfl

theorem shell_tag {P Q : Node} (h : Local.shell P = Local.shell Q) : P.tag = Q.tag ∧ P.text = Q.text := by
  cases P; cases Q
  simp only [Local.shell, Node.mk.injEq] at h
  exact ⟨h.1, h.2.2.1⟩

/-- **one chunk goes to the hole**: directly when there are no frames, through `ListIndentProcessor` otherwise -/
theorem step_hole {F : List (Node × Node)} {H H' : Node} (hctx : HoleOK F H) (st : List BState)
    (hl : isstate st .list = false) (hd : isstate st .detabbed = false)
    (g : List Str) (hg : GGroup g) (hsp : ∀ l, g.head? = some l → l.head? ≠ some ' ')
    (hloc : Loc (holeSt F st) (joinLines g) (holeP F H) H') (refs : Refs) (cont : List Str)
    (res : Node × Refs) (hr : RunsE st refs (plug F H') cont res) :
    RunsE st refs (plug F H) (joinLines (ind F.length g) :: cont) res := by
  rcases hctx with ⟨rfl, _⟩ | ⟨⟨X, U, C, rfl, hX, hU, hC⟩, hT⟩
  · rw [List.length_nil, ind_zero]
    have hloc' : Loc st (joinLines g) H H' := by simpa [holeSt, holeP] using hloc
    have hr' : RunsE st refs H' cont res := hr
    exact loc_then hloc' hr' 
  · obtain ⟨l, gr, rfl⟩ : ∃ l gr, g = l :: gr := by
      cases g with
      | nil => exact absurd rfl hg.1
      | cons l gr => exact ⟨l, gr, rfl⟩
    have hl0 := hg.2 l List.mem_cons_self
    obtain ⟨d, l0, rfl⟩ : ∃ d l0, l = d :: l0 := by
      cases l with
      | nil => exact absurd rfl hl0.1
      | cons d l0 => exact ⟨d, l0, rfl⟩
    have hdsp : d ≠ ' ' := by simpa using hsp (d :: l0) rfl
    have hnl : ∀ x ∈ (d :: l0) :: gr, '\n' ∉ x := fun x hx => (hg.2 x hx).noNl
    have hloc' : Loc (st ++ [.detabbed]) (joinLines ((d :: l0) :: gr)) (textToP H) H' := by
      simpa [holeSt, holeP] using hloc
    obtain ⟨f1, hf1⟩ := hloc' refs
    have hsplit : splitS ['\n', '\n'] (joinLines ((d :: l0) :: gr)) = [joinLines ((d :: l0) :: gr)] :=
      splitAux_single true _ (nel_ggroup _ hg)
    have hdisp := dispatch_routed X U C hC hU hX H hT st hl hd d l0 gr hnl hdsp (parseBlocks 4 f1) refs cont
    simp only [parseChunk, hsplit, hf1] at hdisp
    exact runsE_step hdisp hr

/-- the chunks, one at a time, turn `P` into `P'` -/
def StepsFrom (st : List BState) : List Str → Node → Node → Prop
  | [], P, P' => P = P'
  | c :: cs, P, P' => ∃ P1, Loc st c P P1 ∧ StepsFrom st cs P1 P'

/-- a block that is parsed locally: its chunks, one at a time, append the element `n` to any parent that may take it, in
    any state that is not the tight-list state -/
def LocB (gs : List (List Str)) (n : Node) : Prop :=
  ∀ (st : List BState), isstate st .list = false → ∀ P, POK P n → StepsFrom st (gs.map joinLines) P (P.append n)

theorem locB_of_effX {g : List Str} {n : Node} (h : EffX [joinLines g] n) : LocB [g] n :=
  fun st hst P hp => ⟨P.append n, loc_of_effX h st hst P hp, rfl⟩

theorem holeP_of_not_truthy {F : List (Node × Node)} {H : Node}
    (h : F.isEmpty = false → Node.truthy H.text = false) : holeP F H = H := by
  unfold holeP; split
  · rfl
  · rename_i hF; exact textToP_of_not_truthy (h (by simpa using hF))

theorem holeP_text (F : List (Node × Node)) (H : Node) : F.isEmpty = false → Node.truthy (holeP F H).text = false := by
  intro hF
  simp only [holeP, hF, Bool.false_eq_true, if_false]
  exact textToP_text H

theorem isItemTag_holeP (F : List (Node × Node)) (H : Node) : isItemTag (holeP F H) = isItemTag H := by
  unfold holeP; split
  · rfl
  · exact isItemTag_textToP H

theorem holeOK_of_tag {F : List (Node × Node)} {H P : Node} (h : HoleOK F H) (ht : P.tag = H.tag) : HoleOK F P := by
  have e : isItemTag P = isItemTag H := by simp [isItemTag, Node.isTag, ht]
  rcases h with ⟨e0, hi⟩ | ⟨ht', hi⟩
  · exact Or.inl ⟨e0, by rw [e]; exact hi⟩
  · exact Or.inr ⟨ht', by rw [e]; exact hi⟩

/-- further chunks go to a hole whose text is already in a `p` -/
theorem steps_hole {F : List (Node × Node)} (st : List BState) (hl : isstate st .list = false)
    (hd : isstate st .detabbed = false) (refs : Refs) (cont : List Str) (res : Node × Refs) :
    ∀ (gs : List (List Str)), (∀ g ∈ gs, GGroup g ∧ ∀ l, g.head? = some l → l.head? ≠ some ' ') →
    ∀ (H H' : Node), HoleOK F H → (F.isEmpty = false → Node.truthy H.text = false) →
      StepsFrom (holeSt F st) (gs.map joinLines) H H' → RunsE st refs (plug F H') cont res →
      RunsE st refs (plug F H) ((gs.map (fun g => joinLines (ind F.length g))) ++ cont) res := by
  intro gs
  induction gs with
  | nil => intro _ H H' _ _ hs hr; simp only [List.map_nil, StepsFrom] at hs; subst hs; simpa using hr
  | cons g r ih =>
    intro hgs H H' hctx htx hs hr
    obtain ⟨P1, h1, h2⟩ := hs
    have hsh := shell_tag (loc_shell (holeSt_list F st hl) h1)
    have hctx1 : HoleOK F P1 := holeOK_of_tag hctx hsh.1
    have htx1 : F.isEmpty = false → Node.truthy P1.text = false := by rw [hsh.2]; exact htx
    have hrest := ih (fun x hx => hgs x (List.mem_cons_of_mem _ hx)) P1 H' hctx1 htx1 h2 hr
    have := step_hole hctx st hl hd g (hgs g List.mem_cons_self).1 (hgs g List.mem_cons_self).2
      (by rw [holeP_of_not_truthy htx]; exact h1) refs _ res hrest
    simpa using this

/-- **a locally parsed block in a hole** -/
theorem eff_local {F : List (Node × Node)} {H : Node} (hctx : HoleOK F H) (st : List BState)
    (hl : isstate st .list = false) (hd : isstate st .detabbed = false)
    (gs : List (List Str)) (hne : gs ≠ []) (hgs : ∀ g ∈ gs, GGroup g ∧ ∀ l, g.head? = some l → l.head? ≠ some ' ')
    (n : Node) (hloc : LocB gs n) (hpok : POK (holeP F H) n) (refs : Refs) (cont : List Str) (res : Node × Refs)
    (hr : RunsE st refs (plug F ((holeP F H).append n)) cont res) :
    RunsE st refs (plug F H) ((gs.map (fun g => joinLines (ind F.length g))) ++ cont) res := by
  obtain ⟨g, r, rfl⟩ : ∃ g r, gs = g :: r := by
    cases gs with
    | nil => exact absurd rfl hne
    | cons g r => exact ⟨g, r, rfl⟩
  obtain ⟨P1, h1, h2⟩ := hloc (holeSt F st) (holeSt_list F st hl) (holeP F H) hpok
  have hsh := shell_tag (loc_shell (holeSt_list F st hl) h1)
  have hctxP : HoleOK F (holeP F H) := by
    have e := isItemTag_holeP F H
    rcases hctx with ⟨e0, hi⟩ | ⟨ht', hi⟩
    · exact Or.inl ⟨e0, by rw [e]; exact hi⟩
    · exact Or.inr ⟨ht', by rw [e]; exact hi⟩
  have hctx1 : HoleOK F P1 := holeOK_of_tag hctxP hsh.1
  have htx1 : F.isEmpty = false → Node.truthy P1.text = false := by rw [hsh.2]; exact holeP_text F H
  have hrest := steps_hole st hl hd refs cont res r (fun x hx => hgs x (List.mem_cons_of_mem _ hx)) P1 _ hctx1 htx1 h2 hr
  have := step_hole hctx st hl hd g (hgs g List.mem_cons_self).1 (hgs g List.mem_cons_self).2 h1 refs _ res hrest
  simpa using this

/-! ### loose lists: the nodes -/

/-- the paragraph of an item -/
def pNr (X : Str) : Node := mkText "p" X

theorem isItemTag_liRaw (X : Str) : isItemTag (liRaw X) = true := rfl

theorem textToP_liRaw {X : Str} (hne : X ≠ []) : textToP (liRaw X) = liN true [pNr X] := by
  have := truthy_some hne
  simp [textToP, liRaw, this, liN, pNr, mkText, Node.el]

def oneTItem (m : Str) (tx : Txt) : TItem := ⟨m, tx, [], []⟩

theorem oneTItem_ok {esc : List Char} {o : Bool} {m : Str} {tx : Txt} (hm : IsMarker o m) (ht : TxtLine esc tx) :
    TItemOK esc o (oneTItem m tx) :=
  ⟨⟨hm, ht, Or.inl rfl, by intro l hl; cases hl⟩, Or.inl ⟨rfl, rfl⟩⟩

theorem oneTItem_lines (esc : List Char) (m : Str) (tx : Txt) :
    joinLines (tlistLines esc [oneTItem m tx]) = m ++ tx.raw esc := by
  simp [tlistLines, TItem.lines, oneTItem, joinLines_single]

theorem oneTItem_src {esc : List Char} (o : Bool) (m : Str) (tx : Txt) (ht : TxtLine esc tx) :
    (tlistTree o [oneTItem m tx]).src esc = (ulE o).append (liRaw (tx.raw esc)) := by
  rw [tlistTree_src]
  have := titem_src_nil (esc := esc) (oneTItem m tx) ht rfl
  simp only [List.map_cons, List.map_nil, this]
  simp [oneTItem, ulE, Node.append, Node.el]

/-- the chunk that starts a list appends the list with one item, whose text stays in the `li` for now -/
theorem effX_first_item' {esc : List Char} {o : Bool} {m : Str} {tx : Txt} (hm : IsMarker o m)
    (ht : TxtLine esc tx) : EffX [m ++ tx.raw esc] ((ulE o).append (liRaw (tx.raw esc))) := by
  have := teffX_list o [oneTItem m tx] (by simp) (by intro it hit; simp at hit; subst hit; exact oneTItem_ok hm ht)
  rwa [oneTItem_lines, oneTItem_src o m tx ht] at this

/-- a paragraph parsed in a state other than `list` becomes a `p` -/
theorem parse_para' (X : Str) (hX : RawOK X) (f : Nat) (st : List BState) (hst : isstate st .list = false)
    (refs : Refs) (parent : Node) :
    parseBlocks 4 (f + 1) st refs parent [X] = some (parent.append (pNr X), refs) := by
  obtain ⟨_, _, _, _, hv, _⟩ := raw_facts hX
  have hpara : paraP st refs parent X [] = (parent.append (pNr X), refs, []) := by
    simp [paraP, isBlank_of_visible hv, hst, lstrip_of_visible hv, pNr]
  simp only [parseBlocks, dispatch_raw X hX, hpara]

/-- **a later item of a loose list** -/
theorem dispatch_next_item' {esc : List Char} {o : Bool} {m : Str} (hm : IsMarker o m) (tx : Txt)
    (ht : TxtLine esc tx) (Q Uq cur : Node) (hUq : isListTag Uq = true)
    (htl : ∀ c, (textToP cur).last? = some c → Node.truthy c.tail = false)
    (st : List BState) (refs : Refs) (rest : List Str) (f : Nat) :
    dispatch 4 (parseBlocks 4 (f + 1)) st refs (Q.append (Uq.append cur)) (m ++ tx.raw esc) rest =
      some (Q.append ((Uq.append (textToP cur)).append (liN false [pNr (tx.raw esc)])), refs, rest) := by
  have hshape : ∀ it ∈ [oneTItem m tx], TItemShape esc o it := by
    intro it hit; simp at hit; subst hit; exact (oneTItem_ok hm ht).shape
  have hd := tdispatch_list o [oneTItem m tx] (by simp) hshape (parseBlocks 4 (f + 1)) st refs
    (Q.append (Uq.append cur)) rest
  have hgi := tgetItems_list [oneTItem m tx] (by simp) hshape
  rw [oneTItem_lines] at hd hgi
  have hent : [oneTItem m tx].flatMap (TItem.entries esc) = [tx.raw esc] := by simp [TItem.entries, oneTItem]
  rw [hent] at hgi
  rw [hd, listP, hgi]
  have hnew := parse_para' _ ht.raw f (st ++ [.looselist]) (by simp [isstate]) refs (Node.el "li")
  simp only [DocParse.last_append, isListTag_append', hUq, if_true, List.headD_cons, hnew, List.drop_one,
    List.tail_cons, listItems, DocParse.setLast_append, el_li_append]
  cases hx : (textToP cur).last? with
  | none => rfl
  | some lch => simp [htl lch hx]

theorem gline_nl_ne {l : Str} (h : GLine l) : l ≠ [] ∧ '\n' ∉ l := ⟨h.1, h.noNl⟩

/-- **a later item** of the list that is the last child of `Q` -/
theorem step_item' {esc : List Char} {o : Bool} {m : Str} (hm : IsMarker o m) (tx : Txt)
    (ht : TxtLine esc tx) {F0 : List (Node × Node)} {Q : Node} (hctx : CtxOK F0 Q) (Uq cur : Node)
    (hUq : isListTag Uq = true) (htl : ∀ c, (textToP cur).last? = some c → Node.truthy c.tail = false)
    (st : List BState) (hl : isstate st .list = false) (hd : isstate st .detabbed = false)
    (refs : Refs) (cont : List Str) (res : Node × Refs)
    (hr : RunsE st refs (plug F0 (Q.append ((Uq.append (textToP cur)).append (liN false [pNr (tx.raw esc)])))) cont res) :
    RunsE st refs (plug F0 (Q.append (Uq.append cur))) (joinLines (ind F0.length [m ++ tx.raw esc]) :: cont) res := by
  rcases hctx with ⟨rfl, _⟩ | ⟨hF, hq, hqt⟩
  · rw [List.length_nil, ind_zero, joinLines_single]
    exact runsE_step (dispatch_next_item' hm tx ht Q Uq cur hUq htl st refs cont 0) hr
  · obtain ⟨X, U, C, rfl, hX, hU, hC⟩ := hF
    obtain ⟨d, dr, hmr, hdsp, _, hdnl, _⟩ := marker_head hm
    have hT : isItemTag (Q.append (Uq.append cur)) = true := hq
    have htp : textToP (Q.append (Uq.append cur)) = Q.append (Uq.append cur) := by
      have : Node.truthy (Q.append (Uq.append cur)).text = false := hqt
      simp [textToP, this]
    have hnlx : '\n' ∉ m ++ tx.raw esc := (markerLine_facts hm ht.raw).1
    have hne : m ++ tx.raw esc ≠ [] := by rw [hmr]; simp
    have hsplit : splitS ['\n', '\n'] (m ++ tx.raw esc) = [m ++ tx.raw esc] :=
      splitAux_single true _ (nel_line _ hne hnlx)
    have hdisp := dispatch_routed X U C hC hU hX _ hT st hl hd d (dr ++ tx.raw esc) [] (by
        intro x hx; simp only [List.mem_singleton] at hx; subst hx
        have := hnlx; rw [hmr] at this; simpa using this)
      (by simpa using hdsp) (parseBlocks 4 (0 + 1 + 1)) refs cont
    have hin := dispatch_next_item' hm tx ht Q Uq cur hUq htl (st ++ [.detabbed]) refs [] 0
    have e : (d :: (dr ++ tx.raw esc)) = m ++ tx.raw esc := by rw [hmr]; rfl
    rw [joinLines_single, e] at hdisp
    rw [htp] at hdisp
    simp only [parseChunk, hsplit] at hdisp
    rw [show parseBlocks 4 (0 + 1 + 1) (st ++ [.detabbed]) refs (Q.append (Uq.append cur)) [m ++ tx.raw esc] =
      some (Q.append ((Uq.append (textToP cur)).append (liN false [pNr (tx.raw esc)])), refs) by
        simp only [parseBlocks, hin]] at hdisp
    exact runsE_step hdisp hr

/-! ### blocks of a document as data -/

/-- `x`: a block that is parsed locally — its chunks (groups of lines) and its tree; `l`: a loose list of items;
    `it`: an item of a loose list — marker, text of the first paragraph, the further blocks -/
inductive NB where
  | x (gs : List (List Str)) (t : NT)
  | l (o : Bool) (items : List NB)
  | it (m : Str) (tx : Txt) (rest : List NB)

mutual
/-- the groups of lines (chunks) at the indentation level `k` -/
def NB.groups (esc : List Char) (k : Nat) : NB → List (List Str)
  | .x gs _ => gs.map (ind k)
  | .l _ items => NB.groupsL esc k items
  | .it m tx rest => ind k [m ++ tx.raw esc] :: NB.groupsL esc (k + 1) rest
def NB.groupsL (esc : List Char) (k : Nat) : List NB → List (List Str)
  | [] => []
  | b :: r => b.groups esc k ++ NB.groupsL esc k r
end

mutual
/-- the tree; `first`: for an item, whether it is the first of its list -/
def NB.tree (first : Bool) : NB → NT
  | .x _ t => t
  | .l o items => .el (if o then "ol".toList else "ul".toList) .none (NB.treeItems true items)
  | .it _ tx rest => .el "li".toList (if first then .empty else .none) (.el "p".toList tx [] :: NB.trees rest)
def NB.trees : List NB → List NT
  | [] => []
  | b :: r => b.tree false :: NB.trees r
def NB.treeItems (first : Bool) : List NB → List NT
  | [] => []
  | i :: r => i.tree first :: NB.treeItems false r
end

def NT.isBqN (t : NT) : Bool := t.tag == "blockquote".toList
def NT.isListN (t : NT) : Bool := t.tag == "ul".toList || t.tag == "ol".toList

/-- no two quotes and no two lists next to each other -/
def adjT (pb pl : Bool) : List NT → Bool
  | [] => true
  | t :: r => !(pb && t.isBqN) && !(pl && t.isListN) && adjT t.isBqN t.isListN r

/-- a list has two items, or its only item has a second block -/
def NB.firstOK : List NB → Bool
  | .it _ _ rest :: is => !rest.isEmpty || !is.isEmpty
  | _ => false

mutual
inductive OkB (esc : List Char) : NB → Prop
  | x {gs : List (List Str)} {t : NT} : gs ≠ [] →
      (∀ g ∈ gs, GGroup g ∧ ∀ l, g.head? = some l → l.head? ≠ some ' ') →
      LocB gs (t.src esc) → t.ok esc → OkB esc (.x gs t)
  | l {o : Bool} {items : List NB} : OkIs esc o items → NB.firstOK items = true → OkB esc (.l o items)
inductive OkBs (esc : List Char) : List NB → Prop
  | nil : OkBs esc []
  | cons {b : NB} {r : List NB} : OkB esc b → OkBs esc r → OkBs esc (b :: r)
inductive OkI (esc : List Char) : Bool → NB → Prop
  | it {o : Bool} {m : Str} {tx : Txt} {rest : List NB} : IsMarker o m → TxtLine esc tx →
      GLine (m ++ tx.raw esc) → OkBs esc rest → adjT false false (NB.trees rest) = true → OkI esc o (.it m tx rest)
inductive OkIs (esc : List Char) : Bool → List NB → Prop
  | nil {o : Bool} : OkIs esc o []
  | cons {o : Bool} {i : NB} {r : List NB} : OkI esc o i → OkIs esc o r → OkIs esc o (i :: r)
end

/-! ### shapes -/

theorem ngroups_x (esc : List Char) (k : Nat) (gs : List (List Str)) (t : NT) :
    (NB.x gs t).groups esc k = gs.map (ind k) := by rw [NB.groups]
theorem ngroups_l (esc : List Char) (k : Nat) (o : Bool) (items : List NB) :
    (NB.l o items).groups esc k = NB.groupsL esc k items := by rw [NB.groups]
theorem ngroups_it (esc : List Char) (k : Nat) (m : Str) (tx : Txt) (rest : List NB) :
    (NB.it m tx rest).groups esc k = ind k [m ++ tx.raw esc] :: NB.groupsL esc (k + 1) rest := by rw [NB.groups]
theorem ngroupsL_nil (esc : List Char) (k : Nat) : NB.groupsL esc k [] = [] := by rw [NB.groupsL]
theorem ngroupsL_cons (esc : List Char) (k : Nat) (b : NB) (r : List NB) :
    NB.groupsL esc k (b :: r) = b.groups esc k ++ NB.groupsL esc k r := by rw [NB.groupsL]

theorem ntree_x (first : Bool) (gs : List (List Str)) (t : NT) : (NB.x gs t).tree first = t := by rw [NB.tree]
theorem ntree_l (first : Bool) (o : Bool) (items : List NB) :
    (NB.l o items).tree first = .el (if o then "ol".toList else "ul".toList) .none (NB.treeItems true items) := by
  rw [NB.tree]
theorem ntree_it (first : Bool) (m : Str) (tx : Txt) (rest : List NB) :
    (NB.it m tx rest).tree first =
      .el "li".toList (if first then .empty else .none) (.el "p".toList tx [] :: NB.trees rest) := by
  rw [NB.tree]
theorem ntrees_nil : NB.trees [] = [] := by rw [NB.trees]
theorem ntrees_cons (b : NB) (r : List NB) : NB.trees (b :: r) = b.tree false :: NB.trees r := by rw [NB.trees]
theorem ntreeItems_nil (first : Bool) : NB.treeItems first [] = [] := by rw [NB.treeItems]
theorem ntreeItems_cons (first : Bool) (i : NB) (r : List NB) :
    NB.treeItems first (i :: r) = i.tree first :: NB.treeItems false r := by rw [NB.treeItems]

theorem nsrcs_append (esc : List Char) (a b : List NT) : NT.srcs esc (a ++ b) = NT.srcs esc a ++ NT.srcs esc b := by
  simp [nsrcs_eq_map]

theorem nsrcs_cons (esc : List Char) (a : NT) (r : List NT) : NT.srcs esc (a :: r) = a.src esc :: NT.srcs esc r := by
  rw [NT.srcs]

theorem nsrc_it {esc : List Char} (first : Bool) (m : Str) (tx : Txt) (ht : TxtLine esc tx) (rest : List NB) :
    ((NB.it m tx rest).tree first).src esc = liN first (pNr (tx.raw esc) :: NT.srcs esc (NB.trees rest)) := by
  rw [ntree_it]
  obtain ⟨t0, segs, rfl⟩ := ht.isMix
  cases first <;> simp [NT.src, NT.srcs, liN, pNr, mkText, Node.el, Txt.src, Txt.raw]

theorem nsrc_l (esc : List Char) (first : Bool) (o : Bool) (items : List NB) :
    ((NB.l o items).tree first).src esc =
      { ulE o with children := NT.srcs esc (NB.treeItems true items) } := by
  rw [ntree_l]
  cases o <;> simp [NT.src, ulE, Node.el, Txt.src]

theorem isTag_bq_nsrc (esc : List Char) (t : NT) : (t.src esc).isTag "blockquote" = t.isBqN := by
  cases t; simp [NT.src, Node.isTag, NT.isBqN, NT.tag, tagName_beq]

theorem isListTag_nsrc (esc : List Char) (t : NT) : isListTag (t.src esc) = t.isListN := by
  cases t; simp [NT.src, isListTag, Node.isTag, NT.isListN, NT.tag, tagName_beq]

theorem preCode_nsrc (esc : List Char) (t : NT) (h : t.ok esc) : preCode (t.src esc) = none := by
  cases t with
  | el tag tx ks =>
    have hf := gtTagFacts _ (nt_tag_mem h)
    have : (NT.src esc (.el tag tx ks)).isTag "pre" = false := by simp [NT.src, Node.isTag, hf.2.2.1]
    simp [preCode, this]

theorem nsrc_tail (esc : List Char) (t : NT) : (t.src esc).tail = none := by cases t; simp [NT.src]

/-- the elements may follow one another (and what stands before them) -/
theorem adjX_trees (esc : List Char) (ts : List NT) (hok : NT.oks esc ts) :
    ∀ (pb pl : Bool) (prev : Option Node), adjT pb pl ts = true →
      (∀ sib, prev = some sib → preCode sib = none ∧ (sib.isTag "blockquote" = true → pb = true) ∧
        (isListTag sib = true → pl = true)) →
      AdjX prev (NT.srcs esc ts) := by
  induction ts with
  | nil => intro _ _ _ _ _; rw [NT.srcs]; trivial
  | cons t r ih =>
    intro pb pl prev hadj hprev
    rw [noks_cons] at hok
    simp only [adjT, Bool.and_eq_true, Bool.not_eq_true', Bool.and_eq_false_iff] at hadj
    rw [nsrcs_cons]
    refine ⟨?_, ih hok.2 t.isBqN t.isListN (some (t.src esc)) hadj.2 ?_⟩
    · intro sib hs
      obtain ⟨p1, p2, p3⟩ := hprev sib hs
      refine ⟨p1, ?_, ?_⟩
      · intro hn
        rw [isTag_bq_nsrc] at hn
        cases hx : sib.isTag "blockquote" with
        | false => rfl
        | true =>
          rcases hadj.1.1 with h' | h'
          · rw [p2 hx] at h'; cases h'
          · rw [hn] at h'; cases h'
      · intro hn
        rw [isListTag_nsrc] at hn
        cases hx : isListTag sib with
        | false => rfl
        | true =>
          rcases hadj.1.2 with h' | h'
          · rw [p3 hx] at h'; cases h'
          · rw [hn] at h'; cases h'
    · intro sib hs
      cases hs
      exact ⟨preCode_nsrc esc t hok.1, by rw [isTag_bq_nsrc]; exact id, by rw [isListTag_nsrc]; exact id⟩

theorem isList_l' (o : Bool) (items : List NB) : ((NB.l o items).tree false).isListN = true := by
  rw [ntree_l]; cases o <;> simp [NT.isListN, NT.tag]

theorem isBq_l' (o : Bool) (items : List NB) : ((NB.l o items).tree false).isBqN = false := by
  rw [ntree_l]; cases o <;> simp [NT.isBqN, NT.tag]

/-! ### the trees are in the family -/

theorem p_ok {esc : List Char} {tx : Txt} (ht : TxtLine esc tx) : (NT.el "p".toList tx []).ok esc := by
  rw [nok_el]
  exact ⟨by decide, ht.ok, fun e => absurd e (by decide), trivial⟩

mutual
theorem ntree_okB {esc : List Char} : (b : NB) → OkB esc b → (b.tree false).ok esc
  | .x gs t, h => by
    cases h with
    | x _ _ _ hok => rw [ntree_x]; exact hok
  | .l o items, h => by
    cases h with
    | l hi _ =>
      have := ntree_okIs items o hi true
      rw [ntree_l, nok_el]
      exact ⟨ul_mem o, trivial, fun e => by cases o <;> exact absurd e (by decide), this⟩
  | .it _ _ _, h => by cases h
theorem ntree_okBs {esc : List Char} : (bs : List NB) → OkBs esc bs → NT.oks esc (NB.trees bs)
  | [], _ => by rw [ntrees_nil]; trivial
  | b :: r, h => by
    cases h with
    | cons hb hr => rw [ntrees_cons, noks_cons]; exact ⟨ntree_okB b hb, ntree_okBs r hr⟩
theorem ntree_okI {esc : List Char} : (i : NB) → (o : Bool) → OkI esc o i → ∀ first : Bool, (i.tree first).ok esc
  | .it m tx rest, o, h, first => by
    cases h with
    | it hm ht _ hrest _ =>
      have := ntree_okBs rest hrest
      rw [ntree_it, nok_el]
      refine ⟨li_mem, by cases first <;> trivial, fun e => absurd e (by decide), ?_⟩
      rw [noks_cons]
      exact ⟨p_ok ht, this⟩
  | .x _ _, _, h, _ => by cases h
  | .l _ _, _, h, _ => by cases h
theorem ntree_okIs {esc : List Char} : (is : List NB) → (o : Bool) → OkIs esc o is → ∀ first : Bool,
    NT.oks esc (NB.treeItems first is)
  | [], _, _, _ => by rw [ntreeItems_nil]; trivial
  | i :: r, o, h, first => by
    cases h with
    | cons hi hr => rw [ntreeItems_cons, noks_cons]; exact ⟨ntree_okI i o hi first, ntree_okIs r o hr false⟩
end

/-! ### the chunks of a loose list, one after the other -/

theorem nfirstOK_it {m : Str} {tx : Txt} {rest is : List NB} (h : NB.firstOK (.it m tx rest :: is) = true) :
    rest ≠ [] ∨ is ≠ [] := by
  simp only [NB.firstOK, Bool.or_eq_true, Bool.not_eq_true', List.isEmpty_eq_false_iff] at h
  exact h

theorem ctx_of_hole {F : List (Node × Node)} {H : Node} (h : HoleOK F H) : CtxOK F (holeP F H) := by
  rcases h with ⟨rfl, hi⟩ | ⟨ht, hi⟩
  · exact Or.inl ⟨rfl, by simpa [holeP] using hi⟩
  · have hne : F.isEmpty = false := by
      obtain ⟨X, U, C, rfl, _⟩ := ht; rfl
    exact Or.inr ⟨ht, by rw [isItemTag_holeP]; exact hi, holeP_text F H hne⟩

/-- the last child of an open item: the paragraph or the last block so far -/
theorem nlast_kids (esc : List Char) (X : Str) (done : List NT) (sib : Node)
    (h : (pNr X :: NT.srcs esc done).getLast? = some sib) :
    (done = [] ∧ sib = pNr X) ∨ (∃ d' d, done = d' ++ [d] ∧ sib = d.src esc) := by
  rcases List.eq_nil_or_concat done with rfl | ⟨d', d, hdd⟩
  · left; simp [NT.srcs] at h; exact ⟨rfl, h.symm⟩
  · right
    rw [List.concat_eq_append] at hdd
    subst hdd
    refine ⟨d', d, rfl, ?_⟩
    rw [nsrcs_append, nsrcs_cons, ← List.cons_append, List.getLast?_append] at h
    simpa [NT.srcs] using h.symm

theorem ntails_li (esc : List Char) (first : Bool) (X : Str) (done : List NT) :
    ∀ c, (liN first (pNr X :: NT.srcs esc done)).last? = some c → Node.truthy c.tail = false := by
  intro c hc
  rcases nlast_kids esc X done c hc with ⟨_, rfl⟩ | ⟨d', d, rfl, rfl⟩
  · rfl
  · rw [nsrc_tail]; rfl

theorem pNr_prev (X : Str) : ∀ sib, some (pNr X) = some sib → preCode sib = none ∧
    (sib.isTag "blockquote" = true → false = true) ∧ (isListTag sib = true → false = true) := by
  intro sib hs
  cases hs
  exact ⟨rfl, fun h => by simp [pNr, mkText, Node.el, Node.isTag] at h,
    fun h => by simp [pNr, mkText, Node.el, isListTag, Node.isTag] at h⟩

theorem holeOK_item (F : List (Node × Node)) (hF : TopOK F) (T : Node) (hT : isItemTag T = true) : HoleOK F T :=
  Or.inr ⟨hF, hT⟩

theorem holeP_item {F : List (Node × Node)} (hF : TopOK F) (T : Node) : holeP F T = textToP T := by
  obtain ⟨X, U, C, rfl, _⟩ := hF; rfl

theorem length_snoc (F : List (Node × Node)) (x : Node × Node) : (F ++ [x]).length = F.length + 1 := by simp

section main
variable {esc : List Char}

mutual
/-- one block in a hole -/
theorem eff_block : (b : NB) → OkB esc b →
    ∀ (F : List (Node × Node)) (H : Node), HoleOK F H → POK (holeP F H) ((b.tree false).src esc) →
    ∀ (st : List BState), isstate st .list = false → isstate st .detabbed = false →
    ∀ (refs : Refs) (cont : List Str) (res : Node × Refs),
    RunsE st refs (plug F ((holeP F H).append ((b.tree false).src esc))) cont res →
    RunsE st refs (plug F H) ((b.groups esc F.length).map joinLines ++ cont) res
  | .x gs t, h, F, H, hctx, hpok, st, hl, hd, refs, cont, res, hr => by
    cases h with
    | x hne hgs hloc hok =>
      rw [ntree_x] at hpok hr
      have := eff_local hctx st hl hd gs hne hgs (t.src esc) hloc hpok refs cont res hr
      rw [ngroups_x]
      simpa [List.map_map, Function.comp_def] using this
  | .l o (.it m tx1 rest :: is), h, F, H, hctx, hpok, st, hl, hd, refs, cont, res, hr => by
    cases h with
    | l hitems hfirst =>
      cases hitems with
      | cons hi his =>
        cases hi with
        | it hm ht1 hg1 hrest hadj =>
          have hne1 := (raw_facts ht1.raw).1
          have hctxQ : CtxOK F (holeP F H) := ctx_of_hole hctx
          have hfinal : ((NB.l o (.it m tx1 rest :: is)).tree false).src esc =
              { ulE o with children := ((ulE o).children ++
                  liN true (pNr (tx1.raw esc) :: NT.srcs esc (NB.trees rest)) ::
                    NT.srcs esc (NB.treeItems false is)) } := by
            rw [nsrc_l, ntreeItems_cons, nsrcs_cons, nsrc_it true m tx1 ht1]
            simp [ulE, Node.el]
          rw [hfinal] at hr
          -- the remaining items
          have h3 := eff_items is o his F (holeP F H) hctxQ (ulE o)
            (if rest = [] then liRaw (tx1.raw esc) else liN true (pNr (tx1.raw esc) :: NT.srcs esc (NB.trees rest)))
            (liN true (pNr (tx1.raw esc) :: NT.srcs esc (NB.trees rest))) (isListTag_ulE o)
            (by by_cases hr0 : rest = []
                · simp [hr0, ntrees_nil, NT.srcs, textToP_liRaw hne1]
                · simp [hr0, textToP_liN])
            (ntails_li esc true _ _)
            (by intro his0
                rcases nfirstOK_it hfirst with h' | h'
                · simp [h']
                · exact absurd his0 h')
            st hl hd refs cont res hr
          -- the further blocks of the first item
          have h2 : RunsE st refs
              (plug F ((holeP F H).append ((ulE o).append (liRaw (tx1.raw esc)))))
              ((NB.groupsL esc (F.length + 1) rest).map joinLines ++
                ((NB.groupsL esc F.length is).map joinLines ++ cont)) res := by
            by_cases hr0 : rest = []
            · subst hr0
              simpa [ngroupsL_nil] using h3
            · have hF' : TopOK (F ++ [(holeP F H, ulE o)]) := topOK_snoc hctxQ (isListTag_ulE o)
              have hP : holeP (F ++ [(holeP F H, ulE o)]) (liRaw (tx1.raw esc)) = liN true [pNr (tx1.raw esc)] := by
                rw [holeP_item hF', textToP_liRaw hne1]
              have := eff_blocks rest hrest hr0 _ (liRaw (tx1.raw esc)) (holeOK_item _ hF' _ rfl)
                (by rw [hP]; rfl)
                (by rw [hP]
                    exact adjX_trees esc _ (ntree_okBs rest hrest) false false _ hadj (pNr_prev _))
                st hl hd refs _ res
                (by rw [hP, plug_snoc]
                    simpa [hr0, plugF, liN] using h3)
              rw [plug_snoc, length_snoc] at this
              simpa [plugF] using this
          -- the chunk that starts the list
          have hpok' : POK (holeP F H) ((ulE o).append (liRaw (tx1.raw esc))) := by
            refine ⟨hpok.1, fun sib hs => ?_⟩
            obtain ⟨p1, _, p3⟩ := hpok.2 sib hs
            refine ⟨p1, ?_, ?_⟩
            · intro hx; cases o <;> simp [ulE, Node.append, Node.isTag, Node.el] at hx
            · intro _; apply p3; rw [isListTag_nsrc]; exact isList_l' o _
          have hgood : GGroup [m ++ tx1.raw esc] :=
            ⟨by simp, by intro l hl; simp only [List.mem_singleton] at hl; subst hl; exact hg1⟩
          obtain ⟨d, dr, hmr, hdsp, _⟩ := marker_head hm
          have hloc1 := loc_of_effX (effX_first_item' hm ht1) (holeSt F st) (holeSt_list F st hl) (holeP F H) hpok'
          have h1 := step_hole hctx st hl hd [m ++ tx1.raw esc] hgood
            (by intro l hl; simp only [List.head?_cons, Option.some.injEq] at hl; subst hl; rw [hmr]; simpa using hdsp)
            (by simpa [joinLines_single] using hloc1) refs _ res h2
          rw [ngroups_l, ngroupsL_cons, ngroups_it]
          simpa [List.map_append, List.append_assoc] using h1
  | .l o [], h, _, _, _, _, _, _, _, _, _, _, _ => by
    cases h with
    | l _ hf => simp [NB.firstOK] at hf
  | .l o (.x _ _ :: _), h, _, _, _, _, _, _, _, _, _, _, _ => by
    cases h with
    | l _ hf => simp [NB.firstOK] at hf
  | .l o (.l _ _ :: _), h, _, _, _, _, _, _, _, _, _, _, _ => by
    cases h with
    | l _ hf => simp [NB.firstOK] at hf
  | .it _ _ _, h, _, _, _, _, _, _, _, _, _, _, _ => by cases h
/-- blocks in a hole, one after the other -/
theorem eff_blocks : (bs : List NB) → OkBs esc bs → bs ≠ [] →
    ∀ (F : List (Node × Node)) (H : Node), HoleOK F H → isListTag (holeP F H) = false →
    AdjX (holeP F H).last? (NT.srcs esc (NB.trees bs)) →
    ∀ (st : List BState), isstate st .list = false → isstate st .detabbed = false →
    ∀ (refs : Refs) (cont : List Str) (res : Node × Refs),
    RunsE st refs
      (plug F { holeP F H with children := (holeP F H).children ++ NT.srcs esc (NB.trees bs) }) cont res →
    RunsE st refs (plug F H) ((NB.groupsL esc F.length bs).map joinLines ++ cont) res
  | [], _, hne, _, _, _, _, _, _, _, _, _, _, _, _ => absurd rfl hne
  | b :: r, h, _, F, H, hctx, hnl, hadj, st, hl, hd, refs, cont, res, hr => by
    cases h with
    | cons hb hr' =>
      rw [ntrees_cons, nsrcs_cons] at hadj hr
      obtain ⟨hadj1, hadj2⟩ := hadj
      have hpok : POK (holeP F H) ((b.tree false).src esc) := ⟨hnl, hadj1⟩
      by_cases hr0 : r = []
      · subst hr0
        rw [ngroupsL_cons, ngroupsL_nil, List.append_nil]
        refine eff_block b hb F H hctx hpok st hl hd refs cont res ?_
        simpa [ntrees_nil, NT.srcs, Node.append] using hr
      · have hctx1 : HoleOK F ((holeP F H).append ((b.tree false).src esc)) := by
          have e : isItemTag ((holeP F H).append ((b.tree false).src esc)) = isItemTag H := by
            rw [isItemTag_append', isItemTag_holeP]
          rcases hctx with ⟨e0, hi⟩ | ⟨ht', hi⟩
          · exact Or.inl ⟨e0, by rw [e]; exact hi⟩
          · exact Or.inr ⟨ht', by rw [e]; exact hi⟩
        have hhole1 : holeP F ((holeP F H).append ((b.tree false).src esc)) =
            (holeP F H).append ((b.tree false).src esc) :=
          holeP_of_not_truthy (fun hF => holeP_text F H hF)
        have h2 := eff_blocks r hr' hr0 F _ hctx1 (by rw [hhole1]; exact hnl)
          (by rw [hhole1, DocParse.last_append]; exact hadj2) st hl hd refs cont res
          (by rw [hhole1]
              simpa [Node.append, List.append_assoc] using hr)
        have h1 := eff_block b hb F H hctx hpok st hl hd refs _ res h2
        rw [ngroupsL_cons, List.map_append, List.append_assoc]; exact h1
/-- the later items of an open list -/
theorem eff_items : (is : List NB) → (o : Bool) → OkIs esc o is →
    ∀ (F0 : List (Node × Node)) (Q : Node), CtxOK F0 Q → ∀ (Uq cur curF : Node), isListTag Uq = true →
    textToP cur = curF → (∀ c, curF.last? = some c → Node.truthy c.tail = false) → (is = [] → cur = curF) →
    ∀ (st : List BState), isstate st .list = false → isstate st .detabbed = false →
    ∀ (refs : Refs) (cont : List Str) (res : Node × Refs),
    RunsE st refs (plug F0 (Q.append
      { Uq with children := Uq.children ++ curF :: NT.srcs esc (NB.treeItems false is) })) cont res →
    RunsE st refs (plug F0 (Q.append (Uq.append cur))) ((NB.groupsL esc F0.length is).map joinLines ++ cont) res
  | [], o, _, F0, Q, hctx, Uq, cur, curF, hUq, hcur, htl, hfin, st, hl, hd, refs, cont, res, hr => by
    rw [hfin rfl]
    rw [ntreeItems_nil] at hr
    simpa [ngroupsL_nil, NT.srcs, Node.append] using hr
  | .it m tx rest :: is', o, h, F0, Q, hctx, Uq, cur, curF, hUq, hcur, htl, _, st, hl, hd, refs, cont, res, hr => by
    cases h with
    | cons hi his =>
      cases hi with
      | it hm ht hg hrest hadj =>
        have hfinal : ({ Uq with children := (Uq.children ++
              curF :: NT.srcs esc (NB.treeItems false (.it m tx rest :: is'))) } : Node) =
            { Uq.append curF with children := ((Uq.append curF).children ++
              liN false (pNr (tx.raw esc) :: NT.srcs esc (NB.trees rest)) ::
                NT.srcs esc (NB.treeItems false is')) } := by
          rw [ntreeItems_cons, nsrcs_cons, nsrc_it false m tx ht]; simp [Node.append]
        rw [hfinal] at hr
        have hUq' : isListTag (Uq.append curF) = true := hUq
        have h3 := eff_items is' o his F0 Q hctx (Uq.append curF)
          (liN false (pNr (tx.raw esc) :: NT.srcs esc (NB.trees rest)))
          _ hUq' (textToP_liN _ _) (ntails_li esc false _ _) (fun _ => rfl) st hl hd refs cont res hr
        have h2 : RunsE st refs (plug F0 (Q.append ((Uq.append curF).append (liN false [pNr (tx.raw esc)]))))
            ((NB.groupsL esc (F0.length + 1) rest).map joinLines ++
              ((NB.groupsL esc F0.length is').map joinLines ++ cont)) res := by
          by_cases hr0 : rest = []
          · subst hr0
            simpa [ngroupsL_nil, ntrees_nil, NT.srcs] using h3
          · have hF' : TopOK (F0 ++ [(Q, Uq.append curF)]) := topOK_snoc hctx hUq'
            have hP : holeP (F0 ++ [(Q, Uq.append curF)]) (liN false [pNr (tx.raw esc)]) =
                liN false [pNr (tx.raw esc)] := by
              rw [holeP_item hF', textToP_liN]
            have := eff_blocks rest hrest hr0 _ (liN false [pNr (tx.raw esc)]) (holeOK_item _ hF' _ rfl)
              (by rw [hP]; rfl)
              (by rw [hP]
                  exact adjX_trees esc _ (ntree_okBs rest hrest) false false _ hadj (pNr_prev _))
              st hl hd refs _ res
              (by rw [hP, plug_snoc]
                  simpa [plugF, liN] using h3)
            rw [plug_snoc, length_snoc] at this
            simpa [plugF] using this
        have h1 := step_item' hm tx ht hctx Uq cur hUq (by rw [hcur]; exact htl) st hl hd refs _ res
          (by rw [hcur]; exact h2)
        rw [ngroupsL_cons, ngroups_it]
        simpa [List.map_append, List.append_assoc] using h1
  | .x _ _ :: _, _, h, _, _, _, _, _, _, _, _, _, _, _, _, _, _, _, _, _ => by
    cases h with
    | cons hi _ => cases hi
  | .l _ _ :: _, _, h, _, _, _, _, _, _, _, _, _, _, _, _, _, _, _, _, _ => by
    cases h with
    | cons hi _ => cases hi
end

end main

/-! ### every block, seen from a parent that is not an item -/

theorem steps_then {st : List BState} {refs : Refs} {rest : List Str} {res : Node × Refs} :
    ∀ (cs : List Str) (P P' : Node), StepsFrom st cs P P' → RunsE st refs P' rest res →
      RunsE st refs P (cs ++ rest) res := by
  intro cs
  induction cs with
  | nil => intro P P' h hr; simp only [StepsFrom] at h; subst h; simpa using hr
  | cons c r ih =>
    intro P P' h hr
    obtain ⟨P1, h1, h2⟩ := h
    exact loc_then h1 (ih P1 P' h2 hr)

theorem effN_of_locB {gs : List (List Str)} {n : Node} (h : LocB gs n) : EffN (gs.map joinLines) n :=
  fun st _ parent _ _ hl _ _ hpok hr => steps_then _ _ _ (h st hl parent hpok) hr

theorem effN_of_okB {esc : List Char} (b : NB) (h : OkB esc b) :
    EffN ((b.groups esc 0).map joinLines) ((b.tree false).src esc) := by
  intro st refs parent rest res hl hd hpi hpok hr
  have hP : holeP [] parent = parent := rfl
  have := eff_block b h [] parent (Or.inl ⟨rfl, hpi⟩) (by rw [hP]; exact hpok) st hl hd refs rest res
    (by rw [hP]; exact hr)
  exact this

mutual
theorem ngroups_goodB {esc : List Char} : (b : NB) → OkB esc b → ∀ k,
    b.groups esc k ≠ [] ∧ ∀ g ∈ b.groups esc k, GGroup g
  | .x gs t, h, k => by
    cases h with
    | x hne hgs _ _ =>
      rw [ngroups_x]
      refine ⟨by simpa using hne, ?_⟩
      intro g' hg'
      obtain ⟨g, hg, rfl⟩ := List.mem_map.1 hg'
      exact ggroup_ind k g (hgs g hg).1
  | .l o items, h, k => by
    cases h with
    | l hi hf =>
      rw [ngroups_l]
      refine ⟨?_, ngroupsL_goodI items o hi k⟩
      match items, hi, hf with
      | i :: is, hi, _ =>
        cases hi with
        | cons h1 _ =>
          rw [ngroupsL_cons]
          intro e
          exact (ngroups_goodI i o h1 k).1 (List.append_eq_nil_iff.1 e).1
  | .it _ _ _, h, _ => by cases h
theorem ngroupsL_goodB {esc : List Char} : (bs : List NB) → OkBs esc bs → ∀ k,
    ∀ g ∈ NB.groupsL esc k bs, GGroup g
  | [], _, k => by rw [ngroupsL_nil]; intro g hg; cases hg
  | b :: r, h, k => by
    cases h with
    | cons hb hr =>
      rw [ngroupsL_cons]
      intro g hg
      rcases List.mem_append.1 hg with hg | hg
      · exact (ngroups_goodB b hb k).2 g hg
      · exact ngroupsL_goodB r hr k g hg
theorem ngroups_goodI {esc : List Char} : (i : NB) → (o : Bool) → OkI esc o i → ∀ k,
    i.groups esc k ≠ [] ∧ ∀ g ∈ i.groups esc k, GGroup g
  | .it m tx rest, o, h, k => by
    cases h with
    | it hm ht hg hrest _ =>
      rw [ngroups_it]
      refine ⟨by simp, ?_⟩
      intro g hg'
      rcases List.mem_cons.1 hg' with rfl | hg'
      · exact ggroup_ind k _ ⟨by simp, by
          intro l hl; simp only [List.mem_singleton] at hl; subst hl; exact hg⟩
      · exact ngroupsL_goodB rest hrest (k + 1) g hg'
  | .x _ _, _, h, _ => by cases h
  | .l _ _, _, h, _ => by cases h
theorem ngroupsL_goodI {esc : List Char} : (is : List NB) → (o : Bool) → OkIs esc o is → ∀ k,
    ∀ g ∈ NB.groupsL esc k is, GGroup g
  | [], _, _, k => by rw [ngroupsL_nil]; intro g hg; cases hg
  | i :: r, o, h, k => by
    cases h with
    | cons hi hr =>
      rw [ngroupsL_cons]
      intro g hg
      rcases List.mem_append.1 hg with hg | hg
      · exact (ngroups_goodI i o hi k).2 g hg
      · exact ngroupsL_goodI r o hr k g hg
end

theorem ngroupsL_ne_nilB {esc : List Char} (bs : List NB) (h : OkBs esc bs) (hne : bs ≠ []) (k : Nat) :
    NB.groupsL esc k bs ≠ [] := by
  cases h with
  | nil => exact absurd rfl hne
  | cons hb _ =>
    rw [ngroupsL_cons]
    intro e
    exact (ngroups_goodB _ hb k).1 (List.append_eq_nil_iff.1 e).1

theorem ngroupsL_ne_nilI {esc : List Char} (is : List NB) (o : Bool) (h : OkIs esc o is)
    (hne : is ≠ []) (k : Nat) : NB.groupsL esc k is ≠ [] := by
  cases h with
  | nil => exact absurd rfl hne
  | cons hi _ =>
    rw [ngroupsL_cons]
    intro e
    exact (ngroups_goodI _ o hi k).1 (List.append_eq_nil_iff.1 e).1

/-- the printed form of one block seen from a parent that is not an item: its groups of lines and its tree -/
structure NKid where
  gs : List (List Str)
  t : NT

structure NKidOK (esc : List Char) (k : NKid) : Prop where
  ne : k.gs ≠ []
  good : ∀ g ∈ k.gs, GGroup g
  eff : EffN (k.gs.map joinLines) (k.t.src esc)
  ok : k.t.ok esc

theorem nkid_of_okB {esc : List Char} (b : NB) (h : OkB esc b) : NKidOK esc ⟨b.groups esc 0, b.tree false⟩ :=
  ⟨(ngroups_goodB b h 0).1, (ngroups_goodB b h 0).2, effN_of_okB b h, ntree_okB b h⟩

def allG (ks : List NKid) : List (List Str) := ks.flatMap (·.gs)

theorem allG_cons (k : NKid) (r : List NKid) : allG (k :: r) = k.gs ++ allG r := by simp [allG]

theorem effLX_nkids (esc : List Char) (ks : List NKid) (h : ∀ k ∈ ks, NKidOK esc k) :
    EffLX ((allG ks).map joinLines) (ks.map (fun k => k.t.src esc)) := by
  induction ks with
  | nil => exact effLX_nil
  | cons k r ih =>
    have := effLX_cons (h k List.mem_cons_self).eff (ih (fun x hx => h x (List.mem_cons_of_mem _ hx)))
    simpa [allG] using this

theorem allG_good (esc : List Char) (ks : List NKid) (h : ∀ k ∈ ks, NKidOK esc k) : ∀ g ∈ allG ks, GGroup g := by
  intro g hg
  obtain ⟨k, hk, hgk⟩ := List.mem_flatMap.1 hg
  exact (h k hk).good g hgk

theorem allG_ne (esc : List Char) (ks : List NKid) (hne : ks ≠ []) (h : ∀ k ∈ ks, NKidOK esc k) : allG ks ≠ [] := by
  cases ks with
  | nil => exact absurd rfl hne
  | cons k r =>
    rw [allG_cons]
    intro e
    exact (h k List.mem_cons_self).ne (List.append_eq_nil_iff.1 e).1

theorem noks_of_nkids (esc : List Char) (ks : List NKid) (h : ∀ k ∈ ks, NKidOK esc k) :
    NT.oks esc (ks.map (·.t)) := by
  induction ks with
  | nil => trivial
  | cons k r ih =>
    rw [List.map_cons, noks_cons]
    exact ⟨(h k List.mem_cons_self).ok, ih (fun x hx => h x (List.mem_cons_of_mem _ hx))⟩

/-! ### block quotes -/

/-- **a quote chunk that starts a new `blockquote`** -/
theorem loc_quote_new (i : Nat) (hi : i ≤ 3) (L : List Str) (hne : L ≠ []) (hL : ∀ l ∈ L, InnerLine l)
    (ICS : List Str) (hsplit : splitS ['\n', '\n'] (joinLines L) = ICS) (ns : List Node)
    (hinner : EffLX ICS ns) (hadj : AdjX none ns)
    (st : List BState) (P : Node)
    (hpar : ∀ sib, P.last? = some sib → preCode sib = none ∧ sib.isTag "blockquote" = false) :
    Loc st (joinLines (L.map (qline i))) P (P.append (bqNode ns)) := by
  intro refs
  have hin := hinner (st ++ [.blockquote]) refs (Node.el "blockquote") [] (bqNode ns, refs)
    (by simp [isstate]) (by simp [isstate]) rfl rfl
    (by simpa [Node.last?, Node.el] using hadj) (by
      have : ({ Node.el "blockquote" with children := (Node.el "blockquote").children ++ ns } : Node) = bqNode ns := by
        simp [Node.el, bqNode]
      rw [this]; exact runsE_nil _ _ _)
  obtain ⟨fi, hi'⟩ := hin
  simp only [List.append_nil] at hi'
  have hpre : ∀ sib, P.last? = some sib → preCode sib = none := fun sib hs => (hpar sib hs).1
  have hd : dispatch 4 (parseBlocks 4 (fi + 1)) st refs P (joinLines (L.map (qline i))) [] =
      some (P.append (bqNode ns), refs, []) := by
    rw [dispatch_quote _ _ _ _ _ i hi L hne hL]
    have hin' := parseBlocks_le 4 (Nat.le_succ fi) _ _ _ _ _ hi'
    simp only [quoteP, List.take_zero, parseBlocks_before fi st refs P hpre, List.drop_zero,
      cleaned_qlines i hi L hne hL, parseChunk, hsplit]
    cases hl : P.last? with
    | none => simp [hin']
    | some sib => simp [(hpar sib hl).2, hin']
  exact runsE_step hd (runsE_nil _ _ _)

/-- **a quote chunk that continues the `blockquote` before it** -/
theorem loc_quote_merge (i : Nat) (hi : i ≤ 3) (L : List Str) (hne : L ≠ []) (hL : ∀ l ∈ L, InnerLine l)
    (ICS : List Str) (hsplit : splitS ['\n', '\n'] (joinLines L) = ICS) (ns : List Node)
    (hinner : EffLX ICS ns) (st : List BState) (P : Node) (cs : List Node)
    (hlast : P.last? = some (bqNode cs)) (hadj : AdjX cs.getLast? ns) :
    Loc st (joinLines (L.map (qline i))) P (P.setLast (bqNode (cs ++ ns))) := by
  intro refs
  have hin := hinner (st ++ [.blockquote]) refs (bqNode cs) [] (bqNode (cs ++ ns), refs)
    (by simp [isstate]) (by simp [isstate]) rfl rfl
    (by simpa [Node.last?, bqNode] using hadj) (by
      have : ({ bqNode cs with children := (bqNode cs).children ++ ns } : Node) = bqNode (cs ++ ns) := by
        simp [bqNode]
      rw [this]; exact runsE_nil _ _ _)
  obtain ⟨fi, hi'⟩ := hin
  simp only [List.append_nil] at hi'
  have hpre : ∀ sib, P.last? = some sib → preCode sib = none := by
    intro sib hs; rw [hlast] at hs; cases hs; exact preCode_bqNode cs
  have hd : dispatch 4 (parseBlocks 4 (fi + 1)) st refs P (joinLines (L.map (qline i))) [] =
      some (P.setLast (bqNode (cs ++ ns)), refs, []) := by
    rw [dispatch_quote _ _ _ _ _ i hi L hne hL]
    have hin' := parseBlocks_le 4 (Nat.le_succ fi) _ _ _ _ _ hi'
    simp only [quoteP, List.take_zero, parseBlocks_before fi st refs P hpre, List.drop_zero,
      cleaned_qlines i hi L hne hL, parseChunk, hsplit, hlast, isTag_bqNode, if_true, hin']
  exact runsE_step hd (runsE_nil _ _ _)

/-- the tree of a quote -/
def bqTree (ks : List NKid) : NT := .el "blockquote".toList .none (ks.map (·.t))

theorem bqTree_src (esc : List Char) (ks : List NKid) :
    (bqTree ks).src esc = bqNode (ks.map (fun k => k.t.src esc)) := by
  simp [bqTree, NT.src, nsrcs_eq_map, bqNode, Txt.src, List.map_map, Function.comp_def]

theorem bqTree_ok (esc : List Char) (ks : List NKid) (h : ∀ k ∈ ks, NKidOK esc k) : (bqTree ks).ok esc := by
  rw [bqTree, nok_el]
  exact ⟨by decide, trivial, fun e => absurd e (by decide), noks_of_nkids esc ks h⟩

theorem pok_bq {P : Node} {ns : List Node} (h : POK P (bqNode ns)) :
    ∀ sib, P.last? = some sib → preCode sib = none ∧ sib.isTag "blockquote" = false :=
  fun sib hs => ⟨(h.2 sib hs).1, (h.2 sib hs).2.1 (isTag_bqNode ns)⟩

/-- **a quote whose children are separated by `>` lines**: one chunk -/
theorem locB_quote_tight (esc : List Char) (i : Nat) (hi : i ≤ 3) (ks : List NKid) (hne : ks ≠ [])
    (h : ∀ k ∈ ks, NKidOK esc k) (hadj : adjT false false (ks.map (·.t)) = true) :
    LocB [(flatLines (allG ks)).map (qline i)] ((bqTree ks).src esc) := by
  have hgood := allG_good esc ks h
  have hGne := allG_ne esc ks hne h
  have hLne : flatLines (allG ks) ≠ [] := flatLines_ne_nil _ hGne (fun g hg => (hgood g hg).1)
  intro st _ P hpok
  rw [bqTree_src] at hpok ⊢
  refine ⟨_, ?_, rfl⟩
  refine loc_quote_new i hi (flatLines (allG ks)) hLne (ginner_flatLines _ hgood)
    ((allG ks).map joinLines) (gsplit_flatLines _ hGne hgood) _ (effLX_nkids esc ks h) ?_ st P (pok_bq hpok)
  have := adjX_trees esc (ks.map (·.t)) (noks_of_nkids esc ks h) false false none hadj (by intro sib hs; cases hs)
  simpa [nsrcs_eq_map, List.map_map, Function.comp_def] using this

/-- the chunks of a quote whose children are separated by blank lines -/
def qGroupsB (i : Nat) (ks : List NKid) : List (List Str) := ks.map (fun k => (flatLines k.gs).map (qline i))

theorem steps_quote_rest (esc : List Char) (i : Nat) (hi : i ≤ 3) (st : List BState) (P : Node)
    (r : List NKid) (h : ∀ k ∈ r, NKidOK esc k) :
    ∀ (done : List Node), AdjX done.getLast? (r.map (fun k => k.t.src esc)) →
      StepsFrom st ((qGroupsB i r).map joinLines) (P.append (bqNode done))
        (P.append (bqNode (done ++ r.map (fun k => k.t.src esc)))) := by
  induction r with
  | nil => intro done _; simp [qGroupsB, StepsFrom]
  | cons k r' ih =>
    intro done hadj
    have hk := h k List.mem_cons_self
    have hLne : flatLines k.gs ≠ [] := flatLines_ne_nil _ hk.ne (fun g hg => (hk.good g hg).1)
    have hm := loc_quote_merge i hi (flatLines k.gs) hLne (ginner_flatLines _ hk.good)
      (k.gs.map joinLines) (gsplit_flatLines _ hk.ne hk.good) [k.t.src esc]
      (by simpa using effLX_cons hk.eff effLX_nil) st (P.append (bqNode done)) done
      (DocParse.last_append _ _) ⟨hadj.1, trivial⟩
    rw [DocParse.setLast_append] at hm
    have ih' := ih (fun x hx => h x (List.mem_cons_of_mem _ hx)) (done ++ [k.t.src esc]) (by simpa using hadj.2)
    refine ⟨_, by simpa [qGroupsB] using hm, ?_⟩
    simpa [qGroupsB, List.append_assoc] using ih'

/-- **a quote whose children are separated by blank lines**: one chunk per child, the later ones continue the
    `blockquote` of the first -/
theorem locB_quote_blank (esc : List Char) (i : Nat) (hi : i ≤ 3) (ks : List NKid) (hne : ks ≠ [])
    (h : ∀ k ∈ ks, NKidOK esc k) (hadj : adjT false false (ks.map (·.t)) = true) :
    LocB (qGroupsB i ks) ((bqTree ks).src esc) := by
  obtain ⟨k, r, rfl⟩ : ∃ k r, ks = k :: r := by
    cases ks with
    | nil => exact absurd rfl hne
    | cons k r => exact ⟨k, r, rfl⟩
  have hk := h k List.mem_cons_self
  have hr : ∀ x ∈ r, NKidOK esc x := fun x hx => h x (List.mem_cons_of_mem _ hx)
  intro st _ P hpok
  rw [bqTree_src] at hpok ⊢
  have hA := adjX_trees esc ((k :: r).map (·.t)) (noks_of_nkids esc _ h) false false none hadj
    (by intro sib hs; cases hs)
  simp only [List.map_cons, nsrcs_eq_map, List.map_map, Function.comp_def] at hA
  have hLne : flatLines k.gs ≠ [] := flatLines_ne_nil _ hk.ne (fun g hg => (hk.good g hg).1)
  have hnew := loc_quote_new i hi (flatLines k.gs) hLne (ginner_flatLines _ hk.good)
    (k.gs.map joinLines) (gsplit_flatLines _ hk.ne hk.good) [k.t.src esc]
    (by simpa using effLX_cons hk.eff effLX_nil) ⟨hA.1, trivial⟩ st P
    (fun sib hs => ⟨(hpok.2 sib hs).1, (hpok.2 sib hs).2.1 (isTag_bqNode _)⟩)
  have hrest := steps_quote_rest esc i hi st P r hr [k.t.src esc] (by simpa using hA.2)
  refine ⟨_, by simpa [qGroupsB] using hnew, ?_⟩
  simpa [qGroupsB] using hrest

theorem ggroups_quote_tight (esc : List Char) (i : Nat) (ks : List NKid) (hne : ks ≠ [])
    (h : ∀ k ∈ ks, NKidOK esc k) : GGroup ((flatLines (allG ks)).map (qline i)) := by
  have hgood := allG_good esc ks h
  have hGne := allG_ne esc ks hne h
  exact ggroup_qlines i _ (flatLines_ne_nil _ hGne (fun g hg => (hgood g hg).1)) (gflat_lines _ hgood)

theorem ggroups_quote_blank (esc : List Char) (i : Nat) (ks : List NKid) (h : ∀ k ∈ ks, NKidOK esc k) :
    ∀ g ∈ qGroupsB i ks, GGroup g := by
  intro g hg
  obtain ⟨x, hx, rfl⟩ := List.mem_map.1 hg
  have hxk := h x hx
  exact ggroup_qlines i _ (flatLines_ne_nil _ hxk.ne (fun g hg => (hxk.good g hg).1)) (gflat_lines _ hxk.good)

theorem qline_head0 (l : Str) : (qline 0 l).head? = some '>' := by
  unfold qline; split <;> simp [spaces]

end MdVerif.DocNest
